(* C16: the invariant of the queue programs (Model/QueueCode.v) under the interleaving
   semantics of Model/QueueProg.v holds initially and along every run (step lemma:
   Proofs/QueueInvStep.v; definitions: Proofs/QueueInvBase.v), and its consequences.  Any number of
   main threads per process (own = the process of each (main thread, feeder slot) pair).
   Nothing here depends on the generated programs; Proofs/QueueProofs.v transports the results. *)
From Coq Require Import ZArith List Bool Lia ZifyBool Arith.
From BV Require Import Model.SemProg Model.QueueProg Model.QueueCode Proofs.SemProgProofs.
From BV Require Export Proofs.QueueInvBase Proofs.QueueInvStep.
Import ListNotations.
Open Scope Z_scope.

Opaque upds updz upd updp.
Opaque nls nss sid.

Lemma nth_proc_sems : forall n p, (p < n)%nat ->
    nth (2 * p) (proc_sems n) dsem = ctor_Lock /\ nth (2 * p + 1) (proc_sems n) dsem = ctor_Semaphore 0.
Proof.
  induction n as [|n IH]; intros p Hp; [lia|].
  destruct p as [|p]; [split; reflexivity|].
  replace (2 * S p)%nat with (S (S (2 * p))) by lia. replace (S (S (2 * p)) + 1)%nat with (S (S (2 * p + 1))) by lia.
  cbn [proc_sems nth]. apply IH. lia.
Qed.

Lemma qworld_shape : forall M n, qshape M n (qworld M n).
Proof.
  intros M n. unfold qshape, qworld, queue_sems.
  split; [reflexivity|]. split; [reflexivity|].
  split; [intros s [E|E]; subst; split; reflexivity|].
  split; [intros s [E|[E|[E|E]]]; subst; split; reflexivity|].
  split; [reflexivity|].
  intros p Hp. rewrite nls_eq, nss_eq.
  set (l8 := [ctor_BoundedSemaphore M; ctor_Lock; ctor_Lock; ctor_Semaphore 0; ctor_RLock;
              ctor_Semaphore 0; ctor_Semaphore 0; ctor_Semaphore 0]).
  replace (8 + 2 * p)%nat with (length l8 + 2 * p)%nat by reflexivity.
  replace (9 + 2 * p)%nat with (length l8 + (2 * p + 1))%nat by (cbn [length l8]; lia).
  rewrite !app_nth2_plus. destruct (nth_proc_sems n p Hp) as [A B]. rewrite A, B. repeat split; reflexivity.
Qed.

Lemma nth_repeat_dps : forall n q, nth q (repeat dps n) dps = dps.
Proof. induction n as [|n IH]; intros [|q]; cbn; auto. Qed.

Lemma feeder_start : forall p ps, qstart qcode p true [] [] [(FEED, 0, 0, 0)] ps =
    (mkQT p true (FEED, 0, 0, 0) 0 (qinit_regs 0 0 0) [] [] [] false, ps).
Proof. intros. reflexivity. Qed.

Transparent updp.
Lemma updp_repeat_dps : forall n p, (p < n)%nat -> updp (repeat dps n) p dps = repeat dps n.
Proof.
  induction n as [|n IH]; intros p Hp; [lia|].
  destruct p as [|p]; cbn [repeat updp]; [reflexivity|]. rewrite IH by lia. reflexivity.
Qed.
Opaque updp.

(* the process of every pair is one of the n process states *)
Definition own_ok (n : nat) (own : list nat) : Prop := forall q, (q < n)%nat -> (owner own q < n)%nat.

Lemma own_ok_nil : forall n, own_ok n [].
Proof. intros n q Hq. unfold owner. destruct q; exact Hq. Qed.

Lemma init_threads : forall scripts own n q, Forall (Forall okq) scripts ->
    (forall k, (k < length scripts)%nat -> (owner own (q + k) < n)%nat) ->
    exists ts, qinit_threads qcode FEED q own scripts (repeat dps n) = (ts, repeat dps n) /\
               length ts = (2 * length scripts)%nat /\
               forall j t, nth_error ts j = Some t ->
                           qproc t = owner own (q + Nat.div2 j) /\ qfeeder t = Nat.odd j /\ QLI t /\ landed t /\
                           qresults t = [] /\ (qfeeder t = true -> qpc t = 0%nat) /\ tput t = [].
Proof.
  induction scripts as [|sc scripts IH]; intros own n q Hs Hown.
  - exists []. split; [reflexivity|]. split; [reflexivity|]. intros [|j] t H; discriminate.
  - inversion Hs as [|x l Hsc Hs']; subst.
    cbn [qinit_threads]. rewrite nth_repeat_dps.
    assert (Hp : (owner own q < n)%nat) by (specialize (Hown 0%nat ltac:(cbn; lia)); rewrite Nat.add_0_r in Hown; exact Hown).
    destruct (qstart_facts sc (owner own q) [] [] dps Hsc ltac:(cbn; lia)) as (tm & Em & Lm & Pm & Fm & Dm).
    rewrite Em, feeder_start, (updp_repeat_dps n _ Hp).
    destruct (IH own n (S q) Hs') as (ts & Et & Hl & Hall).
    { intros k Hk. replace (S q + k)%nat with (q + S k)%nat by lia. apply Hown. cbn [length]. lia. }
    rewrite Et.
    eexists. split; [reflexivity|]. split; [cbn [length]; lia|].
    intros [|[|j]] t H; cbn [nth_error] in H.
    + inversion H; subst t. cbn [Nat.div2 Nat.odd]. rewrite Nat.add_0_r. destruct Dm as (D1 & D2 & D3).
      split; [exact Pm|]. split; [exact Fm|]. split; [exact Lm|]. split; [exact D1|]. split; [exact D2|].
      split; [intros E; congruence|]. unfold tput. rewrite D2, D3. reflexivity.
    + inversion H; subst t. cbn [Nat.div2 Nat.odd qproc qfeeder qpc]. rewrite Nat.add_0_r.
      split; [reflexivity|]. split; [reflexivity|]. split; [|split; [|split; [reflexivity|split; reflexivity]]].
      * unfold QLI; cbn [qheld qfeeder qfin qcid qcur fst qscript qpc qrg nth]. unfold FEED. cbn [qli_pc].
        repeat split; auto; lia.
      * unfold landed, qt_tr, qt_rl, qt_wl, qt_nl, ftr, gheld, qw_unf, FEED; cbn [qfin qcid qcur fst qpc qproc w_tr w_rl w_wl w_nl w_pc w_dc].
        repeat split; auto. intros q0. destruct (Nat.eqb (owner own q) q0); reflexivity.
    + destruct (Hall j t H) as (A & B & C).
      cbn [Nat.div2]. replace (Nat.odd (S (S j))) with (Nat.odd j) by (rewrite !Nat.odd_succ, Nat.even_succ; reflexivity).
      split; [rewrite A; f_equal; lia|]. split; [exact B|exact C].
Qed.
Lemma sumz_repeat0 : forall (f : pstate -> Z) n, f dps = 0 -> sumz f (repeat dps n) = 0.
Proof. intros f n H. induction n as [|n IH]; cbn; lia. Qed.

Lemma qworld_vals : forall M n,
    val (nth 0 (qworld M n) dsem) = M /\ val (nth 1 (qworld M n) dsem) = 1 /\ val (nth 2 (qworld M n) dsem) = 1 /\
    forall p, (p < n)%nat -> val (nth (nls p) (qworld M n) dsem) = 1.
Proof.
  intros M n. unfold qworld, queue_sems. repeat split; try reflexivity.
  intros p Hp. rewrite nls_eq.
  set (l8 := [ctor_BoundedSemaphore M; ctor_Lock; ctor_Lock; ctor_Semaphore 0; ctor_RLock;
              ctor_Semaphore 0; ctor_Semaphore 0; ctor_Semaphore 0]).
  replace (8 + 2 * p)%nat with (length l8 + 2 * p)%nat by reflexivity.
  rewrite app_nth2_plus. destruct (nth_proc_sems n p Hp) as [A _]. rewrite A. reflexivity.
Qed.

Lemma qinv_init : forall M own scripts, 0 <= M -> Forall (Forall okq) scripts -> own_ok (length scripts) own ->
    QInv M own (qinit_own M own scripts).
Proof.
  intros M own scripts HM Hs Hown. unfold qinit_own, qinit_sys.
  destruct (init_threads scripts own (length scripts) 0 Hs) as (ts & Et & Hl & Hall); [intros k Hk; apply Hown; exact Hk|]. rewrite Et.
  assert (Hland : forall t, In t ts -> landed t).
  { intros t Ht. apply In_nth_error in Ht. destruct Ht as [j Hj]. destruct (Hall j t Hj) as (_ & _ & _ & L & _). exact L. }
  assert (Hres : forall t, In t ts -> qresults t = []).
  { intros t Ht. apply In_nth_error in Ht. destruct Ht as [j Hj]. destruct (Hall j t Hj) as (_ & _ & _ & _ & L & _). exact L. }
  destruct (qworld_vals M (length scripts)) as (V0 & V1 & V2 & VP).
  constructor; unfold qv; cbn [qsems qthr pipe procs sendlog getlog]; rewrite ?repeat_length; rewrite ?nth_repeat_dps.
  - apply qworld_shape.
  - exact Hl.
  - exact Hown.
  - intros i t Ht. destruct (Hall i t Ht) as (A & B & _). split; [rewrite A; reflexivity|exact B].
  - intros t Ht. apply In_nth_error in Ht. destruct Ht as [j Hj]. destruct (Hall j t Hj) as (_ & _ & L & _). exact L.
  - rewrite V0, sumz_repeat0 by reflexivity. rewrite (sumz_zero _ qt_tr) by (intros t Ht; apply (Hland t Ht)). cbn; lia.
  - rewrite V0; lia.
  - rewrite V1, (sumz_zero _ qt_rl) by (intros t Ht; apply (Hland t Ht)). lia.
  - rewrite V2, (sumz_zero _ qt_wl) by (intros t Ht; apply (Hland t Ht)). lia.
  - intros p Hp. rewrite (VP p Hp), (sumz_zero _ (qt_nl p)) by (intros t Ht; apply (Hland t Ht)). lia.
  - intros p. rewrite nth_repeat_dps. reflexivity.
  - reflexivity.
  - intros m. rewrite sumz_repeat0 by reflexivity. reflexivity.
  - intros p. rewrite nth_repeat_dps. reflexivity.
  - intros m Hm. cbn [zcnt]. symmetry. apply sumz_zero. intros t Ht. unfold qt_ret.
    rewrite (Hres t Ht). destruct (Hland t Ht) as (_ & _ & _ & _ & _ & L & _). rewrite L. reflexivity.
  - split; [|unfold qworld, queue_sems; cbn; lia].
    rewrite (sumz_zero _ qt_unf); [reflexivity|]. intros t Ht. rewrite qt_unf_eq, (Hres t Ht).
    destruct (Hland t Ht) as (_ & _ & _ & _ & _ & _ & L). rewrite L. reflexivity.
  - intros p j Hj. rewrite nth_repeat_dps in Hj. destruct Hj.
  - intros p. rewrite nth_repeat_dps. cbn. lia.
  - intros j t Ht Hf _. destruct (Hall j t Ht) as (_ & _ & _ & _ & _ & L & _). auto.
  - intros j t Ht Hst. exfalso. apply (landed_not_start t); [apply Hland; eapply nth_error_In; eauto|exact Hst].
  - intros p _. rewrite nth_repeat_dps. reflexivity.
  - intros j t Ht. destruct (Hall j t Ht) as (_ & _ & _ & _ & _ & _ & L). rewrite L. constructor.
Qed.

Lemma qinit_procs : forall M own scripts, Forall (Forall okq) scripts -> own_ok (length scripts) own ->
    procs (qinit_own M own scripts) = repeat dps (length scripts).
Proof.
  intros M own scripts Hs Hown. unfold qinit_own, qinit_sys.
  destruct (init_threads scripts own (length scripts) 0 Hs) as (ts & Et & _); [intros k Hk; apply Hown; exact Hk|].
  rewrite Et. reflexivity.
Qed.

Fixpoint qrun_small (g : qsys) (sched : list (nat * bool)) : Prop :=
  qsmall g /\
  match sched with
  | [] => True
  | (i, go) :: r => match qstep qcode g i go with Some (g1, _) => qrun_small g1 r | None => True end
  end.

Lemma qinv_run : forall M own sched g g' es ok,
    QInv M own g -> qrun_small g sched -> qrun qcode g sched = (g', es, ok) -> QInv M own g'.
Proof.
  intros M own. induction sched as [|[i go] sched IH]; intros g g' es ok HI Hs H; cbn [qrun] in H.
  - inversion H; subst; auto.
  - cbn [qrun_small] in Hs. destruct Hs as [Hsm Hs].
    destruct (qstep qcode g i go) as [[g1 e]|] eqn:Es.
    + destruct (qrun qcode g1 sched) as [[g2 es2] ok2] eqn:Er. inversion H; subst.
      apply (IH g1 g' es2 ok); auto. eapply qstep_inv; eauto.
    + inversion H; subst; auto.
Qed.
(* ------------------------------------------------------------------ consequences *)
Fixpoint psum (f : nat -> Z) (n : nat) : Z :=
  match n with O => 0 | S k => psum f k + f k end.

Lemma sumz_psum : forall (f : pstate -> Z) l,
    sumz f l = psum (fun p => f (nth p l dps)) (length l).
Proof.
  intros f l. induction l as [|x l IH] using rev_ind; [reflexivity|].
  assert (E : sumz f (l ++ [x]) = sumz f l + f x).
  { clear. induction l as [|y l IH]; cbn; [lia|]. rewrite IH. lia. }
  rewrite E, app_length. cbn [length]. rewrite Nat.add_1_r. cbn [psum].
  rewrite app_nth2, Nat.sub_diag by lia. cbn [nth]. rewrite IH.
  f_equal. clear. 
  assert (G : forall n, (n <= length l)%nat -> psum (fun p => f (nth p l dps)) n = psum (fun p => f (nth p (l ++ [x]) dps)) n).
  { induction n as [|n IHn]; intros Hn; [reflexivity|]. cbn [psum]. rewrite IHn by lia. rewrite app_nth1 by lia. reflexivity. }
  apply G. lia.
Qed.

Lemma psum_ext : forall f g n, (forall p, (p < n)%nat -> f p = g p) -> psum f n = psum g n.
Proof. induction n as [|n IH]; intros H; [reflexivity|]. cbn [psum]. rewrite IH, H by auto. reflexivity. Qed.

Lemma psum_add : forall f g n, psum (fun p => f p + g p) n = psum f n + psum g n.
Proof. induction n as [|n IH]; cbn [psum]; lia. Qed.

(* capacity: free slots + buffered + in the pipe + in transit = maxsize *)
Theorem queue_capacity : forall M own g, QInv M own g ->
    qv 0 g + sumz blen (procs g) + Z.of_nat (length (pipe g)) + sumz qt_tr (qthr g) = M /\
    0 <= qv 0 g /\
    sumz blen (procs g) + Z.of_nat (length (pipe g)) <= M.
Proof.
  intros M own g HI. pose proof (q_cap M own g HI). pose proof (q_cap0 M own g HI).
  assert (0 <= sumz qt_tr (qthr g)) by (apply sumz_nonneg; intros; apply qt_01).
  repeat split; lia.
Qed.

(* per producer, restricted to the messages that can be serialised (pk): what it appended = what
   its feeder sent ++ what the feeder holds ++ its buffer, IN ORDER; the pipe is FIFO; the global send log is an order-preserving merge of the
   producers' send logs: its entries written by p's feeder are, in order, exactly slog p *)
Theorem queue_fifo : forall M own g, QInv M own g ->
    (forall p, pk (plog (nth p (procs g) dps)) =
               slog (nth p (procs g) dps) ++ pk (fd_ftr (nth p (procs g) dps) (qthr g)) ++ pk (buf (nth p (procs g) dps))) /\
    map snd (sendlog g) = getlog g ++ pipe g /\
    (forall p, from_proc p (sendlog g) = slog (nth p (procs g) dps)) /\
    (forall m, zcnt m (map snd (sendlog g)) = sumz (fun ps => zcnt m (slog ps)) (procs g)).
Proof.
  intros M own g HI. split; [apply (q_fifo M own g HI)|]. split; [apply (q_pipe M own g HI)|].
  split; [apply (q_order M own g HI)|apply (q_merge M own g HI)].
Qed.

Lemma zcnt_pk_true : forall m l, picklable m = true -> zcnt m (pk l) = zcnt m l.
Proof.
  intros m l H. induction l as [|x l IH]; [reflexivity|].
  destruct (picklable x) eqn:E.
  - rewrite (pk_cons_true x l E). cbn [zcnt]. rewrite IH. reflexivity.
  - rewrite (pk_cons_false x l E). cbn [zcnt]. rewrite IH.
    destruct (x =? m) eqn:Ex; [|lia]. apply Z.eqb_eq in Ex. subst x. congruence.
Qed.

Lemma zcnt_pk_false : forall m l, picklable m = false -> zcnt m (pk l) = 0.
Proof.
  intros m l H. induction l as [|x l IH]; [reflexivity|].
  destruct (picklable x) eqn:E.
  - rewrite (pk_cons_true x l E). cbn [zcnt]. rewrite IH.
    destruct (x =? m) eqn:Ex; [|lia]. apply Z.eqb_eq in Ex. subst x. congruence.
  - rewrite (pk_cons_false x l E). exact IH.
Qed.

Lemma zcnt_nonneg : forall m l, 0 <= zcnt m l.
Proof. induction l as [|x l IH]; cbn [zcnt]; [lia|]. destruct (x =? m); lia. Qed.

(* no loss, no duplication, for every message that can be serialised: each such message
   appended by some put is, with its multiplicity, exactly once in: received, in the pipe, held
   by a feeder, or buffered *)
Theorem queue_no_loss_no_dup : forall M own g m, QInv M own g -> picklable m = true ->
    sumz (fun ps => zcnt m (plog ps)) (procs g) =
    zcnt m (getlog g) + zcnt m (pipe g)
    + psum (fun p => zcnt m (fd_ftr (nth p (procs g) dps) (qthr g))) (length (procs g))
    + sumz (fun ps => zcnt m (buf ps)) (procs g).
Proof.
  intros M own g m HI Hpk. destruct (queue_fifo M own g HI) as (F1 & F2 & _ & F3).
  rewrite (sumz_psum (fun ps => zcnt m (plog ps))).
  rewrite (psum_ext _ (fun p => zcnt m (slog (nth p (procs g) dps))
                               + (zcnt m (fd_ftr (nth p (procs g) dps) (qthr g)) + zcnt m (buf (nth p (procs g) dps))))).
  2: { intros p _. rewrite <- (zcnt_pk_true m (plog _) Hpk), (F1 p), !zcnt_app, !(zcnt_pk_true m _ Hpk). lia. }
  rewrite psum_add, psum_add.
  rewrite <- (sumz_psum (fun ps => zcnt m (slog ps))), <- (sumz_psum (fun ps => zcnt m (buf ps))).
  rewrite <- (F3 m), F2, zcnt_app. lia.
Qed.

(* what get returns: every message received from the pipe has been returned by exactly one
   finished get call, or is held by a get between its receive and its return *)
Lemma sumz_plus : forall A (f h : A -> Z) l, sumz (fun x => f x + h x) l = sumz f l + sumz h l.
Proof. induction l as [|x l IH]; cbn; lia. Qed.

Theorem get_returns_received : forall M own g m, QInv M own g -> m <> E_EMPTY ->
    zcnt m (getlog g) =
    sumz (fun t => rcount m (qresults t)) (qthr g) + sumz (fun t => zcnt m (gheld t)) (qthr g).
Proof.
  intros M own g m HI Hm. rewrite (q_ret M own g HI m Hm). unfold qt_ret. apply sumz_plus.
Qed.

(* put to get: each message, with its multiplicity among the accepted puts, is exactly:
   returned by a get + held by a get about to return it + in the pipe + held by a feeder +
   buffered *)
Theorem put_get_exact : forall M own g m, QInv M own g -> m <> E_EMPTY -> picklable m = true ->
    sumz (fun ps => zcnt m (plog ps)) (procs g) =
    sumz (fun t => rcount m (qresults t)) (qthr g) + sumz (fun t => zcnt m (gheld t)) (qthr g)
    + zcnt m (pipe g)
    + psum (fun p => zcnt m (fd_ftr (nth p (procs g) dps) (qthr g))) (length (procs g))
    + sumz (fun ps => zcnt m (buf ps)) (procs g).
Proof.
  intros M own g m HI Hm Hpk. rewrite (queue_no_loss_no_dup M own g m HI Hpk), (get_returns_received M own g m HI Hm). lia.
Qed.

(* the only loss: a message that cannot be serialised is never written to the pipe (it is
   dropped by the feeder, which gives its capacity token back: see qstep_inv at (2, 14)), so it
   is never received either *)
Theorem unpicklable_never_sent : forall M own g m, QInv M own g -> picklable m = false ->
    zcnt m (map snd (sendlog g)) = 0 /\ zcnt m (getlog g) = 0 /\ zcnt m (pipe g) = 0.
Proof.
  intros M own g m HI Hpk. destruct (queue_fifo M own g HI) as (F1 & F2 & _ & F3).
  assert (Z0 : zcnt m (map snd (sendlog g)) = 0).
  { rewrite (F3 m). apply sumz_zero. intros ps Hin.
    destruct (In_nth _ _ dps Hin) as (p & _ & Ep). subst ps.
    pose proof (f_equal (zcnt m) (F1 p)) as E. rewrite (zcnt_pk_false m _ Hpk), !zcnt_app in E.
    pose proof (zcnt_nonneg m (slog (nth p (procs g) dps))).
    pose proof (zcnt_nonneg m (pk (fd_ftr (nth p (procs g) dps) (qthr g)))).
    pose proof (zcnt_nonneg m (pk (buf (nth p (procs g) dps)))). lia. }
  split; [exact Z0|]. rewrite F2, zcnt_app in Z0.
  pose proof (zcnt_nonneg m (getlog g)). pose proof (zcnt_nonneg m (pipe g)). lia.
Qed.

(* a feeder never ends: it is never finished and never stands at an exit *)
Theorem feeder_never_ends : forall M own g t, QInv M own g -> In t (qthr g) -> qfeeder t = true ->
    qfin t = false /\ qexited qcode t = false.
Proof.
  intros M own g t HI Ht Hf. destruct (q_li M own g HI t Ht) as [_ H]. rewrite Hf in H.
  destruct H as (Hfin & Hc & _ & L). split; [exact Hfin|].
  unfold qexited. rewrite Hfin, Hc. cbn [negb andb qcode].
  destruct (qpc t) as [|pc]; [reflexivity|].
  do 15 (destruct pc as [|pc]; [reflexivity|]). cbn [qli_pc] in L. contradiction.
Qed.

(* a feeder drops only a message that cannot be serialised *)
Theorem feeder_drops_only_unpicklable : forall M own g t, QInv M own g -> In t (qthr g) ->
    qfeeder t = true -> qpc t = 14%nat -> picklable (r2 (qrg t)) = false.
Proof.
  intros M own g t HI Ht Hf Hp. destruct (q_li M own g HI t Ht) as [_ H]. rewrite Hf in H.
  destruct H as (_ & _ & _ & L). rewrite Hp in L. exact L.
Qed.

(* per (process, THREAD) order: what the puts of one main thread have appended, in the order of that thread's
   calls, is a subsequence of the append log of its process -- which queue_fifo carries, in order, to the feeder,
   the pipe and the receive log *)
Theorem thread_order : forall M own g i t, QInv M own g -> nth_error (qthr g) i = Some t ->
    Subseq (tput t) (plog (nth (qproc t) (procs g) dps)).
Proof. intros M own g i t HI Ht. apply (q_tp M own g HI i t Ht). Qed.

(* the three locks *)
Theorem queue_locks : forall M own g, QInv M own g ->
    qv 1 g + sumz qt_rl (qthr g) = 1 /\ qv 2 g + sumz qt_wl (qthr g) = 1 /\
    forall p, (p < length (procs g))%nat -> qv (nls p) g + sumz (qt_nl p) (qthr g) = 1.
Proof.
  intros M own g HI. split; [apply (q_rl M own g HI)|]. split; [apply (q_wl M own g HI)|].
  intros p Hp. apply (q_nl M own g HI p Hp).
Qed.

(* a put appends the message it was given *)
Theorem put_appends_its_argument : forall M own g t, QInv M own g -> In t (qthr g) ->
    qfeeder t = false -> qfin t = false -> (qcid t = 0%nat \/ qcid t = 3%nat) ->
    (qpc t = 0%nat \/ qpc t = 3%nat \/ qpc t = 6%nat) -> r2 (qrg t) = a2_of (qcur t).
Proof.
  intros M own g t HI Ht Hf Hfin Hc Hp. destruct (q_li M own g HI t Ht) as [_ H]. rewrite Hf in H.
  destruct H as [_ H]. destruct (H Hfin) as [_ L].
  destruct Hc as [E|E]; rewrite E in L; destruct Hp as [P|[P|P]]; rewrite P in L; cbn in L; auto; contradiction.
Qed.
(* a put's capacity acquire, on the scheduler choice `go`: fails iff the semaphore is 0
   (the put then raises Full), succeeds iff it is positive *)
Theorem full_only_when_zero : forall M own g i t g' e, QInv M own g ->
    nth_error (qthr g) i = Some t -> qfin t = false -> qfeeder t = false ->
    (qcid t = 0%nat \/ qcid t = 3%nat) -> qpc t = 0%nat ->
    qstep qcode g i true = Some (g', e) ->
    (snd e = 0 -> qv 0 g = 0) /\ (snd e = 1 -> 0 < qv 0 g).
Proof.
  intros M own g i t g' e HI Ht Hf Hfd Hc Hp H.
  destruct (q_shape M own g HI) as (_ & Sr & _). pose proof (q_cap0 M own g HI) as H0. unfold qv in *.
  unfold qstep, qdormant in H. rewrite Ht, Hf, Hfd in H. cbn [andb] in H. rewrite Hp in H.
  assert (Hi : nth_error (qcode (qcid t)) 0 = Some (QAcq (SG 0) (FR 1) (FR 0) 7)) by (destruct Hc as [E|E]; rewrite E; reflexivity).
  rewrite Hi in H. rewrite sid_sg in H. unfold sem_acq in H. rewrite Sr in H. cbn [andb] in H.
  destruct (0 <? val (nth 0 (qsems g) dsem)) eqn:Ev.
  - inversion H; subst e; cbn [snd]. split; intros; [discriminate|lia].
  - destruct (flagv (FR 1) (qrg t)); [discriminate|]. inversion H; subst e; cbn [snd]. split; intros; [lia|discriminate].
Qed.

(* a non-blocking get finds nothing only when the pipe is empty *)
Theorem empty_only_when_nothing : forall g i t g' e,
    nth_error (qthr g) i = Some t -> qfin t = false -> qfeeder t = false ->
    qcid t = 1%nat -> qpc t = 19%nat ->
    qstep qcode g i true = Some (g', e) ->
    (snd e = 0 <-> pipe g = []).
Proof.
  intros g i t g' e Ht Hf Hfd Hc Hp H.
  unfold qstep, qdormant in H. rewrite Ht, Hf, Hfd in H. cbn [andb] in H. rewrite Hc, Hp in H.
  cbn [qcode p_q_get nth_error flagv] in H.
  destruct (pipe g) as [|m rest]; inversion H; subst e; cbn [snd]; split; intros; try discriminate; auto.
Qed.

(* ------------------------------------------------------------------ JoinableQueue's counter
   _unfinished_tasks = (JoinableQueue.put calls past their release of the counter)
                     - (task_done calls past their successful acquire of it)           *)
Theorem unfinished_count : forall M own g, QInv M own g -> qv 3 g = sumz qt_unf (qthr g) /\ 0 <= qv 3 g.
Proof. intros M own g HI. apply (q_unf M own g HI). Qed.

(* task_done raises ValueError exactly when every counted put has already been matched *)
Theorem task_done_raises_iff_matched : forall M own g i t g' e, QInv M own g ->
    nth_error (qthr g) i = Some t -> qfin t = false -> qfeeder t = false ->
    qcid t = 4%nat -> qpc t = 1%nat ->
    qstep qcode g i true = Some (g', e) ->
    (snd e = 0 <-> sumz qt_unf (qthr g) = 0) /\ (snd e = 1 <-> 0 < sumz qt_unf (qthr g)).
Proof.
  intros M own g i t g' e HI Ht Hf Hfd Hc Hp H.
  destruct (q_shape M own g HI) as (_ & _ & _ & S3 & _). destruct (S3 3%nat ltac:(auto)) as [_ Sr].
  destruct (q_unf M own g HI) as [U U0]. unfold qv in *. rewrite <- U.
  unfold qstep, qdormant in H. rewrite Ht, Hf, Hfd in H. cbn [andb] in H. rewrite Hc, Hp in H.
  cbn [qcode p_jq_task_done nth_error flagv andb] in H. rewrite sid_sg in H.
  unfold sem_acq in H. rewrite Sr in H. cbn [andb] in H.
  destruct (0 <? val (nth 3 (qsems g) dsem)) eqn:Ev.
  - inversion H; subst e; cbn [snd]. split; split; intros; try discriminate; try lia.
  - inversion H; subst e; cbn [snd]. split; split; intros; try discriminate; try lia.
Qed.

(* join's test `_unfinished_tasks._semlock._is_zero()` (made under the condition's lock) reads
   "zero" exactly when every counted put has been matched *)
Theorem join_test_iff_matched : forall M own g i t g' e, QInv M own g ->
    nth_error (qthr g) i = Some t -> qfin t = false -> qfeeder t = false ->
    qcid t = 5%nat -> qpc t = 1%nat ->
    qstep qcode g i true = Some (g', e) ->
    (snd e = 1 <-> sumz qt_unf (qthr g) = 0).
Proof.
  intros M own g i t g' e HI Ht Hf Hfd Hc Hp H.
  destruct (q_unf M own g HI) as [U U0]. unfold qv in *. rewrite <- U.
  unfold qstep, qdormant in H. rewrite Ht, Hf, Hfd in H. cbn [andb] in H. rewrite Hc, Hp in H.
  cbn [qcode p_jq_join nth_error] in H. rewrite sid_sg in H.
  destruct (val (nth 3 (qsems g) dsem) =? 0) eqn:Ev; inversion H; subst e; cbn [snd]; split; intros; try discriminate; lia.
Qed.

(* ------------------------------------------------------------------ extensionality in the program table *)
Section QExt.
Variables code1 code2 : nat -> list qinstr.
Hypothesis Hext : forall c, code1 c = code2 c.

Lemma qstart_ext : forall sc p fd h res ps, qstart code1 p fd h res sc ps = qstart code2 p fd h res sc ps.
Proof.
  induction sc as [|[[[c a0] a1] a2] sc IH]; intros; cbn [qstart]; [reflexivity|].
  rewrite Hext. destruct (qlocal p (code2 c) h QFUEL 0 (qinit_regs a0 a1 a2) ps) as [[pc r|v] ps']; auto.
Qed.

Lemma qadvance_ext : forall t pc r h ps, qadvance code1 t pc r h ps = qadvance code2 t pc r h ps.
Proof.
  intros. unfold qadvance. rewrite Hext.
  destruct (qlocal (qproc t) (code2 (qcid t)) h QFUEL pc r ps) as [[pc' r'|v] ps']; auto using qstart_ext.
Qed.

Lemma qabort_ext : forall t h e ps, qabort code1 t h e ps = qabort code2 t h e ps.
Proof. intros. unfold qabort. apply qstart_ext. Qed.

Lemma qstep_ext : forall g i go, qstep code1 g i go = qstep code2 g i go.
Proof.
  intros. unfold qstep.
  destruct (nth_error (qthr g) i) as [t|]; [|reflexivity].
  destruct (qfin t); [reflexivity|].
  destruct (qdormant g i t); [reflexivity|].
  rewrite Hext.
  destruct (nth_error (code2 (qcid t)) (qpc t)) as [ins|]; [|reflexivity].
  destruct ins; try reflexivity; rewrite ?qadvance_ext, ?qabort_ext; try reflexivity.
  - destruct go; [|rewrite ?qadvance_ext; reflexivity].
    destruct (sem_acq _ _) as [[sm' h']|]; rewrite ?qadvance_ext; reflexivity.
  - destruct go; [|reflexivity].
    destruct (sem_rel _ _) as [[sm' h'] e']. rewrite ?qadvance_ext, ?qabort_ext. reflexivity.
  - destruct go; [|reflexivity]. destruct (pipe g); rewrite ?qadvance_ext; reflexivity.
Qed.

Lemma qrun_ext : forall sched g, qrun code1 g sched = qrun code2 g sched.
Proof.
  induction sched as [|[i go] sched IH]; intros g; cbn [qrun]; [reflexivity|].
  rewrite qstep_ext. destruct (qstep code2 g i go) as [[g1 e]|]; [|reflexivity].
  rewrite IH. reflexivity.
Qed.

Lemma qinit_threads_ext : forall F own scripts q pss,
    qinit_threads code1 F q own scripts pss = qinit_threads code2 F q own scripts pss.
Proof.
  induction scripts as [|sc scripts IH]; intros q pss; cbn [qinit_threads]; [reflexivity|].
  rewrite !qstart_ext. destruct (qstart code2 (owner own q) false [] [] sc (nth (owner own q) pss dps)) as [tm ps1].
  rewrite !qstart_ext. destruct (qstart code2 (owner own q) true [] [] [(F, 0, 0, 0)] ps1) as [tf ps2].
  rewrite IH. reflexivity.
Qed.

Lemma qinit_sys_ext : forall F ss own scripts, qinit_sys code1 F ss own scripts = qinit_sys code2 F ss own scripts.
Proof. intros. unfold qinit_sys. rewrite qinit_threads_ext. reflexivity. Qed.
End QExt.

