(* Proofs about the crash-free closed composition for MULTI-PART jobs, Model/PoolParts.v.

   Proved here, for every schedule (any calls, any number of workers, any arrival order):
     - [preach_is_run]: the parent of every reachable state is a [Pool.run];
     - [pstep_lex]: every step decreases the pair (work left, items the consumer can still take +
       iterators not yet stopped) lexicographically; [every_schedule_terminates]: no infinite schedule;
     - [pstuck_nothing_in_flight]: where no step is enabled nothing is queued, written, executing or
       unhandled (no deadlock between task handler, workers, result handler and consumer);
     - evaluated witnesses: a map of 5 items in chunks of 2 on two workers completing out of order, an
       imap with a failing item in the middle, imap_unordered in arrival order.
   NOT proved in this file (checked on the implementation by props/poolcommon.parts_closed_check and
   evaluated on the witnesses only): the value / order statements of C02 at pool level (map value in
   input order, imap order, StopIteration exactly after n items) -- the open model carries no map
   value buffer (values are tags; reassembly is the C02 family's model). *)
From Coq Require Import ZArith List Bool Lia ZifyBool.
From BV Require Import Lib.Cases Model.LaxSem Model.Restart Model.Pool Model.PoolSys Model.PoolParts
     Proofs.PoolJobs Proofs.PoolInv Proofs.PoolSize Proofs.PoolSysProofs.
Import ListNotations.
Open Scope Z_scope.

(* ================================================================== A. the parent events: what they do to the feed queue *)
Lemma feed_tasks_none : forall fuel i j k s, exists s' k', feed_tasks fuel i j k None false s = (s', k', false) /\ feeds s' = feeds s.
Proof.
  induction fuel as [|f IH]; intros i j k s; cbn [feed_tasks]; [eauto|].
  change (okey_eqb (Some k) None) with false. cbn iota. apply IH.
Qed.

Lemma do_feeds_suffix : forall fs k s,
    exists pre, fs = pre ++ snd (fst (do_feeds fs k None false s)) /\ (fs <> [] -> pre <> []).
Proof.
  induction fs as [|[[j n] sl] fs IH]; intros k s; cbn [do_feeds].
  - exists []. split; [reflexivity|congruence].
  - destruct (feed_tasks_none (Z.to_nat n) 0 j k s) as (s1 & k1 & E & _). rewrite E.
    set (p := if sl then match get_job s1 j with
                         | Some x => (set_job s1 j (fun x0 => fst (set_length x0 n)), snd (set_length x n))
                         | None => (s1, false) end else (s1, false)).
    destruct p as [s2 e]. destruct e.
    + exists [(j, n, sl)]. split; [reflexivity|discriminate].
    + destruct (IH k1 s2) as (pre & Hp & _). exists ((j, n, sl) :: pre). split; [cbn; rewrite <- Hp; reflexivity|discriminate].
Qed.

Lemma feeds_after_feed s :
  exists pre, feeds s = pre ++ feeds (fst (step s (EFeed None false))) /\ (feeds s <> [] -> pre <> []).
Proof.
  unfold step, do_feed. change (feeds (with_sigs s [])) with (feeds s).
  destruct (do_feeds_suffix (feeds s) 0 (with_sigs s [])) as (pre & Hp & Hn).
  destruct (do_feeds (feeds s) 0 None false (with_sigs s [])) as [[s1 rest] r]. cbn [fst snd] in *.
  exists pre. split; [exact Hp|exact Hn].
Qed.

Lemma feeds_ack s j i p : feeds (fst (step s (EAck j i p))) = feeds s.
Proof.
  unfold step, do_ack. destruct (cached _ j) as [x|]; [|reflexivity].
  destruct (kind x); try reflexivity. destruct i; reflexivity.
Qed.

Lemma feeds_ready s j i ok t : feeds (fst (step s (EReady j i ok t))) = feeds s.
Proof.
  unfold step, do_ready. destruct (cached _ j) as [x|]; [|reflexivity]. cbn [fst].
  unfold bump_counter. destruct (worker_pids x) as [|p r]; [destruct (ready x); reflexivity|].
  destruct (in_pool _ p); destruct (ready x); reflexivity.
Qed.

Lemma chunk_count_le n cs : 0 <= n -> chunk_count n cs <= n.
Proof.
  intros Hn. unfold chunk_count. destruct (cs <=? 0) eqn:E; [lia|].
  assert (Hc : 0 < cs) by lia.
  destruct (n mod cs =? 0) eqn:Em.
  - assert (n / cs <= n) by (apply Z.div_le_upper_bound; nia). lia.
  - assert (n / cs < n \/ n = 0).
    { destruct (Z.eq_dec n 0); [auto|left]. destruct (Z.eq_dec cs 1) as [->|].
      - rewrite Z.mod_1_r in Em. discriminate.
      - apply Z.div_lt; lia. }
    destruct H; [lia|]. subst n. rewrite Z.mod_0_l in Em by lia. discriminate.
Qed.

Lemma feeds_submit s c s' :
  step s (call_event c) = (s', RNone) ->
  feeds s' = feeds s ++ match c with
                        | CApply => []
                        | CMap n cs => [(Z.of_nat (length (jobs s)), chunk_count (Z.of_nat n) (if Z.of_nat n =? 0 then 0 else Z.of_nat cs), false)]
                        | CIMap n => [(Z.of_nat (length (jobs s)), Z.of_nat n, true)]
                        | CIMapU n => [(Z.of_nat (length (jobs s)), Z.of_nat n, true)]
                        end.
Proof.
  destruct c as [|n cs|n|n]; cbn [call_event]; unfold step.
  - unfold do_apply. cbn [putlocks with_sigs sem pstate]. destruct (negb (pstate s =? 0)); [discriminate|].
    destruct (putlocks s && (LaxSem.value (sem s) =? 0)); [discriminate|].
    intros H; inversion H; subst. rewrite app_nil_r. destruct (putlocks s); reflexivity.
  - unfold do_map. destruct (negb (pstate _ =? 0)); [discriminate|]. intros H; inversion H; subst. reflexivity.
  - unfold do_imap. destruct (negb (pstate _ =? 0)); [discriminate|]. intros H; inversion H; subst. reflexivity.
  - unfold do_imap. destruct (negb (pstate _ =? 0)); [discriminate|]. intros H; inversion H; subst. reflexivity.
Qed.

(* ---- next() *)
Definition icons (st : list Z) (x : job) : nat :=
  ((if is_imap x then length (items x) else 0) + (if is_imap x && negb (memZ (jid x) st) then 1 else 0))%nat.

Lemma lsum_upd {A} (g : A -> nat) f : forall l i x, nth_error l i = Some x ->
    (list_sum (map g (upd_nth i f l)) + g x = list_sum (map g l) + g (f x))%nat.
Proof.
  induction l as [|a l IH]; intros [|i] x H; cbn [nth_error] in H; try discriminate.
  - inversion H; subst. cbn [upd_nth map]. change (list_sum (?a :: ?r)) with (a + list_sum r)%nat. lia.
  - cbn [upd_nth map]. change (list_sum (?a :: ?r)) with (a + list_sum r)%nat. specialize (IH i x H). lia.
Qed.

Lemma is_imap_mk x a b c d e f : is_imap (mk_imap x a b c d e f) = is_imap x. Proof. reflexivity. Qed.
Lemma items_mk x a b c d e f : items (mk_imap x a b c d e f) = f. Proof. reflexivity. Qed.
Lemma jid_mk x a b c d e f : jid (mk_imap x a b c d e f) = jid x. Proof. reflexivity. Qed.

Definition pcons (y : psys) : nat := list_sum (map (icons (pstopped y)) (jobs (ppar y))).

Lemma icons_stop_le st j x : (icons (st ++ [j]) x <= icons st x)%nat.
Proof.
  unfold icons. destruct (is_imap x); cbn [andb]; [|lia].
  unfold memZ. rewrite existsb_app. fold (memZ (jid x) st). destruct (memZ (jid x) st); cbn; [lia|].
  destruct (jid x =? j); cbn; lia.
Qed.

(* the consumer's step: the parent's queue of sequences is untouched, and what is left for the
   consumer to take strictly decreases *)
Lemma pnext_decreases y j y' :
  AllJ (ppar y) -> parts_step y (PNext j) = Some y' ->
  feeds (ppar y') = feeds (ppar y) /\ ptodo y' = ptodo y /\ pinq y' = pinq y /\ pwk y' = pwk y /\ poutq y' = poutq y
  /\ (pcons y' < pcons y)%nat.
Proof.
  intros Ha. cbn [parts_step]. destruct (is_iter (ppar y) j && negb (memZ j (pstopped y))) eqn:Eg; [|discriminate].
  apply andb_true_iff in Eg. destruct Eg as [Hit Hns]. apply negb_true_iff in Hns.
  unfold is_iter in Hit. destruct (get_job (ppar y) j) as [x|] eqn:Hx; [|discriminate].
  destruct (get_job_nth _ _ _ Hx) as [Hj Hn]. destruct (Ha _ _ Hn) as [_ Hid].
  assert (Hjid : jid x = j) by lia.
  unfold step, do_next. change (get_job (with_sigs (ppar y) []) j) with (get_job (ppar y) j). rewrite Hx, Hit. cbn [negb].
  destruct (items x) as [|pl r] eqn:Ei.
  - destruct (okey_eqb (Some (index x)) (ilength x)) eqn:Ee; [|discriminate].
    intros E; inversion E; subst y'; clear E. cbn [ppar ptodo pinq pwk poutq pstopped]. repeat (split; [reflexivity|]).
    unfold pcons. cbn [ppar pstopped]. unfold set_job. cbn [jobs with_sigs]. replace (j <? 0) with false by lia.
    set (f := fun x0 => mk_imap x0 (incache x0) true (index x0) (ilength x0) (unsorted x0) (items x0)).
    pose proof (lsum_upd (icons (pstopped y ++ [j])) f (jobs (ppar y)) (Z.to_nat j) x Hn) as H1.
    assert (Hmem : memZ j (pstopped y ++ [j]) = true).
    { unfold memZ. rewrite existsb_app. cbn. rewrite Z.eqb_refl, orb_true_r. reflexivity. }
    assert (H3 : icons (pstopped y ++ [j]) (f x) = 0%nat).
    { unfold icons, f. rewrite is_imap_mk, items_mk, jid_mk, Hit, Ei, Hjid, Hmem. reflexivity. }
    assert (H4 : (1 <= icons (pstopped y) x)%nat).
    { unfold icons. rewrite Hit, Hjid, Hns. cbn. lia. }
    assert (H6 : icons (pstopped y ++ [j]) x = 0%nat).
    { unfold icons. rewrite Hit, Ei, Hjid, Hmem. reflexivity. }
    assert (H9 : (list_sum (map (icons (pstopped y ++ [j])) (jobs (ppar y))) + icons (pstopped y) x
                  <= list_sum (map (icons (pstopped y)) (jobs (ppar y))) + icons (pstopped y ++ [j]) x)%nat).
    { clear - Hn. revert Hn. generalize (Z.to_nat j). induction (jobs (ppar y)) as [|a l IH]; intros [|i] Hn; cbn [nth_error] in Hn; try discriminate.
      - inversion Hn; subst. cbn [map]. change (list_sum (?a :: ?r)) with (a + list_sum r)%nat.
        assert (list_sum (map (icons (pstopped y ++ [j])) l) <= list_sum (map (icons (pstopped y)) l))%nat.
        { clear. induction l as [|b l IH]; [cbn; lia|]. cbn [map]. change (list_sum (?a :: ?r)) with (a + list_sum r)%nat.
          pose proof (icons_stop_le (pstopped y) j b). lia. }
        lia.
      - cbn [map]. change (list_sum (?a :: ?r)) with (a + list_sum r)%nat. specialize (IH i Hn).
        pose proof (icons_stop_le (pstopped y) j a). lia. }
    lia.
  - intros E. assert (Hy : y' = mkps (set_job (with_sigs (ppar y) []) j (fun x0 => mk_imap x0 (incache x0) (ready x0) (index x0) (ilength x0) (unsorted x0) r))
                                   (pbad y) (ptodo y) (pinq y) (pwk y) (poutq y)
                                   (pnexts y ++ [(j, if payload_success pl then RItem pl else RRaised pl)]) (pstopped y)).
    { destruct (payload_success pl); inversion E; reflexivity. }
    subst y'. clear E. cbn [ppar ptodo pinq pwk poutq pstopped]. repeat (split; [reflexivity|]).
    unfold pcons. cbn [ppar pstopped]. unfold set_job. cbn [jobs with_sigs]. replace (j <? 0) with false by lia.
    set (f := fun x0 => mk_imap x0 (incache x0) (ready x0) (index x0) (ilength x0) (unsorted x0) r).
    pose proof (lsum_upd (icons (pstopped y)) f (jobs (ppar y)) (Z.to_nat j) x Hn) as H1.
    assert (H2 : (icons (pstopped y) (f x) + 1 = icons (pstopped y) x)%nat).
    { unfold icons, f. rewrite is_imap_mk, items_mk, jid_mk, Hit, Ei. cbn [length]. lia. }
    lia.
Qed.

Lemma call_enabled s c : pstate s = 0 -> putlocks s = false -> exists s', step s (call_event c) = (s', RNone).
Proof.
  intros Hp Hl. destruct c; cbn [call_event]; unfold step.
  - unfold do_apply. cbn [putlocks with_sigs sem pstate]. rewrite Hp, Hl. cbn. eauto.
  - unfold do_map. cbn [pstate with_sigs]. rewrite Hp. cbn. eauto.
  - unfold do_imap. cbn [pstate with_sigs]. rewrite Hp. cbn. eauto.
  - unfold do_imap. cbn [pstate with_sigs]. rewrite Hp. cbn. eauto.
Qed.


(* nobody closes the pool, and the slot discipline is fixed *)
Definition penv (s s' : pool) : Prop := pstate s' = pstate s /\ putlocks s' = putlocks s.

Lemma feed_tasks_none_id : forall fuel i j k s, exists k', feed_tasks fuel i j k None false s = (s, k', false).
Proof.
  induction fuel as [|f IH]; intros i j k s; cbn [feed_tasks]; [eauto|].
  change (okey_eqb (Some k) None) with false. cbn iota. apply IH.
Qed.

Lemma do_feeds_env : forall fs k s, penv s (fst (fst (do_feeds fs k None false s))).
Proof.
  induction fs as [|[[j n] sl] fs IH]; intros k s; cbn [do_feeds]; [split; reflexivity|].
  destruct (feed_tasks_none_id (Z.to_nat n) 0 j k s) as (k1 & E). rewrite E.
  assert (H : exists s2 e, (if sl then match get_job s j with
                                     | Some x => (set_job s j (fun x0 => fst (set_length x0 n)), snd (set_length x n))
                                     | None => (s, false) end else (s, false)) = (s2, e) /\ penv s s2).
  { destruct sl; [|exists s, false; split; [reflexivity|split; reflexivity]].
    destruct (get_job s j); eexists; eexists; (split; [reflexivity|split; reflexivity]). }
  destruct H as (s2 & e & -> & H2). destruct e; [exact H2|].
  destruct (IH k1 s2) as [A B]. destruct H2 as [C D]. split; congruence.
Qed.

Lemma pstep_env y a y' : parts_step y a = Some y' -> penv (ppar y) (ppar y').
Proof.
  destruct a; cbn [parts_step].
  - destruct (ptodo y) as [|c r]; [discriminate|]. destruct (step (ppar y) (call_event c)) as [s' r0] eqn:E.
    destruct r0; try discriminate. intros H; inversion H; subst y'. cbn [ppar]. revert E.
    destruct c; cbn [call_event]; unfold step.
    + unfold do_apply. cbn [putlocks with_sigs sem pstate]. destruct (negb (pstate (ppar y) =? 0)); [discriminate|].
      destruct (putlocks (ppar y) && _); [discriminate|]. intros E; inversion E. destruct (putlocks (ppar y)); split; reflexivity.
    + unfold do_map. destruct (negb (pstate _ =? 0)); [discriminate|]. intros E; inversion E. split; reflexivity.
    + unfold do_imap. destruct (negb (pstate _ =? 0)); [discriminate|]. intros E; inversion E. split; reflexivity.
    + unfold do_imap. destruct (negb (pstate _ =? 0)); [discriminate|]. intros E; inversion E. split; reflexivity.
  - destruct (feeds (ppar y)); [discriminate|]. intros H; inversion H; subst y'. cbn [ppar]. unfold step, do_feed.
    pose proof (do_feeds_env (feeds (with_sigs (ppar y) [])) 0 (with_sigs (ppar y) [])) as He.
    destruct (do_feeds (feeds (with_sigs (ppar y) [])) 0 None false (with_sigs (ppar y) [])) as [[s1 rest] r0]. exact He.
  - destruct (nth_error (pwk y) i) as [[?|]|]; try discriminate. destruct (pinq y); [discriminate|].
    intros H; inversion H; split; reflexivity.
  - destruct (nth_error (pwk y) i) as [[?|]|]; try discriminate. intros H; inversion H; split; reflexivity.
  - destruct (poutq y) as [|[j i p|j i p ok t] r]; [discriminate| |]; intros H; inversion H; subst y'; cbn [ppar].
    + split; [apply pstate_ack|]. unfold step, do_ack. destruct (cached _ j) as [x|]; [|reflexivity].
      destruct (kind x); try reflexivity. destruct i; reflexivity.
    + split; [apply pstate_ready|]. unfold step, do_ready. destruct (cached _ j) as [x|]; [|reflexivity]. cbn [fst].
      unfold bump_counter. destruct (worker_pids x) as [|q r0]; [destruct (ready x); reflexivity|].
      destruct (in_pool _ q); destruct (ready x); reflexivity.
  - destruct (is_iter (ppar y) j && negb (memZ j (pstopped y))); [|discriminate].
    assert (He : penv (ppar y) (fst (step (ppar y) (ENext j)))).
    { unfold step, do_next. destruct (get_job _ j) as [x|]; [|split; reflexivity].
      destruct (negb (is_imap x)); [split; reflexivity|]. destruct (items x); [|split; reflexivity].
      destruct (okey_eqb _ _); split; reflexivity. }
    destruct (step (ppar y) (ENext j)) as [s' r]. cbn [fst] in He.
    destruct r; try discriminate; intros H; inversion H; exact He.
Qed.

Lemma pstep_wk y a y' : parts_step y a = Some y' -> length (pwk y') = length (pwk y).
Proof.
  destruct a; cbn [parts_step].
  - destruct (ptodo y) as [|c r]; [discriminate|]. destruct (step (ppar y) (call_event c)) as [s' r0].
    destruct r0; try discriminate. intros H; inversion H; reflexivity.
  - destruct (feeds (ppar y)); [discriminate|]. intros H; inversion H; reflexivity.
  - destruct (nth_error (pwk y) i) as [[?|]|]; try discriminate. destruct (pinq y); [discriminate|].
    intros H; inversion H. apply length_upd_nth.
  - destruct (nth_error (pwk y) i) as [[?|]|]; try discriminate. intros H; inversion H. apply length_upd_nth.
  - destruct (poutq y) as [|[j i p|j i p ok t] r]; [discriminate| |]; intros H; inversion H; reflexivity.
  - destruct (is_iter (ppar y) j && negb (memZ j (pstopped y))); [|discriminate].
    destruct (step (ppar y) (ENext j)) as [s' r]. destruct r; try discriminate; intros H; inversion H; reflexivity.
Qed.

Local Opaque step.

(* ================================================================== B. termination *)
Lemma fed_weight_app a b : fed_weight (a ++ b) = (fed_weight a + fed_weight b)%nat.
Proof. unfold fed_weight. rewrite map_app, list_sum_app. reflexivity. Qed.

Lemma fw_nil : fed_weight [] = 0%nat. Proof. reflexivity. Qed.
Lemma fw_one f : fed_weight [f] = (5 * Z.to_nat (snd (fst f)) + 1)%nat.
Proof. unfold fed_weight. cbn [map]. change (list_sum [?a]) with (a + 0)%nat. lia. Qed.

Lemma fed_parts_weight l : (4 * length (fed_parts l) + length l <= fed_weight l)%nat.
Proof.
  unfold fed_weight, fed_parts. induction l as [|[[j n] sl] l IH]; [cbn; lia|]. cbn [flat_map map fst snd length].
  change (list_sum (?a :: ?r)) with (a + list_sum r)%nat. rewrite app_length, map_length, seq_length.
  remember (length (flat_map _ l)) as X. remember (list_sum (map _ l)) as Y. remember (Z.to_nat n) as a. clear - IH. lia.
Qed.

Lemma len_somep_upd o' : forall (l : list (option part)) i o, nth_error l i = Some o ->
    (length (somep (upd_nth i (fun _ => o') l)) + (match o with Some _ => 1 | None => 0 end)
     = length (somep l) + (match o' with Some _ => 1 | None => 0 end))%nat.
Proof.
  induction l as [|a l IH]; intros [|i] o H; cbn in H; try discriminate.
  - inversion H; subst. cbn [upd_nth somep flat_map]. rewrite !app_length. destruct o, o'; cbn; lia.
  - cbn [upd_nth somep flat_map]. rewrite !app_length. specialize (IH i o H). unfold somep in IH. lia.
Qed.

Definition is_next (a : pstep) : bool := match a with PNext _ => true | _ => false end.

(* every step of the client, the task handler, the workers and the result handler decreases the work left *)
Theorem pstep_work y a y' : is_next a = false -> parts_step y a = Some y' -> (pwork y' < pwork y)%nat.
Proof.
  intros Hn Hs. destruct a; try discriminate; cbn [parts_step] in Hs.
  - destruct (ptodo y) as [|c r] eqn:Et; [discriminate|].
    destruct (step (ppar y) (call_event c)) as [s' r0] eqn:Est. destruct r0; try discriminate.
    inversion Hs; subst y'; clear Hs. pose proof (feeds_submit _ _ _ Est) as Hf.
    unfold pwork. cbn [ppar ptodo pinq pwk poutq]. rewrite Et, Hf, fed_weight_app, app_length. cbn [map].
    change (list_sum (?a :: ?r)) with (a + list_sum r)%nat.
    destruct c as [|n cs|n|n]; rewrite ?fw_nil, ?fw_one; cbn [call_weight length fst snd].
    + lia.
    + pose proof (chunk_count_le (Z.of_nat n) (if Z.of_nat n =? 0 then 0 else Z.of_nat cs) ltac:(lia)). lia.
    + lia.
    + lia.
  - destruct (feeds (ppar y)) as [|f0 fs0] eqn:Ef; [discriminate|].
    set (s' := fst (step (ppar y) (EFeed None false))) in *.
    set (k := (length (f0 :: fs0) - length (feeds s'))%nat) in *.
    inversion Hs; subst y'; clear Hs.
    destruct (feeds_after_feed (ppar y)) as (pre & Hp & Hne). rewrite Ef in Hp, Hne. fold s' in Hp.
    assert (Hd : firstn k (f0 :: fs0) = pre).
    { unfold k. rewrite Hp, app_length. replace (length pre + length (feeds s') - length (feeds s'))%nat with (length pre + 0)%nat by lia.
      rewrite firstn_app_2. cbn. apply app_nil_r. }
    unfold pwork. cbn [ppar ptodo pinq pwk poutq]. rewrite Hd, Ef, Hp, fed_weight_app, app_length.
    pose proof (fed_parts_weight pre). assert (pre <> []) by (apply Hne; discriminate).
    destruct pre; [congruence|]. cbn [length] in *. lia.
  - destruct (nth_error (pwk y) i) as [[?|]|] eqn:En; try discriminate.
    destruct (pinq y) as [|a r] eqn:Eq; [discriminate|]. inversion Hs; subst y'; clear Hs.
    unfold pwork. cbn [ppar ptodo pinq pwk poutq]. rewrite app_length, Eq.
    pose proof (len_somep_upd (Some a) _ _ _ En). cbn [length] in *. lia.
  - destruct (nth_error (pwk y) i) as [[a|]|] eqn:En; try discriminate. inversion Hs; subst y'; clear Hs.
    unfold pwork. cbn [ppar ptodo pinq pwk poutq]. rewrite app_length.
    pose proof (len_somep_upd None _ _ _ En). cbn [length] in *. lia.
  - destruct (poutq y) as [|[j i p|j i p ok t] r] eqn:Eo; [discriminate| |]; inversion Hs; subst y'; clear Hs;
      unfold pwork; cbn [ppar ptodo pinq pwk poutq]; rewrite ?feeds_ack, ?feeds_ready, Eo; cbn [length]; lia.
Qed.

(* every parent transition is a Pool.step *)
Lemma pstep_par y a y' : parts_step y a = Some y' -> ppar y' = run_from (ppar y) (pevent y a).
Proof.
  destruct a; cbn [parts_step pevent].
  - destruct (ptodo y) as [|c r]; [discriminate|]. destruct (step (ppar y) (call_event c)) as [s' r0] eqn:E.
    destruct r0; try discriminate. intros H; inversion H; subst y'. cbn [ppar run_from fold_left]. rewrite E. reflexivity.
  - destruct (feeds (ppar y)); [discriminate|]. intros H; inversion H; reflexivity.
  - destruct (nth_error (pwk y) i) as [[?|]|]; try discriminate. destruct (pinq y); [discriminate|]. intros H; inversion H; reflexivity.
  - destruct (nth_error (pwk y) i) as [[?|]|]; try discriminate. intros H; inversion H; reflexivity.
  - destruct (poutq y) as [|[j i p|j i p ok t] r]; [discriminate| |]; intros H; inversion H; reflexivity.
  - destruct (is_iter (ppar y) j && negb (memZ j (pstopped y))); [|discriminate].
    destruct (step (ppar y) (ENext j)) as [s' r] eqn:E. cbn [run_from fold_left]. rewrite E. cbn [fst].
    destruct r; try discriminate; intros H; inversion H; reflexivity.
Qed.

Lemma pstep_allj y a y' : AllJ (ppar y) -> parts_step y a = Some y' -> AllJ (ppar y').
Proof. intros Ha Hs. rewrite (pstep_par _ _ _ Hs). apply (good_run (pevent y a) (ppar y) Ha). Qed.

(* every step decreases (work left, what the consumer can still take) lexicographically *)
Theorem pstep_lex y a y' : AllJ (ppar y) -> parts_step y a = Some y' ->
  (pwork y' < pwork y)%nat \/ (pwork y' = pwork y /\ pcons y' < pcons y)%nat.
Proof.
  intros Ha Hs. destruct (is_next a) eqn:En; [|left; eapply pstep_work; eauto].
  destruct a; try discriminate. destruct (pnext_decreases y j y' Ha Hs) as (A & B & C & D & E & F).
  right. split; [|exact F]. unfold pwork. rewrite A, B, C, D, E. reflexivity.
Qed.

(* ... so there is no infinite schedule, whatever the interleaving *)
Theorem every_schedule_terminates : forall y, AllJ (ppar y) ->
  Acc (fun y' y0 => AllJ (ppar y0) /\ exists a, parts_step y0 a = Some y') y.
Proof.
  assert (H : forall m k y, (pwork y <= m)%nat -> (pcons y <= k)%nat -> AllJ (ppar y) ->
                            Acc (fun y' y0 => AllJ (ppar y0) /\ exists a, parts_step y0 a = Some y') y).
  { induction m as [m IHm] using lt_wf_ind. induction k as [k IHk] using lt_wf_ind. intros y Hm Hk Ha.
    constructor. intros y' (_ & a & Hs). pose proof (pstep_allj _ _ _ Ha Hs) as Ha'.
    destruct (pstep_lex y a y' Ha Hs) as [Hlt|[Heq Hlt]].
    - apply (IHm (pwork y') ltac:(lia) (pcons y') y'); [lia|lia|exact Ha'].
    - apply (IHk (pcons y') ltac:(lia) y'); [lia|lia|exact Ha']. }
  intros y Ha. apply (H (pwork y) (pcons y)); [lia|lia|exact Ha].
Qed.

(* ================================================================== C. reachable states *)
Inductive preach (c : config) : psys -> Prop :=
| pr_init calls bad : preach c (pinit c calls bad)
| pr_step y a y' : preach c y -> parts_step y a = Some y' -> preach c y'.

Theorem preach_is_run c y : preach c y -> exists tr, ppar y = run c tr.
Proof.
  intros H. induction H as [calls bad|y a y' _ (tr & IH) Hs]; [exists []; reflexivity|].
  exists (tr ++ pevent y a). rewrite (pstep_par _ _ _ Hs), IH. unfold run, run_from. rewrite fold_left_app. reflexivity.
Qed.

Lemma prun_par : forall sched y y', prun y sched = Some y' -> ppar y' = run_from (ppar y) (pevents_of y sched).
Proof.
  induction sched as [|a r IH]; intros y y'; cbn [prun pevents_of].
  - intros H; inversion H; reflexivity.
  - destruct (parts_step y a) as [y1|] eqn:E; [|discriminate]. intros H.
    unfold run_from. rewrite fold_left_app. fold (run_from (ppar y) (pevent y a)). rewrite <- (pstep_par _ _ _ E).
    apply IH. exact H.
Qed.

Theorem preach_allj c y : preach c y -> AllJ (ppar y).
Proof. intros H. destruct (preach_is_run c y H) as [tr ->]. apply reachable_good. Qed.

Corollary reachable_schedules_terminate c y : preach c y ->
  Acc (fun y' y0 => AllJ (ppar y0) /\ exists a, parts_step y0 a = Some y') y.
Proof. intros H. apply every_schedule_terminates. eapply preach_allj; eauto. Qed.

(* ================================================================== D. no deadlock *)
(* where no step of client, task handler, workers or result handler is enabled, nothing is queued,
   written, executing or unhandled: the four never wait for one another in a cycle *)
Theorem pstuck_nothing_in_flight y :
  pstate (ppar y) = 0 -> putlocks (ppar y) = false -> pwk y <> [] ->
  (forall a, is_next a = false -> parts_step y a = None) ->
  ptodo y = [] /\ feeds (ppar y) = [] /\ pinq y = [] /\ somep (pwk y) = [] /\ poutq y = [].
Proof.
  intros Hp Hl Hw Hst.
  assert (Ho : poutq y = []).
  { destruct (poutq y) as [|m r] eqn:E; [reflexivity|exfalso]. specialize (Hst PRecv eq_refl). cbn [parts_step] in Hst.
    rewrite E in Hst. destruct m; discriminate. }
  assert (Hs : somep (pwk y) = []).
  { destruct (somep (pwk y)) as [|a r] eqn:E; [reflexivity|exfalso].
    assert (Hex : exists i b, nth_error (pwk y) i = Some (Some b)).
    { clear - E. revert a r E. induction (pwk y) as [|[b|] l IH]; intros a r E; cbn in E; [discriminate| |].
      - exists 0%nat, b. reflexivity.
      - destruct (IH _ _ E) as (i & b & H). exists (S i), b. exact H. }
    destruct Hex as (i & b & Hi). specialize (Hst (PFinish i) eq_refl). cbn [parts_step] in Hst. rewrite Hi in Hst. discriminate. }
  assert (Hi : pinq y = []).
  { destruct (pinq y) as [|a r] eqn:E; [reflexivity|exfalso]. destruct (pwk y) as [|[b|] l] eqn:Ew; [congruence| |].
    - cbn in Hs. discriminate.
    - specialize (Hst (PTake 0) eq_refl). cbn [parts_step] in Hst. rewrite Ew, E in Hst. discriminate. }
  assert (Hf : feeds (ppar y) = []).
  { destruct (feeds (ppar y)) eqn:E; [reflexivity|exfalso]. specialize (Hst PFeed eq_refl). cbn [parts_step] in Hst.
    rewrite E in Hst. discriminate. }
  assert (Ht : ptodo y = []).
  { destruct (ptodo y) as [|c r] eqn:E; [reflexivity|exfalso]. destruct (call_enabled (ppar y) c Hp Hl) as [s' Hs'].
    specialize (Hst PSubmit eq_refl). cbn [parts_step] in Hst. rewrite E, Hs' in Hst. discriminate. }
  auto.
Qed.

Lemma preach_env c y : preach c y ->
  pstate (ppar y) = 0 /\ putlocks (ppar y) = c_putlocks c /\ length (pwk y) = Z.to_nat (c_n c).
Proof.
  intros H. induction H as [calls bad|y a y' _ (A & B & C) Hs].
  - unfold pinit. cbn [ppar pwk]. rewrite repeat_length. unfold init.
    match goal with |- context [start_n ?k ?i ?s0] => destruct (start_n_frame k i s0) as (_ & _ & P & Q) end.
    rewrite P, Q. auto.
  - destruct (pstep_env _ _ _ Hs) as [P Q]. rewrite P, Q, (pstep_wk _ _ _ Hs). auto.
Qed.

(* for reachable states of a pool of at least one worker without slot discipline: a maximal schedule
   (nothing but next() could still move) has nothing in flight, and every schedule is finite *)
Theorem preach_stuck_nothing_in_flight c y :
  1 <= c_n c -> c_putlocks c = false -> preach c y ->
  (forall a, is_next a = false -> parts_step y a = None) ->
  ptodo y = [] /\ feeds (ppar y) = [] /\ pinq y = [] /\ somep (pwk y) = [] /\ poutq y = [].
Proof.
  intros Hn Hl Hr Hst. destruct (preach_env c y Hr) as (A & B & C).
  apply pstuck_nothing_in_flight; [exact A|congruence| |exact Hst].
  intros E. rewrite E in C. cbn in C. lia.
Qed.

(* ================================================================== E. witnesses (evaluated) *)
Definition pshow (y : psys) :=
  (map (fun x => (kind x, ready x, value x, number_left x, cb_succ x, cb_err x, index x, ilength x)) (jobs (ppar y)),
   pnexts y, pidle y).

(* a map of 5 items in chunks of 2 (3 parts) on two workers: part 1 completes first, then part 2, part 0
   last; the job resolves with the LAST part handled, success callback once.  (Values are tags in the
   pool model; that the list is in input order is checked on the implementation by
   props/poolcommon.parts_closed_check and proved of the reassembly in the C02 family.) *)
Definition pp_cfg := mkcfg 2 None None None None 1 false false.
Definition map_sched :=
  [PSubmit; PFeed; PTake 0; PTake 1; PFinish 1; PTake 1; PFinish 1; PFinish 0;
   PRecv; PRecv; PRecv; PRecv; PRecv].
Example map_out_of_order :
  option_map (fun y => (pshow y, poutq y)) (prun (pinit pp_cfg [CMap 5 2] []) map_sched)
  = Some (([(KMap, false, None, 1, 0, 0, 0, None)], [], false), [PReady 0 (Some 0) 0 true 0])
  /\ option_map pshow (prun (pinit pp_cfg [CMap 5 2] []) (map_sched ++ [PRecv]))
     = Some ([(KMap, true, None, 0, 1, 0, 0, None)], [], true)
  /\ pevents_of (pinit pp_cfg [CMap 5 2] []) (map_sched ++ [PRecv])
     = [EMap 5 2; EFeed None false; EAck 0 (Some 0) 0; EAck 0 (Some 1) 1; EReady 0 (Some 1) true 1; EAck 0 (Some 2) 1;
        EReady 0 (Some 2) true 2; EReady 0 (Some 0) true 0].
Proof. vm_compute. repeat split; reflexivity. Qed.

(* a part of a map job raises: the job fails with THAT error when the part is handled, error callback
   once; the parts handled afterwards change nothing *)
Example map_with_a_failing_part :
  option_map pshow (prun (pinit pp_cfg [CMap 5 2] [(0, Some 1)])
                         [PSubmit; PFeed; PTake 0; PTake 1; PFinish 1; PRecv; PRecv; PRecv])
  = Some ([(KMap, true, Some (PExc 1), 3, 0, 1, 0, None)], [], false)
  /\ option_map pshow (prun (pinit pp_cfg [CMap 5 2] [(0, Some 1)])
                            [PSubmit; PFeed; PTake 0; PTake 1; PFinish 1; PRecv; PRecv; PRecv; PFinish 0; PTake 0; PFinish 0; PRecv; PRecv; PRecv])
     = Some ([(KMap, true, Some (PExc 1), 3, 0, 1, 0, None)], [], true).
Proof. vm_compute. split; reflexivity. Qed.

(* imap of 3 items, item 1 raises, completion order 2, 0, 1: next() blocks until item 0 is there,
   yields 0, raises item 1's error at position 1, goes on with item 2, then StopIteration *)
Definition pp3_cfg := mkcfg 3 None None None None 1 false false.
Definition imap_sched := [PSubmit; PFeed; PTake 0; PTake 1; PTake 2; PFinish 2; PRecv; PRecv; PRecv; PRecv].
Example imap_failing_item_in_the_middle :
  (* item 2 has been handled, item 0 not: next() would block *)
  option_map (fun y => parts_step y (PNext 0)) (prun (pinit pp3_cfg [CIMap 3] [(0, Some 1)]) imap_sched) = Some None
  /\ option_map pshow (prun (pinit pp3_cfg [CIMap 3] [(0, Some 1)])
                            (imap_sched ++ [PFinish 0; PRecv; PNext 0; PFinish 1; PRecv; PNext 0; PNext 0; PNext 0]))
     = Some ([(KIMap, true, None, 0, 0, 0, 3, Some 3)],
             [(0, RItem (PValue 0)); (0, RRaised (PExc 1)); (0, RItem (PValue 2)); (0, RStop)], true).
Proof. vm_compute. split; reflexivity. Qed.

(* imap_unordered: the same completion order is the order of the items *)
Example imap_unordered_in_arrival_order :
  option_map pshow (prun (pinit pp_cfg [CIMapU 3] [])
                         [PSubmit; PFeed; PTake 0; PTake 1; PFinish 1; PTake 1; PFinish 1; PFinish 0;
                          PRecv; PRecv; PRecv; PRecv; PRecv; PRecv; PNext 0; PNext 0; PNext 0; PNext 0])
  = Some ([(KIMapU, true, None, 0, 0, 0, 3, Some 3)],
          [(0, RItem (PValue 1)); (0, RItem (PValue 2)); (0, RItem (PValue 0)); (0, RStop)], true).
Proof. vm_compute. reflexivity. Qed.

Example check_parts_case_selftest : check_parts_case (pp_cfg, [], [], [], [], [], true) = 0.
Proof. vm_compute. reflexivity. Qed.

Print Assumptions pstep_work.
Print Assumptions pnext_decreases.
Print Assumptions pstep_lex.
Print Assumptions every_schedule_terminates.
Print Assumptions preach_is_run.
Print Assumptions reachable_schedules_terminate.
Print Assumptions pstuck_nothing_in_flight.
Print Assumptions preach_stuck_nothing_in_flight.
Print Assumptions map_out_of_order.
Print Assumptions map_with_a_failing_part.
Print Assumptions imap_failing_item_in_the_middle.
Print Assumptions imap_unordered_in_arrival_order.
