(* C16: Queue._start_thread with several producer threads per process.
   (1) for ANY program table: only the scheduling point QStartThread changes the list of started
       feeder slots of a process, and it appends the slot of the calling main thread;
   (2) for the programs of Model/QueueCode.v (= the programs compiled from the working tree), under the
       invariant of Proofs/QueueInvBase.v: a thread stands at _start_thread only while it holds the lock of
       its process's _notempty, alone, with no feeder started and nothing buffered; hence at most one
       feeder thread is ever started per process and _start_thread's buffer.clear() never drops an item --
       also as statements about the event trace of every run (the monitors one_feeder_ok / clear_ok of
       Model/QueueCheck.v hold on every trace of the model). *)
From Coq Require Import ZArith List Bool Lia ZifyBool Arith.
From BV Require Import Lib.Cases Model.SemProg Model.QueueProg Model.QueueCode Model.QueueCheck Proofs.SemProgProofs.
From BV Require Import Proofs.QueueInvProofs.
Import ListNotations.
Open Scope Z_scope.

(* ================================================================== (1) any program table *)
Section AnyCode.
Variable code : nat -> list qinstr.

Lemma qlocal_spawned : forall p prog h fuel pc r ps,
    spawned (snd (qlocal p prog h fuel pc r ps)) = spawned ps.
Proof.
  intros p prog h fuel. induction fuel as [|f IH]; intros pc r ps; cbn [qlocal]; [reflexivity|].
  destruct (nth_error prog pc) as [ins|]; [|reflexivity].
  destruct ins; cbn [snd]; try reflexivity.
  all: try (rewrite IH; reflexivity).
  all: try (destruct (spawned ps) eqn:E; rewrite IH; exact E).
  all: repeat match goal with
           | |- context [if ?b then _ else _] => destruct b
           | |- context [match ?x with [] => _ | _ :: _ => _ end] => destruct x
           end; cbn [snd]; try reflexivity; rewrite ?IH; reflexivity.
Qed.

Lemma qstart_spawned : forall sc p fd h res ps,
    spawned (snd (qstart code p fd h res sc ps)) = spawned ps /\ qproc (fst (qstart code p fd h res sc ps)) = p.
Proof.
  induction sc as [|[[[c a0] a1] a2] sc IH]; intros p fd h res ps; cbn [qstart]; [split; reflexivity|].
  pose proof (qlocal_spawned p (code c) h QFUEL 0 (qinit_regs a0 a1 a2) ps) as E.
  destruct (qlocal p (code c) h QFUEL 0 (qinit_regs a0 a1 a2) ps) as [[pc r|v] ps']; cbn [snd fst] in *.
  - split; [exact E|reflexivity].
  - destruct (IH p fd h ((c, a0, a1, a2, v) :: res) ps') as [A B]. split; [congruence|exact B].
Qed.

Lemma qadvance_spawned : forall t pc r h ps,
    spawned (snd (qadvance code t pc r h ps)) = spawned ps /\ qproc (fst (qadvance code t pc r h ps)) = qproc t.
Proof.
  intros t pc r h ps. unfold qadvance.
  pose proof (qlocal_spawned (qproc t) (code (qcid t)) h QFUEL pc r ps) as E.
  destruct (qlocal (qproc t) (code (qcid t)) h QFUEL pc r ps) as [[pc' r'|v] ps']; cbn [snd fst] in *.
  - split; [exact E|reflexivity].
  - destruct (qstart_spawned (qscript t) (qproc t) (qfeeder t) h ((qcur t, v) :: qresults t) ps') as [A B].
    split; [congruence|exact B].
Qed.

Lemma qabort_spawned : forall t h e ps,
    spawned (snd (qabort code t h e ps)) = spawned ps /\ qproc (fst (qabort code t h e ps)) = qproc t.
Proof. intros. unfold qabort. apply qstart_spawned. Qed.

Lemma commit_spawned : forall g i ss pp sl gl x t ps0 extra,
    qproc (fst x) = qproc t -> spawned (snd x) = spawned ps0 ++ extra ->
    ps0 = nth (qproc t) (procs g) dps ->
    forall q, spawned (nth q (procs (commit g i ss pp sl gl x)) dps) =
              spawned (nth q (procs g) dps) ++ (if Nat.eqb q (qproc t) then extra else []).
Proof.
  intros g i ss pp sl gl [t' ps'] t ps0 extra Hp Hs E q. cbn [fst snd] in *. unfold commit. cbn [procs].
  rewrite Hp. destruct (Nat.eqb q (qproc t)) eqn:Eq.
  - apply Nat.eqb_eq in Eq. subst q. rewrite nth_updp_same, Hs, E. reflexivity.
  - apply Nat.eqb_neq in Eq. rewrite nth_updp_other by auto. rewrite app_nil_r. reflexivity.
Qed.

(* one step: the started-feeder list of a process changes only by a _start_thread event (op 7) of one of
   its main threads, which appends the slot of that thread *)
Lemma qstep_spawned : forall g i go g' e, qstep code g i go = Some (g', e) ->
    exists t, nth_error (qthr g) i = Some t /\ fst (fst (fst e)) = i /\
      forall q, spawned (nth q (procs g') dps) =
                spawned (nth q (procs g) dps) ++ (if (snd (fst e) =? 7) && Nat.eqb q (qproc t) then [S i] else []).
Proof.
  intros g i go g' e H. unfold qstep in H.
  destruct (nth_error (qthr g) i) as [t|] eqn:Ht; [|discriminate]. exists t. split; [reflexivity|].
  destruct (qfin t); [discriminate|]. destruct (qdormant g i t); [discriminate|].
  set (ps := nth (qproc t) (procs g) dps) in *.
  assert (K : forall ss pp sl gl pc r h ps1 extra ev, spawned ps1 = spawned ps ++ extra ->
                Some (commit g i ss pp sl gl (qadvance code t pc r h ps1), ev) = Some (g', e) ->
                forall q, spawned (nth q (procs g') dps) =
                          spawned (nth q (procs g) dps) ++ (if Nat.eqb q (qproc t) then extra else [])).
  { intros ss pp sl gl pc r h ps1 extra ev E1 E2. inversion E2; subst g' e.
    destruct (qadvance_spawned t pc r h ps1) as [A B].
    apply (commit_spawned g i ss pp sl gl _ t ps extra); auto. congruence. }
  assert (K0 : forall ss pp sl gl pc r h ps1 ev, spawned ps1 = spawned ps -> snd (fst ev) <> 7 -> fst (fst (fst ev)) = i ->
                Some (commit g i ss pp sl gl (qadvance code t pc r h ps1), ev) = Some (g', e) ->
                fst (fst (fst e)) = i /\
                forall q, spawned (nth q (procs g') dps) =
                          spawned (nth q (procs g) dps) ++ (if (snd (fst e) =? 7) && Nat.eqb q (qproc t) then [S i] else [])).
  { intros ss pp sl gl pc r h ps1 ev E1 Hop Hi E2.
    pose proof (K ss pp sl gl pc r h ps1 [] ev ltac:(rewrite app_nil_r; exact E1) E2) as G.
    assert (Ee : e = ev) by congruence. subst e. split; [exact Hi|]. intros q. rewrite G.
    replace (snd (fst ev) =? 7) with false by (symmetry; apply Z.eqb_neq; exact Hop). cbn [andb].
    destruct (Nat.eqb q (qproc t)); reflexivity. }
  destruct (nth_error (code (qcid t)) (qpc t)) as [ins|]; [|discriminate].
  destruct ins; try discriminate.
  - (* acquire *)
    destruct go.
    + destruct (sem_acq _ _) as [[sm' h']|].
      * refine (K0 _ _ _ _ _ _ _ _ _ _ _ _ H); [reflexivity | cbn; lia | reflexivity].
      * destruct (flagv blocking (qrg t)); [discriminate|]. refine (K0 _ _ _ _ _ _ _ _ _ _ _ _ H); [reflexivity | cbn; lia | reflexivity].
    + destruct (flagv blocking (qrg t) && flagv timed (qrg t)); [|discriminate].
      refine (K0 _ _ _ _ _ _ _ _ _ _ _ _ H); [reflexivity | cbn; lia | reflexivity].
  - (* release *)
    destruct go; [|discriminate]. destruct (sem_rel _ _) as [[sm' h'] e'].
    destruct (e' =? 0).
    + refine (K0 _ _ _ _ _ _ _ _ _ _ _ _ H); [reflexivity | cbn; lia | reflexivity].
    + inversion H; subst g' e. cbn [fst snd]. split; [reflexivity|]. intros q.
      destruct (qabort_spawned t (qheld t) e' ps) as [A B].
      rewrite (commit_spawned g i _ _ _ _ _ t ps [] B ltac:(rewrite app_nil_r; exact A) eq_refl q).
      replace (1 =? 7) with false by reflexivity. cbn [andb]. destruct (Nat.eqb q (qproc t)); reflexivity.
  - destruct go; [|discriminate]. refine (K0 _ _ _ _ _ _ _ _ _ _ _ _ H); [reflexivity | cbn; lia | reflexivity].
  - destruct go; [|discriminate]. refine (K0 _ _ _ _ _ _ _ _ _ _ _ _ H); [reflexivity | cbn; lia | reflexivity].
  - destruct go; [|discriminate]. destruct (pipe g) as [|m rest]; [discriminate|].
    refine (K0 _ _ _ _ _ _ _ _ _ _ _ _ H); [reflexivity | cbn; lia | reflexivity].
  - destruct go.
    + destruct (pipe g) as [|m rest].
      * destruct (flagv timed (qrg t)); [discriminate|]. refine (K0 _ _ _ _ _ _ _ _ _ _ _ _ H); [reflexivity | cbn; lia | reflexivity].
      * refine (K0 _ _ _ _ _ _ _ _ _ _ _ _ H); [reflexivity | cbn; lia | reflexivity].
    + destruct (flagv timed (qrg t)); [|discriminate]. refine (K0 _ _ _ _ _ _ _ _ _ _ _ _ H); [reflexivity | cbn; lia | reflexivity].
  - refine (K0 _ _ _ _ _ _ _ _ _ _ _ _ H); [reflexivity | cbn; lia | reflexivity].
  - (* _start_thread *)
    destruct go; [|discriminate].
    pose proof (fun E => K _ _ _ _ _ _ _ _ [S i] _ E H) as G. specialize (G eq_refl).
    assert (Ee : (i, THREAD, 7, Z.of_nat (length (buf ps))) = e) by congruence. subst e.
    cbn [fst snd]. split; [reflexivity|]. intros q. rewrite G.
    replace (7 =? 7) with true by reflexivity. reflexivity.
Qed.

End AnyCode.

(* ================================================================== (2) the programs of Model/QueueCode.v *)
Opaque upds updz upd updp.
Opaque nls nss sid.

(* the only places where the programs call _start_thread *)
Lemma start_instr_at_start : forall t, QLI t -> qfin t = false ->
    nth_error (qcode (qcid t)) (qpc t) = Some QStartThread -> at_start t.
Proof.
  intros [p fd [[[c a0] a1] a2] pc rg h sc rs f] [_ Hli] Hf H. cbn [qfin] in Hf. subst f.
  unfold qcid in *. cbn [qfeeder qfin qcur qpc qscript qrg qheld fst snd] in *.
  destruct fd.
  - destruct Hli as (_ & Hc & _ & Hpc). subst c.
    dn pc 16%nat; cbn [qli_pc] in Hpc; try contradiction; cbn in H; discriminate.
  - destruct Hli as [_ Hli]. destruct (Hli eq_refl) as [Hok Hpc]. clear Hli.
    unfold okq in Hok. cbn [fst snd] in Hok. unfold a2_of in Hpc.
    destruct Hok as [E|[E|[E|[E|E]]]]; subst c.
    all: dn pc 31%nat; cbn [qli_pc] in Hpc; try contradiction; cbn in H; try discriminate.
    all: unfold at_start, qcid; cbn [qfin qcur qpc fst]; auto.
Qed.

(* THE TEST-AND-START IS ATOMIC UNDER _notempty: a main thread standing at _start_thread (it has read
   `self._thread is None` as true and not yet started the thread) holds the lock of its process's _notempty;
   no feeder of its process has been started, nothing is buffered, and no other thread of any process holds
   that lock -- in particular no second thread of the process stands at _start_thread *)
Theorem start_under_lock : forall M own g i t, QInv M own g -> nth_error (qthr g) i = Some t -> at_start t ->
    qv (nls (qproc t)) g = 0 /\
    spawned (nth (qproc t) (procs g) dps) = [] /\ buf (nth (qproc t) (procs g) dps) = [] /\
    (forall j u, nth_error (qthr g) j = Some u -> j <> i -> qt_nl (qproc t) u = 0 /\ ~ (qproc u = qproc t /\ at_start u)).
Proof.
  intros M own g i t HI Ht Hs.
  pose proof (q_st M own g HI i t Ht Hs) as Es. pose proof (q_b0 M own g HI (qproc t) Es) as Eb.
  pose proof (q_wf M own g HI i t Ht) as [Wp _].
  assert (Hi : (i < length (qthr g))%nat) by (apply nth_error_Some; congruence).
  assert (Hpl : (qproc t < length (procs g))%nat).
  { pose proof (q_len M own g HI). pose proof (div2_odd_idx i). rewrite Wp. apply (q_own M own g HI). destruct (Nat.odd i); lia. }
  destruct (q_nl M own g HI (qproc t) Hpl) as [A B].
  pose proof (at_start_nl t Hs) as E1.
  assert (G : qt_nl (qproc t) t <= sumz (qt_nl (qproc t)) (qthr g)) by (eapply sumz_ge_elem; eauto; intros; apply qt_01).
  split; [lia|]. split; [exact Es|]. split; [exact Eb|].
  intros j u Hu Hne.
  assert (G2 : qt_nl (qproc t) t + qt_nl (qproc t) u <= sumz (qt_nl (qproc t)) (qthr g)).
  { apply (sumz_two _ (qt_nl (qproc t)) (qthr g) i j); auto. intros x _. apply qt_01. }
  pose proof (proj2 (proj2 (proj2 (qt_01 u))) (qproc t)) as G3.
  split; [lia|]. intros [Ep Hu']. pose proof (at_start_nl u Hu') as E2. rewrite Ep in E2. lia.
Qed.

(* AT MOST ONE FEEDER THREAD PER PROCESS: the list of feeder slots started by the _start_thread calls of a
   process never has more than one element; two feeder threads of one process that can both run are the same
   thread *)
Theorem one_feeder_started : forall M own g p, QInv M own g -> (length (spawned (nth p (procs g) dps)) <= 1)%nat.
Proof. intros M own g p HI. apply (q_one M own g HI). Qed.

Theorem feeder_unique : forall M own g i j ti tj, QInv M own g ->
    nth_error (qthr g) i = Some ti -> nth_error (qthr g) j = Some tj ->
    qfeeder ti = true -> qfeeder tj = true -> qproc ti = qproc tj ->
    qdormant g i ti = false -> qdormant g j tj = false -> i = j.
Proof.
  intros M own g i j ti tj HI Hi Hj Fi Fj Ep Di Dj.
  destruct (active_feeder M own g i ti HI Hi Di Fi) as [Ai _].
  destruct (active_feeder M own g j tj HI Hj Dj Fj) as [Aj _].
  rewrite <- Ep in Aj. pose proof (q_one M own g HI (qproc ti)) as H1.
  destruct (spawned (nth (qproc ti) (procs g) dps)) as [|a [|b l]]; cbn [length] in H1; [destruct Ai| |lia].
  destruct Ai as [<-|[]]. destruct Aj as [<-|[]]. reflexivity.
Qed.

(* THE BUFFER IS NEVER CLEARED WHILE IT HOLDS AN ITEM: a step whose event is a _start_thread (op 7) is taken
   by a thread standing at _start_thread, and its buffer.clear() dropped 0 items *)
Theorem start_step_clears_nothing : forall M own g i go g' e, QInv M own g -> qstep qcode g i go = Some (g', e) ->
    snd (fst e) = 7 ->
    exists t, nth_error (qthr g) i = Some t /\ at_start t /\ e = (i, THREAD, 7, 0) /\
              buf (nth (qproc t) (procs g) dps) = [].
Proof.
  intros M own g i go g' e HI H Hop. unfold qstep in H.
  destruct (nth_error (qthr g) i) as [t|] eqn:Ht; [|discriminate]. exists t. split; [reflexivity|].
  destruct (qfin t) eqn:Hf; [discriminate|]. destruct (qdormant g i t); [discriminate|].
  destruct (nth_error (qcode (qcid t)) (qpc t)) as [ins|] eqn:Hins; [|discriminate].
  destruct ins; try discriminate.
  all: try (exfalso;
            repeat match type of H with
                   | context [if ?b then _ else _] => destruct b
                   | context [match ?x with _ => _ end] => destruct x
                   end; try discriminate; inversion H; subst e; cbn in Hop; discriminate).
  destruct go; [|discriminate].
  assert (Hs : at_start t) by (apply start_instr_at_start; auto; apply (q_li M own g HI); eapply nth_error_In; eauto).
  destruct (start_under_lock M own g i t HI Ht Hs) as (_ & _ & Eb & _).
  split; [exact Hs|]. split; [|exact Eb]. rewrite Eb in H. cbn [length Z.of_nat] in H. congruence.
Qed.

(* ------------------------------------------------------------------ the event trace of a run *)
Definition nstarts (own : list nat) (p : nat) (es : list event) : nat :=
  length (filter (fun e => is_start e && Nat.eqb (proc_of own (let '(t, _, _, _) := e in t)) p) es).

Lemma one_feeder_ok_iff : forall own n es,
    one_feeder_ok own n es = true <-> forall p, (p < n)%nat -> (nstarts own p es <= 1)%nat.
Proof.
  intros own n es. unfold one_feeder_ok. rewrite forallb_forall. split.
  - intros H p Hp. specialize (H p ltac:(apply in_seq; lia)). apply Nat.leb_le in H. exact H.
  - intros H p Hp. apply in_seq in Hp. apply Nat.leb_le. apply H. lia.
Qed.

(* along every run: each _start_thread event dropped nothing, and the number of _start_thread events of a
   process is the growth of its list of started feeder slots *)
Lemma run_starts : forall M own sched g g' es ok,
    QInv M own g -> qrun_small g sched -> qrun qcode g sched = (g', es, ok) ->
    clear_ok es = true /\
    forall p, length (spawned (nth p (procs g') dps)) = (length (spawned (nth p (procs g) dps)) + nstarts own p es)%nat.
Proof.
  intros M own. induction sched as [|[i go] sched IH]; intros g g' es ok HI Hs H; cbn [qrun] in H.
  - inversion H; subst. split; [reflexivity|]. intros p. cbn. lia.
  - cbn [qrun_small] in Hs. destruct Hs as [Hsm Hs].
    destruct (qstep qcode g i go) as [[g1 e]|] eqn:Es.
    2: { inversion H; subst. split; [reflexivity|]. intros p. cbn. lia. }
    destruct (qrun qcode g1 sched) as [[g2 es2] ok2] eqn:Er. inversion H; subst g' es ok. clear H.
    pose proof (qstep_inv M own g i go g1 e HI Hsm Es) as HI1.
    destruct (IH g1 g2 es2 ok2 HI1 Hs Er) as [C N].
    destruct (qstep_spawned qcode g i go g1 e Es) as (t & Ht & Ei & Hsp).
    pose proof (q_wf M own g HI i t Ht) as [Wp _].
    destruct e as [[[te o] op] r]. cbn [fst snd] in *. subst te.
    assert (Hpo : proc_of own i = qproc t) by (unfold proc_of; rewrite <- Nat.div2_div; congruence).
    destruct (op =? 7) eqn:Eop.
    + apply Z.eqb_eq in Eop. subst op.
      destruct (start_step_clears_nothing M own g i go g1 (i, o, 7, r) HI Es eq_refl) as (t' & Ht' & _ & Ee & _).
      inversion Ee; subst o r. split.
      * cbn [clear_ok forallb]. unfold clear_ok in C. rewrite C. reflexivity.
      * intros p. rewrite N, Hsp, app_length. unfold nstarts. cbn [filter is_start]. rewrite Hpo.
        replace (Nat.eqb THREAD THREAD && (7 =? 7)) with true by reflexivity. cbn [andb].
        rewrite (Nat.eqb_sym (qproc t) p). destruct (Nat.eqb p (qproc t)); cbn [length]; lia.
    + split.
      * cbn [clear_ok forallb is_start]. rewrite Eop, andb_false_r. cbn [negb orb andb]. exact C.
      * intros p. rewrite N, Hsp. cbn [andb]. rewrite app_nil_r. unfold nstarts. cbn [filter is_start].
        rewrite Eop, andb_false_r. cbn [andb]. reflexivity.
Qed.

(* every trace of the model passes the two _start_thread monitors of Model/QueueCheck.v *)
Theorem trace_starts_ok : forall M own scripts sched g es ok,
    0 <= M -> Forall (Forall okq) scripts -> own_ok (length scripts) own ->
    qrun_small (qinit_own M own scripts) sched ->
    qrun qcode (qinit_own M own scripts) sched = (g, es, ok) ->
    clear_ok es = true /\ one_feeder_ok own (length scripts) es = true.
Proof.
  intros M own scripts sched g es ok HM Hs Hown Hsm H.
  pose proof (qinv_init M own scripts HM Hs Hown) as HI0.
  destruct (run_starts M own sched _ g es ok HI0 Hsm H) as [C N]. split; [exact C|].
  apply one_feeder_ok_iff. intros p Hp.
  pose proof (qinv_run M own sched _ g es ok HI0 Hsm H) as HI.
  pose proof (q_one M own g HI p) as H1. rewrite N in H1.
  assert (E0 : spawned (nth p (procs (qinit_own M own scripts)) dps) = []) by (rewrite (qinit_procs M own scripts Hs Hown), nth_repeat_dps; reflexivity).
  rewrite E0 in H1. cbn [length] in H1. lia.
Qed.
