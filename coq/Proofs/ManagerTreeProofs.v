(* C20: executing the control skeletons of Server.serve_client / Server.handle_request
   (the statement trees regenerated from the source) computes Manager.serve /
   Manager.handle_request. *)
From Coq Require Import String ZArith List Bool Lia ZifyBool.
From BV Require Import Lib.ManagerLib Lib.Cases Model.Manager.
Import ListNotations.
Open Scope Z_scope.

Definition req_msg (s : st) (r : creq) : reply * st :=
  match r with
  | CMalformed _ => (R_traceback E_Type, s)
  | CReq id m a newid _ => dispatch s id m a newid
  end.

Definition ex1 (st : stmt) (e : env) : flow env := exec serve_prim cond_sem enter_handler st e.

(* everything later code can see of the environment after the message block *)
Definition pm (e : env) : st * list creq * list reply * bool * bool * nat * option reply * conn :=
  (v_srv e, v_in e, v_out e, v_closed e, v_read e, v_sf e, v_msg e, v_conn e).

Definition flow_pm (f : flow env) :=
  match f with Normal e => Some (pm e) | _ => None end.

Ltac split_sf sf := destruct sf as [|[|sf]].

Lemma proxy_create_exc s id newid o t v e s' :
  proxy_create s id newid o t v = Exc e s' -> e = E_Other.
Proof.
  unfold proxy_create, create_tail. destruct v; intros H; inversion H; auto.
Qed.

Local Opaque dget proxy_create apply_ref exposed_of has_attr m2t_of is_fallback fb_result set_obj.

Lemma msg_block : forall e r rest,
    v_in e = r :: rest ->
    flow_pm (ex1 serve_msg_block e) =
    let (msg, s1) := req_msg (v_srv e) r in
    Some (s1, rest, v_out e, v_closed e, v_read e, req_sf r, Some msg, v_conn e).
Proof.
  intros e r rest Hin.
  destruct e as [srv inp out cl rq sf0 ident meth args nid slot res typeid rident msg exc fb result conn rd func].
  cbn [v_in] in Hin. subst inp.
  destruct r as [id m a newid sf|sf]; [|reflexivity].
  cbn [req_msg req_sf v_srv]. unfold dispatch.
  destruct srv as [ob rc]. cbn [objs].
  destruct (dget ob id) as [[|o t]|] eqn:Hg.
  - lazy. rewrite Hg. reflexivity.
  - destruct (exposed_of t m) eqn:Hex.
    + destruct (has_attr t m) eqn:Hat; cbn [andb].
      * destruct (apply_ref o t m a) as [[v o']|x] eqn:Hap.
        -- destruct (m2t_of t m) as [t2|] eqn:Hm2.
           ++ destruct (proxy_create (set_obj (mk_sst ob rc) id o' t) id newid o' t2 v) as [rid s2|x s2] eqn:Hpc.
              ** lazy; rewrite Hg; lazy; rewrite Hex; lazy; rewrite Hat; lazy;
                   rewrite Hap; lazy; rewrite Hm2; lazy; rewrite Hpc; reflexivity.
              ** pose proof (proxy_create_exc _ _ _ _ _ _ _ _ Hpc) as Hx. subst x.
                 lazy; rewrite Hg; lazy; rewrite Hex; lazy; rewrite Hat; lazy;
                   rewrite Hap; lazy; rewrite Hm2; lazy; rewrite Hpc; reflexivity.
           ++ lazy; rewrite Hg; lazy; rewrite Hex; lazy; rewrite Hat; lazy;
                rewrite Hap; lazy; rewrite Hm2; reflexivity.
        -- lazy; rewrite Hg; lazy; rewrite Hex; lazy; rewrite Hat; lazy; rewrite Hap; reflexivity.
      * unfold fallback. destruct (is_fallback m) eqn:Hfb; [destruct a as [|a0 a]|];
          lazy; rewrite Hg; lazy; rewrite Hex; lazy; rewrite Hat; lazy; rewrite Hfb; reflexivity.
    + cbn [andb]. unfold fallback. destruct (is_fallback m) eqn:Hfb; [destruct a as [|a0 a]|];
          lazy; rewrite Hg; lazy; rewrite Hex; lazy; rewrite Hfb; reflexivity.
  - lazy. rewrite Hg. reflexivity.
Qed.

(* what one loop iteration / the whole loop leaves behind *)
Inductive kind := KN | KE (c : Z) | KR.
Definition proj (f : flow env) : kind * st * list creq * list reply * bool * bool * conn :=
  match f with
  | Normal e => (KN, v_srv e, v_in e, v_out e, v_closed e, v_read e, v_conn e)
  | Exited c e => (KE c, v_srv e, v_in e, v_out e, v_closed e, v_read e, v_conn e)
  | Raised _ e => (KR, v_srv e, v_in e, v_out e, v_closed e, v_read e, v_conn e)
  end.

Lemma send_block : forall e msg,
    v_msg e = Some msg ->
    proj (ex1 serve_send_block e) =
    match v_sf e with
    | O => (KN, v_srv e, v_in e, msg :: v_out e, v_closed e, v_read e, v_conn e)
    | S O => (KN, v_srv e, v_in e, R_unserializable :: v_out e, v_closed e, v_read e, v_conn e)
    | _ => (KE 1, v_srv e, v_in e, v_out e, true, v_read e, v_conn e)
    end.
Proof.
  intros e m Hm.
  destruct e as [srv inp out cl rq sf0 ident meth args nid slot res typeid rident msg exc fb result conn rd func].
  cbn [v_msg] in Hm. subst msg. split_sf sf0; reflexivity.
Qed.

Lemma send_block_normal : forall e,
    match ex1 serve_send_block e with
    | Normal e' => v_msg e' = v_msg e
    | _ => True
    end.
Proof.
  intros e.
  destruct e as [srv inp out cl rq sf0 ident meth args nid slot res typeid rident msg exc fb result conn rd func].
  split_sf sf0; lazy; auto.
Qed.

Lemma exec_body_two : forall a b e,
    exec_body serve_prim [a; b] e =
    match ex1 a e with
    | Normal e' => match ex1 b e' with Normal e'' => Normal e'' | other => other end
    | other => other
    end.
Proof. intros. unfold exec_body, ex1. cbn [exec_list]. destruct (exec _ _ _ a e); reflexivity. Qed.

Lemma serve_iter : forall e r rest,
    v_in e = r :: rest ->
    proj (exec_body serve_prim serve_body e) =
    let (msg, s1) := req_msg (v_srv e) r in
    match req_sf r with
    | O => (KN, s1, rest, msg :: v_out e, v_closed e, v_read e, v_conn e)
    | S O => (KN, s1, rest, R_unserializable :: v_out e, v_closed e, v_read e, v_conn e)
    | _ => (KE 1, s1, rest, v_out e, true, v_read e, v_conn e)
    end.
Proof.
  intros e r rest Hin. unfold serve_body. rewrite exec_body_two.
  pose proof (msg_block e r rest Hin) as H1.
  destruct (req_msg (v_srv e) r) as [msg s1].
  destruct (ex1 serve_msg_block e) as [e1|x e1|c e1]; cbn [flow_pm] in H1; try discriminate H1.
  unfold pm in H1. inversion H1 as [[A B C D E F G K]]. clear H1.
  pose proof (send_block e1 msg G) as H2.
  revert H2. destruct (ex1 serve_send_block e1) as [e2|x e2|c e2]; intros H2; cbn [proj] in *;
    rewrite H2, F, A, B, C, D, E, K; destruct (req_sf r) as [|[|n]]; reflexivity.
Qed.

Lemma serve_eof : forall e,
    v_in e = [] ->
    proj (exec_body serve_prim serve_body e) =
    (KE 0, v_srv e, [], v_out e, v_closed e, v_read e, v_conn e).
Proof.
  intros e Hin.
  destruct e as [srv inp out cl rq sf0 ident meth args nid slot res typeid rident msg exc fb result conn rd func].
  cbn [v_in] in Hin. subst inp. reflexivity.
Qed.

Lemma serve_cons (s : st) r rest :
  serve s (r :: rest) =
  let (msg, s1) := req_msg s r in
  let (outs, dead) := deliver_msg msg (req_sf r) in
  if dead then (s1, outs, 1, true)
  else let '(s2, o2, code, cl) := serve s1 rest in (s2, outs ++ o2, code, cl).
Proof.
  cbn [serve]. destruct r as [id m a newid sf|sf]; cbn [req_msg req_sf].
  - destruct (dispatch s id m a newid) as [msg s1]. reflexivity.
  - reflexivity.
Qed.

(* the loop over a scripted connection computes Manager.serve *)
Definition projl (f : flow env) :=
  let '(k, s, _, o, c, r, cn) := proj f in (k, s, o, c, r, cn).

Lemma serve_loop_spec : forall l e,
    v_in e = l ->
    projl (serve_loop serve_body (S (length l)) e) =
    let '(s', outs, code, cl) := serve (v_srv e) l in
    (KE code, s', rev outs ++ v_out e, (cl || v_closed e)%bool, v_read e, v_conn e).
Proof.
  unfold projl.
  induction l as [|r rest IH]; intros e Hin.
  - cbn [length serve_loop]. pose proof (serve_eof e Hin) as H.
    destruct (exec_body serve_prim serve_body e) as [e1|x e1|c e1]; cbn [proj] in H.
    + inversion H.
    + inversion H.
    + injection H as A0 A B C D E F. cbn [serve rev app orb proj].
      rewrite A0, A, C, D, E, F. reflexivity.
  - cbn [length]. change (serve_loop serve_body (S (S (length rest))) e)
      with (match exec_body serve_prim serve_body e with
            | Normal e' => serve_loop serve_body (S (length rest)) e'
            | other => other
            end).
    pose proof (serve_iter e r rest Hin) as H. rewrite serve_cons.
    destruct (req_msg (v_srv e) r) as [msg s1].
    destruct (exec_body serve_prim serve_body e) as [e1|x e1|c e1]; cbn [proj] in H; cbv beta iota.
    + destruct (req_sf r) as [|[|n]]; try discriminate H;
        injection H as A B C D E F; cbn [deliver_msg].
      * rewrite (IH e1 B), A. destruct (serve s1 rest) as [[[s2 o2] code] cl2].
        rewrite C, D, E, F. cbn [rev app]. rewrite <- app_assoc. reflexivity.
      * rewrite (IH e1 B), A. destruct (serve s1 rest) as [[[s2 o2] code] cl2].
        rewrite C, D, E, F. cbn [rev app]. rewrite <- app_assoc. reflexivity.
    + destruct (req_sf r) as [|[|n]]; discriminate H.
    + destruct (req_sf r) as [|[|n]]; try discriminate H.
      injection H as A0 A B C D E F. cbn [deliver_msg proj rev app orb].
      rewrite A0, A, C, D, E, F. reflexivity.
Qed.

(* ---------------------------------------------------------- handle_request *)
Local Opaque serve_loop serve create incref decref number_of_objects rev orb.

Lemma hr_finish_eq read msg hsf :
  hr_finish read msg hsf =
  match hsf with
  | O => mk_hobs read [msg] None true
  | S O => mk_hobs read [R_traceback send_exn] None true
  | _ => mk_hobs read [] None true
  end.
Proof. reflexivity. Qed.

Theorem trees_compute_handle_request : forall s c,
    run_trees serve_body hr_body s c = handle_request s c.
Proof.
  intros s [dl an rq hsf]. unfold run_trees, handle_request, init_env. cbn [c_deliver c_answer c_req c_hsf].
  destruct dl as [x|].
  { split_sf hsf; reflexivity. }
  destruct an as [x|].
  { split_sf hsf; reflexivity. }
  destruct rq as [t a newid|id|id| | |calls| | | ].
  - unfold call_public. destruct (create s t a newid) as [v s'|x s'] eqn:Hc;
      split_sf hsf; lazy; rewrite Hc; reflexivity.
  - unfold call_public. destruct (incref s id) as [v s'|x s'] eqn:Hc;
      split_sf hsf; lazy; rewrite Hc; reflexivity.
  - unfold call_public. destruct (decref s id) as [v s'|x s'] eqn:Hc;
      split_sf hsf; lazy; rewrite Hc; reflexivity.
  - split_sf hsf; reflexivity.
  - split_sf hsf; reflexivity.
  - destruct hsf as [|k].
    + (* the serve loop is entered *)
      lazy.
      match goal with
      | |- context [serve_loop ?b ?f ?e] =>
        pose proof (serve_loop_spec calls e eq_refl) as H;
          change (serve_loop serve_body (S (length calls)) e) with (serve_loop b f e) in H;
          destruct (serve_loop b f e) as [e2|x e2|c e2]
      end; unfold projl in H; cbn [proj v_srv v_out v_closed v_read v_conn] in H;
        destruct (serve s calls) as [[[s' outs] code] cl]; try discriminate H.
      injection H as A0 A B C D E.
      destruct e2 as [srv inp out cl0 rq sf0 ident meth args nid slot res typeid rident msg exc fb result conn rd func].
      cbn [v_srv v_out v_closed v_read v_conn] in *. subst.
      rewrite rev_app_distr, rev_involutive, orb_false_r. reflexivity.
    + split_sf k; reflexivity.
  - split_sf hsf; reflexivity.
  - split_sf hsf; reflexivity.
  - split_sf hsf; reflexivity.
Qed.
