(* Generic lemmas about the Python-container functions of Model/Heap.v
   (association-list dicts, list.remove, list.pop, del l[i], bisect, insort). *)
From Coq Require Import ZArith List Bool Lia ZifyBool Permutation.
From BV Require Import Model.Heap.
Import ListNotations.
Open Scope Z_scope.

(* a relation holds between every element and every later element *)
Fixpoint allpairs {A} (R : A -> A -> Prop) (l : list A) : Prop :=
  match l with
  | [] => True
  | x :: r => (forall y, In y r -> R x y) /\ allpairs R r
  end.

Lemma allpairs_perm {A} (R : A -> A -> Prop) :
  (forall x y, R x y -> R y x) ->
  forall l l', Permutation l l' -> allpairs R l -> allpairs R l'.
Proof.
  intros Hsym l l' HP. induction HP; cbn; intros H.
  - exact I.
  - destruct H as [H1 H2]. split; [|auto].
    intros y Hy. apply H1. eapply Permutation_in; [apply Permutation_sym; eassumption|assumption].
  - destruct H as [H1 [H2 H3]]. split; [|split].
    + intros z [Hz|Hz]; [subst; apply Hsym, H1; left; reflexivity | apply H2; assumption].
    + intros z Hz. apply H1. right; assumption.
    + assumption.
  - auto.
Qed.

Lemma allpairs_in {A} (R : A -> A -> Prop) :
  (forall x y, R x y -> R y x) ->
  forall l x y, allpairs R l -> In x l -> In y l -> x = y \/ R x y.
Proof.
  intros Hsym l. induction l as [|a r IH]; cbn; intros x y HA Hx Hy; [contradiction|].
  destruct HA as [H1 H2]. destruct Hx as [Hx|Hx], Hy as [Hy|Hy]; subst.
  - left; reflexivity.
  - right; apply H1; assumption.
  - right; apply Hsym, H1; assumption.
  - apply IH; assumption.
Qed.

Lemma allpairs_app_l {A} (R : A -> A -> Prop) l1 l2 : allpairs R (l1 ++ l2) -> allpairs R l1.
Proof.
  induction l1 as [|a r IH]; cbn; [trivial|]. intros [H1 H2]. split; [|auto].
  intros y Hy. apply H1, in_or_app; left; assumption.
Qed.

Lemma allpairs_lt_nodup l : allpairs Z.lt l -> NoDup l.
Proof.
  induction l as [|a r IH]; cbn; intros H; constructor.
  - intros Hin. destruct H as [H _]. specialize (H a Hin). lia.
  - apply IH, H.
Qed.

Lemma perm_concat {A} (l l' : list (list A)) : Permutation l l' -> Permutation (concat l) (concat l').
Proof.
  intros HP. induction HP; cbn.
  - constructor.
  - apply Permutation_app_head; assumption.
  - rewrite !app_assoc. apply Permutation_app_tail, Permutation_app_comm.
  - eapply Permutation_trans; eassumption.
Qed.

(* ---------------------------------------------------------------- dicts *)
Section DictLemmas.
  Context {K V : Type} (keqb : K -> K -> bool).
  Hypothesis keqb_spec : forall a b, keqb a b = true <-> a = b.

  Lemma keqb_refl k : keqb k k = true.
  Proof. apply keqb_spec; reflexivity. Qed.

  Lemma dget_some_in k (d : list (K * V)) v : dget keqb k d = Some v -> In (k, v) d.
  Proof.
    induction d as [|[k' v'] r IH]; cbn; [discriminate|].
    destruct (keqb k k') eqn:E.
    - intros H; inversion H; subst. apply keqb_spec in E; subst. left; reflexivity.
    - intros H; right; auto.
  Qed.

  Lemma dget_none k (d : list (K * V)) : dget keqb k d = None <-> ~ In k (map fst d).
  Proof.
    induction d as [|[k' v'] r IH]; cbn.
    - split; auto.
    - destruct (keqb k k') eqn:E.
      + apply keqb_spec in E; subst. split; [discriminate|]. intros H; exfalso; apply H; left; reflexivity.
      + rewrite IH. split.
        * intros H [H1|H1]; [subst; rewrite keqb_refl in E; discriminate|auto].
        * intros H H1; apply H; right; assumption.
  Qed.

  Lemma dget_in_nodup k v (d : list (K * V)) :
    NoDup (map fst d) -> In (k, v) d -> dget keqb k d = Some v.
  Proof.
    induction d as [|[k' v'] r IH]; cbn; [contradiction|].
    intros Hnd [H|H].
    - inversion H; subst. rewrite keqb_refl. reflexivity.
    - inversion Hnd as [|? ? Hni Hnd']; subst.
      destruct (keqb k k') eqn:E.
      + apply keqb_spec in E; subst. exfalso; apply Hni.
        change k' with (fst (k', v)). apply in_map; assumption.
      + auto.
  Qed.

  Lemma dget_some_ddel k v (d : list (K * V)) :
    dget keqb k d = Some v -> exists d', ddel keqb k d = Some d' /\ Permutation d ((k, v) :: d').
  Proof.
    induction d as [|[k' v'] r IH]; cbn; [discriminate|].
    destruct (keqb k k') eqn:E.
    - intros H; inversion H; subst. apply keqb_spec in E; subst. eexists; split; [reflexivity|apply Permutation_refl].
    - intros H. destruct (IH H) as [d' [H1 H2]]. rewrite H1. eexists; split; [reflexivity|].
      eapply Permutation_trans; [apply perm_skip; eassumption|apply perm_swap].
  Qed.

  Lemma ddel_none k (d : list (K * V)) : dget keqb k d = None -> ddel keqb k d = None.
  Proof.
    induction d as [|[k' v'] r IH]; cbn; [reflexivity|].
    destruct (keqb k k'); [discriminate|]. intros H; rewrite (IH H); reflexivity.
  Qed.

  Lemma perm_keys_nodup (d d' : list (K * V)) :
    Permutation d d' -> NoDup (map fst d) -> NoDup (map fst d').
  Proof. intros HP. apply Permutation_NoDup, Permutation_map, HP. Qed.
End DictLemmas.

(* ---------------------------------------------------------------- lists *)
Section ListLemmas.
  Context {A : Type} (eqb : A -> A -> bool).
  Hypothesis eqb_spec : forall a b, eqb a b = true <-> a = b.

  Lemma remove1_some x (l l' : list A) : remove1 eqb x l = Some l' -> Permutation l (x :: l').
  Proof.
    revert l'. induction l as [|y r IH]; cbn; intros l'; [discriminate|].
    destruct (eqb x y) eqn:E.
    - intros H; inversion H; subst. apply eqb_spec in E; subst. apply Permutation_refl.
    - destruct (remove1 eqb x r) as [r'|]; [|discriminate]. intros H; inversion H; subst.
      eapply Permutation_trans; [apply perm_skip, IH; reflexivity|apply perm_swap].
  Qed.

  Lemma remove1_in x (l : list A) : In x l -> exists l', remove1 eqb x l = Some l'.
  Proof.
    induction l as [|y r IH]; cbn; [contradiction|]. intros H.
    destruct (eqb x y) eqn:E; [eexists; reflexivity|].
    destruct H as [H|H]; [subst; rewrite (proj2 (eqb_spec x x) eq_refl) in E; discriminate|].
    destruct (IH H) as [r' Hr]. rewrite Hr. eexists; reflexivity.
  Qed.

  Lemma remove1_allpairs (R : A -> A -> Prop) x (l l' : list A) :
    remove1 eqb x l = Some l' -> allpairs R l -> allpairs R l'.
  Proof.
    revert l'. induction l as [|y r IH]; cbn; intros l'; [discriminate|].
    destruct (eqb x y) eqn:E.
    - intros H [_ H2]; inversion H; subst; assumption.
    - destruct (remove1 eqb x r) as [r'|] eqn:Er; [|discriminate]. intros H [H1 H2]; inversion H; subst.
      cbn. split; [|apply IH; auto].
      intros z Hz. apply H1. apply remove1_some in Er.
      eapply Permutation_in; [apply Permutation_sym; eassumption|right; assumption].
  Qed.

  Lemma mem_in x (l : list A) : mem eqb x l = true <-> In x l.
  Proof.
    induction l as [|y r IH]; cbn; [split; [discriminate|contradiction]|].
    rewrite orb_true_iff, IH, eqb_spec. split; intros [H|H]; auto.
  Qed.
End ListLemmas.

Lemma del_nth_perm {A} (l : list A) i x : nth_error l i = Some x -> Permutation l (x :: del_nth i l).
Proof.
  revert i. induction l as [|a r IH]; intros [|i]; cbn; try discriminate.
  - intros H; inversion H; subst. apply Permutation_refl.
  - intros H. eapply Permutation_trans; [apply perm_skip, IH; eassumption|apply perm_swap].
Qed.

Lemma del_nth_allpairs {A} (R : A -> A -> Prop) (l : list A) i x :
  nth_error l i = Some x -> allpairs R l -> allpairs R (del_nth i l).
Proof.
  revert i. induction l as [|a r IH]; intros [|i]; cbn; try discriminate.
  - intros _ [_ H]; assumption.
  - intros H [H1 H2]. split; [|eapply IH; eauto].
    intros z Hz. apply H1. apply del_nth_perm in H.
    eapply Permutation_in; [apply Permutation_sym; eassumption|right; assumption].
Qed.

Lemma insort_perm l x : Permutation (insort l x) (x :: l).
Proof.
  induction l as [|y r IH]; cbn; [apply Permutation_refl|].
  destruct (x <? y); [apply Permutation_refl|].
  eapply Permutation_trans; [apply perm_skip; eassumption|apply perm_swap].
Qed.

Lemma insort_sorted l x : allpairs Z.lt l -> ~ In x l -> allpairs Z.lt (insort l x).
Proof.
  induction l as [|y r IH]; cbn; intros H Hni; [split; [intros y []|exact I]|].
  destruct H as [H1 H2]. destruct (x <? y) eqn:E.
  - cbn. split; [|split; assumption].
    intros z [Hz|Hz]; [lia|]. specialize (H1 z Hz). lia.
  - cbn. split; [|apply IH; auto].
    intros z Hz. eapply Permutation_in in Hz; [|apply insort_perm].
    destruct Hz as [Hz|Hz]; [subst z|auto].
    assert (x <> y) by (intros ->; apply Hni; left; reflexivity). lia.
Qed.

(* bisect_left: everything before the index is smaller; if the index is inside the list
   the element there is >= x *)
Lemma bisect_left_spec (l : list Z) (x : Z) :
  (forall (j : nat) (y : Z), (j < bisect_left l x)%nat -> nth_error l j = Some y -> y < x) /\
  (forall y : Z, nth_error l (bisect_left l x) = Some y -> x <= y).
Proof.
  induction l as [|a r IH]; cbn.
  - split; [intros j y Hj; lia|intros y H; discriminate].
  - destruct (a <? x) eqn:E; cbn.
    + destruct IH as [IH1 IH2]. split; [|exact IH2].
      intros [|j] y Hj; cbn; [intros H; inversion H; subst; lia|]. intros H; eapply IH1; [|eassumption]. lia.
    + split; [intros j y Hj; lia|]. intros y H; inversion H; subst; lia.
Qed.

Lemma bisect_left_le l x : (bisect_left l x <= length l)%nat.
Proof. induction l as [|a r IH]; cbn; [lia|]. destruct (a <? x); cbn; lia. Qed.

Lemma pop_last_spec {A} (l : list A) :
  match pop_last l with
  | Some (l', x) => l = l' ++ [x]
  | None => l = []
  end.
Proof.
  induction l as [|a r IH]; [reflexivity|].
  cbn [pop_last]. destruct r as [|b r']; [reflexivity|].
  destruct (pop_last (b :: r')) as [[r'' y]|]; [|discriminate].
  rewrite IH. reflexivity.
Qed.

Lemma is_nil_spec {A} (l : list A) : is_nil l = true <-> l = [].
Proof. destruct l; cbn; split; intros; congruence. Qed.
