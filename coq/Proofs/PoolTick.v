(* What one supervision pass (Pool._maintain_pool) does to each job: an exact
   per-job characterisation, and the C04 decision rules that follow from it. *)
From Coq Require Import ZArith List Bool Lia ZifyBool.
From BV Require Import Lib.Cases Model.LaxSem Model.Restart Model.Pool Proofs.PoolJobs Proofs.PoolInv.
Import ListNotations.
Open Scope Z_scope.

Definition reaped (s : pool) : list Z := filter (exited s) (rev (wlist s)).
Definition kept (s : pool) : list Z := filter (fun p => negb (exited s p)) (wlist s).

Definition tick_job (s : pool) (x : job) : job :=
  let x1 := if lost_due s x then fst (mark_lost x) else x in
  match reaped s with
  | [] => x1
  | _ => if incache x1 then fst (on_job_down s (reaped s) (kept s) x1) else x1
  end.

(* on_job_down / exited only read the process table *)
Lemma on_job_down_procs s s' cl rem x :
  procs s' = procs s -> now s' = now s -> on_job_down s' cl rem x = on_job_down s cl rem x.
Proof.
  intros Hp Hn. unfold on_job_down, exit_of, get_proc. rewrite Hp, Hn. reflexivity.
Qed.

Lemma exited_procs s s' : procs s' = procs s -> forall p, exited s' p = exited s p.
Proof. intros Hp p. unfold exited, get_proc. rewrite Hp. reflexivity. Qed.

Lemma exit_of_procs s s' : procs s' = procs s -> forall p, exit_of s' p = exit_of s p.
Proof. intros Hp p. unfold exit_of, get_proc. rewrite Hp. reflexivity. Qed.

Lemma filter_ext_eq {A} (f g : A -> bool) l : (forall a, f a = g a) -> filter f l = filter g l.
Proof. intros H. induction l as [|a l IH]; cbn; [reflexivity|]. rewrite H, IH. reflexivity. Qed.

Lemma jobs_repopulate fuel i codes s : jobs (fst (repopulate fuel i codes s)) = jobs s.
Proof. apply (sj_repopulate fuel i codes s). Qed.

Theorem tick_jobs s : jobs (fst (do_tick s)) = map (tick_job s) (jobs s).
Proof.
  unfold do_tick, join_exited.
  set (s1 := mark_all_lost s).
  assert (Hp1 : procs s1 = procs s) by reflexivity.
  assert (Hw1 : wlist s1 = wlist s) by reflexivity.
  assert (Hr : filter (exited s1) (rev (wlist s1)) = reaped s).
  { unfold reaped. rewrite Hw1. apply filter_ext_eq. apply exited_procs. exact Hp1. }
  assert (Hk : filter (fun p => negb (exited s1 p)) (wlist s1) = kept s).
  { unfold kept. rewrite Hw1. apply filter_ext_eq. intros p. rewrite (exited_procs s s1 Hp1). reflexivity. }
  rewrite Hr, Hk.
  assert (Hj1 : jobs s1 = map (fun x => if lost_due s x then fst (mark_lost x) else x) (jobs s)) by reflexivity.
  unfold tick_job.
  destruct (reaped s) as [|c0 cl0] eqn:Ecl.
  - match goal with |- jobs (fst (let (s0, r) := ?rp in _)) = _ =>
      pose proof (jobs_repopulate (Z.to_nat (nprocs (with_wlist s1 (kept s)) - Z.of_nat (length (wlist (with_wlist s1 (kept s)))))) 0 [] (with_wlist s1 (kept s))) as Hjr;
      destruct rp as [s2 r] eqn:Erp end.
    cbn [fst] in Hjr.
    destruct r; cbn [fst]; (etransitivity; [exact Hjr|exact Hj1]).
  - set (s2 := down_all (with_wlist s1 (kept s)) (c0 :: cl0) (kept s)).
    match goal with |- jobs (fst (let (s0, r) := ?rp in _)) = _ =>
      pose proof (jobs_repopulate (Z.to_nat (nprocs s2 - Z.of_nat (length (wlist s2)))) 0
                                  (map (exit_of s1) (c0 :: cl0)) s2) as Hjr;
      destruct rp as [s3 r] eqn:Erp end.
    cbn [fst] in Hjr.
    assert (Hj2 : jobs s2 = map (tick_job s) (jobs s)).
    { unfold s2, down_all, map_jobs. cbn [jobs with_wlist]. rewrite Hj1, map_map.
      apply map_ext. intros x. unfold tick_job. rewrite Ecl.
      destruct (incache (if lost_due s x then fst (mark_lost x) else x)); [|reflexivity].
      rewrite (on_job_down_procs s (with_wlist s1 (kept s))); reflexivity. }
    unfold tick_job in Hj2. rewrite Ecl in Hj2.
    destruct r; cbn [fst]; (etransitivity; [exact Hjr|exact Hj2]).
Qed.

Corollary tick_get_job s j :
  get_job (fst (do_tick s)) j = option_map (tick_job s) (get_job s j).
Proof.
  unfold get_job. rewrite tick_jobs. destruct (j <? 0); [reflexivity|].
  rewrite nth_error_map. reflexivity.
Qed.

(* ------------------------------------------------------------------ C04 rules *)

(* deadline: an unresolved cached job whose grace period is over is failed by this
   very pass with the status recorded in its marker, and its own job id *)
Theorem tick_deadline s x lt st :
  kind x = KApply -> incache x = true -> ready x = false ->
  worker_lost x = Some (lt, st) -> lost_timeout x < now s - lt ->
  ready (tick_job s x) = true /\ value (tick_job s x) = Some (PLost st (jid x)).
Proof.
  intros Hk Hc Hr Hw Hd.
  assert (Hdue : lost_due s x = true).
  { unfold lost_due. rewrite Hc, Hr, Hw. cbn. lia. }
  assert (H1 : ready (fst (mark_lost x)) = true /\ value (fst (mark_lost x)) = Some (PLost st (jid x))
               /\ kind (fst (mark_lost x)) = KApply).
  { unfold mark_lost, job_set. rewrite Hw, Hk. cbn [fst]. unfold apply_set. rewrite Hr. cbn. auto. }
  destruct H1 as (R1 & V1 & K1).
  unfold tick_job. rewrite Hdue.
  destruct (reaped s) as [|c0 cl0]; [auto|].
  destruct (incache (fst (mark_lost x))); [|auto].
  pose proof (on_job_down_mono s (c0 :: cl0) (kept s) (fst (mark_lost x))) as Hm.
  destruct (jm_outcome _ _ Hm K1 R1) as (A & B & _). rewrite B. auto.
Qed.

Lemma on_job_down_value s cl rem x :
  kind x = KApply -> ready x = false -> value x = None ->
  value (fst (on_job_down s cl rem x)) = None
  \/ exists c, value (fst (on_job_down s cl rem x)) = Some (PTerminated c).
Proof.
  intros Hk Hr Hv. unfold on_job_down.
  destruct (acked_by_gone cl rem x) as [p|]; [|left; exact Hv].
  rewrite Hr.
  destruct (memZ p cl && match get_proc s p with Some q => jterm q | None => false end).
  - right. unfold job_set. rewrite Hk. cbn [fst]. unfold apply_set. rewrite Hr. cbn. eauto.
  - left. destruct (worker_lost x); cbn; exact Hv.
Qed.

(* never earlier: a job that this pass fails with WorkerLostError had a marker older
   than its lost-worker timeout, and the error names this job and that status *)
Theorem tick_never_early s x st j :
  JInv x -> kind x = KApply -> ready x = false ->
  value (tick_job s x) = Some (PLost st j) ->
  j = jid x /\ exists lt, worker_lost x = Some (lt, st) /\ lost_timeout x < now s - lt.
Proof.
  intros Hi Hk Hr Hv. unfold tick_job in Hv.
  destruct (ji_apply_unres _ Hi Hk Hr) as (Hnone & _ & _).
  destruct (lost_due s x) eqn:Hdue.
  - (* marked by the first loop *)
    unfold lost_due in Hdue. rewrite Hr in Hdue.
    destruct (worker_lost x) as [[lt st0]|] eqn:Hw; [|destruct (incache x); discriminate].
    assert (H1 : ready (fst (mark_lost x)) = true /\ value (fst (mark_lost x)) = Some (PLost st0 (jid x))
                 /\ kind (fst (mark_lost x)) = KApply).
    { unfold mark_lost, job_set. rewrite Hw, Hk. cbn [fst]. unfold apply_set. rewrite Hr. cbn. auto. }
    destruct H1 as (R1 & V1 & K1).
    assert (Hv' : value (fst (mark_lost x)) = Some (PLost st j)).
    { destruct (reaped s) as [|c0 cl0]; [exact Hv|]. destruct (incache (fst (mark_lost x))); [|exact Hv].
      pose proof (on_job_down_mono s (c0 :: cl0) (kept s) (fst (mark_lost x))) as Hm.
      destruct (jm_outcome _ _ Hm K1 R1) as (_ & B & _). rewrite <- B. exact Hv. }
    rewrite V1 in Hv'. inversion Hv'; subst. split; [reflexivity|].
    exists lt. split; [reflexivity|]. destruct (incache x); cbn in Hdue; [lia|discriminate].
  - (* not due: the second loop can only set a marker or Terminated *)
    exfalso. destruct (reaped s) as [|c0 cl0]; [congruence|].
    destruct (incache x); [|congruence].
    destruct (on_job_down_value s (c0 :: cl0) (kept s) x Hk Hr Hnone) as [H|[c H]]; congruence.
Qed.

(* exactly its job: a job none of whose owners is gone, and whose grace period (if any)
   is not over, is left exactly as it was by the whole pass *)
Theorem tick_frame s x :
  lost_due s x = false ->
  acked_by_gone (reaped s) (kept s) x = None ->
  tick_job s x = x.
Proof.
  intros Hd Ha. unfold tick_job. rewrite Hd.
  destruct (reaped s) as [|c0 cl0] eqn:E; [reflexivity|].
  destruct (incache x); [|reflexivity].
  unfold on_job_down. rewrite Ha. reflexivity.
Qed.

(* in particular: when no worker was reaped, only grace-period expiry acts *)
Theorem tick_no_exit_no_marker s x :
  reaped s = [] -> lost_due s x = false -> tick_job s x = x.
Proof. intros Hr Hd. unfold tick_job. rewrite Hd, Hr. reflexivity. Qed.

(* detection: an unresolved cached job whose first gone owner was reaped by this pass
   (and was not stopped through terminate_job) gets the marker (now, exit status) *)
Theorem tick_detects s x p :
  incache x = true -> ready x = false -> worker_lost x = None ->
  acked_by_gone (reaped s) (kept s) x = Some p ->
  memZ p (reaped s) = true ->
  (match get_proc s p with Some q => jterm q | None => false end) = false ->
  worker_lost (tick_job s x) = Some (now s, exit_of s p).
Proof.
  intros Hc Hr Hw Ha Hp Hj. unfold tick_job.
  assert (Hd : lost_due s x = false) by (unfold lost_due; rewrite Hw, Hc, Hr; reflexivity).
  rewrite Hd. destruct (reaped s) as [|c0 cl0] eqn:E; [discriminate|].
  rewrite Hc. unfold on_job_down. rewrite Ha, Hr, Hp, Hj, Hw. cbn. reflexivity.
Qed.

(* terminate_job: the job owned by a worker stopped through terminate_job resolves
   Terminated when that worker is reaped *)
Theorem tick_terminated s x p :
  kind x = KApply -> incache x = true -> ready x = false -> worker_lost x = None ->
  acked_by_gone (reaped s) (kept s) x = Some p ->
  memZ p (reaped s) = true ->
  (match get_proc s p with Some q => jterm q | None => false end) = true ->
  value (tick_job s x) = Some (PTerminated (- exit_of s p)).
Proof.
  intros Hk Hc Hr Hw Ha Hp Hj. unfold tick_job.
  assert (Hd : lost_due s x = false) by (unfold lost_due; rewrite Hw, Hc, Hr; reflexivity).
  rewrite Hd. destruct (reaped s) as [|c0 cl0] eqn:E; [discriminate|].
  rewrite Hc. unfold on_job_down. rewrite Ha, Hr, Hp, Hj. cbn [andb].
  unfold job_set. rewrite Hk. cbn [fst]. unfold apply_set. rewrite Hr. reflexivity.
Qed.

(* grace: a job whose result was handled before the pass keeps it *)
Theorem tick_grace s x :
  kind x = KApply -> ready x = true -> value (tick_job s x) = value x /\ ready (tick_job s x) = true.
Proof.
  intros Hk Hr.
  assert (Hm : jmono x (tick_job s x)).
  { unfold tick_job.
    assert (H1 : jmono x (if lost_due s x then fst (mark_lost x) else x))
      by (destruct (lost_due s x); [apply mark_lost_mono|apply jmono_refl]).
    destruct (reaped s); [exact H1|].
    destruct (incache (if lost_due s x then fst (mark_lost x) else x)); [|exact H1].
    eapply jmono_trans; [exact H1|apply on_job_down_mono]. }
  destruct (jm_outcome _ _ Hm Hk Hr) as (A & B & _). auto.
Qed.

(* Composition over ANY continuation: once a job carries the marker (t0, st), whatever
   happens afterwards (other exits, results for other jobs, scans, user calls, any number
   of passes) -- as long as the job itself is still unresolved and cached when a pass
   runs after the grace period, that pass fails it with WorkerLostError naming the
   ORIGINAL status and this job. *)
Theorem loss_reported_in_any_continuation s1 j x1 t0 st tr x2 :
  AllJ s1 -> get_job s1 j = Some x1 -> kind x1 = KApply -> worker_lost x1 = Some (t0, st) ->
  get_job (run_from s1 tr) j = Some x2 -> incache x2 = true -> ready x2 = false ->
  lost_timeout x1 < now (run_from s1 tr) - t0 ->
  ready (tick_job (run_from s1 tr) x2) = true
  /\ value (tick_job (run_from s1 tr) x2) = Some (PLost st j).
Proof.
  intros Ha Hg1 Hk Hw Hg2 Hc Hr Hd.
  destruct (good_run tr s1 Ha) as [Ha2 Hm].
  destruct (get_job_nth _ _ _ Hg1) as [Hj Hn1]. destruct (Hm _ _ Hn1) as (y & Hy & Hxy).
  destruct (get_job_nth _ _ _ Hg2) as [_ Hn2]. assert (y = x2) by congruence. subst y.
  destruct (Ha2 _ _ Hn2) as [_ Hid].
  assert (Hk2 : kind x2 = KApply) by (rewrite (jm_kind _ _ Hxy); exact Hk).
  assert (Hw2 : worker_lost x2 = Some (t0, st)) by (apply (jm_marker _ _ Hxy); exact Hw).
  destruct (jm_limits _ _ Hxy) as (_ & _ & Hl).
  destruct (tick_deadline (run_from s1 tr) x2 t0 st Hk2 Hc Hr Hw2) as [A B]; [rewrite Hl; exact Hd|].
  split; [exact A|]. rewrite B. f_equal. f_equal. lia.
Qed.
