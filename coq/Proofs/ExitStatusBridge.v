(* C19, part 5 (audit follow-up):
   (a) Popen.wait as used by `step` (wait_proc: the sentinel wait and the waitpid retry
       loop over the scripted oracle) IS the generated-code-equal `wait1` applied to what
       the two oracles answer, whenever the waitpid loop returns; and it fails to return
       exactly when it entered a blocking waitpid that is never answered;
   (b) "join(timeout) returns within the timeout" is FALSE in the faithful model: the
       precise condition under which a timed join blocks, and a reachable witness;
   (c) provenance of a cached exit code over whole histories: whatever sequence of
       start / join / is_alive / exitcode / active_children / getpid changes ran, a code
       is cached for object i only if the waitpid oracle of THAT object reports its pid
       with a status that decodes to the code. *)
From Coq Require Import ZArith List Bool Lia ZifyBool.
From BV Require Import Lib.PyVal Lib.Cases Lib.ExitStatusWait Gen.K_exitstatus Model.ExitStatus
     Proofs.ExitStatusProofs Proofs.ExitStatusWorld.
Import ListNotations.
Open Scope Z_scope.

(* ================================================================== (a) the bridge *)
Definition ready_of (pr : proc) : bool := match rdy (orc pr) with [] => true | b :: _ => b end.
Definition loop_of (blocking : bool) (pr : proc) : list wans * option ans :=
  waitpid_loop blocking (pre (orc pr)) (fin (orc pr)).

(* the WNOHANG loop always returns *)
Lemma nonblocking_loop_returns : forall l f, exists a, snd (waitpid_loop false l f) = Some a.
Proof.
  induction l as [|x l IH]; intros f; cbn [waitpid_loop].
  - destruct f as [|pid sts]; cbn [andb snd]; eauto.
  - destruct x as [| |pid sts]; cbn [andb snd]; eauto.
Qed.

(* a quiet answer: one a blocking waitpid sleeps through *)
Definition quiet (a : wans) : Prop := a = WEintr \/ exists s, a = WAns 0 s.

(* the blocking loop never returns iff the child is never reported (nor an error raised) *)
Lemma blocking_loop_hangs_iff : forall l f,
    snd (waitpid_loop true l f) = None <-> Forall quiet l /\ exists s, f = AAns 0 s.
Proof.
  induction l as [|x l IH]; intros f; cbn [waitpid_loop].
  - destruct f as [|pid sts]; cbn [andb snd].
    + split; [discriminate|]. intros [_ [s H]]; discriminate.
    + destruct (pid =? 0) eqn:E; cbn [snd].
      * apply Z.eqb_eq in E; subst. split; [|reflexivity]. intros _. split; [constructor|eauto].
      * split; [discriminate|]. intros [_ [s H]]. inversion H; subst. discriminate.
  - destruct x as [| |pid sts]; cbn [andb].
    + rewrite IH. split.
      * intros [A B]. split; [constructor; [left; reflexivity|exact A]|exact B].
      * intros [A B]. inversion A; subst. split; assumption.
    + cbn [snd]. split; [discriminate|]. intros [A _]. inversion A as [|? ? Q]; subst.
      destruct Q as [Q|[s Q]]; discriminate.
    + destruct (pid =? 0) eqn:E.
      * apply Z.eqb_eq in E; subst. rewrite IH. split.
        -- intros [A B]. split; [constructor; [right; eauto|exact A]|exact B].
        -- intros [A B]. inversion A; subst. split; assumption.
      * cbn [snd]. split; [discriminate|]. intros [A _]. inversion A as [|? ? Q]; subst.
        destruct Q as [Q|[s Q]]; [discriminate|]. inversion Q; subst. discriminate.
Qed.

(* Popen.wait over the oracle = wait1 over the oracle's answers (non-hang branch).
   `a` is what the waitpid loop answers with the flag wait() would use; the answer of the
   other flavour (`a_other`) is never looked at. *)
Theorem wait_proc_is_wait1 : forall t pr p rest a a_other,
    pop pr = Some p ->
    loop_of (negb (wait_flag_nonblocking t)) pr = (rest, Some a) ->
    let a_n := if wait_flag_nonblocking t then a else a_other in
    let a_b := if wait_flag_nonblocking t then a_other else a in
    pop (fst (wait_proc t pr p)) = Some (fst (wait1 p t (ready_of pr) a_n a_b)) /\
    snd (wait_proc t pr p) = snd (wait1 p t (ready_of pr) a_n a_b).
Proof.
  intros t pr p rest a a_other Hp Hl a_n a_b. subst a_n a_b.
  unfold wait_proc, wait1, loop_of, ready_of in *.
  destruct (rc p) as [c|] eqn:Erc; [cbn [fst snd]; auto|].
  destruct t as [t|].
  - destruct (match rdy (orc pr) with [] => true | b :: _ => b end); cbn [negb].
    2:{ cbn [fst snd pop]. auto. }
    unfold poll_proc. rewrite Erc. cbn [orc pre fin rdy]. rewrite Hl.
    destruct (wait_flag_nonblocking (Some t)); cbn [negb];
      destruct (poll1 p a) as [p' r]; cbn [fst snd pop]; auto.
  - cbn [wait_flag_nonblocking negb] in *. unfold poll_proc. rewrite Erc, Hl.
    destruct (poll1 p a) as [p' r]; cbn [fst snd pop]; auto.
Qed.

(* the same, down to the code generated from popen_fork.Popen.wait on this run *)
Theorem wait_proc_is_generated_wait : forall t pr p rest a a_other pr' r,
    pop pr = Some p ->
    loop_of (negb (wait_flag_nonblocking t)) pr = (rest, Some a) ->
    wait_proc t pr p = (pr', r) ->
    let a_n := if wait_flag_nonblocking t then a else a_other in
    let a_b := if wait_flag_nonblocking t then a_other else a in
    exists p', pop pr' = Some p' /\
      K_exitstatus.wait (emb p) (optv t) (PBool (ready_of pr))
                        (a_err a_n) (a_pid a_n) (a_sts a_n) (a_err a_b) (a_pid a_b) (a_sts a_b)
      = emb_res (p', r).
Proof.
  intros t pr p rest a a_other pr' r Hp Hl Hw a_n a_b.
  destruct (wait_proc_is_wait1 t pr p rest a a_other Hp Hl) as [A B]. fold a_n a_b in A, B.
  rewrite Hw in A, B. cbn [fst snd] in A, B.
  exists (fst (wait1 p t (ready_of pr) a_n a_b)). split; [exact A|].
  rewrite gen_wait. unfold emb_res. cbn [fst snd]. rewrite B. reflexivity.
Qed.

Lemma poll1_never_hangs : forall p a, snd (poll1 p a) <> RHang.
Proof.
  intros p a. destruct (poll1 p a) as [p' r] eqn:E.
  destruct (poll1_spec _ _ _ _ E) as (_ & _ & _ & H & _). exact H.
Qed.

(* wait() does not return  <=>  nothing is cached, no timeout stopped it before the
   waitpid call (no timeout at all, or the sentinel was reported ready), the call is a
   blocking one (timeout <> 0) and the oracle never reports the child *)
Theorem wait_proc_hang_iff : forall t pr p,
    snd (wait_proc t pr p) = RHang <->
    rc p = None /\ (t = None \/ ready_of pr = true) /\ wait_flag_nonblocking t = false /\
    snd (loop_of true pr) = None.
Proof.
  intros t pr p. unfold wait_proc, ready_of, loop_of.
  destruct (rc p) as [c|] eqn:Erc.
  { cbn [snd]. split; [discriminate|]. intros [X _]; discriminate. }
  assert (PP : forall b pr1, pre (orc pr1) = pre (orc pr) -> fin (orc pr1) = fin (orc pr) ->
                 (snd (poll_proc b pr1 p) = RHang <->
                  snd (waitpid_loop b (pre (orc pr)) (fin (orc pr))) = None)).
  { intros b pr1 E1 E2. unfold poll_proc. rewrite Erc, E1, E2.
    destruct (waitpid_loop b (pre (orc pr)) (fin (orc pr))) as [rest [a|]]; cbn [snd].
    - pose proof (poll1_never_hangs p a) as NH. destruct (poll1 p a) as [p' r]. cbn [snd] in *.
      split; [intros X; contradiction|discriminate].
    - split; auto. }
  destruct t as [t|].
  - destruct (match rdy (orc pr) with [] => true | b :: _ => b end) eqn:Er; cbn [negb].
    + rewrite PP by reflexivity. unfold wait_flag_nonblocking.
      destruct (t =? 0) eqn:Et; cbn [negb].
      * destruct (nonblocking_loop_returns (pre (orc pr)) (fin (orc pr))) as [a Ha]. rewrite Ha.
        split; [discriminate|]. intros (_ & _ & X & _); discriminate.
      * split; [intros X; repeat split; auto|intros (_ & _ & _ & X); exact X].
    + cbn [snd]. split; [discriminate|]. intros (_ & [X|X] & _); discriminate.
  - rewrite PP by reflexivity. cbn [wait_flag_nonblocking].
    split; [intros X; repeat split; auto|intros (_ & _ & _ & X); exact X].
Qed.

(* ================================================================== (b) timed join *)
(* "join(timeout) returns within the timeout": the only way a timed join fails to return
   is the blocking waitpid it makes after the sentinel was reported ready *)
Theorem timed_join_blocks_only_in_waitpid : forall w i t,
    snd (step w (OJoin i (Some t))) = OHang ->
    exists pr p, nth_error (procs w) i = Some pr /\ pop pr = Some p /\ rc p = None /\
                 t <> 0 /\ ready_of pr = true /\ snd (loop_of true pr) = None.
Proof.
  intros w i t. cbn [step].
  destruct (nth_error (procs w) i) as [pr|] eqn:En; [|discriminate].
  destruct (negb (creator pr =? cur w)); [discriminate|].
  destruct (pop pr) as [p|] eqn:Ep; [|discriminate].
  pose proof (wait_proc_hang_iff (Some t) pr p) as HI.
  destruct (wait_proc (Some t) pr p) as [pr' res]. cbn [snd] in HI.
  destruct res as [[v|]| |]; cbn [snd]; try discriminate. intros _.
  destruct HI as [HI _]. destruct (HI eq_refl) as (A & B & C & D).
  exists pr, p. repeat split; auto.
  - unfold wait_flag_nonblocking in C. lia.
  - destruct B as [B|B]; [discriminate|exact B].
Qed.

(* ... and in that situation it does block, whatever the (non-zero) timeout *)
Theorem timed_join_blocks : forall w i pr p t,
    nth_error (procs w) i = Some pr -> creator pr = cur w -> pop pr = Some p -> rc p = None ->
    t <> 0 -> ready_of pr = true -> snd (loop_of true pr) = None ->
    snd (step w (OJoin i (Some t))) = OHang.
Proof.
  intros w i pr p t En Hc Ep Hrc Ht Hr Hl. cbn [step]. rewrite En.
  replace (creator pr =? cur w) with true by lia. cbn [negb]. rewrite Ep.
  pose proof (wait_proc_hang_iff (Some t) pr p) as HI.
  destruct (wait_proc (Some t) pr p) as [pr' res]. cbn [snd] in HI.
  assert (X : res = RHang).
  { apply HI. repeat split; auto. unfold wait_flag_nonblocking. lia. }
  subst res. reflexivity.
Qed.

(* the clause is refuted in the model by a reachable state: a started child whose
   sentinel is ready (it closed its end of the pipe) and which is never reported by
   waitpid (it goes on running): join(5) never returns, exitcode stays None *)
Definition orphan_specs : list (Z * list wans * ans * list bool) := [(100, [], AAns 0 0, [])].

Theorem timed_join_within_timeout_refuted :
  exists cur0 specs ops i t,
    0 < t /\
    let w := fst (run (init_world cur0 specs) ops) in
    started w i = true /\ rc_of w i = None /\
    snd (step w (OAlive i)) = OBool true /\
    snd (step w (OJoin i (Some t))) = OHang.
Proof.
  exists 100, orphan_specs, [OStart 0%nat], 0%nat, 5. split; [lia|]. vm_compute. auto.
Qed.

(* ================================================================== (c) provenance over histories *)
Definition reported (i : nat) (pre0 : list wans) (fin0 : ans) (c : Z) : Prop :=
  exists sts, (In (WAns (pid_of i) sts) pre0 \/ fin0 = AAns (pid_of i) sts) /\ decode sts = DOk c.

Definition pinv (i : nat) (pr0 pr : proc) : Prop :=
  incl (pre (orc pr)) (pre (orc pr0)) /\ fin (orc pr) = fin (orc pr0) /\
  forall p, pop pr = Some p ->
            ppid p = pid_of i /\
            forall c, rc p = Some c -> reported i (pre (orc pr0)) (fin (orc pr0)) c.

Definition winv (ps0 ps : list proc) : Prop :=
  forall i pr, nth_error ps i = Some pr -> exists pr0, nth_error ps0 i = Some pr0 /\ pinv i pr0 pr.

Lemma waitpid_loop_sound : forall b l f rest oa,
    waitpid_loop b l f = (rest, oa) ->
    incl rest l /\
    forall pid sts, oa = Some (AAns pid sts) -> In (WAns pid sts) l \/ f = AAns pid sts.
Proof.
  induction l as [|x l IH]; intros f rest oa H; cbn [waitpid_loop] in H.
  - inversion H; subst. split; [apply incl_refl|]. intros pid sts E.
    destruct f as [|p s]; [discriminate|]. destruct (b && (p =? 0)); [discriminate|].
    inversion E; subst. right. reflexivity.
  - destruct x as [| |p s].
    + destruct (IH _ _ _ H) as [A B]. split; [apply incl_tl; exact A|].
      intros pid sts E. destruct (B _ _ E); [left; right; assumption|right; assumption].
    + inversion H; subst. split; [apply incl_tl, incl_refl|]. intros; discriminate.
    + destruct (b && (p =? 0)).
      * destruct (IH _ _ _ H) as [A B]. split; [apply incl_tl; exact A|].
        intros pid sts E. destruct (B _ _ E); [left; right; assumption|right; assumption].
      * inversion H; subst. split; [apply incl_tl, incl_refl|].
        intros pid sts E. inversion E; subst. left. left. reflexivity.
Qed.

Lemma poll_proc_pinv : forall i pr0 b pr p pr' r,
    pinv i pr0 pr -> pop pr = Some p -> poll_proc b pr p = (pr', r) -> pinv i pr0 pr'.
Proof.
  intros i pr0 b pr p pr' r I Hp. pose proof I as (I1 & I2 & I3). destruct (I3 _ Hp) as [Hpid Hrep].
  unfold poll_proc. destruct (rc p) as [c0|] eqn:Erc.
  { intros H; inversion H; subst. exact I. }
  destruct (waitpid_loop b (pre (orc pr)) (fin (orc pr))) as [rest oa] eqn:Ew.
  destruct (waitpid_loop_sound _ _ _ _ _ Ew) as [S1 S2].
  destruct oa as [a|].
  - destruct (poll1 p a) as [p1 r1] eqn:E1. intros H; inversion H; subst. clear H.
    destruct (poll1_spec _ _ _ _ E1) as (A & _ & _ & _ & _ & F).
    split; [|split]; cbn [orc pre fin pop].
    + eapply incl_tran; eauto.
    + exact I2.
    + intros q Hq. inversion Hq; subst q. split; [congruence|].
      intros c Hc. destruct (F Erc _ Hc) as (sts & Ea & Hd). rewrite Hpid in Ea.
      exists sts. split; [|exact Hd].
      destruct (S2 _ _ (f_equal Some Ea)) as [X|X]; [left; apply I1; exact X|right; congruence].
  - intros H; inversion H; subst. clear H.
    split; [|split]; cbn [orc pre fin pop].
    + eapply incl_tran; eauto.
    + exact I2.
    + intros q Hq. rewrite Hp in Hq. inversion Hq; subst q. split; [exact Hpid|].
      intros c Hc. congruence.
Qed.

Lemma wait_proc_pinv : forall i pr0 t pr p pr' r,
    pinv i pr0 pr -> pop pr = Some p -> wait_proc t pr p = (pr', r) -> pinv i pr0 pr'.
Proof.
  intros i pr0 t pr p pr' r I Hp. unfold wait_proc.
  destruct (rc p) as [c0|] eqn:Erc; [intros H; inversion H; subst; exact I|].
  destruct t as [t|]; [|apply poll_proc_pinv; assumption].
  set (pr1 := mk_proc (creator pr) (pop pr) (mk_or (pre (orc pr)) (fin (orc pr)) (tl (rdy (orc pr))))).
  assert (I1 : pinv i pr0 pr1) by (destruct I as (A & B & C); repeat split; auto; apply C; auto).
  destruct (negb match rdy (orc pr) with [] => true | b :: _ => b end).
  - intros H; inversion H; subst. exact I1.
  - apply poll_proc_pinv; assumption.
Qed.

Lemma winv_upd : forall ps0 ps i pr0 pr',
    winv ps0 ps -> nth_error ps0 i = Some pr0 -> pinv i pr0 pr' -> winv ps0 (upd ps i pr').
Proof.
  intros ps0 ps i pr0 pr' W H0 I j q Hj. destruct (Nat.eq_dec i j) as [->|Hne].
  - destruct (nth_error ps j) as [y|] eqn:Ey.
    + rewrite (nth_error_upd_same _ _ _ _ _ Ey) in Hj. inversion Hj; subst. eauto.
    + exfalso. clear - Ey Hj. revert j Ey Hj. induction ps as [|z ps IH]; intros [|j] Ey Hj; cbn in *;
        try discriminate. eapply IH; eauto.
  - rewrite nth_error_upd_other in Hj by assumption. apply W. exact Hj.
Qed.

Lemma cleanup_winv : forall ps0 todo ps ch,
    winv ps0 ps -> winv ps0 (fst (fst (cleanup todo ps ch))).
Proof.
  intros ps0. induction todo as [|j r IH]; intros ps ch W; cbn [cleanup]; [exact W|].
  destruct (nth_error ps j) as [pr|] eqn:En; [|apply IH; exact W].
  destruct (pop pr) as [p|] eqn:Ep; [|apply IH; exact W].
  destruct (poll_proc false pr p) as [pr' res] eqn:Epoll.
  destruct (W _ _ En) as (pr0 & H0 & I).
  assert (W1 : winv ps0 (upd ps j pr')).
  { eapply winv_upd; eauto. eapply poll_proc_pinv; eauto. }
  destruct res as [[v|]| |]; cbn [fst]; auto.
Qed.

Lemma step_winv : forall ps0 w o, winv ps0 (procs w) -> winv ps0 (procs (fst (step w o))).
Proof.
  intros ps0 w o W. destruct o as [i|i t|i|i| |z]; cbn [step].
  - destruct (nth_error (procs w) i) as [pr|] eqn:En; [|exact W].
    destruct (pop pr) as [p|] eqn:Ep; [exact W|].
    destruct (negb (creator pr =? cur w)); [exact W|].
    pose proof (cleanup_winv ps0 (children w) (procs w) (children w) W) as C.
    pose proof (cleanup_unstarted (children w) (procs w) (children w) i pr En Ep) as U.
    destruct (cleanup (children w) (procs w) (children w)) as [[ps ch] e]. cbn [fst] in C, U.
    destruct e; cbn [fst procs]; [exact C|].
    destruct (C _ _ U) as (pr0 & H0 & (I1 & I2 & _)).
    eapply winv_upd; eauto. split; [|split]; cbn [orc pop]; auto.
    intros q Hq. inversion Hq; subst q. cbn [ppid rc]. split; [reflexivity|discriminate].
  - destruct (nth_error (procs w) i) as [pr|] eqn:En; [|exact W].
    destruct (negb (creator pr =? cur w)); [exact W|].
    destruct (pop pr) as [p|] eqn:Ep; [|exact W].
    destruct (wait_proc t pr p) as [pr' res] eqn:Ew.
    destruct (W _ _ En) as (pr0 & H0 & I).
    assert (W1 : winv ps0 (upd (procs w) i pr')).
    { eapply winv_upd; eauto. eapply wait_proc_pinv; eauto. }
    destruct res as [[v|]| |]; cbn [fst procs]; exact W1.
  - destruct (nth_error (procs w) i) as [pr|] eqn:En; [|exact W].
    destruct (negb (creator pr =? cur w)); [exact W|].
    destruct (pop pr) as [p|] eqn:Ep; [|exact W].
    destruct (poll_proc false pr p) as [pr' res] eqn:Ew.
    destruct (W _ _ En) as (pr0 & H0 & I).
    assert (W1 : winv ps0 (upd (procs w) i pr')).
    { eapply winv_upd; eauto. eapply poll_proc_pinv; eauto. }
    destruct res as [v| |]; cbn [fst procs]; exact W1.
  - destruct (nth_error (procs w) i) as [pr|] eqn:En; [|exact W].
    destruct (pop pr) as [p|] eqn:Ep; [|exact W].
    destruct (poll_proc false pr p) as [pr' res] eqn:Ew. cbn [fst procs].
    destruct (W _ _ En) as (pr0 & H0 & I).
    eapply winv_upd; eauto. eapply poll_proc_pinv; eauto.
  - pose proof (cleanup_winv ps0 (children w) (procs w) (children w) W) as C.
    destruct (cleanup (children w) (procs w) (children w)) as [[ps ch] e]. cbn [fst] in C.
    destruct e; cbn [fst procs]; exact C.
  - exact W.
Qed.

Lemma run_winv : forall ps0 ops w, winv ps0 (procs w) -> winv ps0 (procs (fst (run w ops))).
Proof.
  intros ps0. induction ops as [|o r IH]; intros w W; [exact W|].
  rewrite run_cons. apply IH. apply step_winv. exact W.
Qed.

Lemma init_winv : forall cur0 specs,
    winv (procs (init_world cur0 specs)) (procs (init_world cur0 specs)).
Proof.
  intros cur0 specs i pr H. exists pr. split; [exact H|].
  split; [apply incl_refl|]. split; [reflexivity|].
  intros p Hp. exfalso. cbn [init_world procs] in H.
  rewrite nth_error_map in H. destruct (nth_error specs i) as [[[[c p0] f] r]|]; cbn in H; [|discriminate].
  inversion H; subst. discriminate.
Qed.

(* For every history from the initial world: a cached exit code of object i is the decoding
   of a status that the waitpid oracle GIVEN for object i holds for i's own pid -- whichever
   operation (exitcode, is_alive, join, start's or active_children's _cleanup) cached it. *)
Theorem exitcode_history_provenance : forall cur0 specs ops i c,
    rc_of (fst (run (init_world cur0 specs) ops)) i = Some c ->
    exists cr pre0 fin0 rdy0 sts,
      nth_error specs i = Some (cr, pre0, fin0, rdy0) /\
      (In (WAns (pid_of i) sts) pre0 \/ fin0 = AAns (pid_of i) sts) /\ decode sts = DOk c.
Proof.
  intros cur0 specs ops i c H.
  pose proof (run_winv _ ops _ (init_winv cur0 specs)) as W.
  unfold rc_of in H.
  destruct (nth_error (procs (fst (run (init_world cur0 specs) ops))) i) as [pr|] eqn:En; [|discriminate].
  destruct (pop pr) as [p|] eqn:Ep; [|discriminate].
  destruct (W _ _ En) as (pr0 & H0 & (_ & _ & I3)).
  destruct (I3 _ Ep) as [_ R]. destruct (R _ H) as (sts & Hs & Hd).
  cbn [init_world procs] in H0. rewrite nth_error_map in H0.
  destruct (nth_error specs i) as [[[[cr p0] f] r]|] eqn:Es; cbn in H0; [|discriminate].
  inversion H0; subst pr0. cbn [orc pre fin] in Hs.
  exists cr, p0, f, r, sts. auto.
Qed.

Lemma run_snoc : forall ops w o, fst (run w (ops ++ [o])) = fst (step (fst (run w ops)) o).
Proof.
  induction ops as [|x r IH]; intros w o.
  - cbn [app]. rewrite run_cons. reflexivity.
  - cbn [app]. rewrite !run_cons. apply IH.
Qed.

(* "exitcode is None and is_alive() true until the child has ended", over whole histories:
   as long as the waitpid oracle of object i does not report i's pid at all (the child has
   not ended), after EVERY history exitcode returns no code and is_alive() does not say
   False for a started child -- no matter which other children ended, were joined or
   reaped in between *)
Definition never_reported (i : nat) (pre0 : list wans) (fin0 : ans) : Prop :=
  (forall sts, ~ In (WAns (pid_of i) sts) pre0) /\ (forall sts, fin0 <> AAns (pid_of i) sts).

Theorem running_child_has_no_code : forall cur0 specs ops i cr pre0 fin0 rdy0,
    nth_error specs i = Some (cr, pre0, fin0, rdy0) -> never_reported i pre0 fin0 ->
    let w := fst (run (init_world cur0 specs) ops) in
    rc_of w i = None /\
    (forall c, snd (step w (OCode i)) <> OInt c) /\
    (started w i = true -> snd (step w (OAlive i)) <> OBool false).
Proof.
  intros cur0 specs ops i cr pre0 fin0 rdy0 Hs [N1 N2] w.
  assert (G : forall ops', rc_of (fst (run (init_world cur0 specs) ops')) i = None).
  { intros ops'. destruct (rc_of (fst (run (init_world cur0 specs) ops')) i) as [c|] eqn:E; auto.
    destruct (exitcode_history_provenance _ _ _ _ _ E) as (cr' & p' & f' & r' & sts & H1 & H2 & _).
    rewrite Hs in H1. inversion H1; subst. destruct H2 as [X|X]; [elim (N1 _ X)|elim (N2 _ X)]. }
  split; [apply G|]. split.
  - intros c Hc. destruct (step w (OCode i)) as [w' r] eqn:Est. cbn [snd] in Hc. subst r.
    pose proof (code_reflects _ _ _ _ Est) as R. cbn in R.
    pose proof (G (ops ++ [OCode i])) as X. rewrite run_snoc in X. fold w in X. rewrite Est in X.
    cbn [fst] in X. congruence.
  - intros Hst Hb. destruct (step w (OAlive i)) as [w' r] eqn:Est. cbn [snd] in Hb. subst r.
    pose proof (alive_reflects _ _ _ _ Est) as R.
    pose proof (G (ops ++ [OAlive i])) as X. rewrite run_snoc in X. fold w in X. rewrite Est in X.
    cbn [fst] in X. rewrite X in R.
    pose proof (started_step w (OAlive i) i Hst) as S1. rewrite Est in S1. cbn [fst] in S1.
    rewrite S1 in R. discriminate.
Qed.
