(* C11: restart_state.  (1) the generated kernel equals the model,
   (2) invariants and budget theorems on the model. *)
From Coq Require Import ZArith List Bool Lia ZifyBool.
From BV Require Import Lib.PyVal Gen.K_restart Model.Restart.
Import ListNotations.
Open Scope Z_scope.

Definition optv (o : option Z) : pv := match o with Some z => PInt z | None => PNone end.

Definition emb (s : rs) : st :=
  mk_st (PInt (R s)) (optv (T s)) (optv (maxR s)) (PInt (maxT s)).

Definition emb_out (r : rs * bool) : outcome st pv :=
  if snd r then Exc RestartFreqExceeded (emb (fst r)) else Ok PNone (emb (fst r)).

(* The code as translated on this run behaves exactly like the model, for every
   state, every explicit `now`, whatever the clock would have said. *)
Lemma gen_step_eq : forall s now mono,
    K_restart.step (emb s) (PInt now) mono = emb_out (Restart.step s now).
Proof.
  intros [r t mr mt] now mono.
  unfold K_restart.step, Restart.step, emb_out, emb, window_expired, over_budget, first_T.
  cbn [R T maxR maxT fst snd optv].
  destruct t as [t|]; destruct mr as [m|]; cbn;
    repeat match goal with
           | |- context [if ?b then _ else _] => destruct b eqn:?; cbn
           end; try reflexivity; try lia.
Qed.

(* with now=None the clock value is used *)
Lemma gen_step_clock : forall s mono,
    K_restart.step (emb s) PNone (PInt mono) = emb_out (Restart.step s mono).
Proof.
  intros s mono. rewrite <- (gen_step_eq s mono (PInt mono)).
  unfold K_restart.step. reflexivity.
Qed.

(* ------------------------------------------------------------------ *)
(* Invariant: with a configured budget m >= 1, 0 <= R <= m always.      *)

Definition Inv (m : Z) (s : rs) : Prop :=
  maxR s = Some m /\ 0 <= R s <= m.

Lemma inv_init m mt : 1 <= m -> Inv m (rs_init (Some m) mt).
Proof. unfold Inv, rs_init; cbn; split; [reflexivity|lia]. Qed.

Lemma inv_do_ev m s e : 1 <= m -> Inv m s -> Inv m (fst (do_ev s e)).
Proof.
  intros Hm [Hmr Hr]. unfold Inv. destruct e as [now|]; cbn [do_ev].
  - unfold step, over_budget. rewrite Hmr.
    destruct (window_expired s now); cbn [fst maxR R]; [split; [auto|lia]|].
    destruct (negb (m =? 0) && (R s >=? m) && negb (R s =? 0)) eqn:E; cbn [fst maxR R];
      (split; [auto|lia]).
  - cbn. split; [assumption|lia].
Qed.

Lemma inv_run m tr : forall s, 1 <= m -> Inv m s -> Inv m (fst (run s tr)).
Proof.
  induction tr as [|e tr IH]; intros s Hm Hi; cbn; [exact Hi|].
  destruct (do_ev s e) as [s1 o] eqn:E1.
  specialize (IH s1 Hm).
  destruct (run s1 tr) as [s2 os] eqn:E2. cbn in *.
  apply IH. replace s1 with (fst (do_ev s e)) by (rewrite E1; reflexivity).
  apply inv_do_ev; assumption.
Qed.

(* ------------------------------------------------------------------ *)
(* inside one window: exactly (m - R) more steps are admitted, the next raises *)

Definition in_window (s : rs) (now : Z) : Prop :=
  match T s with Some t => t <> 0 /\ now - t < maxT s | None => False end.

Lemma step_admit m s now :
  Inv m s -> in_window s now -> R s < m ->
  step s now = (mk_rs (R s + 1) (T s) (maxR s) (maxT s), false).
Proof.
  intros [Hmr Hr] Hw Hlt. unfold in_window in Hw.
  unfold step, window_expired, over_budget, first_T. rewrite Hmr.
  destruct (T s) as [t|]; [|contradiction]. destruct Hw as [Ht Hn].
  replace (negb (t =? 0) && (now - t >=? maxT s)) with false by lia.
  replace (negb (m =? 0) && (R s >=? m) && negb (R s =? 0)) with false by lia.
  reflexivity.
Qed.

Lemma step_refuse m s now :
  1 <= m -> Inv m s -> in_window s now -> R s = m ->
  step s now = (mk_rs 0 (T s) (maxR s) (maxT s), true).
Proof.
  intros Hm [Hmr Hr] Hw He. unfold in_window in Hw.
  unfold step, window_expired, over_budget. rewrite Hmr.
  destruct (T s) as [t|]; [|contradiction]. destruct Hw as [Ht Hn].
  replace (negb (t =? 0) && (now - t >=? maxT s)) with false by lia.
  replace (negb (m =? 0) && (R s >=? m) && negb (R s =? 0)) with true by lia.
  reflexivity.
Qed.

(* k admitted steps in a row inside the window *)
Fixpoint steps (s : rs) (nows : list Z) : rs * list bool :=
  match nows with
  | [] => (s, [])
  | n :: r => let (s1, o) := step s n in
              let (s2, os) := steps s1 r in (s2, o :: os)
  end.

Lemma steps_admit_all m : forall nows s,
    Inv m s -> (forall n, In n nows -> in_window s n) ->
    R s + Z.of_nat (length nows) <= m ->
    steps s nows = (mk_rs (R s + Z.of_nat (length nows)) (T s) (maxR s) (maxT s),
                    repeat false (length nows)).
Proof.
  induction nows as [|n nows IH]; intros s Hi Hw Hlen.
  - destruct s as [r t mr mt]; cbn [steps length repeat R T maxR maxT Z.of_nat].
    rewrite Z.add_0_r. reflexivity.
  - cbn [steps length repeat].
    assert (Hlt : R s < m) by (cbn [length] in Hlen; lia).
    rewrite (step_admit m s n Hi (Hw n (or_introl eq_refl)) Hlt).
    set (s1 := mk_rs (R s + 1) (T s) (maxR s) (maxT s)).
    assert (Hi1 : Inv m s1) by (destruct Hi as [A B]; split; cbn; [assumption|lia]).
    assert (Hw1 : forall n0, In n0 nows -> in_window s1 n0).
    { intros n0 Hn0. specialize (Hw n0 (or_intror Hn0)). exact Hw. }
    rewrite (IH s1 Hi1 Hw1) by (cbn [length] in Hlen; cbn; lia).
    subst s1. cbn [length repeat R T maxR maxT]. f_equal. f_equal. lia.
Qed.

(* The budget theorem: from any state satisfying the invariant, any run of
   steps inside the current window (no job accepted in between) admits exactly
   the remaining budget m - R and the very next step raises, leaving R = 0. *)
Theorem window_budget m s nows now_last :
  1 <= m -> Inv m s ->
  (forall n, In n (nows ++ [now_last]) -> in_window s n) ->
  Z.of_nat (length nows) = m - R s ->
  steps s (nows ++ [now_last]) =
  (mk_rs 0 (T s) (maxR s) (maxT s), repeat false (length nows) ++ [true]).
Proof.
  intros Hm Hi Hw Hlen.
  assert (Hsplit : forall l1 l2 s0,
             steps s0 (l1 ++ l2) =
             let (s1, o1) := steps s0 l1 in
             let (s2, o2) := steps s1 l2 in (s2, o1 ++ o2)).
  { induction l1 as [|a l1 IH1]; intros l2 s0; cbn.
    - destruct (steps s0 l2); reflexivity.
    - destruct (step s0 a) as [sa oa]. rewrite IH1.
      destruct (steps sa l1) as [sb ob]. destruct (steps sb l2); reflexivity. }
  rewrite Hsplit.
  rewrite (steps_admit_all m nows s Hi) by
      (try lia; intros n Hn; apply Hw; apply in_or_app; left; exact Hn).
  set (s1 := mk_rs (R s + Z.of_nat (length nows)) (T s) (maxR s) (maxT s)).
  assert (Hi1 : Inv m s1) by (destruct Hi as [A B]; split; cbn; [assumption|lia]).
  cbn [steps].
  rewrite (step_refuse m s1 now_last Hm Hi1).
  - reflexivity.
  - apply (Hw now_last). apply in_or_app; right; left; reflexivity.
  - cbn. lia.
Qed.

(* fresh window: a step after the window expired is admitted and restarts the count at 1 *)
Theorem fresh_window s now t :
  T s = Some t -> t <> 0 -> now - t >= maxT s ->
  step s now = (mk_rs 1 (Some now) (maxR s) (maxT s), false).
Proof.
  intros Ht Hnz Hge. unfold step, window_expired. rewrite Ht.
  replace (negb (t =? 0) && (now - t >=? maxT s)) with true by lia. reflexivity.
Qed.

(* the very first step opens the window *)
Theorem first_step_opens mr mt now :
  step (rs_init mr mt) now = (mk_rs 1 (Some now) mr mt, false).
Proof.
  unfold step, rs_init, window_expired, over_budget. cbn.
  destruct mr as [m|]; cbn; [|reflexivity].
  destruct (negb (m =? 0) && (0 >=? m)); reflexivity.
Qed.

(* an accepted job restores the whole budget *)
Theorem ack_restores s : R (ack s) = 0 /\ T (ack s) = T s /\ maxR (ack s) = maxR s.
Proof. cbn. auto. Qed.

(* a raise never increments and never changes the window *)
Theorem raise_forks_nothing s now s' :
  step s now = (s', true) -> R s' = 0 /\ T s' = T s.
Proof.
  unfold step. destruct (window_expired s now); [discriminate|].
  destruct (over_budget s && negb (R s =? 0)); [|discriminate].
  intros E; inversion E; cbn; auto.
Qed.

(* no budget configured: never raises (observation D16) *)
Theorem unlimited_never_raises s now : maxR s = None -> snd (step s now) = false.
Proof.
  intros H. unfold step, over_budget. rewrite H.
  destruct (window_expired s now); reflexivity.
Qed.

(* the start-up burst limiter (budget ten per slot, any window length w >= 1 in clock units): within
   one window exactly 10 * slots restarts are admitted and the next one raises *)
Theorem startup_burst_budget slots w t0 nows now_last :
  1 <= slots -> t0 <> 0 ->
  (forall n, In n (nows ++ [now_last]) -> n - t0 < w) ->
  Z.of_nat (length nows) = 10 * slots - 1 ->
  steps (burst_state slots w) (t0 :: nows ++ [now_last]) =
  (mk_rs 0 (Some t0) (Some (10 * slots)) w, repeat false (S (length nows)) ++ [true]).
Proof.
  intros Hs Ht Hw Hlen. unfold burst_state. cbn [steps]. rewrite first_step_opens.
  pose proof (window_budget (10 * slots) (mk_rs 1 (Some t0) (Some (10 * slots)) w) nows now_last) as B.
  rewrite B.
  - reflexivity.
  - lia.
  - unfold Inv; cbn [maxR R]; split; [reflexivity|lia].
  - intros n Hn. unfold in_window; cbn [T maxT]. split; [exact Ht|exact (Hw n Hn)].
  - cbn [R]. lia.
Qed.
