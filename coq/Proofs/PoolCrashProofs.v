(* Proofs about the closed composition WITH WORKER CRASHES, Model/PoolCrash.v.

   For every reachable state / every schedule without the racy pass CTickEarly (any number of
   jobs, any pool size >= 1, any crash budget, any exit statuses, any lost-worker timeout, no
   restart limiter):
     - [CInv]: each unresolved job is in exactly one place (task queue, pipe, a live worker, a
       READY in the result pipe, or lost: its worker exited and it is marked or about to be);
       jobs are resolved once, with their own result or with WorkerLostError naming the exit status
       of THEIR worker; nothing is reported lost unless its worker exited; slots are accounted for;
     - [creach_is_run]: the parent of every reachable state is a [Pool.run];
     - liveness: [cprogress], [ccompletion], [ccan_always_complete], [useful_schedules_are_finite],
       [maximal_useful_schedule_completes];
     - timing: [pass_detects], [pass_fails_when_due], [lost_only_by_due_pass], ...
   and, for schedules WITH the racy pass, the refutation [doomed_by_early_tick] (D11). *)
From Coq Require Import ZArith List Bool Lia ZifyBool.
From BV Require Import Lib.Cases Model.LaxSem Model.Restart Model.Pool Model.PoolSys Model.PoolCrash
     Proofs.LaxSemProofs Proofs.PoolJobs Proofs.PoolInv Proofs.PoolTick Proofs.PoolSup Proofs.PoolIdx
     Proofs.PoolSize Proofs.PoolMore Proofs.PoolCor Proofs.PoolSysProofs.
Import ListNotations.
Open Scope Z_scope.

(* ================================================================== A. the parent events *)
(* what the system reads of the process table: exit status and the terminate_job flag *)
Definition pinfo (s : pool) (p : Z) : option (option Z * bool) :=
  option_map (fun q => (pexit q, jterm q)) (get_proc s p).

Lemma exited_pinfo s p :
  exited s p = match pinfo s p with Some (Some _, _) => true | _ => false end.
Proof. unfold exited, pinfo. destruct (get_proc s p) as [q|]; cbn; [destruct (pexit q)|]; reflexivity. Qed.

Lemma exit_of_pinfo s p :
  exit_of s p = match pinfo s p with Some (Some c, _) => c | _ => 0 end.
Proof. unfold exit_of, pinfo. destruct (get_proc s p) as [q|]; cbn; [destruct (pexit q)|]; reflexivity. Qed.

Lemma jterm_pinfo s p :
  match get_proc s p with Some q => jterm q | None => false end
  = match pinfo s p with Some (_, b) => b | None => false end.
Proof. unfold pinfo. destruct (get_proc s p) as [q|]; reflexivity. Qed.

(* the process table only grows, by live processes *)
Definition pgrow (s s' : pool) : Prop :=
  forall q, pinfo s' q = pinfo s q \/ (pinfo s q = None /\ pinfo s' q = Some (None, false)).

Lemma pgrow_refl s : pgrow s s. Proof. intros q. left. reflexivity. Qed.
Lemma pgrow_trans a b c : pgrow a b -> pgrow b c -> pgrow a c.
Proof.
  intros H1 H2 q. destruct (H1 q) as [E1|[E1 E1']], (H2 q) as [E2|[E2 E2']].
  - left. congruence.
  - right. split; congruence.
  - right. split; congruence.
  - congruence.
Qed.
Lemma pgrow_eq s s' : (forall q, pinfo s' q = pinfo s q) -> pgrow s s'.
Proof. intros H q. left. apply H. Qed.

Lemma pgrow_exited s s' : pgrow s s' -> forall p, exited s' p = exited s p.
Proof. intros H p. rewrite !exited_pinfo. destruct (H p) as [E|[E E']]; rewrite ?E, ?E'; reflexivity. Qed.
Lemma pgrow_exit_of s s' : pgrow s s' -> forall p, exit_of s' p = exit_of s p.
Proof. intros H p. rewrite !exit_of_pinfo. destruct (H p) as [E|[E E']]; rewrite ?E, ?E'; reflexivity. Qed.

Definition NoJT (s : pool) : Prop := forall p i, pinfo s p = Some i -> snd i = false.
Lemma pgrow_nojt s s' : pgrow s s' -> NoJT s -> NoJT s'.
Proof.
  intros H Hj p i Hi. destruct (H p) as [E|[E E']].
  - apply (Hj p). congruence.
  - rewrite E' in Hi. inversion Hi. reflexivity.
Qed.

(* everything of the parent state the events below leave alone *)
Record pframe (s s' : pool) : Prop := {
  pf_pstate : pstate s' = pstate s;
  pf_putlocks : putlocks s' = putlocks s;
  pf_wlist : wlist s' = wlist s;
  pf_nprocs : nprocs s' = nprocs s;
  pf_dflt : dflt_lost s' = dflt_lost s;
  pf_maxr : maxR (rst s') = maxR (rst s);
  pf_pinfo : forall q, pinfo s' q = pinfo s q;
  pf_plen : length (procs s') = length (procs s)
}.

Lemma pframe_exited s s' : pframe s s' -> forall p, exited s' p = exited s p.
Proof. intros H. apply pgrow_exited, pgrow_eq, H. Qed.
Lemma pframe_exit_of s s' : pframe s s' -> forall p, exit_of s' p = exit_of s p.
Proof. intros H. apply pgrow_exit_of, pgrow_eq, H. Qed.
Lemma pframe_in_pool s s' : pframe s s' -> forall p, in_pool s' p = in_pool s p.
Proof. intros H p. unfold in_pool. rewrite (pf_wlist _ _ H). reflexivity. Qed.
Lemma pframe_kept s s' : pframe s s' -> kept s' = kept s.
Proof.
  intros H. unfold kept. rewrite (pf_wlist _ _ H). apply filter_ext_eq. intros p.
  rewrite (pframe_exited _ _ H). reflexivity.
Qed.

Lemma pinfo_set_proc s p f q :
  (forall x, pexit (f x) = pexit x /\ jterm (f x) = jterm x) ->
  pinfo (set_proc s p f) q = pinfo s q.
Proof.
  intros Hf. unfold pinfo. rewrite get_proc_set_proc. destruct (q =? p); [|reflexivity].
  destruct (get_proc s q) as [x|]; [|reflexivity]. cbn. destruct (Hf x) as [A B]. rewrite A, B. reflexivity.
Qed.

Lemma pinfo_bump_counter s x q : pinfo (bump_counter s x) q = pinfo s q.
Proof.
  unfold bump_counter. destruct (worker_pids x) as [|p r]; [reflexivity|].
  destruct (in_pool s p); [|reflexivity]. apply pinfo_set_proc. intros y. split; reflexivity.
Qed.

Lemma plen_bump_counter s x : length (procs (bump_counter s x)) = length (procs s).
Proof.
  unfold bump_counter. destruct (worker_pids x) as [|p r]; [reflexivity|].
  destruct (in_pool s p); [|reflexivity]. apply procs_len_set_proc.
Qed.

Lemma pframe_bump_counter s x : pframe s (bump_counter s x).
Proof.
  destruct (env_bump_counter s x) as [A B C D].
  constructor; try assumption.
  - unfold bump_counter. destruct (worker_pids x); [reflexivity|]. destruct (in_pool s z); reflexivity.
  - unfold bump_counter. destruct (worker_pids x); [reflexivity|]. destruct (in_pool s z); reflexivity.
  - apply pinfo_bump_counter.
  - apply plen_bump_counter.
Qed.

(* ---- apply_async *)
Definition fresh_job (s : pool) : job :=
  mkjob (Z.of_nat (length (jobs s))) KApply true false None false [] [] None
        (py_or None (t_soft s)) (py_or None (t_hard s)) (dflt_lost s) None 0 0 0 [] 0 0 0 0 None [] [].

Lemma capply_spec s s' :
  0 <= LaxSem.value (sem s) ->
  step s (EApply None None None None) = (s', RNone) ->
  pframe s s' /\ now s' = now s /\ pstate s = 0
  /\ jobs s' = jobs s ++ [fresh_job s]
  /\ (putlocks s = true -> 0 < LaxSem.value (sem s)
                           /\ sem s' = mk_sem (LaxSem.value (sem s) - 1) (LaxSem.bound (sem s)) (LaxSem.pending (sem s)))
  /\ (putlocks s = false -> sem s' = sem s).
Proof.
  intros Hnn. unfold step, do_apply. cbn [putlocks with_sigs sem pstate].
  destruct (pstate s =? 0) eqn:Es; cbn [negb]; [|discriminate].
  destruct (putlocks s) eqn:Ep; cbn [andb].
  - destruct (LaxSem.value (sem s) =? 0) eqn:Ev; [discriminate|].
    intros H; inversion H; subst; clear H.
    split; [constructor; try reflexivity; exact Ep|]. split; [reflexivity|]. split; [lia|].
    split; [reflexivity|]. split; [|discriminate]. intros _.
    unfold sstep', LaxSem.sstep. cbn.
    destruct (0 <? LaxSem.value (sem s)) eqn:Eg; [|lia]. split; [lia|reflexivity].
  - intros H; inversion H; subst; clear H.
    split; [constructor; try reflexivity; exact Ep|]. split; [reflexivity|]. split; [lia|].
    split; [reflexivity|]. split; [discriminate|reflexivity].
Qed.

(* the call is enabled whenever a slot is free (or the pool does not use slots) *)
Lemma capply_enabled s :
  pstate s = 0 -> (putlocks s = true -> 0 < LaxSem.value (sem s)) ->
  exists s', step s (EApply None None None None) = (s', RNone).
Proof.
  intros Hp Hv. unfold step, do_apply. cbn [putlocks with_sigs sem pstate]. rewrite Hp. cbn [Z.eqb negb].
  destruct (putlocks s) eqn:Ep; cbn [andb].
  - specialize (Hv eq_refl). destruct (LaxSem.value (sem s) =? 0) eqn:Ev; [lia|]. eauto.
  - eauto.
Qed.

(* ---- every job-changing event below acts pointwise on the job table *)
Definition jmap (s s' : pool) (F : Z -> job -> job) : Prop :=
  length (jobs s') = length (jobs s) /\ forall k, get_job s' k = option_map (F k) (get_job s k).

Definition ackf (s : pool) (j p : Z) (k : Z) (x : job) : job :=
  if (k =? j) && incache x then apply_ack x (now s) p else x.

Lemma jmap_set_job s j f (P : job -> bool) :
  jmap s (set_job s j f) (fun k x => if (k =? j) then f x else x).
Proof.
  split; [apply len_set_job|]. intros k. destruct (Z.eqb_spec k j) as [->|Hne].
  - destruct (get_job s j) as [x|] eqn:Hg.
    + rewrite (get_set_same s j f x Hg). reflexivity.
    + cbn. unfold get_job, set_job in *. cbn [jobs]. destruct (j <? 0); [reflexivity|].
      apply nth_error_None. rewrite length_upd_nth. apply nth_error_None. exact Hg.
  - rewrite get_set_other by congruence. destruct (get_job s k); reflexivity.
Qed.

Lemma cack_spec s j p :
  (forall x, get_job s j = Some x -> kind x = KApply) ->
  let s' := fst (step s (EAck j None p)) in
  pframe s s' /\ now s' = now s /\ sem s' = sem s /\ jmap s s' (ackf s j p).
Proof.
  intros Hk. unfold step, do_ack.
  set (s1 := with_rst (with_sigs s []) (Restart.ack (rst (with_sigs s [])))).
  assert (Hf1 : pframe s s1) by (constructor; reflexivity).
  change (cached s1 j) with (cached s j). unfold cached.
  destruct (get_job s j) as [x|] eqn:Hg.
  - destruct (incache x) eqn:Hi.
    + rewrite (Hk x eq_refl). cbn [fst].
      split; [destruct Hf1; constructor; assumption|]. split; [reflexivity|]. split; [reflexivity|].
      destruct (jmap_set_job s1 j (fun x0 => apply_ack x0 (now s1) p) (fun _ => true)) as [A B].
      split; [exact A|]. intros k. rewrite B. change (get_job s1 k) with (get_job s k).
      unfold ackf. destruct (Z.eqb_spec k j) as [->|Hne]; [rewrite Hg; cbn; rewrite Hi; reflexivity|].
      destruct (get_job s k); reflexivity.
    + cbn [fst]. split; [exact Hf1|]. split; [reflexivity|]. split; [reflexivity|].
      split; [reflexivity|]. intros k. change (get_job s1 k) with (get_job s k). unfold ackf.
      destruct (Z.eqb_spec k j) as [->|Hne]; [rewrite Hg; cbn; rewrite Hi; reflexivity|].
      destruct (get_job s k); reflexivity.
  - cbn [fst]. split; [exact Hf1|]. split; [reflexivity|]. split; [reflexivity|].
    split; [reflexivity|]. intros k. change (get_job s1 k) with (get_job s k). unfold ackf.
    destruct (Z.eqb_spec k j) as [->|Hne]; [rewrite Hg; reflexivity|].
    destruct (get_job s k) as [y|]; [|reflexivity]. cbn. reflexivity.
Qed.

Definition readyf (j : Z) (pl : payload) (k : Z) (x : job) : job :=
  if (k =? j) && incache x then apply_set x pl else x.

Lemma cready_spec s j ok t :
  (forall x, get_job s j = Some x -> kind x = KApply) ->
  let s' := fst (step s (EReady j None ok t)) in
  pframe s s' /\ now s' = now s
  /\ sem s' = (match get_job s j with
               | Some x => if incache x && negb (ready x) then LaxSem.release (sem s) else sem s
               | None => sem s
               end)
  /\ jmap s s' (readyf j (if ok then PValue t else PExc t)).
Proof.
  intros Hk. unfold step, do_ready. set (pl := if ok then PValue t else PExc t).
  change (cached (with_sigs s []) j) with (cached s j). unfold cached.
  destruct (get_job s j) as [x|] eqn:Hg.
  - destruct (incache x) eqn:Hi.
    + cbn [fst andb].
      set (s1 := bump_counter (with_sigs s []) x).
      assert (Hf1 : pframe s s1).
      { destruct (pframe_bump_counter (with_sigs s []) x) as [A B C D E F G H]. constructor; assumption. }
      assert (Hj1 : jobs s1 = jobs s) by (unfold s1; rewrite jobs_bump_counter; reflexivity).
      assert (Hn1 : now s1 = now s).
      { unfold s1, bump_counter. destruct (worker_pids x); [reflexivity|]. destruct (in_pool _ z); reflexivity. }
      assert (Hs1 : sem s1 = sem s) by (unfold s1; rewrite sem_bump_counter; reflexivity).
      set (s2 := if ready x then s1 else with_sem s1 (LaxSem.release (sem s1))).
      assert (Hf2 : pframe s s2).
      { unfold s2. destruct (ready x); [exact Hf1|]. destruct Hf1. constructor; assumption. }
      assert (Hj2 : jobs s2 = jobs s) by (unfold s2; destruct (ready x); exact Hj1).
      split; [destruct Hf2; constructor; assumption|].
      split; [unfold s2; destruct (ready x); exact Hn1|].
      split; [cbn [sem set_job andb]; unfold s2; destruct (ready x); cbn [negb sem with_sem]; rewrite ?Hs1; reflexivity|].
      destruct (jmap_set_job s2 j (fun x0 => fst (job_set x0 None pl)) (fun _ => true)) as [A B].
      split; [rewrite A, Hj2; reflexivity|]. intros k. rewrite B.
      assert (Hgk : forall k0, get_job s2 k0 = get_job s k0) by (intros k0; rewrite !get_job_gj, Hj2; reflexivity).
      rewrite Hgk. unfold readyf. destruct (Z.eqb_spec k j) as [->|Hne].
      * rewrite Hg. cbn. rewrite Hi. unfold job_set. rewrite (Hk x eq_refl). reflexivity.
      * destruct (get_job s k); reflexivity.
    + cbn [fst andb]. split; [constructor; reflexivity|]. split; [reflexivity|]. split; [reflexivity|].
      split; [reflexivity|]. intros k. change (get_job (with_sigs s []) k) with (get_job s k). unfold readyf.
      destruct (Z.eqb_spec k j) as [->|Hne]; [rewrite Hg; cbn; rewrite Hi; reflexivity|].
      destruct (get_job s k); reflexivity.
  - cbn [fst]. split; [constructor; reflexivity|]. split; [reflexivity|]. split; [reflexivity|].
    split; [reflexivity|]. intros k. change (get_job (with_sigs s []) k) with (get_job s k). unfold readyf.
    destruct (Z.eqb_spec k j) as [->|Hne]; [rewrite Hg; reflexivity|].
    destruct (get_job s k); reflexivity.
Qed.

(* ---- a worker exits *)
Lemma cexit_spec s p c :
  let s' := fst (step s (EExit p c)) in
  pstate s' = pstate s /\ putlocks s' = putlocks s /\ wlist s' = wlist s /\ nprocs s' = nprocs s
  /\ dflt_lost s' = dflt_lost s /\ rst s' = rst s /\ now s' = now s /\ sem s' = sem s /\ jobs s' = jobs s
  /\ length (procs s') = length (procs s)
  /\ (forall q, pinfo s' q = if q =? p
                             then option_map (fun i => match fst i with Some _ => i | None => (Some c, snd i) end) (pinfo s q)
                             else pinfo s q).
Proof.
  unfold step. cbn [fst]. repeat (split; [reflexivity|]).
  split; [etransitivity; [apply procs_len_set_proc|reflexivity]|].
  intros q. unfold pinfo. rewrite get_proc_set_proc.
  change (get_proc (with_sigs s []) q) with (get_proc s q).
  destruct (q =? p); [|reflexivity]. destruct (get_proc s q) as [x|]; [|reflexivity]. cbn.
  destruct (pexit x) eqn:Ex; cbn; rewrite ?Ex; reflexivity.
Qed.

(* ---- the clock *)
Lemma cadvance_spec s d :
  let s' := fst (step s (EAdvance d)) in
  pframe s s' /\ now s' = now s + d /\ sem s' = sem s /\ jobs s' = jobs s.
Proof. unfold step. cbn [fst]. split; [constructor; reflexivity|]. repeat split; reflexivity. Qed.

(* ---- one supervision pass, no restart limiter *)
Lemma restart_nolimit r t :
  maxR r = None -> snd (Restart.step r t) = false /\ maxR (fst (Restart.step r t)) = None.
Proof.
  intros H. unfold Restart.step, over_budget. rewrite H.
  destruct (window_expired r t); cbn; auto.
Qed.

Lemma pinfo_start_worker s ix : pgrow s (start_worker s ix).
Proof.
  intros q. unfold pinfo. pose proof (get_proc_start_worker s ix q) as H.
  destruct (get_proc s q) as [x|]; [left; rewrite H; reflexivity|].
  destruct H as [H|H]; rewrite H; [left; reflexivity|right; split; reflexivity].
Qed.

Definition fresh_pids (s : pool) (k : nat) : list Z := map Z.of_nat (seq (length (procs s)) k).

Lemma repopulate_nolimit : forall fuel i codes s,
    pstate s = 0 -> maxR (rst s) = None -> Z.of_nat (length (wlist s)) + Z.of_nat fuel <= nprocs s ->
    exists s', repopulate fuel i codes s = (s', RNone)
      /\ wlist s' = wlist s ++ fresh_pids s fuel
      /\ length (procs s') = (length (procs s) + fuel)%nat
      /\ jobs s' = jobs s /\ sem s' = sem s /\ pstate s' = 0 /\ maxR (rst s') = None
      /\ putlocks s' = putlocks s /\ dflt_lost s' = dflt_lost s /\ now s' = now s /\ nprocs s' = nprocs s
      /\ pgrow s s'.
Proof.
  induction fuel as [|f IH]; intros i codes s Hp Hm Hle.
  - exists s. cbn [repopulate]. unfold fresh_pids. cbn [seq map]. rewrite app_nil_r, Nat.add_0_r.
    repeat (split; [first [assumption|reflexivity]|]). apply pgrow_refl.
  - cbn [repopulate]. rewrite Hp. cbn [Z.eqb negb].
    match goal with |- context [if ?c then Restart.step (rst s) (now s) else (rst s, false)] =>
      set (ns := c) end.
    assert (Hrr : exists r, (if ns then Restart.step (rst s) (now s) else (rst s, false)) = (r, false) /\ maxR r = None).
    { destruct ns.
      - destruct (restart_nolimit (rst s) (now s) Hm) as [A B].
        destruct (Restart.step (rst s) (now s)) as [r b]. cbn in A, B. subst b. eauto.
      - eauto. }
    destruct Hrr as (r & -> & Hmr).
    assert (Hlt : Z.of_nat (length (wlist (with_rst s r))) < nprocs (with_rst s r))
      by (cbn [wlist nprocs with_rst]; lia).
    destruct (avail_index_ok _ Hlt) as (ix & Hix & _). rewrite Hix.
    set (s1 := start_worker (with_rst s r) ix).
    assert (Hle1 : Z.of_nat (length (wlist s1)) + Z.of_nat f <= nprocs s1).
    { unfold s1. cbn [wlist nprocs start_worker with_rst]. rewrite app_length. cbn [length]. lia. }
    destruct (IH (S i) codes s1 Hp Hmr Hle1) as (s' & E & W & PL & J & SE & PS & MR & PU & DF & NW & NP & PG).
    exists s'. split; [exact E|].
    split.
    { rewrite W. unfold s1, fresh_pids. cbn [wlist procs start_worker with_rst]. rewrite app_length. cbn [length seq map].
      rewrite <- app_assoc. cbn [app]. rewrite Nat.add_1_r. reflexivity. }
    split.
    { rewrite PL. unfold s1. cbn [procs start_worker with_rst]. rewrite app_length. cbn [length]. lia. }
    repeat (split; [first [assumption|reflexivity]|]).
    apply (pgrow_trans s s1 s'); [|exact PG].
    intros q. destruct (pinfo_start_worker (with_rst s r) ix q) as [H|H]; [left|right]; exact H.
Qed.

Lemma join_exited_more s :
  putlocks (fst (join_exited s)) = putlocks s /\ dflt_lost (fst (join_exited s)) = dflt_lost s.
Proof. unfold join_exited. destruct (filter _ (rev _)); split; reflexivity. Qed.

Lemma filter_partition_length {A} (f : A -> bool) l :
  (length (filter f l) + length (filter (fun a => negb (f a)) l) = length l)%nat.
Proof. induction l as [|a l IH]; cbn; [reflexivity|]. destruct (f a); cbn; lia. Qed.

Lemma filter_rev_length {A} (f : A -> bool) l : length (filter f (rev l)) = length (filter f l).
Proof.
  induction l as [|a l IH]; cbn; [reflexivity|]. rewrite filter_app, app_length, IH. cbn.
  destruct (f a); cbn; lia.
Qed.

Lemma reaped_kept_length s : (length (reaped s) + length (kept s) = length (wlist s))%nat.
Proof. unfold reaped, kept. rewrite filter_rev_length. apply filter_partition_length. Qed.

Definition missing_n (s : pool) : nat := Z.to_nat (nprocs s - Z.of_nat (length (kept s))).

Lemma ctick_spec s :
  pstate s = 0 -> maxR (rst s) = None -> Z.of_nat (length (wlist s)) <= nprocs s ->
  exists s', step s ETick = (s', RNone)
    /\ wlist s' = kept s ++ fresh_pids s (missing_n s)
    /\ length (procs s') = (length (procs s) + missing_n s)%nat
    /\ jobs s' = map (tick_job s) (jobs s)
    /\ sem s' = Nat.iter (length (reaped s)) LaxSem.release (sem s)
    /\ pstate s' = 0 /\ maxR (rst s') = None
    /\ putlocks s' = putlocks s /\ dflt_lost s' = dflt_lost s /\ now s' = now s /\ nprocs s' = nprocs s
    /\ pgrow s s'.
Proof.
  intros Hp Hm Hsz.
  change (step s ETick) with (do_tick (with_sigs s [])).
  change (kept s) with (kept (with_sigs s [])). change (reaped s) with (reaped (with_sigs s [])).
  change (fresh_pids s) with (fresh_pids (with_sigs s [])). change (missing_n s) with (missing_n (with_sigs s [])).
  change (tick_job s) with (tick_job (with_sigs s [])).
  assert (Hpg : forall s', pgrow (with_sigs s []) s' -> pgrow s s') by (intros s' H; exact H).
  remember (with_sigs s []) as s0 eqn:Es0.
  assert (Hp0 : pstate s0 = 0) by (subst s0; exact Hp).
  assert (Hm0 : maxR (rst s0) = None) by (subst s0; exact Hm).
  assert (Hsz0 : Z.of_nat (length (wlist s0)) <= nprocs s0) by (subst s0; exact Hsz).
  assert (E1 : length (procs s0) = length (procs s)) by (subst s0; reflexivity).
  assert (E2 : jobs s0 = jobs s) by (subst s0; reflexivity).
  assert (E3 : sem s0 = sem s) by (subst s0; reflexivity).
  assert (E4 : putlocks s0 = putlocks s /\ dflt_lost s0 = dflt_lost s /\ now s0 = now s /\ nprocs s0 = nprocs s)
    by (subst s0; repeat split; reflexivity).
  destruct E4 as (E4 & E5 & E6 & E7). rewrite <- E1, <- E2, <- E3, <- E4, <- E5, <- E6, <- E7.
  clear Es0 E1 E2 E3 E4 E5 E6 E7 Hp Hm Hsz.
  pose proof (tick_jobs s0) as Hj.
  unfold do_tick in *. destruct (join_exited_fields s0) as (A & B & C & D & E & F & G).
  destruct (join_exited_more s0) as [PU DF]. pose proof (sem_join_exited s0) as SE.
  destruct (join_exited s0) as [s1 codes]. cbn [fst snd] in *. subst codes.
  assert (Hmn : Z.to_nat (nprocs s1 - Z.of_nat (length (wlist s1))) = missing_n s0)
    by (unfold missing_n; rewrite A, B; reflexivity).
  rewrite Hmn in *.
  pose proof (reaped_kept_length s0) as Hrk.
  assert (Hle : Z.of_nat (length (wlist s1)) + Z.of_nat (missing_n s0) <= nprocs s1)
    by (unfold missing_n; rewrite A, B; lia).
  assert (Hp1 : pstate s1 = 0) by congruence.
  assert (Hm1 : maxR (rst s1) = None) by congruence.
  destruct (repopulate_nolimit (missing_n s0) 0 (pass_codes s0) s1 Hp1 Hm1 Hle)
    as (s2 & E2 & W2 & PL2 & J2 & SE2 & PS2 & MR2 & PU2 & DF2 & NW2 & NP2 & PG2).
  rewrite E2 in *. cbn [fst] in Hj.
  exists (release_n s2 (length (pass_codes s0))). split; [reflexivity|].
  unfold release_n. cbn [wlist procs jobs sem pstate rst putlocks dflt_lost now nprocs with_sem].
  split; [rewrite W2, A; unfold fresh_pids; rewrite D; reflexivity|].
  split; [rewrite PL2, D; reflexivity|].
  split; [exact Hj|].
  split; [rewrite SE2, SE; unfold pass_codes; rewrite map_length; reflexivity|].
  repeat (split; [congruence|]).
  apply Hpg. intros q. destruct (PG2 q) as [H|H]; unfold pinfo, get_proc in *; cbn [procs with_sem];
    rewrite D in H; [left|right]; exact H.
Qed.

Lemma get_job_map s s' f : jobs s' = map f (jobs s) -> forall k, get_job s' k = option_map f (get_job s k).
Proof.
  intros H k. unfold get_job. rewrite H. destruct (k <? 0); [reflexivity|]. rewrite nth_error_map. reflexivity.
Qed.

(* ================================================================== B. lists, counting *)
Lemma eqb_ne a b : a <> b -> (a =? b) = false.
Proof. apply Z.eqb_neq. Qed.

Definition pcnt (k : Z) (l : list (Z * Z)) : nat := cnt k (map fst l).

Lemma pcnt_app k a b : pcnt k (a ++ b) = (pcnt k a + pcnt k b)%nat.
Proof. unfold pcnt. rewrite map_app. apply cnt_app. Qed.
Lemma pcnt_cons k j p l : pcnt k ((j, p) :: l) = (one (Z.eqb j k) + pcnt k l)%nat.
Proof. unfold pcnt. cbn [map fst]. apply cnt_cons. Qed.
Lemma pcnt_nil k : pcnt k [] = 0%nat. Proof. reflexivity. Qed.

Lemma pcnt_in k p l : In (k, p) l -> (1 <= pcnt k l)%nat.
Proof.
  induction l as [|[j q] l IH]; intros H; [destruct H|]. rewrite pcnt_cons.
  destruct H as [H|H]; [inversion H; subst; rewrite Z.eqb_refl; cbn; lia|]. specialize (IH H). lia.
Qed.

Lemma pcnt_zero_notin k l : pcnt k l = 0%nat -> forall p, ~ In (k, p) l.
Proof. intros H p Hin. apply pcnt_in in Hin. lia. Qed.

Lemma pcnt_pos_in k l : (1 <= pcnt k l)%nat -> exists p, In (k, p) l.
Proof.
  induction l as [|[j q] l IH]; intros H; [cbn in H; lia|]. rewrite pcnt_cons in H.
  destruct (Z.eqb_spec j k) as [->|Hne]; [exists q; left; reflexivity|].
  cbn [one] in H. destruct IH as [p Hp]; [lia|]. exists p. right. exact Hp.
Qed.

Lemma pair_unique k p p' l : In (k, p) l -> In (k, p') l -> (pcnt k l <= 1)%nat -> p = p'.
Proof.
  induction l as [|[j q] l IH]; intros H1 H2 Hc; [destruct H1|]. rewrite pcnt_cons in Hc.
  destruct H1 as [H1|H1], H2 as [H2|H2].
  - congruence.
  - inversion H1; subst. rewrite Z.eqb_refl in Hc. apply pcnt_in in H2. cbn [one] in Hc. lia.
  - inversion H2; subst. rewrite Z.eqb_refl in Hc. apply pcnt_in in H1. cbn [one] in Hc. lia.
  - apply IH; [assumption|assumption|lia].
Qed.

Lemma cnt_in j l : In j l -> (1 <= cnt j l)%nat.
Proof.
  induction l as [|a l IH]; intros H; [destruct H|]. rewrite cnt_cons.
  destruct H as [->|H]; [rewrite Z.eqb_refl; cbn; lia|]. specialize (IH H). lia.
Qed.

Lemma cnt_pos_in j l : (1 <= cnt j l)%nat -> In j l.
Proof.
  induction l as [|a l IH]; intros H; [cbn in H; lia|]. rewrite cnt_cons in H.
  destruct (Z.eqb_spec a j) as [->|Hne]; [left; reflexivity|]. right. apply IH. cbn [one] in H. lia.
Qed.

(* ---- workers *)
Lemma running_app a b : running (a ++ b) = running a ++ running b.
Proof. unfold running. apply flat_map_app. Qed.
Lemma running_busy p j w : running ((p, Some j) :: w) = (j, p) :: running w. Proof. reflexivity. Qed.
Lemma running_idle p w : running ((p, None) :: w) = running w. Proof. reflexivity. Qed.
Lemma running_idles l : running (map (fun p => (p, None)) l) = [].
Proof. induction l as [|a l IH]; [reflexivity|]. cbn [map]. rewrite running_idle. exact IH. Qed.

Lemma in_running k p w : In (k, p) (running w) <-> In (p, Some k) w.
Proof.
  induction w as [|[q [j|]] w IH].
  - split; intros [].
  - rewrite running_busy. cbn [In]. rewrite IH. split; (intros [H|H]; [left; congruence|right; exact H]).
  - rewrite running_idle. cbn [In]. rewrite IH. split; [intros H; right; exact H|intros [H|H]; [discriminate|exact H]].
Qed.

Lemma wk_set_notin w p o : ~ In p (map fst w) -> wk_set w p o = w.
Proof.
  induction w as [|[q oq] w IH]; intros H; [reflexivity|]. cbn [wk_set map fst] in *.
  destruct (Z.eqb_spec q p) as [->|Hne]; [exfalso; apply H; left; reflexivity|].
  f_equal. apply IH. intros Hin. apply H. right. exact Hin.
Qed.

Lemma wk_del_notin w p : ~ In p (map fst w) -> wk_del w p = w.
Proof.
  induction w as [|[q oq] w IH]; intros H; [reflexivity|]. cbn [wk_del filter map fst] in *.
  destruct (Z.eqb_spec q p) as [->|Hne]; [exfalso; apply H; left; reflexivity|].
  cbn [negb]. f_equal. apply IH. intros Hin. apply H. right. exact Hin.
Qed.

Lemma wk_split w p o :
  wk_get w p = Some o -> NoDup (map fst w) ->
  exists w1 w2, w = w1 ++ (p, o) :: w2 /\ (forall o', wk_set w p o' = w1 ++ (p, o') :: w2)
                /\ wk_del w p = w1 ++ w2.
Proof.
  induction w as [|[q oq] w IH]; intros Hg Hnd; [discriminate|].
  unfold wk_get in Hg. cbn [find fst] in Hg. cbn [map fst] in Hnd. inversion Hnd as [|? ? Hni Hnd']; subst.
  destruct (Z.eqb_spec q p) as [->|Hne].
  - cbn [snd] in Hg. inversion Hg; subst. exists [], w. cbn [app].
    split; [reflexivity|]. split.
    + intros o'. cbn [wk_set map fst]. rewrite Z.eqb_refl. f_equal. apply wk_set_notin. exact Hni.
    + cbn [wk_del filter fst]. rewrite Z.eqb_refl. cbn [negb]. apply wk_del_notin. exact Hni.
  - destruct (IH Hg Hnd') as (w1 & w2 & E & Es & Ed). exists ((q, oq) :: w1), w2. cbn [app].
    split; [rewrite E; reflexivity|]. split.
    + intros o'. cbn [wk_set map fst]. rewrite (eqb_ne q p) by congruence. f_equal. apply Es.
    + cbn [wk_del filter fst]. rewrite (eqb_ne q p) by congruence. cbn [negb]. f_equal. exact Ed.
Qed.

Lemma wk_get_in w p o : wk_get w p = Some o -> In (p, o) w.
Proof.
  unfold wk_get. destruct (find _ w) as [[q oq]|] eqn:E; [|discriminate]. intros H; inversion H; subst.
  apply find_some in E. destruct E as [Hin He]. cbn in He. assert (q = p) by lia. subst. exact Hin.
Qed.

Lemma wk_get_some w p : In p (map fst w) -> exists o, wk_get w p = Some o.
Proof.
  intros H. unfold wk_get. destruct (find (fun e => fst e =? p) w) as [e|] eqn:E; [eauto|].
  exfalso. apply in_map_iff in H. destruct H as ([q o] & <- & Hin).
  pose proof (find_none _ _ E _ Hin) as H. cbn in H. lia.
Qed.

Lemma map_fst_wk_set w p o : map fst (wk_set w p o) = map fst w.
Proof. unfold wk_set. rewrite map_map. apply map_ext. intros [q oq]. cbn. destruct (q =? p); reflexivity. Qed.

Lemma map_fst_wk_del w p : map fst (wk_del w p) = filter (fun q => negb (q =? p)) (map fst w).
Proof.
  induction w as [|[q oq] w IH]; [reflexivity|]. cbn [wk_del filter map fst].
  destruct (negb (q =? p)); cbn [map fst]; [f_equal|]; exact IH.
Qed.

Lemma filter_filter {A} (f g : A -> bool) l : filter f (filter g l) = filter (fun a => g a && f a) l.
Proof. induction l as [|a l IH]; [reflexivity|]. cbn. destruct (g a); cbn; [destruct (f a); [f_equal|]|]; exact IH. Qed.

(* ---- messages *)
Definition acks (q : list msg) : list Z :=
  flat_map (fun m => match m with MAck j _ => [j] | MReady _ _ _ _ => [] end) q.

Lemma creadys_app a b : creadys (a ++ b) = creadys a ++ creadys b.
Proof. unfold creadys. apply flat_map_app. Qed.
Lemma acks_app a b : acks (a ++ b) = acks a ++ acks b.
Proof. unfold acks. apply flat_map_app. Qed.

Lemma in_creadys k p q : In (k, p) (creadys q) <-> exists ok t, In (MReady k p ok t) q.
Proof.
  unfold creadys. rewrite in_flat_map. split.
  - intros (m & Hm & Hin). destruct m as [j r|j r ok t]; [destruct Hin|].
    destruct Hin as [E|[]]. inversion E; subst. eauto.
  - intros (ok & t & H). exists (MReady k p ok t). split; [exact H|left; reflexivity].
Qed.

Lemma in_acks k q : In k (acks q) <-> exists p, In (MAck k p) q.
Proof.
  unfold acks. rewrite in_flat_map. split.
  - intros (m & Hm & Hin). destruct m as [j r|j r ok t]; [|destruct Hin].
    destruct Hin as [E|[]]. subst. eauto.
  - intros (p & H). exists (MAck k p). split; [exact H|left; reflexivity].
Qed.

Lemma in_losts k p l : In (k, p) (losts l) <-> exists c, In (p, k, c) l.
Proof.
  unfold losts. rewrite in_map_iff. split.
  - intros ([[p' k'] c] & E & H). cbn in E. inversion E; subst. eauto.
  - intros (c & H). exists (p, k, c). split; [reflexivity|exact H].
Qed.

Lemma losts_app a b : losts (a ++ b) = losts a ++ losts b.
Proof. unfold losts. apply map_app. Qed.

Lemma pcnt_filter_fst (g : Z -> bool) k (l : list (Z * Z)) :
  pcnt k (filter (fun e => g (fst e)) l) = if g k then pcnt k l else 0%nat.
Proof.
  induction l as [|[j p] l IH]; [destruct (g k); reflexivity|]. cbn [filter fst].
  destruct (g j) eqn:Eg; rewrite ?pcnt_cons, IH; destruct (g k) eqn:Egk; try reflexivity.
  - destruct (Z.eqb_spec j k); [congruence|reflexivity].
  - destruct (Z.eqb_spec j k); [congruence|reflexivity].
Qed.

Lemma losts_filter (g : Z -> bool) l :
  losts (filter (fun d => g (lost_job d)) l) = filter (fun e => g (fst e)) (losts l).
Proof.
  induction l as [|d l IH]; [reflexivity|]. cbn [filter losts map fst].
  destruct (g (lost_job d)); cbn [losts map]; [f_equal|]; exact IH.
Qed.

Lemma pcnt_losts_filter (g : Z -> bool) k l :
  pcnt k (losts (filter (fun d => g (lost_job d)) l)) = if g k then pcnt k (losts l) else 0%nat.
Proof. rewrite losts_filter. apply pcnt_filter_fst. Qed.

(* ---- sums *)
Lemma lsum_cons x l : list_sum (x :: l) = (x + list_sum l)%nat. Proof. reflexivity. Qed.
Lemma lsum_nil : list_sum [] = 0%nat. Proof. reflexivity. Qed.

Lemma list_sum_le {A} (f g : A -> nat) l :
  (forall a, In a l -> (g a <= f a)%nat) -> (list_sum (map g l) <= list_sum (map f l))%nat.
Proof.
  induction l as [|a l IH]; intros H; [cbn; lia|]. cbn [map]. rewrite !lsum_cons.
  pose proof (H a (or_introl eq_refl)). assert (H1 : forall b, In b l -> (g b <= f b)%nat) by (intros; apply H; right; assumption).
  specialize (IH H1). lia.
Qed.

Lemma list_sum_lt {A} (f g : A -> nat) l :
  (forall a, In a l -> (g a <= f a)%nat) -> (exists a, In a l /\ (g a < f a)%nat) ->
  (list_sum (map g l) < list_sum (map f l))%nat.
Proof.
  induction l as [|a l IH]; intros H (b & Hb & Hlt); [destruct Hb|]. cbn [map]. rewrite !lsum_cons.
  pose proof (H a (or_introl eq_refl)).
  assert (H1 : forall b, In b l -> (g b <= f b)%nat) by (intros; apply H; right; assumption).
  destruct Hb as [->|Hb].
  - pose proof (list_sum_le f g l H1). lia.
  - assert (list_sum (map g l) < list_sum (map f l))%nat by (apply IH; [exact H1|eauto]). lia.
Qed.

Lemma list_sum_filter {A} (h : A -> bool) (g : A -> nat) l :
  list_sum (map g (filter h l)) = list_sum (map (fun a => if h a then g a else 0%nat) l).
Proof.
  induction l as [|a l IH]; [reflexivity|]. cbn [filter map]. rewrite lsum_cons.
  destruct (h a); cbn [map]; rewrite ?lsum_cons; lia.
Qed.

Lemma list_sum_zero {A} (f : A -> nat) l :
  (forall a, In a l -> (1 <= f a)%nat) -> list_sum (map f l) = 0%nat -> l = [].
Proof.
  destruct l as [|a l]; intros H H0; [reflexivity|]. cbn [map] in H0. rewrite lsum_cons in H0.
  pose proof (H a (or_introl eq_refl)). lia.
Qed.

(* ================================================================== C. the invariant *)
(* what is known of every job *)
Definition CJ (y : csys) (k : Z) (x : job) : Prop :=
  let s := cpar y in
  jid x = k /\ kind x = KApply /\ lost_timeout x = dflt_lost s
  /\ (wp x = [] /\ accepted x = false \/ exists p, wp x = [p] /\ accepted x = true)
  /\ (ready x = false -> incache x = true /\ value x = None /\ cb_succ x = 0 /\ cb_err x = 0)
  /\ (ready x = true ->
      (* resolved by its own result ... *)
      (value x = Some (outcome_of (cbad y) k)
       /\ cb_succ x = (if task_ok (cbad y) k then 1 else 0) /\ cb_err x = (if task_ok (cbad y) k then 0 else 1))
      (* ... or failed as lost, with the exit status of ITS worker, which has exited and been reaped *)
      \/ (exists p t, value x = Some (PLost (exit_of s p) k) /\ cb_succ x = 0 /\ cb_err x = 1
                      /\ wp x = [p] /\ incache x = false /\ worker_lost x = Some (t, exit_of s p)
                      /\ exited s p = true /\ in_pool s p = false)).

Record CInv (n : nat) (y : csys) : Prop := {
  (* each unresolved job is in exactly one place; resolved jobs are nowhere *)
  v_tok : forall j, cnt j (ctokens y) = one (cunres (cpar y) j);
  v_job : forall k x, get_job (cpar y) k = Some x -> CJ y k x;
  v_msg : forall j p ok t, In (MReady j p ok t) (coutq y) -> t = tag_of j /\ ok = task_ok (cbad y) j;
  (* messages in the pipe come from workers of the pool list *)
  v_pid : forall m, In m (coutq y) -> in_pool (cpar y) (msg_pid m) = true;
  (* an ACK in the pipe is for an existing job, and names the worker that holds it *)
  v_ack : forall k p, In (MAck k p) (coutq y) ->
          (exists x, get_job (cpar y) k = Some x) /\ (cunres (cpar y) k = true -> In (k, p) (started y));
  (* a started job is acknowledged, or its ACK is in the pipe: exactly one of the two *)
  v_acks : forall k x, get_job (cpar y) k = Some x -> ready x = false ->
           (cnt k (acks (coutq y)) + one (accepted x) = pcnt k (started y))%nat;
  (* the recorded owner of an unresolved job is the worker that holds it *)
  v_wp : forall k x p, get_job (cpar y) k = Some x -> ready x = false -> In p (wp x) -> In (k, p) (started y);
  (* a marker is only on the job of a reaped, killed worker and carries its status *)
  v_mark : forall k x t c, get_job (cpar y) k = Some x -> ready x = false -> worker_lost x = Some (t, c) ->
           exists p, In (p, k, c) (clost y) /\ in_pool (cpar y) p = false /\ t <= now (cpar y);
  (* the ghost list: its workers have exited with that status; once reaped, the job carries the marker *)
  v_lost : forall p k c, In (p, k, c) (clost y) ->
           exited (cpar y) p = true /\ exit_of (cpar y) p = c /\ cunres (cpar y) k = true
           /\ (in_pool (cpar y) p = false ->
               exists x t, get_job (cpar y) k = Some x /\ worker_lost x = Some (t, c) /\ wp x = [p]);
  (* the live workers are the workers of the pool list that have not exited *)
  v_wk : map fst (cwk y) = kept (cpar y);
  v_cnt : (length (cwk y) + length (unreaped y) = length (wlist (cpar y)))%nat;
  v_size : Z.of_nat (length (wlist (cpar y))) = nprocs (cpar y);
  v_st : pstate (cpar y) = 0;
  v_maxr : maxR (rst (cpar y)) = None;
  v_jt : NoJT (cpar y);
  v_w : WInv (cpar y);
  v_nn : 0 <= LaxSem.value (sem (cpar y)) <= LaxSem.bound (sem (cpar y));
  (* free slots + slot holders = the bound (lost jobs give their slot back when the worker is reaped) *)
  v_sem : putlocks (cpar y) = true ->
          LaxSem.value (sem (cpar y)) + Z.of_nat (slot_holders y) = LaxSem.bound (sem (cpar y));
  v_bound : 1 <= LaxSem.bound (sem (cpar y)) /\ 1 <= nprocs (cpar y);
  v_n : (length (jobs (cpar y)) + ctodo y = n)%nat
}.

(* ---- consequences *)
Lemma cnt_ctokens j y :
  cnt j (ctokens y) = (cnt j (ctaskq y) + cnt j (cinq y) + pcnt j (started y))%nat.
Proof. unfold ctokens, pcnt. rewrite !cnt_app. lia. Qed.

Lemma pcnt_started j y :
  pcnt j (started y) = (pcnt j (running (cwk y)) + pcnt j (creadys (coutq y)) + pcnt j (losts (clost y)))%nat.
Proof. unfold started. rewrite !pcnt_app. lia. Qed.

Lemma in_started k p y :
  In (k, p) (started y) <-> In (k, p) (running (cwk y)) \/ In (k, p) (creadys (coutq y)) \/ In (k, p) (losts (clost y)).
Proof. unfold started. rewrite !in_app_iff. tauto. Qed.

Lemma started_le1 n y k : CInv n y -> (pcnt k (started y) <= 1)%nat.
Proof. intros H. pose proof (v_tok n y H k) as Ht. rewrite cnt_ctokens in Ht. pose proof (one_le (cunres (cpar y) k)). lia. Qed.

Lemma started_unique n y k p p' : CInv n y -> In (k, p) (started y) -> In (k, p') (started y) -> p = p'.
Proof. intros H H1 H2. eapply pair_unique; eauto. eapply started_le1; eauto. Qed.

Lemma started_unres n y k p : CInv n y -> In (k, p) (started y) ->
  cunres (cpar y) k = true /\ pcnt k (started y) = 1%nat /\ cnt k (ctaskq y) = 0%nat /\ cnt k (cinq y) = 0%nat.
Proof.
  intros H Hin. pose proof (v_tok n y H k) as Ht. rewrite cnt_ctokens in Ht. apply pcnt_in in Hin.
  destruct (cunres (cpar y) k); cbn [one] in Ht; [repeat split; lia|lia].
Qed.

Lemma cunres_job s k : cunres s k = true -> exists x, get_job s k = Some x /\ ready x = false.
Proof.
  unfold cunres. destruct (get_job s k) as [x|]; [|discriminate]. intros H. exists x. split; [reflexivity|].
  destruct (ready x); [discriminate|reflexivity].
Qed.

Lemma job_cunres s k x : get_job s k = Some x -> cunres s k = negb (ready x).
Proof. intros H. unfold cunres. rewrite H. reflexivity. Qed.

Lemma live_worker n y p : CInv n y -> In p (map fst (cwk y)) ->
  in_pool (cpar y) p = true /\ exited (cpar y) p = false.
Proof.
  intros H Hin. rewrite (v_wk n y H) in Hin. unfold kept in Hin. apply filter_In in Hin. destruct Hin as [Hw He].
  split; [apply memZ_In; exact Hw|]. destruct (exited (cpar y) p); [discriminate|reflexivity].
Qed.

Lemma wk_nodup n y : CInv n y -> NoDup (map fst (cwk y)).
Proof.
  intros H. rewrite (v_wk n y H). unfold kept. apply NoDup_filter. apply WInv_wlist_nodup. exact (v_w n y H).
Qed.

Local Opaque step.

Lemma started_mk s b t tq iq w o l k :
  started (mkcs s b t tq iq w o l k) = running w ++ creadys o ++ losts l.
Proof. reflexivity. Qed.

Lemma unreaped_eq y y' :
  clost y' = clost y -> (forall p, in_pool (cpar y') p = in_pool (cpar y) p) -> unreaped y' = unreaped y.
Proof. intros E H. unfold unreaped. rewrite E. apply filter_ext_eq. intros d. apply H. Qed.

Ltac cfields := cbn [cpar cbad ctodo ctaskq cinq cwk coutq clost ckills].

Lemma creadys_ack j p : creadys [MAck j p] = []. Proof. reflexivity. Qed.
Lemma creadys_ready j p ok t : creadys [MReady j p ok t] = [(j, p)]. Proof. reflexivity. Qed.
Lemma acks_ack j p : acks [MAck j p] = [j]. Proof. reflexivity. Qed.
Lemma acks_ready j p ok t : acks [MReady j p ok t] = []. Proof. reflexivity. Qed.
Lemma creadys_cons_ack j p r : creadys (MAck j p :: r) = creadys r. Proof. reflexivity. Qed.
Lemma creadys_cons_ready j p ok t r : creadys (MReady j p ok t :: r) = (j, p) :: creadys r. Proof. reflexivity. Qed.
Lemma acks_cons_ack j p r : acks (MAck j p :: r) = j :: acks r. Proof. reflexivity. Qed.
Lemma acks_cons_ready j p ok t r : acks (MReady j p ok t :: r) = acks r. Proof. reflexivity. Qed.

(* ---- steps that leave the parent alone: put, take, finish *)
Lemma cinv_same_par n y y' :
  CInv n y -> cpar y' = cpar y -> cbad y' = cbad y -> ctodo y' = ctodo y -> clost y' = clost y ->
  (forall j, cnt j (ctokens y') = cnt j (ctokens y)) ->
  (forall j p ok t, In (MReady j p ok t) (coutq y') ->
                    In (MReady j p ok t) (coutq y) \/ (t = tag_of j /\ ok = task_ok (cbad y) j)) ->
  (forall m, In m (coutq y') -> In m (coutq y) \/ In (msg_pid m) (map fst (cwk y))) ->
  (forall k p, In (k, p) (started y) -> In (k, p) (started y')) ->
  (forall k p, In (MAck k p) (coutq y') ->
               In (MAck k p) (coutq y) \/ (cunres (cpar y) k = true /\ In (k, p) (started y'))) ->
  (forall k, (cnt k (acks (coutq y')) + pcnt k (started y) = cnt k (acks (coutq y)) + pcnt k (started y'))%nat) ->
  map fst (cwk y') = map fst (cwk y) ->
  slot_holders y' = slot_holders y ->
  CInv n y'.
Proof.
  intros H Ep Eb Et El Htok Hmsg Hpid Hmono Hack Hacks Hwk Hslots.
  pose proof H as [Ht Hj Hm Hpi Hac Hacs Hwp Hmark Hlost Hwk0 Hcnt Hsize Hst Hmaxr Hjt Hw Hnn Hsem Hbound Hn].
  constructor; rewrite ?Ep, ?Eb, ?Et, ?El; try assumption.
  - intros j. rewrite Htok. apply Ht.
  - intros k x Hg. specialize (Hj k x Hg). unfold CJ in *. rewrite Ep, Eb. exact Hj.
  - intros j p ok t Hin. destruct (Hmsg j p ok t Hin) as [Hold|Hnew]; [eauto|exact Hnew].
  - intros m Hin. destruct (Hpid m Hin) as [Hold|Hnew]; [eauto|].
    apply (live_worker n y _ H Hnew).
  - intros k p Hin. destruct (Hack k p Hin) as [Hold|[Hu Hs]].
    + destruct (Hac k p Hold) as [A B]. split; [exact A|]. intros Hu. apply Hmono, B, Hu.
    + split; [|intros _; exact Hs]. destruct (cunres_job _ _ Hu) as (x & Hx & _). eauto.
  - intros k x Hg Hr. specialize (Hacs k x Hg Hr). specialize (Hacks k). lia.
  - intros k x p Hg Hr Hin. apply Hmono. eapply Hwp; eauto.
  - rewrite Hwk. exact Hwk0.
  - rewrite (unreaped_eq y y' El) by (intros p; rewrite Ep; reflexivity).
    rewrite <- Hcnt. f_equal. rewrite <- (map_length fst (cwk y')), Hwk, map_length. reflexivity.
  - intros Hp. rewrite Hslots. apply Hsem. exact Hp.
Qed.

Lemma cinv_put n y y' : CInv n y -> crash_step y CPut = Some y' -> CInv n y'.
Proof.
  intros H. cbn [crash_step]. destruct (ctaskq y) as [|j r] eqn:Eq; [discriminate|].
  intros E; inversion E; subst y'; clear E.
  apply (cinv_same_par n y); cfields; try reflexivity; try tauto.
  - intros j0. rewrite !cnt_ctokens. cfields. rewrite Eq, cnt_app, cnt_one, cnt_cons.
    change (started (mkcs _ _ _ _ _ _ _ _ _)) with (started y). lia.
  - unfold slot_holders. cfields. rewrite Eq, app_length.
    change (unreaped (mkcs _ _ _ _ _ _ _ _ _)) with (unreaped y). cbn [length]. lia.
Qed.

Lemma cinv_take n y p y' : CInv n y -> crash_step y (CTake p) = Some y' -> CInv n y'.
Proof.
  intros H. cbn [crash_step]. destruct (wk_get (cwk y) p) as [[?|]|] eqn:Eg; try discriminate.
  destruct (cinq y) as [|j r] eqn:Eq; [discriminate|]. intros E; inversion E; subst y'; clear E.
  destruct (wk_split _ _ _ Eg (wk_nodup n y H)) as (w1 & w2 & Ew & Es & Ed).
  assert (Hrun : running (wk_set (cwk y) p (Some j)) = running w1 ++ (j, p) :: running w2)
    by (rewrite Es, running_app, running_busy; reflexivity).
  assert (Hrun0 : running (cwk y) = running w1 ++ running w2)
    by (rewrite Ew, running_app, running_idle; reflexivity).
  assert (Hju : cunres (cpar y) j = true).
  { pose proof (v_tok n y H j) as Ht. rewrite cnt_ctokens, Eq, cnt_cons, Z.eqb_refl in Ht.
    destruct (cunres (cpar y) j); [reflexivity|cbn in Ht; lia]. }
  apply (cinv_same_par n y); cfields; try reflexivity.
  - exact H.
  - intros j0. rewrite !cnt_ctokens. cfields. rewrite !pcnt_started. cfields.
    rewrite Hrun, Hrun0, Eq, cnt_cons, creadys_app, creadys_ack, !pcnt_app, pcnt_cons, pcnt_nil. lia.
  - intros j0 p0 ok t Hin. apply in_app_or in Hin. destruct Hin as [Hin|[Hin|[]]]; [left; exact Hin|discriminate].
  - intros m Hin. apply in_app_or in Hin. destruct Hin as [Hin|[<-|[]]]; [left; exact Hin|right].
    cbn [msg_pid]. rewrite Ew, map_app. apply in_or_app. right. left. reflexivity.
  - intros k q. rewrite !in_started. cfields. rewrite Hrun, Hrun0, creadys_app, !in_app_iff. cbn [In]. tauto.
  - intros k q Hin. apply in_app_or in Hin. destruct Hin as [Hin|[E|[]]]; [left; exact Hin|right].
    inversion E; subst. split; [exact Hju|]. rewrite in_started. cfields. left. rewrite Hrun. apply in_or_app. right. left. reflexivity.
  - intros k. rewrite !pcnt_started. cfields.
    rewrite Hrun, Hrun0, acks_app, acks_ack, cnt_app, creadys_app, creadys_ack, !pcnt_app, pcnt_cons, pcnt_nil, cnt_one. lia.
  - apply map_fst_wk_set.
  - unfold slot_holders. cfields. rewrite Hrun, Hrun0, Eq, creadys_app, !app_length.
    rewrite creadys_ack. change (unreaped (mkcs _ _ _ _ _ _ _ _ _)) with (unreaped y). cbn [length]. lia.
Qed.

Lemma cinv_finish n y p y' : CInv n y -> crash_step y (CFinish p) = Some y' -> CInv n y'.
Proof.
  intros H. cbn [crash_step]. destruct (wk_get (cwk y) p) as [[j|]|] eqn:Eg; try discriminate.
  intros E; inversion E; subst y'; clear E.
  destruct (wk_split _ _ _ Eg (wk_nodup n y H)) as (w1 & w2 & Ew & Es & Ed).
  assert (Hrun : running (wk_set (cwk y) p None) = running w1 ++ running w2)
    by (rewrite Es, running_app, running_idle; reflexivity).
  assert (Hrun0 : running (cwk y) = running w1 ++ (j, p) :: running w2)
    by (rewrite Ew, running_app, running_busy; reflexivity).
  apply (cinv_same_par n y); cfields; try reflexivity.
  - exact H.
  - intros j0. rewrite !cnt_ctokens. cfields. rewrite !pcnt_started. cfields.
    rewrite Hrun, Hrun0, creadys_app, creadys_ready, !pcnt_app, !pcnt_cons, pcnt_nil. lia.
  - intros j0 p0 ok t Hin. apply in_app_or in Hin. destruct Hin as [Hin|[Hin|[]]]; [left; exact Hin|right].
    inversion Hin; subst. split; reflexivity.
  - intros m Hin. apply in_app_or in Hin. destruct Hin as [Hin|[<-|[]]]; [left; exact Hin|right].
    cbn [msg_pid]. rewrite Ew, map_app. apply in_or_app. right. left. reflexivity.
  - intros k q. rewrite !in_started. cfields. rewrite Hrun, Hrun0, creadys_app, creadys_ready, !in_app_iff. cbn [In]. tauto.
  - intros k q Hin. apply in_app_or in Hin. destruct Hin as [Hin|[E|[]]]; [left; exact Hin|discriminate].
  - intros k. rewrite !pcnt_started. cfields.
    rewrite Hrun, Hrun0, acks_app, acks_ready, cnt_app, creadys_app, creadys_ready, !pcnt_app, !pcnt_cons, pcnt_nil, cnt_nil. lia.
  - apply map_fst_wk_set.
  - unfold slot_holders. cfields. rewrite Hrun, Hrun0, creadys_app, !app_length.
    rewrite creadys_ready. change (unreaped (mkcs _ _ _ _ _ _ _ _ _)) with (unreaped y). cbn [length]. lia.
Qed.

(* ---- job-level consequences of a frame of the parent *)
Lemma CJ_frame y y' k x :
  pframe (cpar y) (cpar y') -> cbad y' = cbad y -> CJ y k x -> CJ y' k x.
Proof.
  intros PF Eb (A & B & C & D & E & F). unfold CJ. rewrite Eb, (pf_dflt _ _ PF).
  repeat (split; [assumption|]). intros Hr. destruct (F Hr) as [G|(p & t & G)]; [left; exact G|right].
  exists p, t. rewrite (pframe_exit_of _ _ PF), (pframe_exited _ _ PF), (pframe_in_pool _ _ PF). exact G.
Qed.

Lemma NoJT_frame s s' : (forall q, pinfo s' q = pinfo s q) -> NoJT s -> NoJT s'.
Proof. intros H Hj p i Hi. apply (Hj p). rewrite <- H. exact Hi. Qed.

(* ---- apply_async *)
Lemma cinv_submit n y y' : CInv n y -> crash_step y CSubmit = Some y' -> CInv n y'.
Proof.
  intros H. pose proof H as [Ht Hj Hm Hpi Hac Hacs Hwp Hmark Hlost Hwk0 Hcnt Hsize Hst Hmaxr Hjt Hw Hnn Hsem Hbound Hn].
  cbn [crash_step]. destruct (ctodo y) as [|td] eqn:Etd; [discriminate|].
  destruct (step (cpar y) (EApply None None None None)) as [s' r] eqn:Est.
  destruct r; try discriminate. intros E; inversion E; subst y'; clear E.
  destruct (capply_spec _ _ (proj1 Hnn) Est) as (PF & NW & Hp0 & Hjobs & Hl & Hnl).
  set (jn := Z.of_nat (length (jobs (cpar y)))) in *.
  assert (Hget : forall j, get_job s' j = if j =? jn then Some (fresh_job (cpar y)) else get_job (cpar y) j).
  { intros j. rewrite !get_job_gj, Hjobs. apply gj_app_new. }
  assert (Hfresh : get_job (cpar y) jn = None) by (rewrite get_job_gj; apply gj_fresh).
  assert (Hun : forall j, cunres s' j = if j =? jn then true else cunres (cpar y) j).
  { intros j. unfold cunres. rewrite Hget. destruct (j =? jn); reflexivity. }
  assert (Hun0 : cunres (cpar y) jn = false) by (unfold cunres; rewrite Hfresh; reflexivity).
  assert (Hst0 : pcnt jn (started y) = 0%nat).
  { specialize (Ht jn). rewrite cnt_ctokens, Hun0 in Ht. cbn [one] in Ht. lia. }
  assert (Hww : WInv s') by (pose proof (WInv_step (cpar y) (EApply None None None None) Hw) as X; rewrite Est in X; exact X).
  constructor; cfields.
  - intros j. rewrite cnt_ctokens. cfields. rewrite cnt_app, cnt_one, Hun.
    change (started (mkcs _ _ _ _ _ _ _ _ _)) with (started y).
    specialize (Ht j). rewrite cnt_ctokens in Ht.
    destruct (Z.eqb_spec j jn) as [->|Hne].
    + rewrite Hun0 in Ht. rewrite Z.eqb_refl. cbn [one] in *. lia.
    + rewrite (eqb_ne jn j) by congruence. cbn [one]. lia.
  - intros k x. rewrite Hget. destruct (Z.eqb_spec k jn) as [->|Hne].
    + intros E; inversion E; subst x. unfold CJ, fresh_job. cfields. rewrite (pf_dflt _ _ PF). cbn.
      repeat split; try reflexivity; try (intros; discriminate). left. split; reflexivity.
    + intros Hg. apply (CJ_frame y); [exact PF|reflexivity|apply Hj; exact Hg].
  - exact Hm.
  - intros m Hin. rewrite (pframe_in_pool _ _ PF). apply Hpi. exact Hin.
  - intros k p Hin. destruct (Hac k p Hin) as [[x Hx] B].
    assert (k <> jn) by (intros ->; congruence).
    rewrite Hget, Hun. rewrite (eqb_ne k jn) by congruence. split; [eauto|exact B].
  - intros k x. rewrite Hget. change (started (mkcs _ _ _ _ _ _ _ _ _)) with (started y).
    destruct (Z.eqb_spec k jn) as [->|Hne].
    + intros E _; inversion E; subst x. cbn [accepted fresh_job one]. rewrite Hst0.
      destruct (cnt jn (acks (coutq y))) eqn:Ec; [reflexivity|exfalso].
      assert (Hin : In jn (acks (coutq y))) by (apply cnt_pos_in; lia).
      apply in_acks in Hin. destruct Hin as [p Hin]. destruct (Hac jn p Hin) as [[x Hx] _]. congruence.
    + apply Hacs.
  - intros k x p. rewrite Hget. change (started (mkcs _ _ _ _ _ _ _ _ _)) with (started y).
    destruct (Z.eqb_spec k jn) as [->|Hne].
    + intros E _; inversion E; subst x. intros [].
    + apply Hwp.
  - intros k x t c. rewrite Hget. destruct (Z.eqb_spec k jn) as [->|Hne].
    + intros E _; inversion E; subst x. discriminate.
    + intros Hg Hr Hwl. destruct (Hmark k x t c Hg Hr Hwl) as (p & A & B & C). exists p.
      rewrite (pframe_in_pool _ _ PF), NW. auto.
  - intros p k c Hin. destruct (Hlost p k c Hin) as (A & B & C & D).
    rewrite (pframe_exited _ _ PF), (pframe_exit_of _ _ PF), (pframe_in_pool _ _ PF), Hun.
    assert (k <> jn) by (intros ->; congruence). rewrite (eqb_ne k jn) by congruence.
    repeat (split; [assumption|]). intros Hip. destruct (D Hip) as (x & t & Hx & Hy). exists x, t.
    rewrite Hget. rewrite (eqb_ne k jn) by congruence. auto.
  - rewrite (pframe_kept _ _ PF). exact Hwk0.
  - rewrite (unreaped_eq y) by (first [reflexivity|apply (pframe_in_pool _ _ PF)]).
    rewrite (pf_wlist _ _ PF). exact Hcnt.
  - rewrite (pf_wlist _ _ PF), (pf_nprocs _ _ PF). exact Hsize.
  - rewrite (pf_pstate _ _ PF). exact Hst.
  - rewrite (pf_maxr _ _ PF). exact Hmaxr.
  - eapply NoJT_frame; [apply PF|exact Hjt].
  - exact Hww.
  - destruct (putlocks (cpar y)) eqn:Ep.
    + destruct (Hl eq_refl) as [Hpos ->]. cbn. lia.
    + rewrite (Hnl eq_refl). exact Hnn.
  - rewrite (pf_putlocks _ _ PF). intros Ep. destruct (Hl Ep) as [Hpos ->]. specialize (Hsem Ep).
    cbn [LaxSem.value LaxSem.bound]. unfold slot_holders in *. cfields. rewrite app_length.
    rewrite (unreaped_eq y) by (first [reflexivity|apply (pframe_in_pool _ _ PF)]). cbn [length]. lia.
  - rewrite (pf_nprocs _ _ PF). destruct (putlocks (cpar y)) eqn:Ep.
    + destruct (Hl eq_refl) as [Hpos ->]. exact Hbound.
    + rewrite (Hnl eq_refl). exact Hbound.
  - rewrite Hjobs, app_length. cbn [length]. lia.
Qed.

(* ---- the result handler takes an acknowledgement *)
Lemma ackf_fields s j p k z :
  let z' := ackf s j p k z in
  ready z' = ready z /\ value z' = value z /\ cb_succ z' = cb_succ z /\ cb_err z' = cb_err z
  /\ worker_lost z' = worker_lost z /\ lost_timeout z' = lost_timeout z /\ jid z' = jid z /\ kind z' = kind z.
Proof. unfold ackf. destruct ((k =? j) && incache z); cbn; repeat split; reflexivity. Qed.

Lemma cinv_recv_ack n y j p r :
  CInv n y -> coutq y = MAck j p :: r ->
  CInv n (mkcs (fst (step (cpar y) (EAck j None p))) (cbad y) (ctodo y) (ctaskq y) (cinq y) (cwk y) r
               (clost y) (ckills y)).
Proof.
  intros H Eq. pose proof H as [Ht Hj Hm Hpi Hac Hacs Hwp Hmark Hlost Hwk0 Hcnt Hsize Hst Hmaxr Hjt Hw Hnn Hsem Hbound Hn].
  destruct (cack_spec (cpar y) j p) as (PF & NW & SE & JL & JM).
  { intros x Hx. exact (proj1 (proj2 (Hj j x Hx))). }
  pose proof (WInv_step (cpar y) (EAck j None p) Hw) as Hww.
  set (s' := fst (step (cpar y) (EAck j None p))) in *.
  destruct (Hac j p) as [[x Hx] Hstj]; [rewrite Eq; left; reflexivity|].
  set (y' := mkcs s' (cbad y) (ctodo y) (ctaskq y) (cinq y) (cwk y) r (clost y) (ckills y)).
  assert (Hsta : started y' = started y) by (unfold started, y'; cfields; rewrite Eq, creadys_cons_ack; reflexivity).
  assert (Hun : forall k, cunres s' k = cunres (cpar y) k).
  { intros k. unfold cunres. rewrite JM. destruct (get_job (cpar y) k) as [z|]; [|reflexivity]. cbn [option_map].
    rewrite (proj1 (ackf_fields (cpar y) j p k z)). reflexivity. }
  assert (Hinv : forall k z', get_job s' k = Some z' ->
                              exists z, get_job (cpar y) k = Some z /\ z' = ackf (cpar y) j p k z).
  { intros k z'. rewrite JM. destruct (get_job (cpar y) k) as [z|]; [|discriminate]. cbn. intros E; inversion E. eauto. }
  assert (Hupd : forall z, get_job (cpar y) j = Some z -> ready z = false ->
                           ackf (cpar y) j p j z = apply_ack z (now (cpar y)) p).
  { intros z Hz Hr. unfold ackf. rewrite Z.eqb_refl. destruct (Hj j z Hz) as (_ & _ & _ & _ & E & _).
    rewrite (proj1 (E Hr)). reflexivity. }
  assert (Hoth : forall k z, k <> j -> ackf (cpar y) j p k z = z).
  { intros k z Hne. unfold ackf. rewrite (eqb_ne k j) by congruence. reflexivity. }
  constructor; unfold y'; cfields; fold y'.
  - intros k. rewrite cnt_ctokens, Hsta, Hun. unfold y'; cfields. specialize (Ht k). rewrite cnt_ctokens in Ht. exact Ht.
  - intros k z' Hg. destruct (Hinv k z' Hg) as (z & Hz & ->).
    destruct (Hj k z Hz) as (A & B & C & D & E & F).
    destruct (ackf_fields (cpar y) j p k z) as (R1 & R2 & R3 & R4 & R5 & R6 & R7 & R8).
    unfold CJ, y'. cfields. rewrite R1, R2, R3, R4, R5, R6, R7, R8, (pf_dflt _ _ PF).
    split; [exact A|]. split; [exact B|]. split; [exact C|]. split; [|split].
    + unfold ackf. destruct ((k =? j) && incache z); [right; exists p; split; reflexivity|exact D].
    + intros Hr. destruct (E Hr) as (E1 & E2). split; [|exact E2].
      unfold ackf. destruct ((k =? j) && incache z); [cbn; rewrite Hr; exact E1|exact E1].
    + intros Hr. destruct (F Hr) as [G|(p0 & t & G1 & G2 & G3 & G4 & G5 & G6 & G7 & G8)]; [left; exact G|right].
      exists p0, t. rewrite (pframe_exit_of _ _ PF), (pframe_exited _ _ PF), (pframe_in_pool _ _ PF).
      unfold ackf. rewrite G5, andb_false_r. auto 10.
  - intros j0 p0 ok t Hin. apply (Hm j0 p0 ok t). rewrite Eq. right. exact Hin.
  - intros m Hin. rewrite (pframe_in_pool _ _ PF). apply Hpi. rewrite Eq. right. exact Hin.
  - intros k q Hin. destruct (Hac k q) as [[z Hz] B]; [rewrite Eq; right; exact Hin|].
    rewrite Hsta, Hun. split; [|exact B]. rewrite JM, Hz. cbn. eauto.
  - intros k z' Hg Hr. destruct (Hinv k z' Hg) as (z & Hz & ->).
    rewrite (proj1 (ackf_fields (cpar y) j p k z)) in Hr. rewrite Hsta.
    specialize (Hacs k z Hz Hr). rewrite Eq, acks_cons_ack, cnt_cons in Hacs.
    pose proof (started_le1 n y k H) as Hle.
    destruct (Z.eq_dec k j) as [->|Hne].
    + rewrite Z.eqb_refl in Hacs. cbn [one] in Hacs. rewrite (Hupd z Hz Hr). cbn [accepted apply_ack one].
      unfold y'; cfields. clear - Hacs Hle. destruct (accepted z); cbn [one] in Hacs; lia.
    + rewrite (Hoth k z Hne). rewrite (eqb_ne j k) in Hacs by congruence. cbn [one] in Hacs.
      unfold y'; cfields. clear - Hacs. lia.
  - intros k z' q Hg Hr Hin. destruct (Hinv k z' Hg) as (z & Hz & ->).
    rewrite (proj1 (ackf_fields (cpar y) j p k z)) in Hr. rewrite Hsta.
    destruct (Z.eq_dec k j) as [->|Hne].
    + rewrite (Hupd z Hz Hr) in Hin. cbn [wp apply_ack] in Hin. destruct Hin as [<-|[]].
      apply Hstj. rewrite (job_cunres _ _ _ Hz), Hr. reflexivity.
    + rewrite (Hoth k z Hne) in Hin. eapply Hwp; eauto.
  - intros k z' t c Hg Hr Hwl. destruct (Hinv k z' Hg) as (z & Hz & ->).
    destruct (ackf_fields (cpar y) j p k z) as (R1 & _ & _ & _ & R5 & _). rewrite R1 in Hr. rewrite R5 in Hwl.
    destruct (Hmark k z t c Hz Hr Hwl) as (p0 & A & B & C). exists p0.
    rewrite (pframe_in_pool _ _ PF), NW. auto.
  - intros p0 k c Hin. destruct (Hlost p0 k c Hin) as (A & B & C & D).
    rewrite (pframe_exited _ _ PF), (pframe_exit_of _ _ PF), (pframe_in_pool _ _ PF), Hun.
    repeat (split; [assumption|]). intros Hip. destruct (D Hip) as (z & t & Hz & Hwl & Hwpz).
    exists (ackf (cpar y) j p k z), t. rewrite JM, Hz. split; [reflexivity|].
    destruct (ackf_fields (cpar y) j p k z) as (_ & _ & _ & _ & R5 & _). rewrite R5. split; [exact Hwl|].
    destruct (Z.eq_dec k j) as [->|Hne]; [|rewrite (Hoth k z Hne); exact Hwpz].
    assert (Hr : ready z = false).
    { rewrite (job_cunres _ _ _ Hz) in C. destruct (ready z); [discriminate|reflexivity]. }
    rewrite (Hupd z Hz Hr). cbn [wp apply_ack]. f_equal.
    apply (started_unique n y j p p0 H); [apply Hstj; exact C|].
    apply in_started. right. right. apply in_losts. eauto.
  - rewrite (pframe_kept _ _ PF). exact Hwk0.
  - rewrite (unreaped_eq y y') by (first [reflexivity|apply (pframe_in_pool _ _ PF)]).
    rewrite (pf_wlist _ _ PF). exact Hcnt.
  - rewrite (pf_wlist _ _ PF), (pf_nprocs _ _ PF). exact Hsize.
  - rewrite (pf_pstate _ _ PF). exact Hst.
  - rewrite (pf_maxr _ _ PF). exact Hmaxr.
  - eapply NoJT_frame; [apply PF|exact Hjt].
  - exact Hww.
  - rewrite SE. exact Hnn.
  - rewrite (pf_putlocks _ _ PF), SE. intros Ep. specialize (Hsem Ep). unfold slot_holders in *. fold y'.
    rewrite (unreaped_eq y y') by (first [reflexivity|apply (pframe_in_pool _ _ PF)]).
    unfold y'. cfields. rewrite Eq, creadys_cons_ack in Hsem. exact Hsem.
  - rewrite SE, (pf_nprocs _ _ PF). exact Hbound.
  - rewrite JL. exact Hn.
Qed.

(* ---- the result handler takes a result *)
Lemma cinv_recv_ready n y j p ok t r :
  CInv n y -> coutq y = MReady j p ok t :: r ->
  CInv n (mkcs (fst (step (cpar y) (EReady j None ok t))) (cbad y) (ctodo y) (ctaskq y) (cinq y) (cwk y) r
               (clost y) (ckills y)).
Proof.
  intros H Eq. pose proof H as [Ht Hj Hm Hpi Hac Hacs Hwp Hmark Hlost Hwk0 Hcnt Hsize Hst Hmaxr Hjt Hw Hnn Hsem Hbound Hn].
  destruct (Hm j p ok t) as [Et Eok]; [rewrite Eq; left; reflexivity|].
  assert (Hin : In (j, p) (started y)).
  { apply in_started. right. left. rewrite Eq, creadys_cons_ready. left. reflexivity. }
  destruct (started_unres n y j p H Hin) as (Hju & Hp1 & Hq1 & Hq2).
  destruct (cunres_job _ _ Hju) as (x & Hx & Hrx).
  destruct (Hj j x Hx) as (A0 & B0 & C0 & D0 & E0 & F0). destruct (E0 Hrx) as (Hic & Hv & Hcs & Hce).
  destruct (cready_spec (cpar y) j ok t) as (PF & NW & SE & JL & JM).
  { intros z Hz. exact (proj1 (proj2 (Hj j z Hz))). }
  rewrite Hx, Hic, Hrx in SE. cbn [andb negb] in SE.
  pose proof (WInv_step (cpar y) (EReady j None ok t) Hw) as Hww.
  set (pl := if ok then PValue t else PExc t) in *.
  set (s' := fst (step (cpar y) (EReady j None ok t))) in *.
  set (y' := mkcs s' (cbad y) (ctodo y) (ctaskq y) (cinq y) (cwk y) r (clost y) (ckills y)).
  assert (Hpc : forall k, (pcnt k (started y') + one (Z.eqb j k) = pcnt k (started y))%nat).
  { intros k. rewrite !pcnt_started. unfold y'; cfields. rewrite Eq, creadys_cons_ready, pcnt_cons. lia. }
  assert (Hsin : forall k q, k <> j -> In (k, q) (started y) -> In (k, q) (started y')).
  { intros k q Hne. rewrite !in_started. unfold y'; cfields. rewrite Eq, creadys_cons_ready. cbn [In].
    intros [H1|[[H2|H2]|H3]]; [tauto|congruence|tauto|tauto]. }
  assert (Hoth : forall k z, k <> j -> readyf j pl k z = z).
  { intros k z Hne. unfold readyf. rewrite (eqb_ne k j) by congruence. reflexivity. }
  assert (Hnew : readyf j pl j x = apply_set x pl) by (unfold readyf; rewrite Z.eqb_refl, Hic; reflexivity).
  assert (Hun : forall k, cunres s' k = if k =? j then false else cunres (cpar y) k).
  { intros k. unfold cunres. rewrite JM. destruct (Z.eqb_spec k j) as [->|Hne].
    - rewrite Hx. cbn [option_map]. rewrite Hnew. unfold apply_set. rewrite Hrx. reflexivity.
    - destruct (get_job (cpar y) k) as [z|]; [|reflexivity]. cbn [option_map]. rewrite Hoth by exact Hne. reflexivity. }
  assert (Hinv : forall k z', get_job s' k = Some z' ->
                              exists z, get_job (cpar y) k = Some z /\ z' = readyf j pl k z).
  { intros k z'. rewrite JM. destruct (get_job (cpar y) k) as [z|]; [|discriminate]. cbn. intros E; inversion E. eauto. }
  assert (Hkj : forall k z', get_job s' k = Some z' -> ready z' = false ->
                             k <> j /\ get_job (cpar y) k = Some z').
  { intros k z' Hg Hr. assert (Hu : cunres s' k = true) by (rewrite (job_cunres _ _ _ Hg), Hr; reflexivity).
    rewrite Hun in Hu. destruct (Z.eqb_spec k j) as [->|Hne]; [discriminate|]. split; [exact Hne|].
    destruct (Hinv k z' Hg) as (z & Hz & ->). rewrite Hoth by exact Hne. exact Hz. }
  assert (Hnl : forall p0 c, ~ In (p0, j, c) (clost y)).
  { intros p0 c Hl. assert (Hl' : In (j, p0) (losts (clost y))) by (apply in_losts; eauto).
    apply pcnt_in in Hl'. rewrite pcnt_started, Eq, creadys_cons_ready, pcnt_cons, Z.eqb_refl in Hp1. cbn [one] in Hp1. lia. }
  assert (Hhold : (1 <= slot_holders y)%nat /\ slot_holders y = S (slot_holders y')).
  { unfold slot_holders, y'. cfields. fold y'.
    rewrite (unreaped_eq y y') by (first [reflexivity|apply (pframe_in_pool _ _ PF)]).
    rewrite Eq, creadys_cons_ready. cbn [length]. lia. }
  constructor; unfold y'; cfields; fold y'.
  - intros k. rewrite cnt_ctokens, Hun. unfold y' at 1 2; cfields. specialize (Ht k). rewrite cnt_ctokens in Ht.
    specialize (Hpc k). destruct (Z.eqb_spec k j) as [->|Hne].
    + rewrite Z.eqb_refl in Hpc. rewrite Hju in Ht. cbn [one] in *. lia.
    + rewrite (eqb_ne j k) in Hpc by congruence. cbn [one] in *. lia.
  - intros k z' Hg. destruct (Hinv k z' Hg) as (z & Hz & ->). destruct (Z.eq_dec k j) as [->|Hne].
    + assert (z = x) by congruence. subst z. rewrite Hnew. unfold CJ, y'. cfields. rewrite (pf_dflt _ _ PF).
      unfold apply_set. rewrite Hrx. cbn [jid kind lost_timeout wp accepted ready value cb_succ cb_err incache].
      repeat (split; [assumption|]). split; [intros; discriminate|]. intros _. left.
      rewrite Hcs, Hce. unfold pl, outcome_of. subst ok t. destruct (task_ok (cbad y) j); cbn; auto.
    + rewrite Hoth by exact Hne. apply (CJ_frame y); [exact PF|reflexivity|apply Hj; exact Hz].
  - intros j0 p0 ok0 t0 Hin0. apply (Hm j0 p0 ok0 t0). rewrite Eq. right. exact Hin0.
  - intros m Hin0. rewrite (pframe_in_pool _ _ PF). apply Hpi. rewrite Eq. right. exact Hin0.
  - intros k q Hin0. destruct (Hac k q) as [[z Hz] B]; [rewrite Eq; right; exact Hin0|].
    split; [rewrite JM, Hz; cbn; eauto|]. rewrite Hun. destruct (Z.eqb_spec k j) as [->|Hne]; [discriminate|].
    intros Hu. apply Hsin; [exact Hne|apply B; exact Hu].
  - intros k z' Hg Hr. destruct (Hkj k z' Hg Hr) as [Hne Hz].
    specialize (Hacs k z' Hz Hr). rewrite Eq, acks_cons_ready in Hacs. specialize (Hpc k).
    rewrite (eqb_ne j k) in Hpc by congruence. cbn [one] in Hpc. clear - Hacs Hpc. lia.
  - intros k z' q Hg Hr Hin0. destruct (Hkj k z' Hg Hr) as [Hne Hz]. apply Hsin; [exact Hne|]. eapply Hwp; eauto.
  - intros k z' t0 c Hg Hr Hwl. destruct (Hkj k z' Hg Hr) as [Hne Hz].
    destruct (Hmark k z' t0 c Hz Hr Hwl) as (p0 & A & B & C). exists p0.
    rewrite (pframe_in_pool _ _ PF), NW. auto.
  - intros p0 k c Hin0. destruct (Hlost p0 k c Hin0) as (A & B & C & D).
    assert (Hne : k <> j) by (intros ->; exact (Hnl p0 c Hin0)).
    rewrite (pframe_exited _ _ PF), (pframe_exit_of _ _ PF), (pframe_in_pool _ _ PF), Hun.
    rewrite (eqb_ne k j) by congruence. repeat (split; [assumption|]).
    intros Hip. destruct (D Hip) as (z & t0 & Hz & Hy). exists z, t0. rewrite JM, Hz. cbn [option_map].
    rewrite Hoth by exact Hne. auto.
  - rewrite (pframe_kept _ _ PF). exact Hwk0.
  - rewrite (unreaped_eq y y') by (first [reflexivity|apply (pframe_in_pool _ _ PF)]).
    rewrite (pf_wlist _ _ PF). exact Hcnt.
  - rewrite (pf_wlist _ _ PF), (pf_nprocs _ _ PF). exact Hsize.
  - rewrite (pf_pstate _ _ PF). exact Hst.
  - rewrite (pf_maxr _ _ PF). exact Hmaxr.
  - eapply NoJT_frame; [apply PF|exact Hjt].
  - exact Hww.
  - rewrite SE. unfold LaxSem.release. destruct (_ <? _) eqn:El; cbn [LaxSem.value LaxSem.bound]; lia.
  - rewrite (pf_putlocks _ _ PF), SE. intros Ep. specialize (Hsem Ep). destruct Hhold as [Hh1 Hh2].
    unfold LaxSem.release. destruct (LaxSem.value (sem (cpar y)) <? LaxSem.bound (sem (cpar y))) eqn:El;
      cbn [LaxSem.value LaxSem.bound]; lia.
  - rewrite SE, (pf_nprocs _ _ PF). unfold LaxSem.release. destruct (_ <? _); exact Hbound.
  - rewrite JL. exact Hn.
Qed.

Lemma cinv_recv n y y' : CInv n y -> crash_step y CRecv = Some y' -> CInv n y'.
Proof.
  intros H. cbn [crash_step]. destruct (coutq y) as [|[j p|j p ok t] r] eqn:Eq; [discriminate| |];
    intros E; inversion E; subst y'; clear E.
  - exact (cinv_recv_ack n y j p r H Eq).
  - exact (cinv_recv_ready n y j p ok t r H Eq).
Qed.

(* ---- the clock *)
Lemma cinv_advance n y d y' : CInv n y -> crash_step y (CAdvance d) = Some y' -> CInv n y'.
Proof.
  intros H. pose proof H as [Ht Hj Hm Hpi Hac Hacs Hwp Hmark Hlost Hwk0 Hcnt Hsize Hst Hmaxr Hjt Hw Hnn Hsem Hbound Hn].
  cbn [crash_step]. destruct (0 <? d) eqn:Ed; [|discriminate]. intros E; inversion E; subst y'; clear E.
  destruct (cadvance_spec (cpar y) d) as (PF & NW & SE & JE).
  pose proof (WInv_step (cpar y) (EAdvance d) Hw) as Hww.
  set (s' := fst (step (cpar y) (EAdvance d))) in *.
  set (y' := mkcs s' (cbad y) (ctodo y) (ctaskq y) (cinq y) (cwk y) (coutq y) (clost y) (ckills y)).
  assert (Hg : forall k, get_job s' k = get_job (cpar y) k) by (intros k; rewrite !get_job_gj, JE; reflexivity).
  assert (Hun : forall k, cunres s' k = cunres (cpar y) k) by (intros k; unfold cunres; rewrite Hg; reflexivity).
  constructor; unfold y'; cfields; fold y'; change (started y') with (started y); change (ctokens y') with (ctokens y).
  - intros k. rewrite Hun. apply Ht.
  - intros k x Hx. rewrite Hg in Hx. apply (CJ_frame y); [exact PF|reflexivity|apply Hj; exact Hx].
  - exact Hm.
  - intros m Hin. rewrite (pframe_in_pool _ _ PF). apply Hpi. exact Hin.
  - intros k p Hin. rewrite Hg, Hun. apply Hac. exact Hin.
  - intros k x. rewrite Hg. apply Hacs.
  - intros k x p. rewrite Hg. apply Hwp.
  - intros k x t c. rewrite Hg. intros Hx Hr Hwl. destruct (Hmark k x t c Hx Hr Hwl) as (p0 & A & B & C).
    exists p0. rewrite (pframe_in_pool _ _ PF), NW. split; [exact A|]. split; [exact B|]. lia.
  - intros p k c Hin. destruct (Hlost p k c Hin) as (A & B & C & D).
    rewrite (pframe_exited _ _ PF), (pframe_exit_of _ _ PF), (pframe_in_pool _ _ PF), Hun.
    repeat (split; [assumption|]). intros Hip. destruct (D Hip) as (x & t & Hx & Hy). exists x, t. rewrite Hg. auto.
  - rewrite (pframe_kept _ _ PF). exact Hwk0.
  - rewrite (unreaped_eq y y') by (first [reflexivity|apply (pframe_in_pool _ _ PF)]).
    rewrite (pf_wlist _ _ PF). exact Hcnt.
  - rewrite (pf_wlist _ _ PF), (pf_nprocs _ _ PF). exact Hsize.
  - rewrite (pf_pstate _ _ PF). exact Hst.
  - rewrite (pf_maxr _ _ PF). exact Hmaxr.
  - eapply NoJT_frame; [apply PF|exact Hjt].
  - exact Hww.
  - rewrite SE. exact Hnn.
  - rewrite (pf_putlocks _ _ PF), SE. intros Ep. specialize (Hsem Ep). unfold slot_holders in *. fold y'.
    rewrite (unreaped_eq y y') by (first [reflexivity|apply (pframe_in_pool _ _ PF)]). exact Hsem.
  - rewrite SE, (pf_nprocs _ _ PF). exact Hbound.
  - rewrite JE. exact Hn.
Qed.

(* ---- a worker that is executing a job dies *)
Lemma exited_valid s p : exited s p = true -> 0 <= p < Z.of_nat (length (procs s)).
Proof.
  unfold exited, get_proc. destruct (p <? 0) eqn:E; [discriminate|].
  destruct (nth_error (procs s) (Z.to_nat p)) as [q|] eqn:En; [|discriminate]. intros _.
  assert (Z.to_nat p < length (procs s))%nat by (apply nth_error_Some; congruence). lia.
Qed.

Lemma cinv_kill n y p code y' : CInv n y -> crash_step y (CKill p code) = Some y' -> CInv n y'.
Proof.
  intros H. pose proof H as [Ht Hj Hm Hpi Hac Hacs Hwp Hmark Hlost Hwk0 Hcnt Hsize Hst Hmaxr Hjt Hw Hnn Hsem Hbound Hn].
  cbn [crash_step]. destruct (ckills y) as [|kk] eqn:Ek; [discriminate|].
  destruct (wk_get (cwk y) p) as [[j|]|] eqn:Eg; try discriminate. intros E; inversion E; subst y'; clear E.
  destruct (wk_split _ _ _ Eg (wk_nodup n y H)) as (w1 & w2 & Ew & Es & Ed).
  destruct (cexit_spec (cpar y) p code) as (P1 & P2 & P3 & P4 & P5 & P6 & P7 & P8 & P9 & P10 & P11).
  pose proof (WInv_step (cpar y) (EExit p code) Hw) as Hww.
  set (s' := fst (step (cpar y) (EExit p code))) in *.
  assert (Hpin : In p (map fst (cwk y))).
  { apply wk_get_in in Eg. apply in_map_iff. exists (p, Some j). split; [reflexivity|exact Eg]. }
  destruct (live_worker n y p H Hpin) as [Hlp Hle].
  assert (Hpp : exists jt, pinfo (cpar y) p = Some (None, jt)).
  { apply memZ_In in Hlp. destruct Hw as [_ Hv]. destruct (valid_get_proc _ _ (Hv p Hlp)) as [q Hq].
    rewrite exited_pinfo in Hle. unfold pinfo in *. rewrite Hq in *. cbn in *. destruct (pexit q); [discriminate|eauto]. }
  destruct Hpp as [jt Hpp].
  assert (Hex : forall q, exited s' q = exited (cpar y) q || (q =? p)).
  { intros q. rewrite !exited_pinfo, P11. destruct (Z.eqb_spec q p) as [->|Hne]; [|rewrite orb_false_r; reflexivity].
    rewrite Hpp. reflexivity. }
  assert (Heo : forall q, q <> p -> exit_of s' q = exit_of (cpar y) q).
  { intros q Hne. rewrite !exit_of_pinfo, P11, (eqb_ne q p Hne). reflexivity. }
  assert (Heop : exit_of s' p = code) by (rewrite exit_of_pinfo, P11, Z.eqb_refl, Hpp; reflexivity).
  assert (Hip : forall q, in_pool s' q = in_pool (cpar y) q) by (intros q; unfold in_pool; rewrite P3; reflexivity).
  assert (Hg : forall k, get_job s' k = get_job (cpar y) k) by (intros k; rewrite !get_job_gj, P9; reflexivity).
  assert (Hun : forall k, cunres s' k = cunres (cpar y) k) by (intros k; unfold cunres; rewrite Hg; reflexivity).
  assert (Hrun : running (wk_del (cwk y) p) = running w1 ++ running w2) by (rewrite Ed, running_app; reflexivity).
  assert (Hrun0 : running (cwk y) = running w1 ++ (j, p) :: running w2)
    by (rewrite Ew, running_app, running_busy; reflexivity).
  assert (Hjp : In (j, p) (started y)).
  { apply in_started. left. rewrite Hrun0. apply in_or_app. right. left. reflexivity. }
  set (y' := mkcs s' (cbad y) (ctodo y) (ctaskq y) (cinq y) (wk_del (cwk y) p) (coutq y)
                  (clost y ++ [(p, j, code)]) kk).
  assert (Hl1 : losts [(p, j, code)] = [(j, p)]) by reflexivity.
  assert (Hsi : forall k q, In (k, q) (started y') <-> In (k, q) (started y)).
  { intros k q. rewrite !in_started. unfold y'; cfields. rewrite Hrun, Hrun0, losts_app, Hl1, !in_app_iff. cbn [In]. tauto. }
  assert (Hpc : forall k, pcnt k (started y') = pcnt k (started y)).
  { intros k. rewrite !pcnt_started. unfold y'; cfields. rewrite Hrun, Hrun0, losts_app, Hl1, !pcnt_app, !pcnt_cons, pcnt_nil. lia. }
  assert (Hur : unreaped y' = unreaped y ++ [(p, j, code)]).
  { unfold unreaped, y'. cfields. rewrite filter_app. cbn [filter]. unfold lost_pid at 2. cbn [fst]. rewrite Hip, Hlp.
    f_equal; try (apply filter_ext_eq; intros d; apply Hip). }
  constructor; unfold y'; cfields; fold y'.
  - intros k. rewrite cnt_ctokens, Hpc, Hun. unfold y'; cfields. specialize (Ht k). rewrite cnt_ctokens in Ht. exact Ht.
  - intros k x Hx. rewrite Hg in Hx. destruct (Hj k x Hx) as (A & B & C & D & E & F). unfold CJ, y'. cfields.
    rewrite P5. repeat (split; [assumption|]). intros Hr. destruct (F Hr) as [G|(p0 & t & G1 & G2 & G3 & G4 & G5 & G6 & G7 & G8)]; [left; exact G|right].
    assert (p0 <> p) by (intros ->; congruence).
    exists p0, t. rewrite (Heo p0) by assumption. rewrite Hex, G7, Hip. auto 10.
  - exact Hm.
  - intros m Hin. rewrite Hip. apply Hpi. exact Hin.
  - intros k q Hin. rewrite Hg, Hun, Hsi. apply Hac. exact Hin.
  - intros k x. rewrite Hg, Hpc. apply Hacs.
  - intros k x q. rewrite Hg, Hsi. apply Hwp.
  - intros k x t c. rewrite Hg. intros Hx Hr Hwl. destruct (Hmark k x t c Hx Hr Hwl) as (p0 & A & B & C).
    exists p0. rewrite Hip, P7. split; [apply in_or_app; left; exact A|auto].
  - intros p0 k c Hin. apply in_app_or in Hin. destruct Hin as [Hin|[E|[]]].
    + destruct (Hlost p0 k c Hin) as (A & B & C & D).
      assert (p0 <> p) by (intros ->; congruence).
      rewrite Hex, A, (Heo p0), Hip, Hun by assumption. split; [reflexivity|]. repeat (split; [assumption|]).
      intros Hq. destruct (D Hq) as (x & t & Hx & Hy). exists x, t. rewrite Hg. auto.
    + inversion E; subst p0 k c. rewrite Hex, Z.eqb_refl, orb_true_r, Heop, Hun, Hip, Hlp.
      split; [reflexivity|]. split; [reflexivity|]. split; [|discriminate].
      exact (proj1 (started_unres n y j p H Hjp)).
  - rewrite map_fst_wk_del, Hwk0. unfold kept. rewrite P3, filter_filter. apply filter_ext_eq.
    intros q. rewrite Hex, negb_orb. reflexivity.
  - rewrite Hur, P3, app_length, Ed, app_length. rewrite Ew, app_length in Hcnt. cbn [length] in *. lia.
  - rewrite P3, P4. exact Hsize.
  - rewrite P1. exact Hst.
  - rewrite P6. exact Hmaxr.
  - intros q i. rewrite P11. destruct (Z.eqb_spec q p) as [->|Hne]; [|apply Hjt].
    rewrite Hpp. cbn. intros E; inversion E; subst i. cbn. apply (Hjt p _ Hpp).
  - exact Hww.
  - rewrite P8. exact Hnn.
  - rewrite P2, P8. intros Ep. specialize (Hsem Ep). unfold slot_holders in *. fold y'. rewrite Hur.
    unfold y'; cfields. rewrite Hrun, !app_length. rewrite Hrun0, !app_length in Hsem. cbn [length] in *.
    clear - Hsem. lia.
  - rewrite P8, P4. exact Hbound.
  - rewrite P9. exact Hn.
Qed.

(* ================================================================== D. the supervision pass *)
(* what one pass does to a job, in the closed system *)
Definition tick_class (s : pool) (x : job) : job :=
  if ready x then x else
  match worker_lost x with
  | Some (t, c) => if lost_timeout x <? now s - t then apply_set x (PLost c (jid x)) else x
  | None => match wp x with
            | [p] => if exited s p then j_set_lost x (Some (now s, exit_of s p)) else x
            | _ => x
            end
  end.

Lemma tick_class_cases s x :
  tick_class s x = x
  \/ (ready x = false /\ exists p, wp x = [p] /\ worker_lost x = None /\ exited s p = true
                                 /\ tick_class s x = j_set_lost x (Some (now s, exit_of s p)))
  \/ (ready x = false /\ exists t c, worker_lost x = Some (t, c) /\ lost_timeout x < now s - t
                                   /\ tick_class s x = apply_set x (PLost c (jid x))).
Proof.
  unfold tick_class. destruct (ready x) eqn:Hr; [left; reflexivity|].
  destruct (worker_lost x) as [[t c]|] eqn:Hw.
  - destruct (lost_timeout x <? now s - t) eqn:Hd; [|left; reflexivity]. right. right.
    split; [reflexivity|]. exists t, c. split; [reflexivity|]. split; [lia|reflexivity].
  - destruct (wp x) as [|p [|p2 r]] eqn:Hwp; try (left; reflexivity).
    destruct (exited s p) eqn:He; [|left; reflexivity]. right. left. split; [reflexivity|]. exists p. auto.
Qed.

Lemma memZ_reaped s p : memZ p (reaped s) = in_pool s p && exited s p.
Proof.
  apply eq_iff_eq_true. rewrite memZ_In, andb_true_iff. unfold reaped, in_pool. rewrite filter_In, <- in_rev, memZ_In. tauto.
Qed.

Lemma memZ_kept s p : memZ p (kept s) = in_pool s p && negb (exited s p).
Proof.
  apply eq_iff_eq_true. rewrite memZ_In, andb_true_iff. unfold kept, in_pool. rewrite filter_In, memZ_In. tauto.
Qed.

Lemma abg_none cl rem x : worker_pids x = [] -> acked_by_gone cl rem x = None.
Proof. intros H. unfold acked_by_gone. rewrite H. reflexivity. Qed.

Lemma abg_single cl rem x p :
  worker_pids x = [p] ->
  acked_by_gone cl rem x = if memZ p cl || negb (memZ p rem) then Some p else None.
Proof. intros H. unfold acked_by_gone. rewrite H. reflexivity. Qed.

Lemma ojd_none s cl rem x : acked_by_gone cl rem x = None -> fst (on_job_down s cl rem x) = x.
Proof. intros H. unfold on_job_down. rewrite H. reflexivity. Qed.

Lemma ojd_marked s cl rem x p m :
  acked_by_gone cl rem x = Some p -> ready x = false -> memZ p cl = false -> worker_lost x = Some m ->
  fst (on_job_down s cl rem x) = x.
Proof. intros H Hr Hm Hw. unfold on_job_down. rewrite H, Hr, Hm, Hw. reflexivity. Qed.

Lemma ojd_detect s cl rem x p :
  acked_by_gone cl rem x = Some p -> ready x = false -> memZ p cl = true ->
  match get_proc s p with Some q => jterm q | None => false end = false -> worker_lost x = None ->
  fst (on_job_down s cl rem x) = j_set_lost x (Some (now s, exit_of s p)).
Proof. intros H Hr Hm Hj Hw. unfold on_job_down. rewrite H, Hr, Hm, Hj, Hw. reflexivity. Qed.

Lemma drained_spec s q : drained s q = true -> forall m, In m q -> dead_unreaped s (msg_pid m) = false.
Proof.
  unfold drained. intros H m Hin. apply negb_true_iff in H.
  destruct (dead_unreaped s (msg_pid m)) eqn:E; [|reflexivity].
  assert (existsb (fun m0 => dead_unreaped s (msg_pid m0)) q = true) by (apply existsb_exists; eauto). congruence.
Qed.

(* where the recorded owner of an unresolved job is *)
Lemma owner_place n y k x p :
  CInv n y -> get_job (cpar y) k = Some x -> ready x = false -> wp x = [p] ->
  (In (k, p) (running (cwk y)) /\ in_pool (cpar y) p = true /\ exited (cpar y) p = false)
  \/ (In (k, p) (creadys (coutq y)) /\ in_pool (cpar y) p = true)
  \/ (exists c, In (p, k, c) (clost y) /\ exited (cpar y) p = true /\ exit_of (cpar y) p = c).
Proof.
  intros H Hg Hr Hwp.
  assert (Hs : In (k, p) (started y)) by (apply (v_wp n y H k x p Hg Hr); rewrite Hwp; left; reflexivity).
  apply in_started in Hs. destruct Hs as [Hs|[Hs|Hs]].
  - left. split; [exact Hs|]. apply in_running in Hs. apply (live_worker n y p H).
    apply in_map_iff. exists (p, Some k). split; [reflexivity|exact Hs].
  - right. left. split; [exact Hs|]. apply in_creadys in Hs. destruct Hs as (ok & t & Hs).
    apply (v_pid n y H _ Hs).
  - right. right. apply in_losts in Hs. destruct Hs as [c Hs]. exists c. split; [exact Hs|].
    destruct (v_lost n y H p k c Hs) as (A & B & _). auto.
Qed.

(* a lost job whose worker is not reaped yet: once the result handler has drained the dead
   worker's messages, the job names that worker as its owner (so the pass will mark it) *)
Lemma unreaped_acked n y p k c :
  CInv n y -> drained (cpar y) (coutq y) = true -> In (p, k, c) (clost y) -> in_pool (cpar y) p = true ->
  exists x, get_job (cpar y) k = Some x /\ ready x = false /\ worker_lost x = None /\ wp x = [p].
Proof.
  intros H Hd Hin Hip. destruct (v_lost n y H p k c Hin) as (He & Hc & Hu & _).
  destruct (cunres_job _ _ Hu) as (x & Hx & Hr). exists x. split; [exact Hx|]. split; [exact Hr|].
  assert (Hs : In (k, p) (started y)) by (apply in_started; right; right; apply in_losts; eauto).
  split.
  - destruct (worker_lost x) as [[t c']|] eqn:Hw; [exfalso|reflexivity].
    destruct (v_mark n y H k x t c' Hx Hr Hw) as (p' & A & B & _).
    assert (Hs' : In (k, p') (started y)) by (apply in_started; right; right; apply in_losts; eauto).
    rewrite (started_unique n y k p p' H Hs Hs') in Hip. congruence.
  - destruct (v_job n y H k x Hx) as (_ & _ & _ & D & _). destruct D as [[Hw Ha]|(p'' & Hw & Ha)].
    + exfalso. pose proof (v_acks n y H k x Hx Hr) as Hk. rewrite Ha in Hk. cbn [one] in Hk.
      destruct (started_unres n y k p H Hs) as (_ & Hp1 & _).
      assert (Hi : In k (acks (coutq y))) by (apply cnt_pos_in; lia).
      apply in_acks in Hi. destruct Hi as [q Hq]. destruct (v_ack n y H k q Hq) as [_ Hb].
      rewrite <- (started_unique n y k p q H Hs (Hb Hu)) in Hq.
      pose proof (drained_spec _ _ Hd _ Hq) as Hdu. unfold dead_unreaped in Hdu. cbn [msg_pid] in Hdu.
      rewrite He, Hip in Hdu. discriminate.
    + assert (Hs' : In (k, p'') (started y)) by (apply (v_wp n y H k x p'' Hx Hr); rewrite Hw; left; reflexivity).
      rewrite Hw, (started_unique n y k p p'' H Hs Hs'). reflexivity.
Qed.

Lemma tick_job_class n y k x :
  CInv n y -> drained (cpar y) (coutq y) = true -> get_job (cpar y) k = Some x ->
  tick_job (cpar y) x = tick_class (cpar y) x.
Proof.
  intros H Hd Hg.
  destruct (ready x) eqn:Hr; [unfold tick_class; rewrite Hr; apply tick_job_ready; exact Hr|].
  destruct (v_job n y H k x Hg) as (A & B & C & D & E & F). destruct (E Hr) as (Hic & _).
  assert (Hwpk : worker_pids x = wp x) by (unfold worker_pids; rewrite B; reflexivity).
  unfold tick_class. rewrite Hr. unfold tick_job, lost_due. rewrite Hic, Hr. cbn [andb negb].
  destruct (worker_lost x) as [[t c]|] eqn:Hwl.
  - destruct (v_mark n y H k x t c Hg Hr Hwl) as (p & Hin & Hip & _).
    destruct (v_lost n y H p k c Hin) as (_ & _ & _ & D'). destruct (D' Hip) as (x0 & t0 & Hx0 & _ & Hwp). assert (x0 = x) by congruence. subst x0.
    assert (Hacc : accepted x = true).
    { destruct D as [[D1 _]|(q & _ & D2)]; [congruence|exact D2]. }
    destruct (lost_timeout x <? now (cpar y) - t) eqn:Hdue.
    + unfold mark_lost. rewrite Hwl. unfold job_set. rewrite B. cbn [fst].
      assert (Hi1 : incache (apply_set x (PLost c (jid x))) = false)
        by (unfold apply_set; rewrite Hr; cbn; rewrite Hacc; reflexivity).
      destruct (reaped (cpar y)); [reflexivity|]. rewrite Hi1. reflexivity.
    + destruct (reaped (cpar y)) as [|c0 cl0] eqn:Er; [reflexivity|]. rewrite Hic, <- Er.
      apply (ojd_marked (cpar y) _ _ x p (t, c)); try assumption.
      * rewrite (abg_single _ _ x p) by (rewrite Hwpk; exact Hwp).
        rewrite memZ_reaped, memZ_kept. rewrite Hip. reflexivity.
      * rewrite memZ_reaped. rewrite Hip. reflexivity.
  - destruct (wp x) as [|p [|p2 r]] eqn:Hwp.
    + destruct (reaped (cpar y)); [reflexivity|]. rewrite Hic. apply ojd_none. apply abg_none. exact Hwpk.
    + assert (Habg : acked_by_gone (reaped (cpar y)) (kept (cpar y)) x
                     = if in_pool (cpar y) p && exited (cpar y) p || negb (in_pool (cpar y) p && negb (exited (cpar y) p)) then Some p else None).
      { rewrite (abg_single _ _ x p) by exact Hwpk. rewrite memZ_reaped, memZ_kept. reflexivity. }
      assert (Hlive : in_pool (cpar y) p = true -> exited (cpar y) p = false -> tick_job (cpar y) x = x).
      { intros Hip He. apply tick_frame; [unfold lost_due; rewrite Hwl, andb_false_r; reflexivity|].
        rewrite Habg, Hip, He. reflexivity. }
      unfold tick_job, lost_due in Hlive. rewrite Hic, Hr, Hwl in Hlive. cbn [andb negb] in Hlive.
      destruct (owner_place n y k x p H Hg Hr Hwp) as [(_ & Hip & He)|[(Hcr & Hip)|(c & Hin & He & Hc)]].
      * rewrite He. apply Hlive; assumption.
      * apply in_creadys in Hcr. destruct Hcr as (ok & t & Hm).
        pose proof (drained_spec _ _ Hd _ Hm) as Hdu. unfold dead_unreaped in Hdu. cbn [msg_pid] in Hdu.
        rewrite Hip, andb_true_r in Hdu. rewrite Hdu. apply Hlive; assumption.
      * rewrite He.
        assert (Hip : in_pool (cpar y) p = true).
        { destruct (in_pool (cpar y) p) eqn:Hip; [reflexivity|exfalso].
          destruct (v_lost n y H p k c Hin) as (_ & _ & _ & D'). destruct (D' Hip) as (x0 & t0 & Hx0 & Hw0 & _). congruence. }
        assert (Hmr : memZ p (reaped (cpar y)) = true) by (rewrite memZ_reaped, Hip, He; reflexivity).
        destruct (reaped (cpar y)) as [|c0 cl0] eqn:Er; [discriminate|]. rewrite Hic, <- Er. rewrite <- Er in Habg.
        apply ojd_detect; try assumption.
        -- rewrite Habg, Hip, He. reflexivity.
        -- rewrite Er. exact Hmr.
        -- rewrite jterm_pinfo. destruct (pinfo (cpar y) p) as [[e b]|] eqn:Epi; [|reflexivity].
           exact (v_jt n y H p _ Epi).
    + exfalso. destruct D as [[D1 _]|(q & D1 & _)]; discriminate.
Qed.

Lemma filter_none {A} (f : A -> bool) l : (forall a, In a l -> f a = false) -> filter f l = [].
Proof.
  induction l as [|a l IH]; intros H; [reflexivity|]. cbn. rewrite (H a (or_introl eq_refl)).
  apply IH. intros b Hb. apply H. right. exact Hb.
Qed.
Lemma filter_all {A} (f : A -> bool) l : (forall a, In a l -> f a = true) -> filter f l = l.
Proof.
  induction l as [|a l IH]; intros H; [reflexivity|]. cbn. rewrite (H a (or_introl eq_refl)). f_equal.
  apply IH. intros b Hb. apply H. right. exact Hb.
Qed.

Lemma in_fresh s k p : In p (fresh_pids s k) -> Z.of_nat (length (procs s)) <= p.
Proof. unfold fresh_pids. rewrite in_map_iff. intros (i & <- & Hi). apply in_seq in Hi. lia. Qed.

Lemma tick_class_ready s x : ready x = true -> tick_class s x = x.
Proof. intros H. unfold tick_class. rewrite H. reflexivity. Qed.

Lemma tick_class_unres s x :
  ready (tick_class s x) = false ->
  ready x = false /\ accepted (tick_class s x) = accepted x /\ wp (tick_class s x) = wp x
  /\ (tick_class s x = x \/ exists p, wp x = [p] /\ worker_lost x = None /\ exited s p = true
                                      /\ tick_class s x = j_set_lost x (Some (now s, exit_of s p))).
Proof.
  intros Hr. destruct (tick_class_cases s x) as [E|[(Hr0 & p & A & B & C & E)|(Hr0 & t & c & A & B & E)]].
  - rewrite E in *. auto.
  - rewrite E. split; [exact Hr0|]. split; [reflexivity|]. split; [reflexivity|]. right. exists p. auto.
  - rewrite E in Hr. unfold apply_set in Hr. rewrite Hr0 in Hr. discriminate.
Qed.

Lemma lost_in_filter (g : Z -> bool) l p k c :
  In (p, k, c) (filter (fun d => g (lost_job d)) l) <-> In (p, k, c) l /\ g k = true.
Proof. rewrite filter_In. reflexivity. Qed.

Lemma cinv_tick_to n y y' :
  CInv n y -> drained (cpar y) (coutq y) = true -> tick_to y = Some y' -> CInv n y'.
Proof.
  intros H Hd. pose proof H as [Ht Hj Hm Hpi Hac Hacs Hwp Hmark Hlost Hwk0 Hcnt Hsize Hst Hmaxr Hjt Hw Hnn Hsem Hbound Hn].
  destruct (ctick_spec (cpar y) Hst Hmaxr) as (s' & E & W & PL & J & SE & PS & MR & PU & DF & NW & NP & PG); [lia|].
  unfold tick_to. rewrite E. intros E'; inversion E'; subst y'; clear E'.
  pose proof (WInv_step (cpar y) ETick Hw) as Hww. rewrite E in Hww. cbn [fst] in Hww.
  pose proof (reaped_kept_length (cpar y)) as Hrk.
  assert (Hkl : length (cwk y) = length (kept (cpar y))) by (rewrite <- Hwk0, map_length; reflexivity).
  assert (Hmn : missing_n (cpar y) = length (reaped (cpar y))) by (unfold missing_n; rewrite <- Hsize; lia).
  assert (Hur : length (unreaped y) = length (reaped (cpar y))) by lia.
  set (fr := fresh_pids (cpar y) (missing_n (cpar y))) in *.
  assert (Hex : forall p, exited s' p = exited (cpar y) p) by (apply pgrow_exited; exact PG).
  assert (Heo : forall p, exit_of s' p = exit_of (cpar y) p) by (apply pgrow_exit_of; exact PG).
  assert (Hfrex : forall p, In p fr -> exited (cpar y) p = false).
  { intros p Hin. apply in_fresh in Hin. destruct (exited (cpar y) p) eqn:He; [|reflexivity].
    apply exited_valid in He. lia. }
  assert (Hfrnp : forall p, In p fr -> in_pool (cpar y) p = false).
  { intros p Hin. apply in_fresh in Hin. destruct (in_pool (cpar y) p) eqn:Hip; [|reflexivity].
    apply memZ_In in Hip. destruct Hw as [_ Hv]. specialize (Hv p Hip). lia. }
  assert (Hip' : forall p, in_pool s' p = (in_pool (cpar y) p && negb (exited (cpar y) p)) || memZ p fr).
  { intros p. unfold in_pool at 1. rewrite W. unfold memZ at 1. rewrite existsb_app.
    fold (memZ p (kept (cpar y))). fold (memZ p fr). rewrite memZ_kept. reflexivity. }
  assert (Hdeadout : forall p, exited (cpar y) p = true -> in_pool s' p = false).
  { intros p He. rewrite Hip', He, andb_false_r. cbn [orb]. destruct (memZ p fr) eqn:Em; [|reflexivity].
    apply memZ_In in Em. rewrite (Hfrex p Em) in He. discriminate. }
  assert (Hlivein : forall p, in_pool (cpar y) p = true -> exited (cpar y) p = false -> in_pool s' p = true).
  { intros p A B. rewrite Hip', A, B. reflexivity. }
  assert (Hnews : filter (fun p => negb (in_pool (cpar y) p)) (wlist s') = fr).
  { rewrite W, filter_app. rewrite filter_none, filter_all; [reflexivity| |].
    - intros p Hin. rewrite (Hfrnp p Hin). reflexivity.
    - intros p Hin. unfold kept in Hin. apply filter_In in Hin. destruct Hin as [Hin _].
      apply memZ_In in Hin. unfold in_pool. rewrite Hin. reflexivity. }
  rewrite Hnews.
  assert (JM : forall k, get_job s' k = option_map (tick_class (cpar y)) (get_job (cpar y) k)).
  { intros k. rewrite (get_job_map _ _ _ J). destruct (get_job (cpar y) k) as [x|] eqn:Hx; [|reflexivity].
    cbn [option_map]. rewrite (tick_job_class n y k x H Hd Hx). reflexivity. }
  assert (Hinv : forall k x', get_job s' k = Some x' ->
                              exists x, get_job (cpar y) k = Some x /\ x' = tick_class (cpar y) x).
  { intros k x'. rewrite JM. destruct (get_job (cpar y) k) as [x|]; [|discriminate]. cbn. intros E0; inversion E0. eauto. }
  assert (Hun1 : forall k, cunres s' k = true -> cunres (cpar y) k = true).
  { intros k. unfold cunres. rewrite JM. destruct (get_job (cpar y) k) as [x|]; [|discriminate]. cbn [option_map].
    intros Hr. apply negb_true_iff in Hr. destruct (tick_class_unres _ _ Hr) as (Hr0 & _). rewrite Hr0. reflexivity. }
  assert (Hfail : forall k, cunres (cpar y) k = true -> cunres s' k = false -> (1 <= pcnt k (losts (clost y)))%nat).
  { intros k Hu Hu'. destruct (cunres_job _ _ Hu) as (x & Hx & Hr). unfold cunres in Hu'. rewrite JM, Hx in Hu'.
    cbn [option_map] in Hu'. apply negb_false_iff in Hu'.
    destruct (tick_class_cases (cpar y) x) as [E1|[(_ & p & _ & _ & _ & E1)|(_ & t & c & Hw1 & _ & _)]].
    - rewrite E1 in Hu'. congruence.
    - rewrite E1 in Hu'. cbn in Hu'. congruence.
    - destruct (Hmark k x t c Hx Hr Hw1) as (p & Hin & _). apply (pcnt_in k p). apply in_losts. eauto. }
  set (lost' := filter (fun d => cunres s' (lost_job d)) (clost y)).
  set (y' := mkcs s' (cbad y) (ctodo y) (ctaskq y) (cinq y) (cwk y ++ map (fun p => (p, None)) fr) (coutq y)
                  lost' (ckills y)).
  assert (Hrun' : running (cwk y ++ map (fun p => (p, None)) fr) = running (cwk y))
    by (rewrite running_app, running_idles, app_nil_r; reflexivity).
  assert (Hpc : forall k, pcnt k (started y')
                          = (pcnt k (running (cwk y)) + pcnt k (creadys (coutq y))
                             + if cunres s' k then pcnt k (losts (clost y)) else 0)%nat).
  { intros k. rewrite pcnt_started. unfold y'; cfields. rewrite Hrun'. unfold lost'.
    rewrite (pcnt_losts_filter (cunres s')). reflexivity. }
  assert (Hl' : forall p k c, In (p, k, c) lost' <-> In (p, k, c) (clost y) /\ cunres s' k = true).
  { intros. unfold lost'. apply (lost_in_filter (cunres s')). }
  assert (Hsi : forall k p, cunres s' k = true -> In (k, p) (started y) -> In (k, p) (started y')).
  { intros k p Hu. rewrite !in_started. unfold y'; cfields. rewrite Hrun'. intros [A|[A|A]]; [tauto|tauto|].
    right. right. apply in_losts in A. destruct A as [c A]. apply in_losts. exists c. apply Hl'. auto. }
  assert (Hur' : unreaped y' = []).
  { unfold unreaped, y'. cfields. apply filter_none. intros [[p k] c] Hin. apply Hl' in Hin. destruct Hin as [Hin _].
    unfold lost_pid. cbn [fst]. apply Hdeadout. exact (proj1 (Hlost p k c Hin)). }
  pose proof (value_iter_release (length (reaped (cpar y))) (sem (cpar y)) (proj2 Hnn)) as Hval.
  pose proof (proj1 (bound_iter_release (length (reaped (cpar y))) (sem (cpar y)))) as Hbd.
  constructor; unfold y'; cfields; fold y'.
  - intros k. rewrite cnt_ctokens, Hpc. unfold y'; cfields. specialize (Ht k). rewrite cnt_ctokens, pcnt_started in Ht.
    destruct (cunres s' k) eqn:Hu'.
    + rewrite (Hun1 k Hu') in Ht. cbn [one] in *. lia.
    + destruct (cunres (cpar y) k) eqn:Hu.
      * pose proof (Hfail k Hu Hu'). cbn [one] in *. lia.
      * cbn [one] in *. lia.
  - intros k x' Hg. destruct (Hinv k x' Hg) as (x & Hx & ->). destruct (Hj k x Hx) as (A & B & C & D & E0 & F).
    destruct (tick_class_cases (cpar y) x) as [E1|[(Hr0 & p & Hwp1 & Hwl1 & He1 & E1)|(Hr0 & t & c & Hwl1 & Hdue & E1)]];
      rewrite E1.
    + unfold CJ, y'; cfields. rewrite DF. repeat (split; [assumption|]). intros Hr.
      destruct (F Hr) as [G|(p0 & t & G1 & G2 & G3 & G4 & G5 & G6 & G7 & G8)]; [left; exact G|right].
      exists p0, t. rewrite Heo, Hex, (Hdeadout p0 G7). auto 10.
    + unfold CJ, y'; cfields. rewrite DF.
      cbn [jid kind lost_timeout wp accepted ready incache value cb_succ cb_err j_set_lost].
      repeat (split; [assumption|]). intros Hr. congruence.
    + destruct (Hmark k x t c Hx Hr0 Hwl1) as (p0 & Hin & Hip0 & _).
      destruct (Hlost p0 k c Hin) as (He0 & Hc0 & _ & D'). destruct (D' Hip0) as (x0 & t0 & Hx0 & _ & Hwp0).
      assert (x0 = x) by congruence. subst x0.
      assert (Hacc : accepted x = true) by (destruct D as [[D1 _]|(q & _ & D2)]; [congruence|exact D2]).
      destruct (E0 Hr0) as (_ & _ & Hcs & Hce).
      unfold CJ, y'; cfields. rewrite DF. unfold apply_set. rewrite Hr0.
      cbn [jid kind lost_timeout wp accepted ready incache value cb_succ cb_err worker_lost payload_success].
      split; [exact A|]. split; [exact B|]. split; [exact C|]. split; [exact D|]. split; [intros; discriminate|].
      intros _. right. exists p0, t. rewrite Heo, Hex, Hc0, He0, (Hdeadout p0 He0), Hacc, A, Hcs, Hce, Hwl1. auto 10.
  - exact Hm.
  - intros m Hin. apply Hlivein; [apply Hpi; exact Hin|].
    pose proof (drained_spec _ _ Hd m Hin) as Hdu. unfold dead_unreaped in Hdu.
    rewrite (Hpi m Hin), andb_true_r in Hdu. exact Hdu.
  - intros k p Hin. destruct (Hac k p Hin) as [[x Hx] B]. split; [rewrite JM, Hx; cbn; eauto|].
    intros Hu. apply Hsi; [exact Hu|]. apply B. apply Hun1. exact Hu.
  - intros k x' Hg Hr. destruct (Hinv k x' Hg) as (x & Hx & ->).
    destruct (tick_class_unres _ _ Hr) as (Hr0 & Ha & _). rewrite Ha, Hpc.
    assert (Hu : cunres s' k = true) by (rewrite (job_cunres _ _ _ Hg), Hr; reflexivity). rewrite Hu.
    specialize (Hacs k x Hx Hr0). rewrite pcnt_started in Hacs. exact Hacs.
  - intros k x' p Hg Hr Hin. destruct (Hinv k x' Hg) as (x & Hx & ->).
    destruct (tick_class_unres _ _ Hr) as (Hr0 & _ & Hw1 & _). rewrite Hw1 in Hin.
    assert (Hu : cunres s' k = true) by (rewrite (job_cunres _ _ _ Hg), Hr; reflexivity).
    apply Hsi; [exact Hu|]. eapply Hwp; eauto.
  - intros k x' t c Hg Hr Hwl. destruct (Hinv k x' Hg) as (x & Hx & ->).
    assert (Hu : cunres s' k = true) by (rewrite (job_cunres _ _ _ Hg), Hr; reflexivity).
    destruct (tick_class_unres _ _ Hr) as (Hr0 & _ & _ & [E1|(p & Hwp1 & Hwl1 & He1 & E1)]); rewrite E1 in Hwl.
    + destruct (Hmark k x t c Hx Hr0 Hwl) as (p0 & Hin & Hip0 & Ht0). exists p0.
      split; [apply Hl'; split; assumption|]. split; [apply Hdeadout; exact (proj1 (Hlost p0 k c Hin))|].
      rewrite NW. exact Ht0.
    + cbn [worker_lost j_set_lost] in Hwl. inversion Hwl; subst t c.
      destruct (owner_place n y k x p H Hx Hr0 Hwp1) as [(_ & _ & He)|[(Hcr & Hip)|(c & Hin & _ & Hc)]].
      * congruence.
      * exfalso. apply in_creadys in Hcr. destruct Hcr as (ok & t & Hmm).
        pose proof (drained_spec _ _ Hd _ Hmm) as Hdu. unfold dead_unreaped in Hdu. cbn [msg_pid] in Hdu.
        rewrite Hip, He1 in Hdu. discriminate.
      * exists p. split; [apply Hl'; rewrite Hc; split; assumption|]. split; [apply Hdeadout; exact He1|].
        rewrite NW. lia.
  - intros p k c Hin. apply Hl' in Hin. destruct Hin as [Hin Hu]. destruct (Hlost p k c Hin) as (A & B & C & D).
    rewrite Hex, Heo. split; [exact A|]. split; [exact B|]. split; [exact Hu|]. intros _.
    destruct (in_pool (cpar y) p) eqn:Hip.
    + destruct (unreaped_acked n y p k c H Hd Hin Hip) as (x & Hx & Hr & Hwl & Hwpx).
      exists (j_set_lost x (Some (now (cpar y), exit_of (cpar y) p))), (now (cpar y)).
      rewrite JM, Hx. cbn [option_map]. unfold tick_class. rewrite Hr, Hwl, Hwpx, A.
      split; [reflexivity|]. cbn [worker_lost wp j_set_lost]. rewrite B. split; [reflexivity|exact Hwpx].
    + destruct (D eq_refl) as (x & t & Hx & Hwl & Hwpx). exists x, t. rewrite JM, Hx. cbn [option_map].
      split; [|auto]. f_equal.
      unfold cunres in Hu. rewrite JM, Hx in Hu. cbn [option_map] in Hu. apply negb_true_iff in Hu.
      destruct (tick_class_unres _ _ Hu) as (_ & _ & _ & [E1|(p' & _ & Hwl' & _)]); [exact E1|congruence].
  - rewrite map_app, map_map. cbn [fst]. rewrite map_id, Hwk0. unfold kept at 2. rewrite W, filter_app. f_equal.
    + symmetry. apply filter_all. intros p Hin. rewrite Hex. unfold kept in Hin. apply filter_In in Hin. tauto.
    + symmetry. apply filter_all. intros p Hin. rewrite Hex, (Hfrex p Hin). reflexivity.
  - rewrite Hur', W, !app_length, map_length. cbn [length]. lia.
  - rewrite W, app_length, NP. unfold fr, fresh_pids. rewrite map_length, seq_length, Hmn. lia.
  - exact PS.
  - exact MR.
  - eapply pgrow_nojt; eauto.
  - exact Hww.
  - rewrite SE. lia.
  - rewrite PU, SE. intros Ep. specialize (Hsem Ep). unfold slot_holders in *. rewrite Hur'.
    unfold y'; cfields. rewrite Hrun'. cbn [length]. lia.
  - rewrite SE, Hbd, NP. exact Hbound.
  - rewrite J, map_length. exact Hn.
Qed.

(* the pass is always possible (it never raises: no restart limiter) *)
Lemma tick_to_enabled n y : CInv n y -> exists y', tick_to y = Some y'.
Proof.
  intros H. destruct (ctick_spec (cpar y) (v_st n y H) (v_maxr n y H)) as (s' & E & _); [rewrite (v_size n y H); lia|].
  unfold tick_to. rewrite E. eauto.
Qed.

Lemma cinv_tick n y y' : CInv n y -> crash_step y CTick = Some y' -> CInv n y'.
Proof.
  intros H. cbn [crash_step]. destruct (drained (cpar y) (coutq y)) eqn:Hd; [|discriminate].
  apply cinv_tick_to; assumption.
Qed.

(* ================================================================== E. reachable states *)
(* every step but the racy pass keeps the invariant *)
Theorem cinv_step n y a y' : CInv n y -> is_early a = false -> crash_step y a = Some y' -> CInv n y'.
Proof.
  intros H He Hs. destruct a; try discriminate.
  - eapply cinv_submit; eauto.
  - eapply cinv_put; eauto.
  - eapply cinv_take; eauto.
  - eapply cinv_finish; eauto.
  - eapply cinv_recv; eauto.
  - eapply cinv_kill; eauto.
  - eapply cinv_tick; eauto.
  - eapply cinv_advance; eauto.
Qed.

(* ---- the initial state *)
Lemma start_n_more : forall k i s,
    wlist (start_n k i s) = wlist s ++ fresh_pids s k
    /\ pgrow s (start_n k i s) /\ nprocs (start_n k i s) = nprocs s /\ dflt_lost (start_n k i s) = dflt_lost s.
Proof.
  induction k as [|k IH]; intros i s; cbn [start_n].
  - unfold fresh_pids. cbn [seq map]. rewrite app_nil_r. split; [reflexivity|]. split; [apply pgrow_refl|auto].
  - destruct (IH (i + 1) (start_worker s i)) as (A & B & C & D). rewrite A, C, D.
    split; [|split; [eapply pgrow_trans; [apply pinfo_start_worker|exact B]|auto]].
    unfold fresh_pids. cbn [wlist procs start_worker]. rewrite app_length. cbn [length seq map].
    rewrite <- app_assoc. cbn [app]. rewrite Nat.add_1_r. reflexivity.
Qed.

Lemma get_job_nil s k : jobs s = [] -> get_job s k = None.
Proof. intros H. unfold get_job. rewrite H. destruct (k <? 0); [reflexivity|]. destruct (Z.to_nat k); reflexivity. Qed.

Lemma cinv_init c n bd kills : 1 <= c_n c -> c_maxr c = None -> CInv n (cinit c n bd kills).
Proof.
  intros Hn Hm. unfold cinit.
  pose proof (WInv_init c ltac:(lia)) as Hw. pose proof (rst_init c) as Hr.
  unfold init in *.
  match goal with |- context [start_n ?k ?i ?s0] =>
    destruct (start_n_frame k i s0) as (A & B & C & D); destruct (start_n_more k i s0) as (W & PG & NP & DF);
    remember (start_n k i s0) as s eqn:Es; pose (z0 := s0) end.
  unfold fresh_pids in W. cbn [jobs sem pstate putlocks wlist nprocs dflt_lost procs length app] in A, B, C, D, W, NP, DF.
  change (pgrow z0 s) in PG.
  assert (Hp0 : forall q, pinfo z0 q = None).
  { intros q. unfold pinfo, get_proc, z0. cbn [procs]. destruct (q <? 0); [reflexivity|]. destruct (Z.to_nat q); reflexivity. }
  assert (Hex : forall p, exited s p = false).
  { intros p. rewrite exited_pinfo. destruct (PG p) as [E|[_ E]]; rewrite E, ?Hp0; reflexivity. }
  assert (Hg : forall k, get_job s k = None) by (intros k; apply get_job_nil; exact A).
  assert (Hu : forall k, cunres s k = false) by (intros k; unfold cunres; rewrite Hg; reflexivity).
  assert (Hkept : kept s = wlist s) by (unfold kept; apply filter_all; intros p _; rewrite Hex; reflexivity).
  assert (Hlen : length (wlist s) = Z.to_nat (c_n c)).
  { rewrite W. rewrite map_length, seq_length. reflexivity. }
  clear Es. constructor; cfields.
  - intros j. rewrite cnt_ctokens, Hu. cfields. unfold started. cfields. rewrite running_idles. reflexivity.
  - intros k x. rewrite Hg. discriminate.
  - intros j p ok t [].
  - intros m [].
  - intros k p [].
  - intros k x. rewrite Hg. discriminate.
  - intros k x p. rewrite Hg. discriminate.
  - intros k x t c0. rewrite Hg. discriminate.
  - intros p k c0 [].
  - rewrite map_map. cbn [fst]. rewrite map_id. symmetry. exact Hkept.
  - rewrite map_length. unfold unreaped. cfields. cbn [filter length]. lia.
  - rewrite Hlen, NP. lia.
  - rewrite C. reflexivity.
  - rewrite Hr. cbn. exact Hm.
  - intros p i Hi. destruct (PG p) as [E|[_ E]]; rewrite E, ?Hp0 in Hi; [discriminate|]. inversion Hi. reflexivity.
  - exact Hw.
  - rewrite B. cbn. lia.
  - intros _. rewrite B. unfold slot_holders, unreaped. cfields. rewrite running_idles. cbn. lia.
  - rewrite B, NP. cbn. lia.
  - rewrite A. reflexivity.
Qed.

(* reachable: with any step / without the racy pass *)
Inductive creachE (c : config) (n : nat) : csys -> Prop :=
| cre_init bd kills : creachE c n (cinit c n bd kills)
| cre_step y a y' : creachE c n y -> crash_step y a = Some y' -> creachE c n y'.

Inductive creach (c : config) (n : nat) : csys -> Prop :=
| cr_init bd kills : creach c n (cinit c n bd kills)
| cr_step y a y' : creach c n y -> is_early a = false -> crash_step y a = Some y' -> creach c n y'.

Lemma creach_creachE c n y : creach c n y -> creachE c n y.
Proof. induction 1; [constructor|econstructor; eauto]. Qed.

Theorem creach_inv c n y : 1 <= c_n c -> c_maxr c = None -> creach c n y -> CInv n y.
Proof.
  intros Hn Hm H. induction H as [bd kills|y a y' _ IH He Hs]; [apply cinv_init; assumption|].
  eapply cinv_step; eauto.
Qed.

Lemma tick_to_par y y' : tick_to y = Some y' -> cpar y' = fst (step (cpar y) ETick).
Proof.
  unfold tick_to. destruct (step (cpar y) ETick) as [s' r]. destruct r; try discriminate.
  intros E; inversion E; reflexivity.
Qed.

(* every parent transition is a Pool.step: the parent after a step is the parent before it run on
   the events of the step *)
Lemma step_par y a y' :
  crash_step y a = Some y' -> cpar y' = run_from (cpar y) (cevent y a).
Proof.
  destruct a; cbn [crash_step cevent].
  - destruct (ctodo y); [discriminate|].
    destruct (step (cpar y) (EApply None None None None)) as [s' r] eqn:E.
    destruct r; try discriminate. intros H; inversion H; subst y'. cbn [cpar run_from fold_left]. rewrite E. reflexivity.
  - destruct (ctaskq y); [discriminate|]. intros H; inversion H; reflexivity.
  - destruct (wk_get (cwk y) p) as [[?|]|]; try discriminate. destruct (cinq y); [discriminate|].
    intros H; inversion H. destruct (coutq y) as [|[]]; reflexivity.
  - destruct (wk_get (cwk y) p) as [[?|]|]; try discriminate. intros H; inversion H.
    destruct (coutq y) as [|[]]; reflexivity.
  - destruct (coutq y) as [|[j p|j p ok t] r]; [discriminate| |]; intros H; inversion H; reflexivity.
  - destruct (ckills y); [discriminate|]. destruct (wk_get (cwk y) p) as [[?|]|]; try discriminate.
    intros H; inversion H. destruct (coutq y) as [|[]]; reflexivity.
  - destruct (drained (cpar y) (coutq y)); [|discriminate]. intros H. rewrite (tick_to_par _ _ H).
    destruct (coutq y) as [|[]]; reflexivity.
  - destruct (drained (cpar y) (coutq y)); [discriminate|]. intros H. rewrite (tick_to_par _ _ H).
    destruct (coutq y) as [|[]]; reflexivity.
  - destruct (0 <? d); [|discriminate]. intros H; inversion H. destruct (coutq y) as [|[]]; reflexivity.
Qed.

Lemma run_from_app s tr tr' : run_from s (tr ++ tr') = run_from (run_from s tr) tr'.
Proof. unfold run_from. apply fold_left_app. Qed.

Lemma crun_par : forall sched y y', crun y sched = Some y' -> cpar y' = run_from (cpar y) (cevents_of y sched).
Proof.
  induction sched as [|a r IH]; intros y y'; cbn [crun cevents_of].
  - intros H; inversion H; reflexivity.
  - destruct (crash_step y a) as [y1|] eqn:E; [|discriminate]. intros H.
    rewrite run_from_app, <- (step_par _ _ _ E). apply IH. exact H.
Qed.

(* the parent of every reachable state (racy passes included) is a state of the open pool model:
   everything proved about [run c tr] holds of it *)
Theorem creachE_is_run c n y : creachE c n y -> exists tr, cpar y = run c tr.
Proof.
  intros H. induction H as [bd kills|y a y' _ (tr & IH) Hs]; [exists []; reflexivity|].
  exists (tr ++ cevent y a). rewrite (step_par _ _ _ Hs), IH. unfold run, run_from. rewrite fold_left_app. reflexivity.
Qed.

Theorem creach_is_run c n y : creach c n y -> exists tr, cpar y = run c tr.
Proof. intros H. apply (creachE_is_run c n). apply creach_creachE. exact H. Qed.

Lemma crun_reach c n : forall sched y y', creach c n y -> no_early sched -> crun y sched = Some y' -> creach c n y'.
Proof.
  induction sched as [|a r IH]; intros y y' Hy Hne; cbn [crun].
  - intros H; inversion H; subst; exact Hy.
  - destruct (crash_step y a) as [y1|] eqn:E; [|discriminate]. apply IH.
    + eapply cr_step; eauto. apply Hne. left. reflexivity.
    + intros b Hb. apply Hne. right. exact Hb.
Qed.

Lemma crun_inv n : forall sched y y', CInv n y -> no_early sched -> crun y sched = Some y' -> CInv n y'.
Proof.
  induction sched as [|a r IH]; intros y y' Hy Hne; cbn [crun].
  - intros H; inversion H; subst; exact Hy.
  - destruct (crash_step y a) as [y1|] eqn:E; [|discriminate]. apply IH.
    + eapply cinv_step; eauto. apply Hne. left. reflexivity.
    + intros b Hb. apply Hne. right. exact Hb.
Qed.

(* ================================================================== F. what an ordinary pass does *)
Lemma tick_to_facts n y y' :
  CInv n y -> drained (cpar y) (coutq y) = true -> tick_to y = Some y' ->
  (forall k, get_job (cpar y') k = option_map (tick_class (cpar y)) (get_job (cpar y) k))
  /\ (forall p, exited (cpar y) p = true -> in_pool (cpar y') p = false)
  /\ (forall p, exited (cpar y') p = exited (cpar y) p) /\ (forall p, exit_of (cpar y') p = exit_of (cpar y) p)
  /\ now (cpar y') = now (cpar y) /\ dflt_lost (cpar y') = dflt_lost (cpar y)
  /\ cbad y' = cbad y /\ ctodo y' = ctodo y /\ ctaskq y' = ctaskq y /\ cinq y' = cinq y /\ coutq y' = coutq y
  /\ ckills y' = ckills y
  /\ running (cwk y') = running (cwk y)
  /\ clost y' = filter (fun d => cunres (cpar y') (lost_job d)) (clost y).
Proof.
  intros H Hd.
  destruct (ctick_spec (cpar y) (v_st n y H) (v_maxr n y H)) as (s' & E & W & PL & J & SE & PS & MR & PU & DF & NW & NP & PG);
    [rewrite (v_size n y H); lia|].
  unfold tick_to. rewrite E. intros E'; inversion E'; subst y'; clear E'. cfields.
  split.
  { intros k. rewrite (get_job_map _ _ _ J). destruct (get_job (cpar y) k) as [x|] eqn:Hx; [|reflexivity].
    cbn [option_map]. rewrite (tick_job_class n y k x H Hd Hx). reflexivity. }
  split.
  { intros p He. unfold in_pool. rewrite W. unfold memZ. rewrite existsb_app.
    fold (memZ p (kept (cpar y))). rewrite memZ_kept, He, andb_false_r. cbn [orb].
    match goal with |- ?b = false => destruct b eqn:Em; [|reflexivity] end.
    apply existsb_exists in Em. destruct Em as (q & Hq & Eq). assert (q = p) by lia. subst q.
    apply in_fresh in Hq. apply exited_valid in He. lia. }
  split; [apply pgrow_exited; exact PG|]. split; [apply pgrow_exit_of; exact PG|].
  repeat (split; [first [assumption|reflexivity]|]).
  split; [|reflexivity]. rewrite running_app, running_idles, app_nil_r. reflexivity.
Qed.

(* ================================================================== G. liveness *)
(* ---- the measure *)
Definition jwl (s : pool) (k : Z) : option (Z * Z) :=
  match get_job s k with
  | Some x => match worker_lost x with Some (t, _) => Some (t, lost_timeout x) | None => None end
  | None => None
  end.

Lemma rem_grace_jwl s k :
  rem_grace s k = match jwl s k with Some (t, l) => Z.to_nat (l + 1 - (now s - t)) | None => 0%nat end.
Proof.
  unfold rem_grace, jwl. destruct (get_job s k) as [x|]; [|reflexivity]. destruct (worker_lost x) as [[t c]|]; reflexivity.
Qed.

Lemma lost_weight_eq s s' d :
  in_pool s' (lost_pid d) = in_pool s (lost_pid d) -> dflt_lost s' = dflt_lost s -> now s' = now s ->
  jwl s' (lost_job d) = jwl s (lost_job d) -> lost_weight s' d = lost_weight s d.
Proof.
  intros A B C D. unfold lost_weight, grace. rewrite A, B, !rem_grace_jwl, C, D. reflexivity.
Qed.

Lemma lsum_eq s s' l :
  (forall d, In d l -> lost_weight s' d = lost_weight s d) ->
  list_sum (map (lost_weight s') l) = list_sum (map (lost_weight s) l).
Proof. intros H. f_equal. apply map_ext_in. exact H. Qed.

Lemma jwl_jmap s s' (F : Z -> job -> job) :
  (forall k, get_job s' k = option_map (F k) (get_job s k)) ->
  (forall k x, worker_lost (F k x) = worker_lost x /\ lost_timeout (F k x) = lost_timeout x) ->
  forall k, jwl s' k = jwl s k.
Proof.
  intros JM HF k. unfold jwl. rewrite JM. destruct (get_job s k) as [x|]; [|reflexivity]. cbn [option_map].
  destruct (HF k x) as [A B]. rewrite A, B. reflexivity.
Qed.

Lemma jwl_same_jobs s s' : jobs s' = jobs s -> forall k, jwl s' k = jwl s k.
Proof. intros H k. unfold jwl. rewrite !get_job_gj, H. reflexivity. Qed.

Lemma readyf_fields j pl k z :
  worker_lost (readyf j pl k z) = worker_lost z /\ lost_timeout (readyf j pl k z) = lost_timeout z.
Proof. unfold readyf. destruct ((k =? j) && incache z); [|auto]. unfold apply_set. destruct (ready z); auto. Qed.

Lemma lost_weight_pos s d : (1 <= lost_weight s d)%nat.
Proof. unfold lost_weight. destruct (in_pool s (lost_pid d)); lia. Qed.

Lemma wk_in_get w p o : NoDup (map fst w) -> In (p, o) w -> wk_get w p = Some o.
Proof.
  induction w as [|[q oq] w IH]; intros Hnd Hin; [destruct Hin|].
  cbn [map fst] in Hnd. inversion Hnd as [|? ? Hni Hnd']; subst. unfold wk_get. cbn [find fst].
  destruct Hin as [E|Hin].
  - inversion E; subst. rewrite Z.eqb_refl. reflexivity.
  - destruct (Z.eqb_spec q p) as [->|Hne].
    + exfalso. apply Hni. apply in_map_iff. exists (p, o). split; [reflexivity|exact Hin].
    + apply IH; assumption.
Qed.

Lemma in_jobs_get s x : In x (jobs s) -> exists k, get_job s k = Some x.
Proof.
  intros H. apply In_nth_error in H. destruct H as [i Hi]. exists (Z.of_nat i). unfold get_job.
  replace (Z.of_nat i <? 0) with false by lia. rewrite Nat2Z.id. exact Hi.
Qed.

Lemma get_in_jobs s k x : get_job s k = Some x -> In x (jobs s).
Proof. unfold get_job. destruct (k <? 0); [discriminate|]. apply nth_error_In. Qed.

(* every step other than the racy pass, taken when it has a point, decreases the measure *)
Theorem cstep_decreases n y a y' :
  CInv n y -> is_early a = false -> useful y a = true -> crash_step y a = Some y' ->
  (cmeasure y' < cmeasure y)%nat.
Proof.
  intros H He Hu Hs.
  pose proof H as [Ht Hj Hm Hpi Hac Hacs Hwp Hmark Hlost Hwk0 Hcnt Hsize Hst Hmaxr Hjt Hw Hnn Hsem Hbound Hn].
  destruct a; try discriminate; cbn [crash_step] in Hs.
  - (* submit *)
    destruct (ctodo y) as [|td] eqn:Etd; [discriminate|].
    destruct (step (cpar y) (EApply None None None None)) as [s' r] eqn:Est.
    destruct r; try discriminate. inversion Hs; subst y'; clear Hs.
    destruct (capply_spec _ _ (proj1 Hnn) Est) as (PF & NW & Hp0 & Hjobs & _).
    set (jn := Z.of_nat (length (jobs (cpar y)))) in *.
    assert (Hjw : forall k, jwl s' k = jwl (cpar y) k).
    { intros k. unfold jwl. rewrite !get_job_gj, Hjobs, gj_app_new. fold jn.
      destruct (Z.eqb_spec k jn) as [->|Hne]; [|reflexivity]. unfold jn. rewrite gj_fresh. reflexivity. }
    unfold cmeasure, cwork, grace. cfields. rewrite Etd, (pf_dflt _ _ PF), app_length.
    rewrite (lsum_eq (cpar y) s') by (intros d _; apply lost_weight_eq;
      [apply (pframe_in_pool _ _ PF)|apply (pf_dflt _ _ PF)|exact NW|apply Hjw]).
    cbn [length]. lia.
  - (* put *)
    destruct (ctaskq y) as [|j r] eqn:Eq; [discriminate|]. inversion Hs; subst y'; clear Hs.
    unfold cmeasure, cwork. cfields. rewrite Eq, app_length. cbn [length]. lia.
  - (* take *)
    destruct (wk_get (cwk y) p) as [[?|]|] eqn:Eg; try discriminate.
    destruct (cinq y) as [|j r] eqn:Eq; [discriminate|]. inversion Hs; subst y'; clear Hs.
    destruct (wk_split _ _ _ Eg (wk_nodup n y H)) as (w1 & w2 & Ew & Es & Ed).
    unfold cmeasure, cwork. cfields. rewrite Es, Ew, Eq, !running_app, running_busy, running_idle, !app_length.
    cbn [length]. lia.
  - (* finish *)
    destruct (wk_get (cwk y) p) as [[j|]|] eqn:Eg; try discriminate. inversion Hs; subst y'; clear Hs.
    destruct (wk_split _ _ _ Eg (wk_nodup n y H)) as (w1 & w2 & Ew & Es & Ed).
    unfold cmeasure, cwork. cfields. rewrite Es, Ew, !running_app, running_busy, running_idle, !app_length.
    cbn [length]. lia.
  - (* recv *)
    destruct (coutq y) as [|[j p|j p ok t] r] eqn:Eq; [discriminate| |]; inversion Hs; subst y'; clear Hs.
    + destruct (cack_spec (cpar y) j p) as (PF & NW & SE & JL & JM).
      { intros x Hx. exact (proj1 (proj2 (Hj j x Hx))). }
      unfold cmeasure, cwork, grace. cfields. rewrite (pf_dflt _ _ PF).
      rewrite (lsum_eq (cpar y) (fst (step (cpar y) (EAck j None p)))).
      * rewrite Eq. cbn [length]. lia.
      * intros d _. apply lost_weight_eq; [apply (pframe_in_pool _ _ PF)|apply (pf_dflt _ _ PF)|exact NW|].
        apply (jwl_jmap _ _ _ JM). intros k x. destruct (ackf_fields (cpar y) j p k x) as (_ & _ & _ & _ & A & B & _). auto.
    + destruct (cready_spec (cpar y) j ok t) as (PF & NW & SE & JL & JM).
      { intros x Hx. exact (proj1 (proj2 (Hj j x Hx))). }
      unfold cmeasure, cwork, grace. cfields. rewrite (pf_dflt _ _ PF).
      rewrite (lsum_eq (cpar y) (fst (step (cpar y) (EReady j None ok t)))).
      * rewrite Eq. cbn [length]. lia.
      * intros d _. apply lost_weight_eq; [apply (pframe_in_pool _ _ PF)|apply (pf_dflt _ _ PF)|exact NW|].
        apply (jwl_jmap _ _ _ JM). intros k x. apply readyf_fields.
  - (* kill *)
    destruct (ckills y) as [|kk] eqn:Ek; [discriminate|].
    destruct (wk_get (cwk y) p) as [[j|]|] eqn:Eg; try discriminate. inversion Hs; subst y'; clear Hs.
    destruct (wk_split _ _ _ Eg (wk_nodup n y H)) as (w1 & w2 & Ew & Es & Ed).
    destruct (cexit_spec (cpar y) p code) as (P1 & P2 & P3 & P4 & P5 & P6 & P7 & P8 & P9 & P10 & P11).
    set (s' := fst (step (cpar y) (EExit p code))) in *.
    assert (Hpin : In p (map fst (cwk y))).
    { apply wk_get_in in Eg. apply in_map_iff. exists (p, Some j). split; [reflexivity|exact Eg]. }
    destruct (live_worker n y p H Hpin) as [Hlp _].
    assert (Hip : forall q, in_pool s' q = in_pool (cpar y) q) by (intros q; unfold in_pool; rewrite P3; reflexivity).
    assert (Hwe : forall d, lost_weight s' d = lost_weight (cpar y) d).
    { intros d. apply lost_weight_eq; [apply Hip|exact P5|exact P7|apply jwl_same_jobs; exact P9]. }
    unfold cmeasure, cwork. cfields. fold s'.
    rewrite map_app, list_sum_app, (lsum_eq (cpar y) s') by (intros d _; apply Hwe).
    cbn [map]. rewrite lsum_cons, lsum_nil, Hwe. unfold lost_weight at 2. unfold lost_pid. cbn [fst]. rewrite Hlp.
    unfold grace. rewrite P5. rewrite Ed, Ew, !running_app, running_busy, !app_length. cbn [length]. lia.
  - (* an ordinary pass that has a point *)
    destruct (drained (cpar y) (coutq y)) eqn:Hd; [|discriminate].
    destruct (tick_to_facts n y y' H Hd Hs) as (JM & Hdead & Hex & Heo & NW & DF & E1 & E2 & E3 & E4 & E5 & E6 & E7 & E8).
    unfold cmeasure, cwork, grace. rewrite E2, E3, E4, E5, E6, E7, E8, DF.
    assert (Hlt : (list_sum (map (lost_weight (cpar y')) (filter (fun d => cunres (cpar y') (lost_job d)) (clost y)))
                   < list_sum (map (lost_weight (cpar y)) (clost y)))%nat).
    { rewrite list_sum_filter.
      assert (Hjob : forall p k c, In (p, k, c) (clost y) ->
                exists x, get_job (cpar y) k = Some x /\ ready x = false
                          /\ get_job (cpar y') k = Some (tick_class (cpar y) x)).
      { intros p k c Hin. destruct (Hlost p k c Hin) as (_ & _ & Hun & _).
        destruct (cunres_job _ _ Hun) as (x & Hx & Hr). exists x. rewrite JM, Hx. auto. }
      assert (Hle : forall d, In d (clost y) ->
                ((if cunres (cpar y') (lost_job d) then lost_weight (cpar y') d else 0) <= lost_weight (cpar y) d)%nat
                /\ ((in_pool (cpar y) (lost_pid d) = true \/ cunres (cpar y') (lost_job d) = false) ->
                    ((if cunres (cpar y') (lost_job d) then lost_weight (cpar y') d else 0) < lost_weight (cpar y) d)%nat)).
      { intros [[p k] c] Hin. unfold lost_job, lost_pid. cbn [fst snd].
        destruct (Hjob p k c Hin) as (x & Hx & Hr & Hx').
        destruct (Hlost p k c Hin) as (Hep & Hcp & _ & D).
        pose proof (lost_weight_pos (cpar y) (p, k, c)) as Hpos.
        destruct (cunres (cpar y') k) eqn:Hu'; [|split; [lia|intros _; lia]].
        unfold lost_weight. unfold lost_pid, lost_job. cbn [fst snd]. rewrite (Hdead p Hep).
        destruct (in_pool (cpar y) p) eqn:Hip.
        - destruct (unreaped_acked n y p k c H Hd Hin Hip) as (x0 & Hx0 & _ & Hwl & Hwpx).
          assert (x0 = x) by congruence. subst x0.
          assert (Hrem : rem_grace (cpar y') k = grace (cpar y)).
          { unfold rem_grace. rewrite Hx'. unfold tick_class. rewrite Hr, Hwl, Hwpx, Hep. cbn [worker_lost lost_timeout j_set_lost].
            rewrite NW. unfold grace. rewrite (proj1 (proj2 (proj2 (Hj k x Hx)))). f_equal. lia. }
          rewrite Hrem. split; [lia|intros _; lia].
        - destruct (D eq_refl) as (x0 & t & Hx0 & Hwl & Hwpx). assert (x0 = x) by congruence. subst x0.
          assert (Hsame : tick_class (cpar y) x = x).
          { unfold cunres in Hu'. rewrite Hx' in Hu'. apply negb_true_iff in Hu'.
            destruct (tick_class_unres _ _ Hu') as (_ & _ & _ & [E0|(p' & _ & Hwl' & _)]); [exact E0|congruence]. }
          assert (Hrem : rem_grace (cpar y') k = rem_grace (cpar y) k).
          { unfold rem_grace. rewrite Hx', Hsame, Hx, NW. reflexivity. }
          rewrite Hrem. split; [lia|]. intros [Hc|Hc]; discriminate. }
      apply list_sum_lt; [intros d Hin; exact (proj1 (Hle d Hin))|].
      cbn [useful] in Hu. unfold useful_tick in Hu. apply orb_true_iff in Hu. destruct Hu as [Hu|Hu].
      2:{ exfalso. lia. }
      apply orb_true_iff in Hu. destruct Hu as [Hu|Hu].
      - (* a worker to reap: some lost job still holds its worker *)
        apply existsb_exists in Hu. destruct Hu as (p & Hpw & Hpe).
        assert (Hre : In p (reaped (cpar y))) by (unfold reaped; apply filter_In; split; [apply -> in_rev; exact Hpw|exact Hpe]).
        pose proof (reaped_kept_length (cpar y)) as Hrk.
        assert (Hkl : length (cwk y) = length (kept (cpar y))) by (rewrite <- Hwk0, map_length; reflexivity).
        destruct (unreaped y) as [|d l] eqn:Eu.
        { exfalso. destruct (reaped (cpar y)); [destruct Hre|]. cbn [length] in *. lia. }
        assert (Hd0 : In d (unreaped y)) by (rewrite Eu; left; reflexivity).
        unfold unreaped in Hd0. apply filter_In in Hd0. destruct Hd0 as [Hd1 Hd2].
        exists d. split; [exact Hd1|]. apply (proj2 (Hle d Hd1)). left. exact Hd2.
      - (* a marked job past its grace period *)
        apply existsb_exists in Hu. destruct Hu as (x & Hxin & Hdue).
        destruct (in_jobs_get _ _ Hxin) as [k Hx].
        unfold lost_due in Hdue. apply andb_true_iff in Hdue. destruct Hdue as [Hdue Hdue2].
        apply andb_true_iff in Hdue. destruct Hdue as [_ Hr]. apply negb_true_iff in Hr.
        destruct (worker_lost x) as [[t c]|] eqn:Hwl; [|discriminate].
        destruct (Hmark k x t c Hx Hr Hwl) as (p & Hin & Hip & _).
        exists (p, k, c). split; [exact Hin|]. apply (proj2 (Hle _ Hin)). right.
        unfold lost_job. cbn [fst snd]. unfold cunres. rewrite JM, Hx. cbn [option_map].
        unfold tick_class. rewrite Hr, Hwl, Hdue2. unfold apply_set. rewrite Hr. reflexivity. }
    lia.
  - (* a wait that has a point *)
    destruct (0 <? d) eqn:Ed; [|discriminate]. inversion Hs; subst y'; clear Hs.
    destruct (cadvance_spec (cpar y) d) as (PF & NW & SE & JE).
    set (s' := fst (step (cpar y) (EAdvance d))) in *.
    unfold cmeasure, cwork, grace. cfields. rewrite (pf_dflt _ _ PF).
    assert (Hlt : (list_sum (map (lost_weight s') (clost y)) < list_sum (map (lost_weight (cpar y)) (clost y)))%nat).
    { assert (Hle : forall dd, In dd (clost y) ->
                (lost_weight s' dd <= lost_weight (cpar y) dd)%nat).
      { intros dd _. unfold lost_weight, grace. rewrite (pframe_in_pool _ _ PF), (pf_dflt _ _ PF).
        destruct (in_pool (cpar y) (lost_pid dd)); [lia|]. rewrite !rem_grace_jwl, (jwl_same_jobs _ _ JE), NW.
        destruct (jwl (cpar y) (lost_job dd)) as [[t l]|]; lia. }
      apply list_sum_lt; [exact Hle|].
      cbn [useful] in Hu. unfold useful_advance in Hu. apply existsb_exists in Hu. destruct Hu as (x & Hxin & Hb).
      destruct (in_jobs_get _ _ Hxin) as [k Hx].
      apply andb_true_iff in Hb. destruct Hb as [Hb Hnd]. apply andb_true_iff in Hb. destruct Hb as [Hb Hmk].
      apply andb_true_iff in Hb. destruct Hb as [Hic Hr]. apply negb_true_iff in Hr. apply negb_true_iff in Hnd.
      unfold is_marked in Hmk. destruct (worker_lost x) as [[t c]|] eqn:Hwl; [|discriminate].
      destruct (Hmark k x t c Hx Hr Hwl) as (p & Hin & Hip & _).
      exists (p, k, c). split; [exact Hin|].
      unfold lost_weight. unfold lost_pid, lost_job. cbn [fst snd]. rewrite (pframe_in_pool _ _ PF), Hip.
      rewrite !rem_grace_jwl, (jwl_same_jobs _ _ JE), NW. unfold jwl. rewrite Hx, Hwl.
      unfold lost_due in Hnd. rewrite Hic, Hr, Hwl in Hnd. cbn [andb negb] in Hnd. lia. }
    lia.
Qed.

(* ---- every schedule whose passes and waits have a point is finite *)
Theorem useful_schedules_are_finite n : forall sched y y',
    CInv n y -> no_early sched -> all_useful y sched -> crun y sched = Some y' ->
    (length sched + cmeasure y' <= cmeasure y)%nat.
Proof.
  induction sched as [|a r IH]; intros y y' Hy Hne Hu; cbn [crun length].
  - intros H; inversion H; lia.
  - destruct (crash_step y a) as [y1|] eqn:E; [|discriminate]. intros Hr.
    cbn [all_useful] in Hu. rewrite E in Hu. destruct Hu as [Hu1 Hu2].
    assert (Hea : is_early a = false) by (apply Hne; left; reflexivity).
    pose proof (cstep_decreases n y a y1 Hy Hea Hu1 E) as Hd.
    assert (Hy1 : CInv n y1) by (eapply cinv_step; eauto).
    specialize (IH y1 y' Hy1 (fun b Hb => Hne b (or_intror Hb)) Hu2 Hr). lia.
Qed.

Lemma cmeasure_init c n bd kills :
  cmeasure (cinit c n bd kills) = (6 * n + kills * (grace (init c) + 3))%nat.
Proof.
  unfold cmeasure, cwork, cinit. cfields. rewrite running_idles. cbn [length map]. rewrite lsum_nil. lia.
Qed.

(* at most six steps per job, plus (grace + 3) per crash: three more steps and the wait *)
Theorem useful_schedules_are_short c n bd kills sched y :
  1 <= c_n c -> c_maxr c = None -> no_early sched -> all_useful (cinit c n bd kills) sched ->
  crun (cinit c n bd kills) sched = Some y ->
  (length sched <= 6 * n + kills * (grace (init c) + 3))%nat.
Proof.
  intros Hn Hm Hne Hu Hr.
  pose proof (useful_schedules_are_finite n sched _ _ (cinv_init c n bd kills Hn Hm) Hne Hu Hr) as H.
  rewrite cmeasure_init in H. lia.
Qed.

(* ---- never stuck before the end: while work remains, a step is enabled that is neither a kill
   nor the racy pass, and passes and waits are offered only when they have a point *)
Theorem cprogress n y : CInv n y -> (0 < cwork y)%nat ->
  exists a y', is_early a = false /\ is_kill a = false /\ useful y a = true /\ crash_step y a = Some y'.
Proof.
  intros H Hpos.
  pose proof H as [Ht Hj Hm Hpi Hac Hacs Hwp Hmark Hlost Hwk0 Hcnt Hsize Hst Hmaxr Hjt Hw Hnn Hsem Hbound Hn].
  destruct (coutq y) as [|m r] eqn:Eo.
  2:{ exists CRecv. cbn [crash_step]. rewrite Eo. destruct m; eexists; repeat split; reflexivity. }
  destruct (ctaskq y) as [|j r] eqn:Eq.
  2:{ exists CPut. cbn [crash_step]. rewrite Eq. eexists; repeat split; reflexivity. }
  destruct (running (cwk y)) as [|[j p] rr] eqn:Er.
  2:{ assert (Hin : In (p, Some j) (cwk y)) by (apply in_running; rewrite Er; left; reflexivity).
      exists (CFinish p). cbn [crash_step]. rewrite (wk_in_get _ _ _ (wk_nodup n y H) Hin).
      eexists; repeat split; reflexivity. }
  assert (Hdr : drained (cpar y) (coutq y) = true) by (rewrite Eo; reflexivity).
  destruct (unreaped y) as [|d ul] eqn:Eu.
  2:{ (* a dead worker to reap *)
    assert (Hd0 : In d (unreaped y)) by (rewrite Eu; left; reflexivity).
    unfold unreaped in Hd0. apply filter_In in Hd0. destruct Hd0 as [Hd1 Hd2]. destruct d as [[p k] c].
    unfold lost_pid in Hd2. cbn [fst] in Hd2. destruct (Hlost p k c Hd1) as (Hep & _).
    destruct (tick_to_enabled n y H) as [y' Hy']. exists CTick, y'. cbn [crash_step useful]. rewrite Hdr.
    repeat split; try reflexivity; [|exact Hy']. unfold useful_tick.
    assert (Hx : existsb (exited (cpar y)) (wlist (cpar y)) = true).
    { apply existsb_exists. exists p. split; [apply memZ_In; exact Hd2|exact Hep]. }
    rewrite Hx. reflexivity. }
  assert (Hwkl : length (cwk y) = length (wlist (cpar y))) by (cbn [length] in Hcnt; lia).
  destruct (cwk y) as [|[p o] wr] eqn:Ew; [cbn [length] in Hwkl; lia|].
  assert (Ho : o = None).
  { destruct o as [j|]; [|reflexivity]. rewrite running_busy in Er. discriminate. }
  subst o.
  destruct (cinq y) as [|j r] eqn:Ei.
  2:{ exists (CTake p). cbn [crash_step]. rewrite Ew, Ei. unfold wk_get. cbn [find fst snd]. rewrite Z.eqb_refl.
      eexists; repeat split; reflexivity. }
  destruct (clost y) as [|[[p0 k] c] lr] eqn:El.
  - (* everything is empty: the client has calls left, and a slot is free *)
    assert (Hsh : slot_holders y = 0%nat).
    { unfold slot_holders. rewrite Eq, Ei, Ew, Er, Eo, Eu. reflexivity. }
    destruct (ctodo y) as [|td] eqn:Etd.
    { exfalso. unfold cwork in Hpos. rewrite Etd, Eq, Ei, Ew, Er, Eo, El in Hpos. cbn in Hpos. lia. }
    destruct (capply_enabled (cpar y) Hst) as [s' Hs'].
    { intros Ep. specialize (Hsem Ep). rewrite Hsh in Hsem. lia. }
    exists CSubmit. cbn [crash_step]. rewrite Etd, Hs'. eexists; repeat split; reflexivity.
  - (* only marked jobs remain: a pass if one is past its grace period, else wait *)
    assert (Hin : In (p0, k, c) ((p0, k, c) :: lr)) by (left; reflexivity).
    assert (Hip : in_pool (cpar y) p0 = false).
    { destruct (in_pool (cpar y) p0) eqn:Hip; [exfalso|reflexivity].
      assert (Hu : In (p0, k, c) (unreaped y)) by (unfold unreaped; rewrite ?El; apply filter_In; split; [exact Hin|exact Hip]).
      rewrite Eu in Hu. destruct Hu. }
    destruct (Hlost p0 k c Hin) as (_ & _ & Hun & D). destruct (D Hip) as (x & t & Hx & Hwl & _).
    assert (Hr : ready x = false).
    { rewrite (job_cunres _ _ _ Hx) in Hun. destruct (ready x); [discriminate|reflexivity]. }
    destruct (Hj k x Hx) as (_ & _ & _ & _ & E0 & _). destruct (E0 Hr) as (Hic & _).
    pose proof (get_in_jobs _ _ _ Hx) as Hxin.
    destruct (lost_due (cpar y) x) eqn:Hdue.
    + destruct (tick_to_enabled n y H) as [y' Hy']. exists CTick, y'. cbn [crash_step useful]. rewrite Hdr.
      repeat split; try reflexivity; [|exact Hy']. unfold useful_tick.
      assert (Hx2 : existsb (lost_due (cpar y)) (jobs (cpar y)) = true) by (apply existsb_exists; eauto).
      rewrite Hx2, orb_true_r. reflexivity.
    + exists (CAdvance 1). cbn [crash_step useful]. eexists. repeat split; try reflexivity.
      unfold useful_advance. apply existsb_exists. exists x. split; [exact Hxin|].
      unfold is_marked. rewrite Hic, Hr, Hwl, Hdue. reflexivity.
Qed.

(* ---- the end: what "complete" means *)
Definition resolved_ok (y : csys) (k : Z) (x : job) : Prop :=
  ready x = true
  /\ ((value x = Some (outcome_of (cbad y) k)
       /\ cb_succ x = (if task_ok (cbad y) k then 1 else 0) /\ cb_err x = (if task_ok (cbad y) k then 0 else 1))
      \/ (exists p t, value x = Some (PLost (exit_of (cpar y) p) k) /\ cb_succ x = 0 /\ cb_err x = 1
                      /\ wp x = [p] /\ worker_lost x = Some (t, exit_of (cpar y) p)
                      /\ exited (cpar y) p = true /\ in_pool (cpar y) p = false)).

Definition call_complete (n : nat) (y : csys) : Prop :=
  (* every one of the n jobs exists and is resolved: by its own result, or as lost with the status of its worker *)
  length (jobs (cpar y)) = n
  /\ (forall k, 0 <= k < Z.of_nat n -> exists x, get_job (cpar y) k = Some x /\ resolved_ok y k x)
  (* nothing is queued anywhere *)
  /\ ctodo y = 0%nat /\ ctaskq y = [] /\ cinq y = [] /\ coutq y = [] /\ clost y = [] /\ running (cwk y) = []
  (* the pool is back at its configured size: every worker of the list is alive (and idle) *)
  /\ Z.of_nat (length (wlist (cpar y))) = nprocs (cpar y) /\ map fst (cwk y) = wlist (cpar y)
  /\ (forall p, In p (wlist (cpar y)) -> exited (cpar y) p = false)
  (* every slot is back *)
  /\ (putlocks (cpar y) = true -> LaxSem.value (sem (cpar y)) = LaxSem.bound (sem (cpar y))).

Lemma done_at_zero n y : CInv n y -> cwork y = 0%nat -> call_complete n y.
Proof.
  intros H H0.
  pose proof H as [Ht Hj Hm Hpi Hac Hacs Hwp Hmark Hlost Hwk0 Hcnt Hsize Hst Hmaxr Hjt Hw Hnn Hsem Hbound Hn].
  unfold cwork in H0.
  assert (E1 : ctodo y = 0%nat) by lia.
  assert (E2 : ctaskq y = []) by (apply length_zero_iff_nil; lia).
  assert (E3 : cinq y = []) by (apply length_zero_iff_nil; lia).
  assert (E4 : running (cwk y) = []) by (apply length_zero_iff_nil; lia).
  assert (E5 : coutq y = []) by (apply length_zero_iff_nil; lia).
  assert (E6 : clost y = []).
  { apply (list_sum_zero (lost_weight (cpar y))); [intros d _; apply lost_weight_pos|lia]. }
  assert (Htk : ctokens y = []) by (unfold ctokens, started; rewrite E2, E3, E4, E5, E6; reflexivity).
  assert (Hun : unreaped y = []) by (unfold unreaped; rewrite E6; reflexivity).
  assert (Hkw : kept (cpar y) = wlist (cpar y)).
  { pose proof (reaped_kept_length (cpar y)) as Hrk. rewrite Hun in Hcnt. cbn [length] in Hcnt.
    assert (Hkl : length (cwk y) = length (kept (cpar y))) by (rewrite <- Hwk0, map_length; reflexivity).
    unfold kept. apply filter_all. intros p Hp.
    destruct (exited (cpar y) p) eqn:He; [exfalso|reflexivity].
    assert (Hre : In p (reaped (cpar y))) by (unfold reaped; apply filter_In; split; [apply -> in_rev; exact Hp|exact He]).
    destruct (reaped (cpar y)); [destruct Hre|]. cbn [length] in Hrk. lia. }
  unfold call_complete. split; [lia|]. split.
  { intros k Hk. destruct (nth_error (jobs (cpar y)) (Z.to_nat k)) as [x|] eqn:En.
    2:{ apply nth_error_None in En. lia. }
    assert (Hg : get_job (cpar y) k = Some x).
    { unfold get_job. destruct (k <? 0) eqn:E; [lia|exact En]. }
    exists x. split; [exact Hg|]. specialize (Ht k). rewrite Htk, (job_cunres _ _ _ Hg) in Ht.
    destruct (ready x) eqn:Er; [|discriminate]. destruct (Hj k x Hg) as (_ & _ & _ & _ & _ & F).
    split; [exact Er|]. destruct (F Er) as [G|(p & t & G1 & G2 & G3 & G4 & G5 & G6 & G7 & G8)]; [left; exact G|right].
    exists p, t. auto 10. }
  repeat (split; [assumption|]). split; [rewrite Hwk0; exact Hkw|]. split.
  - intros p Hp. rewrite <- Hkw in Hp. unfold kept in Hp. apply filter_In in Hp. destruct Hp as [_ Hp].
    destruct (exited (cpar y) p); [discriminate|reflexivity].
  - intros Ep. specialize (Hsem Ep). unfold slot_holders in Hsem. rewrite E2, E3, E4, E5, Hun in Hsem. cbn in Hsem. lia.
Qed.

(* a state where no step with a point (other than a kill or the racy pass) is enabled is complete *)
Theorem ccompletion n y :
  CInv n y ->
  (forall a, is_early a = false -> is_kill a = false -> useful y a = true -> crash_step y a = None) ->
  call_complete n y.
Proof.
  intros Hi Hstuck. apply done_at_zero; [exact Hi|]. destruct (cwork y) eqn:Em; [reflexivity|exfalso].
  destruct (cprogress n y Hi) as (a & y' & He & Hk & Hu & Hs); [lia|]. rewrite (Hstuck a He Hk Hu) in Hs. discriminate.
Qed.

(* from every state satisfying the invariant a schedule without the racy pass and without further
   kills, all of whose passes and waits have a point, leads to a complete state: no such state is doomed *)
Theorem ccan_always_complete n : forall y, CInv n y ->
  exists sched y', crun y sched = Some y' /\ no_early sched /\ no_kill sched /\ all_useful y sched
                   /\ cwork y' = 0%nat /\ call_complete n y'.
Proof.
  assert (Hind : forall m y, (cmeasure y <= m)%nat -> CInv n y ->
            exists sched y', crun y sched = Some y' /\ no_early sched /\ no_kill sched /\ all_useful y sched
                             /\ cwork y' = 0%nat /\ call_complete n y').
  { induction m as [|m IH]; intros y Hm Hi.
    - assert (Hw0 : cwork y = 0%nat) by (unfold cmeasure in Hm; lia).
      exists [], y. split; [reflexivity|]. split; [intros a []|]. split; [intros a []|]. split; [exact I|].
      split; [exact Hw0|apply done_at_zero; assumption].
    - destruct (cwork y) eqn:Em.
      + exists [], y. split; [reflexivity|]. split; [intros a []|]. split; [intros a []|]. split; [exact I|].
        split; [exact Em|apply done_at_zero; assumption].
      + destruct (cprogress n y Hi) as (a & y1 & He & Hk & Hu & Hs); [lia|].
        pose proof (cstep_decreases n y a y1 Hi He Hu Hs) as Hd.
        destruct (IH y1) as (sched & y' & Hrun & Hne & Hnk & Hau & Hw0 & Hdone); [lia|eapply cinv_step; eauto|].
        exists (a :: sched), y'. cbn [crun all_useful]. rewrite Hs. split; [exact Hrun|].
        split; [intros b [<-|Hb]; [exact He|apply Hne; exact Hb]|].
        split; [intros b [<-|Hb]; [exact Hk|apply Hnk; exact Hb]|]. auto. }
  intros y Hi. apply (Hind (cmeasure y)); [lia|exact Hi].
Qed.

Corollary creach_can_always_complete c n y :
  1 <= c_n c -> c_maxr c = None -> creach c n y ->
  exists sched y', crun y sched = Some y' /\ no_early sched /\ no_kill sched /\ all_useful y sched
                   /\ cwork y' = 0%nat /\ call_complete n y'.
Proof. intros Hn Hm Hr. apply ccan_always_complete. eapply creach_inv; eauto. Qed.

(* every maximal schedule without the racy pass whose passes and waits have a point -- kills at any
   moment, any statuses -- is finite and ends complete *)
Theorem maximal_useful_schedule_completes c n bd kills sched y :
  1 <= c_n c -> c_maxr c = None ->
  no_early sched -> all_useful (cinit c n bd kills) sched -> crun (cinit c n bd kills) sched = Some y ->
  (forall a, is_early a = false -> is_kill a = false -> useful y a = true -> crash_step y a = None) ->
  call_complete n y /\ (length sched <= 6 * n + kills * (grace (init c) + 3))%nat.
Proof.
  intros Hn Hm Hne Hu Hr Hstuck. split.
  - apply ccompletion; [|exact Hstuck]. eapply crun_inv; [apply cinv_init; eassumption|exact Hne|exact Hr].
  - eapply useful_schedules_are_short; eauto.
Qed.

(* ================================================================== H. safety, as statements about reachable states *)
Section Reachable.
Variable c : config.
Variable n : nat.
Hypothesis Hsize : 1 <= c_n c.
Hypothesis Hnolimit : c_maxr c = None.

(* a job id is in exactly one of: task queue, pipe, a live worker, a READY in the result pipe, the
   lost jobs -- iff the job is unresolved; resolved jobs are nowhere *)
Theorem unresolved_iff_in_one_place y j : creach c n y ->
  count_occ Z.eq_dec (ctokens y) j = if cunres (cpar y) j then 1%nat else 0%nat.
Proof. intros Hr. exact (v_tok n y (creach_inv c n y Hsize Hnolimit Hr) j). Qed.

(* resolved once, with its own result or with WorkerLostError naming the exit status of ITS worker,
   which has exited and is no longer in the pool *)
Theorem resolved_own_result_or_lost y k x : creach c n y ->
  get_job (cpar y) k = Some x -> ready x = true -> resolved_ok y k x.
Proof.
  intros Hr Hg Hrd. destruct (v_job n y (creach_inv c n y Hsize Hnolimit Hr) k x Hg) as (_ & _ & _ & _ & _ & F).
  split; [exact Hrd|]. destruct (F Hrd) as [G|(p & t & G1 & G2 & G3 & G4 & G5 & G6 & G7 & G8)]; [left; exact G|right].
  exists p, t. auto 10.
Qed.

(* "that job and no other": the job a live worker is executing is unresolved (never failed as lost),
   and is not even marked *)
Theorem job_of_live_worker_not_lost y p k : creach c n y -> In (p, Some k) (cwk y) ->
  exited (cpar y) p = false /\ in_pool (cpar y) p = true
  /\ exists x, get_job (cpar y) k = Some x /\ ready x = false /\ worker_lost x = None.
Proof.
  intros Hr Hin. pose proof (creach_inv c n y Hsize Hnolimit Hr) as H.
  assert (Hp : In p (map fst (cwk y))) by (apply in_map_iff; exists (p, Some k); split; [reflexivity|exact Hin]).
  destruct (live_worker n y p H Hp) as [A B]. split; [exact B|]. split; [exact A|].
  assert (Hs : In (k, p) (started y)) by (apply in_started; left; apply in_running; exact Hin).
  destruct (started_unres n y k p H Hs) as (Hu & _). destruct (cunres_job _ _ Hu) as (x & Hx & Hrd).
  exists x. split; [exact Hx|]. split; [exact Hrd|].
  destruct (worker_lost x) as [[t st]|] eqn:Hw; [exfalso|reflexivity].
  destruct (v_mark n y H k x t st Hx Hrd Hw) as (p' & Hl & Hip & _).
  assert (Hs' : In (k, p') (started y)) by (apply in_started; right; right; apply in_losts; eauto).
  rewrite (started_unique n y k p p' H Hs Hs') in A. congruence.
Qed.

(* "no job is reported lost unless its worker really exited": a marker is only ever on the job of a
   worker that was killed while executing it, has exited with the recorded status, and was reaped *)
Theorem marked_only_if_worker_exited y k x t st : creach c n y ->
  get_job (cpar y) k = Some x -> ready x = false -> worker_lost x = Some (t, st) ->
  exists p, In (p, k, st) (clost y) /\ wp x = [p] /\ exited (cpar y) p = true /\ exit_of (cpar y) p = st
            /\ in_pool (cpar y) p = false /\ t <= now (cpar y).
Proof.
  intros Hr Hg Hrd Hw. pose proof (creach_inv c n y Hsize Hnolimit Hr) as H.
  destruct (v_mark n y H k x t st Hg Hrd Hw) as (p & Hl & Hip & Ht). exists p.
  destruct (v_lost n y H p k st Hl) as (A & B & _ & D). destruct (D Hip) as (x0 & t0 & Hx0 & _ & Hwp).
  assert (x0 = x) by congruence. subst x0. auto 10.
Qed.

(* slots: free + held = bound; a lost job holds its slot until its worker is reaped (the pass gives
   back one slot per reaped worker), a marked job holds none *)
Theorem cslots_account y : creach c n y -> putlocks (cpar y) = true ->
  LaxSem.value (sem (cpar y)) + Z.of_nat (slot_holders y) = LaxSem.bound (sem (cpar y))
  /\ 0 <= LaxSem.value (sem (cpar y)).
Proof.
  intros Hr Ep. pose proof (creach_inv c n y Hsize Hnolimit Hr) as H. split; [exact (v_sem n y H Ep)|exact (proj1 (v_nn n y H))].
Qed.

(* the pool list always has the configured size, and its live members are exactly [cwk] *)
Theorem pool_size_kept y : creach c n y ->
  Z.of_nat (length (wlist (cpar y))) = nprocs (cpar y) /\ map fst (cwk y) = kept (cpar y)
  /\ (length (cwk y) + length (unreaped y) = length (wlist (cpar y)))%nat.
Proof.
  intros Hr. pose proof (creach_inv c n y Hsize Hnolimit Hr) as H.
  split; [exact (v_size n y H)|]. split; [exact (v_wk n y H)|exact (v_cnt n y H)].
Qed.
End Reachable.

(* ================================================================== I. timing *)
(* an ordinary pass acts on every job as [tick_class]: nothing but (1) failing the marked jobs whose
   grace period is over, (2) marking the unmarked jobs whose recorded owner has exited *)
Theorem pass_acts_per_class n y y' : CInv n y -> crash_step y CTick = Some y' ->
  forall k, get_job (cpar y') k = option_map (tick_class (cpar y)) (get_job (cpar y) k).
Proof.
  intros H. cbn [crash_step]. destruct (drained (cpar y) (coutq y)) eqn:Hd; [|discriminate]. intros Hs.
  exact (proj1 (tick_to_facts n y y' H Hd Hs)).
Qed.

(* detection: the first ordinary pass after the death marks the job of every dead worker still in the
   pool list, with the clock of this pass and the worker's exit status, and the worker leaves the list *)
Theorem pass_detects n y y' p k st : CInv n y -> crash_step y CTick = Some y' ->
  In (p, k, st) (clost y) -> in_pool (cpar y) p = true ->
  exists x', get_job (cpar y') k = Some x' /\ ready x' = false /\ worker_lost x' = Some (now (cpar y), st)
             /\ in_pool (cpar y') p = false.
Proof.
  intros H Hs Hin Hip. pose proof (pass_acts_per_class n y y' H Hs) as JM. cbn [crash_step] in Hs.
  destruct (drained (cpar y) (coutq y)) eqn:Hd; [|discriminate].
  destruct (tick_to_facts n y y' H Hd Hs) as (_ & Hdead & _).
  destruct (unreaped_acked n y p k st H Hd Hin Hip) as (x & Hx & Hr & Hwl & Hwp).
  destruct (v_lost n y H p k st Hin) as (He & Hc & _).
  exists (tick_class (cpar y) x). rewrite JM, Hx. split; [reflexivity|].
  unfold tick_class. rewrite Hr, Hwl, Hwp, He. cbn [ready worker_lost j_set_lost]. rewrite Hc.
  split; [exact Hr|]. split; [reflexivity|apply Hdead; exact He].
Qed.

(* deadline: a pass taken more than the lost-worker timeout after the marker fails the job, with
   WorkerLostError naming the recorded status and this job *)
Theorem pass_fails_when_due n y y' k x t st : CInv n y -> crash_step y CTick = Some y' ->
  get_job (cpar y) k = Some x -> ready x = false -> worker_lost x = Some (t, st) ->
  lost_timeout x < now (cpar y) - t ->
  exists x', get_job (cpar y') k = Some x' /\ ready x' = true /\ value x' = Some (PLost st k)
             /\ cb_err x' = 1 /\ cb_succ x' = 0.
Proof.
  intros H Hs Hx Hr Hwl Hdue. pose proof (pass_acts_per_class n y y' H Hs) as JM.
  destruct (v_job n y H k x Hx) as (A & _ & _ & _ & E0 & _). destruct (E0 Hr) as (_ & _ & Hcs & Hce).
  exists (tick_class (cpar y) x). rewrite JM, Hx. split; [reflexivity|].
  unfold tick_class. rewrite Hr, Hwl. replace (lost_timeout x <? now (cpar y) - t) with true by lia.
  unfold apply_set. rewrite Hr. cbn. rewrite A, Hcs, Hce. auto.
Qed.

(* not before: a pass taken no later than that leaves the job exactly as it is *)
Theorem pass_waits_when_not_due n y y' k x t st : CInv n y -> crash_step y CTick = Some y' ->
  get_job (cpar y) k = Some x -> ready x = false -> worker_lost x = Some (t, st) ->
  now (cpar y) - t <= lost_timeout x ->
  get_job (cpar y') k = Some x.
Proof.
  intros H Hs Hx Hr Hwl Hdue. rewrite (pass_acts_per_class n y y' H Hs), Hx. cbn [option_map]. f_equal.
  unfold tick_class. rewrite Hr, Hwl. replace (lost_timeout x <? now (cpar y) - t) with false by lia. reflexivity.
Qed.

(* conversely: whichever step (other than the racy pass) turns an unresolved job into one failed with
   WorkerLostError is an ordinary pass, the job carried a marker older than its timeout, the error
   names this job and the status of the marker, which is the exit status of the job's own worker *)
Theorem lost_only_by_due_pass n y a y' k x x' st j :
  CInv n y -> is_early a = false -> crash_step y a = Some y' ->
  get_job (cpar y) k = Some x -> ready x = false ->
  get_job (cpar y') k = Some x' -> value x' = Some (PLost st j) ->
  a = CTick /\ j = k
  /\ exists t p, worker_lost x = Some (t, st) /\ lost_timeout x < now (cpar y) - t
                 /\ wp x = [p] /\ exited (cpar y) p = true /\ exit_of (cpar y) p = st /\ in_pool (cpar y) p = false.
Proof.
  intros H He Hs Hx Hr Hx' Hv.
  destruct (v_job n y H k x Hx) as (A & B & _ & _ & E0 & _). destruct (E0 Hr) as (Hic & Hvn & _).
  assert (Hsame : x' = x -> False) by (intros ->; congruence).
  destruct a; try discriminate; cbn [crash_step] in Hs.
  - exfalso. destruct (ctodo y); [discriminate|].
    destruct (step (cpar y) (EApply None None None None)) as [s' r] eqn:Est. destruct r; try discriminate.
    inversion Hs; subst y'; clear Hs. cbn [cpar] in Hx'.
    destruct (capply_spec _ _ (proj1 (v_nn n y H)) Est) as (_ & _ & _ & Hjobs & _).
    rewrite get_job_gj, Hjobs, gj_app_new, <- get_job_gj in Hx'.
    destruct (Z.eqb_spec k (Z.of_nat (length (jobs (cpar y))))) as [->|Hne]; [|apply Hsame; congruence].
    rewrite get_job_gj, gj_fresh in Hx. discriminate.
  - exfalso. destruct (ctaskq y); [discriminate|]. inversion Hs; subst y'. cbn [cpar] in Hx'. apply Hsame. congruence.
  - exfalso. destruct (wk_get (cwk y) p) as [[?|]|]; try discriminate. destruct (cinq y); [discriminate|].
    inversion Hs; subst y'. cbn [cpar] in Hx'. apply Hsame. congruence.
  - exfalso. destruct (wk_get (cwk y) p) as [[?|]|]; try discriminate.
    inversion Hs; subst y'. cbn [cpar] in Hx'. apply Hsame. congruence.
  - exfalso. destruct (coutq y) as [|[j0 p0|j0 p0 ok t0] r]; [discriminate| |]; inversion Hs; subst y'; clear Hs; cbn [cpar] in Hx'.
    + destruct (cack_spec (cpar y) j0 p0) as (_ & _ & _ & _ & JM).
      { intros z Hz. exact (proj1 (proj2 (v_job n y H j0 z Hz))). }
      rewrite JM, Hx in Hx'. cbn [option_map] in Hx'. inversion Hx'; subst x'.
      rewrite (proj1 (proj2 (ackf_fields (cpar y) j0 p0 k x))) in Hv. congruence.
    + destruct (cready_spec (cpar y) j0 ok t0) as (_ & _ & _ & _ & JM).
      { intros z Hz. exact (proj1 (proj2 (v_job n y H j0 z Hz))). }
      rewrite JM, Hx in Hx'. cbn [option_map] in Hx'. inversion Hx'; subst x'. unfold readyf in Hv.
      destruct ((k =? j0) && incache x); [|congruence]. unfold apply_set in Hv. rewrite Hr in Hv. cbn in Hv.
      destruct ok; discriminate.
  - exfalso. destruct (ckills y); [discriminate|]. destruct (wk_get (cwk y) p) as [[?|]|]; try discriminate.
    inversion Hs; subst y'. cbn [cpar] in Hx'.
    destruct (cexit_spec (cpar y) p code) as (_ & _ & _ & _ & _ & _ & _ & _ & P9 & _).
    rewrite get_job_gj, P9, <- get_job_gj in Hx'. apply Hsame. congruence.
  - split; [reflexivity|]. rewrite (pass_acts_per_class n y y' H Hs), Hx in Hx'. cbn [option_map] in Hx'.
    inversion Hx'; subst x'; clear Hx'.
    destruct (tick_class_cases (cpar y) x) as [E1|[(_ & p & _ & _ & _ & E1)|(_ & t & c & Hwl & Hdue & E1)]]; rewrite E1 in Hv.
    + congruence.
    + cbn in Hv. congruence.
    + unfold apply_set in Hv. rewrite Hr in Hv. cbn in Hv. inversion Hv; subst c j. split; [exact A|].
      destruct (v_mark n y H k x t st Hx Hr Hwl) as (p & Hl & Hip & _).
      destruct (v_lost n y H p k st Hl) as (Hep & Hcp & _ & D). destruct (D Hip) as (x0 & t0 & Hx0 & _ & Hwp).
      assert (x0 = x) by congruence. subst x0. exists t, p. auto 10.
  - exfalso. destruct (0 <? d); [|discriminate]. inversion Hs; subst y'. cbn [cpar] in Hx'.
    destruct (cadvance_spec (cpar y) d) as (_ & _ & _ & JE).
    rewrite get_job_gj, JE, <- get_job_gj in Hx'. apply Hsame. congruence.
Qed.

(* over whole schedules: once a job carries the marker (t0, st) -- written by the pass that detected the
   exit, [pass_detects] -- then whatever happens afterwards (other kills, results, submissions, any
   number of passes and waits), as long as the job is still unresolved, an ordinary pass fails it
   with the ORIGINAL status iff it is taken more than the job's timeout after t0: the first such
   pass reports the loss, and no pass before it does *)
Theorem loss_reported_by_the_first_due_pass c n y sched y1 y2 k x t0 st x1 :
  1 <= c_n c -> c_maxr c = None -> creach c n y ->
  get_job (cpar y) k = Some x -> worker_lost x = Some (t0, st) ->
  no_early sched -> crun y sched = Some y1 ->
  get_job (cpar y1) k = Some x1 -> ready x1 = false ->
  crash_step y1 CTick = Some y2 ->
  (lost_timeout x < now (cpar y1) - t0 ->
   exists x2, get_job (cpar y2) k = Some x2 /\ ready x2 = true /\ value x2 = Some (PLost st k))
  /\ (now (cpar y1) - t0 <= lost_timeout x -> get_job (cpar y2) k = Some x1).
Proof.
  intros Hn Hm Hr Hx Hwl Hne Hrun Hx1 Hr1 Hs.
  destruct (creach_is_run c n y Hr) as [tr Etr].
  assert (Ha : AllJ (cpar y)) by (rewrite Etr; apply reachable_good).
  destruct (good_run (cevents_of y sched) (cpar y) Ha) as [_ Hmono].
  rewrite <- (crun_par _ _ _ Hrun) in Hmono.
  destruct (get_job_nth _ _ _ Hx) as [_ Hn0]. destruct (Hmono _ _ Hn0) as (z & Hz & Hxz).
  destruct (get_job_nth _ _ _ Hx1) as [_ Hn1]. assert (z = x1) by congruence. subst z.
  assert (Hwl1 : worker_lost x1 = Some (t0, st)) by (apply (jm_marker _ _ Hxz); exact Hwl).
  destruct (jm_limits _ _ Hxz) as (_ & _ & Hlt).
  assert (H1 : CInv n y1) by (apply (creach_inv c n y1 Hn Hm); eapply crun_reach; eauto).
  split; intros Hd.
  - destruct (pass_fails_when_due n y1 y2 k x1 t0 st H1 Hs Hx1 Hr1 Hwl1) as (x2 & A & B & C & _); [lia|]. eauto.
  - apply (pass_waits_when_not_due n y1 y2 k x1 t0 st H1 Hs Hx1 Hr1 Hwl1). lia.
Qed.

(* ================================================================== J. the racy pass (D11): a doomed state *)
Local Transparent step.
Lemma step_tick s : step s ETick = do_tick (with_sigs s []).
Proof. reflexivity. Qed.

Lemma capply_jobs s s' :
  step s (EApply None None None None) = (s', RNone) -> pframe s s' /\ jobs s' = jobs s ++ [fresh_job s].
Proof.
  unfold step, do_apply. cbn [putlocks with_sigs sem pstate].
  destruct (negb (pstate s =? 0)); [discriminate|].
  destruct (putlocks s) eqn:Ep; cbn [andb].
  - destruct (LaxSem.value (sem s) =? 0); [discriminate|]. intros H; inversion H; subst; clear H.
    split; [constructor; try reflexivity; exact Ep|reflexivity].
  - intros H; inversion H; subst; clear H. split; [constructor; try reflexivity; exact Ep|reflexivity].
Qed.
Local Opaque step.

Lemma tick_job_mono s x : jmono x (tick_job s x).
Proof.
  unfold tick_job.
  assert (H1 : jmono x (if lost_due s x then fst (mark_lost x) else x))
    by (destruct (lost_due s x); [apply mark_lost_mono|apply jmono_refl]).
  destruct (reaped s); [exact H1|].
  destruct (incache (if lost_due s x then fst (mark_lost x) else x)); [|exact H1].
  eapply jmono_trans; [exact H1|apply on_job_down_mono].
Qed.

Definition AllK (s : pool) : Prop := forall k x, get_job s k = Some x -> kind x = KApply.

(* job k is unresolved and unmarked, nothing in the system refers to it any more, no worker of the
   pool list has exited and no worker can be killed any more *)
Record Doomed (y : csys) (k : Z) : Prop := {
  d_kills : ckills y = 0%nat;
  d_noex : NoEx (cpar y);
  d_kind : AllK (cpar y);
  d_job : exists x, get_job (cpar y) k = Some x /\ ready x = false /\ worker_lost x = None;
  d_tq : ~ In k (ctaskq y);
  d_iq : ~ In k (cinq y);
  d_run : forall p, ~ In (p, Some k) (cwk y);
  d_rdy : forall p ok t, ~ In (MReady k p ok t) (coutq y)
}.

Lemma NoEx_frame s s' : pframe s s' -> NoEx s -> NoEx s'.
Proof. intros PF H p Hin. rewrite (pf_wlist _ _ PF) in Hin. rewrite (pframe_exited _ _ PF). apply H. exact Hin. Qed.

Lemma in_wk_set w p o' q o : In (q, o) (wk_set w p o') -> In (q, o) w \/ (q = p /\ o = o').
Proof.
  unfold wk_set. rewrite in_map_iff. intros ([q0 o0] & E & Hin). cbn [fst] in E.
  destruct (Z.eqb_spec q0 p) as [->|Hne]; inversion E; subst; auto.
Qed.

Lemma doomed_tick y y' k : Doomed y k -> tick_to y = Some y' -> Doomed y' k.
Proof.
  intros [Dk Dn Dkind (x & Hx & Hr & Hwl) Dt Di Drun Drdy]. unfold tick_to.
  destruct (step (cpar y) ETick) as [s' r] eqn:E. destruct r; try discriminate. intros E'; inversion E'; subst y'; clear E'.
  assert (Es : s' = fst (do_tick (with_sigs (cpar y) []))) by (rewrite <- step_tick, E; reflexivity).
  set (s0 := with_sigs (cpar y) []) in *.
  assert (Hre : reaped s0 = []).
  { unfold reaped. apply filter_none. intros p Hp. apply in_rev in Hp. apply (Dn p Hp). }
  constructor; cfields.
  - exact Dk.
  - rewrite Es. apply NoEx_do_tick.
  - intros j z. rewrite Es, tick_get_job. change (get_job s0 j) with (get_job (cpar y) j).
    destruct (get_job (cpar y) j) as [z0|] eqn:Hz; [|discriminate]. cbn. intros E0; inversion E0.
    rewrite (jm_kind _ _ (tick_job_mono s0 z0)). apply (Dkind j z0 Hz).
  - exists x. rewrite Es, tick_get_job. change (get_job s0 k) with (get_job (cpar y) k). rewrite Hx. cbn [option_map].
    rewrite tick_no_exit_no_marker; [auto|exact Hre|].
    unfold lost_due. rewrite Hwl, andb_false_r. reflexivity.
  - exact Dt.
  - exact Di.
  - intros p Hin. apply in_app_or in Hin. destruct Hin as [Hin|Hin]; [exact (Drun p Hin)|].
    apply in_map_iff in Hin. destruct Hin as (q & E0 & _). discriminate.
  - exact Drdy.
Qed.

(* a doomed state stays doomed under EVERY step: ordinary and racy passes, waits, anything *)
Theorem doomed_step y a y' k : Doomed y k -> crash_step y a = Some y' -> Doomed y' k.
Proof.
  intros D. pose proof D as [Dk Dn Dkind (x & Hx & Hr & Hwl) Dt Di Drun Drdy].
  destruct a; cbn [crash_step].
  - destruct (ctodo y); [discriminate|].
    destruct (step (cpar y) (EApply None None None None)) as [s' r] eqn:Est. destruct r; try discriminate.
    intros E; inversion E; subst y'; clear E. destruct (capply_jobs _ _ Est) as [PF Hjobs].
    assert (Hget : forall j, get_job s' j = if j =? Z.of_nat (length (jobs (cpar y))) then Some (fresh_job (cpar y)) else get_job (cpar y) j).
    { intros j. rewrite !get_job_gj, Hjobs. apply gj_app_new. }
    assert (Hk : k <> Z.of_nat (length (jobs (cpar y)))).
    { intros ->. rewrite get_job_gj, gj_fresh in Hx. discriminate. }
    constructor; cfields; try assumption.
    + eapply NoEx_frame; eauto.
    + intros j z. rewrite Hget. destruct (j =? _); [intros E; inversion E; reflexivity|apply Dkind].
    + exists x. rewrite Hget, (eqb_ne _ _ Hk). auto.
    + intros Hin. apply in_app_or in Hin. destruct Hin as [Hin|[Hin|[]]]; [exact (Dt Hin)|congruence].
  - destruct (ctaskq y) as [|j r] eqn:Eq; [discriminate|]. intros E; inversion E; subst y'; clear E.
    constructor; cfields; try assumption.
    + exists x. auto.
    + intros Hin. apply Dt. right. exact Hin.
    + intros Hin. apply in_app_or in Hin. destruct Hin as [Hin|[Hin|[]]]; [exact (Di Hin)|]. apply Dt. left. exact Hin.
  - destruct (wk_get (cwk y) p) as [[?|]|] eqn:Eg; try discriminate.
    destruct (cinq y) as [|j r] eqn:Eq; [discriminate|]. intros E; inversion E; subst y'; clear E.
    constructor; cfields; try assumption.
    + exists x. auto.
    + intros Hin. apply Di. right. exact Hin.
    + intros q Hin. apply in_wk_set in Hin. destruct Hin as [Hin|[_ Hin]]; [exact (Drun q Hin)|].
      inversion Hin; subst. apply Di. left. reflexivity.
    + intros q ok t Hin. apply in_app_or in Hin. destruct Hin as [Hin|[Hin|[]]]; [exact (Drdy q ok t Hin)|discriminate].
  - destruct (wk_get (cwk y) p) as [[j|]|] eqn:Eg; try discriminate. intros E; inversion E; subst y'; clear E.
    apply wk_get_in in Eg.
    constructor; cfields; try assumption.
    + exists x. auto.
    + intros q Hin. apply in_wk_set in Hin. destruct Hin as [Hin|[_ Hin]]; [exact (Drun q Hin)|discriminate].
    + intros q ok t Hin. apply in_app_or in Hin. destruct Hin as [Hin|[Hin|[]]]; [exact (Drdy q ok t Hin)|].
      inversion Hin; subst. exact (Drun q Eg).
  - destruct (coutq y) as [|[j p|j p ok t] r] eqn:Eq; [discriminate| |]; intros E; inversion E; subst y'; clear E.
    + destruct (cack_spec (cpar y) j p (Dkind j)) as (PF & _ & _ & _ & JM).
      constructor; cfields; try assumption.
      * eapply NoEx_frame; eauto.
      * intros i z. rewrite JM. destruct (get_job (cpar y) i) as [z0|] eqn:Hz; [|discriminate]. cbn. intros E; inversion E.
        destruct (ackf_fields (cpar y) j p i z0) as (_ & _ & _ & _ & _ & _ & _ & R8). rewrite R8. apply (Dkind i z0 Hz).
      * exists (ackf (cpar y) j p k x). rewrite JM, Hx. split; [reflexivity|].
        destruct (ackf_fields (cpar y) j p k x) as (R1 & _ & _ & _ & R5 & _). rewrite R1, R5. auto.
      * intros q ok t Hin. apply (Drdy q ok t). right. exact Hin.
    + destruct (cready_spec (cpar y) j ok t (Dkind j)) as (PF & _ & _ & _ & JM).
      assert (Hne : k <> j) by (intros ->; apply (Drdy p ok t); left; reflexivity).
      constructor; cfields; try assumption.
      * eapply NoEx_frame; eauto.
      * intros i z. rewrite JM. destruct (get_job (cpar y) i) as [z0|] eqn:Hz; [|discriminate]. cbn. intros E; inversion E.
        unfold readyf. destruct ((i =? j) && incache z0); [|apply (Dkind i z0 Hz)].
        unfold apply_set. destruct (ready z0); cbn; apply (Dkind i z0 Hz).
      * exists x. rewrite JM, Hx. cbn [option_map]. unfold readyf. rewrite (eqb_ne k j Hne). auto.
      * intros q ok0 t0 Hin. apply (Drdy q ok0 t0). right. exact Hin.
  - rewrite Dk. discriminate.
  - destruct (drained (cpar y) (coutq y)); [|discriminate]. apply doomed_tick. exact D.
  - destruct (drained (cpar y) (coutq y)); [discriminate|]. apply doomed_tick. exact D.
  - destruct (0 <? d); [|discriminate]. intros E; inversion E; subst y'; clear E.
    destruct (cadvance_spec (cpar y) d) as (PF & _ & _ & JE).
    assert (Hg : forall j, get_job (fst (step (cpar y) (EAdvance d))) j = get_job (cpar y) j)
      by (intros j; rewrite !get_job_gj, JE; reflexivity).
    constructor; cfields; try assumption;
      first [exists x; rewrite Hg; auto | eapply NoEx_frame; eauto | intros j z; rewrite Hg; apply Dkind].
Qed.

Theorem doomed_forever : forall sched y y' k, Doomed y k -> crun y sched = Some y' -> Doomed y' k.
Proof.
  induction sched as [|a r IH]; intros y y' k D; cbn [crun]; [intros E; inversion E; subst; exact D|].
  destruct (crash_step y a) as [y1|] eqn:E; [|discriminate]. apply IH. eapply doomed_step; eauto.
Qed.

Corollary doomed_never_resolved sched y y' k : Doomed y k -> crun y sched = Some y' -> cunres (cpar y') k = true.
Proof.
  intros D Hr. destruct (doomed_forever sched y y' k D Hr) as [_ _ _ (x & Hx & Hrd & _) _ _ _ _].
  rewrite (job_cunres _ _ _ Hx), Hrd. reflexivity.
Qed.

(* an executable test for [Doomed] *)
Definition doomedb (y : csys) (k : Z) : bool :=
  Nat.eqb (ckills y) 0
  && forallb (fun p => negb (exited (cpar y) p)) (wlist (cpar y))
  && forallb (fun x => match kind x with KApply => true | _ => false end) (jobs (cpar y))
  && match get_job (cpar y) k with Some x => negb (ready x) && negb (is_marked x) | None => false end
  && negb (memZ k (ctaskq y)) && negb (memZ k (cinq y))
  && forallb (fun e => match snd e with Some j => negb (j =? k) | None => true end) (cwk y)
  && forallb (fun m => match m with MReady j _ _ _ => negb (j =? k) | MAck _ _ => true end) (coutq y).

Lemma doomedb_ok y k : doomedb y k = true -> Doomed y k.
Proof.
  unfold doomedb. rewrite !andb_true_iff. intros (((((((A & B) & C) & D) & E) & F) & G) & I).
  constructor.
  - apply Nat.eqb_eq. exact A.
  - intros p Hp. rewrite forallb_forall in B. specialize (B p Hp). apply negb_true_iff in B. exact B.
  - intros j x Hx. rewrite forallb_forall in C. specialize (C x (get_in_jobs _ _ _ Hx)). destruct (kind x); try discriminate. reflexivity.
  - destruct (get_job (cpar y) k) as [x|]; [|discriminate]. exists x. apply andb_true_iff in D. destruct D as [D1 D2].
    apply negb_true_iff in D1. apply negb_true_iff in D2. unfold is_marked in D2.
    destruct (worker_lost x); [discriminate|]. auto.
  - intros Hin. apply memZ_In in Hin. rewrite Hin in E. discriminate.
  - intros Hin. apply memZ_In in Hin. rewrite Hin in F. discriminate.
  - intros p Hin. rewrite forallb_forall in G. specialize (G _ Hin). cbn in G. rewrite Z.eqb_refl in G. discriminate.
  - intros p ok t Hin. rewrite forallb_forall in I. specialize (I _ Hin). cbn in I. rewrite Z.eqb_refl in I. discriminate.
Qed.

(* the witness: one job, two workers; worker 0 takes the job, writes its ACK and is killed by
   SIGSEGV; the supervisor's pass overtakes the result handler (the ACK is still in the pipe), reaps
   worker 0 and finds no job that names it; then the ACK is handled *)
Definition d11_cfg := mkcfg 2 None None None None 1 false false.
Definition d11_sched := [CSubmit; CPut; CTake 0; CKill 0 (-11); CTickEarly; CRecv].
Definition d11_state : csys :=
  match crun (cinit d11_cfg 1 [] 1) d11_sched with Some y => y | None => cinit d11_cfg 1 [] 1 end.

Lemma d11_run : crun (cinit d11_cfg 1 [] 1) d11_sched = Some d11_state.
Proof. vm_compute. reflexivity. Qed.

Lemma d11_doomed : Doomed d11_state 0.
Proof. apply doomedb_ok. vm_compute. reflexivity. Qed.

(* D11, closed form: there is a schedule with ONE racy pass after which the job of the killed worker
   is unresolved, unmarked, its worker dead and reaped -- and NO schedule whatsoever (any passes,
   however long the wait) ever resolves it: the caller waits forever.  C04 "the loss is reported ...
   no later than that timeout plus one supervision period" is refuted for the racy interleaving. *)
Theorem doomed_by_early_tick :
  exists c n bd kills sched y k p st,
    crun (cinit c n bd kills) sched = Some y
    /\ In CTickEarly sched /\ In (CKill p st) sched
    /\ (exists x, get_job (cpar y) k = Some x /\ wp x = [p] /\ ready x = false /\ worker_lost x = None)
    /\ exited (cpar y) p = true /\ exit_of (cpar y) p = st /\ in_pool (cpar y) p = false
    /\ forall sched' y', crun y sched' = Some y' -> cunres (cpar y') k = true.
Proof.
  exists d11_cfg, 1%nat, [], 1%nat, d11_sched, d11_state, 0, 0, (-11).
  split; [exact d11_run|]. split; [cbn; tauto|]. split; [cbn; tauto|].
  split; [eexists; split; [vm_compute; reflexivity|]; vm_compute; auto|].
  split; [vm_compute; reflexivity|]. split; [vm_compute; reflexivity|]. split; [vm_compute; reflexivity|].
  intros sched' y' Hr. exact (doomed_never_resolved sched' d11_state y' 0 d11_doomed Hr).
Qed.

(* the same history with the two steps in the other order (the result handler first) is an ordinary
   schedule: the job is marked by the pass and failed with the real status after its timeout *)
Example d11_other_order_is_fine :
  match crun (cinit d11_cfg 1 [] 1)
             [CSubmit; CPut; CTake 0; CKill 0 (-11); CRecv; CTick; CAdvance 11; CTick] with
  | Some y => cwork y = 0%nat
              /\ map (fun x => (ready x, value x, worker_lost x)) (jobs (cpar y))
                 = [(true, Some (PLost (-11) 0), Some (1000, -11))]
              /\ cwk y = [(1, None); (2, None)] /\ ckills y = 0%nat
  | None => False
  end.
Proof. vm_compute. auto. Qed.

(* with crashes still to come the doomed job can be "resolved" -- by accident and with the wrong
   status: a later, unrelated reaping finds its owner gone and records exit status 0 *)
Example d11_later_reaping_reports_status_zero :
  match crun (cinit d11_cfg 2 [] 2)
             [CSubmit; CPut; CTake 0; CKill 0 (-11); CTickEarly; CRecv;
              CSubmit; CPut; CTake 1; CRecv; CKill 1 (-9); CTick; CAdvance 11; CTick] with
  | Some y => map (fun x => (ready x, value x)) (jobs (cpar y))
              = [(true, Some (PLost 0 0)); (true, Some (PLost (-9) 1))]
  | None => False
  end.
Proof. vm_compute. reflexivity. Qed.

(* ================================================================== K. non-vacuity: concrete schedules with kills *)
Fixpoint all_usefulb (y : csys) (sched : list cstep) : bool :=
  match sched with
  | [] => true
  | a :: r => useful y a && match crash_step y a with Some y' => all_usefulb y' r | None => true end
  end.

Lemma all_usefulb_ok : forall sched y, all_usefulb y sched = true -> all_useful y sched.
Proof.
  induction sched as [|a r IH]; intros y H; cbn [all_usefulb all_useful] in *; [exact I|].
  apply andb_true_iff in H. destruct H as [H1 H2]. split; [exact H1|].
  destruct (crash_step y a); [apply IH; exact H2|exact I].
Qed.

Definition no_earlyb (sched : list cstep) : bool := forallb (fun a => negb (is_early a)) sched.
Lemma no_earlyb_ok sched : no_earlyb sched = true -> no_early sched.
Proof. unfold no_earlyb. rewrite forallb_forall. intros H a Ha. apply negb_true_iff. apply H. exact Ha. Qed.

(* four jobs (the task of job 3 raises), two workers, two crashes (SIGSEGV, exit status 1), lost-worker
   timeout 3, slots in use: a maximal schedule produced by the scheduler; the two jobs of the killed
   workers fail with WorkerLostError naming the status of THEIR worker, the others resolve with their
   own outcome, the pool is back at two live workers, both slots are back *)
Definition ex_cfg := mkcfg 2 None None (Some 3) None 1 true false.
Definition ex_run :=
  cauto_run 200 [0;1;2;3;4;5;6;7;8;9;10;0;3;5;1;2;4;6;0;1;2;3;4;5;6;0;3;5;1;2;4;6]%nat [-11; 1] false
            (cinit ex_cfg 4 [3] 2).

Example crash_system_runs :
  crun (cinit ex_cfg 4 [3] 2) (snd ex_run) = Some (fst ex_run)
  /\ no_earlyb (snd ex_run) = true /\ all_usefulb (cinit ex_cfg 4 [3] 2) (snd ex_run) = true
  /\ length (filter is_kill (snd ex_run)) = 2%nat /\ length (snd ex_run) = 28%nat
  /\ cwork (fst ex_run) = 0%nat
  /\ map (fun x => (ready x, value x, worker_lost x, cb_succ x, cb_err x)) (jobs (cpar (fst ex_run)))
     = [(true, Some (PLost (-11) 0), Some (1000, -11), 0, 1);
        (true, Some (PLost 1 1), Some (1004, 1), 0, 1);
        (true, Some (PValue 2), None, 1, 0);
        (true, Some (PExc 3), None, 0, 1)]
  /\ cwk (fst ex_run) = [(2, None); (3, None)] /\ wlist (cpar (fst ex_run)) = [2; 3]
  /\ LaxSem.value (sem (cpar (fst ex_run))) = 2.
Proof. vm_compute. repeat split; reflexivity. Qed.

(* ... so the hypotheses of the liveness theorems are met by a schedule with kills, and their
   conclusion is what was just computed *)
Example crash_system_complete : call_complete 4 (fst ex_run).
Proof.
  destruct crash_system_runs as (Hr & Hne & Hu & _ & _ & Hw & _).
  apply done_at_zero; [|exact Hw].
  eapply crun_inv; [apply (cinv_init ex_cfg 4 [3] 2); [cbn; lia|reflexivity]|apply no_earlyb_ok; exact Hne|exact Hr].
Qed.

Example crash_system_within_bound :
  (length (snd ex_run) <= 6 * 4 + 2 * (grace (init ex_cfg) + 3))%nat.
Proof.
  destruct crash_system_runs as (Hr & Hne & Hu & _).
  apply (useful_schedules_are_short ex_cfg 4 [3] 2 (snd ex_run) (fst ex_run)); try assumption.
  - cbn; lia.
  - reflexivity.
  - apply no_earlyb_ok; exact Hne.
  - apply all_usefulb_ok; exact Hu.
Qed.

(* timing, step by step (timeout 3): worker 0 is killed at 1000 while executing job 0; the next pass
   (clock 1000) detects it: marker (1000, -9), replacement started; the pass at 1003 (3 is not more
   than 3) leaves the job alone; the pass at 1004 fails it; job 1 on worker 1 completes normally *)
Definition t_sched :=
  [CSubmit; CSubmit; CPut; CPut; CTake 0; CTake 1; CRecv; CRecv; CKill 0 (-9); CTick;
   CFinish 1; CRecv; CAdvance 3; CTick; CAdvance 1; CTick].
Definition t_show (y : csys) :=
  (map (fun x => (ready x, value x, worker_lost x)) (jobs (cpar y)), cwk y, now (cpar y), LaxSem.value (sem (cpar y))).

Example timing_witness :
  option_map t_show (crun (cinit ex_cfg 2 [] 1) (firstn 10 t_sched))
  = Some ([(false, None, Some (1000, -9)); (false, None, None)], [(1, Some 1); (2, None)], 1000, 1)
  /\ option_map t_show (crun (cinit ex_cfg 2 [] 1) (firstn 14 t_sched))
     = Some ([(false, None, Some (1000, -9)); (true, Some (PValue 1), None)], [(1, None); (2, None)], 1003, 2)
  /\ option_map t_show (crun (cinit ex_cfg 2 [] 1) t_sched)
     = Some ([(true, Some (PLost (-9) 0), Some (1000, -9)); (true, Some (PValue 1), None)],
             [(1, None); (2, None)], 1004, 2)
  /\ no_earlyb t_sched = true.   (* the pass at 1003 has no point: it is there to show that it does nothing *)
Proof. vm_compute. repeat split; reflexivity. Qed.

(* the checker used by the correspondence accepts the model's own run *)
Example check_crash_case_selftest :
  check_crash_case (ex_cfg, 0%nat, [], 0%nat, [], [], [], true) = 0.
Proof. vm_compute. reflexivity. Qed.

(* ================================================================== L. assumptions *)
Print Assumptions cinv_step.
Print Assumptions creach_inv.
Print Assumptions creach_is_run.
Print Assumptions creachE_is_run.
Print Assumptions unresolved_iff_in_one_place.
Print Assumptions resolved_own_result_or_lost.
Print Assumptions job_of_live_worker_not_lost.
Print Assumptions marked_only_if_worker_exited.
Print Assumptions cslots_account.
Print Assumptions pool_size_kept.
Print Assumptions cstep_decreases.
Print Assumptions useful_schedules_are_finite.
Print Assumptions useful_schedules_are_short.
Print Assumptions cprogress.
Print Assumptions ccompletion.
Print Assumptions ccan_always_complete.
Print Assumptions creach_can_always_complete.
Print Assumptions maximal_useful_schedule_completes.
Print Assumptions pass_acts_per_class.
Print Assumptions pass_detects.
Print Assumptions pass_fails_when_due.
Print Assumptions pass_waits_when_not_due.
Print Assumptions lost_only_by_due_pass.
Print Assumptions loss_reported_by_the_first_due_pass.
Print Assumptions doomed_step.
Print Assumptions doomed_by_early_tick.
Print Assumptions crash_system_runs.
Print Assumptions crash_system_complete.
Print Assumptions timing_witness.
