(* C03: the parent side regenerated from /repo/billiard/pool.py on this run
   (Gen/K_workerparent.v: ApplyResult._ack and ApplyResult._set, translated by
   translate/kernels/workerparent.py) computes exactly Model.Worker.p_ack / p_set:
   same final handle state, same hooks called in the same order with the same arguments,
   and the exception leaves _ack exactly when the model says no response is sent because
   the accept callback raised.

   Abstraction: a hook / callback is a truthy token or None (callback = 1, error callback
   = 2: the token tells the modelled safe_apply_callback which one it was given); the cache
   entry and the event are ghost booleans.

   Hook point: the generated hooks of _ack (timeout hook, accept callback) set the handle's
   _cancelled flag under the oracle g_late_cancel (a _cancel() that lands while they run);
   gen_p_ack quantifies over it, so a reading of the flag made after a hook is part of the
   compared behaviour, and gen_ack_reads_flag_once pins the number of readings to one. *)
From Coq Require Import ZArith List Bool Lia ZifyBool.
From BV Require Import Lib.PyVal Model.Worker Proofs.WorkerProofs.
From BV Require Gen.K_workerparent.
Import ListNotations.
Open Scope Z_scope.

Module K := K_workerparent.

Definition tok (b : bool) (z : Z) : pv := if b then PInt z else PNone.

Definition emb (pc : pcfg) (s : ar) (cb_raises late_cancel : bool) (job : Z) (succ value : pv) : K.st :=
  K.mk_st (PBool (cancelled s)) (tok (has_send_ack pc) 1) (PBool (accepted s))
          (optv (time_accepted s)) (optv (worker_pid s)) (PInt 1) (tok (has_accept_cb pc) 1)
          (PInt 1) (tok (has_callback pc) 1) (tok (has_error_cb pc) 2) succ value (PInt job)
          (is_ready s) (in_cache s) cb_raises false [] late_cancel.

Definition unoptv (v : pv) : option Z := match v with PInt z => Some z | _ => None end.

Definition abs (g : K.st) : ar :=
  mk_ar (truth (K.f_self__accepted g)) (truth (K.f_self__cancelled g))
        (unoptv (K.f_self__worker_pid g)) (unoptv (K.f_self__time_accepted g))
        (K.g_event g) (K.g_incache g).

Definition pout_of (e : K.eff) : list pout :=
  match e with
  | K.GTimeoutSet => [OTimeoutSet]
  | K.GCbAccept (PInt p) (PInt t) => [OCbAccept p t]
  | K.GSendAck (PInt r) (PInt p) _ (PInt f) => [OSendAck r p f]
  | K.GTimeoutCancel => [OTimeoutCancel]
  | K.GCbResult (PInt v) => [OCbResult v]
  | K.GCbError (PInt v) => [OCbError v]
  | _ => []
  end.

Definition final {A} (o : outcome K.st A) : K.st := match o with Ok _ g | Exc _ g => g end.
Definition raised {A} (o : outcome K.st A) : bool := match o with Ok _ _ => false | Exc _ _ => true end.
Definition view {A} (o : outcome K.st A) : ar * list pout :=
  (abs (final o), flat_map pout_of (K.g_out (final o))).

(* ApplyResult._ack (under on_ack, which has found the handle in the cache) *)
Theorem gen_p_ack : forall pc s i t pid fd r lc job su va,
    in_cache s = true ->
    let o := K.ack (emb pc s r lc job su va) i (PInt t) (PInt pid) (optv fd) in
    view o = p_ack pc s t pid fd r lc /\
    raised o = negb (cancelled s && has_send_ack pc) && has_accept_cb pc && r /\
    (raised o = true -> K.g_attr_error (final o) = true).
Proof.
  intros [hs ha hc he hk] [acc can wp ta rdy ic] i t pid fd r lc job su va Hic.
  cbn [in_cache] in Hic. subst ic.
  destruct fd as [[|p|p]|]; destruct can, ha, rdy, hc, r, lc, wp, ta; vm_compute;
    (split; [reflexivity|split; [reflexivity|intros H; try reflexivity; discriminate H]]).
Qed.

(* ApplyResult._set (under on_ready, which has found the handle in the cache) *)
Theorem gen_p_set : forall pc s i ok v job su va,
    in_cache s = true ->
    let o := K.set (emb pc s false false job su va) i (PBool ok) (PInt v) in
    view o = p_set pc s ok v /\ raised o = false.
Proof.
  intros [hs ha hc he hk] [acc can wp ta rdy ic] i ok v job su va Hic.
  cbn [in_cache] in Hic. subst ic.
  destruct rdy, acc, can, hk, he, ok, wp, ta; vm_compute; (split; reflexivity).
Qed.

(* _ack reads the cancellation flag exactly once (counted in pool.py on this run): its
   decision and its answer cannot be about two different values of the flag *)
Lemma gen_ack_reads_flag_once : K.ack_cancelled_reads = 1%nat.
Proof. reflexivity. Qed.

(* what plain billiard gives: handles get send_ack exactly under the synack switch, that
   send_ack is a no-op and the workers get no SYN queue (text-compared on this run) *)
Lemma gen_plain_pool :
  K.plain_send_ack_is_noop = true /\ K.plain_workers_have_no_syn_queue = true /\
  K.handles_get_send_ack_iff_synack = true.
Proof. repeat split; reflexivity. Qed.
