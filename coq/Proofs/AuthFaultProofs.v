(* C18 under channel faults: every send_bytes call of either party may fail (an
   oracle decides per call: delivered / raises a connection error), every
   recv_bytes call of a side facing an arbitrary peer may raise.

   (1) generic: faults never create acceptance -- an accepting run over a faulty
       channel is an accepting run over the perfect channel on the same messages,
       and none of the sends it made failed;
   (2) exact characterisations of the accepted peers under faults, the outcome of a
       failed verdict send;
   (3) listener against client with two send oracles: the complete outcome table,
       and its corollaries (nobody accepts unless its digest equation holds). *)
From Coq Require Import ZArith List Bool Lia ZifyBool.
From BV Require Import Lib.AuthBase Gen.K_auth Model.Auth Proofs.AuthProofs.
Import ListNotations.
Open Scope Z_scope.

(* ------------------------------------------------------------------ *)
(* (1) generic facts about the faulty one-sided runner                  *)

(* an accepting faulty run IS an accepting fault-free run: the side consumed a
   prefix of the incoming events, all of them messages, and every send it made
   (calls i .. i + |sent| - 1) was delivered *)
Lemma run1f_returned : forall p inc fl i s,
    run1f p inc fl i = (s, Returned) ->
    exists msgs rest,
      inc = map Msg msgs ++ rest /\ run1 p msgs = (s, Returned) /\
      (forall j, (i <= j < i + length s)%nat -> fl j = None).
Proof.
  induction p as [m k IH|mx k IH| |e]; intros inc fl i s H; cbn [run1f] in H.
  - destruct (fl i) as [e|] eqn:F; [discriminate|].
    destruct (run1f k inc fl (S i)) as [s1 o1] eqn:E. inversion H; subst s o1; clear H.
    destruct (IH _ _ _ _ E) as (msgs & rest & -> & R & N).
    exists msgs, rest. split; [reflexivity|]. split.
    + cbn [run1]. rewrite R. reflexivity.
    + intros j Hj. cbn [length] in Hj.
      destruct (Nat.eq_dec j i) as [->|Hne]; [exact F|]. apply N. lia.
  - destruct inc as [|[m|e] r]; try discriminate.
    destruct (blen m <=? mx) eqn:L; [|discriminate].
    destruct (IH _ _ _ _ _ H) as (msgs & rest & -> & R & N).
    exists (m :: msgs), rest. split; [reflexivity|]. split; [|exact N].
    cbn [run1]. rewrite L. exact R.
  - inversion H; subst s. exists [], inc. split; [reflexivity|]. split; [reflexivity|].
    intros j Hj. cbn [length] in Hj. lia.
  - discriminate.
Qed.

(* consistency of the two runners: over a perfect channel they coincide *)
Lemma run1f_perfect : forall p msgs fl i,
    (forall j, fl j = None) -> run1f p (map Msg msgs) fl i = run1 p msgs.
Proof.
  induction p as [m k IH|mx k IH| |e]; intros msgs fl i N; cbn [run1f run1].
  - rewrite N, IH by exact N. reflexivity.
  - destruct msgs as [|m r]; cbn [map]; [reflexivity|].
    destruct (blen m <=? mx); [apply IH; exact N|reflexivity].
  - reflexivity.
  - reflexivity.
Qed.

(* a failed send is never absorbed: once a send call of this side has failed
   (call j), nothing more is delivered -- the calls delivered by a run started at
   call i are exactly i .. i + |sent| - 1, all before j *)
Lemma run1f_nothing_after_failed_send : forall p inc fl i s o,
    run1f p inc fl i = (s, o) ->
    forall j e, (i <= j)%nat -> fl j = Some e -> (i + length s <= j)%nat.
Proof.
  induction p as [m k IH|mx k IH| |e0]; intros inc fl i s o H j e Hj F; cbn [run1f] in H.
  - destruct (fl i) as [e1|] eqn:Fi.
    + inversion H; subst s. cbn [length]. lia.
    + destruct (run1f k inc fl (S i)) as [s1 o1] eqn:E. inversion H; subst s o1; clear H.
      cbn [length].
      destruct (Nat.eq_dec j i) as [->|Hne]; [rewrite Fi in F; discriminate|].
      assert (S i + length s1 <= j)%nat by (apply (IH _ _ _ _ _ E j e); [lia|exact F]). lia.
  - destruct inc as [|[m|e1] r]; try (inversion H; subst s; cbn [length]; lia).
    destruct (blen m <=? mx).
    + apply (IH _ _ _ _ _ _ H j e); assumption.
    + inversion H; subst s; cbn [length]; lia.
  - inversion H; subst s; cbn [length]; lia.
  - inversion H; subst s; cbn [length]; lia.
Qed.

Section OneSideFaults.
  Variable mac : bytes -> bytes -> bytes.

  (* complete description of deliver_challenge over a faulty channel *)
  Lemma run1f_deliver : forall key u k inc fl i,
      run1f (deliver_challenge mac key u k) inc fl i =
      let c := u MESSAGE_LENGTH in
      match fl i with
      | Some e => ([], Raised e)                          (* the challenge could not be sent *)
      | None =>
          match inc with
          | [] => ([CHALLENGE ++ c], Starved)
          | RFail e :: _ => ([CHALLENGE ++ c], Raised e)
          | Msg r :: rest =>
              if blen r <=? RECV_LIMIT then
                if bytes_eqb r (mac key c) then
                  match fl (S i) with
                  | Some e => ([CHALLENGE ++ c], Raised e)     (* WELCOME could not be sent *)
                  | None => let (s, o) := run1f k rest fl (S (S i)) in
                            ((CHALLENGE ++ c) :: WELCOME :: s, o)
                  end
                else
                  match fl (S i) with
                  | Some e => ([CHALLENGE ++ c], Raised e)     (* FAILURE could not be sent *)
                  | None => ([CHALLENGE ++ c; FAILURE], Raised AuthenticationError)
                  end
              else ([CHALLENGE ++ c], Raised OSError)
          end
      end.
  Proof.
    intros key u k inc fl i. unfold deliver_challenge. cbn [run1f]. cbv zeta.
    destruct (fl i) as [e|]; [reflexivity|].
    destruct inc as [|[r|e] rest]; cbn [run1f]; try reflexivity.
    destruct (blen r <=? RECV_LIMIT); [|reflexivity].
    destruct (bytes_eqb r (mac key (u MESSAGE_LENGTH))); cbn [run1f];
      destruct (fl (S i)) as [e|]; try reflexivity.
    destruct (run1f k rest fl (S (S i))); reflexivity.
  Qed.

  (* -- the scenario of a verdict that cannot be delivered: the peer's answer is wrong
        and the send of FAILURE fails with ANY error e: the role ends with e -- it
        does not return *)
  Theorem failed_verdict_send_raises : forall key u k r rest fl i e,
      fl i = None -> fl (S i) = Some e ->
      blen r <= RECV_LIMIT ->
      run1f (deliver_challenge mac key u k) (Msg r :: rest) fl i =
      ([CHALLENGE ++ u MESSAGE_LENGTH], Raised e).
  Proof.
    intros key u k r rest fl i e F0 F1 L. rewrite run1f_deliver. cbv zeta. rewrite F0, F1.
    replace (blen r <=? RECV_LIMIT) with true by lia.
    destruct (bytes_eqb r (mac key (u MESSAGE_LENGTH))); reflexivity.
  Qed.

  (* -- deliver_challenge continues (reaches k) only on the right digest, whatever
        the channel does *)
  Theorem deliver_f_returns_only_on_digest : forall key u k inc fl i sent,
      run1f (deliver_challenge mac key u k) inc fl i = (sent, Returned) ->
      exists rest, inc = Msg (mac key (u MESSAGE_LENGTH)) :: rest.
  Proof.
    intros key u k inc fl i sent H.
    destruct (run1f_returned _ _ _ _ _ H) as (msgs & rest & -> & R & _).
    apply deliver_returns_only_on_digest in R. destruct R as (r' & ->).
    eexists. reflexivity.
  Qed.

  (* -- exact characterisations under faults *)
  Theorem listener_role_f_returns_iff : forall key u inc fl sent,
      run1f (role mac accept_order key u) inc fl 0 = (sent, Returned) <->
      exists x rest,
        inc = Msg (mac key (u MESSAGE_LENGTH)) :: Msg (CHALLENGE ++ x) :: Msg WELCOME :: rest /\
        blen (mac key (u MESSAGE_LENGTH)) <= RECV_LIMIT /\ blen (CHALLENGE ++ x) <= RECV_LIMIT /\
        fl 0%nat = None /\ fl 1%nat = None /\ fl 2%nat = None /\
        sent = [CHALLENGE ++ u MESSAGE_LENGTH; WELCOME; mac key x].
  Proof.
    intros key u inc fl sent. split.
    - intros H. destruct (run1f_returned _ _ _ _ _ H) as (msgs & rest & -> & R & N).
      apply listener_role_returns_iff in R.
      destruct R as (x & r' & -> & L1 & L2 & ->).
      exists x, (map Msg r' ++ rest). cbn [length] in N.
      repeat split; try assumption; apply N; lia.
    - intros (x & rest & -> & L1 & L2 & F0 & F1 & F2 & ->).
      unfold role, accept_order. cbn [fold_right do_step].
      rewrite run1f_deliver. cbv zeta. rewrite F0, F1.
      replace (blen (mac key (u MESSAGE_LENGTH)) <=? RECV_LIMIT) with true by lia.
      rewrite bytes_eqb_refl.
      unfold answer_challenge. cbn [run1f].
      replace (blen (CHALLENGE ++ x) <=? RECV_LIMIT) with true by lia.
      rewrite prefix_ok, suffix_ok. cbn [run1f]. rewrite F2.
      replace (blen WELCOME <=? RECV_LIMIT) with true by reflexivity.
      rewrite bytes_eqb_refl. reflexivity.
  Qed.

  Theorem client_role_f_returns_iff : forall key u inc fl sent,
      run1f (role mac client_order key u) inc fl 0 = (sent, Returned) <->
      exists x rest,
        inc = Msg (CHALLENGE ++ x) :: Msg WELCOME :: Msg (mac key (u MESSAGE_LENGTH)) :: rest /\
        blen (CHALLENGE ++ x) <= RECV_LIMIT /\ blen (mac key (u MESSAGE_LENGTH)) <= RECV_LIMIT /\
        fl 0%nat = None /\ fl 1%nat = None /\ fl 2%nat = None /\
        sent = [mac key x; CHALLENGE ++ u MESSAGE_LENGTH; WELCOME].
  Proof.
    intros key u inc fl sent. split.
    - intros H. destruct (run1f_returned _ _ _ _ _ H) as (msgs & rest & -> & R & N).
      apply client_role_returns_iff in R.
      destruct R as (x & r' & -> & L1 & L2 & ->).
      exists x, (map Msg r' ++ rest). cbn [length] in N.
      repeat split; try assumption; apply N; lia.
    - intros (x & rest & -> & L1 & L2 & F0 & F1 & F2 & ->).
      unfold role, client_order. cbn [fold_right do_step].
      unfold answer_challenge. cbn [run1f].
      replace (blen (CHALLENGE ++ x) <=? RECV_LIMIT) with true by lia.
      rewrite prefix_ok, suffix_ok. cbn [run1f]. rewrite F0.
      replace (blen WELCOME <=? RECV_LIMIT) with true by reflexivity.
      rewrite bytes_eqb_refl.
      rewrite run1f_deliver. cbv zeta. rewrite F1, F2.
      replace (blen (mac key (u MESSAGE_LENGTH)) <=? RECV_LIMIT) with true by lia.
      rewrite bytes_eqb_refl. reflexivity.
  Qed.

  (* -- wrong digest refused by the real endpoints, any peer, any channel *)
  Theorem listener_f_refuses_wrong_digest : forall b0 b u inc fl sent,
      run1f (listener mac (KBytes (b0 :: b)) u) inc fl 0 = (sent, Returned) ->
      exists rest, inc = Msg (mac (b0 :: b) (u MESSAGE_LENGTH)) :: rest.
  Proof.
    intros b0 b u inc fl sent H. rewrite listener_nonempty in H.
    apply listener_role_f_returns_iff in H. destruct H as (x & rest & -> & _).
    eexists. reflexivity.
  Qed.

  Theorem client_f_refuses_wrong_digest : forall b u inc fl sent,
      run1f (client mac (KBytes b) u) inc fl 0 = (sent, Returned) ->
      exists m v rest, inc = Msg m :: Msg v :: Msg (mac b (u MESSAGE_LENGTH)) :: rest.
  Proof.
    intros b u inc fl sent H. rewrite client_bytes in H.
    apply client_role_f_returns_iff in H. destruct H as (x & rest & -> & _).
    do 3 eexists. reflexivity.
  Qed.
End OneSideFaults.

(* ------------------------------------------------------------------ *)
(* (3) listener against client, each with its own send oracle           *)

Section TwoSidesFaults.
  Variable mac : bytes -> bytes -> bytes.

  Lemma r2f_a_send_ok : forall f m k b qa qb sa sb fa fb na nb,
      fa na = None ->
      run2f (S f) (Send m k) b qa qb sa sb fa fb na nb =
      run2f f k b qa (qb ++ [m]) (sa ++ [m]) sb fa fb (S na) nb.
  Proof. intros. cbn [run2f]. rewrite H. reflexivity. Qed.
  Lemma r2f_a_send_fail : forall f m k b qa qb sa sb fa fb na nb e,
      fa na = Some e ->
      run2f (S f) (Send m k) b qa qb sa sb fa fb na nb =
      run2f f (Raise e) b qa qb sa sb fa fb (S na) nb.
  Proof. intros. cbn [run2f]. rewrite H. reflexivity. Qed.
  Lemma r2f_a_recv : forall f n k m r b qb sa sb fa fb na nb,
      run2f (S f) (Recv n k) b (m :: r) qb sa sb fa fb na nb =
      run2f f (deliver_msg n k m) b r qb sa sb fa fb na nb.
  Proof. reflexivity. Qed.
  Lemma r2f_b_send_ok : forall f n ka m k qb sa sb fa fb na nb,
      fb nb = None ->
      run2f (S f) (Recv n ka) (Send m k) [] qb sa sb fa fb na nb =
      run2f f (Recv n ka) k [m] qb sa (sb ++ [m]) fa fb na (S nb).
  Proof. intros. cbn [run2f]. rewrite H. reflexivity. Qed.
  Lemma r2f_b_send_fail : forall f n ka m k qb sa sb fa fb na nb e,
      fb nb = Some e ->
      run2f (S f) (Recv n ka) (Send m k) [] qb sa sb fa fb na nb =
      run2f f (Recv n ka) (Raise e) [] qb sa sb fa fb na (S nb).
  Proof. intros. cbn [run2f]. rewrite H. reflexivity. Qed.
  Lemma r2f_b_recv : forall f n ka n' k m r sa sb fa fb na nb,
      run2f (S f) (Recv n ka) (Recv n' k) [] (m :: r) sa sb fa fb na nb =
      run2f f (Recv n ka) (deliver_msg n' k m) [] r sa sb fa fb na nb.
  Proof. reflexivity. Qed.
  Lemma r2f_b_recv_raise : forall f e n' k m r qa sa sb fa fb na nb,
      run2f (S f) (Raise e) (Recv n' k) qa (m :: r) sa sb fa fb na nb =
      run2f f (Raise e) (deliver_msg n' k m) qa r sa sb fa fb na nb.
  Proof. intros. cbn [run2f]. destruct qa; reflexivity. Qed.
  (* nobody can move: a is blocked in Recv on an empty queue or has ended, b likewise *)
  Lemma r2f_stop_recv_end : forall f n ka b sa sb fa fb na nb,
      (b = Ret \/ exists e, b = Raise e) ->
      run2f (S f) (Recv n ka) b [] [] sa sb fa fb na nb = ((Starved, sa), (final b, sb)).
  Proof. intros f n ka b sa sb fa fb na nb [->|[e ->]]; reflexivity. Qed.
  Lemma r2f_stop_end_recv : forall f a n kb qa sa sb fa fb na nb,
      (a = Ret \/ exists e, a = Raise e) ->
      run2f (S f) a (Recv n kb) qa [] sa sb fa fb na nb = ((final a, sa), (Starved, sb)).
  Proof. intros f a n kb qa sa sb fa fb na nb [->|[e ->]]; cbn [run2f]; destruct qa; reflexivity. Qed.
  Lemma r2f_done : forall f a b qa sa sb fa fb na nb,
      (a = Ret \/ exists e, a = Raise e) -> (b = Ret \/ exists e, b = Raise e) ->
      run2f (S f) a b qa [] sa sb fa fb na nb = ((final a, sa), (final b, sb)).
  Proof.
    intros f a b qa sa sb fa fb na nb [->|[e ->]] [->|[e' ->]]; cbn [run2f]; destruct qa; reflexivity.
  Qed.

  (* the complete outcome of a handshake between a listener with key kl and a client
     with key kc when the i-th send call of the listener meets fa i and the i-th send
     call of the client meets fb i.  Sends in the order they happen: L0 (challenge),
     C0 (digest), L1 (verdict), C1 (challenge), L2 (digest), C2 (verdict).  The party
     whose send fails ends with that error; the other one waits for a message that
     never comes. *)
  Definition expected_f (kl kc cl cc : bytes) (fa fb : faults) :=
    let chl := CHALLENGE ++ cl in
    let chc := CHALLENGE ++ cc in
    match fa 0%nat with
    | Some e => ((Raised e, []), (Starved, []))
    | None =>
    match fb 0%nat with
    | Some e => ((Starved, [chl]), (Raised e, []))
    | None =>
    if bytes_eqb (mac kc cl) (mac kl cl) then
      match fa 1%nat with
      | Some e => ((Raised e, [chl]), (Starved, [mac kc cl]))
      | None =>
      match fb 1%nat with
      | Some e => ((Starved, [chl; WELCOME]), (Raised e, [mac kc cl]))
      | None =>
      match fa 2%nat with
      | Some e => ((Raised e, [chl; WELCOME]), (Starved, [mac kc cl; chc]))
      | None =>
      match fb 2%nat with
      | Some e => ((Starved, [chl; WELCOME; mac kl cc]), (Raised e, [mac kc cl; chc]))
      | None =>
        if bytes_eqb (mac kl cc) (mac kc cc) then
          ((Returned, [chl; WELCOME; mac kl cc]), (Returned, [mac kc cl; chc; WELCOME]))
        else
          ((Raised AuthenticationError, [chl; WELCOME; mac kl cc]),
           (Raised AuthenticationError, [mac kc cl; chc; FAILURE]))
      end end end end
    else
      match fa 1%nat with
      | Some e => ((Raised e, [chl]), (Starved, [mac kc cl]))
      | None => ((Raised AuthenticationError, [chl; FAILURE]),
                 (Raised AuthenticationError, [mac kc cl]))
      end
    end end.

  Theorem handshake_f_outcome : forall n k0 k kc ul uc fa fb,
      let kl := k0 :: k in
      let cl := ul MESSAGE_LENGTH in
      let cc := uc MESSAGE_LENGTH in
      blen cl = MESSAGE_LENGTH -> blen cc = MESSAGE_LENGTH ->
      blen (mac kc cl) <= RECV_LIMIT -> blen (mac kl cc) <= RECV_LIMIT ->
      handshake_f mac (13 + n) (KBytes kl) (KBytes kc) ul uc fa fb = expected_f kl kc cl cc fa fb.
  Proof.
    intros n k0 k kc ul uc fa fb kl cl cc Hcl Hcc Hd1 Hd2.
    unfold handshake_f. subst kl. rewrite listener_nonempty, client_bytes.
    set (kl := k0 :: k) in *.
    unfold role, accept_order, client_order. cbn [fold_right do_step].
    unfold deliver_challenge, answer_challenge. fold cl. fold cc.
    assert (Lcl : blen (CHALLENGE ++ cl) <= RECV_LIMIT)
      by (rewrite blen_challenge, Hcl; unfold MESSAGE_LENGTH, RECV_LIMIT; lia).
    assert (Lcc : blen (CHALLENGE ++ cc) <= RECV_LIMIT)
      by (rewrite blen_challenge, Hcc; unfold MESSAGE_LENGTH, RECV_LIMIT; lia).
    assert (Lw : blen WELCOME <= RECV_LIMIT) by (rewrite blen_welcome; unfold RECV_LIMIT; lia).
    assert (Lf : blen FAILURE <= RECV_LIMIT) by (rewrite blen_failure; unfold RECV_LIMIT; lia).
    change (13 + n)%nat with (S (S (S (S (S (S (S (S (S (S (S (S (S n))))))))))))).
    unfold expected_f. cbv zeta.
    (* L0: the listener sends its challenge *)
    destruct (fa 0%nat) as [e|] eqn:A0.
    { rewrite (r2f_a_send_fail _ _ _ _ _ _ _ _ _ _ _ _ e A0).
      rewrite r2f_stop_end_recv by (right; eexists; reflexivity). reflexivity. }
    rewrite (r2f_a_send_ok _ _ _ _ _ _ _ _ _ _ _ _ A0). cbn [app].
    (* the client receives it *)
    rewrite r2f_b_recv, (deliver_msg_ok _ _ _ Lcl). cbv beta.
    rewrite prefix_ok, suffix_ok.
    (* C0: the client sends its digest *)
    destruct (fb 0%nat) as [e|] eqn:B0.
    { rewrite (r2f_b_send_fail _ _ _ _ _ _ _ _ _ _ _ _ e B0).
      rewrite r2f_stop_recv_end by (right; eexists; reflexivity). reflexivity. }
    rewrite (r2f_b_send_ok _ _ _ _ _ _ _ _ _ _ _ _ B0). cbn [app].
    (* the listener receives and compares *)
    rewrite r2f_a_recv, (deliver_msg_ok _ _ _ Hd1). cbv beta.
    destruct (bytes_eqb (mac kc cl) (mac kl cl)) eqn:E1.
    - (* L1: WELCOME *)
      destruct (fa 1%nat) as [e|] eqn:A1.
      { rewrite (r2f_a_send_fail _ _ _ _ _ _ _ _ _ _ _ _ e A1).
        rewrite r2f_stop_end_recv by (right; eexists; reflexivity). reflexivity. }
      rewrite (r2f_a_send_ok _ _ _ _ _ _ _ _ _ _ _ _ A1). cbn [app].
      rewrite r2f_b_recv, (deliver_msg_ok _ _ _ Lw). cbv beta.
      rewrite bytes_eqb_refl.
      (* C1: the client sends its challenge *)
      destruct (fb 1%nat) as [e|] eqn:B1.
      { rewrite (r2f_b_send_fail _ _ _ _ _ _ _ _ _ _ _ _ e B1).
        rewrite r2f_stop_recv_end by (right; eexists; reflexivity). reflexivity. }
      rewrite (r2f_b_send_ok _ _ _ _ _ _ _ _ _ _ _ _ B1). cbn [app].
      rewrite r2f_a_recv, (deliver_msg_ok _ _ _ Lcc). cbv beta.
      rewrite prefix_ok, suffix_ok.
      (* L2: the listener sends its digest *)
      destruct (fa 2%nat) as [e|] eqn:A2.
      { rewrite (r2f_a_send_fail _ _ _ _ _ _ _ _ _ _ _ _ e A2).
        rewrite r2f_stop_end_recv by (right; eexists; reflexivity). reflexivity. }
      rewrite (r2f_a_send_ok _ _ _ _ _ _ _ _ _ _ _ _ A2). cbn [app].
      rewrite r2f_b_recv, (deliver_msg_ok _ _ _ Hd2). cbv beta.
      (* C2: the client's verdict *)
      destruct (bytes_eqb (mac kl cc) (mac kc cc)) eqn:E2.
      + destruct (fb 2%nat) as [e|] eqn:B2.
        { rewrite (r2f_b_send_fail _ _ _ _ _ _ _ _ _ _ _ _ e B2).
          rewrite r2f_stop_recv_end by (right; eexists; reflexivity). reflexivity. }
        rewrite (r2f_b_send_ok _ _ _ _ _ _ _ _ _ _ _ _ B2). cbn [app].
        rewrite r2f_a_recv, (deliver_msg_ok _ _ _ Lw). cbv beta.
        rewrite bytes_eqb_refl.
        rewrite r2f_done by (left; reflexivity). reflexivity.
      + destruct (fb 2%nat) as [e|] eqn:B2.
        { rewrite (r2f_b_send_fail _ _ _ _ _ _ _ _ _ _ _ _ e B2).
          rewrite r2f_stop_recv_end by (right; eexists; reflexivity). reflexivity. }
        rewrite (r2f_b_send_ok _ _ _ _ _ _ _ _ _ _ _ _ B2). cbn [app].
        rewrite r2f_a_recv, (deliver_msg_ok _ _ _ Lf). cbv beta.
        rewrite welcome_not_failure.
        rewrite r2f_done by (right; eexists; reflexivity). reflexivity.
    - (* L1: FAILURE, the listener raises *)
      destruct (fa 1%nat) as [e|] eqn:A1.
      { rewrite (r2f_a_send_fail _ _ _ _ _ _ _ _ _ _ _ _ e A1).
        rewrite r2f_stop_end_recv by (right; eexists; reflexivity). reflexivity. }
      rewrite (r2f_a_send_ok _ _ _ _ _ _ _ _ _ _ _ _ A1). cbn [app].
      rewrite r2f_b_recv_raise, (deliver_msg_ok _ _ _ Lf). cbv beta.
      rewrite welcome_not_failure.
      rewrite r2f_done by (right; eexists; reflexivity). reflexivity.
  Qed.

  (* -- whatever sends fail: a party is handed a connection only if its own digest
        equation holds (listener: the client's answer to the listener's challenge is
        the listener's digest; client: additionally its own), success is always joint
        and means that no send failed; over a perfect channel nothing changes *)
  Theorem faults_mutual : forall n k0 k kc ul uc fa fb,
      let kl := k0 :: k in
      let cl := ul MESSAGE_LENGTH in
      let cc := uc MESSAGE_LENGTH in
      blen cl = MESSAGE_LENGTH -> blen cc = MESSAGE_LENGTH ->
      blen (mac kc cl) <= RECV_LIMIT -> blen (mac kl cc) <= RECV_LIMIT ->
      let r := handshake_f mac (13 + n) (KBytes kl) (KBytes kc) ul uc fa fb in
      (fst (fst r) = Returned \/ fst (snd r) = Returned ->
       fst (fst r) = Returned /\ fst (snd r) = Returned /\
       mac kc cl = mac kl cl /\ mac kl cc = mac kc cc /\
       fa 0%nat = None /\ fa 1%nat = None /\ fa 2%nat = None /\
       fb 0%nat = None /\ fb 1%nat = None /\ fb 2%nat = None) /\
      ((forall i, fa i = None) -> (forall i, fb i = None) ->
       r = handshake mac (13 + n) (KBytes kl) (KBytes kc) ul uc).
  Proof.
    intros n k0 k kc ul uc fa fb kl cl cc H1 H2 H3 H4 r.
    pose proof (handshake_f_outcome n k0 k kc ul uc fa fb H1 H2 H3 H4) as HO. cbv zeta in HO.
    pose proof (handshake_outcome mac n k0 k kc ul uc H1 H2 H3 H4) as HP. cbv zeta in HP.
    subst r. fold kl cl cc in HO, HP. rewrite HO, HP. unfold expected_f, expected. cbv zeta.
    split.
    - destruct (fa 0%nat) as [e|]; [cbn [fst snd]; intros [X|X]; discriminate|].
      destruct (fb 0%nat) as [e|]; [cbn [fst snd]; intros [X|X]; discriminate|].
      destruct (bytes_eqb (mac kc cl) (mac kl cl)) eqn:E1.
      + destruct (fa 1%nat) as [e|]; [cbn [fst snd]; intros [X|X]; discriminate|].
        destruct (fb 1%nat) as [e|]; [cbn [fst snd]; intros [X|X]; discriminate|].
        destruct (fa 2%nat) as [e|]; [cbn [fst snd]; intros [X|X]; discriminate|].
        destruct (fb 2%nat) as [e|]; [cbn [fst snd]; intros [X|X]; discriminate|].
        destruct (bytes_eqb (mac kl cc) (mac kc cc)) eqn:E2;
          [|cbn [fst snd]; intros [X|X]; discriminate].
        apply bytes_eqb_true in E1. apply bytes_eqb_true in E2.
        intros _. cbn [fst snd]. repeat split; assumption.
      + destruct (fa 1%nat) as [e|]; cbn [fst snd]; intros [X|X]; discriminate.
    - intros Na Nb. rewrite !Na, !Nb. reflexivity.
  Qed.
End TwoSidesFaults.

(* ------------------------------------------------------------------ *)
(* transport to the endpoints assembled from the generated definitions  *)

Definition code_handshake_f mac (fuel : nat) (kl kc : keyval) (ul uc : Z -> bytes) (fl fc : faults) :=
  run2f fuel (code_listener mac kl ul) (code_client mac kc uc) [] [] [] [] fl fc 0 0.

Lemma code_handshake_f_eq : forall mac fuel kl kc ul uc fl fc,
    code_handshake_f mac fuel kl kc ul uc fl fc = handshake_f mac fuel kl kc ul uc fl fc.
Proof.
  intros. unfold code_handshake_f, code_listener, code_client, handshake_f.
  rewrite gen_listener_eq, gen_client_eq. reflexivity.
Qed.

(* faults never create acceptance, for the generated endpoints *)
Lemma code_listener_f_reduces : forall mac key u inc fl sent,
    run1f (code_listener mac key u) inc fl 0 = (sent, Returned) ->
    exists msgs rest,
      inc = map Msg msgs ++ rest /\ run1 (code_listener mac key u) msgs = (sent, Returned) /\
      (forall j, (j < length sent)%nat -> fl j = None).
Proof.
  intros mac key u inc fl sent H.
  destruct (run1f_returned _ _ _ _ _ H) as (msgs & rest & E & R & N).
  exists msgs, rest. repeat split; try assumption. intros j Hj. apply N. lia.
Qed.

Lemma code_client_f_reduces : forall mac key u inc fl sent,
    run1f (code_client mac key u) inc fl 0 = (sent, Returned) ->
    exists msgs rest,
      inc = map Msg msgs ++ rest /\ run1 (code_client mac key u) msgs = (sent, Returned) /\
      (forall j, (j < length sent)%nat -> fl j = None).
Proof.
  intros mac key u inc fl sent H.
  destruct (run1f_returned _ _ _ _ _ H) as (msgs & rest & E & R & N).
  exists msgs, rest. repeat split; try assumption. intros j Hj. apply N. lia.
Qed.

Lemma code_faults_mutual : forall mac n k0 k kc ul uc fa fb,
    let kl := k0 :: k in
    let cl := ul 20 in
    let cc := uc 20 in
    blen cl = 20 -> blen cc = 20 -> blen (mac kc cl) <= 256 -> blen (mac kl cc) <= 256 ->
    let r := code_handshake_f mac (13 + n) (KBytes kl) (KBytes kc) ul uc fa fb in
    (fst (fst r) = Returned \/ fst (snd r) = Returned ->
     fst (fst r) = Returned /\ fst (snd r) = Returned /\
     mac kc cl = mac kl cl /\ mac kl cc = mac kc cc /\
     fa 0%nat = None /\ fa 1%nat = None /\ fa 2%nat = None /\
     fb 0%nat = None /\ fb 1%nat = None /\ fb 2%nat = None) /\
    ((forall i, fa i = None) -> (forall i, fb i = None) ->
     r = code_handshake mac (13 + n) (KBytes kl) (KBytes kc) ul uc).
Proof.
  intros mac n k0 k kc ul uc fa fb kl cl cc H1 H2 H3 H4 r. subst r.
  rewrite code_handshake_f_eq, code_handshake_eq.
  exact (faults_mutual mac n k0 k kc ul uc fa fb H1 H2 H3 H4).
Qed.

(* the outcome table, constants written as in the source *)
Lemma code_handshake_f_outcome : forall mac n k0 k kc ul uc fa fb,
    let kl := k0 :: k in
    blen (ul 20) = 20 -> blen (uc 20) = 20 ->
    blen (mac kc (ul 20)) <= 256 -> blen (mac kl (uc 20)) <= 256 ->
    code_handshake_f mac (13 + n) (KBytes kl) (KBytes kc) ul uc fa fb =
    expected_f mac kl kc (ul 20) (uc 20) fa fb.
Proof.
  intros mac n k0 k kc ul uc fa fb kl H1 H2 H3 H4. rewrite code_handshake_f_eq.
  exact (handshake_f_outcome mac n k0 k kc ul uc fa fb H1 H2 H3 H4).
Qed.

(* non-vacuity: the toy MAC, keys one bit apart / equal, FAILURE resp. the last
   WELCOME meeting a broken pipe *)
Definition fail_at (i : nat) (e : exn) : faults := fun j => if Nat.eqb j i then Some e else None.

Lemma code_toy_fault_witness :
  code_handshake_f toy_mac 13 (KBytes [1; 2; 3]) (KBytes [1; 2; 4]) (const20 7) (const20 9)
                   (fail_at 1 BrokenPipeError) no_faults =
  ((Raised BrokenPipeError, [K_auth.CHALLENGE ++ const20 7 20]), (Starved, [[1; 2; 4]])) /\
  code_handshake_f toy_mac 13 (KBytes [1; 2; 3]) (KBytes [1; 2; 3]) (const20 7) (const20 9)
                   no_faults (fail_at 2 ConnectionResetError) =
  ((Starved, [K_auth.CHALLENGE ++ const20 7 20; K_auth.WELCOME; [1; 2; 3]]),
   (Raised ConnectionResetError, [[1; 2; 3]; K_auth.CHALLENGE ++ const20 9 20])) /\
  run1f (code_client toy_mac (KBytes [1; 2; 3]) (const20 9))
        [Msg (K_auth.CHALLENGE ++ [5]); Msg K_auth.WELCOME; Msg [0; 0]; Msg [42]]
        (fail_at 2 BrokenPipeError) 0 =
  ([[1; 2; 3]; K_auth.CHALLENGE ++ const20 9 20], Raised BrokenPipeError).
Proof. repeat split; vm_compute; reflexivity. Qed.
