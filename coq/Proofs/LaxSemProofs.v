(* C10 (semaphore half): generated LaxBoundedSemaphore methods = model; bound invariant. *)
From Coq Require Import ZArith List Bool Lia ZifyBool.
From BV Require Import Lib.PyVal Gen.K_laxsem Model.LaxSem.
Import ListNotations.
Open Scope Z_scope.

Definition emb (s : sem) : st := mk_st (PInt (value s)) (PInt (bound s)).

Lemma gen_release_eq s : K_laxsem.release (emb s) = Ok PNone (emb (LaxSem.release s)).
Proof.
  destruct s as [v b p]. unfold K_laxsem.release, LaxSem.release, emb. cbn.
  destruct (v <? b); reflexivity.
Qed.

Lemma gen_grow_eq s : K_laxsem.grow (emb s) = Ok PNone (emb (LaxSem.grow s)).
Proof. destruct s as [v b p]. reflexivity. Qed.

Lemma gen_shrink_eq s : 0 <= pending s ->
  K_laxsem.shrink (emb s) =
  match sstep (shrink_start s) ShrinkFinish with
  | Some s' => Ok PNone (emb s')
  | None => Exc Blocked (emb (shrink_start s))
  end.
Proof.
  destruct s as [v b p]. unfold K_laxsem.shrink, emb, shrink_start, sstep. cbn.
  intros Hp.
  destruct (v >? 0) eqn:E1; destruct (0 <? v) eqn:E2; try lia; cbn.
  - destruct (0 <? p + 1) eqn:E3; try lia. reflexivity.
  - reflexivity.
Qed.

Lemma while_clear : forall n v b,
    Z.to_nat (b - v) = n ->
    while_loop n
      (fun s => py_lt (f_self__value s) (f_self__initial_value s))
      (fun s => bindv PNone s (fun t1 => bindo (sem_release s [t1]) (fun _ s0 => Ok tt s0)))
      (mk_st (PInt v) (PInt b)) = Ok tt (mk_st (PInt (Z.max v b)) (PInt b)).
Proof.
  remember (fun s => py_lt (f_self__value s) (f_self__initial_value s)) as c eqn:Hc.
  remember (fun s => bindv PNone s (fun t1 => bindo (sem_release s [t1]) (fun _ s0 => Ok tt s0)))
    as body eqn:Hb.
  assert (Hcv : forall v b, c (mk_st (PInt v) (PInt b)) = PBool (v <? b))
    by (intros; subst c; reflexivity).
  assert (Hbv : forall v b, body (mk_st (PInt v) (PInt b)) = Ok tt (mk_st (PInt (v + 1)) (PInt b)))
    by (intros; subst body; reflexivity).
  clear Hc Hb.
  induction n as [|n IH]; intros v b Hn.
  - cbn [while_loop]. rewrite Hcv. destruct (v <? b) eqn:E; try lia. cbn [truth].
    replace (Z.max v b) with v by lia. reflexivity.
  - rewrite while_unroll, Hcv.
    destruct (v <? b) eqn:E; try lia. cbn [truth]. rewrite Hbv. cbn [bindo].
    rewrite IH by lia. replace (Z.max (v + 1) b) with (Z.max v b) by lia. reflexivity.
Qed.

Lemma gen_clear_eq s : K_laxsem.clear (emb s) = Ok PNone (emb (LaxSem.clear s)).
Proof.
  destruct s as [v b p]. unfold K_laxsem.clear, emb, LaxSem.clear, fuel_clear. cbn.
  rewrite while_clear by reflexivity. reflexivity.
Qed.

(* ------------------------------------------------------------------ *)
Definition SInv (s : sem) : Prop :=
  0 <= value s <= bound s + pending s /\ 0 <= pending s.

Lemma sinv_init n : 0 <= n -> SInv (sem_init n).
Proof. unfold SInv; cbn; lia. Qed.

Lemma sinv_step s o : SInv s -> SInv (sstep' s o).
Proof.
  unfold SInv, sstep', sstep, LaxSem.release, grow, shrink_start, clear.
  intros [H1 H2]. destruct o; cbn.
  - destruct (0 <? value s) eqn:E; cbn; lia.
  - destruct (value s <? bound s) eqn:E; cbn; lia.
  - lia.
  - lia.
  - destruct ((0 <? value s) && (0 <? pending s)) eqn:E; cbn; lia.
  - lia.
Qed.

Theorem sinv_run ops : forall s, SInv s -> SInv (srun s ops).
Proof.
  induction ops as [|o ops IH]; intros s H; cbn; [exact H|].
  apply IH. apply sinv_step. exact H.
Qed.

(* the headline: whenever no shrink is waiting, 0 <= value <= configured size *)
Theorem never_exceeds_size n ops :
  0 <= n -> let s := srun (sem_init n) ops in
            0 <= value s /\ (pending s = 0 -> value s <= bound s)
            /\ value s <= bound s + pending s.
Proof.
  intros Hn s. destruct (sinv_run ops (sem_init n) (sinv_init n Hn)) as [H1 H2].
  fold s in H1, H2. lia.
Qed.

(* the configured size is init + grows - shrinks started *)
Fixpoint count_op (f : sop -> bool) (ops : list sop) : Z :=
  match ops with [] => 0 | o :: r => (if f o then 1 else 0) + count_op f r end.
Definition is_grow o := match o with Grow => true | _ => false end.
Definition is_shrink o := match o with ShrinkStart => true | _ => false end.

Lemma bound_tracks ops : forall s,
    bound (srun s ops) = bound s + count_op is_grow ops - count_op is_shrink ops.
Proof.
  induction ops as [|o ops IH]; intros s; cbn [srun fold_left count_op]; [lia|].
  change (fold_left sstep' ops (sstep' s o)) with (srun (sstep' s o) ops).
  rewrite IH.
  unfold sstep', sstep, LaxSem.release, grow, shrink_start, clear.
  destruct o; cbn [is_grow is_shrink bound value pending];
    repeat match goal with
           | |- context [if ?b then _ else _] => destruct b; cbn [bound value pending]
           end; lia.
Qed.

(* acquire is enabled exactly when a slot is free *)
Theorem acquire_enabled_iff s : (sstep s Acquire <> None) <-> 0 < value s.
Proof.
  unfold sstep. destruct (0 <? value s) eqn:E; split; intros H; try lia; try congruence.
Qed.

(* release is lax: at the bound it is a no-op, below it adds exactly one *)
Theorem release_lax s :
  (value s < bound s -> value (LaxSem.release s) = value s + 1)
  /\ (bound s <= value s -> LaxSem.release s = s).
Proof.
  unfold LaxSem.release. destruct (value s <? bound s) eqn:E; split; intros; cbn; try lia; auto.
Qed.

(* clear refills to the bound and never lowers the value *)
Theorem clear_refills s : value (clear s) = Z.max (value s) (bound s).
Proof. reflexivity. Qed.
