(* the generated `_timed_out` of TimeoutHandler.handle_timeouts equals the model's test *)
From Coq Require Import ZArith List Bool Lia ZifyBool.
From BV Require Import Lib.PyVal Gen.K_timedout Model.Pool.
Import ListNotations.
Open Scope Z_scope.

Definition optv (o : option Z) : pv := match o with Some z => PInt z | None => PNone end.

Definition res_truth (o : outcome K_timedout.st pv) : bool :=
  match o with Ok v _ => truth v | Exc _ _ => false end.

Lemma gen_timed_out_eq s a b :
  res_truth (K_timedout.timed_out tt (optv a) (optv b) (PInt (now s))) = Pool.timed_out s a b.
Proof.
  unfold K_timedout.timed_out, Pool.timed_out, res_truth.
  destruct a as [x|]; destruct b as [y|]; cbn; try reflexivity.
  - destruct (x =? 0) eqn:E1; cbn; [reflexivity|].
    destruct (y =? 0) eqn:E2; cbn; [reflexivity|].
    destruct (now s >=? x + y) eqn:E3; destruct (x + y <=? now s) eqn:E4; cbn; try reflexivity; lia.
  - destruct (x =? 0); reflexivity.
Qed.

(* it never raises on the values the scan passes (numbers or None) *)
Lemma gen_timed_out_total s a b :
  exists v, K_timedout.timed_out tt (optv a) (optv b) (PInt (now s)) = Ok v tt.
Proof.
  unfold K_timedout.timed_out.
  destruct a as [x|]; destruct b as [y|]; cbn; eauto.
  - destruct (x =? 0); cbn; eauto. destruct (y =? 0); cbn; eauto.
    destruct (now s >=? x + y); cbn; eauto.
  - destruct (x =? 0); cbn; eauto.
Qed.
