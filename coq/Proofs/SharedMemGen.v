(* C15: what the translator regenerated from sharedctypes.py on this run is what the model
   (and hence every theorem about raw_value / raw_array_* / incr_prog) is about. *)
From Coq Require Import List.
From BV Require Import Model.SharedMem Model.SharedHop Gen.G_sharedmem.
Import ListNotations.

(* _new_value and rebuild_ctype, as effect sequences: the reducer of a ctypes type is registered by
   rebuild_ctype, i.e. in every process that allocates OR receives an object of that type *)
Lemma gen_hop_progs :
  G_sharedmem.new_value_prog = SharedHop.new_value_prog /\
  G_sharedmem.rebuild_prog = SharedHop.rebuild_prog.
Proof. split; reflexivity. Qed.

Lemma gen_creation_progs :
  G_sharedmem.rawvalue_prog = SharedMem.rawvalue_prog /\
  G_sharedmem.rawarray_n_prog = SharedMem.rawarray_n_prog /\
  G_sharedmem.rawarray_init_prog = SharedMem.rawarray_init_prog.
Proof. repeat split; reflexivity. Qed.

Lemma gen_accessor_progs :
  G_sharedmem.incr_prog = SharedMem.incr_prog /\
  G_sharedmem.incr_unlocked_prog = SharedMem.incr_unlocked_prog /\
  G_sharedmem.getitem_prog = G_sharedmem.getter_prog /\
  G_sharedmem.setitem_prog = G_sharedmem.setter_prog.
Proof. repeat split; reflexivity. Qed.

Lemma gen_structure :
  new_value_allocates_sizeof_through_bufferwrapper = true /\
  bufferwrapper_keeps_block_size_and_frees_in_finaliser = true /\
  bufferwrapper_views_start_to_start_plus_size = true /\
  pickling_passes_the_wrapper_itself = true /\
  value_and_array_build_on_raw_and_default_to_rlock = true /\
  with_wrapper_and_get_lock_use_the_wrappers_lock = true.
Proof. repeat split; reflexivity. Qed.

(* every branch of synchronized(obj, lock, ctx) is `Wrapper(obj, lock, ctx)`: the caller's lock
   (and ctx) reaches the wrapper whatever the ctypes kind -- simple value, array, char array,
   structure *)
Lemma gen_synchronized_passes_lock :
  G_sharedmem.synchronized_branches = SharedMem.synchronized_branches /\
  G_sharedmem.synchronized_branches_passing_lock_and_ctx = G_sharedmem.synchronized_branches /\
  pickling_a_wrapper_passes_its_object_and_its_lock = true /\
  value_and_array_hand_lock_and_ctx_to_synchronized = true.
Proof. repeat split; reflexivity. Qed.

(* SynchronizedBase.__init__ keeps the lock it is given under the test the model uses: `if lock:` *)
Lemma gen_wrapper_lock_test : G_sharedmem.wrapper_lock_test = SharedMem.wrapper_lock_test.
Proof. reflexivity. Qed.
