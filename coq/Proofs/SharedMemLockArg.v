(* C15: which lock a Synchronized wrapper uses.  SynchronizedBase.__init__ keeps the lock it is given
   only `if lock:` -- by TRUTH VALUE.  A lock object that is false in a boolean context (it defines
   __bool__ or __len__) is silently replaced by a private ctx.RLock(): holders of the given lock and
   holders of the wrapper's lock do not exclude each other, and an update is lost. *)
From Coq Require Import ZArith List Bool Lia.
From BV Require Import Lib.PyVal Model.Heap Model.SharedMem.
Import ListNotations.
Open Scope Z_scope.

(* the strongest true statement: a lock whose truth value is true is the lock used, whatever else *)
Theorem truthy_lock_is_used o l fresh : wr_lock (synchronized_w o (Some (l, true)) fresh) = l.
Proof. reflexivity. Qed.

(* no lock given: a fresh recursive lock *)
Theorem no_lock_gives_fresh o fresh : wr_lock (synchronized_w o None fresh) = fresh.
Proof. reflexivity. Qed.

(* "the lock given is the lock used" is false of the code *)
Theorem given_lock_is_used_refuted :
  exists o l tv fresh, fresh <> l /\ wr_lock (synchronized_w o (Some (l, tv)) fresh) <> l.
Proof. exists none_obj_w, 1, false, 2. split; [discriminate|]. vm_compute. discriminate. Qed.

(* with `if lock is not None:` (or an unconditional assignment) it would hold *)
Theorem given_lock_is_used_with_none_test o l tv fresh :
  wr_lock (synchronized_gen LockNotNone o (Some (l, tv)) fresh) = l /\
  wr_lock (synchronized_gen LockAlways o (Some (l, tv)) fresh) = l.
Proof. split; reflexivity. Qed.

(* the consequence for the property: updater 0 does `with L: v.value += 1` with the lock L it passed as
   lock= (a falsy lock object: the wrapper took a private lock instead, so for the wrapper's lock this
   is the program without the outer acquire); updater 1 does `with v.get_lock(): v.value += 1`.  Each
   believes it holds the object's lock; one of the two increments is lost. *)
Definition mixed_progs (i : nat) : list instr :=
  match i with O => incr_unlocked_prog | _ => incr_prog end.

Theorem falsy_lock_loses_update :
  exists sched, let w := wrun_h mixed_progs (world_init 0 2 1) sched in
                all_done w = true /\ w_val w = 1.
Proof.
  exists [0; 0; 0; 1; 1; 1; 1; 1; 1; 1; 1; 0; 0; 0]%nat. vm_compute. split; reflexivity.
Qed.
