(* C14, threads: the small-step interleaving model (Model/HeapConc.v) refines the sequential model.

   Part A: everything malloc/free do to the free lists commutes with the content of the pending list
           (generalisation of Proofs/HeapRe.v from one appended block to an arbitrary list).
   Part B: refinement -- every interleaved run (any number of threads, any programs, any schedule, appends
           at any moment, also between two iterations of the drain loop) ends in the state of Heap.run on
           a sequential op list, hands out the same blocks in the same order, and raises iff that run raises.
   Part C: safety -- with valid frees no step raises, HeapInv holds after every step, every block
           handed out is well placed and disjoint from all live blocks; mutual exclusion; progress. *)
From Coq Require Import ZArith List Bool Lia ZifyBool Permutation.
From BV Require Import Lib.PyVal Model.Heap Model.HeapConc.
From BV Require Import Proofs.HeapLib Proofs.HeapIdx Proofs.HeapGeo Proofs.HeapRe Proofs.HeapInv.
Import ListNotations.
Open Scope Z_scope.

(* ------------------------------------------------------------------ *)
(* Part A: the pending list is inert                                   *)

Lemma del_keys_pend h p b :
  del_keys (set_pending h p) b = do h' <- del_keys h b; OK (set_pending h' p).
Proof. destruct h. unfold del_keys. crunch. Qed.

Lemma take_pend h p i :
  take (set_pending h p) i = do bh <- take h i; OK (fst bh, set_pending (snd bh) p).
Proof.
  unfold take. prj.
  destruct (nth_error (lengths h) i) as [len|]; [|reflexivity].
  destruct (dget Z.eqb len (l2s h)) as [seq|]; [|reflexivity].
  destruct (pop_last seq) as [[seq' b]|]; [|reflexivity].
  destruct (is_nil seq').
  - destruct (ddel Z.eqb len (l2s h)) as [d|].
    + change (set_l2s_lengths (set_pending h p) d (del_nth i (lengths h)))
        with (set_pending (set_l2s_lengths h d (del_nth i (lengths h))) p).
      rewrite del_keys_pend. destruct (del_keys _ b); reflexivity.
    + rewrite del_keys_pend. destruct (del_keys _ b); reflexivity.
  - change (set_l2s_lengths (set_pending h p) (dset Z.eqb len seq' (l2s h)) (lengths h))
      with (set_pending (set_l2s_lengths h (dset Z.eqb len seq' (l2s h)) (lengths h)) p).
    rewrite del_keys_pend. destruct (del_keys _ b); reflexivity.
Qed.

Lemma c_malloc_pend pg h p size :
  c_malloc pg (set_pending h p) size =
  do bh <- c_malloc pg h size; OK (fst bh, set_pending (snd bh) p).
Proof.
  unfold c_malloc. prj.
  destruct (Nat.eqb (bisect_left (lengths h) size) (length (lengths h))); [reflexivity|].
  apply take_pend.
Qed.

Lemma absorb_pend h p b :
  absorb (set_pending h p) b = do h' <- absorb h b; OK (set_pending h' p).
Proof.
  unfold absorb. rewrite del_keys_pend. destruct (del_keys h b) as [h1|e]; [|reflexivity].
  destruct h1. crunch.
Qed.

Lemma free_prev_pend h p b :
  free_prev (set_pending h p) b = do hs <- free_prev h b; OK (set_pending (fst hs) p, snd hs).
Proof.
  unfold free_prev. prj. destruct (dget key_eqb (skey b) (e2b h)) as [q|]; [|reflexivity].
  rewrite absorb_pend. destruct (absorb h q); reflexivity.
Qed.

Lemma free_next_pend h p b :
  free_next (set_pending h p) b = do hs <- free_next h b; OK (set_pending (fst hs) p, snd hs).
Proof.
  unfold free_next. prj. destruct (dget key_eqb (ekey b) (s2b h)) as [q|]; [|reflexivity].
  rewrite absorb_pend. destruct (absorb h q); reflexivity.
Qed.

Lemma free_insert_pend h p m :
  free_insert (set_pending h p) m = set_pending (free_insert h m) p.
Proof. destruct h. unfold free_insert. crunch. Qed.

Lemma c_free_pend h p b :
  c_free (set_pending h p) b = do h' <- c_free h b; OK (set_pending h' p).
Proof.
  unfold c_free. rewrite free_prev_pend. destruct (free_prev h b) as [[h1 st]|e]; [|reflexivity].
  cbn [bind fst snd]. rewrite free_next_pend. destruct (free_next h1 b) as [[h2 en]|e]; [|reflexivity].
  cbn [bind fst snd]. rewrite free_insert_pend. reflexivity.
Qed.

Lemma free_one_pend h p b :
  free_one (set_pending h p) b = do h' <- free_one h b; OK (set_pending h' p).
Proof.
  unfold free_one. prj. destruct (remove1 block_eqb b (alloc h)) as [a|]; [|reflexivity].
  change (set_alloc (set_pending h p) a) with (set_pending (set_alloc h a) p).
  apply c_free_pend.
Qed.

Lemma malloc_body_pend pg h p n :
  malloc_body pg (set_pending h p) n =
  do bh <- malloc_body pg h n; OK (fst bh, set_pending (snd bh) p).
Proof.
  unfold malloc_body. rewrite c_malloc_pend.
  destruct (c_malloc pg h (norm_size n)) as [[blk h2]|e]; [|reflexivity]. cbn [bind fst snd].
  destruct (b_start blk + norm_size n <? b_stop blk).
  - rewrite c_free_pend. destruct (c_free h2 _) as [h3|e]; reflexivity.
  - reflexivity.
Qed.

(* the sequential malloc/free are "drain, then the body" *)
Lemma malloc_split pg h n :
  malloc pg h n = if (n <? 0) || (maxsize <=? n) then Err AssertionError
                  else do h1 <- drain h; malloc_body pg h1 n.
Proof. reflexivity. Qed.

Definition clr (h : heap) : heap := set_pending h [].

Lemma drain_clr h : drain (clr h) = OK (clr h).
Proof. reflexivity. Qed.

Lemma clr_set_pending h p : clr (set_pending h p) = clr h.
Proof. reflexivity. Qed.

Lemma clr_pending_nil h : pending h = [] -> clr h = h.
Proof. destruct h. cbn. intros ->. reflexivity. Qed.

Lemma set_pending_self h : set_pending h (pending h) = h.
Proof. destruct h. reflexivity. Qed.

(* ------------------------------------------------------------------ *)
(* Part B: refinement                                                   *)

Lemma run_runr pg ops : forall h,
  run pg h ops = do bh <- runr pg h ops; OK (snd bh).
Proof.
  induction ops as [|o r IH]; intros h; [reflexivity|].
  cbn [run runr]. destruct (step pg h o) as [[x h']|e]; [|reflexivity]. cbn [bind].
  rewrite IH. destruct (runr pg h' r) as [[bs hf]|e]; reflexivity.
Qed.

Lemma runr_app pg a : forall h b,
  runr pg h (a ++ b) =
  do r1 <- runr pg h a; do r2 <- runr pg (snd r1) b; OK (fst r1 ++ fst r2, snd r2).
Proof.
  induction a as [|o r IH]; intros h b.
  - cbn [app runr bind fst snd]. destruct (runr pg h b) as [[bs hf]|e]; reflexivity.
  - cbn [app runr]. destruct (step pg h o) as [[x h']|e]; [|reflexivity]. cbn [bind].
    rewrite IH. destruct (runr pg h' r) as [[bs1 h1]|e]; [|reflexivity]. cbn [bind fst snd].
    destruct (runr pg h1 b) as [[bs2 h2]|e]; [|reflexivity]. cbn [bind fst snd].
    destruct x; reflexivity.
Qed.

(* deferred frees at the end of a history only rebuild the pending list *)
Lemma run_deferred pg p : forall h,
  run pg h (map FreeDeferred p) = OK (set_pending h (pending h ++ p)).
Proof.
  induction p as [|v r IH]; intros h; cbn [map run].
  - rewrite app_nil_r, set_pending_self. reflexivity.
  - cbn [step bind]. rewrite IH. unfold free_deferred. cbn [pending set_pending].
    rewrite <- app_assoc. reflexivity.
Qed.

(* the size assert was passed by every thread that is inside malloc *)
Definition pc_assert_ok (p : pc) : Prop :=
  match p with
  | PMEnter n | PMDrain n | PMBody n => (n <? 0) || (maxsize <=? n) = false
  | _ => True
  end.
Definition AssertOk (c : config) : Prop := Forall (fun th => pc_assert_ok (t_pc th)) (c_threads c).

Lemma Forall_upd {A} (P : A -> Prop) l : forall i x, Forall P l -> P x -> Forall P (upd l i x).
Proof.
  induction l as [|y r IH]; intros i x Hl Hx; [destruct i; constructor|].
  inversion Hl; subst. destruct i; cbn [upd]; constructor; auto.
Qed.

Lemma Forall_nth_error {A} (P : A -> Prop) l i x : Forall P l -> nth_error l i = Some x -> P x.
Proof. intros Hl Hn. rewrite Forall_forall in Hl. apply Hl. eapply nth_error_In; eassumption. Qed.

Lemma cinit_assert_ok h progs : AssertOk (cinit h progs).
Proof.
  unfold AssertOk, cinit. cbn [c_threads]. induction progs; cbn [map]; constructor; [exact I|assumption].
Qed.

Lemma free_clr h b : free (clr h) b = free_one (clr h) b.
Proof. reflexivity. Qed.

Lemma free_one_clr h b : free_one (clr h) b = do h' <- free_one h b; OK (clr h').
Proof. apply free_one_pend. Qed.

(* one step: what it does to the heap is what its sequential ops do to the heap without its pending list *)
Definition step_spec (pg : Z) (c : config) (ev : event) : Prop :=
  match cstep pg c ev with
  | None => True
  | Some (OK c') =>
    AssertOk c' /\
    exists bs, runr pg (clr (c_heap c)) (lin_step c ev) = OK (bs, clr (c_heap c')) /\
               map snd (c_log c') = map snd (c_log c) ++ bs
  | Some (Err e) => exists x, runr pg (clr (c_heap c)) (lin_step c ev) = Err e /\ x = tt
  end.

Ltac same_heap HA t p :=
  split; [apply Forall_upd; [exact HA|try exact I; try assumption]|];
  exists []; split; [reflexivity|cbn [c_log set_thread]; rewrite app_nil_r; reflexivity].

Lemma drain_step_spec h :
  match drain_step h with
  | OK None => pop_last (pending h) = None
  | OK (Some h') => exists rest b, pop_last (pending h) = Some (rest, b) /\
                                   step 0 (clr h) (Free b) = OK (None, clr h')
  | Err e => exists rest b, pop_last (pending h) = Some (rest, b) /\ step 0 (clr h) (Free b) = Err e
  end.
Proof.
  unfold drain_step. destruct (pop_last (pending h)) as [[rest b]|] eqn:Ep; [|reflexivity].
  rewrite free_one_pend.
  destruct (free_one h b) as [h'|e] eqn:Ef; cbn [bind]; exists rest, b; (split; [reflexivity|]);
    cbn [step]; rewrite free_clr, free_one_clr, Ef; reflexivity.
Qed.

Lemma step_pg_free pg pg' h b : step pg h (Free b) = step pg' h (Free b).
Proof. reflexivity. Qed.

Lemma cstep_lin pg c ev : AssertOk c -> step_spec pg c ev.
Proof.
  intros HA. unfold step_spec. destruct ev as [t|v].
  2:{ cbn [cstep]. split; [exact HA|]. exists []. split; [reflexivity|]. cbn [c_log]. rewrite app_nil_r. reflexivity. }
  cbn [cstep lin_step]. unfold tstep.
  destruct (nth_error (c_threads c) t) as [th|] eqn:Eth; [|exact I].
  pose proof (Forall_nth_error _ _ _ _ HA Eth) as Hpc.
  destruct th as [p prog]. cbn [t_pc t_prog] in *.
  destruct p as [|n|n|n|b|b|b|b|]; cbn [pc_assert_ok] in Hpc.
  - (* PIdle *)
    destruct prog as [|[n|b] r]; [exact I| |].
    + destruct ((n <? 0) || (maxsize <=? n)) eqn:Ea.
      * exists tt. split; [|reflexivity]. cbn [runr step]. rewrite malloc_split, Ea. reflexivity.
      * same_heap HA t (PMEnter n).
    + destruct (is_free_lock (c_lock c)); same_heap HA t PIdle.
  - (* PMEnter *)
    destruct (is_free_lock (c_lock c)); [|exact I]. same_heap HA t (PMDrain n).
  - (* PMDrain *)
    pose proof (drain_step_spec (c_heap c)) as Hd.
    destruct (drain_step (c_heap c)) as [[h'|]|e].
    + destruct Hd as [rest [b [Ep Es]]]. rewrite Ep.
      split; [apply Forall_upd; [exact HA|exact Hpc]|].
      exists []. split; [|cbn [c_log set_thread]; rewrite app_nil_r; reflexivity].
      cbn [runr]. rewrite (step_pg_free pg 0), Es. reflexivity.
    + rewrite Hd. same_heap HA t (PMBody n).
    + destruct Hd as [rest [b [Ep Es]]]. rewrite Ep. exists tt. split; [|reflexivity].
      cbn [runr]. rewrite (step_pg_free pg 0), Es. reflexivity.
  - (* PMBody *)
    assert (Em : malloc pg (clr (c_heap c)) n =
                 do bh <- malloc_body pg (c_heap c) n; OK (fst bh, clr (snd bh))).
    { rewrite malloc_split, Hpc, drain_clr. cbn [bind]. apply malloc_body_pend. }
    destruct (malloc_body pg (c_heap c) n) as [[b h']|e].
    + split; [apply Forall_upd; [exact HA|exact I]|].
      exists [b]. split; [|cbn [c_log]; rewrite map_app; reflexivity].
      cbn [runr step]. rewrite Em. reflexivity.
    + exists tt. split; [|reflexivity]. cbn [runr step]. rewrite Em. reflexivity.
  - (* PMExit *) same_heap HA t PIdle.
  - (* PFQueue *) same_heap HA t PIdle.
  - (* PFDrain *)
    pose proof (drain_step_spec (c_heap c)) as Hd.
    destruct (drain_step (c_heap c)) as [[h'|]|e].
    + destruct Hd as [rest [b' [Ep Es]]]. rewrite Ep.
      split; [apply Forall_upd; [exact HA|exact I]|].
      exists []. split; [|cbn [c_log set_thread]; rewrite app_nil_r; reflexivity].
      cbn [runr]. rewrite (step_pg_free pg 0), Es. reflexivity.
    + rewrite Hd. same_heap HA t (PFBody b).
    + destruct Hd as [rest [b' [Ep Es]]]. rewrite Ep. exists tt. split; [|reflexivity].
      cbn [runr]. rewrite (step_pg_free pg 0), Es. reflexivity.
  - (* PFBody *)
    assert (Ef : free (clr (c_heap c)) b = do h' <- free_one (c_heap c) b; OK (clr h')).
    { rewrite free_clr. apply free_one_clr. }
    destruct (free_one (c_heap c) b) as [h'|e].
    + split; [apply Forall_upd; [exact HA|exact I]|].
      exists []. split; [|cbn [c_log set_thread]; rewrite app_nil_r; reflexivity].
      cbn [runr step]. rewrite Ef. reflexivity.
    + exists tt. split; [|reflexivity]. cbn [runr step]. rewrite Ef. reflexivity.
  - (* PFExit *) same_heap HA t PIdle.
Qed.

(* every schedule: the blocks handed out and the final heap (minus its pending list) are those of the
   sequential run of [lin]; an exception in the interleaved run is the exception of the sequential run *)
Theorem conc_refines_gen pg sched : forall c, AssertOk c ->
  match crun pg c sched with
  | None => True
  | Some (OK c') =>
    exists bs, runr pg (clr (c_heap c)) (lin pg c sched) = OK (bs, clr (c_heap c')) /\
               map snd (c_log c') = map snd (c_log c) ++ bs
  | Some (Err e) => runr pg (clr (c_heap c)) (lin pg c sched) = Err e
  end.
Proof.
  induction sched as [|ev r IH]; intros c HA.
  - cbn [crun lin runr]. exists []. split; [reflexivity|rewrite app_nil_r; reflexivity].
  - cbn [crun lin]. pose proof (cstep_lin pg c ev HA) as Hs. unfold step_spec in Hs.
    destruct (cstep pg c ev) as [[c1|e]|]; [| |exact I].
    + destruct Hs as [HA1 [bs1 [E1 L1]]]. specialize (IH c1 HA1).
      rewrite runr_app, E1. cbn [bind fst snd].
      destruct (crun pg c1 r) as [[c'|e]|]; [| |exact I].
      * destruct IH as [bs2 [E2 L2]]. rewrite E2. cbn [bind fst snd].
        exists (bs1 ++ bs2). split; [reflexivity|]. rewrite L2, L1, app_assoc. reflexivity.
      * rewrite IH. reflexivity.
    + destruct Hs as [x [E1 _]]. rewrite app_nil_r. exact E1.
Qed.

(* the form quoted in Props/C14.v: from a heap whose pending list is empty, all threads idle.
   The final state INCLUDING its pending list is the state of Heap.run on
   lin ++ the frees still queued, as deferred frees. *)
Theorem conc_refines pg h0 progs sched c : pending h0 = [] ->
  crun pg (cinit h0 progs) sched = Some (OK c) ->
  let ops := lin pg (cinit h0 progs) sched in
  runr pg h0 ops = OK (map snd (c_log c), clr (c_heap c)) /\
  run pg h0 (ops ++ map FreeDeferred (pending (c_heap c))) = OK (c_heap c).
Proof.
  intros Hp Hr ops.
  pose proof (conc_refines_gen pg sched (cinit h0 progs) (cinit_assert_ok h0 progs)) as H.
  rewrite Hr in H. destruct H as [bs [E L]]. cbn [cinit c_heap c_log map app] in E, L.
  rewrite (clr_pending_nil h0 Hp) in E. subst bs. fold ops in E.
  split; [exact E|].
  rewrite run_runr, runr_app, E. cbn [bind fst snd].
  pose proof (run_deferred pg (pending (c_heap c)) (clr (c_heap c))) as Hd.
  rewrite run_runr in Hd.
  destruct (runr pg (clr (c_heap c)) (map FreeDeferred (pending (c_heap c)))) as [[bs2 hf]|e];
    cbn [bind snd fst] in *; [|discriminate].
  inversion Hd as [Hf]. f_equal. destruct (c_heap c); reflexivity.
Qed.

Theorem conc_refines_err pg h0 progs sched e : pending h0 = [] ->
  crun pg (cinit h0 progs) sched = Some (Err e) ->
  run pg h0 (lin pg (cinit h0 progs) sched) = Err e.
Proof.
  intros Hp Hr.
  pose proof (conc_refines_gen pg sched (cinit h0 progs) (cinit_assert_ok h0 progs)) as H.
  rewrite Hr in H. cbn [cinit c_heap] in H. rewrite (clr_pending_nil h0 Hp) in H.
  rewrite run_runr. fold (cinit h0 progs) in H. rewrite H. reflexivity.
Qed.

(* ------------------------------------------------------------------ *)
(* Part C: safety, mutual exclusion, progress                          *)

(* blocks whose free() has been called and not yet applied nor queued: the block of a free that holds
   the lock, and the blocks of frees whose try-lock failed and that are about to append *)
Definition inflight_pc (p : pc) : list block :=
  match p with PFQueue b | PFDrain b | PFBody b => [b] | _ => [] end.
Definition inflight (ths : list thread) : list block := flat_map (fun th => inflight_pc (t_pc th)) ths.
Definition owed (c : config) : list block := inflight (c_threads c) ++ pending (c_heap c).

(* a list of distinct live blocks *)
Definition QOK (q a : list block) : Prop := NoDup q /\ forall x, In x q -> In x a.

Record CInv (c : config) : Prop := {
  ci_g : GInv (c_heap c) [];
  ci_q : QOK (owed c) (alloc (c_heap c));
  ci_assert : AssertOk c }.

Lemma nodup_app_tail {A} (l1 l2 : list A) : NoDup (l1 ++ l2) -> NoDup l2.
Proof. induction l1 as [|a r IH]; cbn; [trivial|]. intros H; inversion H; auto. Qed.

Lemma CInv_HeapInv c : CInv c -> HeapInv (c_heap c).
Proof.
  intros [HG [Hnd Hin] _]. split; [exact HG|]. unfold owed in *. split.
  - eapply nodup_app_tail; eassumption.
  - intros x Hx. apply Hin, in_or_app. right; assumption.
Qed.

(* each block is freed at most once, after malloc returned it; sizes pass the assert *)
Definition cvalid_ev (c : config) (ev : event) : Prop :=
  match ev with
  | EAppend v => In v (alloc (c_heap c)) /\ ~ In v (owed c)
  | EStep t =>
    match nth_error (c_threads c) t with
    | Some th =>
      match t_pc th, t_prog th with
      | PIdle, RMalloc n :: _ => 0 <= n < maxsize
      | PIdle, RFree b :: _ => In b (alloc (c_heap c)) /\ ~ In b (owed c)
      | _, _ => True
      end
    | None => True
    end
  end.

Fixpoint cvalid_run (pg : Z) (c : config) (sched : list event) : Prop :=
  match sched with
  | [] => True
  | ev :: r => cvalid_ev c ev /\ forall c', cstep pg c ev = Some (OK c') -> cvalid_run pg c' r
  end.

Lemma QOK_perm q q' a : Permutation q q' -> QOK q a -> QOK q' a.
Proof.
  intros HP [Hnd Hin]. split; [eapply Permutation_NoDup; eassumption|].
  intros x Hx. apply Hin. eapply Permutation_in; [apply Permutation_sym; exact HP|exact Hx].
Qed.
Lemma QOK_cons b q a : QOK q a -> ~ In b q -> In b a -> QOK (b :: q) a.
Proof. intros [Hnd Hin] Hb Ha. split; [constructor; assumption|]. intros x [<-|Hx]; auto. Qed.
Lemma QOK_remove b q a a' : QOK (b :: q) a -> Permutation a (b :: a') -> QOK q a'.
Proof.
  intros [Hnd Hin] HP. inversion Hnd as [|? ? Hni Hnd']; subst. split; [assumption|].
  intros x Hx. assert (Hxa : In x a) by (apply Hin; right; assumption).
  eapply Permutation_in in Hxa; [|exact HP]. destruct Hxa as [<-|]; [contradiction|assumption].
Qed.
Lemma QOK_weaken q a a' : QOK q a -> (forall x, In x a -> In x a') -> QOK q a'.
Proof. intros [Hnd Hin] H. split; auto. Qed.

Lemma nth_error_upd_split {A} (l : list A) : forall t x y, nth_error l t = Some x ->
  exists l1 l2, l = l1 ++ x :: l2 /\ upd l t y = l1 ++ y :: l2 /\ length l1 = t.
Proof.
  induction l as [|a r IH]; intros [|t] x y Hn; cbn in Hn; try discriminate.
  - inversion Hn; subst. exists [], r. repeat split.
  - destruct (IH t x y Hn) as [l1 [l2 [E1 [E2 E3]]]]. exists (a :: l1), l2. cbn [upd app length].
    rewrite <- E1, E2, E3. repeat split.
Qed.

Lemma inflight_app l1 l2 : inflight (l1 ++ l2) = inflight l1 ++ inflight l2.
Proof. apply flat_map_app. Qed.

(* how the set of owed blocks changes when thread t moves from pc p to pc p' *)
Lemma inflight_upd ths t th p' prog' : nth_error ths t = Some th ->
  exists l1 l2, inflight ths = l1 ++ inflight_pc (t_pc th) ++ l2 /\
                inflight (upd ths t (mk_thread p' prog')) = l1 ++ inflight_pc p' ++ l2.
Proof.
  intros Hn. destruct (nth_error_upd_split ths t th (mk_thread p' prog') Hn) as [l1 [l2 [E1 [E2 _]]]].
  exists (inflight l1), (inflight l2). rewrite E2. rewrite E1 at 1.
  rewrite !inflight_app. cbn [inflight flat_map t_pc]. fold (inflight l2). split; reflexivity.
Qed.

Lemma inflight_upd_same ths t th p' prog' : nth_error ths t = Some th ->
  inflight_pc (t_pc th) = inflight_pc p' -> inflight (upd ths t (mk_thread p' prog')) = inflight ths.
Proof.
  intros Hn E. destruct (inflight_upd ths t th p' prog' Hn) as [l1 [l2 [E1 E2]]]. rewrite E2, E1, E. reflexivity.
Qed.

Lemma inflight_upd_add ths t th p' prog' b : nth_error ths t = Some th ->
  inflight_pc (t_pc th) = [] -> inflight_pc p' = [b] ->
  Permutation (inflight (upd ths t (mk_thread p' prog'))) (b :: inflight ths).
Proof.
  intros Hn E E'. destruct (inflight_upd ths t th p' prog' Hn) as [l1 [l2 [E1 E2]]].
  rewrite E2, E1, E, E'. cbn [app]. apply Permutation_sym, Permutation_middle.
Qed.

Lemma inflight_upd_del ths t th p' prog' b : nth_error ths t = Some th ->
  inflight_pc (t_pc th) = [b] -> inflight_pc p' = [] ->
  Permutation (inflight ths) (b :: inflight (upd ths t (mk_thread p' prog'))).
Proof.
  intros Hn E E'. destruct (inflight_upd ths t th p' prog' Hn) as [l1 [l2 [E1 E2]]].
  rewrite E2, E1, E, E'. cbn [app]. apply Permutation_sym, Permutation_middle.
Qed.

Lemma GInv_pend h p : GInv h [] -> GInv (set_pending h p) [].
Proof.
  intros [HI HG HC]. constructor; [eapply IdxInv_same; [| | | |exact HI]; reflexivity|exact HG|exact HC].
Qed.

Lemma set_pending_clr h : set_pending (clr h) (pending h) = h.
Proof. destruct h; reflexivity. Qed.

(* the facts about a block handed out by the body of malloc(n) in heap h (pending list arbitrary) *)
Definition handed_out (pg : Z) (h : heap) (n : Z) (b : block) (h' : heap) : Prop :=
  alloc h' = b :: alloc h /\ ~ In b (alloc h) /\ pending h' = pending h /\
  blen b = norm_size n /\ Z.max n 1 <= blen b /\ wf (arenas h') b /\
  (forall x, In x (alloc h) -> disj b x) /\
  ((arenas h' = arenas h /\
    exists blk, In blk (F h) /\ b_arena b = b_arena blk /\ b_start b = b_start blk /\
                norm_size n <= blen blk /\
                forall x, In x (F h) -> norm_size n <= blen x -> blen blk <= blen x)
   \/
   (arenas h' = arenas h ++ [arena_length (nsize h) (norm_size n) pg] /\
    b_arena b = Z.of_nat (length (arenas h)) /\ b_start b = 0 /\
    forall x, In x (F h) -> blen x < norm_size n)).

Lemma malloc_body_ok pg h n : pg_ok pg -> GInv h [] -> (n <? 0) || (maxsize <=? n) = false ->
  exists b h', malloc_body pg h n = OK (b, h') /\ GInv h' [] /\ handed_out pg h n b h'.
Proof.
  intros Hpg HG Ha.
  assert (HI : HeapInv (clr h)).
  { split; [apply GInv_pend; assumption|]. split; [constructor|intros x []]. }
  assert (Hn : 0 <= n < maxsize) by lia.
  destruct (malloc_ok pg (clr h) n Hpg HI Hn) as [b [h1 [hd [E [Ed [HI1 [Hp1 [Hlen [Hal [Hni Hcase]]]]]]]]]].
  rewrite drain_clr in Ed. inversion Ed; subst hd. clear Ed.
  rewrite malloc_split, Ha, drain_clr in E. cbn [bind] in E.
  pose proof (malloc_body_pend pg (clr h) (pending h) n) as Em. rewrite set_pending_clr, E in Em.
  cbn [bind fst snd] in Em.
  exists b, (set_pending h1 (pending h)). split; [exact Em|].
  destruct HI1 as [HG1 _]. split; [apply GInv_pend; assumption|].
  change (alloc (clr h)) with (alloc h) in *. change (F (clr h)) with (F h) in *.
  change (arenas (clr h)) with (arenas h) in *. change (nsize (clr h)) with (nsize h) in *.
  unfold handed_out. cbn [set_pending alloc pending arenas].
  split; [assumption|]. split; [assumption|]. split; [reflexivity|]. split; [assumption|].
  split; [destruct (norm_size_props n ltac:(lia)); lia|].
  assert (HbL : In b (L h1 [])) by (unfold L; apply in_or_app; right; apply in_or_app; left; rewrite Hal; left; reflexivity).
  split; [eapply geo_wf; [exact (gi_geo _ _ HG1)|exact HbL]|].
  split.
  - intros x Hx. eapply geo_disj; [exact (gi_geo _ _ HG1)|exact HbL| |].
    + unfold L. apply in_or_app; right. apply in_or_app; left. rewrite Hal. right; assumption.
    + intros ->. contradiction.
  - destruct Hcase as [[H1 [_ H3]]|[H1 [_ [H3 [H4 H5]]]]]; [left; auto|right; auto].
Qed.

(* one valid step from a good configuration: it does not raise, the configuration stays good, and if
   it hands out a block (the body of some thread's malloc) the block has the C14 properties with
   respect to the heap AT THAT MOMENT *)
Definition step_safe (pg : Z) (c : config) (ev : event) : Prop :=
  match cstep pg c ev with
  | None => True
  | Some r =>
    exists c', r = OK c' /\ CInv c' /\
      (c_log c' = c_log c \/
       exists t n b, c_log c' = c_log c ++ [(t, b)] /\ handed_out pg (c_heap c) n b (c_heap c'))
  end.

Ltac keep_q HQ Hn :=
  unfold owed in *; cbn [c_threads c_heap set_thread];
  rewrite (inflight_upd_same _ _ _ _ _ Hn) by reflexivity; exact HQ.

Lemma drain_step_ok c : CInv c ->
  match drain_step (c_heap c) with
  | OK None => True
  | OK (Some h') => GInv h' [] /\ QOK (inflight (c_threads c) ++ pending h') (alloc h')
  | Err _ => False
  end.
Proof.
  intros [HG HQ _]. unfold drain_step.
  pose proof (pop_last_spec (pending (c_heap c))) as Hp.
  destruct (pop_last (pending (c_heap c))) as [[rest b]|]; [|exact I].
  assert (Hb : In b (alloc (c_heap c))).
  { apply (proj2 HQ). unfold owed. rewrite Hp. apply in_or_app; right. apply in_or_app; right. left; reflexivity. }
  destruct (free_one_ok (set_pending (c_heap c) rest) b (GInv_pend _ rest HG) Hb)
    as [h' [E [HG' [_ [_ [Hp' HP]]]]]].
  rewrite E. cbn [bind]. split; [assumption|].
  cbn [set_pending pending alloc] in Hp', HP. rewrite Hp'.
  eapply QOK_remove; [|exact HP]. eapply QOK_perm; [|exact HQ].
  unfold owed. rewrite Hp, app_assoc. apply Permutation_sym, Permutation_cons_append.
Qed.

Lemma cstep_safe pg c ev : pg_ok pg -> CInv c -> cvalid_ev c ev -> step_safe pg c ev.
Proof.
  intros Hpg HC Hv. unfold step_safe. destruct HC as [HG HQ HA] eqn:EC. clear EC.
  destruct ev as [t|v].
  2:{ cbn [cstep]. eexists. split; [reflexivity|]. split; [|left; reflexivity].
      cbn [cvalid_ev] in Hv. destruct Hv as [Hv Hnv]. constructor; cbn [c_heap c_threads].
      - apply GInv_pend. exact HG.
      - unfold owed in *. cbn [c_heap c_threads free_deferred set_pending pending alloc].
        eapply QOK_perm; [|apply (QOK_cons v _ _ HQ Hnv Hv)].
        rewrite app_assoc. apply Permutation_cons_append.
      - exact HA. }
  cbn [cstep cvalid_ev] in *. unfold tstep.
  destruct (nth_error (c_threads c) t) as [th|] eqn:Eth; [|exact I].
  pose proof (Forall_nth_error _ _ _ _ HA Eth) as Hpc.
  destruct th as [p prog]. cbn [t_pc t_prog] in *.
  destruct p as [|n|n|n|b|b|b|b|]; cbn [pc_assert_ok] in Hpc.
  - (* PIdle *)
    destruct prog as [|[n|b] r]; [exact I| |].
    + assert (Ea : (n <? 0) || (maxsize <=? n) = false) by lia. rewrite Ea.
      eexists. split; [reflexivity|]. split; [|left; reflexivity].
      constructor; [exact HG|keep_q HQ Eth|apply Forall_upd; [exact HA|exact Ea]].
    + destruct Hv as [Hb Hnb].
      destruct (is_free_lock (c_lock c)); (eexists; split; [reflexivity|]; split; [|left; reflexivity]);
        (constructor; [exact HG| |apply Forall_upd; [exact HA|exact I]]);
        unfold owed in *; cbn [c_threads c_heap set_thread];
        (eapply QOK_perm; [apply Permutation_sym; apply Permutation_app_tail;
                           eapply (inflight_upd_add _ _ _ _ _ b Eth); reflexivity|]);
        apply QOK_cons; assumption.
  - (* PMEnter *)
    destruct (is_free_lock (c_lock c)); [|exact I].
    eexists. split; [reflexivity|]. split; [|left; reflexivity].
    constructor; [exact HG|keep_q HQ Eth|apply Forall_upd; [exact HA|exact Hpc]].
  - (* PMDrain *)
    pose proof (drain_step_ok c (Build_CInv c HG HQ HA)) as Hd.
    destruct (drain_step (c_heap c)) as [[h'|]|e]; [| |contradiction].
    + destruct Hd as [HG' HQ']. eexists. split; [reflexivity|]. split; [|left; reflexivity].
      constructor; [exact HG'| |apply Forall_upd; [exact HA|exact Hpc]].
      unfold owed. cbn [c_threads c_heap set_thread].
      rewrite (inflight_upd_same _ _ _ _ _ Eth) by reflexivity. exact HQ'.
    + eexists. split; [reflexivity|]. split; [|left; reflexivity].
      constructor; [exact HG|keep_q HQ Eth|apply Forall_upd; [exact HA|exact Hpc]].
  - (* PMBody *)
    destruct (malloc_body_ok pg (c_heap c) n Hpg HG Hpc) as [b [h' [E [HG' Hho]]]].
    rewrite E. eexists. split; [reflexivity|]. split.
    + constructor; cbn [c_heap c_threads]; [exact HG'| |apply Forall_upd; [exact HA|exact I]].
      unfold owed in *. cbn [c_threads c_heap].
      rewrite (inflight_upd_same _ _ _ _ _ Eth) by reflexivity.
      destruct Hho as [Hal [_ [Hpe _]]]. rewrite Hpe.
      eapply QOK_weaken; [exact HQ|]. intros x Hx. rewrite Hal. right; assumption.
    + right. exists t, n, b. split; [reflexivity|exact Hho].
  - (* PMExit *)
    eexists. split; [reflexivity|]. split; [|left; reflexivity].
    constructor; [exact HG|keep_q HQ Eth|apply Forall_upd; [exact HA|exact I]].
  - (* PFQueue *)
    eexists. split; [reflexivity|]. split; [|left; reflexivity].
    constructor; cbn [c_heap c_threads set_thread]; [apply GInv_pend; exact HG| |apply Forall_upd; [exact HA|exact I]].
    unfold owed in *. cbn [c_threads c_heap set_thread free_deferred set_pending pending alloc].
    eapply QOK_perm; [|exact HQ].
    eapply Permutation_trans; [apply Permutation_app_tail; eapply (inflight_upd_del _ _ _ PIdle prog b Eth); reflexivity|].
    cbn [app]. rewrite app_assoc. apply Permutation_cons_append.
  - (* PFDrain *)
    pose proof (drain_step_ok c (Build_CInv c HG HQ HA)) as Hd.
    destruct (drain_step (c_heap c)) as [[h'|]|e]; [| |contradiction].
    + destruct Hd as [HG' HQ']. eexists. split; [reflexivity|]. split; [|left; reflexivity].
      constructor; [exact HG'| |apply Forall_upd; [exact HA|exact I]].
      unfold owed. cbn [c_threads c_heap set_thread].
      rewrite (inflight_upd_same _ _ _ _ _ Eth) by reflexivity. exact HQ'.
    + eexists. split; [reflexivity|]. split; [|left; reflexivity].
      constructor; [exact HG|keep_q HQ Eth|apply Forall_upd; [exact HA|exact I]].
  - (* PFBody *)
    assert (HPq : Permutation (owed c) (b :: inflight (upd (c_threads c) t (mk_thread PFExit prog)) ++ pending (c_heap c))).
    { unfold owed. change (b :: ?l ++ ?r) with ((b :: l) ++ r). apply Permutation_app_tail.
      eapply (inflight_upd_del _ _ _ PFExit prog b Eth); reflexivity. }
    assert (Hb : In b (alloc (c_heap c))).
    { apply (proj2 HQ). eapply Permutation_in; [apply Permutation_sym; exact HPq|left; reflexivity]. }
    destruct (free_one_ok (c_heap c) b HG Hb) as [h' [E [HG' [_ [_ [Hp' HP]]]]]].
    rewrite E. eexists. split; [reflexivity|]. split; [|left; reflexivity].
    constructor; cbn [c_heap c_threads set_thread]; [exact HG'| |apply Forall_upd; [exact HA|exact I]].
    unfold owed. cbn [c_threads c_heap set_thread]. rewrite Hp'.
    eapply QOK_remove; [|exact HP]. eapply QOK_perm; [exact HPq|exact HQ].
  - (* PFExit *)
    eexists. split; [reflexivity|]. split; [|left; reflexivity].
    constructor; [exact HG|keep_q HQ Eth|apply Forall_upd; [exact HA|exact I]].
Qed.

Lemma cinit_inv h progs : HeapInv h -> CInv (cinit h progs).
Proof.
  intros [HG [Hnd Hin]]. constructor; [exact HG| |apply cinit_assert_ok].
  unfold owed, cinit. cbn [c_threads c_heap].
  assert (E : inflight (map (mk_thread PIdle) progs) = []).
  { induction progs as [|p r IH]; [reflexivity|]. cbn [map inflight flat_map t_pc inflight_pc app]. exact IH. }
  rewrite E. split; assumption.
Qed.

(* all schedules with valid frees: no exception at any step, the invariant after every step *)
Theorem conc_safe pg sched : pg_ok pg -> forall c, CInv c -> cvalid_run pg c sched ->
  match crun pg c sched with
  | None => True
  | Some r => exists c', r = OK c' /\ CInv c'
  end.
Proof.
  intros Hpg. induction sched as [|ev r IH]; intros c HC Hv; cbn [crun].
  - eauto.
  - destruct Hv as [Hv Hr]. pose proof (cstep_safe pg c ev Hpg HC Hv) as Hs. unfold step_safe in Hs.
    destruct (cstep pg c ev) as [r0|]; [|exact I].
    destruct Hs as [c1 [-> [HC1 _]]]. apply IH; [assumption|]. apply Hr. reflexivity.
Qed.

(* ---- mutual exclusion: the steps "under the lock" of two threads are never interleaved ---- *)
Definition LockInv (c : config) : Prop :=
  (forall t th, nth_error (c_threads c) t = Some th -> (holds_lock (t_pc th) = true <-> c_lock c = Some t)) /\
  (forall t, c_lock c = Some t -> exists th, nth_error (c_threads c) t = Some th).

Lemma nth_error_upd {A} (l : list A) : forall t x t',
  nth_error (upd l t x) t' = if Nat.eqb t' t then (match nth_error l t with Some _ => Some x | None => None end)
                             else nth_error l t'.
Proof.
  induction l as [|a r IH]; intros t x t'.
  - cbn [upd]. destruct (Nat.eqb t' t); destruct t; destruct t'; reflexivity.
  - destruct t as [|t]; destruct t' as [|t']; cbn [upd nth_error Nat.eqb]; try reflexivity. apply IH.
Qed.

Lemma lock_inv_upd c t th p' prog' h' lk' :
  LockInv c -> nth_error (c_threads c) t = Some th ->
  (holds_lock p' = true <-> lk' = Some t) ->
  (forall t', t' <> t -> (c_lock c = Some t' <-> lk' = Some t')) ->
  LockInv (set_thread c t p' prog' h' lk').
Proof.
  intros [H1 H2] Hn Hp Hother. split; cbn [set_thread c_threads c_lock].
  - intros t' th' Hn'. rewrite nth_error_upd, Hn in Hn'.
    destruct (Nat.eqb t' t) eqn:E.
    + apply Nat.eqb_eq in E. subst t'. inversion Hn'; subst th'. cbn [t_pc]. exact Hp.
    + apply Nat.eqb_neq in E. rewrite (H1 t' th' Hn'). apply Hother. exact E.
  - intros t' Hl. rewrite nth_error_upd, Hn. destruct (Nat.eqb t' t) eqn:E; [eauto|].
    apply Nat.eqb_neq in E. apply H2. apply Hother; assumption.
Qed.

Lemma cstep_lock_inv pg c ev c' : LockInv c -> cstep pg c ev = Some (OK c') -> LockInv c'.
Proof.
  intros HL Hs. destruct ev as [t|v].
  2:{ cbn [cstep] in Hs. inversion Hs; subst c'. exact HL. }
  cbn [cstep] in Hs. unfold tstep in Hs.
  destruct (nth_error (c_threads c) t) as [th|] eqn:Eth; [|discriminate].
  pose proof (proj1 HL t th Eth) as Hme.
  assert (Hsame : forall p' prog' h', (holds_lock p' = holds_lock (t_pc th)) ->
                    LockInv (set_thread c t p' prog' h' (c_lock c))).
  { intros p' prog' h' E. eapply lock_inv_upd; [exact HL|exact Eth|rewrite E; exact Hme|tauto]. }
  assert (Hacq : forall p' prog' h', c_lock c = None -> holds_lock p' = true ->
                    LockInv (set_thread c t p' prog' h' (Some t))).
  { intros p' prog' h' E Hh. eapply lock_inv_upd; [exact HL|exact Eth|tauto|].
    intros t' Hne. rewrite E. split; [discriminate|]. intros H; inversion H; congruence. }
  assert (Hrel : forall p' prog' h', holds_lock (t_pc th) = true -> holds_lock p' = false ->
                    LockInv (set_thread c t p' prog' h' None)).
  { intros p' prog' h' Hh Hh'. eapply lock_inv_upd; [exact HL|exact Eth|rewrite Hh'; split; discriminate|].
    intros t' Hne. apply Hme in Hh. rewrite Hh. split; [intros H; inversion H; congruence|discriminate]. }
  destruct th as [p prog]. cbn [t_pc t_prog] in *.
  destruct p as [|n|n|n|b|b|b|b|].
  - destruct prog as [|[n|b] r]; [discriminate| |].
    + destruct ((n <? 0) || (maxsize <=? n)); [discriminate|]. inversion Hs; subst c'. apply Hsame; reflexivity.
    + destruct (is_free_lock (c_lock c)) eqn:El; inversion Hs; subst c'.
      * apply Hacq; [destruct (c_lock c); [discriminate|reflexivity]|reflexivity].
      * apply Hsame; reflexivity.
  - destruct (is_free_lock (c_lock c)) eqn:El; [|discriminate].
    inversion Hs; subst c'. apply Hacq; [destruct (c_lock c); [discriminate|reflexivity]|reflexivity].
  - destruct (drain_step (c_heap c)) as [[h'|]|e]; inversion Hs; subst c'; apply Hsame; reflexivity.
  - destruct (malloc_body pg (c_heap c) n) as [[b h']|e]; inversion Hs; subst c'.
    destruct (Hsame (PMExit b) prog h' eq_refl) as [H1 H2]. split; cbn [c_threads c_lock set_thread] in *; assumption.
  - inversion Hs; subst c'. apply Hrel; reflexivity.
  - inversion Hs; subst c'. apply Hsame; reflexivity.
  - destruct (drain_step (c_heap c)) as [[h'|]|e]; inversion Hs; subst c'; apply Hsame; reflexivity.
  - destruct (free_one (c_heap c) b) as [h'|e]; inversion Hs; subst c'. apply Hsame; reflexivity.
  - inversion Hs; subst c'. apply Hrel; reflexivity.
Qed.

Lemma cinit_lock_inv h progs : LockInv (cinit h progs).
Proof.
  split; cbn [cinit c_threads c_lock]; [|discriminate].
  intros t th Hn. apply nth_error_In in Hn. apply in_map_iff in Hn as [p [<- _]]. cbn [t_pc holds_lock].
  split; discriminate.
Qed.

Theorem conc_lock_inv pg sched : forall c c', LockInv c -> crun pg c sched = Some (OK c') -> LockInv c'.
Proof.
  induction sched as [|ev r IH]; intros c c' HL Hr; cbn [crun] in Hr.
  - inversion Hr; subst; assumption.
  - destruct (cstep pg c ev) as [[c1|e]|] eqn:Es; try discriminate.
    eapply IH; [|exact Hr]. eapply cstep_lock_inv; eassumption.
Qed.

(* at most one thread is inside a critical section, and it is the one the lock names *)
Theorem conc_mutex pg h progs sched c t1 t2 th1 th2 :
  crun pg (cinit h progs) sched = Some (OK c) ->
  nth_error (c_threads c) t1 = Some th1 -> nth_error (c_threads c) t2 = Some th2 ->
  holds_lock (t_pc th1) = true -> holds_lock (t_pc th2) = true -> t1 = t2.
Proof.
  intros Hr H1 H2 L1 L2.
  destruct (conc_lock_inv pg sched _ _ (cinit_lock_inv h progs) Hr) as [HL _].
  apply (HL t1 th1 H1) in L1. apply (HL t2 th2 H2) in L2. congruence.
Qed.

(* no deadlock: while some thread has something left to do, some thread can step *)
Theorem conc_progress pg c : LockInv c ->
  (exists t th, nth_error (c_threads c) t = Some th /\ (t_pc th <> PIdle \/ t_prog th <> [])) ->
  exists t r, tstep pg c t = Some r.
Proof.
  intros [H1 H2] [t [th [Hn Hwork]]].
  destruct (c_lock c) as [t0|] eqn:El.
  - destruct (H2 t0 eq_refl) as [th0 Hn0]. pose proof (proj2 (H1 t0 th0 Hn0) eq_refl) as Hh.
    exists t0. unfold tstep. rewrite Hn0. destruct th0 as [p prog]. cbn [t_pc t_prog] in *.
    destruct p; try discriminate Hh.
    + destruct (drain_step (c_heap c)) as [[h'|]|e]; eauto.
    + destruct (malloc_body pg (c_heap c) n) as [[b h']|e]; eauto.
    + eauto.
    + destruct (drain_step (c_heap c)) as [[h'|]|e]; eauto.
    + destruct (free_one (c_heap c) b) as [h'|e]; eauto.
    + eauto.
  - exists t. unfold tstep. rewrite Hn.
    assert (Hnh : holds_lock (t_pc th) = false).
    { destruct (holds_lock (t_pc th)) eqn:E; [|reflexivity]. apply (H1 t th Hn) in E. discriminate. }
    destruct th as [p prog]. cbn [t_pc t_prog] in *. rewrite El. cbn [is_free_lock].
    destruct p; try discriminate Hnh.
    + destruct prog as [|[n|b] r]; [destruct Hwork as [H|H]; contradiction| |].
      * destruct ((n <? 0) || (maxsize <=? n)); eauto.
      * eauto.
    + eauto.
    + eauto.
Qed.

(* the first malloc in a forked child starts from an empty heap whatever was inherited *)
Theorem malloc_in_child_ok pg dsize inherited n : pg_ok pg -> 0 <= n < maxsize ->
  exists b h', malloc_in_child pg dsize inherited n = OK (b, h') /\ HeapInv h' /\
               alloc h' = [b] /\ b_arena b = 0 /\ b_start b = 0 /\ Z.max n 1 <= blen b /\
               arenas h' = [arena_length dsize (norm_size n) pg] /\ wf (arenas h') b.
Proof.
  intros Hpg Hn. unfold malloc_in_child.
  assert (Ea : (n <? 0) || (maxsize <=? n) = false) by lia. rewrite Ea.
  destruct (malloc_ok pg (heap_init dsize) n Hpg (heap_init_inv dsize) Hn)
    as [b [h' [hd [E [Ed [HI [_ [Hlen [Hal [_ Hcase]]]]]]]]]].
  cbn in Ed. inversion Ed; subst hd. cbn [alloc heap_init] in Hal.
  exists b, h'. split; [assumption|]. split; [assumption|]. split; [assumption|].
  destruct Hcase as [[_ [_ [blk [[] _]]]]|[Har [_ [Hb [Hs _]]]]].
  cbn [arenas heap_init nsize app length] in Har, Hb.
  split; [assumption|]. split; [assumption|]. split; [destruct (norm_size_props n ltac:(lia)); lia|].
  split; [assumption|].
  destruct HI as [[_ HGeo _] _]. eapply geo_wf; [exact HGeo|].
  unfold L. apply in_or_app; right. apply in_or_app; left. rewrite Hal. left; reflexivity.
Qed.

(* ---- the forms quoted in Props/C14.v: runs from Heap(size), all threads idle ---- *)
Theorem conc_safe_init pg size progs sched r : pg_ok pg ->
  cvalid_run pg (cinit (heap_init size) progs) sched ->
  crun pg (cinit (heap_init size) progs) sched = Some r ->
  exists c', r = OK c' /\ HeapInv (c_heap c') /\ CInv c'.
Proof.
  intros Hpg Hv Hr.
  pose proof (conc_safe pg sched Hpg _ (cinit_inv _ progs (heap_init_inv size)) Hv) as H.
  rewrite Hr in H. destruct H as [c' [-> HC]]. exists c'. split; [reflexivity|].
  split; [apply CInv_HeapInv; assumption|assumption].
Qed.

Theorem conc_progress_reachable pg h progs sched c :
  crun pg (cinit h progs) sched = Some (OK c) ->
  (exists t th, nth_error (c_threads c) t = Some th /\ (t_pc th <> PIdle \/ t_prog th <> [])) ->
  exists t r, tstep pg c t = Some r.
Proof.
  intros Hr Hw. apply conc_progress; [|assumption].
  eapply conc_lock_inv; [apply cinit_lock_inv|exact Hr].
Qed.

(* a thread that waits for the lock stays blocked exactly as long as another thread holds it *)
Theorem conc_blocking pg c t th n : nth_error (c_threads c) t = Some th -> t_pc th = PMEnter n ->
  (tstep pg c t = None <-> c_lock c <> None).
Proof.
  intros Hn Hp. unfold tstep. rewrite Hn, Hp. destruct (c_lock c); cbn [is_free_lock]; split; try discriminate; congruence.
Qed.
