(* C02, Part E: the kernel regenerated from /repo/billiard/pool.py on this run
   (Gen/K_reassembly.v) computes exactly Model.Reassembly.

   Abstraction (emb): a Python list is represented by its length, a failure record
   by a truthy non-int, a callback by a truthy value or None; the contents of the
   value buffer are the model's, written with exactly the slice bounds the
   generated code computes (ghost fields slice_lo/slice_hi/slice_src). *)
From Coq Require Import ZArith List Bool Lia ZifyBool.
From BV Require Import Lib.PyVal Lib.Cases Model.Reassembly Gen.K_reassembly.
Import ListNotations.
Open Scope Z_scope.

Record ghosts := mk_gh {
  g_state : pv; g_wpid : pv; g_tacc : pv; g_job : Z;
  g_lo : pv; g_hi : pv; g_src : pv; g_alo : pv; g_ahi : pv }.

Definition vabs {A E} (v : mval A E) : pv :=
  match v with VList l => PInt (Z.of_nat (length l)) | VErr _ => PBool true end.
Definition fabs (b : bool) : pv := if b then PBool true else PNone.
Definition optv (o : option Z) : pv := match o with Some z => PInt z | None => PNone end.

Definition emb {A E} (s : mres A E) (g : ghosts) : st :=
  mk_st (g_state g) (PBool (m_success s)) (PInt (m_len s)) (vabs (m_value s))
        (PInt (Z.of_nat (length (m_accepted s)))) (g_wpid g) (g_tacc g)
        (PInt (m_k s)) (PInt (m_left s)) (fabs (m_has_cb s)) (fabs (m_has_ecb s))
        (PInt (g_job g)) (PBool (m_ready s)) (PBool (m_incache s))
        (PInt (Z.of_nat (length (m_cb s)))) (PInt (Z.of_nat (length (m_ecb s))))
        (g_lo g) (g_hi g) (g_src g) (g_alo g) (g_ahi g).

Definition with_slice (g : ghosts) (lo hi src : Z) : ghosts :=
  mk_gh (g_state g) (g_wpid g) (g_tacc g) (g_job g) (PInt lo) (PInt hi) (PInt src)
        (g_alo g) (g_ahi g).
Definition with_ack (g : ghosts) (lo hi : Z) : ghosts :=
  mk_gh (g_state g) (g_wpid g) (g_tacc g) (g_job g) (g_lo g) (g_hi g) (g_src g)
        (PInt lo) (PInt hi).
Definition with_lists (g : ghosts) (n : Z) : ghosts :=
  mk_gh (g_state g) (PInt n) (PInt n) (g_job g) (g_lo g) (g_hi g) (g_src g)
        (g_alo g) (g_ahi g).

(* controlled reduction: PyVal combinators, record projections/setters of the
   generated state and of the model, never Z arithmetic *)
Ltac pyred :=
  cbv [if_truth bindv bindo truth py_add py_sub py_mul py_floordiv py_mod py_eq py_ne py_not
       py_le py_lt py_ge py_gt cmp arith as_int py_is_none py_is_not_none py_bool py_max py_min
       py_and py_or py_ifexp negb andb orb fst snd
       event_set cache_del cache_pop call_cb call_ecb slice_assign mark_range
       f_self__state f_self__success f_self__length f_self__value f_self__accepted f_self__worker_pid f_self__time_accepted f_self__chunksize f_self__number_left f_self__callback f_self__error_callback f_self__job f_ghost_event f_ghost_incache f_ghost_cb_calls f_ghost_ecb_calls f_ghost_slice_lo f_ghost_slice_hi f_ghost_slice_src f_ghost_ack_lo f_ghost_ack_hi set_self__state set_self__success set_self__length set_self__value set_self__accepted set_self__worker_pid set_self__time_accepted set_self__chunksize set_self__number_left set_self__callback set_self__error_callback set_self__job set_ghost_event set_ghost_incache set_ghost_cb_calls set_ghost_ecb_calls set_ghost_slice_lo set_ghost_slice_hi set_ghost_slice_src set_ghost_ack_lo set_ghost_ack_hi
       vabs fabs optv];
  cbn [length app m_k m_len m_left m_success m_value m_ready m_incache m_has_cb m_has_ecb
       m_cb m_ecb m_accepted g_state g_wpid g_tacc g_job g_lo g_hi g_src g_alo g_ahi].

(* ---- Pool._map_async: the chunk size handed to _get_tasks and MapResult ---- *)
Lemma gen_chunksize_eq : forall s vf vi vm cb ecb (cs : option Z) (n p : Z),
    f_self__state s = c_RUN ->
    chunksize_of s vf vi vm (optv cs) cb ecb (PInt n) (PInt p) =
    match resolve_chunksize cs n p with
    | Some k => Ok (PInt k) s
    | None => Exc ZeroDivisionError s
    end.
Proof.
  intros s vf vi vm cb ecb cs n p Hrun.
  unfold chunksize_of, resolve_chunksize. rewrite Hrun. unfold c_RUN.
  destruct cs as [c|]; pyred.
  - change (0 =? 0) with true. pyred. destruct (n =? 0); reflexivity.
  - change (0 =? 0) with true. pyred.
    destruct (p * 4 =? 0) eqn:Ep; pyred; [reflexivity|].
    destruct (n mod (p * 4) =? 0) eqn:Em; pyred; destruct (n =? 0) eqn:En; pyred; reflexivity.
Qed.

(* a pool that is not running: map_async returns None, nothing is computed *)
Lemma gen_chunksize_not_running : forall s vf vi vm vc cb ecb n p z,
    f_self__state s = PInt z -> z <> 0 ->
    chunksize_of s vf vi vm vc cb ecb n p = Ok PNone s.
Proof.
  intros s vf vi vm vc cb ecb n p z Hs Hz. unfold chunksize_of. rewrite Hs.
  assert (Ht : py_ne (PInt z) c_RUN = PBool true).
  { unfold c_RUN, py_ne, py_eq, py_not. cbn [as_int truth].
    replace (z =? 0) with false by lia. reflexivity. }
  rewrite Ht. reflexivity.
Qed.

(* ---- MapResult.__init__ ---- *)
(* what ApplyResult.__init__ (dropped by the slicer, pinned by text) leaves behind *)
Definition pre_init {A E} (hc he : bool) : mres A E :=
  mk_mres 0 0 0 false (VList []) false true hc he [] [] [].

Lemma gen_init_eq : forall {A E} (none : A) (g : ghosts) (hc he : bool) (n k : Z) vc vcb vecb,
    0 <= n ->
    mr_init (emb (pre_init (A := A) (E := E) hc he) g) vc (PInt k) (PInt n) vcb vecb =
    Ok PNone (emb (map_init (E := E) none n k hc he) (with_lists g n)).
Proof.
  intros A E none g hc he n k vc vcb vecb Hn.
  unfold mr_init. unfold pre_init. unfold emb. unfold map_init. unfold number_left.
  unfold with_lists. pyred.
  replace (Z.max 0 n) with n by lia.
  destruct (k <=? 0) eqn:Ek; pyred.
  - rewrite (repeat_length none (Z.to_nat n)), (repeat_length false (Z.to_nat n)).
    rewrite Z2Nat.id by lia. reflexivity.
  - replace (k =? 0) with false by lia. pyred.
    rewrite (repeat_length none (Z.to_nat n)), (repeat_length false (Z.to_nat n)).
    rewrite Z2Nat.id by lia.
    destruct (n mod k =? 0); pyred; rewrite ?Z.add_0_r; reflexivity.
Qed.

(* ---- MapResult._set ---- *)
Lemma slice_assign_length {X} (v r : list X) (a b : Z) :
    Z.of_nat (length (Reassembly.slice_assign v a b r)) =
    let len := Z.of_nat (length v) in
    let a' := clamp len a in
    let b' := Z.max a' (clamp len b) in
    a' + Z.of_nat (length r) + (len - b').
Proof.
  unfold Reassembly.slice_assign, norm_idx, clamp. cbv zeta.
  rewrite !app_length, firstn_length, skipn_length.
  destruct (a <? 0) eqn:Ea; destruct (b <? 0) eqn:Eb; lia.
Qed.

Lemma truthy_len {X} (l : list X) : list_truthy l = negb (Z.of_nat (length l) =? 0).
Proof. destruct l; [reflexivity|]. cbn [length list_truthy]. lia. Qed.

Lemma gen_set_ok_eq : forall {A E} (s : mres A E) (g : ghosts) (i : Z) (r : list A),
    mr_set (emb s g) (PInt i) (PBool true) (PInt (Z.of_nat (length r))) =
    match m_value s with
    | VErr _ => Exc TypeError (emb s g)
    | VList _ =>
        Ok PNone (emb (fst (map_set s (MOk i r)))
                      (with_slice g (i * m_k s) ((i + 1) * m_k s) (Z.of_nat (length r))))
    end.
Proof.
  intros A E s g i r. unfold mr_set, map_set, emb.
  destruct (m_value s) as [v|e] eqn:Hv.
  - pose proof (slice_assign_length v r (i * m_k s) ((i + 1) * m_k s)) as Hlen.
    cbv zeta in Hlen. rewrite truthy_len.
    pyred.
    destruct (m_left s - 1 =? 0) eqn:El; pyred.
    + destruct (m_has_cb s) eqn:Hcb;
        destruct (Z.of_nat (length (m_accepted s)) =? 0) eqn:Hacc; pyred;
        unfold with_slice; pyred; rewrite ?app_length; pyred;
        rewrite Hlen; repeat f_equal; lia.
    + unfold with_slice; pyred. rewrite Hlen. reflexivity.
  - pyred. reflexivity.
Qed.

Lemma gen_set_fail_eq : forall {A E} (s : mres A E) (g : ghosts) (i : Z) (e : E),
    mr_set (emb s g) (PInt i) (PBool false) (PBool true) =
    Ok PNone (emb (fst (map_set s (MFail i e))) g).
Proof.
  intros A E s g i e. unfold mr_set, map_set, emb. rewrite truthy_len. pyred.
  destruct (m_has_ecb s) eqn:Hecb;
    destruct (Z.of_nat (length (m_accepted s)) =? 0) eqn:Hacc;
    pyred; rewrite ?app_length; pyred; repeat f_equal; lia.
Qed.

(* ---- MapResult._ack ---- *)
Lemma py_setitem_length {X} (l : list X) j x l' :
    py_setitem l j x = Some l' -> length l' = length l.
Proof.
  unfold py_setitem.
  destruct ((0 <=? (if j <? 0 then j + Z.of_nat (length l) else j)) &&
            ((if j <? 0 then j + Z.of_nat (length l) else j) <? Z.of_nat (length l)));
    [|discriminate].
  intros H. inversion H; subst l'. clear H.
  generalize (Z.to_nat (if j <? 0 then j + Z.of_nat (length l) else j)). clear j.
  induction l as [|y l IH]; intros n; [reflexivity|].
  destruct n; cbn; [reflexivity|]. f_equal. apply IH.
Qed.

Lemma mark_range_length : forall cnt acc start,
    length (fst (Reassembly.mark_range acc start cnt)) = length acc.
Proof.
  induction cnt as [|cnt IH]; intros acc start; [reflexivity|].
  cbn [Reassembly.mark_range]. destruct (py_setitem acc start true) as [acc'|] eqn:Hs;
    [|reflexivity].
  rewrite IH. eapply py_setitem_length; eassumption.
Qed.

Lemma gen_ack_eq : forall {A E} (s : mres A E) (g : ghosts) (i : Z) vt vpid,
    snd (map_ack s i) = None ->
    mr_ack (emb s g) (PInt i) vt vpid =
    Ok PNone (emb (fst (map_ack s i))
                  (with_ack g (ack_start i (m_k s)) (ack_stop i (m_k s) (m_len s)))).
Proof.
  intros A E s g i vt vpid Hok. unfold mr_ack, map_ack in *.
  pose proof (mark_range_length
                (Z.to_nat (ack_stop i (m_k s) (m_len s) - ack_start i (m_k s)))
                (m_accepted s) (ack_start i (m_k s))) as Hlen.
  destruct (Reassembly.mark_range (m_accepted s) (ack_start i (m_k s))
              (Z.to_nat (ack_stop i (m_k s) (m_len s) - ack_start i (m_k s)))) as [acc e].
  cbn [fst snd] in *. destruct e; [discriminate|].
  unfold emb, with_ack, ack_start, ack_stop. pyred. rewrite Hlen.
  destruct (m_ready s); pyred; reflexivity.
Qed.

(* ================================================================== *)
(* IMapIterator._set / _set_length, IMapUnorderedIterator._set          *)
(* (module IM of the generated file; the objects in the deque and in the dict are
   opaque tokens, so the model is instantiated at B := pv)                        *)
From BV Require Import Proofs.ReassemblyProofs Proofs.ReassemblyImapProofs.

Definition embi (s : istate pv) (job : Z) : IM.st :=
  IM.mk_st (PInt (i_index s)) (optv (i_length s)) (PBool (i_ready s)) (PInt job)
           (i_items s) (i_unsorted s) (i_incache s).

(* result of a step: the exception, if any, carries the state reached *)
Definition iout (r : istate pv * option exn) (job : Z) : outcome IM.st pv :=
  match snd r with
  | None => Ok PNone (embi (fst r) job)
  | Some e => Exc e (embi (fst r) job)
  end.

Lemma dget_eq (d : list (Z * pv)) k : IM.dget d k = dict_get d k.
Proof. induction d as [|[k' v] d IH]; cbn; [reflexivity|]. rewrite IH. reflexivity. Qed.
Lemma dremove_eq (d : list (Z * pv)) k : IM.dremove d k = dict_remove d k.
Proof. induction d as [|[k' v] d IH]; cbn; [reflexivity|]. rewrite IH. reflexivity. Qed.

Ltac imred :=
  cbv [if_truth bindv bindo truth py_add py_eq arith as_int negb
       IM.items_append IM.unsorted_move IM.unsorted_set IM.cache_del IM.noop IM.unsorted_has
       IM.f_self__index IM.f_self__length IM.f_self__ready IM.f_self__job
       IM.g_items IM.g_unsorted IM.g_incache
       IM.set_self__index IM.set_self__length IM.set_self__ready IM.set_self__job optv];
  cbn [i_items i_index i_length i_ready i_unsorted i_incache fst snd].

Definition ist (idx : Z) (len rdy : pv) (job : Z) (items : list pv) (d : list (Z * pv)) (ic : bool) :=
  IM.mk_st (PInt idx) len rdy (PInt job) items d ic.

(* the translated `while self._index in self._unsorted` loop is the model's drain *)
Lemma im_while_drain (body : IM.st -> outcome IM.st unit) len rdy job ic :
    (forall idx items d o, IM.dget d idx = Some o ->
        body (ist idx len rdy job items d ic) =
        Ok tt (ist (idx + 1) len rdy job (items ++ [o]) (IM.dremove d idx) ic)) ->
    forall fuel items idx d, (length d <= fuel)%nat ->
    while_loop fuel IM.unsorted_has body (ist idx len rdy job items d ic) =
    let '(items', idx', d') := drain fuel items idx d in
    Ok tt (ist idx' len rdy job items' d' ic).
Proof.
  intros Hbody. induction fuel as [|fuel IH]; intros items idx d Hlen.
  - assert (d = []) by (destruct d; [reflexivity|cbn in Hlen; lia]). subst d. reflexivity.
  - assert (Hhas : IM.unsorted_has (ist idx len rdy job items d ic) =
                    PBool (match dict_get d idx with Some _ => true | None => false end)).
    { unfold IM.unsorted_has, ist. cbn [IM.f_self__index IM.g_unsorted]. rewrite dget_eq. reflexivity. }
    cbn [while_loop drain]. rewrite Hhas.
    destruct (dict_get d idx) as [o|] eqn:Eg; cbn [truth].
    + rewrite (Hbody idx items d o) by (rewrite dget_eq; exact Eg). cbn [bindo].
      rewrite IH.
      * rewrite dremove_eq. reflexivity.
      * rewrite dremove_eq. pose proof (dict_remove_length_lt d idx o Eg). lia.
    + reflexivity.
Qed.

Lemma finish_eq (s : istate pv) (job : Z) :
    if_truth (py_eq (PInt (i_index s)) (optv (i_length s))) (embi s job)
      (bindv (PBool true) (embi s job) (fun t =>
         let s1 := IM.set_self__ready (embi s job) t in
         bindv (IM.f_self__job s1) s1 (fun t' =>
           bindo (IM.cache_del s1 [t']) (fun _ s2 => Ok PNone s2))))
      (Ok PNone (embi s job))
    = iout (imap_finish s) job.
Proof.
  unfold imap_finish, at_length, iout, embi.
  destruct (i_length s) as [n|] eqn:El; imred.
  - destruct (i_index s =? n); imred; [|rewrite El; reflexivity].
    destruct (i_incache s); reflexivity.
  - rewrite El. reflexivity.
Qed.

Lemma gen_iset_length_eq : forall (s : istate pv) (job n : Z),
    IM.iset_length (embi s job) (PInt n) = iout (imap_set_length s n) job.
Proof.
  intros s job n. unfold IM.iset_length, imap_set_length.
  rewrite <- (finish_eq (mk_ist (i_items s) (i_index s) (Some n) (i_ready s) (i_unsorted s) (i_incache s)) job).
  unfold embi. imred. reflexivity.
Qed.

Lemma gen_uset_eq : forall (s : istate pv) (job i : Z) (obj : pv),
    is_err obj = None ->
    IM.uset (embi s job) (PInt i) obj = iout (imapu_set s i obj) job.
Proof.
  intros s job i obj Hobj. unfold IM.uset, imapu_set.
  rewrite <- (finish_eq (mk_ist (i_items s ++ [obj]) (i_index s + 1) (i_length s) (i_ready s)
                                (i_unsorted s) (i_incache s)) job).
  unfold embi. destruct obj; try discriminate; imred; reflexivity.
Qed.

Ltac imcbn :=
  cbn [embi if_truth bindv bindo truth py_add py_eq arith as_int negb
       IM.items_append IM.unsorted_set IM.noop
       IM.f_self__index IM.f_self__length IM.f_self__ready IM.f_self__job
       IM.g_items IM.g_unsorted IM.g_incache
       IM.set_self__index IM.set_self__length IM.set_self__ready IM.set_self__job
       i_items i_index i_length i_ready i_unsorted i_incache].

Lemma gen_iset_eq : forall (s : istate pv) (job i : Z) (obj : pv),
    is_err obj = None ->
    IM.iset (embi s job) (PInt i) obj = iout (imap_set s i obj) job.
Proof.
  intros s job i obj Hobj. unfold IM.iset, imap_set.
  assert (Hb : forall (st0 : IM.st) (k : pv -> outcome IM.st pv), bindv obj st0 k = k obj)
    by (intros; destruct obj; try discriminate; reflexivity).
  imcbn. destruct (i_index s =? i) eqn:Ei; imcbn.
  - rewrite Hb. imcbn.
    match goal with
    | |- context [while_loop ?f ?c ?b ?st0] =>
        change (while_loop f c b st0)
          with (while_loop f IM.unsorted_has b
                  (ist (i_index s + 1) (optv (i_length s)) (PBool (i_ready s)) job
                       (i_items s ++ [obj]) (i_unsorted s) (i_incache s)))
    end.
    rewrite (im_while_drain _ (optv (i_length s)) (PBool (i_ready s)) job (i_incache s)).
    + destruct (drain (length (i_unsorted s)) (i_items s ++ [obj]) (i_index s + 1) (i_unsorted s))
        as [[items' idx'] d'].
      rewrite <- (finish_eq (mk_ist items' idx' (i_length s) (i_ready s) d' (i_incache s)) job).
      reflexivity.
    + intros idx items d o Hg. unfold ist. imcbn. unfold IM.unsorted_move. imcbn.
      rewrite Hg. reflexivity.
    + apply le_n.
  - rewrite Hb. imcbn. rewrite dremove_eq.
    rewrite <- (finish_eq (mk_ist (i_items s) (i_index s) (i_length s) (i_ready s)
                                  (dict_set (i_unsorted s) i obj) (i_incache s)) job).
    reflexivity.
Qed.

(* how a handle gets its state: no mutable class attribute on the result classes,
   IMapIterator.__init__ makes fresh _items/_unsorted/_worker_pids and the initial
   scalars per instance, the unordered iterator inherits that __init__; so a new
   iterator starts in the model's imap_init, sharing nothing with other handles *)
Lemma gen_imap_init_eq :
    IM.fresh_containers_per_instance = true /\
    IM.class_level_mutable_attrs = 0%nat /\
    IM.unordered_inherits_init = true /\
    forall job : Z, IM.init (PInt job) = embi imap_init job.
Proof. repeat split. Qed.
