(* C13: the write-all and read-exactly loops, and the two framing functions
   around them, REBUILT FROM THE GENERATED FRAGMENTS of Gen/K_framing.v
   (send_else, recv_cond, recv_else, send_plan, recv_plan: translated from
   billiard/connection.py on this run), and proved equal to the model's
   send_loop_sh / send_loop / recv_loop / recv_exact / send_raw_sh /
   send_bytes_raw / recv_bytes_raw for EVERY script, by induction on the script.

   Every decision of an iteration (break or go on, which slice comes next, the new
   `remaining`, the loop test, which exception an empty read raises) is taken by
   evaluating the generated definition; the interpreters below only supply what
   the translator checks against an exact AST skeleton: the OS call and its three
   outcomes (bytes / EINTR -> loop again / other OSError -> propagate), the
   prologue `remaining = len(buf)` resp. `remaining = size`, and `return buf`.
   A branch that the generated code could only reach by returning something that
   is not a decision (SsStuck / RsStuck) yields a value no model function ever
   produces here, so the equalities show those branches are dead.

   Consequence: the theorems of FramingProofs.v / FramingShape.v about the model
   loops are theorems about these generated-code loops (two are transported
   explicitly at the end). *)
From Coq Require Import ZArith List Bool Lia ZifyBool.
From BV Require Import Lib.PyVal Gen.K_framing Model.Framing
     Proofs.FramingProofs Proofs.FramingShape Proofs.FramingGen.
Import ListNotations.
Open Scope Z_scope.

Section Loops.
Variables (c : conn) (h : Z).

Definition rem_of (s : st) : option Z :=
  match f_self_loop_remaining s with PInt r => Some r | _ => None end.

(* ------------------------------------------------------------------ *)
(* Connection._send                                                     *)

(* the `else:` block after write() returned n: break, or go on with buf[lo:]
   and the new `remaining` *)
Inductive sstep := SsBreak | SsNext (lo r' : Z) | SsStuck.

Definition gen_sstep (r n : Z) : sstep :=
  match send_else (with_rem c h r) (PInt n) with
  | Ok PNone _ => SsBreak
  | Ok (PInt lo) s' => match rem_of s' with Some r' => SsNext lo r' | None => SsStuck end
  | _ => SsStuck
  end.

Lemma gen_sstep_eq r n : gen_sstep r n = if r - n =? 0 then SsBreak else SsNext n (r - n).
Proof. unfold gen_sstep. rewrite gen_send_else. destruct (r - n =? 0); reflexivity. Qed.

Definition stuck_s (o : list wresp) : list wresp * list Z * list Z * option err :=
  (o, [], [], Some EStruct).

(* rs = bytes per row of the view handed to _send (buf[lo:] drops lo rows) *)
Fixpoint gen_send_loop (rs : Z) (o : list wresp) (remaining : Z) (buf : list Z)
  : list wresp * list Z * list Z * option err :=
  match o with
  | [] =>
      (* cooperative OS: write() takes all len buf bytes *)
      match gen_sstep remaining (len buf) with
      | SsBreak => ([], buf, [len buf], None)
      | SsNext _ _ => ([], buf, (if len buf =? 0 then [] else [len buf]), Some ESpin)
      | SsStuck => stuck_s []
      end
  | WEintr :: o' =>
      let '(o2, w, t, e) := gen_send_loop rs o' remaining buf in (o2, w, len buf :: t, e)
  | WErr :: o' => (o', [], [len buf], Some EIo)
  | WAccept k :: o' =>
      let n := sys_write k buf in
      match gen_sstep remaining n with
      | SsBreak => (o', take n buf, [len buf], None)
      | SsNext lo r' =>
          let '(o2, w, t, e) := gen_send_loop rs o' r' (drop (lo * rs) buf) in
          (o2, take n buf ++ w, len buf :: t, e)
      | SsStuck => stuck_s o'
      end
  end.

Lemma gen_send_loop_eq : forall rs o remaining buf,
    gen_send_loop rs o remaining buf = send_loop_sh rs o remaining buf.
Proof.
  intros rs. induction o as [|r o IH]; intros remaining buf; cbn [gen_send_loop send_loop_sh].
  - rewrite gen_sstep_eq. destruct (remaining - len buf =? 0); reflexivity.
  - destruct r as [k| |].
    + rewrite gen_sstep_eq. destruct (remaining - sys_write k buf =? 0); [reflexivity|].
      rewrite IH. reflexivity.
    + rewrite IH. reflexivity.
    + reflexivity.
Qed.

(* 1-D byte buffers, `remaining = len(buf)`: the loop of FramingProofs.v *)
Lemma gen_send_loop_flat o buf : gen_send_loop 1 o (len buf) buf = send_loop o buf.
Proof. rewrite gen_send_loop_eq. apply send_loop_sh_flat. Qed.

(* why ESpin means "never returns": once `remaining` is not 0 and write() returns
   0 (nothing left to offer), the generated block neither breaks nor changes
   `remaining`, and buf[0:] is buf: the next iteration is in the same state *)
Lemma gen_spin_fixpoint r : r <> 0 -> gen_sstep r 0 = SsNext 0 r.
Proof. intros H. rewrite gen_sstep_eq. replace (r - 0 =? 0) with false by lia. f_equal. lia. Qed.

(* ------------------------------------------------------------------ *)
(* Connection._recv                                                     *)

(* after read() returned `got` bytes: the `else:` block, then the loop test *)
Inductive rstep := RsExc (e : err) | RsMore (r' : Z) | RsDone | RsStuck.

Definition gen_cond (r size : Z) : option bool :=
  match recv_cond (with_rem c h r) (PInt size) with
  | Ok (PBool b) _ => Some b
  | _ => None
  end.

Definition gen_rstep (size remaining got : Z) : rstep :=
  match recv_else (with_rem c h remaining) (PInt size) (PInt got) with
  | Exc EOFError _ => RsExc EEof
  | Exc OSError _ => RsExc EEofMid
  | Ok _ s' =>
      match rem_of s' with
      | Some r' => match gen_cond r' size with
                   | Some true => RsMore r'
                   | Some false => RsDone
                   | None => RsStuck
                   end
      | None => RsStuck
      end
  | _ => RsStuck
  end.

Lemma rem_of_with_rem r : rem_of (with_rem c h r) = Some r.
Proof. reflexivity. Qed.

Lemma gen_cond_eq r size : gen_cond r size = Some (r >? 0).
Proof. unfold gen_cond. rewrite gen_recv_cond. reflexivity. Qed.

Lemma gen_rstep_eq size remaining got :
  gen_rstep size remaining got =
  if got =? 0 then RsExc (eof_err remaining size)
  else if remaining - got >? 0 then RsMore (remaining - got) else RsDone.
Proof.
  unfold gen_rstep. rewrite gen_recv_else. destruct (got =? 0).
  - unfold eof_err. destruct (remaining =? size); reflexivity.
  - rewrite rem_of_with_rem, gen_cond_eq.
    destruct (remaining - got >? 0); reflexivity.
Qed.

Definition stuck_r {A} (o : list rresp) (stream : list Z)
  : list rresp * list Z * list Z * (err + A) := (o, stream, [], inl EStruct).

(* the loop body, entered because the loop test held *)
Fixpoint gen_recv_loop (o : list rresp) (size remaining : Z) (stream : list Z)
  : list rresp * list Z * list Z * (err + list Z) :=
  match o with
  | [] =>
      (* cooperative OS: read() returns all it is asked for that the stream has *)
      let chunk := take remaining stream in
      let got := len chunk in
      match gen_rstep size remaining got with
      | RsDone => ([], drop remaining stream, [remaining], inr chunk)
      | RsExc e => ([], stream, [remaining], inl e)
      | RsMore r' =>
          (* fewer bytes than asked for: the stream is exhausted, the next read()
             returns b"" *)
          match gen_rstep size r' 0 with
          | RsExc e => ([], [], [remaining; r'], inl e)
          | _ => stuck_r [] stream
          end
      | RsStuck => stuck_r [] stream
      end
  | REintr :: o' =>
      let '(o2, s2, t, r) := gen_recv_loop o' size remaining stream in
      (o2, s2, remaining :: t, r)
  | RErr :: o' => (o', stream, [remaining], inl EIo)
  | RChunk k :: o' =>
      let chunk := take (sys_read k remaining) stream in
      let got := len chunk in
      match gen_rstep size remaining got with
      | RsExc e => (o', stream, [remaining], inl e)
      | RsMore r' =>
          let '(o2, s2, t, r) := gen_recv_loop o' size r' (drop got stream) in
          (o2, s2, remaining :: t,
           match r with inr d => inr (chunk ++ d) | inl e => inl e end)
      | RsDone => (o', drop got stream, [remaining], inr chunk)
      | RsStuck => stuck_r o' stream
      end
  end.

Lemma gen_recv_loop_eq : forall o size remaining stream,
    0 < remaining <= size ->
    gen_recv_loop o size remaining stream = recv_loop o size remaining stream.
Proof.
  induction o as [|r o IH]; intros size remaining stream Hr; cbn [gen_recv_loop recv_loop].
  - rewrite gen_rstep_eq. pose proof (len_take remaining stream) as Hg.
    pose proof (len_nonneg stream) as Hs.
    set (got := len (take remaining stream)) in *.
    destruct (got =? remaining) eqn:E1.
    + replace (got =? 0) with false by lia. replace (remaining - got >? 0) with false by lia.
      reflexivity.
    + destruct (got =? 0) eqn:E0; [reflexivity|].
      replace (remaining - got >? 0) with true by lia.
      rewrite gen_rstep_eq. cbn [Z.eqb]. unfold eof_err.
      replace (remaining - got =? size) with false by lia. reflexivity.
  - destruct r as [k| |].
    + rewrite gen_rstep_eq.
      pose proof (sys_read_bounds k remaining ltac:(lia)) as Hb.
      pose proof (len_take (sys_read k remaining) stream) as Hg.
      pose proof (len_nonneg stream) as Hs.
      set (got := len (take (sys_read k remaining) stream)) in *.
      destruct (got =? 0); [reflexivity|].
      destruct (remaining - got >? 0) eqn:Er; [|reflexivity].
      rewrite IH by lia. reflexivity.
    + rewrite IH by lia. reflexivity.
    + reflexivity.
Qed.

(* _recv(size): prologue `remaining = size`, loop test, loop, `return buf` *)
Definition gen_recv_exact (o : list rresp) (size : Z) (stream : list Z)
  : list rresp * list Z * list Z * (err + list Z) :=
  match gen_cond size size with
  | Some true => gen_recv_loop o size size stream
  | Some false => (o, stream, [], inr [])
  | None => stuck_r o stream
  end.

Lemma gen_recv_exact_eq o size stream : gen_recv_exact o size stream = recv_exact o size stream.
Proof.
  unfold gen_recv_exact, recv_exact. rewrite gen_cond_eq.
  destruct (size >? 0) eqn:E; [|reflexivity]. apply gen_recv_loop_eq. lia.
Qed.

(* ------------------------------------------------------------------ *)
(* Connection._send_bytes = generated plan + generated loops            *)

(* `rows` = len(buf) of the view given to _send_bytes, rs = bytes per row,
   payload = all its bytes.  Plan tokens: 1 = header, 2 = buf, 3 = header + bytes *)
Definition gen_send_raw (o : list wresp) (rows rs : Z) (payload : list Z)
  : list wresp * list Z * list Z * option err :=
  match send_plan (emb c h) (PInt 2) PNone (PInt rows) (PBool true) with
  | Exc _ _ => (o, [], [], Some EStruct)                       (* struct.pack raised *)
  | Ok _ s' =>
      match f_out_hdr s', f_out_w1 s', f_out_w2 s' with
      | PInt hn, PInt 1, PInt 2 =>                              (* _send(header); _send(buf) *)
          let header := be32 hn in
          let '(o1, w1, t1, e1) := gen_send_loop 1 o (len header) header in
          match e1 with
          | Some e => (o1, w1, t1, Some e)
          | None => let '(o2, w2, t2, e2) := gen_send_loop rs o1 rows payload in
                    (o2, w1 ++ w2, t1 ++ t2, e2)
          end
      | PInt hn, PInt 3, PNone =>                               (* _send(header + buf.tobytes()) *)
          let whole := be32 hn ++ payload in
          gen_send_loop 1 o (len whole) whole
      | _, _, _ => stuck_s o
      end
  end.

Lemma gen_send_raw_eq o rows rs payload :
  -2147483648 <= rows ->
  gen_send_raw o rows rs payload = send_raw_sh o rows rs payload.
Proof.
  intros Hr. unfold gen_send_raw, send_raw_sh. rewrite gen_send_plan.
  replace (rows <? -2147483648) with false by lia. cbn [orb].
  destruct (rows >? MAXLEN); [reflexivity|].
  destruct (rows >? THRESH).
  - cbn [plan_state f_out_hdr f_out_w1 f_out_w2 set_out_hdr set_out_w1 set_out_w2 emb].
    cbv zeta. rewrite gen_send_loop_flat.
    destruct (send_loop o (be32 rows)) as [[[o1 w1] t1] [e1|]]; [reflexivity|].
    rewrite gen_send_loop_eq. reflexivity.
  - cbn [plan_state f_out_hdr f_out_w1 f_out_w2 set_out_hdr set_out_w1 set_out_w2 emb].
    cbv zeta. apply gen_send_loop_flat.
Qed.

(* 1-D bytes: Connection._send_bytes of FramingProofs.v *)
Lemma gen_send_raw_flat o m : gen_send_raw o (len m) 1 m = send_bytes_raw o m.
Proof.
  rewrite gen_send_raw_eq by (pose proof (len_nonneg m); lia). apply send_raw_sh_flat.
Qed.

(* ------------------------------------------------------------------ *)
(* Connection._recv_bytes = generated plan + generated loops            *)

Definition gen_recv_raw (o : list rresp) (stream : list Z) (maxsize : option Z)
  : list rresp * list Z * list Z * (err + option (list Z)) :=
  (* how many bytes the first _recv asks for does not depend on what they are *)
  match recv_plan (emb c h) (optv maxsize) (PInt 0) with
  | Ok _ s0 =>
      match f_out_r1 s0 with
      | PInt hdr =>
          let '(o1, s1, t1, r1) := gen_recv_exact o hdr stream in
          match r1 with
          | inl e => (o1, s1, t1, inl e)
          | inr hb =>
              match recv_plan (emb c h) (optv maxsize) (PInt (dec32 hb)) with
              | Ok PNone _ => (o1, s1, t1, inr None)              (* return None *)
              | Ok _ s' =>
                  match f_out_r2 s' with
                  | PInt size =>
                      let '(o2, s2, t2, r2) := gen_recv_exact o1 size s1 in
                      (o2, s2, t1 ++ t2,
                       match r2 with inl e => inl e | inr d => inr (Some d) end)
                  | _ => stuck_r o1 s1
                  end
              | _ => stuck_r o1 s1
              end
          end
      | _ => stuck_r o stream
      end
  | _ => stuck_r o stream
  end.

Lemma gen_recv_raw_eq o stream mx : gen_recv_raw o stream mx = recv_bytes_raw o stream mx.
Proof.
  unfold gen_recv_raw, recv_bytes_raw. rewrite (gen_recv_plan c h mx 0).
  destruct (over_max 0 mx); cbn [f_out_r1 set_out_r1 set_out_r2 emb];
    rewrite gen_recv_exact_eq;
    destruct (recv_exact o HDR stream) as [[[o1 s1] t1] [e|hb]]; try reflexivity;
    rewrite gen_recv_plan; destruct (over_max (dec32 hb) mx); try reflexivity;
    cbn [f_out_r2 set_out_r2 set_out_r1 emb]; rewrite gen_recv_exact_eq; reflexivity.
Qed.

(* ------------------------------------------------------------------ *)
(* theorems of the model, now about the generated-code functions        *)

(* wire format of _send_bytes (1-D bytes), any script *)
Lemma gen_send_raw_spec o m o' w t e :
  gen_send_raw o (len m) 1 m = (o', w, t, e) ->
  (exists rest, encode m = w ++ rest /\ (e = None -> rest = [])) /\
  (e = None -> len m <= MAXLEN) /\
  (MAXLEN < len m -> e = Some EStruct /\ w = [] /\ t = [] /\ o' = o) /\
  (~ In WErr o -> len m <= MAXLEN -> e = None).
Proof.
  rewrite gen_send_raw_flat. intros H.
  destruct (send_bytes_raw_spec _ _ _ _ _ _ H) as (H1 & H2 & H3 & H4 & _).
  repeat split; try assumption; apply H3; assumption.
Qed.

(* never short, never altered: any script, any stream *)
Lemma gen_recv_raw_sound o stream mx o' s' t d :
  gen_recv_raw o stream mx = (o', s', t, inr (Some d)) ->
  exists hd, stream = hd ++ d ++ s' /\ len hd = 4 /\ len d = Z.max 0 (dec32 hd) /\
             over_max (dec32 hd) mx = false.
Proof. rewrite gen_recv_raw_eq. apply recv_raw_sound. Qed.

End Loops.
