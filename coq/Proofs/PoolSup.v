(* Supervision arithmetic: pool size after a pass (C09), fresh slot indices (C09),
   slot semaphore invariant (C10), which exits consume restart budget (C11). *)
From Coq Require Import ZArith List Bool Lia ZifyBool FinFun.
From BV Require Import Lib.Cases Model.LaxSem Model.Restart Model.Pool
     Proofs.LaxSemProofs Proofs.PoolJobs Proofs.PoolInv Proofs.PoolTick.
Import ListNotations.
Open Scope Z_scope.

Definition used_idx (s : pool) : list Z :=
  map (fun p => match get_proc s p with Some q => widx q | None => -1 end) (wlist s).

(* ------------------------------------------------------------ pigeonhole *)
Lemma find_none_all {A} (f : A -> bool) l : find f l = None -> forall a, In a l -> f a = false.
Proof.
  induction l as [|b l IH]; intros H a Hin; [destruct Hin|]. cbn in H.
  destruct (f b) eqn:E; [discriminate|]. destruct Hin as [<-|Hin]; [exact E|apply IH; assumption].
Qed.

Lemma memZ_In x l : memZ x l = true <-> In x l.
Proof.
  unfold memZ. rewrite existsb_exists. split.
  - intros (y & Hy & E). apply Z.eqb_eq in E. subst. exact Hy.
  - intros H. exists x. split; [exact H|apply Z.eqb_refl].
Qed.

Lemma NoDup_map_of_nat l : NoDup l -> NoDup (map Z.of_nat l).
Proof.
  intros H. apply Injective_map_NoDup; [|exact H]. intros a b E. lia.
Qed.

(* _avail_index never fails while the pool is below its size, and returns an index
   in range that no current worker holds *)
Theorem avail_index_ok s :
  Z.of_nat (length (wlist s)) < nprocs s ->
  exists ix, avail_index s = Some ix /\ 0 <= ix < nprocs s /\ ~ In ix (used_idx s).
Proof.
  intros Hlt. unfold avail_index. fold (used_idx s).
  set (cands := map Z.of_nat (seq 0 (Z.to_nat (nprocs s)))).
  destruct (find (fun i => negb (memZ i (used_idx s))) cands) as [ix|] eqn:Ef.
  - exists ix. split; [reflexivity|]. apply find_some in Ef. destruct Ef as [Hin Hf].
    split.
    + unfold cands in Hin. apply in_map_iff in Hin. destruct Hin as (k & <- & Hk).
      apply in_seq in Hk. lia.
    + intros Hin'. apply memZ_In in Hin'. rewrite Hin' in Hf. discriminate.
  - exfalso.
    assert (Hincl : incl cands (used_idx s)).
    { intros a Ha. pose proof (find_none_all _ _ Ef a Ha) as H. apply negb_false_iff in H.
      apply memZ_In. exact H. }
    assert (Hnd : NoDup cands) by (apply NoDup_map_of_nat; apply seq_NoDup).
    pose proof (NoDup_incl_length Hnd Hincl) as Hlen.
    unfold cands, used_idx in Hlen. rewrite !map_length, seq_length in Hlen. lia.
Qed.

(* ------------------------------------------------------------ size after a pass *)
Lemma repopulate_size : forall fuel i codes s s',
    repopulate fuel i codes s = (s', RNone) -> pstate s = 0 ->
    ((0 < fuel)%nat -> Z.of_nat (length (wlist s)) + Z.of_nat fuel <= nprocs s) ->
    length (wlist s') = (length (wlist s) + fuel)%nat /\ nprocs s' = nprocs s.
Proof.
  induction fuel as [|f IH]; intros i codes s s' H Hp Hle; cbn [repopulate] in H.
  - inversion H; subst. split; [lia|reflexivity].
  - rewrite Hp in H. cbn [Z.eqb negb] in H.
    set (ns := match codes with
               | [] => false
               | _ :: _ => match nth_error codes i with Some c => negb (clean_code c) | None => true end
               end) in H.
    destruct (if ns then Restart.step (rst s) (now s) else (rst s, false)) as [r raised].
    destruct raised; [discriminate|].
    assert (Hlt : Z.of_nat (length (wlist (with_rst s r))) < nprocs (with_rst s r))
      by (cbn; specialize (Hle ltac:(lia)); lia).
    destruct (avail_index_ok _ Hlt) as (ix & Hix & _). rewrite Hix in H.
    apply IH in H; [|cbn; exact Hp|cbn; rewrite app_length; cbn; specialize (Hle ltac:(lia)); lia].
    destruct H as [H1 H2]. cbn in H1, H2. rewrite app_length in H1. cbn in H1. split; [lia|exact H2].
Qed.

Lemma join_exited_shape s :
  wlist (fst (join_exited s)) = kept s /\ nprocs (fst (join_exited s)) = nprocs s
  /\ pstate (fst (join_exited s)) = pstate s.
Proof.
  unfold join_exited.
  set (s1 := mark_all_lost s).
  assert (Hk : filter (fun p => negb (exited s1 p)) (wlist s1) = kept s).
  { unfold kept. apply filter_ext_eq. intros p. rewrite (exited_procs s s1); reflexivity. }
  rewrite Hk.
  destruct (filter (exited s1) (rev (wlist s1))); cbn; auto.
Qed.

(* C09_size_restored: a supervision pass that does not raise brings the pool list to
   exactly the configured size, unless more workers than that are still alive
   (shrink victims that have not exited yet), in which case it starts none *)
Theorem tick_size s s' :
  do_tick s = (s', RNone) -> pstate s = 0 ->
  Z.of_nat (length (wlist s')) = Z.max (nprocs s) (Z.of_nat (length (kept s)))
  /\ nprocs s' = nprocs s.
Proof.
  unfold do_tick. intros H Hp.
  destruct (join_exited_shape s) as (Hw & Hn & Hps).
  destruct (join_exited s) as [s1 codes]. cbn [fst] in *.
  destruct (repopulate (Z.to_nat (nprocs s1 - Z.of_nat (length (wlist s1)))) 0 codes s1) as [s2 r] eqn:Er.
  destruct r; inversion H; subst s'.
  apply repopulate_size in Er; [|congruence|lia].
  destruct Er as [E1 E2]. unfold release_n. cbn [wlist nprocs with_sem].
  rewrite E1, E2, Hw, Hn. split; [lia|reflexivity].
Qed.

Lemma procs_len_set_proc s p f : length (procs (set_proc s p f)) = length (procs s).
Proof. unfold set_proc. cbn. destruct (p <? 0); [reflexivity|apply length_upd_nth]. Qed.
Lemma procs_len_deliver s p sg l : length (procs (deliver s p sg l)) = length (procs s).
Proof. unfold deliver. rewrite procs_len_set_proc. reflexivity. Qed.

Lemma procs_len_scan_job lingers s1 j : length (procs (scan_job lingers s1 j)) = length (procs s1).
Proof.
  unfold scan_job. destruct (get_job s1 j) as [x|]; [|reflexivity].
  destruct (kind x); try reflexivity. destruct (time_accepted x) as [t|]; [|reflexivity].
  destruct (timed_out s1 (Some t) (eff_hard s1 x)).
  - unfold on_hard. destruct (ready x); [reflexivity|].
    destruct (owner x) as [p|]; [|reflexivity].
    destruct (in_pool _ p); [|reflexivity].
    destruct (negb (exit_of _ p =? 0) && exited _ p); rewrite ?procs_len_deliver; reflexivity.
  - destruct (negb (memZ j (dirty s1)) && timed_out s1 (Some t) (eff_soft s1 x)); [|reflexivity].
    cbn [procs with_dirty]. unfold on_soft. destruct (ready x); [reflexivity|].
    destruct (owner x) as [p|]; [|reflexivity]. destruct (in_pool s1 p); [|reflexivity].
    rewrite procs_len_deliver. reflexivity.
Qed.

Lemma sem_scan_job lingers s1 j : sem (scan_job lingers s1 j) = sem s1.
Proof.
  unfold scan_job. destruct (get_job s1 j) as [x|]; [|reflexivity].
  destruct (kind x); try reflexivity. destruct (time_accepted x) as [t|]; [|reflexivity].
  destruct (timed_out s1 (Some t) (eff_hard s1 x)).
  - unfold on_hard. destruct (ready x); [reflexivity|].
    destruct (owner x) as [p|]; [|reflexivity].
    destruct (in_pool _ p); [|reflexivity].
    destruct (negb (exit_of _ p =? 0) && exited _ p); reflexivity.
  - destruct (negb (memZ j (dirty s1)) && timed_out s1 (Some t) (eff_soft s1 x)); [|reflexivity].
    cbn [sem with_dirty]. unfold on_soft. destruct (ready x); [reflexivity|].
    destruct (owner x) as [p|]; [|reflexivity]. destruct (in_pool s1 p); reflexivity.
Qed.

(* workers are only ever started by the supervision pass (and at construction) *)
Theorem only_tick_starts_workers s e :
  e <> ETick -> (forall k, e <> ETickClose k) -> length (procs (fst (step s e))) = length (procs s).
Proof.
  intros Hne0 Hnk; revert Hne0.
  assert (Hsp : forall s p f, length (procs (set_proc s p f)) = length (procs s)).
  { intros s0 p f. unfold set_proc. cbn. destruct (p <? 0); [reflexivity|apply length_upd_nth]. }
  assert (Hdl : forall s p sg l, length (procs (deliver s p sg l)) = length (procs s)).
  { intros. unfold deliver. rewrite Hsp. reflexivity. }
  assert (Hsj : forall s j f, procs (set_job s j f) = procs s) by reflexivity.
  intros Hne. destruct e; try congruence; unfold step; cbn [fst]; try reflexivity.
  - unfold do_apply.
    destruct (negb (pstate (with_sigs s []) =? 0)); [reflexivity|].
    destruct ((match slot with Some b => b | None => putlocks (with_sigs s []) end) && (LaxSem.value (sem (with_sigs s [])) =? 0)); [reflexivity|]. cbn [fst].
    destruct (match slot with Some b => b | None => putlocks (with_sigs s []) end); reflexivity.
  - unfold do_map. destruct (negb (pstate (with_sigs s []) =? 0)); reflexivity.
  - unfold do_imap. destruct (negb (pstate (with_sigs s []) =? 0)); reflexivity.
  - unfold do_imap. destruct (negb (pstate (with_sigs s []) =? 0)); reflexivity.
  - (* feed: only jobs and feeds change *)
    change (length (procs (fst (do_feed (with_sigs s []) fail_at io))) = length (procs (with_sigs s []))).
    generalize (with_sigs s []). intros s0. unfold do_feed.
    assert (Hft : forall fuel i j k fa io0 s1, procs (fst (fst (feed_tasks fuel i j k fa io0 s1))) = procs s1).
    { induction fuel as [|f IH]; intros; cbn [feed_tasks]; [reflexivity|].
      destruct (okey_eqb (Some k) fa); [|apply IH]. destruct io0; [reflexivity|].
      rewrite IH. destruct (cached s1 j) as [x|]; [|reflexivity].
      destruct (kind x); try reflexivity. destruct (ready x); reflexivity. }
    assert (Hfs : forall fs k fa io0 s1, procs (fst (fst (do_feeds fs k fa io0 s1))) = procs s1).
    { induction fs as [|[[j n] sl] r IH]; intros; cbn [do_feeds]; [reflexivity|].
      pose proof (Hft (Z.to_nat n) 0 j k fa io0 s1) as H0.
      destruct (feed_tasks (Z.to_nat n) 0 j k fa io0 s1) as [[s2 k2] st]. cbn [fst] in H0.
      destruct st; [exact H0|].
      destruct sl.
      - destruct (get_job s2 j) as [x|].
        + destruct (snd (set_length x n)); cbn [fst]; [exact H0|]. rewrite IH. exact H0.
        + rewrite IH. exact H0.
      - rewrite IH. exact H0. }
    pose proof (Hfs (feeds s0) 0 fail_at io s0) as H0.
    destruct (do_feeds (feeds s0) 0 fail_at io s0) as [[s1 rest] r]. cbn [fst] in *. rewrite <- H0. reflexivity.
  - unfold do_ack. destruct (cached _ j) as [x|]; [|reflexivity].
    destruct (kind x); try reflexivity. destruct i; reflexivity.
  - unfold do_ready. destruct (cached _ j) as [x|]; [|reflexivity]. cbn [fst].
    rewrite Hsj. unfold bump_counter.
    destruct (ready x); destruct (worker_pids x) as [|p0 l0]; try reflexivity;
      destruct (in_pool _ p0); try reflexivity; cbn [procs with_sem]; rewrite Hsp; reflexivity.
  - rewrite Hdl; reflexivity.
  - rewrite Hsp; reflexivity.
  - (* scan *)
    change (length (procs (fst (do_scan (with_sigs s []) lingers))) = length (procs (with_sigs s []))).
    generalize (with_sigs s []). intros s0. unfold do_scan.
    destruct (negb (scanner s0)); [reflexivity|]. cbn [fst].
    pose proof (procs_len_scan_job lingers) as Hone.
    assert (Hfold : forall snap s1, length (procs (fold_left (scan_job lingers) snap s1)) = length (procs s1)).
    { induction snap as [|j snap IH]; intros s1; cbn; [reflexivity|]. rewrite IH. apply Hone. }
    rewrite Hfold. reflexivity.
  - destruct (negb (scanner _)); reflexivity.
  - destruct (scan_todo _) as [|j0 r0]; cbn [fst]; [reflexivity|]. cbn [procs with_todo]. rewrite procs_len_scan_job. reflexivity.
  - unfold do_terminate_job. destruct (in_pool _ p); cbn [fst]; [|reflexivity]. rewrite Hsp, Hdl. reflexivity.
  - (* shrink *)
    unfold do_shrink. destruct (inactive _) as [|w ws]; [reflexivity|].
    destruct (LaxSem.value _ <? _); [reflexivity|].
    assert (Hsl : forall ws0 i n0 s1, length (procs (fst (shrink_loop ws0 i n0 s1))) = length (procs s1)).
    { induction ws0 as [|p0 r IH]; intros; cbn [shrink_loop fst]; [reflexivity|].
      match goal with |- length (procs (fst (if ?c then (?a, _) else _))) = _ =>
        assert (Ha : length (procs a) = length (procs s1)) by (rewrite Hdl, Hsp; reflexivity);
        destruct c; cbn [fst]; [exact Ha|rewrite IH; exact Ha] end. }
    rewrite Hsl; reflexivity.
  - unfold do_close. destruct (pstate _ =? 0); reflexivity.
  - unfold do_next. destruct (get_job _ j) as [x|]; [|reflexivity].
    destruct (negb (is_imap x)); [reflexivity|].
    destruct (items x); [destruct (okey_eqb _ _)|]; reflexivity.
  - unfold do_join_shutdown. destruct (wlist _); cbn [fst]; [reflexivity|].
    unfold join_exited. destruct (filter _ (rev _)); reflexivity.
  - unfold do_apply_q, do_apply.
    destruct (negb (pstate (with_sigs s []) =? 0)); [reflexivity|].
    destruct ((match slot with Some b => b | None => putlocks (with_sigs s []) end) && (LaxSem.value (sem (with_sigs s [])) =? 0)); [reflexivity|]. cbn [fst].
    destruct (match slot with Some b => b | None => putlocks (with_sigs s []) end); reflexivity.
  - unfold do_apply_unsendable. destruct (negb (pstate _ =? 0)); [reflexivity|]. destruct (_ && _); reflexivity.
Qed.

(* ------------------------------------------------------------ C11 at pool level *)
(* exits with the clean or recycle status never consume restart budget: if every
   reaped worker exited cleanly and no more workers are started than were reaped,
   the limiter is not consulted *)
Lemma repopulate_clean : forall fuel i codes s,
    Forall (fun c => clean_code c = true) codes ->
    (i + fuel <= length codes)%nat ->
    rst (fst (repopulate fuel i codes s)) = rst s /\ snd (repopulate fuel i codes s) = RNone
    \/ snd (repopulate fuel i codes s) = RExc 14.
Proof.
  induction fuel as [|f IH]; intros i codes s Hc Hle; cbn [repopulate]; [left; auto|].
  destruct (negb (pstate s =? 0)); [left; auto|].
  assert (Hns : match codes with
                | [] => false
                | _ :: _ => match nth_error codes i with Some c => negb (clean_code c) | None => true end
                end = false).
  { destruct codes as [|c0 cs]; [reflexivity|].
    destruct (nth_error (c0 :: cs) i) as [c|] eqn:E.
    - apply nth_error_In in E. rewrite Forall_forall in Hc. rewrite (Hc _ E). reflexivity.
    - apply nth_error_None in E. lia. }
  rewrite Hns.
  destruct (avail_index (with_rst s (rst s))) as [ix|]; [|right; reflexivity].
  destruct (IH (S i) codes (start_worker (with_rst s (rst s)) ix) Hc ltac:(lia)) as [[H1 H2]|H]; [left|right; exact H].
  split; [rewrite H1; reflexivity|exact H2].
Qed.

(* each abnormal exit is charged exactly once, BEFORE its replacement is started: a
   refused restart leaves the worker list as it was at that point *)
Lemma repopulate_refused_starts_nothing i codes s c :
  pstate s = 0 -> nth_error codes i = Some c -> clean_code c = false ->
  snd (Restart.step (rst s) (now s)) = true ->
  forall fuel, wlist (fst (repopulate (S fuel) i codes s)) = wlist s
               /\ snd (repopulate (S fuel) i codes s) = RExc 10.
Proof.
  intros Hp Hn Hc Hr fuel. cbn [repopulate]. rewrite Hp. cbn [Z.eqb negb].
  destruct codes as [|c0 cs]; [destruct i; discriminate|].
  rewrite Hn, Hc. cbn [negb].
  destruct (Restart.step (rst s) (now s)) as [r raised]. cbn in Hr. subst raised. auto.
Qed.

(* ------------------------------------------------------------ C10 at pool level *)
(* the slot semaphore of the pool model satisfies the LaxSem invariant in every
   reachable state, and its bound tracks the configured size *)
Definition SemOK (s : pool) : Prop := SInv (sem s) /\ LaxSem.bound (sem s) + LaxSem.pending (sem s) = nprocs s.

Lemma sinv_iter_release n x : SInv x -> SInv (Nat.iter n LaxSem.release x).
Proof. induction n; cbn; intros H; [exact H|]. apply (sinv_step _ Release). auto. Qed.
Lemma bound_iter_release n x : LaxSem.bound (Nat.iter n LaxSem.release x) = LaxSem.bound x
                               /\ LaxSem.pending (Nat.iter n LaxSem.release x) = LaxSem.pending x.
Proof.
  induction n; cbn; [auto|]. destruct IHn as [A B]. unfold LaxSem.release.
  destruct (LaxSem.value _ <? LaxSem.bound _); cbn; auto.
Qed.

Lemma sinv_iter_grow n x : SInv x -> SInv (Nat.iter n LaxSem.grow x).
Proof. induction n; cbn; intros H; [exact H|]. apply (sinv_step _ Grow). auto. Qed.

Lemma sem_shrink_loop : forall ws i n s,
    SInv (sem s) -> SInv (sem (fst (shrink_loop ws i n s))).
Proof.
  induction ws as [|p r IH]; intros i n s H; cbn [shrink_loop fst]; [exact H|].
  match goal with |- SInv (sem (fst (if ?c then (?a, _) else _))) =>
    assert (Ha : SInv (sem a)) end.
  { cbn [sem deliver set_proc with_sigs with_sem with_nprocs].
    pose proof (sinv_step _ ShrinkStart H) as H1. unfold sstep' in H1. cbn [sstep] in H1.
    destruct (sstep (shrink_start (sem s)) ShrinkFinish) as [x|] eqn:E; [|exact H1].
    pose proof (sinv_step _ ShrinkFinish H1) as H2. unfold sstep' in H2. rewrite E in H2. exact H2. }
  destruct (n - 1 <=? i); cbn [fst]; [exact Ha|apply IH; exact Ha].
Qed.

(* C10 at pool level: in every reachable state of the pool model the slot semaphore
   satisfies 0 <= value <= bound + pending with pending >= 0 *)
(* the task handler touches the slot semaphore only by releasing (the slot of an apply task that
   could not be sent), and never the pool size *)
Lemma feed_preserves (P : LaxSem.sem -> Z -> Prop) :
  (forall x n, P x n -> P (LaxSem.release x) n) ->
  forall s fa io, P (sem s) (nprocs s) ->
                  P (sem (fst (do_feed s fa io))) (nprocs (fst (do_feed s fa io))).
Proof.
  intros Hrel.
  assert (Hft : forall fuel i j k fa io0 s1, P (sem s1) (nprocs s1) ->
            P (sem (fst (fst (feed_tasks fuel i j k fa io0 s1)))) (nprocs (fst (fst (feed_tasks fuel i j k fa io0 s1))))).
  { induction fuel as [|f IH]; intros i j k fa io0 s1 H1; cbn [feed_tasks]; [exact H1|].
    destruct (okey_eqb (Some k) fa); [|apply IH; exact H1]. destruct io0; [exact H1|].
    apply IH. destruct (cached s1 j) as [x|]; [|exact H1].
    destruct (kind x); try exact H1.
    change (P (sem (if ready x then s1 else with_sem s1 (LaxSem.release (sem s1))))
              (nprocs (if ready x then s1 else with_sem s1 (LaxSem.release (sem s1))))).
    destruct (ready x); [exact H1|]. cbn [sem nprocs with_sem]. apply Hrel. exact H1. }
  assert (Hfs : forall fs k fa io0 s1, P (sem s1) (nprocs s1) ->
            P (sem (fst (fst (do_feeds fs k fa io0 s1)))) (nprocs (fst (fst (do_feeds fs k fa io0 s1))))).
  { induction fs as [|[[j n] sl] r IH]; intros k fa io0 s1 H1; cbn [do_feeds]; [exact H1|].
    pose proof (Hft (Z.to_nat n) 0 j k fa io0 s1 H1) as H2.
    destruct (feed_tasks (Z.to_nat n) 0 j k fa io0 s1) as [[s2 k2] st]. cbn [fst] in H2.
    destruct st; [exact H2|].
    destruct sl.
    - destruct (get_job s2 j) as [x|].
      + destruct (snd (set_length x n)); cbn [fst]; [exact H2|]. apply IH. exact H2.
      + apply IH. exact H2.
    - apply IH. exact H2. }
  intros s fa io H0. unfold do_feed.
  pose proof (Hfs (feeds s) 0 fa io s H0) as H1.
  destruct (do_feeds (feeds s) 0 fa io s) as [[s1 rest] r]. cbn [fst] in *. exact H1.
Qed.

Lemma sem_join_exited s0 : sem (fst (join_exited s0)) = sem s0.
Proof. unfold join_exited. destruct (filter _ (rev _)); reflexivity. Qed.

Lemma sem_repopulate : forall fuel i cs s2, sem (fst (repopulate fuel i cs s2)) = sem s2.
Proof.
  induction fuel as [|f IH]; intros; cbn [repopulate]; [reflexivity|].
  destruct (negb (pstate s2 =? 0)); [reflexivity|].
  match goal with |- context [if ?c then Restart.step (rst s2) (now s2) else (rst s2, false)] =>
    destruct (if c then Restart.step (rst s2) (now s2) else (rst s2, false)) as [r raised] end.
  destruct raised; [reflexivity|].
  destruct (avail_index (with_rst s2 r)); [|reflexivity]. rewrite IH. reflexivity.
Qed.

Lemma sem_do_tick s0 : SInv (sem s0) -> SInv (sem (fst (do_tick s0))).
Proof.
  intros H0. unfold do_tick. pose proof (sem_join_exited s0) as Hje.
  destruct (join_exited s0) as [s1 codes]. cbn [fst] in Hje.
  pose proof (sem_repopulate (Z.to_nat (nprocs s1 - Z.of_nat (length (wlist s1)))) 0%nat codes s1) as H1.
  destruct (repopulate _ 0 codes s1) as [s2 r]. cbn [fst] in H1.
  destruct r; cbn [fst]; try (rewrite H1, Hje; exact H0).
  unfold release_n. cbn [sem with_sem]. apply sinv_iter_release. rewrite H1, Hje. exact H0.
Qed.

Lemma sinv_do_close s0 : SInv (sem s0) -> SInv (sem (do_close s0)).
Proof.
  intros H. unfold do_close. destruct (pstate s0 =? 0); [|exact H]. cbn [sem with_sem with_pstate].
  apply (sinv_step _ Clear). exact H.
Qed.

Lemma sem_do_tick_close s0 k : SInv (sem s0) -> SInv (sem (fst (do_tick_close s0 k))).
Proof.
  intros H0. unfold do_tick_close. pose proof (sem_join_exited s0) as Hje. pose proof (sem_do_tick s0 H0) as Ht.
  destruct (join_exited s0) as [s1 codes]. cbn [fst] in Hje.
  destruct (Z.to_nat (nprocs s1 - Z.of_nat (length (wlist s1))) <=? k)%nat; [exact Ht|].
  pose proof (sem_repopulate (S k) 0%nat codes s1) as H1.
  destruct (repopulate (S k) 0 codes s1) as [s2 r]. cbn [fst] in H1.
  destruct r; cbn [fst]; try (rewrite H1, Hje; exact H0).
  unfold release_n. cbn [sem with_sem]. apply sinv_iter_release. apply sinv_do_close. rewrite H1, Hje. exact H0.
Qed.

Theorem sem_step s e : SInv (sem s) -> SInv (sem (fst (step s e))).
Proof.
  assert (Hdl : forall s p sg l, sem (deliver s p sg l) = sem s) by reflexivity.
  intros H. destruct e; unfold step; cbn [fst]; try exact H.
  - unfold do_apply.
    destruct (negb (pstate (with_sigs s []) =? 0)); [exact H|].
    destruct ((match slot with Some b => b | None => putlocks (with_sigs s []) end) && (LaxSem.value (sem (with_sigs s [])) =? 0)); [exact H|]. cbn [fst].
    destruct (match slot with Some b => b | None => putlocks (with_sigs s []) end); [|exact H].
    cbn [sem add_job with_sem]. apply sinv_step. exact H.
  - unfold do_map. destruct (negb (pstate (with_sigs s []) =? 0)); exact H.
  - unfold do_imap. destruct (negb (pstate (with_sigs s []) =? 0)); exact H.
  - unfold do_imap. destruct (negb (pstate (with_sigs s []) =? 0)); exact H.
  - apply (feed_preserves (fun x _ => SInv x) (fun x n Hx => sinv_step x Release Hx) (with_sigs s []) fail_at io). exact H.
  - unfold do_ack. destruct (cached _ j) as [x|]; [|exact H].
    destruct (kind x); try exact H. destruct i; exact H.
  - unfold do_ready. destruct (cached _ j) as [x|]; [|exact H]. cbn [fst].
    change (sem (set_job ?a ?b ?c)) with (sem a).
    assert (Hb : sem (bump_counter (with_sigs s []) x) = sem s).
    { unfold bump_counter. destruct (worker_pids x) as [|p0 l0]; [reflexivity|].
      destruct (in_pool _ p0); reflexivity. }
    destruct (ready x); [rewrite Hb; exact H|].
    cbn [sem with_sem]. rewrite Hb. apply (sinv_step _ Release). exact H.
  - (* tick *)
    apply (sem_do_tick (with_sigs s [])). exact H.
  - (* scan *)
    change (SInv (sem (fst (do_scan (with_sigs s []) lingers)))).
    assert (H0 : SInv (sem (with_sigs s []))) by exact H. revert H0.
    generalize (with_sigs s []). intros s0 H0. unfold do_scan.
    destruct (negb (scanner s0)); [exact H0|]. cbn [fst].
    pose proof (sem_scan_job lingers) as Hone.
    assert (Hfold : forall snap s1, sem (fold_left (scan_job lingers) snap s1) = sem s1).
    { induction snap as [|j snap IH]; intros s1; cbn; [reflexivity|]. rewrite IH. apply Hone. }
    rewrite Hfold. exact H0.
  - destruct (negb (scanner _)); exact H.
  - destruct (scan_todo _) as [|j0 r0]; cbn [fst]; [exact H|]. cbn [sem with_todo]. rewrite sem_scan_job. exact H.
  - unfold do_terminate_job. destruct (in_pool _ p); exact H.
  - cbn [sem with_sem with_nprocs]. apply sinv_iter_grow. exact H.
  - unfold do_shrink. destruct (inactive _) as [|w ws]; [exact H|].
    destruct (LaxSem.value _ <? _); [exact H|]. apply sem_shrink_loop. exact H.
  - apply (sinv_do_close (with_sigs s [])). exact H.
  - unfold do_next. destruct (get_job _ j) as [x|]; [|exact H].
    destruct (negb (is_imap x)); [exact H|].
    destruct (items x); [destruct (okey_eqb _ _)|]; exact H.
  - apply (sem_do_tick_close (with_sigs s [])). exact H.
  - unfold do_join_shutdown. destruct (wlist _); cbn [fst]; [exact H|].
    rewrite sem_join_exited. exact H.
  - (* apply_async through the task handler: the slot accounting of apply_async *)
    unfold do_apply_q, do_apply.
    destruct (negb (pstate (with_sigs s []) =? 0)); [exact H|].
    destruct ((match slot with Some b => b | None => putlocks (with_sigs s []) end) && (LaxSem.value (sem (with_sigs s [])) =? 0)); [exact H|]. cbn [fst].
    destruct (match slot with Some b => b | None => putlocks (with_sigs s []) end); [|exact H].
    cbn [sem add_job with_sem with_feeds]. apply sinv_step. exact H.
  - unfold do_apply_unsendable. destruct (negb (pstate _ =? 0)); [exact H|]. destruct (_ && _); exact H.
Qed.

Lemma sem_init_ok c : 0 <= c_n c -> SInv (sem (init c)).
Proof.
  intros Hn. unfold init.
  assert (H : forall n i s, sem (start_n n i s) = sem s).
  { induction n as [|n IH]; intros; cbn; [reflexivity|]. rewrite IH. reflexivity. }
  rewrite H. cbn [sem]. apply sinv_init. exact Hn.
Qed.

Theorem sem_reachable c tr : 0 <= c_n c -> SInv (sem (run c tr)).
Proof.
  intros Hn. unfold run.
  assert (Hrun : forall tr s, SInv (sem s) -> SInv (sem (fold_left (fun s e => fst (step s e)) tr s))).
  { induction tr0 as [|e tr0 IH]; intros s H; cbn; [exact H|]. apply IH. apply sem_step. exact H. }
  apply Hrun. apply sem_init_ok. exact Hn.
Qed.

(* ------------------------------------------------------------ close() in the middle of a pass *)
Lemma repopulate_starts_le : forall fuel i codes s,
    (length (procs (fst (repopulate fuel i codes s))) <= length (procs s) + fuel)%nat.
Proof.
  induction fuel as [|f IH]; intros i codes s; cbn [repopulate]; [cbn; lia|].
  destruct (negb (pstate s =? 0)); [cbn; lia|].
  match goal with |- context [if ?c then Restart.step (rst s) (now s) else (rst s, false)] =>
    destruct (if c then Restart.step (rst s) (now s) else (rst s, false)) as [r raised] end.
  destruct raised; [cbn; lia|].
  destruct (avail_index (with_rst s r)) as [ix|]; [|cbn; lia].
  specialize (IH (S i) codes (start_worker (with_rst s r) ix)).
  unfold start_worker in IH at 2. cbn [procs with_rst] in IH. rewrite app_length in IH. cbn [length] in IH. lia.
Qed.

Lemma procs_join_exited s : procs (fst (join_exited s)) = procs s.
Proof. unfold join_exited. destruct (filter _ (rev _)); reflexivity. Qed.

(* when close() is called from the start-up hook of the (k+1)-th worker a pass starts, the pass
   starts no further worker: at most k+1 in all *)
Theorem tick_close_starts_at_most s k :
  (Z.to_nat (nprocs (fst (join_exited s)) - Z.of_nat (length (wlist (fst (join_exited s))))) > k)%nat ->
  (length (procs (fst (do_tick_close s k))) <= length (procs s) + S k)%nat.
Proof.
  intros Hm. unfold do_tick_close. pose proof (procs_join_exited s) as Hp.
  destruct (join_exited s) as [s1 codes]. cbn [fst] in *.
  destruct (Z.to_nat (nprocs s1 - Z.of_nat (length (wlist s1))) <=? k)%nat eqn:E; [apply Nat.leb_le in E; lia|].
  pose proof (repopulate_starts_le (S k) 0 codes s1) as H1.
  destruct (repopulate (S k) 0 codes s1) as [s2 r]. cbn [fst] in H1.
  destruct r; cbn [fst]; try (rewrite <- Hp; exact H1).
  unfold release_n, do_close. destruct (pstate s2 =? 0); cbn [procs with_sem with_pstate]; rewrite <- Hp; exact H1.
Qed.

(* ... and the pool is closed afterwards if that hook ran *)
Theorem tick_close_closes s k s' :
  do_tick_close s k = (s', RNone) ->
  (Z.to_nat (nprocs (fst (join_exited s)) - Z.of_nat (length (wlist (fst (join_exited s))))) > k)%nat ->
  pstate s' <> 0.
Proof.
  unfold do_tick_close. destruct (join_exited s) as [s1 codes]. cbn [fst].
  destruct (Z.to_nat (nprocs s1 - Z.of_nat (length (wlist s1))) <=? k)%nat eqn:E; [intros _ H; apply Nat.leb_le in E; lia|].
  destruct (repopulate (S k) 0 codes s1) as [s2 r]. destruct r; try discriminate.
  intros H _. inversion H; subst s'. unfold release_n, do_close.
  destruct (pstate s2 =? 0) eqn:Ep; cbn [pstate with_sem with_pstate]; lia.
Qed.

(* ------------------------------------------------------------ the drain loop of the result handler *)
(* _join_exited_workers(shutdown=True) treats every job exactly as a supervision pass does --
   also when no worker is left and it ends by raising WorkersJoined: the lost-worker deadlines of
   C04 are enforced on a closed pool that has lost its last worker *)
Theorem join_shutdown_jobs s : jobs (fst (do_join_shutdown s)) = jobs (fst (do_tick s)).
Proof.
  unfold do_join_shutdown, do_tick.
  assert (Hj : jobs (fst (join_exited s)) =
               match wlist s with [] => jobs (mark_all_lost s) | _ => jobs (fst (join_exited s)) end).
  { destruct (wlist s) eqn:Ew; [|reflexivity]. unfold join_exited.
    assert (Hw : wlist (mark_all_lost s) = []) by (rewrite <- Ew; reflexivity).
    rewrite Hw. reflexivity. }
  destruct (join_exited s) as [s1 codes] eqn:Ej. cbn [fst] in Hj.
  pose proof (sj_repopulate (Z.to_nat (nprocs s1 - Z.of_nat (length (wlist s1)))) 0 codes s1) as H1.
  destruct (repopulate _ 0 codes s1) as [s2 r]. cbn [fst] in H1. unfold same_jobs in H1.
  assert (Hres : jobs (fst (match r with RNone => (release_n s2 (length codes), RNone) | _ => (s2, r) end)) = jobs s1).
  { destruct r; cbn [fst]; exact H1. }
  rewrite Hres, Hj. destruct (wlist s); reflexivity.
Qed.
