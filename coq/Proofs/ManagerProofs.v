(* C20: proofs about Model/Manager.v and its tie to Gen/G_manager.v *)
From Coq Require Import String ZArith List Bool Lia ZifyBool.
From BV Require Import Lib.ManagerLib Lib.Cases Gen.G_manager Model.Manager Proofs.ManagerTreeProofs.
Import ListNotations.
Open Scope Z_scope.

(* ------------------------------------------------------------ dictionaries *)
Lemma dget_dset_same {V} (d : dict V) k v : dget (dset d k v) k = Some v.
Proof.
  induction d as [|[k' v'] r IH]; cbn [dset dget].
  - rewrite Z.eqb_refl. reflexivity.
  - destruct (k' =? k) eqn:E; cbn [dget].
    + rewrite Z.eqb_refl. reflexivity.
    + rewrite E. exact IH.
Qed.

Lemma dget_dset_other {V} (d : dict V) k k' v : k' <> k -> dget (dset d k v) k' = dget d k'.
Proof.
  intros Hne. induction d as [|[k0 v0] r IH]; cbn [dset dget].
  - destruct (k =? k') eqn:E; [lia|reflexivity].
  - destruct (k0 =? k) eqn:E; cbn [dget].
    + destruct (k =? k') eqn:E1; [lia|]. destruct (k0 =? k') eqn:E2; [lia|]. reflexivity.
    + destruct (k0 =? k') eqn:E2; [reflexivity|exact IH].
Qed.

Lemma dget_ddel_same {V} (d : dict V) k : dget (ddel d k) k = None.
Proof.
  induction d as [|[k0 v0] r IH]; cbn [ddel dget]; [reflexivity|].
  destruct (k0 =? k) eqn:E; [exact IH|]. cbn [dget]. rewrite E. exact IH.
Qed.

Lemma dget_ddel_other {V} (d : dict V) k k' : k' <> k -> dget (ddel d k) k' = dget d k'.
Proof.
  intros Hne. induction d as [|[k0 v0] r IH]; cbn [ddel dget]; [reflexivity|].
  destruct (k0 =? k) eqn:E.
  - destruct (k0 =? k') eqn:E2; [lia|exact IH].
  - cbn [dget]. destruct (k0 =? k') eqn:E2; [reflexivity|exact IH].
Qed.

Lemma dmem_dset_same {V} (d : dict V) k v : dmem (dset d k v) k = true.
Proof. unfold dmem. rewrite dget_dset_same. reflexivity. Qed.

(* ------------------------------------- the translated code equals the model *)
Lemma gen_incref_eq : forall (s : st) id, G_manager.incref s id = Manager.incref s id.
Proof.
  intros s id. unfold G_manager.incref, Manager.incref, rd.
  destruct (dget (rcs s) id); reflexivity.
Qed.

Lemma gen_decref_eq : forall (s : st) id, G_manager.decref s id = Manager.decref s id.
Proof.
  intros [o r] id. unfold G_manager.decref, Manager.decref, rd, set_rcs, set_objs.
  cbn [rcs objs].
  destruct (dget r id) as [n|] eqn:E; [|reflexivity].
  destruct (n >=? 1) eqn:E1; [|reflexivity].
  rewrite dget_dset_same.
  destruct (n - 1 =? 0) eqn:E2; [|reflexivity].
  destruct (dmem o id) eqn:E3; [|reflexivity].
  rewrite dmem_dset_same. f_equal. f_equal.
  (* deleting after the store = deleting *)
  clear. induction r as [|[k v] r IH]; cbn [dset ddel].
  - rewrite Z.eqb_refl. reflexivity.
  - destruct (k =? id) eqn:E; cbn [ddel].
    + rewrite Z.eqb_refl. reflexivity.
    + rewrite E. f_equal. exact IH.
Qed.

Lemma gen_create_tail_eq : forall (s : st) id e,
    G_manager.create_tail s id e = Manager.create_tail s id e.
Proof.
  intros [o r] id e. unfold G_manager.create_tail, Manager.create_tail, G_manager.incref, rd, bindo,
                     set_rcs, set_objs, dmem.
  cbn [rcs objs].
  destruct (dget r id) as [n|] eqn:E; cbn [negb].
  - reflexivity.
  - rewrite dget_dset_same. f_equal. f_equal.
    clear. induction r as [|[k v] r IH]; cbn [dset].
    + rewrite Z.eqb_refl. reflexivity.
    + destruct (k =? id) eqn:E; cbn [dset].
      * rewrite Z.eqb_refl. reflexivity.
      * rewrite E. f_equal. exact IH.
Qed.

Lemma gen_serve_body_eq : G_manager.serve_body = Manager.serve_body.
Proof. reflexivity. Qed.
Lemma gen_hr_body_eq : G_manager.hr_body = Manager.hr_body.
Proof. reflexivity. Qed.
Lemma gen_entry_points :
  G_manager.serve_client_callers = Manager.serve_client_callers /\
  G_manager.handle_request_callers = Manager.handle_request_callers /\
  In "accept_connection"%string G_manager.server_public /\
  ~ In "serve_client"%string G_manager.server_public.
Proof.
  repeat split; try reflexivity.
  - cbn. tauto.
  - cbn. intros H. repeat (destruct H as [H|H]; [discriminate H|]). exact H.
Qed.

(* ================================================================ invariants *)
Lemma dmem_dset {V} (d : dict V) k v k' : dmem (dset d k v) k' = (k' =? k) || dmem d k'.
Proof.
  unfold dmem. destruct (k' =? k) eqn:E.
  - assert (k' = k) by lia. subst. rewrite dget_dset_same. reflexivity.
  - rewrite dget_dset_other by lia. reflexivity.
Qed.

Lemma dmem_ddel {V} (d : dict V) k k' : dmem (ddel d k) k' = negb (k' =? k) && dmem d k'.
Proof.
  unfold dmem. destruct (k' =? k) eqn:E.
  - assert (k' = k) by lia. subst. rewrite dget_ddel_same. reflexivity.
  - rewrite dget_ddel_other by lia. reflexivity.
Qed.

(* the server's tables are consistent *)
Record inv (s : st) : Prop := mk_inv {
  inv_zero : dget (objs s) 0 = Some Slot0;
  inv_rc0 : dget (rcs s) 0 = None;
  inv_pos : forall id n, dget (rcs s) id = Some n -> 1 <= n;
  inv_same : forall id, id <> 0 -> dmem (objs s) id = dmem (rcs s) id;
  inv_slot : forall id, id <> 0 -> dget (objs s) id <> Some Slot0 }.

Lemma inv_init : inv init_st.
Proof.
  split; try reflexivity.
  - intros id n H. discriminate H.
  - intros id Hid. unfold dmem, init_st. cbn [objs rcs dget].
    destruct (0 =? id) eqn:E; [lia|reflexivity].
  - intros id Hid. unfold init_st. cbn [objs dget]. destruct (0 =? id) eqn:E; [lia|discriminate].
Qed.

Definition refcount_upd (s s' : st) (id : Z) (d : Z) : Prop :=
  forall id', refcount s' id' = refcount s id' + (if id' =? id then d else 0).

Lemma refcount_dset (s : st) id n id' :
  refcount (set_rcs s (dset (rcs s) id n)) id' = if id' =? id then n else refcount s id'.
Proof.
  unfold refcount. cbn [rcs set_rcs]. destruct (id' =? id) eqn:E.
  - assert (id' = id) by lia. subst. rewrite dget_dset_same. reflexivity.
  - rewrite dget_dset_other by lia. reflexivity.
Qed.

(* ---- incref *)
Lemma incref_spec (s : st) id :
  inv s ->
  match incref s id with
  | Ok _ s' => inv s' /\ objs s' = objs s /\ refcount_upd s s' id 1 /\ id <> 0 /\ 1 <= refcount s id
  | Exc e s' => e = E_Key /\ s' = s /\ dget (rcs s) id = None
  end.
Proof.
  intros I. unfold incref. destruct (dget (rcs s) id) as [n|] eqn:E; [|auto].
  assert (Hid : id <> 0) by (intros ->; rewrite (inv_rc0 s I) in E; discriminate).
  pose proof (inv_pos s I id n E) as Hn.
  repeat split; try assumption.
  - exact (inv_zero s I).
  - cbn [rcs set_rcs]. rewrite dget_dset_other by lia. exact (inv_rc0 s I).
  - intros id' n'. cbn [rcs set_rcs]. destruct (Z.eq_dec id' id) as [->|Hne].
    + rewrite dget_dset_same. intros H; inversion H; lia.
    + rewrite dget_dset_other by lia. apply (inv_pos s I).
  - intros id' Hid'. cbn [rcs set_rcs objs]. rewrite dmem_dset, (inv_same s I id' Hid').
    destruct (id' =? id) eqn:E1; [|reflexivity].
    assert (id' = id) by lia; subst. unfold dmem. rewrite E. reflexivity.
  - exact (inv_slot s I).
  - intros id'. rewrite refcount_dset. unfold refcount.
    destruct (id' =? id) eqn:E1; [|lia]. assert (id' = id) by lia; subst. rewrite E. lia.
  - unfold refcount. rewrite E. lia.
Qed.

(* ---- decref *)
Lemma decref_spec (s : st) id :
  inv s ->
  match decref s id with
  | Ok _ s' => inv s' /\ refcount_upd s s' id (-1) /\ id <> 0 /\ 1 <= refcount s id /\
               (forall id', id' <> id -> dget (objs s') id' = dget (objs s) id') /\
               (if refcount s id =? 1 then dmem (objs s') id = false
                else dget (objs s') id = dget (objs s) id)
  | Exc e s' => e = E_Key /\ s' = s /\ dget (rcs s) id = None
  end.
Proof.
  intros I. unfold decref. destruct (dget (rcs s) id) as [n|] eqn:E; [|auto].
  assert (Hid : id <> 0) by (intros ->; rewrite (inv_rc0 s I) in E; discriminate).
  pose proof (inv_pos s I id n E) as Hn.
  replace (n >=? 1) with true by lia.
  assert (Hrc : refcount s id = n) by (unfold refcount; rewrite E; reflexivity).
  destruct (n - 1 =? 0) eqn:E0.
  - assert (Hm : dmem (objs s) id = true).
    { rewrite (inv_same s I id Hid). unfold dmem. rewrite E. reflexivity. }
    rewrite Hm. repeat split; try assumption; cbn [objs rcs].
    + rewrite dget_ddel_other by lia. exact (inv_zero s I).
    + rewrite dget_ddel_other by lia. exact (inv_rc0 s I).
    + intros id' n'. destruct (Z.eq_dec id' id) as [->|Hne].
      * rewrite dget_ddel_same. discriminate.
      * rewrite dget_ddel_other by lia. apply (inv_pos s I).
    + intros id' Hid'. rewrite !dmem_ddel, (inv_same s I id' Hid'). reflexivity.
    + intros id' Hid'. destruct (Z.eq_dec id' id) as [->|Hne].
      * rewrite dget_ddel_same. discriminate.
      * rewrite dget_ddel_other by lia. exact (inv_slot s I id' Hid').
    + intros id'. unfold refcount. cbn [rcs]. destruct (id' =? id) eqn:E1.
      * assert (id' = id) by lia; subst. rewrite dget_ddel_same, E. lia.
      * rewrite dget_ddel_other by lia. lia.
    + lia.
    + intros id' Hne. rewrite dget_ddel_other by lia. reflexivity.
    + rewrite Hrc. replace (n =? 1) with true by lia. rewrite dmem_ddel, Z.eqb_refl. reflexivity.
  - repeat split; try assumption; cbn [objs rcs set_rcs].
    + exact (inv_zero s I).
    + rewrite dget_dset_other by lia. exact (inv_rc0 s I).
    + intros id' n'. destruct (Z.eq_dec id' id) as [->|Hne].
      * rewrite dget_dset_same. intros H; inversion H; lia.
      * rewrite dget_dset_other by lia. apply (inv_pos s I).
    + intros id' Hid'. rewrite dmem_dset, (inv_same s I id' Hid').
      destruct (id' =? id) eqn:E1; [|reflexivity].
      assert (id' = id) by lia; subst. unfold dmem. rewrite E. reflexivity.
    + exact (inv_slot s I).
    + intros id'. rewrite refcount_dset. unfold refcount.
      destruct (id' =? id) eqn:E1; [|lia]. assert (id' = id) by lia; subst. rewrite E. lia.
    + lia.
    + rewrite Hrc. replace (n =? 1) with false by lia. reflexivity.
Qed.

(* ---- the tail of create *)
Lemma create_tail_spec (s : st) id o t :
  inv s -> id <> 0 ->
  exists s', create_tail s id (SlotE o t) = Ok id s' /\ inv s' /\ refcount_upd s s' id 1 /\
             dget (objs s') id = Some (SlotE o t) /\
             (forall id', id' <> id -> dget (objs s') id' = dget (objs s) id').
Proof.
  intros I Hid. unfold create_tail. eexists. split; [reflexivity|].
  unfold set_objs, set_rcs. cbn [objs rcs].
  repeat split; cbn [objs rcs].
  - rewrite dget_dset_other by lia. exact (inv_zero s I).
  - rewrite dget_dset_other by lia. exact (inv_rc0 s I).
  - intros id' n'. destruct (Z.eq_dec id' id) as [->|Hne].
    + rewrite dget_dset_same. intros H; inversion H.
      destruct (dget (rcs s) id) as [n|] eqn:E; [pose proof (inv_pos s I id n E)|]; lia.
    + rewrite dget_dset_other by lia. apply (inv_pos s I).
  - intros id' Hid'. rewrite !dmem_dset, (inv_same s I id' Hid'). reflexivity.
  - intros id' Hid'. destruct (Z.eq_dec id' id) as [->|Hne].
    + rewrite dget_dset_same. discriminate.
    + rewrite dget_dset_other by lia. exact (inv_slot s I id' Hid').
  - intros id'. unfold refcount. cbn [rcs]. destruct (id' =? id) eqn:E1.
    + assert (id' = id) by lia; subst. rewrite dget_dset_same. lia.
    + rewrite dget_dset_other by lia. lia.
  - apply dget_dset_same.
  - intros id' Hne. rewrite dget_dset_other by lia. reflexivity.
Qed.

(* ---- a call mutates its referent in place *)
Lemma set_obj_spec (s : st) id o t o' :
  inv s -> dget (objs s) id = Some (SlotE o t) ->
  inv (set_obj s id o' t) /\ rcs (set_obj s id o' t) = rcs s /\
  dget (objs (set_obj s id o' t)) id = Some (SlotE o' t) /\
  (forall id', id' <> id -> dget (objs (set_obj s id o' t)) id' = dget (objs s) id').
Proof.
  intros I Hg.
  assert (Hid : id <> 0) by (intros ->; rewrite (inv_zero s I) in Hg; discriminate).
  unfold set_obj, set_objs. cbn [objs rcs]. repeat split; cbn [objs rcs].
  - rewrite dget_dset_other by lia. exact (inv_zero s I).
  - exact (inv_rc0 s I).
  - exact (inv_pos s I).
  - intros id' Hid'. rewrite dmem_dset, <- (inv_same s I id' Hid').
    destruct (id' =? id) eqn:E; [|reflexivity]. assert (id' = id) by lia; subst.
    unfold dmem. rewrite Hg. reflexivity.
  - intros id' Hid'. destruct (Z.eq_dec id' id) as [->|Hne].
    + rewrite dget_dset_same. discriminate.
    + rewrite dget_dset_other by lia. exact (inv_slot s I id' Hid').
  - apply dget_dset_same.
  - intros id' Hne. rewrite dget_dset_other by lia. reflexivity.
Qed.

Lemma refcount_upd_same (s s' : st) id d : rcs s' = rcs s -> d = 0 -> refcount_upd s s' id d.
Proof. intros H -> id'. unfold refcount. rewrite H. destruct (id' =? id); lia. Qed.

(* what a well-formed request does to the tables *)
Lemma dispatch_spec (s : st) id m a newid :
  inv s -> newid <> 0 ->
  inv (snd (dispatch s id m a newid)) /\
  match fst (dispatch s id m a newid) with
  | R_proxy rid t2 => refcount_upd s (snd (dispatch s id m a newid)) rid 1 /\ rid <> 0 /\
                      (rid = id \/ rid = newid)
  | _ => rcs (snd (dispatch s id m a newid)) = rcs s
  end /\
  (forall id', id' <> id -> id' <> newid ->
               dget (objs (snd (dispatch s id m a newid))) id' = dget (objs s) id') /\
  (dmem (objs s) id = true -> dmem (objs (snd (dispatch s id m a newid))) id = true).
Proof.
  intros I Hnew. unfold dispatch.
  destruct (dget (objs s) id) as [[|o t]|] eqn:Hg; cbn [fst snd].
  1,3: (split; [exact I | repeat split; auto]).
  destruct (exposed_of t m && has_attr t m); cbn [fst snd];
    [|unfold fallback; destruct (is_fallback m); [destruct a|]; cbn [fst snd];
      (split; [exact I | repeat split; auto])].
  destruct (apply_ref o t m a) as [[v o']|x]; cbn [fst snd]; [|split; [exact I | repeat split; auto]].
  destruct (set_obj_spec s id o t o' I Hg) as (I1 & Hrc1 & Hg1 & Hfr1).
  assert (Hid : id <> 0) by (intros ->; rewrite (inv_zero s I) in Hg; discriminate).
  assert (Hlive : dmem (objs (set_obj s id o' t)) id = true) by (unfold dmem; rewrite Hg1; reflexivity).
  destruct (m2t_of t m) as [t2|]; cbn [fst snd].
  2:{ split; [exact I1 | repeat split; auto]. }
  unfold proxy_create.
  destruct v; cbn [fst snd]; try (split; [exact I1 | repeat split; auto]; fail).
  - (* VList: a fresh referent under newid *)
    destruct (create_tail_spec (set_obj s id o' t) newid (OList l) t2 I1 Hnew) as (s2 & E2 & I2 & U2 & G2 & F2).
    rewrite E2. cbn [fst snd]. split; [exact I2 | repeat split; auto].
    + intros id' H1 H2. rewrite F2 by assumption. apply Hfr1; assumption.
    + intros _. destruct (Z.eq_dec id newid) as [->|Hne].
      * unfold dmem. rewrite G2. reflexivity.
      * unfold dmem. rewrite F2 by assumption. rewrite Hg1. reflexivity.
  - (* VSelf: the same referent registered again under its own ident *)
    destruct (create_tail_spec (set_obj s id o' t) id o' t2 I1 Hid) as (s2 & E2 & I2 & U2 & G2 & F2).
    rewrite E2. cbn [fst snd]. split; [exact I2 | repeat split; auto].
    + intros id' H1 H2. rewrite F2 by assumption. apply Hfr1; assumption.
    + intros _. unfold dmem. rewrite G2. reflexivity.
Qed.

(* ---- Server.create *)
Lemma create_spec (s : st) t a newid :
  inv s -> newid <> 0 ->
  match create s t a newid with
  | Ok (VCreated id') s' => id' = newid /\ inv s' /\ refcount_upd s s' newid 1 /\
                            (exists o, mk_obj t a = inl (Some o) /\ dget (objs s') newid = Some (SlotE o t)) /\
                            (forall id', id' <> newid -> dget (objs s') id' = dget (objs s) id')
  | Ok _ s' => s' = s
  | Exc _ s' => s' = s
  end.
Proof.
  intros I Hn. unfold create. destruct (mk_obj t a) as [[o|]|e] eqn:Hm; try reflexivity.
  destruct (create_tail_spec s newid o t I Hn) as (s' & E & I' & U & G & F).
  rewrite E. split; [reflexivity|]. split; [exact I'|]. split; [exact U|].
  split; [exists o; auto|exact F].
Qed.

(* ================================================= the system with its clients *)
Lemma count_z_app x l l' : count_z x (l ++ l') = count_z x l + count_z x l'.
Proof. induction l as [|y r IH]; cbn [app count_z]; lia. Qed.

Lemma count_z_nonneg x l : 0 <= count_z x l.
Proof. induction l as [|y r IH]; cbn [count_z]; [lia|]. destruct (y =? x); lia. Qed.

Lemma count_remove_nth x : forall k l v,
    nth_error l k = Some v ->
    count_z x (remove_nth k l) = count_z x l - (if v =? x then 1 else 0).
Proof.
  induction k as [|k IH]; intros [|y r] v H; cbn [nth_error] in H; try discriminate H.
  - inversion H; subst. cbn [remove_nth count_z]. lia.
  - cbn [remove_nth count_z]. rewrite (IH r v H). lia.
Qed.

Lemma nth_error_count : forall k (l : list Z) x, nth_error l k = Some x -> 1 <= count_z x l.
Proof.
  induction k as [|k IH]; intros [|y r] x H; cbn [nth_error] in H; try discriminate H.
  - inversion H; subst. cbn [count_z]. rewrite Z.eqb_refl. pose proof (count_z_nonneg x r). lia.
  - cbn [count_z]. specialize (IH r x H). destruct (y =? x); lia.
Qed.

Lemma map_remove_nth {A B} (f : A -> B) : forall k l, map f (remove_nth k l) = remove_nth k (map f l).
Proof.
  induction k as [|k IH]; intros [|y r]; cbn [remove_nth map]; try reflexivity.
  rewrite IH. reflexivity.
Qed.

(* THE REFERENCE-COUNT INVARIANT: the server's tables are consistent and the count of every
   ident equals the number of holders (live proxies in any process + creations in progress
   + creations whose reply was lost) *)
Definition sysinv (y : sys) : Prop :=
  inv (y_srv y) /\ forall id, refcount (y_srv y) id = holders y id.

Definition ev_ok (e : cev) : Prop :=
  match e with
  | K_create _ _ newid => newid <> 0
  | K_call _ _ _ newid _ => newid <> 0
  | _ => True
  end.

Lemma sysinv_init : sysinv init_sys.
Proof. split; [exact inv_init|]. intros id. reflexivity. Qed.

Lemma holders_unfold y id :
  holders y id = count_z id (map p_id (y_proxies y)) + count_z id (y_pending y) + count_z id (y_orphans y).
Proof. reflexivity. Qed.

Lemma cstep_inv y ev : ev_ok ev -> sysinv y -> sysinv (fst (cstep y ev)).
Proof.
  intros Hok [I H]. destruct ev as [t a newid|pid id mg|k|k|k m a newid sf]; cbn [cstep ev_ok] in *.
  - (* create *)
    pose proof (create_spec (y_srv y) t a newid I Hok) as C.
    destruct (create (y_srv y) t a newid) as [v s'|e s'].
    + destruct v; try (subst s'; split; [exact I|exact H]).
      destruct C as (-> & I' & U & _). split; [exact I'|]. intros id'. cbn [fst y_srv].
      rewrite (U id'), (H id'), !holders_unfold. cbn [y_proxies y_pending y_orphans].
      rewrite count_z_app. cbn [count_z]. destruct (id' =? newid) eqn:E;
        [replace (newid =? id') with true by lia|replace (newid =? id') with false by lia]; lia.
    + subst s'. split; [exact I|exact H].
  - (* a new proxy *)
    pose proof (incref_spec (y_srv y) id I) as C.
    destruct (incref (y_srv y) id) as [u s'|e s'].
    + destruct C as (I' & _ & U & _). split; [exact I'|]. intros id'. cbn [fst y_srv].
      rewrite (U id'), (H id'), !holders_unfold. cbn [y_proxies y_pending y_orphans].
      rewrite map_app, count_z_app. cbn [map count_z p_id].
      destruct (id' =? id) eqn:E;
        [replace (id =? id') with true by lia|replace (id =? id') with false by lia]; lia.
    + destruct C as (_ & -> & _). split; [exact I|exact H].
  - (* the creator releases its reference *)
    destruct (nth_error (y_pending y) k) as [id|] eqn:En; [|split; [exact I|exact H]].
    pose proof (decref_spec (y_srv y) id I) as C. cbn [fst].
    destruct (decref (y_srv y) id) as [u s'|e s']; cbn [out_st].
    + destruct C as (I' & U & _). split; [exact I'|]. intros id'. cbn [y_srv].
      rewrite (U id'), (H id'), !holders_unfold. cbn [y_proxies y_pending y_orphans].
      rewrite (count_remove_nth id' k _ id En).
      destruct (id' =? id) eqn:E;
        [replace (id =? id') with true by lia|replace (id =? id') with false by lia]; lia.
    + (* impossible: the holder guarantees a positive count *)
      destruct C as (_ & _ & Hnone). exfalso.
      pose proof (H id) as Hh. unfold refcount in Hh. rewrite Hnone in Hh.
      rewrite holders_unfold in Hh. pose proof (nth_error_count k _ id En).
      pose proof (count_z_nonneg id (map p_id (y_proxies y))).
      pose proof (count_z_nonneg id (y_orphans y)). lia.
  - (* a proxy is finalised *)
    destruct (nth_error (y_proxies y) k) as [p|] eqn:En; [|split; [exact I|exact H]].
    pose proof (decref_spec (y_srv y) (p_id p) I) as C. cbn [fst].
    assert (En' : nth_error (map p_id (y_proxies y)) k = Some (p_id p))
      by (rewrite nth_error_map, En; reflexivity).
    destruct (decref (y_srv y) (p_id p)) as [u s'|e s']; cbn [out_st].
    + destruct C as (I' & U & _). split; [exact I'|]. intros id'. cbn [y_srv].
      rewrite (U id'), (H id'), !holders_unfold. cbn [y_proxies y_pending y_orphans].
      rewrite map_remove_nth, (count_remove_nth id' k _ (p_id p) En').
      destruct (id' =? p_id p) eqn:E;
        [replace (p_id p =? id') with true by lia|replace (p_id p =? id') with false by lia]; lia.
    + destruct C as (_ & _ & Hnone). exfalso.
      pose proof (H (p_id p)) as Hh. unfold refcount in Hh. rewrite Hnone in Hh.
      rewrite holders_unfold in Hh. pose proof (nth_error_count k _ (p_id p) En').
      pose proof (count_z_nonneg (p_id p) (y_pending y)).
      pose proof (count_z_nonneg (p_id p) (y_orphans y)). lia.
  - (* a call through a proxy *)
    destruct (nth_error (y_proxies y) k) as [p|] eqn:En; [|split; [exact I|exact H]].
    pose proof (dispatch_spec (y_srv y) (p_id p) m a newid I Hok) as (I' & R & _).
    destruct (dispatch (y_srv y) (p_id p) m a newid) as [msg s']. cbn [fst snd] in *.
    destruct (deliver_msg msg sf) as [outs dead].
    assert (Hsame : rcs s' = rcs (y_srv y) -> forall pr pe orp,
                 pr = y_proxies y -> pe = y_pending y -> orp = y_orphans y ->
                 sysinv (mk_sys s' pr pe orp)).
    { intros Hr pr pe orp -> -> ->. split; [exact I'|]. intros id'. cbn [y_srv]. unfold refcount.
      rewrite Hr. exact (H id'). }
    destruct msg as [v|e|rid t2|e|]; try (cbn [fst]; apply Hsame; auto; fail);
      try (destruct sf; cbn [fst]; apply Hsame; auto; fail).
    destruct R as (U & _).
    destruct sf as [|sf]; cbn [fst]; (split; [exact I'|]); intros id'; cbn [y_srv];
      rewrite (U id'), (H id'), !holders_unfold; cbn [y_proxies y_pending y_orphans];
        rewrite count_z_app; cbn [count_z];
          (destruct (id' =? rid) eqn:E;
           [replace (rid =? id') with true by lia|replace (rid =? id') with false by lia]; lia).
Qed.

Lemma crun_inv : forall evs y, Forall ev_ok evs -> sysinv y -> sysinv (fst (crun y evs)).
Proof.
  induction evs as [|e r IH]; intros y Hok Hy; cbn [crun]; [exact Hy|].
  inversion Hok as [|? ? H1 H2]; subst.
  pose proof (cstep_inv y e H1 Hy) as Hs.
  destruct (cstep y e) as [y1 o]. cbn [fst] in Hs.
  specialize (IH y1 H2 Hs). destruct (crun y1 r) as [y2 os]. exact IH.
Qed.

(* refcount = number of holders, in every reachable state *)
Theorem refcount_is_holders : forall evs id,
    Forall ev_ok evs ->
    let y := fst (crun init_sys evs) in refcount (y_srv y) id = holders y id.
Proof. intros evs id Hok. exact (proj2 (crun_inv evs init_sys Hok sysinv_init) id). Qed.

(* an object is in the table iff somebody holds it *)
Lemma live_iff y id : sysinv y -> id <> 0 ->
                      (dmem (objs (y_srv y)) id = true <-> 1 <= holders y id).
Proof.
  intros [I H] Hid. rewrite (inv_same _ I id Hid), <- (H id). unfold dmem, refcount.
  destruct (dget (rcs (y_srv y)) id) as [n|] eqn:E.
  - pose proof (inv_pos _ I id n E). split; [lia|reflexivity].
  - split; [discriminate|lia].
Qed.

Lemma holders_zero y : sysinv y -> holders y 0 = 0.
Proof. intros [I H]. rewrite <- (H 0). unfold refcount. rewrite (inv_rc0 _ I). reflexivity. Qed.

Theorem in_table_iff_held : forall evs id,
    Forall ev_ok evs -> id <> 0 ->
    let y := fst (crun init_sys evs) in
    dmem (objs (y_srv y)) id = true <-> 1 <= holders y id.
Proof. intros evs id Hok Hid. apply live_iff; [apply crun_inv; [exact Hok|exact sysinv_init]|exact Hid]. Qed.

(* a live proxy's referent is in the table, as a proper entry *)
Lemma proxy_live y k p :
  sysinv y -> nth_error (y_proxies y) k = Some p ->
  p_id p <> 0 /\ exists o t, dget (objs (y_srv y)) (p_id p) = Some (SlotE o t).
Proof.
  intros Hy En. pose proof Hy as [I H].
  assert (En' : nth_error (map p_id (y_proxies y)) k = Some (p_id p))
    by (rewrite nth_error_map, En; reflexivity).
  pose proof (nth_error_count k _ _ En') as Hc.
  assert (Hh : 1 <= holders y (p_id p)).
  { rewrite holders_unfold. pose proof (count_z_nonneg (p_id p) (y_pending y)).
    pose proof (count_z_nonneg (p_id p) (y_orphans y)). lia. }
  assert (Hid : p_id p <> 0).
  { intros E0. rewrite E0, (holders_zero y Hy) in Hh. lia. }
  split; [exact Hid|].
  apply (live_iff y _ Hy Hid) in Hh. unfold dmem in Hh.
  destruct (dget (objs (y_srv y)) (p_id p)) as [[|o t]|] eqn:E; try discriminate Hh.
  - exfalso. exact (inv_slot _ I _ Hid E).
  - eauto.
Qed.

(* the decref that brings the count to 0 -- and only that one -- disposes of the referent *)
Theorem drop_disposes_exactly_last y k p :
  sysinv y -> nth_error (y_proxies y) k = Some p ->
  let y' := fst (cstep y (K_drop k)) in
  holders y' (p_id p) = holders y (p_id p) - 1 /\
  (holders y (p_id p) = 1 -> dmem (objs (y_srv y')) (p_id p) = false) /\
  (1 < holders y (p_id p) -> dget (objs (y_srv y')) (p_id p) = dget (objs (y_srv y)) (p_id p)) /\
  (forall id', id' <> p_id p -> dget (objs (y_srv y')) id' = dget (objs (y_srv y)) id').
Proof.
  intros Hy En. pose proof Hy as [I H].
  pose proof (cstep_inv y (K_drop k) Logic.I Hy) as [I' H'].
  cbn [cstep] in *. rewrite En in *. cbn [fst] in *.
  pose proof (decref_spec (y_srv y) (p_id p) I) as C.
  destruct (decref (y_srv y) (p_id p)) as [u s'|e s']; cbn [out_st y_srv] in *.
  - destruct C as (_ & U & _ & _ & F & L). rewrite (H (p_id p)) in L.
    split; [|split; [|split]].
    + rewrite <- (H' (p_id p)), <- (H (p_id p)), (U (p_id p)), Z.eqb_refl. lia.
    + intros E1. rewrite E1 in L. exact L.
    + intros E1. replace (holders y (p_id p) =? 1) with false in L by lia. exact L.
    + exact F.
  - exfalso. destruct C as (_ & _ & Hnone).
    destruct (proxy_live y k p Hy En) as (Hid & o & t & Hg).
    pose proof (inv_same _ I _ Hid) as Hs. unfold dmem in Hs. rewrite Hg, Hnone in Hs. discriminate.
Qed.

Theorem release_disposes_exactly_last y k id :
  sysinv y -> nth_error (y_pending y) k = Some id ->
  let y' := fst (cstep y (K_release k)) in
  holders y' id = holders y id - 1 /\
  (holders y id = 1 -> dmem (objs (y_srv y')) id = false) /\
  (1 < holders y id -> dget (objs (y_srv y')) id = dget (objs (y_srv y)) id) /\
  (forall id', id' <> id -> dget (objs (y_srv y')) id' = dget (objs (y_srv y)) id').
Proof.
  intros Hy En. pose proof Hy as [I H].
  pose proof (cstep_inv y (K_release k) Logic.I Hy) as [I' H'].
  cbn [cstep] in *. rewrite En in *. cbn [fst] in *.
  pose proof (decref_spec (y_srv y) id I) as C.
  destruct (decref (y_srv y) id) as [u s'|e s']; cbn [out_st y_srv] in *.
  - destruct C as (_ & U & _ & _ & F & L). rewrite (H id) in L.
    split; [|split; [|split]].
    + rewrite <- (H' id), <- (H id), (U id), Z.eqb_refl. lia.
    + intros E1. rewrite E1 in L. exact L.
    + intros E1. replace (holders y id =? 1) with false in L by lia. exact L.
    + exact F.
  - exfalso. destruct C as (_ & _ & Hnone).
    pose proof (H id) as Hh. unfold refcount in Hh. rewrite Hnone in Hh.
    rewrite holders_unfold in Hh. pose proof (nth_error_count k _ id En).
    pose proof (count_z_nonneg id (map p_id (y_proxies y))).
    pose proof (count_z_nonneg id (y_orphans y)). lia.
Qed.

(* no other event removes or alters a referent it does not address *)
Definition touches (y : sys) (ev : cev) (id : Z) : Prop :=
  match ev with
  | K_create _ _ n => n = id
  | K_call k _ _ n _ => n = id \/ exists p, nth_error (y_proxies y) k = Some p /\ p_id p = id
  | K_drop k => exists p, nth_error (y_proxies y) k = Some p /\ p_id p = id
  | K_release k => nth_error (y_pending y) k = Some id
  | K_proxy _ _ _ => False
  end.

Theorem untouched_referent_stable y ev id :
  sysinv y -> ev_ok ev -> ~ touches y ev id ->
  dget (objs (y_srv (fst (cstep y ev)))) id = dget (objs (y_srv y)) id.
Proof.
  intros Hy Hok Hn. pose proof Hy as [I H].
  destruct ev as [t a newid|pid id0 mg|k|k|k m a newid sf]; cbn [cstep touches ev_ok] in *.
  - pose proof (create_spec (y_srv y) t a newid I Hok) as C.
    destruct (create (y_srv y) t a newid) as [v s'|e s']; [|subst; reflexivity].
    destruct v; try (subst; reflexivity).
    destruct C as (_ & _ & _ & _ & F). cbn [fst y_srv]. apply F. congruence.
  - pose proof (incref_spec (y_srv y) id0 I) as C.
    destruct (incref (y_srv y) id0) as [u s'|e s']; cbn [fst y_srv].
    + destruct C as (_ & -> & _). reflexivity.
    + destruct C as (_ & -> & _). reflexivity.
  - destruct (nth_error (y_pending y) k) as [id1|] eqn:En; [|reflexivity].
    pose proof (decref_spec (y_srv y) id1 I) as C. cbn [fst y_srv].
    destruct (decref (y_srv y) id1) as [u s'|e s']; cbn [out_st].
    + destruct C as (_ & _ & _ & _ & F & _). apply F. congruence.
    + destruct C as (_ & -> & _). reflexivity.
  - destruct (nth_error (y_proxies y) k) as [p|] eqn:En; [|reflexivity].
    pose proof (decref_spec (y_srv y) (p_id p) I) as C. cbn [fst y_srv].
    destruct (decref (y_srv y) (p_id p)) as [u s'|e s']; cbn [out_st].
    + destruct C as (_ & _ & _ & _ & F & _). apply F. intros E. apply Hn. exists p. auto.
    + destruct C as (_ & -> & _). reflexivity.
  - destruct (nth_error (y_proxies y) k) as [p|] eqn:En; [|reflexivity].
    pose proof (dispatch_spec (y_srv y) (p_id p) m a newid I Hok) as (_ & _ & F & _).
    destruct (dispatch (y_srv y) (p_id p) m a newid) as [msg s']. cbn [fst snd] in *.
    destruct (deliver_msg msg sf) as [outs dead].
    assert (Hg : dget (objs s') id = dget (objs (y_srv y)) id).
    { apply F; intros E; apply Hn; [right; exists p; auto|left; auto]. }
    destruct msg; try destruct sf; exact Hg.
Qed.

(* ============================================== dispatch: executed iff live & exposed *)
Definition reply_of_local (r : lres) : reply :=
  match r with
  | LRet v _ => R_return v
  | LExn e => R_error e
  | LUnmodelled => R_return VUnmodelled
  end.
Definition obj_of_local (o : obj) (r : lres) : obj :=
  match r with LRet _ o' => o' | _ => o end.

(* an exposed method of a live referent is executed: the reply and the new referent are those
   of the same method on a local object, nothing else in the server changes *)
Theorem dispatch_executes s id m a newid o t :
  dget (objs s) id = Some (SlotE o t) ->
  exposed_of t m = true -> has_attr t m = true -> m2t_of t m = None ->
  let r := apply_local o t m a in
  fst (dispatch s id m a newid) = reply_of_local r /\
  dget (objs (snd (dispatch s id m a newid))) id = Some (SlotE (obj_of_local o r) t) /\
  (forall id', id' <> id -> dget (objs (snd (dispatch s id m a newid))) id' = dget (objs s) id') /\
  rcs (snd (dispatch s id m a newid)) = rcs s.
Proof.
  intros Hg He Ha Hm. unfold dispatch, apply_ref. rewrite Hg, He, Ha. cbn [andb].
  destruct (apply_local o t m a) as [v o'|e|]; cbn [fst snd reply_of_local obj_of_local];
    rewrite ?Hm; cbn [fst snd].
  - unfold set_obj, set_objs. cbn [objs rcs]. repeat split.
    + apply dget_dset_same.
    + intros id' Hne. apply dget_dset_other. exact Hne.
  - repeat split; auto.
  - unfold set_obj, set_objs. cbn [objs rcs]. repeat split.
    + apply dget_dset_same.
    + intros id' Hne. apply dget_dset_other. exact Hne.
Qed.

(* a proxy-returning method: executed likewise, the result is registered as a new holder *)
Theorem dispatch_executes_proxy s id m a newid o t t2 :
  inv s -> newid <> 0 ->
  dget (objs s) id = Some (SlotE o t) ->
  exposed_of t m = true -> has_attr t m = true -> m2t_of t m = Some t2 ->
  match apply_local o t m a with
  | LExn e => dispatch s id m a newid = (R_error e, s)
  | LRet (VList l) o' =>
    exists s', dispatch s id m a newid = (R_proxy newid t2, s') /\
               dget (objs s') newid = Some (SlotE (OList l) t2) /\ refcount_upd s s' newid 1
  | LRet VSelf o' =>
    exists s', dispatch s id m a newid = (R_proxy id t2, s') /\
               dget (objs s') id = Some (SlotE o' t2) /\ refcount_upd s s' id 1
  | _ => True
  end.
Proof.
  intros I Hn Hg He Ha Hm. unfold dispatch, apply_ref. rewrite Hg, He, Ha. cbn [andb].
  destruct (apply_local o t m a) as [v o'|e|]; [|reflexivity|exact Logic.I].
  rewrite Hm. destruct (set_obj_spec s id o t o' I Hg) as (I1 & Hrc1 & Hg1 & Hfr1).
  assert (Hid : id <> 0) by (intros ->; rewrite (inv_zero s I) in Hg; discriminate).
  destruct v; try exact Logic.I; unfold proxy_create.
  - destruct (create_tail_spec (set_obj s id o' t) newid (OList l) t2 I1 Hn) as (s2 & E2 & I2 & U2 & G2 & F2).
    rewrite E2. exists s2. repeat split; auto.
  - destruct (create_tail_spec (set_obj s id o' t) id o' t2 I1 Hid) as (s2 & E2 & I2 & U2 & G2 & F2).
    rewrite E2. exists s2. repeat split; auto.
Qed.

(* ... and in every other case nothing is executed: the server state is unchanged and the
   reply is a traceback, or the str/repr/copy of the referent for the three fallback names *)
Theorem dispatch_refuses s id m a newid :
  (dget (objs s) id = None -> dispatch s id m a newid = (R_traceback E_Key, s)) /\
  (dget (objs s) id = Some Slot0 -> dispatch s id m a newid = (R_traceback E_Value, s)) /\
  (forall o t, dget (objs s) id = Some (SlotE o t) ->
               exposed_of t m && has_attr t m = false ->
               dispatch s id m a newid = (fallback o m a, s) /\
               (is_fallback m = false -> fallback o m a = R_traceback E_Key)).
Proof.
  unfold dispatch. repeat split.
  - intros ->. reflexivity.
  - intros ->. reflexivity.
  - rewrite H, H0. reflexivity.
  - intros Hf. unfold fallback. rewrite Hf. reflexivity.
Qed.

(* a call through a LIVE PROXY always finds its referent, and an exposed method behaves as on
   the local object (C20 "proxies behave like the local object", per operation) *)
Theorem proxy_call_refines_local y k p m a newid :
  sysinv y -> nth_error (y_proxies y) k = Some p ->
  exists o t,
    dget (objs (y_srv y)) (p_id p) = Some (SlotE o t) /\
    (exposed_of t m = true -> has_attr t m = true -> m2t_of t m = None ->
     let r := apply_local o t m a in
     let d := dispatch (y_srv y) (p_id p) m a newid in
     fst d = reply_of_local r /\
     dget (objs (snd d)) (p_id p) = Some (SlotE (obj_of_local o r) t) /\
     (forall id', id' <> p_id p -> dget (objs (snd d)) id' = dget (objs (y_srv y)) id') /\
     rcs (snd d) = rcs (y_srv y)).
Proof.
  intros Hy En. destruct (proxy_live y k p Hy En) as (_ & o & t & Hg).
  exists o, t. split; [exact Hg|]. intros He Ha Hm.
  exact (dispatch_executes (y_srv y) (p_id p) m a newid o t Hg He Ha Hm).
Qed.

(* the same, for every method the proxy class offers *)
Theorem proxy_call_refines_local_offered y k p m a newid :
  sysinv y -> nth_error (y_proxies y) k = Some p ->
  exists o t,
    dget (objs (y_srv y)) (p_id p) = Some (SlotE o t) /\
    (offered t m = true -> has_attr t m = true -> m2t_of t m = None ->
     let r := apply_local o t m a in
     let d := dispatch (y_srv y) (p_id p) m a newid in
     fst d = reply_of_local r /\
     dget (objs (snd d)) (p_id p) = Some (SlotE (obj_of_local o r) t) /\
     (forall id', id' <> p_id p -> dget (objs (snd d)) id' = dget (objs (y_srv y)) id') /\
     rcs (snd d) = rcs (y_srv y)).
Proof.
  intros Hy En. destruct (proxy_live y k p Hy En) as (_ & o & t & Hg).
  exists o, t. split; [exact Hg|]. intros He Ha Hm.
  assert (He' : exposed_of t m = true).
  { destruct t; destruct m; try exact He; try discriminate He; reflexivity. }
  exact (dispatch_executes (y_srv y) (p_id p) m a newid o t Hg He' Ha Hm).
Qed.


(* ========================================= any clients whatsoever: server-side robustness *)
Definition creq_ok (r : creq) : Prop :=
  match r with CReq _ _ _ newid _ => newid <> 0 | CMalformed _ => True end.
Definition conn_ok (c : conn) : Prop :=
  match c_req c with
  | Q_create _ _ newid => newid <> 0
  | Q_accept calls => Forall creq_ok calls
  | _ => True
  end.

Lemma serve_inv : forall l s, Forall creq_ok l -> inv s ->
                              let '(s', _, _, _) := serve s l in inv s'.
Proof.
  induction l as [|r rest IH]; intros s Hok I; cbn [serve]; [exact I|].
  inversion Hok as [|? ? H1 H2]; subst.
  destruct r as [id m a newid sf|sf].
  - pose proof (dispatch_spec s id m a newid I H1) as (I1 & _).
    destruct (dispatch s id m a newid) as [msg s1]. cbn [snd] in I1.
    destruct (deliver_msg msg sf) as [outs dead]. destruct dead; [exact I1|].
    specialize (IH s1 H2 I1). destruct (serve s1 rest) as [[[s2 o2] code] cl]. exact IH.
  - destruct (deliver_msg (R_traceback E_Type) sf) as [outs dead]. destruct dead; [exact I|].
    specialize (IH s H2 I). destruct (serve s rest) as [[[s2 o2] code] cl]. exact IH.
Qed.

Lemma handle_request_inv s c : conn_ok c -> inv s -> inv (fst (handle_request s c)).
Proof.
  intros Hok I. unfold handle_request, conn_ok in *.
  destruct (c_deliver c); [exact I|]. destruct (c_answer c); [exact I|].
  destruct (c_req c) as [t a newid|id|id| | |calls| | | ]; cbn [call_public fst]; try exact I.
  - pose proof (create_spec s t a newid I Hok) as C.
    destruct (create s t a newid) as [v s'|e s']; cbn [fst]; [|subst; exact I].
    destruct v; try (subst; exact I). destruct C as (_ & I' & _). exact I'.
  - pose proof (incref_spec s id I) as C. destruct (incref s id) as [u s'|e s']; cbn [fst].
    + destruct C as (I' & _). exact I'.
    + destruct C as (_ & -> & _). exact I.
  - pose proof (decref_spec s id I) as C. destruct (decref s id) as [u s'|e s']; cbn [fst].
    + destruct C as (I' & _). exact I'.
    + destruct C as (_ & -> & _). exact I.
  - destruct (c_hsf c); [|exact I].
    pose proof (serve_inv calls s Hok I) as H. destruct (serve s calls) as [[[s' outs] code] cl].
    exact H.
Qed.

Fixpoint run_conns (s : st) (l : list conn) : st :=
  match l with [] => s | c :: r => run_conns (fst (handle_request s c)) r end.

(* whatever the clients send, in whatever order, on however many connections: every count in
   the table is >= 1, objects and counts have the same idents, ident '0' is never touched *)
Theorem server_tables_consistent : forall l, Forall conn_ok l -> inv (run_conns init_st l).
Proof.
  assert (G : forall l s, Forall conn_ok l -> inv s -> inv (run_conns s l)).
  { induction l as [|c r IH]; intros s Hok I; cbn [run_conns]; [exact I|].
    inversion Hok; subst. apply IH; [assumption|]. apply handle_request_inv; assumption. }
  intros l Hok. exact (G l init_st Hok inv_init).
Qed.

(* decref / incref of an ident that is not in the table: refused, nothing changes *)
Theorem unknown_ident_refused s id :
  dget (rcs s) id = None ->
  decref s id = Exc E_Key s /\ incref s id = Exc E_Key s.
Proof. intros H. unfold decref, incref. rewrite H. auto. Qed.

(* ================================================================ the handshake first *)
Definition only_tracebacks (l : list reply) : Prop :=
  forall r, In r l -> exists e, r = R_traceback e.

Theorem auth_first s c :
  c_deliver c <> None \/ c_answer c <> None ->
  fst (handle_request s c) = s /\
  h_read (snd (handle_request s c)) = false /\
  h_exit (snd (handle_request s c)) = None /\
  only_tracebacks (h_out (snd (handle_request s c))).
Proof.
  intros H. unfold handle_request.
  assert (F : forall e, only_tracebacks (h_out (hr_finish false (R_traceback e) (c_hsf c)))
                        /\ h_read (hr_finish false (R_traceback e) (c_hsf c)) = false
                        /\ h_exit (hr_finish false (R_traceback e) (c_hsf c)) = None).
  { intros e. destruct (c_hsf c) as [|[|n]]; cbn; repeat split; intros r Hr;
      try (destruct Hr as [<-|[]]; eauto); destruct Hr. }
  destruct (c_deliver c) as [e|].
  - cbn [fst snd]. destruct (F e) as (A & B & C). auto.
  - destruct (c_answer c) as [e|].
    + cbn [fst snd]. destruct (F e) as (A & B & C). auto.
    + destruct H as [H|H]; congruence.
Qed.

(* serve_client's requests are only ever read after both halves succeeded *)
Theorem serve_needs_handshake s c :
  h_read (snd (handle_request s c)) = true -> c_deliver c = None /\ c_answer c = None.
Proof.
  intros H. destruct (c_deliver c) eqn:E1; [|destruct (c_answer c) eqn:E2; [|auto]].
  - assert (X : c_deliver c <> None) by (rewrite E1; discriminate).
    pose proof (auth_first s c (or_introl X)) as (_ & R & _). rewrite R in H. discriminate.
  - assert (X : c_answer c <> None) by (rewrite E2; discriminate).
    pose proof (auth_first s c (or_intror X)) as (_ & R & _). rewrite R in H. discriminate.
Qed.

(* ================================= transport to the skeletons generated from the source *)
Theorem generated_skeletons_compute_model : forall s c,
    run_trees G_manager.serve_body G_manager.hr_body s c = handle_request s c.
Proof. intros s c. rewrite gen_serve_body_eq, gen_hr_body_eq. apply trees_compute_handle_request. Qed.

Theorem generated_auth_first s c :
  c_deliver c <> None \/ c_answer c <> None ->
  let r := run_trees G_manager.serve_body G_manager.hr_body s c in
  fst r = s /\ h_read (snd r) = false /\ h_exit (snd r) = None /\ only_tracebacks (h_out (snd r)).
Proof. intros H. cbv zeta. rewrite generated_skeletons_compute_model. exact (auth_first s c H). Qed.

(* ============================================================= registry, as generated *)
Definition smem (x : string) (l : list string) : bool := existsb (String.eqb x) l.

(* the `exposed` sets the real Server.create computed on this run, restricted to the modelled
   method names, are the model's; so are the fallback names *)
Theorem exposed_tie : forall m,
    exposed_of TList m = smem (mname m) G_manager.exposed_list /\
    exposed_of TDict m = smem (mname m) G_manager.exposed_dict /\
    exposed_of TValue m = smem (mname m) G_manager.exposed_value /\
    exposed_of TIter m = smem (mname m) G_manager.exposed_iter /\
    exposed_of TAutoList m = smem (mname m) G_manager.exposed_autolist /\
    is_fallback m = smem (mname m) G_manager.fallback_names.
Proof. destruct m; vm_compute; auto 7. Qed.

(* the class AutoProxy() builds for a typeid registered without a proxy type offers exactly
   the names Server.create exposed for it (MakeProxyType as run on the working tree) *)
Theorem autoproxy_offered_tie :
  G_manager.proxy_methods_autolist = G_manager.exposed_autolist /\
  forall m, offered TAutoList m = smem (mname m) G_manager.proxy_methods_autolist.
Proof. split; [reflexivity|]. destruct m; reflexivity. Qed.

(* every method a proxy class offers is exposed by the server (true since the repair of
   IteratorProxy._exposed_; with the old typo exposed_iter was empty and this failed) *)
Lemma offered_is_exposed t m : offered t m = exposed_of t m.
Proof. destruct t; destruct m; reflexivity. Qed.

Theorem iterator_offered_tie :
  smem "__next__" G_manager.proxy_methods_iter = true /\
  smem "__next__" G_manager.exposed_iter = true /\
  forall m, offered TIter m = smem (mname m) G_manager.exposed_iter.
Proof. split; [reflexivity|split; [reflexivity|]]. destruct m; reflexivity. Qed.

(* next() through an iterator proxy = next() on the local iterator: the next element and the
   iterator advanced, or StopIteration and nothing changed *)
Theorem iterator_next_like_local s id l newid :
  dget (objs s) id = Some (SlotE (OIter l) TIter) ->
  dispatch s id M_next [] newid =
  match l with
  | [] => (R_error E_StopIteration, s)
  | x :: r => (R_return (VInt x), set_obj s id (OIter r) TIter)
  end.
Proof.
  intros Hg. unfold dispatch. rewrite Hg. cbn [exposed_of has_attr andb m2t_of].
  unfold apply_ref. cbn [apply_local iter_apply]. destruct l; reflexivity.
Qed.

(* the old witness of the refuted statement, now behaving as stated *)
Definition iter_witness : list cev := [K_create TIter [AL [4; 5]] 1; K_proxy 7 1 true; K_release 0].

Theorem iterator_witness_now_holds :
  Forall ev_ok iter_witness /\
  let y := fst (crun init_sys iter_witness) in
  y_proxies y = [mk_proxy 7 1 true] /\
  dget (objs (y_srv y)) 1 = Some (SlotE (OIter [4; 5]) TIter) /\
  fst (dispatch (y_srv y) 1 M_next [] 9) = R_return (VInt 4) /\
  dget (objs (snd (dispatch (y_srv y) 1 M_next [] 9))) 1 = Some (SlotE (OIter [5]) TIter).
Proof.
  split.
  - repeat constructor; discriminate.
  - vm_compute. repeat split; reflexivity.
Qed.

(* =============================================== user-level operations on real proxies *)
Definition hop_ok (h : hop) : Prop :=
  match h with
  | H_create _ _ _ newid => newid <> 0
  | H_call _ _ _ newid => newid <> 0
  | _ => True
  end.

Lemma hstep_inv y h : hop_ok h -> sysinv y -> sysinv (fst (hstep y h)).
Proof.
  intros Hok Hy. destruct h as [pid t a newid|k pid|k pid|pid id|k|k|k m a newid]; cbn [hstep hop_ok] in *.
  - pose proof (cstep_inv y (K_create t a newid) Hok Hy) as H1.
    destruct (cstep y (K_create t a newid)) as [y1 o1]. cbn [fst] in H1.
    destruct o1 as [[v| | | |]| | | |]; try exact H1. destruct v; try exact H1.
    pose proof (cstep_inv y1 (K_proxy pid id true) Logic.I H1) as H2.
    destruct (cstep y1 (K_proxy pid id true)) as [y2 o2]. cbn [fst] in H2.
    pose proof (cstep_inv y2 (K_release (last_pending y2)) Logic.I H2) as H3.
    destruct (cstep y2 (K_release (last_pending y2))) as [y3 o3]. exact H3.
  - destruct (nth_error (y_proxies y) k) as [p|]; [|exact Hy].
    exact (cstep_inv y (K_proxy pid (p_id p) false) Logic.I Hy).
  - destruct (nth_error (y_proxies y) k) as [p|]; [|exact Hy].
    exact (cstep_inv y (K_proxy pid (p_id p) false) Logic.I Hy).
  - exact (cstep_inv y (K_proxy pid id false) Logic.I Hy).
  - exact (cstep_inv y (K_drop k) Logic.I Hy).
  - (* the holder vanishes: its reference moves from the live proxies to the orphans *)
    destruct (nth_error (y_proxies y) k) as [p|] eqn:En; [|exact Hy].
    destruct Hy as [I H]. split; [exact I|]. intros id'. cbn [fst y_srv].
    rewrite (H id'), !holders_unfold. cbn [y_proxies y_pending y_orphans].
    assert (En' : nth_error (map p_id (y_proxies y)) k = Some (p_id p))
      by (rewrite nth_error_map, En; reflexivity).
    rewrite map_remove_nth, (count_remove_nth id' k _ (p_id p) En'), count_z_app.
    cbn [count_z]. destruct (p_id p =? id'); lia.
  - pose proof (cstep_inv y (K_call k m a newid 0) Hok Hy) as H1.
    destruct (cstep y (K_call k m a newid 0)) as [y1 o1]. cbn [fst] in H1.
    destruct o1 as [[v|e|rid t2|e|]| | | |]; try exact H1.
    destruct (nth_error (y_proxies y) k) as [p|]; [|exact H1].
    destruct (p_mgr p); [|exact H1].
    pose proof (cstep_inv y1 (K_proxy (p_pid p) rid true) Logic.I H1) as H2.
    destruct (cstep y1 (K_proxy (p_pid p) rid true)) as [y2 o2]. cbn [fst] in H2.
    pose proof (cstep_inv y2 (K_release (last_pending y2)) Logic.I H2) as H3.
    destruct (cstep y2 (K_release (last_pending y2))) as [y3 o3]. exact H3.
Qed.

Theorem hrun_inv : forall l y, Forall hop_ok l -> sysinv y -> sysinv (fst (hrun y l)).
Proof.
  induction l as [|h r IH]; intros y Hok Hy; cbn [hrun]; [exact Hy|].
  inversion Hok as [|? ? H1 H2]; subst.
  pose proof (hstep_inv y h H1 Hy) as Hs. destruct (hstep y h) as [y1 o]. cbn [fst] in Hs.
  specialize (IH y1 H2 Hs). destruct (hrun y1 r) as [y2 os]. exact IH.
Qed.

(* C20 "disposed of once the last proxy is released" is FALSE: a proxy-returning method called
   through a proxy that was passed to another process (no _manager there) raises AttributeError
   in the caller after the server has created and counted the result; nobody ever releases it *)
Definition leak_witness : list hop :=
  [H_create 10 TShelf [AL [7]] 1; H_copy 0 11; H_call 1 M_clone [] 2; H_drop 1; H_drop 0].

Theorem child_proxy_result_leaks_refuted :
  Forall hop_ok leak_witness /\
  let (y, obs) := hrun init_sys leak_witness in
  obs = [CO_ok; CO_ok; CO_fail E_Attribute; CO_ok; CO_ok] /\
  y_proxies y = [] /\ y_pending y = [2] /\
  dget (objs (y_srv y)) 2 = Some (SlotE (OList [7]) TList) /\ refcount (y_srv y) 2 = 1 /\
  dmem (objs (y_srv y)) 1 = false.
Proof. split; [repeat constructor; discriminate|vm_compute; repeat split; reflexivity]. Qed.

(* a proxy inherited through a Process object takes its own reference in the child (the hook
   registered by BaseProxy.__init__), so the referent survives the parent's release *)
Theorem inherit_takes_reference y k p pid :
  sysinv y -> nth_error (y_proxies y) k = Some p ->
  let y' := fst (hstep y (H_inherit k pid)) in
  snd (hstep y (H_inherit k pid)) = CO_ok /\
  y_proxies y' = y_proxies y ++ [mk_proxy pid (p_id p) false] /\
  refcount (y_srv y') (p_id p) = refcount (y_srv y) (p_id p) + 1 /\
  holders y' (p_id p) = holders y (p_id p) + 1 /\
  dget (objs (y_srv y')) (p_id p) = dget (objs (y_srv y)) (p_id p).
Proof.
  intros Hy En. pose proof Hy as [I H].
  pose proof (hstep_inv y (H_inherit k pid) Logic.I Hy) as [I' H'].
  cbn [hstep] in *. rewrite En in *. cbn [cstep] in *.
  destruct (proxy_live y k p Hy En) as (Hid & o & t & Hg).
  pose proof (incref_spec (y_srv y) (p_id p) I) as C.
  destruct (incref (y_srv y) (p_id p)) as [u s'|e s']; cbn [fst snd y_srv y_proxies] in *.
  - destruct C as (_ & Ho & U & _). repeat split.
    + rewrite (U (p_id p)), Z.eqb_refl. reflexivity.
    + rewrite <- (H' (p_id p)), <- (H (p_id p)), (U (p_id p)), Z.eqb_refl. reflexivity.
    + rewrite Ho. reflexivity.
  - exfalso. destruct C as (_ & _ & Hnone).
    pose proof (inv_same _ I _ Hid) as Hs. unfold dmem in Hs. rewrite Hg, Hnone in Hs. discriminate.
Qed.

(* structural facts of Server.incref / decref / create as found in the source on this run: every
   access to id_to_obj / id_to_refcount in them (and create's call of incref) is inside a
   `with self.mutex:` block, the mutex is a threading.RLock created once in __init__, and these
   are the only methods of Server that store into the tables.  (The shallow translation of the
   three functions flattens the `with`; this is what keeps the lock visible to the check.) *)
Lemma gen_mutex_discipline :
  G_manager.incref_under_mutex = true /\ G_manager.decref_under_mutex = true /\
  G_manager.create_under_mutex = true /\ G_manager.mutex_is_rlock = true /\
  G_manager.table_writers = ["__init__"; "create"; "decref"; "incref"]%string.
Proof. repeat split; reflexivity. Qed.

(* structural fact of BaseProxy.__init__ as found in the source on this run: the after-fork hook
   is registered unconditionally (not under `if incref:`), after the guarded _incref() *)
Lemma gen_after_fork_hook :
  G_manager.after_fork_hook_unconditional = true /\ G_manager.incref_guarded_then_hook = true.
Proof. split; reflexivity. Qed.
