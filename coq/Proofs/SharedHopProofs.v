(* C15: a shared ctypes object handed on from process to process any number of times is always the
   same cells.  Invariant of Model/SharedHop.v: every handle is backed by shared storage and its
   holder has the reducer registered for its type (rebuild_ctype registers it in every process it
   runs in); handles with the same root (the allocation they descend from) have the same store. *)
From Coq Require Import ZArith List Bool Lia.
From BV Require Import Lib.PyVal Lib.Cases Model.Heap Model.SharedMem Model.SharedHop Proofs.SharedMemProofs.
Import ListNotations.
Open Scope Z_scope.

(* ---- lists ---- *)
Lemma hset_nth_length {A} (l : list A) i x : length (set_nth l i x) = length l.
Proof. revert i; induction l as [|y r IH]; intros [|i]; cbn [set_nth length]; auto. Qed.

Lemma hnth_set_same {A} (l : list A) i x y : nth_error l i = Some y -> nth_error (set_nth l i x) i = Some x.
Proof.
  revert i; induction l as [|z r IH]; intros [|i] H; cbn [nth_error set_nth] in *; try discriminate.
  - reflexivity.
  - apply IH; assumption.
Qed.

Lemma hnth_set_other {A} (l : list A) i j x : i <> j -> nth_error (set_nth l i x) j = nth_error l j.
Proof.
  revert i j; induction l as [|z r IH]; intros [|i] [|j] H; cbn [nth_error set_nth]; try reflexivity.
  - congruence.
  - apply IH; congruence.
Qed.

Lemma nth_error_lt {A} (l : list A) i y : nth_error l i = Some y -> (i < length l)%nat.
Proof. intros H. apply nth_error_Some. congruence. Qed.

Lemma nth_error_snoc {A} (l : list A) x j y : nth_error (l ++ [x]) j = Some y ->
  ((j < length l)%nat /\ nth_error l j = Some y) \/ (j = length l /\ y = x).
Proof.
  intros H. destruct (Nat.lt_ge_cases j (length l)) as [L|G].
  - left. split; [assumption|]. rewrite nth_error_app1 in H by assumption. assumption.
  - right. rewrite nth_error_app2 in H by assumption.
    destruct (j - length l)%nat as [|d] eqn:E; cbn [nth_error] in H.
    + inversion H. split; [lia|reflexivity].
    + destruct d; discriminate.
Qed.

Lemma nth_snoc_lt (l : list nat) x j : (j < length l)%nat -> nth j (l ++ [x]) O = nth j l O.
Proof. intros H. apply app_nth1; assumption. Qed.

Lemma nth_snoc_eq (l : list nat) x : nth (length l) (l ++ [x]) O = x.
Proof. apply nth_middle. Qed.

(* ---- types and registries ---- *)
Lemma cty_eqb_refl t : cty_eqb t t = true.
Proof. destruct t as [b [n|]]; unfold cty_eqb, opt_eqb; cbn [fst snd]; rewrite ?Z.eqb_refl; reflexivity. Qed.

Lemma cty_mem_snoc t l : cty_mem t (l ++ [t]) = true.
Proof. unfold cty_mem. rewrite existsb_app. cbn [existsb]. rewrite cty_eqb_refl. rewrite orb_true_l. apply orb_true_r. Qed.

Lemma cty_mem_app_l t l l' : cty_mem t l = true -> cty_mem t (l ++ l') = true.
Proof. unfold cty_mem. intros H. rewrite existsb_app, H. reflexivity. Qed.

(* the programs of the code: _new_value(t) registers t (through rebuild_ctype) and returns an object
   of type t; rebuild_ctype applied to what reduce_ctype sends for an object of type t registers t in
   the process it runs in and returns an object of type t *)
Lemma new_value_runs t : run_new_value new_value_prog rebuild_prog t = mk_nv true [t] (Some t).
Proof. reflexivity. Qed.

Lemma rebuild_runs t :
  run_rebuild rebuild_prog (fst (reduce_args t)) (snd (reduce_args t)) = mk_rb t [t] (Some t).
Proof. destruct t as [b [n|]]; reflexivity. Qed.

(* ---- the invariant ---- *)
Definition handle_ok (ps : list proc) (h : handle) : Prop :=
  (exists owner ob, h_store h = HShared owner ob /\ (owner < length ps)%nat) /\
  exists pr, nth_error ps (h_proc h) = Some pr /\ cty_mem (h_type h) (p_reg pr) = true.

Definition procs_le (ps ps' : list proc) : Prop :=
  (length ps <= length ps')%nat /\
  forall p pr, nth_error ps p = Some pr ->
    exists pr', nth_error ps' p = Some pr' /\ forall t, cty_mem t (p_reg pr) = true -> cty_mem t (p_reg pr') = true.

Lemma handle_ok_mono ps ps' h : procs_le ps ps' -> handle_ok ps h -> handle_ok ps' h.
Proof.
  intros [Hl Hp] [[owner [ob [Es Ho]]] [pr [Ep Em]]]. split.
  - exists owner, ob. split; [assumption|lia].
  - destruct (Hp _ _ Ep) as [pr' [Ep' Hm]]. exists pr'. split; [assumption|apply Hm; assumption].
Qed.

Lemma procs_le_snoc ps x : procs_le ps (ps ++ [x]).
Proof.
  split; [rewrite app_length; lia|]. intros p pr H. exists pr. split; [|auto].
  rewrite nth_error_app1 by (eapply nth_error_lt; eassumption). assumption.
Qed.

Lemma procs_le_set ps p pr pr' : nth_error ps p = Some pr ->
  (forall t, cty_mem t (p_reg pr) = true -> cty_mem t (p_reg pr') = true) ->
  procs_le ps (set_nth ps p pr').
Proof.
  intros E Hm. split; [rewrite hset_nth_length; lia|]. intros p0 pr0 H0.
  destruct (Nat.eq_dec p p0) as [<-|N].
  - exists pr'. split; [eapply hnth_set_same; eassumption|]. rewrite E in H0. inversion H0; subst pr0. assumption.
  - exists pr0. split; [|auto]. rewrite hnth_set_other by assumption. assumption.
Qed.

Definition same_cells (a b : handle) : Prop := h_store a = h_store b /\ h_type a = h_type b.

Record Inv (rt : list nat) (s : hsys) : Prop := mk_Inv {
  inv_ok : Forall (handle_ok (hs_procs s)) (hs_handles s);
  inv_len : length rt = length (hs_handles s);
  inv_lt : forall j, (j < length rt)%nat -> (nth j rt O < length rt)%nat;
  inv_same : forall j k hj hk, nth_error (hs_handles s) j = Some hj -> nth_error (hs_handles s) k = Some hk ->
             nth j rt O = nth k rt O -> same_cells hj hk }.

Lemma same_snoc (hs : list handle) (rt : list nat) hnew rnew :
  length rt = length hs ->
  (forall j k hj hk, nth_error hs j = Some hj -> nth_error hs k = Some hk -> nth j rt O = nth k rt O -> same_cells hj hk) ->
  (forall j hj, nth_error hs j = Some hj -> nth j rt O = rnew -> same_cells hj hnew) ->
  forall j k hj hk, nth_error (hs ++ [hnew]) j = Some hj -> nth_error (hs ++ [hnew]) k = Some hk ->
    nth j (rt ++ [rnew]) O = nth k (rt ++ [rnew]) O -> same_cells hj hk.
Proof.
  intros Hlen Hold Hnew j k hj hk Ej Ek E.
  apply nth_error_snoc in Ej. apply nth_error_snoc in Ek.
  destruct Ej as [[Lj Ej]|[-> ->]]; destruct Ek as [[Lk Ek]|[-> ->]].
  - rewrite !nth_snoc_lt in E by lia. eapply Hold; eassumption.
  - rewrite nth_snoc_lt in E by lia. rewrite <- Hlen, nth_snoc_eq in E. eapply Hnew; eassumption.
  - rewrite (nth_snoc_lt rt rnew k) in E by lia. rewrite <- Hlen, nth_snoc_eq in E.
    destruct (Hnew k hk Ek (eq_sym E)) as [A B]. split; congruence.
  - split; reflexivity.
Qed.

Lemma lt_snoc (rt : list nat) r : (forall j, (j < length rt)%nat -> (nth j rt O < length rt)%nat) ->
  (r < S (length rt))%nat ->
  forall j, (j < length (rt ++ [r]))%nat -> (nth j (rt ++ [r]) O < length (rt ++ [r]))%nat.
Proof.
  intros H Hr j Hj. rewrite app_length in *. cbn [length] in *.
  destruct (Nat.eq_dec j (length rt)) as [->|N].
  - rewrite nth_snoc_eq. lia.
  - rewrite nth_snoc_lt by lia. specialize (H j ltac:(lia)). lia.
Qed.

Section Hops.
Variables pg hsize : Z.
Notation step := (hstep pg hsize new_value_prog rebuild_prog).
Notation run := (hrun pg hsize new_value_prog rebuild_prog).

Lemma inv_init : Inv [] (hsys_init hsize).
Proof.
  constructor; cbn [hsys_init hs_handles hs_procs length].
  - constructor.
  - reflexivity.
  - intros j H; lia.
  - intros j k hj hk H; destruct j; discriminate.
Qed.

(* a hand-over from a state satisfying the invariant: never by value, never raises *)
Lemma send_shape rt s k q h prq : Inv rt s ->
  nth_error (hs_handles s) k = Some h -> nth_error (hs_procs s) q = Some prq ->
  step s (HSend k q) =
    OK (mk_hsys (set_nth (hs_procs s) q (add_regs prq [h_type h]))
                (hs_handles s ++ [mk_handle q (h_type h) (h_store h)])).
Proof.
  intros I Eh Eq. cbn [hstep]. rewrite Eh, Eq.
  pose proof (inv_ok _ _ I) as Hok. rewrite Forall_forall in Hok.
  destruct (Hok h (nth_error_In _ _ Eh)) as [[owner [ob [Es Ho]]] [pr [Ep Em]]].
  rewrite Ep, Es, Em.
  pose proof (rebuild_runs (h_type h)) as R. unfold reduce_args in *. cbn [fst snd] in R. rewrite R.
  cbn [rb_obj rb_regs]. rewrite rebuild_same. reflexivity.
Qed.

Lemma step_inv rt s o s' : Inv rt s -> step s o = OK s' ->
  Inv (roots_from rt [o]) s' /\ exists ext, hs_handles s' = hs_handles s ++ ext.
Proof.
  intros I H. pose proof (inv_ok _ _ I) as Hok. pose proof (inv_len _ _ I) as Hlen.
  destruct o as [|p kind t size init|k q|k off bs]; cbn [roots_from].
  - (* HSpawn *)
    cbn [hstep] in H. inversion H; subst s'. cbn [hs_handles hs_procs]. split; [|exists []; rewrite app_nil_r; reflexivity].
    constructor; cbn [hs_handles hs_procs]; try (destruct I; assumption).
    eapply Forall_impl; [|exact Hok]. intros h. apply handle_ok_mono, procs_le_snoc.
  - (* HNew *)
    cbn [hstep] in H. destruct (nth_error (hs_procs s) p) as [pr|] eqn:Ep; [|discriminate].
    rewrite new_value_runs in H. cbn [nv_obj nv_regs] in H.
    destruct (create (prog_of_kind kind) pg size init (p_sm pr)) as [[sm' ob]|e] eqn:Ec; cbn [bind] in H; [|discriminate].
    inversion H; subst s'. cbn [hs_handles hs_procs]. split; [|eexists; reflexivity].
    assert (LE : procs_le (hs_procs s) (set_nth (hs_procs s) p (mk_proc sm' (p_reg pr ++ [t])))).
    { eapply procs_le_set; [eassumption|]. intros t0 H0. cbn [p_reg]. apply cty_mem_app_l; assumption. }
    constructor; cbn [hs_handles hs_procs].
    + apply Forall_app. split.
      * eapply Forall_impl; [|exact Hok]. intros h. apply handle_ok_mono; assumption.
      * constructor; [|constructor]. split; cbn [h_store h_proc h_type].
        -- exists p, ob. split; [reflexivity|]. rewrite hset_nth_length. eapply nth_error_lt; eassumption.
        -- eexists. split; [eapply hnth_set_same; eassumption|]. cbn [p_reg]. apply cty_mem_snoc.
    + rewrite !app_length, Hlen. reflexivity.
    + apply lt_snoc; [apply (inv_lt _ _ I)|lia].
    + apply same_snoc; [assumption|apply (inv_same _ _ I)|].
      intros j hj Ej E. exfalso. apply nth_error_lt in Ej. rewrite <- Hlen in Ej.
      pose proof (inv_lt _ _ I j Ej). lia.
  - (* HSend *)
    destruct (nth_error (hs_handles s) k) as [h|] eqn:Eh;
      [|cbn [hstep] in H; rewrite Eh in H; discriminate].
    destruct (nth_error (hs_procs s) q) as [prq|] eqn:Eq;
      [|cbn [hstep] in H; rewrite Eh, Eq in H; discriminate].
    rewrite (send_shape _ _ _ _ _ _ I Eh Eq) in H. inversion H; subst s'. cbn [hs_handles hs_procs].
    split; [|eexists; reflexivity].
    assert (LE : procs_le (hs_procs s) (set_nth (hs_procs s) q (add_regs prq [h_type h]))).
    { eapply procs_le_set; [eassumption|]. intros t0 H0. cbn [add_regs p_reg]. apply cty_mem_app_l; assumption. }
    rewrite Forall_forall in Hok.
    destruct (Hok h (nth_error_In _ _ Eh)) as [[owner [ob [Es Ho]]] _].
    constructor; cbn [hs_handles hs_procs].
    + apply Forall_app. split.
      * apply Forall_forall. intros h0 Hin. eapply handle_ok_mono; [exact LE|apply Hok; assumption].
      * constructor; [|constructor]. split; cbn [h_store h_proc h_type].
        -- exists owner, ob. split; [assumption|]. rewrite hset_nth_length. assumption.
        -- eexists. split; [eapply hnth_set_same; eassumption|]. cbn [add_regs p_reg]. apply cty_mem_snoc.
    + rewrite !app_length, Hlen. reflexivity.
    + apply lt_snoc; [apply (inv_lt _ _ I)|].
      apply nth_error_lt in Eh. rewrite <- Hlen in Eh. pose proof (inv_lt _ _ I k Eh). lia.
    + apply same_snoc; [assumption|apply (inv_same _ _ I)|].
      intros j hj Ej E. destruct (inv_same _ _ I j k hj h Ej Eh E) as [A B].
      split; cbn [h_store h_type]; assumption.
  - (* HWrite *)
    cbn [hstep] in H. destruct (nth_error (hs_handles s) k) as [h|] eqn:Eh; [|discriminate].
    rewrite Forall_forall in Hok.
    destruct (Hok h (nth_error_In _ _ Eh)) as [[owner [ob [Es Ho]]] _]. rewrite Es in H.
    destruct (nth_error (hs_procs s) owner) as [pro|] eqn:Eo; [|discriminate].
    destruct (o_write (sm_mem (p_sm pro)) ob off bs) as [m'|]; [|discriminate].
    inversion H; subst s'. cbn [hs_handles hs_procs]. split; [|exists []; rewrite app_nil_r; reflexivity].
    constructor; cbn [hs_handles hs_procs]; try (destruct I; assumption).
    apply Forall_forall. intros h0 Hin. eapply handle_ok_mono; [|apply Hok; assumption].
    eapply procs_le_set; [eassumption|]. intros t0 H0. cbn [p_reg]. assumption.
Qed.

Lemma roots_from_app rt o ops : roots_from rt (o :: ops) = roots_from (roots_from rt [o]) ops.
Proof. destruct o; reflexivity. Qed.

Lemma run_inv ops : forall rt s s', Inv rt s -> run s ops = OK s' ->
  Inv (roots_from rt ops) s' /\ exists ext, hs_handles s' = hs_handles s ++ ext.
Proof.
  induction ops as [|o r IH]; intros rt s s' I H.
  - cbn [hrun] in H. inversion H; subst s'. split; [assumption|exists []; rewrite app_nil_r; reflexivity].
  - cbn [hrun] in H. destruct (step s o) as [s1|e] eqn:E1; cbn [bind] in H; [|discriminate].
    destruct (step_inv _ _ _ _ I E1) as [I1 [e1 X1]].
    destruct (IH _ _ _ I1 H) as [I2 [e2 X2]]. rewrite roots_from_app. split; [assumption|].
    exists (e1 ++ e2). rewrite X2, X1, app_assoc. reflexivity.
Qed.

Theorem reachable_inv ops s : run (hsys_init hsize) ops = OK s -> Inv (roots ops) s.
Proof. intros H. exact (proj1 (run_inv ops _ _ _ inv_init H)). Qed.

(* 1. no handle is ever a private copy, whatever the history *)
Theorem hops_never_copy ops s h : run (hsys_init hsize) ops = OK s -> In h (hs_handles s) ->
  exists owner ob, h_store h = HShared owner ob.
Proof.
  intros H Hin. pose proof (inv_ok _ _ (reachable_inv _ _ H)) as Hok. rewrite Forall_forall in Hok.
  destruct (Hok h Hin) as [[owner [ob [Es _]]] _]. exists owner, ob. assumption.
Qed.

(* 2. every handle of a reachable state can be handed on, from whatever process holds it, to any
   process; the new handle lives in the receiver and has the same store and type *)
Theorem hops_can_hand_on ops s k q h : run (hsys_init hsize) ops = OK s ->
  nth_error (hs_handles s) k = Some h -> (q < length (hs_procs s))%nat ->
  exists s', step s (HSend k q) = OK s' /\
             hs_handles s' = hs_handles s ++ [mk_handle q (h_type h) (h_store h)].
Proof.
  intros H Eh Hq. destruct (nth_error (hs_procs s) q) as [prq|] eqn:Eq; [|apply nth_error_None in Eq; lia].
  eexists. split; [eapply send_shape; [eapply reachable_inv|..]; eassumption|reflexivity].
Qed.

(* 3. handles descending from the same allocation through any number of hand-overs address the
   same cells: they read the same bytes *)
Theorem hops_same_cells ops s j k hj hk : run (hsys_init hsize) ops = OK s ->
  nth_error (hs_handles s) j = Some hj -> nth_error (hs_handles s) k = Some hk ->
  nth j (roots ops) O = nth k (roots ops) O ->
  h_store hj = h_store hk /\ hread s hj = hread s hk.
Proof.
  intros H Ej Ek E. destruct (inv_same _ _ (reachable_inv _ _ H) j k hj hk Ej Ek E) as [A _].
  split; [assumption|]. unfold hread. rewrite A. reflexivity.
Qed.

(* 4. what is stored through any of them is read through every one of them *)
Theorem hops_store_visible ops s s' j k hj hk owner ob bs : run (hsys_init hsize) ops = OK s ->
  nth_error (hs_handles s) j = Some hj -> nth_error (hs_handles s) k = Some hk ->
  nth j (roots ops) O = nth k (roots ops) O ->
  h_store hk = HShared owner ob -> Z.of_nat (length bs) = o_size ob ->
  step s (HWrite k 0 bs) = OK s' ->
  nth_error (hs_handles s') j = Some hj /\ hread s' hj = bs /\ hread s' hk = bs.
Proof.
  intros H Ej Ek E Es Hl Hw.
  destruct (hops_same_cells _ _ _ _ _ _ H Ej Ek E) as [A _].
  cbn [hstep] in Hw. rewrite Ek, Es in Hw.
  destruct (nth_error (hs_procs s) owner) as [pro|] eqn:Eo; [|discriminate].
  destruct (o_write (sm_mem (p_sm pro)) ob 0 bs) as [m'|] eqn:Ew; [|discriminate].
  inversion Hw; subst s'. cbn [hs_handles]. split; [assumption|].
  assert (R : o_read (proc_mem (mk_hsys (set_nth (hs_procs s) owner (mk_proc (mk_sm (sm_heap (p_sm pro)) m') (p_reg pro)))
                                        (hs_handles s)) owner) ob = bs).
  { unfold proc_mem. cbn [hs_procs]. rewrite (hnth_set_same _ _ _ _ Eo). cbn [p_sm sm_mem].
    eapply write_visible; eassumption. }
  unfold hread. rewrite A, Es. split; exact R.
Qed.

(* 5. what "rebuild over the same memory in the child" means here: after ANY history, pickling handle k in
   its holder and rebuilding it in process q (hstep HSend: reduce_ctype / rebuild_ctype as translated from
   the code, registries as they are) yields a new handle, living in q, of the same type, over the SAME
   block of the SAME owner's arena -- not a copy -- and both read the same bytes *)
Theorem hops_rebuilt_same_storage ops s k q hk s' : run (hsys_init hsize) ops = OK s ->
  nth_error (hs_handles s) k = Some hk -> step s (HSend k q) = OK s' ->
  exists hn owner ob,
    hs_handles s' = hs_handles s ++ [hn] /\ h_proc hn = q /\ h_type hn = h_type hk /\
    h_store hk = HShared owner ob /\ h_store hn = HShared owner ob /\
    hread s' hn = hread s' hk.
Proof.
  intros H Eh Hs.
  destruct (nth_error (hs_procs s) q) as [prq|] eqn:Eq;
    [|cbn [hstep] in Hs; rewrite Eh, Eq in Hs; discriminate].
  pose proof (reachable_inv _ _ H) as I.
  rewrite (send_shape _ _ _ _ _ _ I Eh Eq) in Hs. inversion Hs; subst s'. clear Hs.
  destruct (hops_never_copy _ _ _ H (nth_error_In _ _ Eh)) as [owner [ob Es]].
  exists (mk_handle q (h_type hk) (h_store hk)), owner, ob. cbn [hs_handles h_proc h_type h_store].
  split; [reflexivity|]. split; [reflexivity|]. split; [reflexivity|]. split; [assumption|]. split; [assumption|].
  unfold hread. cbn [h_store]. reflexivity.
Qed.
End Hops.

(* ---- the registration in rebuild_ctype is what this rests on: if the reducer were registered only
   where a type is allocated (_new_value), a process that merely received an object could not hand it
   on: a simple value would be copied by value, an array would not pickle ---- *)
Definition new_value_prog_alloc_only : list neffect := [NAlloc; NRegister; NRebuild].
Definition rebuild_prog_no_register : list reffect := [RArrayType; RAttach].

Lemma second_hop_copies_without_registration_in_rebuild :
  match hrun 4096 4096 new_value_prog_alloc_only rebuild_prog_no_register (hsys_init 4096)
             [HNew 0 0 (5, None) 4 [7; 0; 0; 0]; HSpawn; HSpawn; HSend 0 1; HSend 1 2; HWrite 2 0 [9; 9; 9; 9]] with
  | OK s => map (hread s) (hs_handles s) = [[7; 0; 0; 0]; [7; 0; 0; 0]; [9; 9; 9; 9]]
  | Err _ => False
  end.
Proof. vm_compute. reflexivity. Qed.

Lemma second_hop_of_array_raises_without_registration_in_rebuild :
  hrun 4096 4096 new_value_prog_alloc_only rebuild_prog_no_register (hsys_init 4096)
       [HNew 0 2 (5, Some 2) 8 [1; 0; 0; 0; 2; 0; 0; 0]; HSpawn; HSpawn; HSend 0 1; HSend 1 2] = Err TypeError.
Proof. vm_compute. reflexivity. Qed.

(* the same histories on the programs of the code *)
Lemma three_hops_share :
  match hrun 4096 4096 new_value_prog rebuild_prog (hsys_init 4096)
             [HNew 0 0 (5, None) 4 [7; 0; 0; 0]; HSpawn; HSpawn; HSpawn; HSend 0 1; HSend 1 2; HSend 2 3;
              HWrite 3 0 [9; 9; 9; 9]; HSend 3 0] with
  | OK s => map (hread s) (hs_handles s) = repeat [9; 9; 9; 9] 5 /\ roots
             [HNew 0 0 (5, None) 4 [7; 0; 0; 0]; HSpawn; HSpawn; HSpawn; HSend 0 1; HSend 1 2; HSend 2 3;
              HWrite 3 0 [9; 9; 9; 9]; HSend 3 0] = [0; 0; 0; 0; 0]%nat
  | Err _ => False
  end.
Proof. vm_compute. split; reflexivity. Qed.
