(* C18, audit follow-up (item B): a fresh challenge per connection, and replay of a
   recorded session into a later one.

   One honest endpoint takes part in several sessions.  Its source of random bytes is an
   oracle STREAM  urandom : nat -> Z -> bytes  (session index -> requested length ->
   bytes): in session j the endpoint is  code_listener mac key (urandom j)  (resp.
   code_client mac key (urandomc j)) -- the endpoints assembled from the generated
   kernel, which draw their challenge as `urandom_j MESSAGE_LENGTH`, once.

   Session i: honest listener and honest client holding the same key; an attacker
   records everything both sent.  Session j: the attacker plays the CLIENT's recorded
   messages at the listener (resp. the LISTENER's recorded messages at a fresh client).
   Proved, with the complete outcome (bytes sent, how it ends):

     replay accepted  <->  mac key c_i = mac key c_j          (no hypothesis on mac)
     c_i = c_j  ->  replay ACCEPTED                            (freshness is necessary)
     replay accepted  <->  c_i = c_j                           (mac key injective on
                                                                these two challenges)
   where c_i = urandom i 20, c_j = urandom j 20.  Nothing is assumed about the digests
   being different: the dependency on `urandom i 20 <> urandom j 20` is the statement.

   More generally an attacker who can only RE-SEND recorded messages of session i (of
   either party, in any order, any number of them) is accepted by the listener in
   session j only if mac key c_j is among the recorded messages. *)
From Coq Require Import ZArith List Bool Lia ZifyBool.
From BV Require Import Lib.AuthBase Gen.K_auth Model.Auth Proofs.AuthProofs.
Import ListNotations.
Open Scope Z_scope.

Section Sessions.
  Variable mac : bytes -> bytes -> bytes.
  Variable urandom : nat -> Z -> bytes.     (* the listener's os.urandom, per session *)
  Variable urandomc : nat -> Z -> bytes.    (* the client's os.urandom, per session *)
  Variable k0 : Z.
  Variable k : bytes.
  Local Notation key := (k0 :: k).          (* the shared non-empty key *)

  (* Notations (not definitions: the statements below are literally about code_handshake /
     run1 / code_listener / code_client, which is the form quoted in Props/C18.v). *)
  (* session i between the honest listener and the honest client *)
  Local Notation session n i :=
    (code_handshake mac (13 + n) (KBytes key) (KBytes key) (urandom i) (urandomc i)).
  (* what the attacker recorded: everything the client sent, everything the listener sent *)
  Local Notation recorded_client n i := (snd (snd (session n i))).
  Local Notation recorded_listener n i := (snd (fst (session n i))).
  (* session j: the recorded client messages are played at the listener *)
  Local Notation replay_at_listener n i j :=
    (run1 (code_listener mac (KBytes key) (urandom j)) (recorded_client n i)).
  (* session j: the recorded listener messages are played at a fresh client *)
  Local Notation replay_at_client n i j :=
    (run1 (code_client mac (KBytes key) (urandomc j)) (recorded_listener n i)).
  (* os.urandom(20) returns 20 bytes; digests fit a message *)
  Local Notation session_ok i :=
    (blen (urandom i 20) = 20 /\ blen (urandomc i 20) = 20 /\
     blen (mac key (urandom i 20)) <= 256 /\ blen (mac key (urandomc i 20)) <= 256).

  Lemma session_outcome : forall n i,
      session_ok i ->
      session n i =
      ((Returned, [K_auth.CHALLENGE ++ urandom i 20; K_auth.WELCOME; mac key (urandomc i 20)]),
       (Returned, [mac key (urandom i 20); K_auth.CHALLENGE ++ urandomc i 20; K_auth.WELCOME])).
  Proof.
    intros n i (H1 & H2 & H3 & H4). rewrite code_handshake_eq.
    pose proof (handshake_outcome mac n k0 k key (urandom i) (urandomc i) H1 H2 H3 H4) as HO.
    cbv zeta in HO. rewrite HO. unfold expected. rewrite !bytes_eqb_refl. reflexivity.
  Qed.

  Lemma code_listener_role : forall u,
      code_listener mac (KBytes key) u =
      deliver_challenge mac key u (answer_challenge mac key Ret).
  Proof. reflexivity. Qed.

  Lemma code_client_role : forall u,
      code_client mac (KBytes key) u =
      answer_challenge mac key (deliver_challenge mac key u Ret).
  Proof. reflexivity. Qed.

  (* ---- complete outcome of the replay at the listener *)
  Theorem replay_at_listener_outcome : forall n i j,
      session_ok i ->
      replay_at_listener n i j =
      if bytes_eqb (mac key (urandom i 20)) (mac key (urandom j 20))
      then ([K_auth.CHALLENGE ++ urandom j 20; K_auth.WELCOME; mac key (urandomc i 20)], Returned)
      else ([K_auth.CHALLENGE ++ urandom j 20; K_auth.FAILURE], Raised AuthenticationError).
  Proof.
    intros n i j Hok.
    rewrite (session_outcome n i Hok). cbn [snd].
    destruct Hok as (H1 & H2 & H3 & H4).
    rewrite code_listener_role, run1_deliver. cbv zeta.
    replace (blen (mac key (urandom i 20)) <=? RECV_LIMIT) with true
      by (unfold RECV_LIMIT; lia).
    change (urandom j MESSAGE_LENGTH) with (urandom j 20).
    destruct (bytes_eqb (mac key (urandom i 20)) (mac key (urandom j 20))); [|reflexivity].
    rewrite run1_answer.
    change K_auth.CHALLENGE with CHALLENGE. change K_auth.WELCOME with WELCOME.
    assert (L : blen (CHALLENGE ++ urandomc i 20) <= RECV_LIMIT)
      by (rewrite blen_challenge, H2; unfold RECV_LIMIT; lia).
    replace (blen (CHALLENGE ++ urandomc i 20) <=? RECV_LIMIT) with true by lia.
    rewrite prefix_ok, suffix_ok. cbv zeta.
    replace (blen WELCOME <=? RECV_LIMIT) with true by reflexivity.
    rewrite bytes_eqb_refl. reflexivity.
  Qed.

  (* ---- (i) refused unless the two digests coincide *)
  Theorem replay_at_listener_accepted_iff_digests : forall n i j,
      session_ok i ->
      (snd (replay_at_listener n i j) = Returned <->
       mac key (urandom i 20) = mac key (urandom j 20)) /\
      (mac key (urandom i 20) <> mac key (urandom j 20) ->
       replay_at_listener n i j =
       ([K_auth.CHALLENGE ++ urandom j 20; K_auth.FAILURE], Raised AuthenticationError)).
  Proof.
    intros n i j Hok. rewrite (replay_at_listener_outcome n i j Hok).
    destruct (bytes_eqb (mac key (urandom i 20)) (mac key (urandom j 20))) eqn:E.
    - apply bytes_eqb_true in E. split; [split; [intros _; exact E|reflexivity]|].
      intros D. contradiction.
    - apply bytes_eqb_neq in E. split; [split; [discriminate|intros X; contradiction]|].
      intros _. reflexivity.
  Qed.

  (* ---- freshness is NECESSARY: if the listener's challenge repeats, the recorded
     client messages are accepted -- the attacker is handed a connection *)
  Theorem replay_at_listener_accepted_if_challenge_repeats : forall n i j,
      session_ok i ->
      urandom i 20 = urandom j 20 ->
      replay_at_listener n i j =
      ([K_auth.CHALLENGE ++ urandom j 20; K_auth.WELCOME; mac key (urandomc i 20)], Returned).
  Proof.
    intros n i j Hok E. rewrite (replay_at_listener_outcome n i j Hok), E, bytes_eqb_refl.
    reflexivity.
  Qed.

  (* ---- (ii) the MAC (with this key) tells the two challenges apart when they differ:
     then the replay is accepted IFF the challenge repeated *)
  Theorem replay_at_listener_accepted_iff_challenge_repeats : forall n i j,
      session_ok i ->
      (mac key (urandom i 20) = mac key (urandom j 20) -> urandom i 20 = urandom j 20) ->
      (snd (replay_at_listener n i j) = Returned <-> urandom i 20 = urandom j 20) /\
      (urandom i 20 <> urandom j 20 ->
       replay_at_listener n i j =
       ([K_auth.CHALLENGE ++ urandom j 20; K_auth.FAILURE], Raised AuthenticationError)).
  Proof.
    intros n i j Hok Hinj.
    destruct (replay_at_listener_accepted_iff_digests n i j Hok) as [Hiff Hne].
    split.
    - rewrite Hiff. split; [exact Hinj|intros ->; reflexivity].
    - intros D. apply Hne. intros E. apply D, Hinj, E.
  Qed.

  (* ---- an attacker that can only RE-SEND messages recorded in session i (from either
     party, any order, any number): accepted in session j only if the digest of the new
     challenge is among the recorded messages *)
  Lemma recorded_all : forall n i,
      session_ok i ->
      recorded_listener n i ++ recorded_client n i =
      [K_auth.CHALLENGE ++ urandom i 20; K_auth.WELCOME; mac key (urandomc i 20);
       mac key (urandom i 20); K_auth.CHALLENGE ++ urandomc i 20; K_auth.WELCOME].
  Proof.
    intros n i Hok.
    rewrite (session_outcome n i Hok). reflexivity.
  Qed.

  Theorem replay_only_attacker_at_listener : forall n i j inc sent,
      session_ok i ->
      Forall (fun m => In m (recorded_listener n i ++ recorded_client n i)) inc ->
      run1 (code_listener mac (KBytes key) (urandom j)) inc = (sent, Returned) ->
      In (mac key (urandom j 20))
         [K_auth.CHALLENGE ++ urandom i 20; K_auth.WELCOME; mac key (urandomc i 20);
          mac key (urandom i 20); K_auth.CHALLENGE ++ urandomc i 20; K_auth.WELCOME].
  Proof.
    intros n i j inc sent Hok Hall Hrun.
    rewrite (recorded_all n i Hok) in Hall.
    unfold code_listener in Hrun. rewrite gen_listener_eq in Hrun.
    destruct (listener_refuses_wrong_digest mac k0 k (urandom j) inc sent Hrun) as (rest & E).
    subst inc. apply Forall_inv in Hall. exact Hall.
  Qed.

  (* ---- the symmetric attack: the listener's recorded messages played at a fresh client.
     The client first answers the OLD challenge (it sends mac key c_i again), is told
     WELCOME, then sends its own fresh challenge, which the recorded digest must match *)
  Theorem replay_at_client_outcome : forall n i j,
      session_ok i ->
      replay_at_client n i j =
      if bytes_eqb (mac key (urandomc i 20)) (mac key (urandomc j 20))
      then ([mac key (urandom i 20); K_auth.CHALLENGE ++ urandomc j 20; K_auth.WELCOME], Returned)
      else ([mac key (urandom i 20); K_auth.CHALLENGE ++ urandomc j 20; K_auth.FAILURE],
            Raised AuthenticationError).
  Proof.
    intros n i j Hok.
    rewrite (session_outcome n i Hok). cbn [fst snd].
    destruct Hok as (H1 & H2 & H3 & H4).
    rewrite code_client_role, run1_answer.
    change K_auth.CHALLENGE with CHALLENGE. change K_auth.WELCOME with WELCOME.
    change K_auth.FAILURE with FAILURE.
    assert (L : blen (CHALLENGE ++ urandom i 20) <= RECV_LIMIT)
      by (rewrite blen_challenge, H1; unfold RECV_LIMIT; lia).
    replace (blen (CHALLENGE ++ urandom i 20) <=? RECV_LIMIT) with true by lia.
    rewrite prefix_ok, suffix_ok. cbv zeta.
    replace (blen WELCOME <=? RECV_LIMIT) with true by reflexivity.
    rewrite bytes_eqb_refl, run1_deliver. cbv zeta.
    replace (blen (mac key (urandomc i 20)) <=? RECV_LIMIT) with true
      by (unfold RECV_LIMIT; lia).
    change (urandomc j MESSAGE_LENGTH) with (urandomc j 20).
    destruct (bytes_eqb (mac key (urandomc i 20)) (mac key (urandomc j 20))); reflexivity.
  Qed.

  Theorem replay_at_client_accepted_iff_digests : forall n i j,
      session_ok i ->
      (snd (replay_at_client n i j) = Returned <->
       mac key (urandomc i 20) = mac key (urandomc j 20)) /\
      (mac key (urandomc i 20) <> mac key (urandomc j 20) ->
       replay_at_client n i j =
       ([mac key (urandom i 20); K_auth.CHALLENGE ++ urandomc j 20; K_auth.FAILURE],
        Raised AuthenticationError)).
  Proof.
    intros n i j Hok. rewrite (replay_at_client_outcome n i j Hok).
    destruct (bytes_eqb (mac key (urandomc i 20)) (mac key (urandomc j 20))) eqn:E.
    - apply bytes_eqb_true in E. split; [split; [intros _; exact E|reflexivity]|].
      intros D. contradiction.
    - apply bytes_eqb_neq in E. split; [split; [discriminate|intros X; contradiction]|].
      intros _. reflexivity.
  Qed.

  Theorem replay_at_client_accepted_if_challenge_repeats : forall n i j,
      session_ok i ->
      urandomc i 20 = urandomc j 20 ->
      replay_at_client n i j =
      ([mac key (urandom i 20); K_auth.CHALLENGE ++ urandomc j 20; K_auth.WELCOME], Returned).
  Proof.
    intros n i j Hok E. rewrite (replay_at_client_outcome n i j Hok), E, bytes_eqb_refl.
    reflexivity.
  Qed.

  Theorem replay_at_client_accepted_iff_challenge_repeats : forall n i j,
      session_ok i ->
      (mac key (urandomc i 20) = mac key (urandomc j 20) -> urandomc i 20 = urandomc j 20) ->
      (snd (replay_at_client n i j) = Returned <-> urandomc i 20 = urandomc j 20) /\
      (urandomc i 20 <> urandomc j 20 ->
       replay_at_client n i j =
       ([mac key (urandom i 20); K_auth.CHALLENGE ++ urandomc j 20; K_auth.FAILURE],
        Raised AuthenticationError)).
  Proof.
    intros n i j Hok Hinj.
    destruct (replay_at_client_accepted_iff_digests n i j Hok) as [Hiff Hne].
    split.
    - rewrite Hiff. split; [exact Hinj|intros ->; reflexivity].
    - intros D. apply Hne. intros E. apply D, Hinj, E.
  Qed.
  Theorem replay_at_client_challenge_repeats_summary : forall n i j,
      session_ok i ->
      (mac key (urandomc i 20) = mac key (urandomc j 20) -> urandomc i 20 = urandomc j 20) ->
      (snd (replay_at_client n i j) = Returned <-> urandomc i 20 = urandomc j 20) /\
      (urandomc i 20 <> urandomc j 20 ->
       replay_at_client n i j =
       ([mac key (urandom i 20); K_auth.CHALLENGE ++ urandomc j 20; K_auth.FAILURE],
        Raised AuthenticationError)) /\
      (urandomc i 20 = urandomc j 20 ->
       replay_at_client n i j =
       ([mac key (urandom i 20); K_auth.CHALLENGE ++ urandomc j 20; K_auth.WELCOME], Returned)).
  Proof.
    intros n i j Hok Hinj.
    destruct (replay_at_client_accepted_iff_challenge_repeats n i j Hok Hinj) as [A C].
    split; [exact A|]. split; [exact C|].
    exact (replay_at_client_accepted_if_challenge_repeats n i j Hok).
  Qed.
End Sessions.

(* ------------------------------------------------------------------ *)
(* non-vacuity: a MAC that is injective in the message, a challenge stream that is fresh
   in session 1 and REPEATS its session-0 value in session 2 *)
Definition msg_mac (k m : bytes) : bytes := k ++ m.
Definition stream_l (j : nat) (n : Z) : bytes :=
  match j with 1%nat => const20 8 n | _ => const20 7 n end.   (* sessions 0 and 2 coincide *)
Definition stream_c (j : nat) (n : Z) : bytes := const20 (9 + Z.of_nat j) n.

Lemma msg_mac_injective : forall k a b, msg_mac k a = msg_mac k b -> a = b.
Proof. intros k a b E. unfold msg_mac in E. apply app_inv_head in E. exact E. Qed.

(* the replays written out once more as closed definitions, for the computed witness *)
Definition replay_at_listener mac (urandom urandomc : nat -> Z -> bytes) k0 k (n i j : nat) :=
  run1 (code_listener mac (KBytes (k0 :: k)) (urandom j))
       (snd (snd (code_handshake mac (13 + n) (KBytes (k0 :: k)) (KBytes (k0 :: k)) (urandom i) (urandomc i)))).
Definition replay_at_client mac (urandom urandomc : nat -> Z -> bytes) k0 k (n i j : nat) :=
  run1 (code_client mac (KBytes (k0 :: k)) (urandomc j))
       (snd (fst (code_handshake mac (13 + n) (KBytes (k0 :: k)) (KBytes (k0 :: k)) (urandom i) (urandomc i)))).

Lemma session_witness :
  (blen (stream_l 0 20) = 20 /\ blen (stream_c 0 20) = 20 /\
   blen (msg_mac [1; 2; 3] (stream_l 0 20)) <= 256 /\ blen (msg_mac [1; 2; 3] (stream_c 0 20)) <= 256) /\
  (* fresh challenge in session 1: the replay of session 0 is refused, FAILURE is sent *)
  replay_at_listener msg_mac stream_l stream_c 1 [2; 3] 0 0 1 =
  ([K_auth.CHALLENGE ++ const20 8 20; K_auth.FAILURE], Raised AuthenticationError) /\
  (* session 2 repeats the challenge of session 0: the same replay is accepted *)
  snd (replay_at_listener msg_mac stream_l stream_c 1 [2; 3] 0 0 2) = Returned /\
  (* the client's stream never repeats: the symmetric replay is refused *)
  snd (replay_at_client msg_mac stream_l stream_c 1 [2; 3] 0 0 1) = Raised AuthenticationError.
Proof. repeat split; vm_compute; try reflexivity; discriminate. Qed.
