(* C12: proofs about Model/EInfo.v and its tie to Gen/K_einfo.v *)
From Coq Require Import ZArith List Bool Lia ZifyBool.
From BV Require Import Lib.PyVal Lib.Cases Gen.K_einfo Model.EInfo.
Import ListNotations.
Open Scope Z_scope.

(* ================================================================== *)
(* A. the code as translated on this run is the model                   *)

Definition emb_action (a : tb_action) : action :=
  match a with
  | TStop => Stop
  | TRecurse m d => Recurse (PInt m) (PInt d)
  | TTruncate => Truncate
  end.

Lemma gen_default_max_frames : forall rl,
    K_einfo.default_max_frames (PInt rl) = PInt (EInfo.default_max_frames rl).
Proof. intros rl. reflexivity. Qed.

Lemma gen_init_depth : K_einfo.init_depth = PInt 0.
Proof. reflexivity. Qed.

Lemma gen_step : forall hn m d,
    K_einfo.step hn (PInt m) (PInt d) = emb_action (tb_step hn m d).
Proof.
  intros hn m d. unfold K_einfo.step, tb_step.
  destruct hn; [|reflexivity].
  unfold py_le, py_lt, py_gt, py_ge, py_ne, py_eq, py_not, py_add, py_sub, py_neg,
    mk_recurse, py_ifexp, py_and, py_or, cmp, arith;
    cbn [as_int truth negb is_err].
  destruct (d <=? m) eqn:E; cbn [emb_action];
    repeat match goal with
           | |- context [if ?b then _ else _] => destruct b eqn:?
           end;
    try reflexivity; try lia; try (f_equal; f_equal; lia); try (f_equal; lia).
Qed.

Lemma gen_marker :
  K_einfo.marker_lineno = PInt marker_line /\
  K_einfo.marker_filename = marker_file /\
  K_einfo.marker_name = EInfo.marker_name.
Proof. repeat split; reflexivity. Qed.

Lemma gen_mee_reduce : K_einfo.mee_has_reduce = mee_repaired.
Proof. reflexivity. Qed.

Lemma gen_standins : K_einfo.standins_pickle_by_dict = true.
Proof. reflexivity. Qed.

(* MaybeEncodingError.__reduce__ / the rebuild function it names, executed from the data the
   translator extracted from their bodies on this run:
     ps   = [getattr(self, a) for a in mee_reduce_attrs]        (AttributeError = None)
     obj  = __new__;  obj.<name> = ps[k] for (name, k) in mee_rebuild_sets, in order;
     Exception.__init__(obj, *[ps[k] for k in mee_rebuild_init])   (sets obj.args)
   Without a __reduce__ the constructor is called again (BaseException.__reduce__). *)
Fixpoint dict_get (d : dict) (k : str) : option pyarg :=
  match d with
  | [] => None
  | (k', v) :: r => if str_eqb k k' then Some v else dict_get r k
  end.

Fixpoint all_some {A} (l : list (option A)) : option (list A) :=
  match l with
  | [] => Some []
  | Some a :: r => match all_some r with Some t => Some (a :: t) | None => None end
  | None :: _ => None
  end.

Definition gen_unpickle_mee (x : pexc) : option pexc :=
  if K_einfo.mee_has_reduce then
    match all_some (map (dict_get (x_attrs x)) K_einfo.mee_reduce_attrs) with
    | Some ps =>
        match all_some (map (fun kv => match nth_error ps (snd kv) with
                                       | Some v => Some (fst kv, v)
                                       | None => None
                                       end) K_einfo.mee_rebuild_sets),
              all_some (map (nth_error ps) K_einfo.mee_rebuild_init) with
        | Some sets, Some args => Some (mk_exc CMee args (dict_update [] sets))
        | _, _ => None
        end
    | None => None
    end
  else unpickle_exc false x.

(* the shape of every MaybeEncodingError object its constructor builds (and of nothing else):
   args = (exc, value) and __dict__ = {exc, value}, in this order *)
Definition mee_wf (x : pexc) : Prop :=
  x_cls x = CMee /\
  exists a b, x_args x = [a; b] /\ x_attrs x = [(s_exc, a); (s_value, b)].

Lemma construct_mee_wf a b x : construct CMee [a; b] = Some x -> mee_wf x.
Proof.
  cbn. intros H. inversion H; subst. split; [reflexivity|].
  eexists _, _. split; reflexivity.
Qed.

(* On such objects the code's __reduce__ + rebuild function, as translated on this run, return
   the object itself, which is what the model's [unpickle_exc] says when the switch is on.
   (A __reduce__ that passes other attributes, swaps them, forgets one, or a rebuild function
   that stores or passes them differently makes this lemma fail; one whose shape is not
   understood at all is a translator error.) *)
Lemma gen_mee_rebuild : forall x,
    mee_wf x -> gen_unpickle_mee x = Some x /\ unpickle_exc mee_repaired x = Some x.
Proof.
  intros [c ar d] [Hc [a [b [Ha Hd]]]]. cbn [x_cls x_args x_attrs] in *. subst c ar d.
  split; reflexivity.
Qed.

(* Traceback.__init__ executed with the generated decision function *)
Definition gen_marker_frame : option frame :=
  match K_einfo.marker_lineno with
  | PInt l => Some (mk_fr K_einfo.marker_filename K_einfo.marker_name l)
  | _ => None
  end.

Fixpoint gen_copy_from (m d : pv) (f : frame) (rest : list frame) : option (list frame) :=
  match rest with
  | [] => match K_einfo.step false m d with Stop => Some [f] | _ => None end
  | g :: r =>
      match K_einfo.step true m d with
      | Recurse m' d' =>
          match gen_copy_from m' d' g r with Some c => Some (f :: c) | None => None end
      | Truncate => match gen_marker_frame with Some mk => Some [f; mk] | None => None end
      | _ => None
      end
  end.

(* Traceback(tb) as ExceptionInfo calls it: default max_frames, default depth *)
Definition gen_copy_tb_default (reclimit : Z) (tb : list frame) : option (list frame) :=
  match tb with
  | [] => None
  | f :: r => gen_copy_from (K_einfo.default_max_frames (PInt reclimit)) K_einfo.init_depth f r
  end.

Lemma gen_copy_from_eq : forall rest m d f,
    gen_copy_from (PInt m) (PInt d) f rest = Some (copy_from m d f rest).
Proof.
  induction rest as [|g r IH]; intros m d f.
  - cbn [gen_copy_from copy_from]. rewrite gen_step. reflexivity.
  - cbn [gen_copy_from copy_from]. rewrite gen_step. unfold tb_step.
    destruct (d <=? m) eqn:E; cbn [emb_action].
    + rewrite IH. reflexivity.
    + reflexivity.
Qed.

Lemma gen_copy_tb_eq : forall rl tb,
    gen_copy_tb_default rl tb = copy_tb (EInfo.default_max_frames rl) tb.
Proof.
  intros rl [|f r]; [reflexivity|].
  unfold gen_copy_tb_default. rewrite gen_default_max_frames, gen_init_depth.
  apply gen_copy_from_eq.
Qed.

(* ================================================================== *)
(* B. depth bound and prefix                                            *)

Definition tail_marker (m : Z) (tb : list frame) : list frame :=
  if Z.of_nat (length tb) >? m + 2 then [marker] else [].

Lemma copy_from_spec : forall rest m d f,
    d <= m + 1 ->
    copy_from m d f rest =
    firstn (Z.to_nat (m + 2 - d)) (f :: rest) ++
    (if Z.of_nat (length (f :: rest)) >? m + 2 - d then [marker] else []).
Proof.
  induction rest as [|g r IH]; intros m d f Hd.
  - cbn [copy_from length]. replace (Z.to_nat (m + 2 - d)) with (S (Z.to_nat (m + 1 - d))) by lia.
    cbn [firstn]. rewrite firstn_nil.
    replace (Z.of_nat 1 >? m + 2 - d) with false by lia. reflexivity.
  - cbn [copy_from].
    replace (Z.to_nat (m + 2 - d)) with (S (Z.to_nat (m + 1 - d))) by lia.
    cbn [firstn app]. f_equal.
    destruct (d <=? m) eqn:E.
    + rewrite IH by lia. replace (m + 2 - (d + 1)) with (m + 1 - d) by lia.
      f_equal. cbn [length].
      destruct (Z.of_nat (S (length r)) >? m + 1 - d) eqn:A;
        destruct (Z.of_nat (S (S (length r))) >? m + 2 - d) eqn:B; try reflexivity; lia.
    + assert (Hz : m + 1 - d = 0) by lia. rewrite Hz. cbn [Z.to_nat firstn app].
      cbn [length]. replace (Z.of_nat (S (S (length r))) >? m + 2 - d) with true by lia.
      reflexivity.
Qed.

(* Traceback(tb, max_frames=m): the first m+2 frames, then the marker iff there are more *)
Theorem copy_tb_spec : forall m tb,
    -1 <= m -> tb <> [] ->
    copy_tb m tb = Some (firstn (Z.to_nat (m + 2)) tb ++ tail_marker m tb).
Proof.
  intros m [|f r] Hm Hne; [contradiction|].
  unfold copy_tb, tail_marker. rewrite copy_from_spec by lia.
  replace (m + 2 - 0) with (m + 2) by lia. reflexivity.
Qed.

Theorem copy_tb_none : forall m, copy_tb m [] = None.
Proof. reflexivity. Qed.

Theorem copy_tb_length : forall m tb c,
    -1 <= m -> copy_tb m tb = Some c ->
    Z.of_nat (length c) <= m + 3 /\ (length c <= S (length tb))%nat /\ (1 <= length c)%nat.
Proof.
  intros m tb c Hm H. destruct tb as [|f r]; [discriminate|].
  rewrite copy_tb_spec in H by (auto; discriminate). inversion H; subst c; clear H.
  rewrite app_length, firstn_length. unfold tail_marker.
  destruct (Z.of_nat (length (f :: r)) >? m + 2) eqn:E; cbn [length] in *; lia.
Qed.

(* short tracebacks are copied whole, long ones are cut to exactly m+2 frames + marker *)
Theorem copy_tb_short : forall m tb,
    -1 <= m -> tb <> [] -> Z.of_nat (length tb) <= m + 2 -> copy_tb m tb = Some tb.
Proof.
  intros m tb Hm Hne Hl. rewrite copy_tb_spec by assumption. unfold tail_marker.
  replace (Z.of_nat (length tb) >? m + 2) with false by lia.
  rewrite app_nil_r, firstn_all2 by lia. reflexivity.
Qed.

Theorem copy_tb_long : forall m tb,
    -1 <= m -> Z.of_nat (length tb) > m + 2 ->
    copy_tb m tb = Some (firstn (Z.to_nat (m + 2)) tb ++ [marker]) /\
    length (firstn (Z.to_nat (m + 2)) tb) = Z.to_nat (m + 2).
Proof.
  intros m tb Hm Hl. assert (Hne : tb <> []) by (destruct tb; [cbn in Hl; lia|discriminate]).
  rewrite copy_tb_spec by assumption. unfold tail_marker.
  replace (Z.of_nat (length tb) >? m + 2) with true by lia.
  split; [reflexivity|]. rewrite firstn_length. lia.
Qed.

(* the frame that raised (last of the live chain) survives iff the chain fits *)
Theorem copy_tb_keeps_raiser : forall m tb c,
    -1 <= m -> copy_tb m tb = Some c ->
    last c marker = (if Z.of_nat (length tb) >? m + 2 then marker else last tb marker).
Proof.
  intros m tb c Hm H. destruct tb as [|f r]; [discriminate|].
  destruct (Z.of_nat (length (f :: r)) >? m + 2) eqn:E.
  - destruct (copy_tb_long m (f :: r)) as [H1 _]; [assumption|lia|].
    rewrite H1 in H. inversion H. apply last_last.
  - rewrite copy_tb_short in H by (auto; try discriminate; lia). inversion H. reflexivity.
Qed.

Lemma gen_constants :
  (forall rl, K_einfo.default_max_frames (PInt rl) = PInt (rl / 8)) /\
  K_einfo.init_depth = PInt 0 /\
  K_einfo.marker_lineno = PInt (-1) /\
  K_einfo.marker_filename = marker_file /\ K_einfo.marker_name = EInfo.marker_name /\
  K_einfo.standins_pickle_by_dict = true /\
  K_einfo.mee_has_reduce = mee_repaired.
Proof.
  split; [exact gen_default_max_frames|]. split; [exact gen_init_depth|].
  destruct gen_marker as [A [B C]].
  split; [exact A|]. split; [exact B|]. split; [exact C|].
  split; [exact gen_standins|exact gen_mee_reduce].
Qed.

Lemma gen_depth_bounded : forall rl tb c,
    0 <= rl -> gen_copy_tb_default rl tb = Some c ->
    Z.of_nat (length c) <= rl / 8 + 3 /\
    c = firstn (Z.to_nat (rl / 8 + 2)) tb ++
        (if Z.of_nat (length tb) >? rl / 8 + 2 then [marker] else []).
Proof.
  intros rl tb c Hrl H. rewrite gen_copy_tb_eq in H. unfold EInfo.default_max_frames in H.
  assert (Hm : -1 <= rl / 8) by (pose proof (Z.div_pos rl 8 Hrl); lia).
  split.
  - exact (proj1 (copy_tb_length _ _ _ Hm H)).
  - destruct tb as [|f r]; [discriminate|].
    rewrite copy_tb_spec in H by (auto; discriminate). inversion H. reflexivity.
Qed.

(* ================================================================== *)
(* C. round trips                                                       *)

Lemma list_eqb_spec {A} (eqb : A -> A -> bool) :
  (forall x y, eqb x y = true <-> x = y) ->
  forall a b, list_eqb eqb a b = true <-> a = b.
Proof.
  intros He. induction a as [|x r IH]; intros [|y t]; cbn; split; intros H;
    try reflexivity; try discriminate.
  - apply andb_true_iff in H. destruct H as [H1 H2].
    apply He in H1. apply IH in H2. subst. reflexivity.
  - inversion H; subst. apply andb_true_iff. split; [apply He|apply IH]; reflexivity.
Qed.

Lemma str_eqb_spec : forall a b, str_eqb a b = true <-> a = b.
Proof. apply list_eqb_spec. intros x y. apply Z.eqb_eq. Qed.

Lemma str_eqb_neq : forall a b, a <> b -> str_eqb a b = false.
Proof.
  intros a b H. destruct (str_eqb a b) eqn:E; [|reflexivity].
  apply str_eqb_spec in E. contradiction.
Qed.

Lemma dict_set_fresh : forall d k v,
    ~ In k (map fst d) -> dict_set d k v = d ++ [(k, v)].
Proof.
  induction d as [|[k' v'] r IH]; intros k v Hn; cbn; [reflexivity|].
  rewrite str_eqb_neq by (intros E; apply Hn; left; cbn; auto).
  rewrite IH by (intros E; apply Hn; right; assumption). reflexivity.
Qed.

Lemma dict_update_fresh : forall u p,
    NoDup (map fst u) -> (forall k, In k (map fst u) -> ~ In k (map fst p)) ->
    dict_update p u = p ++ u.
Proof.
  unfold dict_update.
  induction u as [|[k v] r IH]; intros p Hnd Hdis; cbn [fold_left].
  - rewrite app_nil_r. reflexivity.
  - cbn [fst snd map] in *. inversion Hnd as [|? ? Hk Hr]; subst.
    rewrite dict_set_fresh by (apply Hdis; left; reflexivity).
    rewrite IH.
    + rewrite <- app_assoc. reflexivity.
    + assumption.
    + intros k0 Hin Hin2. rewrite map_app in Hin2. apply in_app_or in Hin2.
      destruct Hin2 as [Hp|Hs].
      * apply (Hdis k0); [right; assumption|assumption].
      * cbn in Hs. destruct Hs as [Hs|[]]. subst k0. contradiction.
Qed.

(* an exception object whose class reproduces it from its args (the "picklable" of the
   statement): a plain class with a well-formed __dict__; MaybeEncodingError only when
   the switch [fx] says its __reduce__ restores the stored strings *)
Definition stable_class (fx : bool) (x : pexc) : Prop :=
  match x_cls x with
  | CPlain _ => NoDup (map fst (x_attrs x))
  | CMee => fx = true
  end.

Lemma unpickle_stable : forall fx x, stable_class fx x -> unpickle_exc fx x = Some x.
Proof.
  intros fx [c a d] H. unfold stable_class in H. cbn [x_cls x_attrs] in H.
  unfold unpickle_exc. cbn [x_cls x_args x_attrs]. destruct c as [id|].
  - cbn [construct x_cls x_args x_attrs].
    rewrite dict_update_fresh by (auto; intros k _ []). reflexivity.
  - subst fx. reflexivity.
Qed.

(* the record every round trip after the first converges to *)
Definition settled (e : einfo) : einfo :=
  mk_ei (ei_type e) (Raw (exc_of (ei_exc e)) None) (ei_tb e) (ei_text e) (ei_internal e).
Definition with_cause (e : einfo) : einfo :=
  match ei_exc e with
  | EWT x t => mk_ei (ei_type e) (Raw x (Some t)) (ei_tb e) (ei_text e) (ei_internal e)
  | Raw _ _ => settled e
  end.

Lemma roundtrip_once : forall fx e,
    stable_class fx (exc_of (ei_exc e)) -> roundtrip_gen fx e = Some (with_cause e).
Proof.
  intros fx [t w tb tx it] H. unfold roundtrip_gen, with_cause, settled.
  destruct w as [x tt|x c]; cbn [ei_exc exc_of] in *; rewrite (unpickle_stable fx x H);
    reflexivity.
Qed.

Lemma with_cause_settles : forall fx e,
    stable_class fx (exc_of (ei_exc e)) ->
    roundtrip_gen fx (with_cause e) = Some (settled e).
Proof.
  intros fx [t w tb tx it] H. unfold with_cause, settled.
  destruct w as [x tt|x c]; cbn [ei_exc exc_of ei_type ei_tb ei_text ei_internal] in *;
    unfold roundtrip_gen; cbn [ei_exc exc_of ei_type ei_tb ei_text ei_internal];
    rewrite (unpickle_stable fx x H); reflexivity.
Qed.

Lemma settled_fixpoint : forall fx e,
    stable_class fx (exc_of (ei_exc e)) ->
    roundtrip_gen fx (settled e) = Some (settled e).
Proof.
  intros fx [t w tb tx it] H. unfold settled, roundtrip_gen.
  cbn [ei_exc exc_of ei_type ei_tb ei_text ei_internal] in *.
  rewrite (unpickle_stable fx _ H). reflexivity.
Qed.

Lemma iter_rt_stable : forall fx e n,
    stable_class fx (exc_of (ei_exc e)) ->
    iter_rt fx (S (S n)) e = Some (settled e).
Proof.
  intros fx e n H. induction n as [|n IH].
  - cbn [iter_rt]. rewrite roundtrip_once by assumption. apply with_cause_settles; assumption.
  - change (iter_rt fx (S (S (S n))) e) with
        (match iter_rt fx (S (S n)) e with Some e' => roundtrip_gen fx e' | None => None end).
    rewrite IH. apply settled_fixpoint; assumption.
Qed.

(* the property-relevant projection of a record *)
Definition essence (e : einfo) : cls * cls * list pyarg * dict * Z * list frame :=
  (ei_type e, x_cls (exc_of (ei_exc e)), x_args (exc_of (ei_exc e)),
   x_attrs (exc_of (ei_exc e)), ei_text e, ei_tb e).

Lemma essence_with_cause e : essence (with_cause e) = essence e.
Proof. destruct e as [t [x tt|x c] tb tx it]; reflexivity. Qed.
Lemma essence_settled e : essence (settled e) = essence e.
Proof. destruct e as [t [x tt|x c] tb tx it]; reflexivity. Qed.

(* for every n >= 1 the n-fold round trip exists and keeps type, exception class, args,
   attributes, traceback text and tb chain *)
Theorem roundtrip_stable_gen : forall fx e n,
    stable_class fx (exc_of (ei_exc e)) -> (1 <= n)%nat ->
    exists e', iter_rt fx n e = Some e' /\ essence e' = essence e.
Proof.
  intros fx e n H Hn. destruct n as [|[|n]]; [lia| |].
  - exists (with_cause e). split; [cbn [iter_rt]; apply roundtrip_once; assumption|].
    apply essence_with_cause.
  - exists (settled e). split; [apply iter_rt_stable; assumption|apply essence_settled].
Qed.

(* from the second application on, nothing changes at all *)
Theorem roundtrip_idempotent_gen : forall fx e n,
    stable_class fx (exc_of (ei_exc e)) ->
    iter_rt fx (S (S (S n))) e = iter_rt fx (S (S n)) e.
Proof.
  intros fx e n H. rewrite !iter_rt_stable by assumption. reflexivity.
Qed.

Lemma roundtrip_idempotent_settled : forall fx e n,
    stable_class fx (exc_of (ei_exc e)) ->
    iter_rt fx (S (S (S n))) e = iter_rt fx (S (S n)) e /\
    iter_rt fx (S (S n)) e = Some (settled e).
Proof.
  intros fx e n H. split; [apply roundtrip_idempotent_gen; assumption|].
  apply iter_rt_stable; assumption.
Qed.

(* ---- D20: MaybeEncodingError on the pinned tree ---- *)

Lemma esc_char_nonempty q c : (1 <= length (esc_char q c))%nat.
Proof.
  unfold esc_char.
  repeat match goal with
         | |- context [if ?b then _ else _] => destruct b
         end; cbn; lia.
Qed.

Lemma flat_map_esc_length q s : (length s <= length (flat_map (esc_char q) s))%nat.
Proof.
  induction s as [|c r IH]; cbn [flat_map length]; [lia|].
  rewrite app_length. pose proof (esc_char_nonempty q c). lia.
Qed.

Lemma repr_str_longer s : (length s + 2 <= length (repr_str s))%nat.
Proof.
  unfold repr_str. cbn [length]. rewrite app_length. cbn [length].
  pose proof (flat_map_esc_length (quote_of s) s). lia.
Qed.

Lemma repr_str_neq s : repr_str s <> s.
Proof. intros E. pose proof (repr_str_longer s) as H. rewrite E in H. lia. Qed.

(* the shape every MaybeEncodingError object has: two string args *)
Definition mee_shape (x : pexc) : Prop :=
  x_cls x = CMee /\ exists a b, x_args x = [AStr a; AStr b].

Lemma construct_mee_shape a b x : construct CMee [a; b] = Some x -> mee_shape x.
Proof.
  cbn. intros H. inversion H; subst. split; [reflexivity|].
  eexists _, _. reflexivity.
Qed.

Lemma unpickle_mee_unrepaired : forall x a b,
    x_cls x = CMee -> x_args x = [AStr a; AStr b] ->
    exists y, unpickle_exc false x = Some y /\ x_cls y = CMee /\
              x_args y = [AStr (repr_str a); AStr (repr_str b)].
Proof.
  intros [c ar d] a b Hc Ha. cbn in Hc, Ha. subst c ar.
  unfold unpickle_exc. cbn [x_cls x_args x_attrs construct repr].
  eexists. split; [reflexivity|]. split; reflexivity.
Qed.

(* on the pinned tree every pickle round trip of a record holding a MaybeEncodingError
   changes its args *)
Theorem mee_roundtrip_changes_args : forall e,
    mee_shape (exc_of (ei_exc e)) ->
    exists e', roundtrip_gen false e = Some e' /\ mee_shape (exc_of (ei_exc e')) /\
               x_args (exc_of (ei_exc e')) <> x_args (exc_of (ei_exc e)).
Proof.
  intros [t w tb tx it] [Hc [a [b Ha]]].
  destruct w as [x tt|x c]; cbn [ei_exc exc_of] in *;
    destruct (unpickle_mee_unrepaired x a b Hc Ha) as [y [Hy [Hyc Hya]]];
    unfold roundtrip_gen; cbn [ei_exc]; rewrite Hy; eexists; (split; [reflexivity|]);
      cbn [ei_exc exc_of]; (split; [split; [assumption|eauto]|]);
      rewrite Hya, Ha; intros E; inversion E as [[E1 E2]]; exact (repr_str_neq a E1).
Qed.

(* ... and never settles: the args after n+1 round trips differ from those after n *)
Theorem mee_never_settles : forall n e,
    mee_shape (exc_of (ei_exc e)) ->
    exists e1 e2, iter_rt false n e = Some e1 /\ iter_rt false (S n) e = Some e2 /\
                  x_args (exc_of (ei_exc e2)) <> x_args (exc_of (ei_exc e1)).
Proof.
  intros n e H.
  assert (Hn : exists e1, iter_rt false n e = Some e1 /\ mee_shape (exc_of (ei_exc e1))).
  { induction n as [|n IH]; [exists e; split; [reflexivity|assumption]|].
    destruct IH as [e1 [H1 S1]].
    destruct (mee_roundtrip_changes_args e1 S1) as [e2 [H2 [S2 _]]].
    exists e2. split; [|assumption]. cbn [iter_rt]. rewrite H1. exact H2. }
  destruct Hn as [e1 [H1 S1]].
  destruct (mee_roundtrip_changes_args e1 S1) as [e2 [H2 [S2 D]]].
  exists e1, e2. split; [assumption|]. split; [|assumption].
  cbn [iter_rt]. rewrite H1. exact H2.
Qed.

(* the attributes (.exc, .value, hence str()) of a MaybeEncodingError are restored from
   the pickled __dict__: only args drift *)
Lemma mee_attrs_stable : forall a b x y,
    construct CMee [a; b] = Some x -> unpickle_exc false x = Some y ->
    x_attrs y = x_attrs x.
Proof.
  intros a b x y Hx Hy. cbn in Hx. inversion Hx; subst x; clear Hx.
  unfold unpickle_exc in Hy. cbn [x_cls x_args x_attrs construct repr] in Hy.
  inversion Hy; subst y; clear Hy. cbn [x_attrs].
  unfold dict_update. cbn [fold_left fst snd dict_set].
  replace (str_eqb s_exc s_exc) with true by reflexivity.
  replace (str_eqb s_value s_exc) with false by reflexivity.
  replace (str_eqb s_value s_value) with true by reflexivity.
  reflexivity.
Qed.

(* ================================================================== *)
(* D. the worker's encoding-error path                                  *)

Lemma repr_opaque r : repr (AOpaque r) = r.
Proof. reflexivity. Qed.

Lemma encoding_record_spec : forall mf r p ptb ptext,
    ptb <> [] ->
    exists c, copy_tb mf ptb = Some c /\
    encoding_record mf r p ptb ptext =
    Some (mk_ei CMee
                (EWT (mk_exc CMee [AStr r; AStr (repr (payload_obj p))]
                             [(s_exc, AStr r); (s_value, AStr (repr (payload_obj p)))]) ptext)
                c ptext false).
Proof.
  intros mf r p [|f rest] ptext Hne; [contradiction|].
  eexists. split; [reflexivity|]. reflexivity.
Qed.

Lemma mee_record_pickles : forall j i a b d t c tx it,
    msg_pickle_err (MReady j i false
                           (PInfo (mk_ei CMee (EWT (mk_exc CMee [AStr a; AStr b]
                                                           [(s_exc, AStr a); (s_value, AStr b)]) t)
                                         c tx it))) = d -> d = None.
Proof. intros. subst d. reflexivity. Qed.

(* The encoding-error path.  A task was accepted (ACK sent), its result tuple could not be
   sent (put raised an Exception whose repr is r -- unserialisable at whatever depth, or a
   failing pipe), the traceback of that failure is non-empty and the pipe then accepts one
   message: the worker sends exactly one READY for the job, carrying ok=False and an
   ExceptionInfo whose type and exception class are MaybeEncodingError with args
   (repr(exc), repr(result)), and goes on with put index n+3. *)
Theorem encoding_error_path : forall mf env n job i o ptb ptext ok p r,
    do_put env n (MAck job i) = PutOk ->
    task_result mf o = Some (ok, p) ->
    do_put env (S n) (MReady job i ok p) = PutExc r ->
    ptb <> [] ->
    env (S (S n)) = PutOk ->
    exists e2,
      encoding_record mf r p ptb ptext = Some e2 /\
      handle_task mf env n job i o ptb ptext =
      ([MAck job i; MReady job i false (PInfo e2)], inr (S (S (S n)))) /\
      ei_type e2 = CMee /\
      exc_of (ei_exc e2) = mk_exc CMee [AStr r; AStr (repr (payload_obj p))]
                                  [(s_exc, AStr r); (s_value, AStr (repr (payload_obj p)))] /\
      (exists c, copy_tb mf ptb = Some c /\ ei_tb e2 = c) /\
      ei_text e2 = ptext.
Proof.
  intros mf env n job i o ptb ptext ok p r Hack Hres Hput Hne Henv.
  destruct (encoding_record_spec mf r p ptb ptext Hne) as [c [Hc He]].
  eexists. split; [exact He|].
  split.
  - unfold handle_task. rewrite Hack, Hres, Hput, He.
    unfold do_put at 1. rewrite Henv. reflexivity.
  - cbn [ei_type ei_exc exc_of ei_tb ei_text]. repeat split; eauto.
Qed.

(* what the parent receives (one transport): always a MaybeEncodingError record with the same
   tb and text; its args are the worker's args iff the switch is on (D20 otherwise) *)
Lemma encoding_record_received : forall fx mf r p ptb ptext e2,
    encoding_record mf r p ptb ptext = Some e2 ->
    exists e', roundtrip_gen fx e2 = Some e' /\
               ei_type e' = CMee /\ x_cls (exc_of (ei_exc e')) = CMee /\
               x_args (exc_of (ei_exc e')) =
               (if fx then [AStr r; AStr (repr (payload_obj p))]
                else [AStr (repr_str r); AStr (repr_str (repr (payload_obj p)))]) /\
               ei_tb e' = ei_tb e2 /\ ei_text e' = ei_text e2.
Proof.
  intros fx mf r p ptb ptext e2 H.
  destruct ptb as [|f rest]; [discriminate|].
  destruct (encoding_record_spec mf r p (f :: rest) ptext) as [c [Hc He]]; [discriminate|].
  rewrite He in H. inversion H; subst e2; clear H.
  destruct fx; eexists; (split; [reflexivity|]); repeat split; reflexivity.
Qed.

(* the loop continues with the next request *)
Theorem loop_continues : forall mf env mt job i o ptb ptext rest c n ms n',
    loop_guard mt c = true ->
    handle_task mf env n job i o ptb ptext = (ms, inr n') ->
    run_loop mf env mt (RTask job i o ptb ptext :: rest) c n =
    (ms ++ fst (run_loop mf env mt rest (c + 1) n'), snd (run_loop mf env mt rest (c + 1) n')).
Proof.
  intros mf env mt job i o ptb ptext rest c n ms n' Hg Hh.
  cbn [run_loop]. rewrite Hg, Hh.
  destruct (run_loop mf env mt rest (c + 1) n'); reflexivity.
Qed.

(* ---- every accepted task is answered exactly once, whatever its result ---- *)

Definition req_wf (r : req) : Prop :=
  match r with
  | RNone => True
  | RTask _ _ o ptb _ =>
      ptb <> [] /\ match o with Raises _ _ live _ => live <> [] | Returns _ => True end
  end.

Fixpoint task_keys (s : list req) : list (Z * Z) :=
  match s with
  | [] => []
  | RNone :: r => task_keys r
  | RTask j i _ _ _ :: r => (j, i) :: task_keys r
  end.
Fixpoint macks (ms : list msg) : list (Z * Z) :=
  match ms with
  | [] => []
  | MAck j i :: r => (j, i) :: macks r
  | _ :: r => macks r
  end.
Fixpoint mreadies (ms : list msg) : list (Z * Z) :=
  match ms with
  | [] => []
  | MReady j i _ _ :: r => (j, i) :: mreadies r
  | _ :: r => mreadies r
  end.

Lemma macks_app a b : macks (a ++ b) = macks a ++ macks b.
Proof. induction a as [|[j i|j i ok p] r IH]; cbn; [reflexivity| |]; rewrite IH; reflexivity. Qed.
Lemma mreadies_app a b : mreadies (a ++ b) = mreadies a ++ mreadies b.
Proof. induction a as [|[j i|j i ok p] r IH]; cbn; [reflexivity| |]; rewrite IH; reflexivity. Qed.

Lemma task_result_wf mf o :
  match o with Raises _ _ live _ => live <> [] | Returns _ => True end ->
  exists ok p, task_result mf o = Some (ok, p).
Proof.
  destruct o as [v|t x [|f r] tx]; intros H.
  - eexists _, _. reflexivity.
  - contradiction.
  - eexists _, _. reflexivity.
Qed.

(* with a working pipe, one accepted task = one ACK + one READY, never a crash *)
Lemma handle_task_ok : forall mf env n job i o ptb ptext,
    (forall k, env k = PutOk) -> req_wf (RTask job i o ptb ptext) ->
    exists ok p n', handle_task mf env n job i o ptb ptext =
                    ([MAck job i; MReady job i ok p], inr n').
Proof.
  intros mf env n job i o ptb ptext Henv [Hptb Ho].
  destruct (task_result_wf mf o Ho) as [ok [p Hres]].
  unfold handle_task. unfold do_put at 1. rewrite Henv. cbn [msg_pickle_err]. rewrite Hres.
  destruct (do_put env (S n) (MReady job i ok p)) eqn:Hp.
  - eexists _, _, _. reflexivity.
  - destruct (encoding_record_spec mf r p ptb ptext Hptb) as [c [Hc He]].
    rewrite He. unfold do_put at 1. rewrite Henv. cbn [msg_pickle_err payload_pickle_err].
    eexists _, _, _. reflexivity.
  - unfold do_put in Hp. rewrite Henv in Hp.
    destruct (msg_pickle_err (MReady job i ok p)); discriminate.
Qed.

Theorem one_ready_per_task : forall mf env mt script c n,
    (forall k, env k = PutOk) -> Forall req_wf script ->
    let (ms, e) := run_loop mf env mt script c n in
    (forall cr, e <> Crashed cr) /\
    mreadies ms = macks ms /\
    exists k, mreadies ms = firstn k (task_keys script) /\
              (mt = None -> mreadies ms = task_keys script).
Proof.
  intros mf env mt script. induction script as [|rq rest IH]; intros c n Henv Hwf.
  - cbn [run_loop]. destruct (loop_guard mt c) eqn:G.
    + split; [discriminate|]. split; [reflexivity|]. exists O. split; reflexivity.
    + split; [discriminate|]. split; [reflexivity|]. exists O. split; [reflexivity|].
      intros ->. discriminate.
  - inversion Hwf as [|? ? Hrq Hrest]; subst. cbn [run_loop].
    destruct (loop_guard mt c) eqn:G.
    + destruct rq as [|job i o ptb ptext].
      * cbn [task_keys]. apply IH; assumption.
      * destruct (handle_task_ok mf env n job i o ptb ptext Henv Hrq) as [ok [p [n' Hh]]].
        rewrite Hh. specialize (IH (c + 1) n' Henv Hrest).
        destruct (run_loop mf env mt rest (c + 1) n') as [ms' e'].
        destruct IH as [Hcr [Heq [k [Hk Hall]]]].
        split; [assumption|]. cbn [app macks mreadies task_keys]. split.
        -- f_equal. assumption.
        -- exists (S k). cbn [firstn]. split; [f_equal; assumption|].
           intros Hm. f_equal. apply Hall. assumption.
    + split; [discriminate|]. split; [reflexivity|]. exists O. split; [reflexivity|].
      intros ->. discriminate.
Qed.

(* ================================================================== *)
(* E. the normal failure path, end to end                               *)

(* exc_pickle_err and payload_pickle_err look at args and attributes only *)
Lemma essence_pickle_err : forall e e',
    essence e' = essence e ->
    payload_pickle_err (PInfo e') = payload_pickle_err (PInfo e).
Proof.
  intros e e' H. unfold essence in H. injection H as _ _ Ha Hd _ _.
  cbn [payload_pickle_err]. unfold exc_pickle_err. rewrite Ha, Hd. reflexivity.
Qed.

(* Round-trip stability, stated about *picklable* records only: pickle.dumps of the record
   does not raise (the model's [roundtrip_gen] alone never consults [pickle_err]).  For every
   n >= 1 the n-fold round trip exists, has the same essence, and is itself picklable, so
   every dumps along the chain is defined. *)
Theorem roundtrip_stable_picklable : forall fx e n,
    payload_pickle_err (PInfo e) = None ->
    stable_class fx (exc_of (ei_exc e)) -> (1 <= n)%nat ->
    exists e', iter_rt fx n e = Some e' /\ essence e' = essence e /\
               payload_pickle_err (PInfo e') = None.
Proof.
  intros fx e n Hp Hs Hn.
  destruct (roundtrip_stable_gen fx e n Hs Hn) as [e' [H1 H2]].
  exists e'. split; [assumption|]. split; [assumption|].
  rewrite (essence_pickle_err e e' H2). assumption.
Qed.

(* ... and conversely a record that does not pickle is never transported: put raises *)
Lemma unpicklable_record_not_sent : forall env n job i ok e r,
    env n = PutOk -> payload_pickle_err (PInfo e) = Some r ->
    do_put env n (MReady job i ok (PInfo e)) = PutExc r.
Proof.
  intros env n job i ok e r He Hp. unfold do_put. rewrite He.
  cbn [msg_pickle_err]. rewrite Hp. reflexivity.
Qed.

(* "picklable" of the statement, for the exception a task raises: pickling it does not raise,
   and its class reproduces it -- a plain class (BaseException.__reduce__) with a well-formed
   __dict__, or MaybeEncodingError as its constructor builds it, when [fx] says that its
   __reduce__ restores the stored strings *)
Definition picklable_exc (fx : bool) (x : pexc) : Prop :=
  exc_pickle_err x = None /\
  match x_cls x with
  | CPlain _ => NoDup (map fst (x_attrs x))
  | CMee => fx = true /\ mee_wf x
  end.

Lemma picklable_stable : forall fx x, picklable_exc fx x -> stable_class fx x.
Proof.
  intros fx x [_ H]. unfold stable_class. destruct (x_cls x); [assumption|apply H].
Qed.

Lemma handle_task_raises_ok : forall mf env n job i t x live text ptb ptext c,
    env n = PutOk -> env (S n) = PutOk ->
    copy_tb mf live = Some c -> exc_pickle_err x = None ->
    handle_task mf env n job i (Raises t x live text) ptb ptext =
    ([MAck job i; MReady job i false (PInfo (mk_ei t (EWT x text) c text false))],
     inr (S (S n))).
Proof.
  intros mf env n job i t x live text ptb ptext c E0 E1 Hc Hp.
  unfold handle_task, do_put. rewrite E0. cbn [msg_pickle_err].
  unfold task_result, mk_einfo. rewrite Hc, E1.
  cbn [msg_pickle_err payload_pickle_err ei_exc exc_of]. rewrite Hp. reflexivity.
Qed.

(* THE MAIN CLAUSE.  A task that raises exception object x of type t (any class: nothing
   distinguishes base exceptions) with live traceback [live] and traceback text [text], where x
   is picklable and the pipe accepts the two messages: the worker sends the ACK and exactly one
   READY for the job, with ok = False, carrying the record e = ExceptionInfo((t, x, live)), and
   goes on with put index n+2.  The record holds the type, the exception (wrapped with the text),
   the text and the copied traceback c = Traceback(live) -- bounded by mf+3 nodes --, and for
   every k >= 1 the k-fold pickle round trip of e (k = 1: what the parent reads) exists, is
   again picklable and has exactly type t, class / args / attributes of x, the text and c. *)
Theorem raising_task_delivered : forall fx mf env n job i t x live text ptb ptext,
    live <> [] ->
    env n = PutOk -> env (S n) = PutOk ->
    picklable_exc fx x ->
    exists c e,
      copy_tb mf live = Some c /\
      (-1 <= mf -> Z.of_nat (length c) <= mf + 3) /\
      mk_einfo mf t x live text false = Some e /\
      e = mk_ei t (EWT x text) c text false /\
      handle_task mf env n job i (Raises t x live text) ptb ptext =
      ([MAck job i; MReady job i false (PInfo e)], inr (S (S n))) /\
      mreadies (fst (handle_task mf env n job i (Raises t x live text) ptb ptext)) = [(job, i)] /\
      forall k, (1 <= k)%nat ->
        exists e', iter_rt fx k e = Some e' /\
                   essence e' = (t, x_cls x, x_args x, x_attrs x, text, c) /\
                   payload_pickle_err (PInfo e') = None.
Proof.
  intros fx mf env n job i t x live text ptb ptext Hl E0 E1 Hx.
  destruct live as [|f r]; [contradiction|].
  pose (c := copy_from mf 0 f r).
  assert (Hc : copy_tb mf (f :: r) = Some c) by reflexivity.
  pose proof (handle_task_raises_ok mf env n job i t x (f :: r) text ptb ptext c E0 E1 Hc (proj1 Hx))
    as Hh.
  exists c, (mk_ei t (EWT x text) c text false).
  split; [exact Hc|].
  split; [intros Hm; exact (proj1 (copy_tb_length mf (f :: r) c Hm Hc))|].
  split; [unfold mk_einfo; rewrite Hc; reflexivity|].
  split; [reflexivity|].
  split; [exact Hh|].
  split; [rewrite Hh; reflexivity|].
  intros k Hk.
  destruct (roundtrip_stable_picklable fx (mk_ei t (EWT x text) c text false) k) as [e' [H1 [H2 H3]]].
  - exact (proj1 Hx).
  - apply picklable_stable. exact Hx.
  - exact Hk.
  - exists e'. split; [exact H1|]. split; [rewrite H2; reflexivity|exact H3].
Qed.

(* the same inside the loop: the two messages, then the rest of the script with completed + 1 *)
Corollary raising_task_in_loop : forall fx mf env mt n job i t x live text ptb ptext rest cpl,
    live <> [] -> env n = PutOk -> env (S n) = PutOk -> picklable_exc fx x ->
    loop_guard mt cpl = true ->
    exists e, mk_einfo mf t x live text false = Some e /\
      run_loop mf env mt (RTask job i (Raises t x live text) ptb ptext :: rest) cpl n =
      ([MAck job i; MReady job i false (PInfo e)] ++ fst (run_loop mf env mt rest (cpl + 1) (S (S n))),
       snd (run_loop mf env mt rest (cpl + 1) (S (S n)))).
Proof.
  intros fx mf env mt n job i t x live text ptb ptext rest cpl Hl E0 E1 Hx Hg.
  destruct (raising_task_delivered fx mf env n job i t x live text ptb ptext Hl E0 E1 Hx)
    as [c [e [_ [_ [He [_ [Hh _]]]]]]].
  exists e. split; [exact He|]. apply loop_continues; assumption.
Qed.

(* THE COMPANION.  The raised exception does not pickle (exc_pickle_err x = Some r: r is the
   repr of what pickle raises), the traceback of that failure is non-empty and the pipe accepts
   three messages: the first READY is not sent, the job is answered by exactly one READY with
   ok = False carrying the MaybeEncodingError record (args = (r, repr of the ExceptionInfo)),
   put index n+3; that record is picklable, and when MaybeEncodingError's __reduce__ restores
   the stored strings (fx = true) it survives every number k >= 1 of round trips. *)
Theorem raising_task_unpicklable : forall fx mf env n job i t x live text ptb ptext r,
    live <> [] -> ptb <> [] ->
    env n = PutOk -> env (S n) = PutOk -> env (S (S n)) = PutOk ->
    exc_pickle_err x = Some r ->
    exists e e2,
      mk_einfo mf t x live text false = Some e /\
      do_put env (S n) (MReady job i false (PInfo e)) = PutExc r /\
      encoding_record mf r (PInfo e) ptb ptext = Some e2 /\
      handle_task mf env n job i (Raises t x live text) ptb ptext =
      ([MAck job i; MReady job i false (PInfo e2)], inr (S (S (S n)))) /\
      mreadies (fst (handle_task mf env n job i (Raises t x live text) ptb ptext)) = [(job, i)] /\
      ei_type e2 = CMee /\
      exc_of (ei_exc e2) = mk_exc CMee [AStr r; AStr einfo_repr]
                                  [(s_exc, AStr r); (s_value, AStr einfo_repr)] /\
      (exists c, copy_tb mf ptb = Some c /\ ei_tb e2 = c) /\
      ei_text e2 = ptext /\
      payload_pickle_err (PInfo e2) = None /\
      (fx = true -> forall k, (1 <= k)%nat ->
         exists e', iter_rt fx k e2 = Some e' /\ essence e' = essence e2 /\
                    payload_pickle_err (PInfo e') = None).
Proof.
  intros fx mf env n job i t x live text ptb ptext r Hl Hp E0 E1 E2 Hx.
  destruct live as [|f rr]; [contradiction|].
  pose (e := mk_ei t (EWT x text) (copy_from mf 0 f rr) text false).
  assert (He : mk_einfo mf t x (f :: rr) text false = Some e) by reflexivity.
  assert (Hres : task_result mf (Raises t x (f :: rr) text) = Some (false, PInfo e))
    by (unfold task_result; rewrite He; reflexivity).
  assert (Hack : do_put env n (MAck job i) = PutOk) by (unfold do_put; rewrite E0; reflexivity).
  assert (Hput : do_put env (S n) (MReady job i false (PInfo e)) = PutExc r)
    by (apply unpicklable_record_not_sent; [exact E1|exact Hx]).
  destruct (encoding_error_path mf env n job i (Raises t x (f :: rr) text) ptb ptext false (PInfo e) r
              Hack Hres Hput Hp E2) as [e2 [G1 [G2 [G3 [G4 [G5 G6]]]]]].
  assert (Hpk : payload_pickle_err (PInfo e2) = None)
    by (cbn [payload_pickle_err]; rewrite G4; reflexivity).
  exists e, e2.
  split; [exact He|]. split; [exact Hput|]. split; [exact G1|]. split; [exact G2|].
  split; [rewrite G2; reflexivity|].
  split; [exact G3|]. split; [exact G4|]. split; [exact G5|]. split; [exact G6|].
  split; [exact Hpk|].
  intros Hfx k Hk. apply roundtrip_stable_picklable; [exact Hpk| |exact Hk].
  unfold stable_class. rewrite G4. exact Hfx.
Qed.

(* ================================================================== *)
(* F. building the record is TOTAL: the reads of the stand-in constructors never raise *)

(* The translator emits HOW every attribute of _Frame / _Code / Traceback is read from the live
   object (K_einfo.frame_reads / code_reads / tb_reads).  Here these reads are executed against a
   live frame whose namespaces are ARBITRARY dicts: [None] = the read raises (AttributeError for an
   attribute the interpreter's objects do not have, KeyError for obj.ns[k] with k missing). *)
Inductive rv := VConst (c : str) | VSlot (a : str) | VCall (a : str) | VSub (c a : str)
              | VNs (v : gval) | VAbsent.

Definition mem_str (a : str) (l : list str) : bool := existsb (str_eqb a) l.
Fixpoint nss_get (l : list (str * ns)) (k : str) : option ns :=
  match l with
  | [] => None
  | (k', v) :: r => if str_eqb k k' then Some v else nss_get r k
  end.

Definition eval_rd (slots : list str) (nss : list (str * ns)) (r : rd) : option rv :=
  match r with
  | RdConst c => Some (VConst c)
  | RdAttr a => if mem_str a slots then Some (VSlot a) else None
  | RdCall a => if mem_str a slots then Some (VCall a) else None
  | RdSub c a => if mem_str a slots then Some (VSub c a) else None
  | RdGet n k d =>
      match nss_get nss n with
      | Some m => Some (VNs (ns_default m k (match d with Some s => GStr s | None => GNone end)))
      | None => None
      end
  | RdIndex n k =>
      match nss_get nss n with
      | Some m => match ns_get m k with Some v => Some (VNs v) | None => None end
      | None => None
      end
  | RdTryIndex n k =>
      match nss_get nss n with
      | Some m => Some (match ns_get m k with Some v => VNs v | None => VAbsent end)
      | None => None
      end
  end.

Definition eval_reads (slots : list str) (nss : list (str * ns))
           (reads : list (list Z * option (list Z) * rd)) : option (list (str * option str * rv)) :=
  all_some (map (fun e => match eval_rd slots nss (snd e) with
                          | Some v => Some (fst e, v)
                          | None => None
                          end) reads).

Fixpoint attr_of (vals : list (str * option str * rv)) (a : str) : option rv :=
  match vals with
  | [] => None
  | (a', None, v) :: r => if str_eqb a a' then Some v else attr_of r a
  | _ :: r => attr_of r a
  end.

Definition gconst (c : str) : gval := if str_eqb c n_None then GNone else GOther c.
(* the dict stored in attribute [a]: its keyed entries, program order *)
Fixpoint dict_of (vals : list (str * option str * rv)) (a : str) : ns :=
  match vals with
  | [] => []
  | (a', Some k, v) :: r =>
      if str_eqb a a' then
        match v with
        | VNs g => (k, g) :: dict_of r a
        | VConst c => (k, gconst c) :: dict_of r a
        | VAbsent => dict_of r a
        | VSlot s | VCall s | VSub _ s => (k, GOther s) :: dict_of r a
        end
      else dict_of r a
  | _ :: r => dict_of r a
  end.

Definition is_slot (v : option rv) (a : str) : bool :=
  match v with Some (VSlot b) => str_eqb a b | _ => false end.
Definition is_sub (v : option rv) (c a : str) : bool :=
  match v with Some (VSub c' b) => str_eqb c c' && str_eqb a b | _ => false end.

(* Traceback node + _Frame + _Code constructors on one live node, as translated on this run:
   every read must succeed, the triple (co_filename, co_name, tb_lineno) must be copied verbatim,
   and the stand-in's f_globals / f_locals are what the keyed reads produced *)
Definition gen_copy_lframe (l : lframe) : option sframe :=
  match eval_reads tb_slots [] K_einfo.tb_reads,
        eval_reads frame_slots [(n_f_globals, lf_globals l); (n_f_locals, lf_locals l)]
                   K_einfo.frame_reads,
        eval_reads code_slots [] K_einfo.code_reads with
  | Some tv, Some fv, Some cv =>
      if is_sub (attr_of tv n_tb_frame) n_Frame n_tb_frame
         && is_slot (attr_of tv n_tb_lineno) n_tb_lineno
         && is_slot (attr_of tv n_tb_lasti) n_tb_lasti
         && is_sub (attr_of fv n_f_code) n_Code n_f_code
         && is_slot (attr_of fv n_f_lineno) n_f_lineno
         && is_slot (attr_of cv n_co_filename) n_co_filename
         && is_slot (attr_of cv n_co_name) n_co_name
      then Some (mk_sf (lf_fr l) (dict_of fv n_f_globals) (dict_of fv n_f_locals))
      else None
  | _, _, _ => None
  end.

(* THE TIE: whatever the live frame's namespaces hold (any key missing), the constructors as
   translated do not raise and build exactly the model's stand-in: a missing __file__ becomes
   "__main__", a missing __name__ becomes None.  (`frame.f_globals["__name__"]` instead of
   `.get("__name__")` is translated to RdIndex and makes this lemma false.) *)
Lemma gen_copy_lframe_eq : forall l, gen_copy_lframe l = Some (copy_lframe l).
Proof.
  intros [fr g lo].
  cbv -[ns_get].
  repeat match goal with
         | |- context [ns_get ?d ?k] => destruct (ns_get d k)
         end; reflexivity.
Qed.

Definition gen_marker_s : option sframe :=
  match gen_marker_frame with
  | Some mk =>
      Some (mk_sf mk (map (fun kv => (fst kv, match snd kv with Some s => GStr s | None => GNone end))
                          K_einfo.marker_globals) [])
  | None => None
  end.
Lemma gen_marker_s_eq : gen_marker_s = Some marker_s.
Proof. reflexivity. Qed.

(* Traceback.__init__ over live nodes with namespaces, executed with the generated guard; a node
   whose constructor raises makes the whole construction raise *)
Fixpoint gen_copy_from_l (m d : pv) (f : lframe) (rest : list lframe) : option (list sframe) :=
  match gen_copy_lframe f with
  | None => None
  | Some sf =>
      match rest with
      | [] => match K_einfo.step false m d with Stop => Some [sf] | _ => None end
      | g :: r =>
          match K_einfo.step true m d with
          | Recurse m' d' =>
              match gen_copy_from_l m' d' g r with Some c => Some (sf :: c) | None => None end
          | Truncate => match gen_marker_s with Some mk => Some [sf; mk] | None => None end
          | _ => None
          end
      end
  end.
Definition gen_copy_ltb_default (reclimit : Z) (tb : list lframe) : option (list sframe) :=
  match tb with
  | [] => None
  | f :: r => gen_copy_from_l (K_einfo.default_max_frames (PInt reclimit)) K_einfo.init_depth f r
  end.

Lemma gen_copy_from_l_eq : forall rest m d f,
    gen_copy_from_l (PInt m) (PInt d) f rest = Some (copy_from_l m d f rest).
Proof.
  induction rest as [|g r IH]; intros m d f.
  - cbn [gen_copy_from_l copy_from_l]. rewrite gen_copy_lframe_eq, gen_step. reflexivity.
  - cbn [gen_copy_from_l copy_from_l]. rewrite gen_copy_lframe_eq, gen_step. unfold tb_step.
    destruct (d <=? m) eqn:E; cbn [emb_action].
    + rewrite IH. reflexivity.
    + rewrite gen_marker_s_eq. reflexivity.
Qed.

Lemma gen_copy_ltb_eq : forall rl tb,
    gen_copy_ltb_default rl tb = copy_ltb (EInfo.default_max_frames rl) tb.
Proof.
  intros rl [|f r]; [reflexivity|].
  unfold gen_copy_ltb_default. rewrite gen_default_max_frames, gen_init_depth.
  apply gen_copy_from_l_eq.
Qed.

(* the (co_filename, co_name, tb_lineno) part of the chain is the chain of section A/B *)
Lemma copy_from_l_proj : forall rest m d f,
    map sf_fr (copy_from_l m d f rest) = copy_from m d (lf_fr f) (map lf_fr rest).
Proof.
  induction rest as [|g r IH]; intros m d f; cbn [copy_from_l copy_from map]; [reflexivity|].
  f_equal. destruct (d <=? m); [apply IH|reflexivity].
Qed.

Lemma copy_ltb_proj : forall m tb c,
    copy_ltb m tb = Some c -> copy_tb m (map lf_fr tb) = Some (map sf_fr c).
Proof.
  intros m [|f r] c H; [discriminate|]. inversion H; subst c. cbn [map copy_tb].
  rewrite copy_from_l_proj. reflexivity.
Qed.

Lemma copy_from_l_spec : forall rest m d f,
    d <= m + 1 ->
    copy_from_l m d f rest =
    map copy_lframe (firstn (Z.to_nat (m + 2 - d)) (f :: rest)) ++
    (if Z.of_nat (length (f :: rest)) >? m + 2 - d then [marker_s] else []).
Proof.
  induction rest as [|g r IH]; intros m d f Hd.
  - cbn [copy_from_l length]. replace (Z.to_nat (m + 2 - d)) with (S (Z.to_nat (m + 1 - d))) by lia.
    cbn [firstn map]. rewrite firstn_nil.
    replace (Z.of_nat 1 >? m + 2 - d) with false by lia. reflexivity.
  - cbn [copy_from_l].
    replace (Z.to_nat (m + 2 - d)) with (S (Z.to_nat (m + 1 - d))) by lia.
    cbn [firstn map app]. f_equal.
    destruct (d <=? m) eqn:E.
    + rewrite IH by lia. replace (m + 2 - (d + 1)) with (m + 1 - d) by lia.
      f_equal. cbn [length].
      destruct (Z.of_nat (S (length r)) >? m + 1 - d) eqn:A;
        destruct (Z.of_nat (S (S (length r))) >? m + 2 - d) eqn:B; try reflexivity; lia.
    + assert (Hz : m + 1 - d = 0) by lia. rewrite Hz. cbn [Z.to_nat firstn map app].
      cbn [length]. replace (Z.of_nat (S (S (length r))) >? m + 2 - d) with true by lia.
      reflexivity.
Qed.

(* every node of the stand-in chain is the copy of the live node at the same position; then
   the marker iff the live chain is longer than m+2 *)
Theorem copy_ltb_spec : forall m tb,
    -1 <= m -> tb <> [] ->
    copy_ltb m tb = Some (map copy_lframe (firstn (Z.to_nat (m + 2)) tb) ++
                          (if Z.of_nat (length tb) >? m + 2 then [marker_s] else [])).
Proof.
  intros m [|f r] Hm Hne; [contradiction|].
  unfold copy_ltb. rewrite copy_from_l_spec by lia.
  replace (m + 2 - 0) with (m + 2) by lia. reflexivity.
Qed.

(* BUILDING THE RECORD NEVER RAISES.  For every non-empty live traceback whose frames have
   arbitrary namespaces (no __name__, no __file__, no __loader__, anything): Traceback(tb) as
   translated on this run returns a chain c; its (file, name, line) part is the chain of the depth
   theorems; node by node it is the model's stand-in of the live node (missing keys became the
   defaults), followed by the marker iff the live chain is longer than limit+2. *)
Theorem record_construction_total : forall rl tb,
    tb <> [] ->
    exists c, gen_copy_ltb_default rl tb = Some c /\
              copy_ltb (EInfo.default_max_frames rl) tb = Some c /\
              copy_tb (EInfo.default_max_frames rl) (map lf_fr tb) = Some (map sf_fr c) /\
              (0 <= rl ->
               c = map copy_lframe (firstn (Z.to_nat (rl / 8 + 2)) tb) ++
                   (if Z.of_nat (length tb) >? rl / 8 + 2 then [marker_s] else [])).
Proof.
  intros rl tb Hne. destruct tb as [|f r]; [contradiction|].
  pose (c := copy_from_l (EInfo.default_max_frames rl) 0 f r).
  assert (Hc : copy_ltb (EInfo.default_max_frames rl) (f :: r) = Some c) by reflexivity.
  exists c. split; [rewrite gen_copy_ltb_eq; exact Hc|]. split; [exact Hc|].
  split; [exact (copy_ltb_proj _ _ _ Hc)|].
  intros Hrl. unfold EInfo.default_max_frames in Hc.
  assert (Hm : -1 <= rl / 8) by (pose proof (Z.div_pos rl 8 Hrl); lia).
  rewrite copy_ltb_spec in Hc by (auto; discriminate). inversion Hc. reflexivity.
Qed.

(* the stand-in of a live node keeps what the property lists and fills what is missing *)
Lemma copy_lframe_keeps : forall l,
    sf_fr (copy_lframe l) = lf_fr l /\
    map fst (sf_globals (copy_lframe l)) = [k_file; k_name; k_loader] /\
    ns_get (sf_globals (copy_lframe l)) k_file =
      Some (match ns_get (lf_globals l) k_file with Some v => v | None => GStr s_main end) /\
    ns_get (sf_globals (copy_lframe l)) k_name =
      Some (match ns_get (lf_globals l) k_name with Some v => v | None => GNone end) /\
    ns_get (sf_globals (copy_lframe l)) k_loader = Some GNone.
Proof. intros [fr g lo]. repeat split; reflexivity. Qed.

(* the main clause of section E with the record construction made explicit: the task's live
   traceback comes with arbitrary frame namespaces; the record is built (no exception escapes the
   worker's handler), and the worker's output is the one of [raising_task_delivered] for the
   projected chain *)
Theorem raising_task_record_total : forall fx rl env n job i t x ltb text ptb ptext,
    ltb <> [] -> env n = PutOk -> env (S n) = PutOk -> picklable_exc fx x ->
    exists c,
      gen_copy_ltb_default rl ltb = Some c /\
      handle_task (EInfo.default_max_frames rl) env n job i (Raises t x (map lf_fr ltb) text) ptb ptext =
      ([MAck job i; MReady job i false (PInfo (mk_ei t (EWT x text) (map sf_fr c) text false))],
       inr (S (S n))) /\
      forall k, (1 <= k)%nat ->
        exists e', iter_rt fx k (mk_ei t (EWT x text) (map sf_fr c) text false) = Some e' /\
                   essence e' = (t, x_cls x, x_args x, x_attrs x, text, map sf_fr c).
Proof.
  intros fx rl env n job i t x ltb text ptb ptext Hne E0 E1 Hx.
  destruct (record_construction_total rl ltb Hne) as [c [G1 [_ [G3 _]]]].
  assert (Hl : map lf_fr ltb <> []) by (destruct ltb; [contradiction|discriminate]).
  destruct (raising_task_delivered fx (EInfo.default_max_frames rl) env n job i t x (map lf_fr ltb)
              text ptb ptext Hl E0 E1 Hx) as [c' [e [H1 [_ [_ [He [Hh [_ Hk]]]]]]]].
  rewrite G3 in H1. inversion H1; subst c'. subst e.
  exists c. split; [exact G1|]. split; [exact Hh|].
  intros k Hk1. destruct (Hk k Hk1) as [e' [A [B _]]]. exists e'. split; assumption.
Qed.

(* ================================================================== *)
(* G. namespace values travel with the record (known finding F-C12-2)    *)

Lemma env_ns_other : forall env n c k, k <> S n -> env_ns env n c k = env k.
Proof.
  intros env n c k H. unfold env_ns. destruct (Nat.eqb k (S n)) eqn:E; [|reflexivity].
  apply Nat.eqb_eq in E. contradiction.
Qed.

Lemma env_ns_clean : forall env n c k, chain_pickle_err c = None -> env_ns env n c k = env k.
Proof.
  intros env n c k H. unfold env_ns. rewrite H. destruct (Nat.eqb k (S n)); [|reflexivity].
  destruct (env k); reflexivity.
Qed.

(* the strongest true statement: when every namespace value the stand-ins hold pickles, the task's
   own exception is delivered exactly as in [raising_task_delivered] *)
Theorem own_exception_delivered_partial : forall fx rl env n job i t x ltb text ptb ptext c,
    copy_ltb (EInfo.default_max_frames rl) ltb = Some c -> chain_pickle_err c = None ->
    env n = PutOk -> env (S n) = PutOk -> picklable_exc fx x ->
    handle_task_ns rl env n job i t x ltb text ptb ptext =
    ([MAck job i; MReady job i false (PInfo (mk_ei t (EWT x text) (map sf_fr c) text false))],
     inr (S (S n))).
Proof.
  intros fx rl env n job i t x ltb text ptb ptext c Hc Hp E0 E1 Hx.
  unfold handle_task_ns. rewrite Hc.
  apply handle_task_raises_ok.
  - rewrite env_ns_clean by assumption. exact E0.
  - rewrite env_ns_clean by assumption. exact E1.
  - exact (copy_ltb_proj _ _ _ Hc).
  - exact (proj1 Hx).
Qed.

(* ... and when one of them does not: whatever the task's exception is (however picklable), the
   first READY is not sent and the job is answered by the MaybeEncodingError record -- type and
   arguments of the task's own exception do not reach the caller *)
Theorem ns_unpicklable_reported_as_encoding_error :
  forall rl env n job i t x ltb text ptb ptext c r,
    copy_ltb (EInfo.default_max_frames rl) ltb = Some c -> chain_pickle_err c = Some r ->
    ptb <> [] -> env n = PutOk -> env (S n) = PutOk -> env (S (S n)) = PutOk ->
    exists e2,
      handle_task_ns rl env n job i t x ltb text ptb ptext =
      ([MAck job i; MReady job i false (PInfo e2)], inr (S (S (S n)))) /\
      ei_type e2 = CMee /\
      exc_of (ei_exc e2) = mk_exc CMee [AStr r; AStr einfo_repr]
                                  [(s_exc, AStr r); (s_value, AStr einfo_repr)].
Proof.
  intros rl env n job i t x ltb text ptb ptext c r Hc Hr Hp E0 E1 E2.
  unfold handle_task_ns. rewrite Hc.
  pose (env' := env_ns env n c).
  pose (e := mk_ei t (EWT x text) (map sf_fr c) text false).
  assert (Hres : task_result (EInfo.default_max_frames rl) (Raises t x (map lf_fr ltb) text)
                 = Some (false, PInfo e)).
  { unfold task_result, mk_einfo. rewrite (copy_ltb_proj _ _ _ Hc). reflexivity. }
  assert (Hack : do_put env' n (MAck job i) = PutOk).
  { unfold do_put, env'. rewrite env_ns_other by lia. rewrite E0. reflexivity. }
  assert (Hput : do_put env' (S n) (MReady job i false (PInfo e)) = PutExc r).
  { unfold do_put, env', env_ns. rewrite Nat.eqb_refl, E1, Hr. reflexivity. }
  assert (H2 : env' (S (S n)) = PutOk).
  { unfold env'. rewrite env_ns_other by lia. exact E2. }
  destruct (encoding_error_path (EInfo.default_max_frames rl) env' n job i
              (Raises t x (map lf_fr ltb) text) ptb ptext false (PInfo e) r Hack Hres Hput Hp H2)
    as [e2 [_ [G2 [G3 [G4 _]]]]].
  exists e2. split; [exact G2|]. split; [exact G3|exact G4].
Qed.
