(* C17: proofs about the Condition / Event programs (Model/CondProg.v) under the
   interleaving semantics of Model/SemProg.v. *)
From Coq Require Import ZArith List Bool Lia ZifyBool Arith.
From BV Require Import Model.SemProg Model.CondProg Gen.P_cond.
Import ListNotations.
Open Scope Z_scope.

(* ------------------------------------------------------------------ Gen = Model *)
Lemma gen_code_eq : forall c, P_cond.code c = CondProg.code c.
Proof.
  intro c. do 17 (destruct c as [|c]; [reflexivity|]). reflexivity.
Qed.

Lemma gen_ctors_eq :
  P_cond.ctor_Lock = CondProg.ctor_Lock /\ P_cond.ctor_RLock = CondProg.ctor_RLock /\
  (forall v, P_cond.ctor_Semaphore v = CondProg.ctor_Semaphore v) /\
  (forall v, P_cond.ctor_BoundedSemaphore v = CondProg.ctor_BoundedSemaphore v) /\
  (forall l, P_cond.ctor_Condition l = CondProg.ctor_Condition l) /\
  P_cond.ctor_Condition_default = CondProg.ctor_Condition_default /\
  P_cond.ctor_Event = CondProg.ctor_Event.
Proof. repeat split; reflexivity. Qed.
