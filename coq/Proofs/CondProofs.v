(* C17: proofs about the Condition / Event programs (Model/CondProg.v) under the
   interleaving semantics of Model/SemProg.v. *)
From Coq Require Import ZArith List Bool Lia ZifyBool Arith.
From BV Require Import Model.SemProg Model.CondProg Proofs.SemProgProofs.
From BV Require Gen.P_cond.
Import ListNotations.
Open Scope Z_scope.

(* ------------------------------------------------------------------ Gen = Model *)
Lemma gen_code_eq : forall c, P_cond.code c = CondProg.code c.
Proof.
  intro c. do 17 (destruct c as [|c]; [reflexivity|]). reflexivity.
Qed.

Lemma gen_ctors_eq :
  P_cond.ctor_Lock = CondProg.ctor_Lock /\ P_cond.ctor_RLock = CondProg.ctor_RLock /\
  (forall v, P_cond.ctor_Semaphore v = CondProg.ctor_Semaphore v) /\
  (forall v, P_cond.ctor_BoundedSemaphore v = CondProg.ctor_BoundedSemaphore v) /\
  (forall l, P_cond.ctor_Condition l = CondProg.ctor_Condition l) /\
  P_cond.ctor_Condition_default = CondProg.ctor_Condition_default /\
  P_cond.ctor_Event = CondProg.ctor_Event.
Proof. repeat split; reflexivity. Qed.



(* ================================================================== invariant *)

Notation code := CondProg.code.
Local Open Scope nat_scope.

(* ------------------------------------------------------------------ weights by (call, pc, registers) *)
(* holds the condition's lock *)
Definition w_hl (c p : nat) : Z :=
  match c, p with
  | 0, (2|6|17) => 1%Z
  | 1, (2|4|6|9|11|12|13|14) => 1%Z
  | 2, (2|4|6|10|12|18|21|24) => 1%Z
  | 3, (1|3|4|7) => 1%Z
  | 4, (1|2|4|6|8|12|14|20|23|26) => 1%Z
  | 5, (1|2) => 1%Z
  | 6, (1|3|6|10|21|23|24|27) => 1%Z
  | _, _ => 0%Z
  end.
(* in the wait window: announced (S released), not yet acknowledged (W released) *)
Definition w_win (c p : nat) : Z :=
  match c, p with
  | 0, (6|9|10) => 1%Z
  | 6, (10|13|14) => 1%Z
  | _, _ => 0%Z
  end.
(* sleepers grabbed from S whose acknowledgement has not been collected from W *)
Definition w_pend (c p : nat) (r : regs) : Z :=
  match c, p with
  | 1, 6 => (-1)%Z
  | 1, (11|12) => 1%Z
  | 2, 6 => (-1)%Z
  | 2, 10 => r3 r
  | 2, 12 => (r3 r + 1)%Z
  | 2, 18 => (r3 r - r4 r)%Z
  | 4, 8 => (-1)%Z
  | 4, 12 => r3 r
  | 4, 14 => (r3 r + 1)%Z
  | 4, 20 => (r3 r - r4 r)%Z
  | _, _ => 0%Z
  end.
(* tokens this notifier may still have outstanding in the wait semaphore *)
Definition w_ntok (c p : nat) (r : regs) : Z :=
  match c, p with
  | 1, (12|13) => 1%Z
  | 2, (10|12|18|21) => r3 r
  | 4, (12|14|20|23) => r3 r
  | _, _ => 0%Z
  end.
(* has taken the event flag and will put it back / set it *)
Definition w_fh (c p : nat) : Z :=
  match c, p with
  | 3, 3 => 1%Z
  | 4, 2 => 1%Z
  | 6, (3|23) => 1%Z
  | _, _ => 0%Z
  end.
(* a notify_all past its grabbing loop: the sleeping count is zero *)
Definition w_sz (c p : nat) : Z :=
  match c, p with
  | 2, (18|21|24) => 1%Z
  | 4, (20|23|26) => 1%Z
  | _, _ => 0%Z
  end.
Local Close Scope nat_scope.

Definition t_hl (t : thread) : Z := if fin t then 0 else w_hl (cid t) (pc t).
Definition t_win (t : thread) : Z := if fin t then 0 else w_win (cid t) (pc t).
Definition t_pend (t : thread) : Z := if fin t then 0 else w_pend (cid t) (pc t) (rg t).
Definition t_ntok (t : thread) : Z := if fin t then 0 else w_ntok (cid t) (pc t) (rg t).
Definition t_fh (t : thread) : Z := if fin t then 0 else w_fh (cid t) (pc t).
Definition t_sz (t : thread) : Z := if fin t then 0 else w_sz (cid t) (pc t).

(* ------------------------------------------------------------------ per-thread invariant *)
Definition okcall (c : call) : Prop := (fst (fst c) <= 14)%nat.

(* results of finished calls: wait returns a boolean, True when untimed; notify, notify_all,
   set, clear return None (no exception); is_set and Event.wait return a boolean *)
Definition okres (x : call * Z) : Prop :=
  let '((c, a0, _), v) := x in
  match c with
  | 0%nat => (v = 0 \/ v = 1) /\ (a0 = 0 -> v = 1)
  | 1%nat | 2%nat | 4%nat | 5%nat => v = V_NONE
  | 3%nat | 6%nat => v = 0 \/ v = 1
  | _ => True
  end.

Definition res2 (r : regs) : Prop := (r2 r = 0 \/ r2 r = 1) /\ (r0 r = 0 -> r2 r = 1).

Local Open Scope nat_scope.
Definition li_pc (c p : nat) (r : regs) (h : Z) : Prop :=
  match c, p with
  | 0, 0 => h = 0%Z
  | 0, 2 => h = 1%Z
  | 0, 6 => h = 1%Z /\ r3 r = 1%Z /\ r4 r = 0%Z
  | 0, 9 => h = 0%Z /\ r3 r = 1%Z
  | 0, 10 => h = 0%Z /\ r3 r = 1%Z /\ res2 r
  | 0, 13 => h = 0%Z /\ r3 r = 1%Z /\ r4 r = 0%Z /\ res2 r
  | 0, 17 => h = 1%Z /\ res2 r
  | 1, 0 => h = 0%Z
  | 1, (2|4|6|9|11|12|13|14) => h = 1%Z
  | 2, 0 => h = 0%Z
  | 2, (2|4|6|24) => h = 1%Z
  | 2, (10|12|21) => h = 1%Z /\ (0 <= r3 r)%Z
  | 2, 18 => h = 1%Z /\ (0 <= r4 r < r3 r)%Z
  | 3, 0 => h = 0%Z
  | 3, (1|3|4|7) => h = 1%Z
  | 4, 0 => h = 0%Z
  | 4, (1|2|4|6|8|26) => h = 1%Z
  | 4, (12|14|23) => h = 1%Z /\ (0 <= r3 r)%Z
  | 4, 20 => h = 1%Z /\ (0 <= r4 r < r3 r)%Z
  | 5, 0 => h = 0%Z
  | 5, (1|2) => h = 1%Z
  | 6, 0 => h = 0%Z
  | 6, (1|3|6|21|23|24|27) => h = 1%Z
  | 6, 10 => h = 1%Z /\ r3 r = 1%Z /\ r4 r = 0%Z
  | 6, (13|14) => h = 0%Z /\ r3 r = 1%Z
  | 6, 17 => h = 0%Z /\ r3 r = 1%Z /\ r4 r = 0%Z
  | (7|8|9|10|11|12|13|14), 0 => h = 0%Z
  | _, _ => False
  end.
Local Close Scope nat_scope.

Definition LI (t : thread) : Prop :=
  Forall okcall (script t) /\ Forall okres (results t) /\
  if fin t then nth 0 (held t) 0 = 0
  else r0 (rg t) = snd (fst (cur t)) /\ li_pc (cid t) (pc t) (rg t) (nth 0 (held t) 0).

(* ------------------------------------------------------------------ global invariant *)
Definition SVM : Z := 2147483647.
Definition vv (s : nat) (g : sys) : Z := val (nth s (sems g) dsem).

Definition shape (ss : list sem) : Prop :=
  maxv (nth 0 ss dsem) = 1 /\
  (forall s, (1 <= s <= 4)%nat -> recur (nth s ss dsem) = false /\ maxv (nth s ss dsem) = SVM).

Record Inv (g : sys) : Prop := mkInv {
  i_shape : shape (sems g);
  i_li : forall t, In t (thr g) -> LI t;
  i_lock : vv 0 g + sumz t_hl (thr g) = 1;
  i_lock0 : 0 <= vv 0 g;
  i_count : vv 1 g - vv 2 g + sumz t_pend (thr g) = sumz t_win (thr g);
  i_s0 : 0 <= vv 1 g;
  i_w0 : 0 <= vv 2 g;
  i_tok : 0 <= vv 3 g <= sumz t_ntok (thr g);
  i_flag : 0 <= vv 4 g /\ vv 4 g + sumz t_fh (thr g) <= 1;
  i_sz : 0 < sumz t_sz (thr g) -> vv 1 g = 0
}.

(* the counters stay below SEM_VALUE_MAX (otherwise release raises ValueError) *)
Definition small (g : sys) : Prop := vv 1 g < SVM /\ vv 2 g < SVM /\ vv 3 g < SVM.

Ltac dn x n := match n with O => idtac | S ?m => destruct x as [|x]; [|dn x m] end.

Lemma w_hl_01 : forall c p, 0 <= w_hl c p <= 1.
Proof. intros c p. dn c 16%nat; dn p 28%nat; cbn; lia. Qed.
Lemma w_win_01 : forall c p, 0 <= w_win c p <= 1.
Proof. intros c p. dn c 16%nat; dn p 28%nat; cbn; lia. Qed.
Lemma w_fh_01 : forall c p, 0 <= w_fh c p <= 1.
Proof. intros c p. dn c 16%nat; dn p 28%nat; cbn; lia. Qed.
Lemma w_sz_01 : forall c p, 0 <= w_sz c p <= 1.
Proof. intros c p. dn c 16%nat; dn p 28%nat; cbn; lia. Qed.

Lemma w_excl : forall c p r, w_hl c p <= 0 ->
    w_pend c p r = 0 /\ w_ntok c p r = 0 /\ w_fh c p = 0 /\ w_sz c p = 0.
Proof. intros c p r. dn c 16%nat; dn p 28%nat; cbn; intros; repeat split; lia. Qed.

Lemma t_hl_01 : forall t, 0 <= t_hl t <= 1.
Proof. intros t. unfold t_hl. destruct (fin t); [lia|apply w_hl_01]. Qed.
Lemma t_win_01 : forall t, 0 <= t_win t <= 1.
Proof. intros t. unfold t_win. destruct (fin t); [lia|apply w_win_01]. Qed.
Lemma t_fh_01 : forall t, 0 <= t_fh t <= 1.
Proof. intros t. unfold t_fh. destruct (fin t); [lia|apply w_fh_01]. Qed.
Lemma t_sz_01 : forall t, 0 <= t_sz t <= 1.
Proof. intros t. unfold t_sz. destruct (fin t); [lia|apply w_sz_01]. Qed.

Lemma t_excl : forall t, t_hl t <= 0 ->
    t_pend t = 0 /\ t_ntok t = 0 /\ t_fh t = 0 /\ t_sz t = 0.
Proof.
  intros t. unfold t_hl, t_pend, t_ntok, t_fh, t_sz. destruct (fin t); [auto|apply w_excl].
Qed.

(* a thread starting a call stands at pc 0 with all weights 0 *)
Lemma start_cons : forall c a0 a1 sc h res, (c <= 14)%nat ->
    start code h res ((c, a0, a1) :: sc) = mkT (c, a0, a1) 0 (init_regs a0 a1) h sc res false.
Proof.
  intros c a0 a1 sc h res Hc. dn c 15%nat; try reflexivity. lia.
Qed.

Lemma w_at0 : forall c r, (c <= 14)%nat ->
    w_hl c 0 = 0 /\ w_win c 0 = 0 /\ w_pend c 0 r = 0 /\ w_ntok c 0 r = 0 /\ w_fh c 0 = 0 /\ w_sz c 0 = 0.
Proof. intros c r Hc. dn c 15%nat; cbn; repeat split; lia. Qed.

Lemma li_at0 : forall c r, (c <= 14)%nat -> li_pc c 0 r 0.
Proof. intros c r Hc. dn c 15%nat; cbn; auto. lia. Qed.

Lemma start_facts : forall sc h res,
    Forall okcall sc -> Forall okres res -> nth 0 h 0 = 0 ->
    let t := start code h res sc in
    LI t /\ t_hl t = 0 /\ t_win t = 0 /\ t_pend t = 0 /\ t_ntok t = 0 /\ t_fh t = 0 /\ t_sz t = 0.
Proof.
  intros [|[[c a0] a1] sc] h res Hsc Hres Hh.
  - cbn. unfold LI; cbn. repeat split; auto.
  - inversion Hsc as [|x l Hc Hsc']; subst. unfold okcall in Hc; cbn in Hc.
    rewrite start_cons by auto.
    destruct (w_at0 c (init_regs a0 a1) Hc) as (A & B & C & D & E & F).
    unfold LI, t_hl, t_win, t_pend, t_ntok, t_fh, t_sz, cid; cbn [fin script results rg cur pc held fst snd].
    rewrite Hh. repeat split; auto. apply li_at0; auto.
Qed.

Lemma shape_upds : forall ss s sm', shape ss ->
    maxv sm' = maxv (nth s ss dsem) -> recur sm' = recur (nth s ss dsem) -> shape (upds ss s sm').
Proof.
  intros ss s sm' [H0 H14] Hm Hr. split.
  - destruct (Nat.eq_dec s 0) as [E|E]; [subst; rewrite nth_upds_same; congruence|].
    rewrite nth_upds_other by auto. auto.
  - intros k Hk. destruct (Nat.eq_dec s k) as [E|E].
    + subst. rewrite nth_upds_same. destruct (H14 k Hk). split; congruence.
    + rewrite nth_upds_other by auto. auto.
Qed.

Lemma li_upd : forall (l : list thread) i t', (forall u, In u l -> LI u) -> LI t' ->
    forall u, In u (upd l i t') -> LI u.
Proof. intros l i t' Hl Ht u Hu. destruct (In_upd _ _ _ _ _ Hu); subst; auto. Qed.

Ltac simp_in H :=
  cbn [advance abort run_local nth_error code p_c_wait p_c_notify p_c_notify_all p_e_is_set p_e_set
       p_e_clear p_e_wait p_u_acquire p_u_release p_ub_acquire p_ub_release p_ul_acquire p_ul_release
       p_ur_acquire p_ur_release p_c_wait2 getr setr rvv flagv init_regs r0 r1 r2 r3 r4 r5 r6 r7
       rg cur pc held script results fin cid fst snd negb andb orb FUEL] in H.
Ltac simp :=
  cbn [advance abort run_local nth_error code p_c_wait p_c_notify p_c_notify_all p_e_is_set p_e_set
       p_e_clear p_e_wait p_u_acquire p_u_release p_ub_acquire p_ub_release p_ul_acquire p_ul_release
       p_ur_acquire p_ur_release p_c_wait2 getr setr rvv flagv init_regs r0 r1 r2 r3 r4 r5 r6 r7
       rg cur pc held script results fin cid fst snd negb andb orb FUEL].


Opaque upds updz upd.

Lemma inv_upd : forall g i t t' ss',
    Inv g -> nth_error (thr g) i = Some t -> shape ss' -> LI t' ->
    val (nth 0 ss' dsem) + (sumz t_hl (thr g) - t_hl t + t_hl t') = 1 ->
    0 <= val (nth 0 ss' dsem) ->
    val (nth 1 ss' dsem) - val (nth 2 ss' dsem) + (sumz t_pend (thr g) - t_pend t + t_pend t')
      = sumz t_win (thr g) - t_win t + t_win t' ->
    0 <= val (nth 1 ss' dsem) -> 0 <= val (nth 2 ss' dsem) ->
    0 <= val (nth 3 ss' dsem) <= sumz t_ntok (thr g) - t_ntok t + t_ntok t' ->
    (0 <= val (nth 4 ss' dsem) /\ val (nth 4 ss' dsem) + (sumz t_fh (thr g) - t_fh t + t_fh t') <= 1) ->
    (0 < sumz t_sz (thr g) - t_sz t + t_sz t' -> val (nth 1 ss' dsem) = 0) ->
    Inv (mkS ss' (upd (thr g) i t')).
Proof.
  intros g i t t' ss' HI Ht Hsh Hli H1 H2 H3 H4 H5 H6 H7 H8.
  constructor; unfold vv; cbn [sems thr]; rewrite ?(sumz_upd _ _ _ _ _ _ Ht); auto.
  apply li_upd; auto. apply (i_li g HI).
Qed.


Lemma inv_upd2 : forall g i t t' ss',
    Inv g -> nth_error (thr g) i = Some t -> shape ss' -> LI t' ->
    (val (nth 0 ss' dsem) + (sumz t_hl (thr g) - t_hl t + t_hl t') = 1 /\
    0 <= val (nth 0 ss' dsem) /\
    val (nth 1 ss' dsem) - val (nth 2 ss' dsem) + (sumz t_pend (thr g) - t_pend t + t_pend t')
      = sumz t_win (thr g) - t_win t + t_win t' /\
    0 <= val (nth 1 ss' dsem) /\ 0 <= val (nth 2 ss' dsem) /\
    0 <= val (nth 3 ss' dsem) <= sumz t_ntok (thr g) - t_ntok t + t_ntok t' /\
    (0 <= val (nth 4 ss' dsem) /\ val (nth 4 ss' dsem) + (sumz t_fh (thr g) - t_fh t + t_fh t') <= 1) /\
    (0 < sumz t_sz (thr g) - t_sz t + t_sz t' -> val (nth 1 ss' dsem) = 0)) ->
    Inv (mkS ss' (upd (thr g) i t')).
Proof.
  intros g i t t' ss' HI Ht Hsh Hli (H1 & H2 & H3 & H4 & H5 & H6 & H7 & H8).
  eapply inv_upd; eauto.
Qed.

(* ------------------------------------------------------------------ event flag and call results *)
Definition aflag (g : sys) : Z := vv 4 g + sumz t_fh (thr g).

Definition at_ (t : thread) (c p : nat) : bool :=
  negb (fin t) && Nat.eqb (cid t) c && Nat.eqb (pc t) p.

Local Open Scope nat_scope.
(* the value the call in progress is going to return, once that is decided *)
Definition pending (t : thread) : option Z :=
  if fin t then None else
  match cid t, pc t with
  | 0, (10|13|17) => Some (r2 (rg t))
  | 3, (3|4) => Some 1%Z
  | 3, 7 => Some 0%Z
  | 6, (23|24) => Some 1%Z
  | 6, 27 => Some 0%Z
  | _, _ => None
  end.
Local Close Scope nat_scope.

Definition thread_at (g : sys) (i : nat) : thread :=
  nth i (thr g) (mkT dcall 0 (init_regs 0 0) [] [] [] true).

(* how one step changes the abstract flag, and what the reads of the flag return *)
Definition flag_spec (i : nat) (t : thread) (g g' : sys) (e : event) : Prop :=
  aflag g' = (if at_ t 4 1 then 1 else if at_ t 5 1 then 0 else aflag g) /\
  (at_ t 3 1 || at_ t 6 1 || at_ t 6 21 = true -> e = (i, 4%nat, 0, aflag g)) /\
  (at_ t 3 1 || at_ t 6 21 = true -> pending (thread_at g' i) = Some (aflag g)) /\
  (at_ t 0 9 = true -> pending (thread_at g' i) = Some (snd e)).

(* a decided result stays decided and is what the call returns *)
Definition res_spec (t t' : thread) : Prop :=
  match pending t with
  | Some v => (fin t' = false /\ cur t' = cur t /\ script t' = script t /\ results t' = results t /\ pending t' = Some v)
              \/ results t' = (cur t, v) :: results t
  | None => True
  end.

Lemma thread_at_upd : forall g ss i t t', nth_error (thr g) i = Some t ->
    thread_at (mkS ss (upd (thr g) i t')) i = t'.
Proof.
  intros g ss i t t' Ht. unfold thread_at; cbn [thr].
  apply nth_error_nth. eapply nth_error_upd_same; eauto.
Qed.

Lemma pending_start : forall sc h res, Forall okcall sc -> pending (start code h res sc) = None.
Proof.
  intros [|[[c a0] a1] sc] h res Hs; [reflexivity|].
  inversion Hs as [|x l Hc Hs']; subst. unfold okcall in Hc; cbn in Hc.
  rewrite start_cons by auto. unfold pending, cid; cbn [fin cur fst pc].
  dn c 15%nat; reflexivity.
Qed.

Lemma results_start : forall sc h res, Forall okcall sc -> results (start code h res sc) = res.
Proof.
  intros [|[[c a0] a1] sc] h res Hs; [reflexivity|].
  inversion Hs as [|x l Hc Hs']; subst. unfold okcall in Hc; cbn in Hc.
  rewrite start_cons by auto. reflexivity.
Qed.

Ltac simpw :=
  cbn [t_hl t_win t_pend t_ntok t_fh t_sz w_hl w_win w_pend w_ntok w_fh w_sz
       r0 r1 r2 r3 r4 r5 r6 r7 rg cur pc held script results fin cid fst snd val set_val maxv recur] in *.

Ltac fin_if :=
  repeat (simp; match goal with
    | |- context [if ?b then _ else _] =>
        first [ let v := eval vm_compute in b in
                lazymatch v with true => change b with true | false => change b with false end
              | destruct b eqn:? ]
    end); simp.

Ltac split_all := repeat match goal with H : _ /\ _ |- _ => destruct H end.



Ltac destr_H H :=
  repeat match type of H with
         | context [if ?b then _ else _] => destruct b eqn:?
         | context [match ?x with _ => _ end] => destruct x eqn:?
         end.

Ltac norm_held :=
  rewrite ?nth_updz_same, ?nth_updz_other by discriminate;
  repeat match goal with Hh : nth 0 ?h 0 = _ |- _ => rewrite ?Hh end.

Ltac solve_start Hsc Hrs :=
  match goal with
  | |- context [start code ?h' ?res' ?sc'] =>
      let SF := fresh "SF" in
      assert (SF : LI (start code h' res' sc') /\ t_hl (start code h' res' sc') = 0 /\
                   t_win (start code h' res' sc') = 0 /\ t_pend (start code h' res' sc') = 0 /\
                   t_ntok (start code h' res' sc') = 0 /\ t_fh (start code h' res' sc') = 0 /\
                   t_sz (start code h' res' sc') = 0);
      [ apply start_facts;
        [ exact Hsc
        | first [ exact Hrs | constructor; [cbn [okres]; unfold V_NONE; repeat split; auto; try lia | exact Hrs] ]
        | norm_held; try reflexivity; try lia ]
      | destruct SF as (SF0 & SF1 & SF2 & SF3 & SF4 & SF5 & SF6) ]
  end.

Ltac finish_inv HI Ht :=
  eapply (inv_upd2 _ _ _ _ _ HI Ht);
  [ first [ exact (i_shape _ HI) | apply shape_upds; [exact (i_shape _ HI) | reflexivity | reflexivity] ]
  | first [ assumption | unfold LI; simp; cbn [li_pc]; unfold res2; simp; norm_held; repeat split; auto; try lia ]
  | rewrite ?nth_upds_same, ?nth_upds_other by discriminate;
    cbn [t_hl t_win t_pend t_ntok t_fh t_sz w_hl w_win w_pend w_ntok w_fh w_sz
         r0 r1 r2 r3 r4 r5 r6 r7 rg cur pc held script results fin cid fst snd val set_val maxv recur];
    repeat match goal with E : _ (start code _ _ _) = 0 |- _ => rewrite ?E end;
    lia ].

Ltac finish_fs Ht Hsc :=
  unfold flag_spec, res_spec, aflag, vv; cbn [sems thr];
  rewrite (thread_at_upd _ _ _ _ _ Ht);
  rewrite (sumz_upd _ t_fh _ _ _ _ Ht);
  rewrite ?nth_upds_same, ?nth_upds_other by discriminate;
  rewrite ?(pending_start _ _ _ Hsc), ?(results_start _ _ _ Hsc);
  repeat match goal with E : t_fh (start code _ _ _) = 0 |- _ => rewrite ?E end;
  unfold at_, pending; simpw; cbn [Nat.eqb andb negb orb];
  repeat split; intros; try discriminate; try lia; auto;
  try (repeat f_equal; lia);
  try solve [left; repeat split; reflexivity | right; reflexivity].

(* THE step lemma: the invariant is inductive (so no assertion of notify / notify_all can
   fail and no semaphore operation of Condition / Event raises), the abstract event flag
   changes only at set / clear, reads return it, decided results are returned. *)

Lemma step_spec : forall g i go g' e t, Inv g -> small g -> nth_error (thr g) i = Some t ->
    step code g i go = Some (g', e) ->
    Inv g' /\ flag_spec i t g g' e /\ res_spec t (thread_at g' i).
Proof.
  intros g i go g' e t HI Hsm Ht H.
  unfold step in H. rewrite Ht in H.
  destruct (fin t) eqn:Hf; [discriminate|].
  pose proof (i_li g HI t (nth_error_In _ _ Ht)) as Hli.
  destruct (i_shape g HI) as [HmL H14].
  destruct (H14 1%nat ltac:(lia)) as [Hr1 Hm1]. destruct (H14 2%nat ltac:(lia)) as [Hr2 Hm2].
  destruct (H14 3%nat ltac:(lia)) as [Hr3 Hm3]. destruct (H14 4%nat ltac:(lia)) as [Hr4 Hm4].
  pose proof (i_lock g HI) as Ilock. pose proof (i_lock0 g HI) as Ilock0.
  pose proof (i_count g HI) as Icount. pose proof (i_s0 g HI) as Is0. pose proof (i_w0 g HI) as Iw0.
  pose proof (i_tok g HI) as Itok. pose proof (i_flag g HI) as Iflag. pose proof (i_sz g HI) as Isz.
  destruct Hsm as (Hs1 & Hs2 & Hs3). unfold vv, SVM in *.
  assert (Hge : t_hl t <= sumz t_hl (thr g)) by (eapply sumz_ge_elem; eauto; intros; apply t_hl_01).
  assert (Hgw : t_win t <= sumz t_win (thr g)) by (eapply sumz_ge_elem; eauto; intros; apply t_win_01).
  assert (Hgn : 0 <= sumz t_win (thr g)) by (apply sumz_nonneg; intros; apply t_win_01).
  assert (Hgf : 0 <= sumz t_fh (thr g)) by (apply sumz_nonneg; intros; apply t_fh_01).
  assert (Hgz : 0 <= sumz t_sz (thr g)) by (apply sumz_nonneg; intros; apply t_sz_01).
  assert (Hex : 1 <= t_hl t -> sumz t_pend (thr g) = t_pend t /\ sumz t_ntok (thr g) = t_ntok t /\
                               sumz t_fh (thr g) = t_fh t /\ sumz t_sz (thr g) = t_sz t).
  { intros H1. repeat split; eapply (sumz_excl _ t_hl); eauto; try (intros; apply t_hl_01); try lia;
      intros x Hx; apply (t_excl x Hx). }
  assert (Hex0 : t_hl t <= 0 -> t_pend t = 0 /\ t_ntok t = 0 /\ t_fh t = 0 /\ t_sz t = 0) by apply t_excl.
  destruct t as [[[c a0] a1] p [x0 x1 x2 x3 x4 x5 x6 x7] h sc rs f]. cbn [fin] in Hf; subst f.
  unfold LI in Hli; cbn [fin script results rg cur pc held cid fst snd] in Hli.
  destruct Hli as (Hsc & Hrs & Hr0 & Hpc).
  unfold cid in H; cbn [cur fst pc rg held] in H.
  dn c 15%nat; dn p 28%nat; cbn in Hpc; try contradiction.
  all: simpw; unfold res2 in *; simpw; split_all.
  all: first [ specialize (Hex ltac:(lia)); clear Hex0 | specialize (Hex0 ltac:(lia)); clear Hex ]; split_all.
  all: simp_in H; unfold sem_acq, sem_rel in H;
    rewrite ?Hr1, ?Hr2, ?Hr3, ?Hr4, ?Hm1, ?Hm2, ?Hm3, ?Hm4, ?HmL in H; cbn [andb] in H;
    destr_H H; try discriminate.
  all: clear Hr1 Hr2 Hr3 Hr4 Hm1 Hm2 Hm3 Hm4 HmL H14.
  all: try (exfalso; lia).
  all: inversion H; subst g' e; clear H.
  all: unfold advance, abort; simp; norm_held; fin_if.
  all: try solve_start Hsc Hrs.


  all: (split; [solve [finish_inv HI Ht] | ]).
  all: solve [finish_fs Ht Hsc].
Qed.

Lemma inv_step : forall g i go g' e, Inv g -> small g -> step code g i go = Some (g', e) -> Inv g'.
Proof.
  intros g i go g' e HI Hsm H.
  destruct (nth_error (thr g) i) as [t|] eqn:Ht.
  - exact (proj1 (step_spec g i go g' e t HI Hsm Ht H)).
  - unfold step in H. rewrite Ht in H. discriminate.
Qed.

Fixpoint run_small (g : sys) (sched : list (nat * bool)) : Prop :=
  small g /\
  match sched with
  | [] => True
  | (i, go) :: r => match step code g i go with Some (g1, _) => run_small g1 r | None => True end
  end.

Lemma inv_run : forall sched g g' es ok,
    Inv g -> run_small g sched -> run code g sched = (g', es, ok) -> Inv g'.
Proof.
  induction sched as [|[i go] sched IH]; intros g g' es ok HI Hs H; cbn [run] in H.
  - inversion H; subst; auto.
  - cbn [run_small] in Hs. destruct Hs as [Hsm Hs].
    destruct (step code g i go) as [[g1 e]|] eqn:Es.
    + destruct (run code g1 sched) as [[g2 es2] ok2] eqn:Er. inversion H; subst.
      apply (IH g1 g' es2 ok); auto. eapply inv_step; eauto.
    + inversion H; subst; auto.
Qed.

Lemma inv_init : forall lockrec k scripts,
    Forall (Forall okcall) scripts -> Inv (init lockrec k scripts).
Proof.
  intros lockrec k scripts Hs. unfold init, init_sys.
  assert (Hall : forall t, In t (map (start code [] []) scripts) ->
                 LI t /\ t_hl t = 0 /\ t_win t = 0 /\ t_pend t = 0 /\ t_ntok t = 0 /\ t_fh t = 0 /\ t_sz t = 0).
  { intros t Ht. apply in_map_iff in Ht. destruct Ht as [sc [E Hin]]. subst t.
    apply start_facts; auto. rewrite Forall_forall in Hs. auto. }
  constructor; unfold vv; cbn [sems thr].
  - unfold shape, world. split; [destruct lockrec; reflexivity|].
    intros s Hs'. assert (s = 1 \/ s = 2 \/ s = 3 \/ s = 4)%nat as [E|[E|[E|E]]] by lia; subst s;
      destruct lockrec; split; reflexivity.
  - intros t Ht. apply (Hall t Ht).
  - rewrite sumz_zero by (intros t Ht; apply (Hall t Ht)). destruct lockrec; reflexivity.
  - destruct lockrec; cbn; lia.
  - rewrite !sumz_zero by (intros t Ht; apply (Hall t Ht)). destruct lockrec; reflexivity.
  - destruct lockrec; cbn; lia.
  - destruct lockrec; cbn; lia.
  - rewrite sumz_zero by (intros t Ht; apply (Hall t Ht)). destruct lockrec; cbn; lia.
  - rewrite sumz_zero by (intros t Ht; apply (Hall t Ht)). destruct lockrec; cbn; lia.
  - rewrite sumz_zero by (intros t Ht; apply (Hall t Ht)). lia.
Qed.

(* ------------------------------------------------------------------ consequences of the invariant *)
Lemma li_held_hl : forall t, LI t -> 0 < nth 0 (held t) 0 -> t_hl t = 1.
Proof.
  intros [[[c a0] a1] p r h sc rs f] (_ & _ & Hl). unfold t_hl, cid in *.
  cbn [fin cur fst snd pc rg held] in *. destruct f; [intros; lia|].
  destruct Hl as [_ Hp]. dn c 15%nat; dn p 28%nat; cbn in Hp |- *; try contradiction; intros; lia.
Qed.

Lemma li_hl_held : forall t, LI t -> t_hl t = 1 -> nth 0 (held t) 0 = 1.
Proof.
  intros [[[c a0] a1] p r h sc rs f] (_ & _ & Hl). unfold t_hl, cid in *.
  cbn [fin cur fst snd pc rg held] in *. destruct f; [intros; lia|].
  destruct Hl as [_ Hp]. dn c 15%nat; dn p 28%nat; cbn in Hp |- *; try contradiction; intros; lia.
Qed.

Lemma sumz_zero_all : forall A (f : A -> Z) l, (forall x, In x l -> 0 <= f x) -> sumz f l = 0 ->
    forall x, In x l -> f x = 0.
Proof.
  intros A f l Hnn Hs x Hx. apply In_nth_error in Hx. destruct Hx as [n Hn].
  pose proof (sumz_ge_elem _ f l n x Hnn Hn). pose proof (Hnn x (nth_error_In _ _ Hn)). lia.
Qed.

(* mutual exclusion of the condition's lock (Lock or RLock) *)
Theorem cond_mutex : forall g i j ti tj, Inv g ->
    nth_error (thr g) i = Some ti -> nth_error (thr g) j = Some tj ->
    0 < nth 0 (held ti) 0 -> 0 < nth 0 (held tj) 0 -> i = j.
Proof.
  intros g i j ti tj HI Hi Hj Hpi Hpj.
  pose proof (li_held_hl ti (i_li g HI ti (nth_error_In _ _ Hi)) Hpi).
  pose proof (li_held_hl tj (i_li g HI tj (nth_error_In _ _ Hj)) Hpj).
  destruct (Nat.eq_dec i j) as [E|E]; [auto|exfalso].
  pose proof (sumz_two _ t_hl (thr g) i j ti tj (fun x _ => proj1 (t_hl_01 x)) Hi Hj E).
  pose proof (i_lock g HI). pose proof (i_lock0 g HI). lia.
Qed.

(* the counting invariant *)
Definition quiet (g : sys) : Prop := forall t, In t (thr g) -> t_pend t = 0 /\ t_ntok t = 0.

Theorem cond_counts : forall g, Inv g ->
    vv 1 g - vv 2 g + sumz t_pend (thr g) = sumz t_win (thr g) /\
    0 <= vv 3 g <= sumz t_ntok (thr g) /\
    (quiet g -> vv 3 g = 0 /\ vv 1 g - vv 2 g = sumz t_win (thr g)).
Proof.
  intros g HI. pose proof (i_count g HI). pose proof (i_tok g HI). repeat split; try lia.
  - rewrite (sumz_zero _ t_ntok) in H0; [lia|]. intros t Ht. apply (H1 t Ht).
  - rewrite (sumz_zero _ t_pend) in H; [lia|]. intros t Ht. apply (H1 t Ht).
Qed.

(* when the lock is free no notify is in progress *)
Theorem lock_free_quiet : forall g, Inv g -> vv 0 g = 1 -> quiet g.
Proof.
  intros g HI HL t Ht. pose proof (i_lock g HI).
  assert (t_hl t = 0).
  { apply (sumz_zero_all _ t_hl (thr g)); auto; [intros; apply t_hl_01|lia]. }
  destruct (t_excl t ltac:(lia)) as (A & B & _). auto.
Qed.

(* results of all finished calls: no exception in any Condition/Event method, an untimed
   wait returned True, a timed one a boolean *)
Theorem cond_results : forall g t, Inv g -> In t (thr g) -> Forall okres (results t).
Proof. intros g t HI Ht. destruct (i_li g HI t Ht) as (_ & A & _). exact A. Qed.

(* notify_all past its acknowledgement loop: nobody is left in the wait window *)
Definition nall_done (t : thread) : Prop :=
  fin t = false /\
  ((cid t = 2%nat /\ (pc t = 21%nat \/ pc t = 24%nat)) \/ (cid t = 4%nat /\ (pc t = 23%nat \/ pc t = 26%nat))).

Theorem notify_all_wakes : forall g i t, Inv g -> nth_error (thr g) i = Some t -> nall_done t ->
    (forall u, In u (thr g) -> t_win u = 0) /\ vv 1 g = 0 /\ vv 2 g = 0.
Proof.
  intros g i t HI Ht [Hf Hd].
  assert (Hz : t_sz t = 1 /\ t_hl t = 1 /\ t_pend t = 0).
  { unfold t_sz, t_hl, t_pend. rewrite Hf. destruct Hd as [[Hc [Hp|Hp]]|[Hc [Hp|Hp]]]; rewrite Hc, Hp; cbn; auto. }
  destruct Hz as (Hsz & Hhl & Hpe).
  assert (Hs : sumz t_pend (thr g) = t_pend t).
  { eapply (sumz_excl _ t_hl); eauto; try (intros; apply t_hl_01); try lia.
    - intros x Hx; apply (t_excl x Hx).
    - pose proof (i_lock g HI). pose proof (i_lock0 g HI). lia. }
  assert (Hs1 : vv 1 g = 0).
  { apply (i_sz g HI). pose proof (sumz_ge_elem _ t_sz (thr g) i t (fun x _ => proj1 (t_sz_01 x)) Ht). lia. }
  pose proof (i_count g HI). pose proof (i_w0 g HI).
  assert (Hw : 0 <= sumz t_win (thr g)) by (apply sumz_nonneg; intros; apply t_win_01).
  repeat split; try lia.
  apply (sumz_zero_all _ t_win (thr g)); [intros; apply t_win_01|lia].
Qed.

(* notify: at most one token; if no other sleeper is counted when the acknowledgement
   has been collected, nobody is left in the wait window *)
Theorem notify_one : forall g i t, Inv g -> nth_error (thr g) i = Some t ->
    fin t = false -> cid t = 1%nat -> t_hl t = 1 ->
    vv 3 g <= 1 /\
    ((pc t = 13%nat \/ pc t = 14%nat) -> vv 1 g = 0 -> forall u, In u (thr g) -> t_win u = 0).
Proof.
  intros g i t HI Ht Hf Hc Hhl.
  assert (Hex : sumz t_pend (thr g) = t_pend t /\ sumz t_ntok (thr g) = t_ntok t).
  { split; eapply (sumz_excl _ t_hl); eauto; try (intros; apply t_hl_01); try lia;
      try (intros x Hx; apply (t_excl x Hx)); pose proof (i_lock g HI); pose proof (i_lock0 g HI); lia. }
  destruct Hex as [Hp Hn]. pose proof (i_tok g HI) as Htok. split.
  - rewrite Hn in Htok. unfold t_ntok in Htok. rewrite Hf, Hc in Htok.
    assert (w_ntok 1 (pc t) (rg t) <= 1) by (generalize (pc t); intro p; dn p 28%nat; cbn; lia). lia.
  - intros Hpc HS u Hu. pose proof (i_count g HI) as Hcnt. pose proof (i_w0 g HI).
    assert (Hw : 0 <= sumz t_win (thr g)) by (apply sumz_nonneg; intros; apply t_win_01).
    rewrite Hp in Hcnt. unfold t_pend in Hcnt. rewrite Hf, Hc in Hcnt.
    assert (w_pend 1 (pc t) (rg t) = 0) by (destruct Hpc as [E|E]; rewrite E; reflexivity).
    apply (sumz_zero_all _ t_win (thr g)); [intros; apply t_win_01|lia|auto].
Qed.
Lemma aflag_01 : forall g, Inv g -> aflag g = 0 \/ aflag g = 1.
Proof.
  intros g HI. unfold aflag. pose proof (i_flag g HI) as [A B].
  assert (0 <= sumz t_fh (thr g)) by (apply sumz_nonneg; intros; apply t_fh_01). lia.
Qed.

Lemma at_inv : forall t c p, at_ t c p = true -> fin t = false /\ cid t = c /\ pc t = p.
Proof.
  intros t c p H. unfold at_ in H.
  destruct (fin t); [discriminate|]. cbn [negb andb] in H.
  destruct (Nat.eqb (cid t) c) eqn:E1; [|discriminate]. cbn [andb] in H.
  apply Nat.eqb_eq in E1, H. auto.
Qed.

(* a timed wait may give up at any moment; it then returns False and the invariant is kept *)
Theorem timed_out_wait : forall g i t, Inv g -> small g -> nth_error (thr g) i = Some t ->
    at_ t 0 9 = true -> r0 (rg t) <> 0 ->
    exists g', step code g i false = Some (g', (i, 3%nat, 0, 0)) /\ Inv g' /\
               pending (thread_at g' i) = Some 0.
Proof.
  intros g i t HI Hsm Ht Hat Hr0.
  destruct (at_inv _ _ _ Hat) as (Hf & Hc & Hp).
  assert (Hs : exists g', step code g i false = Some (g', (i, 3%nat, 0, 0))).
  { unfold step. rewrite Ht, Hf, Hc, Hp. cbn [code p_c_wait nth_error flagv getr andb].
    replace (negb (r0 (rg t) =? 0)) with true by lia. eexists; reflexivity. }
  destruct Hs as [g' Hs]. exists g'. split; [exact Hs|].
  destruct (step_spec g i false g' _ t HI Hsm Ht Hs) as (A & (_ & _ & _ & B) & _).
  split; [exact A|]. apply (B Hat).
Qed.

(* an untimed wait can only leave its semaphore acquire with True *)
Theorem untimed_wait_true : forall g i t go g' e, Inv g -> small g -> nth_error (thr g) i = Some t ->
    at_ t 0 9 = true -> r0 (rg t) = 0 -> step code g i go = Some (g', e) ->
    e = (i, 3%nat, 0, 1) /\ pending (thread_at g' i) = Some 1.
Proof.
  intros g i t go g' e HI Hsm Ht Hat Hr0 Hs.
  destruct (at_inv _ _ _ Hat) as (Hf & Hc & Hp).
  assert (He : e = (i, 3%nat, 0, 1)).
  { unfold step in Hs. rewrite Ht, Hf, Hc, Hp in Hs. cbn [code p_c_wait nth_error flagv getr andb] in Hs.
    replace (negb (r0 (rg t) =? 0)) with false in Hs by lia.
    destruct go; [|discriminate].
    destruct (sem_acq (nth 3 (sems g) dsem) (nth 3 (held t) 0)) as [[sm' h']|]; [|discriminate].
    inversion Hs; reflexivity. }
  split; [exact He|].
  destruct (step_spec g i go g' e t HI Hsm Ht Hs) as (_ & (_ & _ & _ & B) & _).
  rewrite (B Hat), He. reflexivity.
Qed.


(* ------------------------------------------------------------------ shape of a step, for trace arguments *)
Definition in_nall (t : thread) : bool :=
  negb (fin t) && Nat.eqb (cid t) 2 && Nat.leb 2 (pc t).
Definition in_ww (t : thread) : bool :=
  negb (fin t) && Nat.eqb (cid t) 0 && (Nat.eqb (pc t) 9 || Nat.eqb (pc t) 10 || Nat.eqb (pc t) 13).

Definition shape_spec (g : sys) (t t' : thread) : Prop :=
  (* results only grow, by the result of the current call *)
  (results t' = results t \/ exists v, results t' = (cur t, v) :: results t) /\
  (* a notify_all body stays a notify_all body until its call returns *)
  (in_nall t = true ->
   (in_nall t' = true /\ results t' = results t) \/ exists v, results t' = (cur t, v) :: results t) /\
  (* a waiter between its token acquire and its re-acquire of the lock stays there
     while the lock is taken *)
  (in_ww t = true -> vv 0 g = 0 ->
   in_ww t' = true /\ results t' = results t /\ cur t' = cur t /\ r0 (rg t') = r0 (rg t)).

Ltac finish_shape Ht Hsc :=
  unfold shape_spec, vv; cbn [sems thr];
  rewrite (thread_at_upd _ _ _ _ _ Ht);
  rewrite ?(results_start _ _ _ Hsc);
  unfold in_nall, in_ww; simpw; cbn [Nat.eqb Nat.leb andb negb orb];
  repeat split; intros; try discriminate; try lia; auto;
  try solve [left; repeat split; reflexivity | right; eexists; reflexivity
            | left; reflexivity].
Lemma step_shape : forall g i go g' e t, Inv g -> small g -> nth_error (thr g) i = Some t ->
    step code g i go = Some (g', e) ->
    shape_spec g t (thread_at g' i).
Proof.
  intros g i go g' e t HI Hsm Ht H.
  unfold step in H. rewrite Ht in H.
  destruct (fin t) eqn:Hf; [discriminate|].
  pose proof (i_li g HI t (nth_error_In _ _ Ht)) as Hli.
  destruct (i_shape g HI) as [HmL H14].
  destruct (H14 1%nat ltac:(lia)) as [Hr1 Hm1]. destruct (H14 2%nat ltac:(lia)) as [Hr2 Hm2].
  destruct (H14 3%nat ltac:(lia)) as [Hr3 Hm3]. destruct (H14 4%nat ltac:(lia)) as [Hr4 Hm4].
  pose proof (i_lock g HI) as Ilock. pose proof (i_lock0 g HI) as Ilock0.
  pose proof (i_count g HI) as Icount. pose proof (i_s0 g HI) as Is0. pose proof (i_w0 g HI) as Iw0.
  pose proof (i_tok g HI) as Itok. pose proof (i_flag g HI) as Iflag. pose proof (i_sz g HI) as Isz.
  destruct Hsm as (Hs1 & Hs2 & Hs3). unfold vv, SVM in *.
  assert (Hge : t_hl t <= sumz t_hl (thr g)) by (eapply sumz_ge_elem; eauto; intros; apply t_hl_01).
  assert (Hgw : t_win t <= sumz t_win (thr g)) by (eapply sumz_ge_elem; eauto; intros; apply t_win_01).
  assert (Hgn : 0 <= sumz t_win (thr g)) by (apply sumz_nonneg; intros; apply t_win_01).
  assert (Hgf : 0 <= sumz t_fh (thr g)) by (apply sumz_nonneg; intros; apply t_fh_01).
  assert (Hgz : 0 <= sumz t_sz (thr g)) by (apply sumz_nonneg; intros; apply t_sz_01).
  assert (Hex : 1 <= t_hl t -> sumz t_pend (thr g) = t_pend t /\ sumz t_ntok (thr g) = t_ntok t /\
                               sumz t_fh (thr g) = t_fh t /\ sumz t_sz (thr g) = t_sz t).
  { intros H1. repeat split; eapply (sumz_excl _ t_hl); eauto; try (intros; apply t_hl_01); try lia;
      intros x Hx; apply (t_excl x Hx). }
  assert (Hex0 : t_hl t <= 0 -> t_pend t = 0 /\ t_ntok t = 0 /\ t_fh t = 0 /\ t_sz t = 0) by apply t_excl.
  destruct t as [[[c a0] a1] p [x0 x1 x2 x3 x4 x5 x6 x7] h sc rs f]. cbn [fin] in Hf; subst f.
  unfold LI in Hli; cbn [fin script results rg cur pc held cid fst snd] in Hli.
  destruct Hli as (Hsc & Hrs & Hr0 & Hpc).
  unfold cid in H; cbn [cur fst pc rg held] in H.
  dn c 15%nat; dn p 28%nat; cbn in Hpc; try contradiction.
  all: simpw; unfold res2 in *; simpw; split_all.
  all: first [ specialize (Hex ltac:(lia)); clear Hex0 | specialize (Hex0 ltac:(lia)); clear Hex ]; split_all.
  all: simp_in H; unfold sem_acq, sem_rel in H;
    rewrite ?Hr1, ?Hr2, ?Hr3, ?Hr4, ?Hm1, ?Hm2, ?Hm3, ?Hm4, ?HmL in H; cbn [andb] in H;
    destr_H H; try discriminate.
  all: clear Hr1 Hr2 Hr3 Hr4 Hm1 Hm2 Hm3 Hm4 HmL H14.
  all: try (exfalso; lia).
  all: inversion H; subst g' e; clear H.
  all: unfold advance, abort; simp; norm_held; fin_if.
  all: try solve_start Hsc Hrs.


  all: solve [finish_shape Ht Hsc].
Qed.

Lemma step_thr : forall g i go g' e, step code g i go = Some (g', e) ->
    exists t, nth_error (thr g) i = Some t /\ thr g' = upd (thr g) i (thread_at g' i) /\
              nth_error (thr g') i = Some (thread_at g' i).
Proof.
  intros g i go g' e H.
  destruct (step_effect code 0%nat _ _ _ _ _ H) as (t & t' & Ht & Hthr & _).
  exists t. split; [auto|].
  assert (E : thread_at g' i = t').
  { unfold thread_at. rewrite Hthr. apply nth_error_nth. eapply nth_error_upd_same; eauto. }
  rewrite E. split; [auto|]. rewrite Hthr. eapply nth_error_upd_same; eauto.
Qed.

Lemma in_nall_hl : forall t, LI t -> in_nall t = true -> t_hl t = 1.
Proof.
  intros [[[c a0] a1] p r h sc rs f] (_ & _ & Hl). unfold t_hl, in_nall, cid in *.
  cbn [fin cur fst snd pc rg held] in *. destruct f; [cbn; discriminate|].
  destruct Hl as [_ Hp]. dn c 15%nat; dn p 28%nat; cbn in Hp |- *; try contradiction; try discriminate; auto.
Qed.

Lemma in_ww_pc13 : forall t, LI t -> in_ww t = true -> t_win t = 0 -> r0 (rg t) = 0 ->
    at_ t 0 13 = true /\ pending t = Some 1.
Proof.
  intros [[[c a0] a1] p r h sc rs f] (_ & _ & Hl). unfold t_win, in_ww, at_, pending, cid in *.
  cbn [fin cur fst snd pc rg held] in *. destruct f; [cbn; discriminate|].
  destruct Hl as [_ Hp]. dn c 15%nat; dn p 28%nat; cbn in Hp |- *; try contradiction; try discriminate; auto.
  intros _ _ Hr. unfold res2 in Hp. destruct Hp as (_ & _ & _ & _ & Hp). rewrite (Hp Hr). auto.
Qed.

(* NO LOST WAKE-UP, trace form.  Thread n is inside the body of a notify_all (it holds the
   lock) in g1 while thread j is an untimed waiter blocked on the wait semaphore (it had
   released the lock before).  Whatever the schedule, if in g2 thread n stands at the
   final lock release of that same notify_all call, then thread j has taken its token
   (its wait is going to return True) and stands at the re-acquisition of the lock of
   that same wait call. *)
Theorem notify_all_wakes_trace : forall sched g1 g2 es ok n j tn tu,
    Inv g1 -> run_small g1 sched -> run code g1 sched = (g2, es, ok) -> n <> j ->
    nth_error (thr g1) n = Some tn -> in_nall tn = true ->
    nth_error (thr g1) j = Some tu -> at_ tu 0 9 = true -> r0 (rg tu) = 0 ->
    at_ (thread_at g2 n) 2 24 = true -> results (thread_at g2 n) = results tn ->
    at_ (thread_at g2 j) 0 13 = true /\ pending (thread_at g2 j) = Some 1 /\
    cur (thread_at g2 j) = cur tu /\ results (thread_at g2 j) = results tu.
Proof.
  intros sched g1 g2 es ok n j tn tu HI Hsm Hrun Hnj Hn Hin Hj Hat Hr0 Hend Hres.
  set (Q := fun g => exists tn' tu', nth_error (thr g) n = Some tn' /\ nth_error (thr g) j = Some tu' /\
        (length (results tn) <= length (results tn'))%nat /\
        (length (results tn') = length (results tn) ->
         in_nall tn' = true /\ results tn' = results tn /\ in_ww tu' = true /\
         results tu' = results tu /\ cur tu' = cur tu /\ r0 (rg tu') = 0)).
  assert (HQ1 : Q g1).
  { exists tn, tu. repeat split; auto.
    destruct (at_inv _ _ _ Hat) as (Hf & Hc & Hp). unfold in_ww. rewrite Hf, Hc, Hp. reflexivity. }
  assert (Hgen : forall sched g g' es ok, Inv g -> run_small g sched -> run code g sched = (g', es, ok) ->
                 Q g -> Inv g' /\ Q g').
  { clear - Hnj. induction sched as [|[i go] sched IH]; intros g g' es ok HI Hsm Hrun HQ; cbn [run] in Hrun.
    - inversion Hrun; subst; auto.
    - cbn [run_small] in Hsm. destruct Hsm as [Hsm Hs].
      destruct (step code g i go) as [[ga e]|] eqn:Es; [|inversion Hrun; subst; auto].
      destruct (run code ga sched) as [[gb es2] ok2] eqn:Er. inversion Hrun; subst.
      apply (IH ga g' es2 ok); auto; [eapply inv_step; eauto|].
      destruct HQ as (tn' & tu' & Hn & Hj & Hle & Himp).
      destruct (step_thr _ _ _ _ _ Es) as (t & Ht & Hthr & Hnew).
      pose proof (step_shape g i go ga e t HI Hsm Ht Es) as (S1 & S2 & S3).
      destruct (Nat.eq_dec i n) as [En|En]; [|destruct (Nat.eq_dec i j) as [Ej|Ej]].
      + (* the notifier steps *)
        subst i. assert (t = tn') by congruence. subst t.
        exists (thread_at ga n), tu'. split; [auto|]. split; [rewrite Hthr, nth_error_upd_other; auto|].
        destruct S1 as [S1|[v S1]]; rewrite S1.
        * split; [auto|]. intros Hl. destruct (Himp Hl) as (A & B & C).
          destruct (S2 A) as [[A' B']|[v B']]; [|rewrite B' in S1; exfalso; apply (f_equal (@length _)) in S1; cbn in S1; lia].
          repeat split; auto; try apply C; try congruence.
        * cbn [length]. split; [lia|]. intros Hl. lia.
      + (* the waiter steps *)
        subst i. assert (t = tu') by congruence. subst t.
        exists tn', (thread_at ga j). split; [rewrite Hthr, nth_error_upd_other; auto|]. split; [auto|].
        split; [auto|]. intros Hl. destruct (Himp Hl) as (A & B & C & D & E & F).
        assert (HL : vv 0 g = 0).
        { pose proof (in_nall_hl tn' (i_li g HI tn' (nth_error_In _ _ Hn)) A).
          pose proof (sumz_ge_elem _ t_hl (thr g) n tn' (fun x _ => proj1 (t_hl_01 x)) Hn).
          pose proof (i_lock g HI). pose proof (i_lock0 g HI). lia. }
        destruct (S3 C HL) as (C' & D' & E' & F'). repeat split; auto; congruence.
      + (* somebody else steps *)
        exists tn', tu'. rewrite Hthr, !nth_error_upd_other by auto. repeat split; auto; apply Himp; auto. }
  destruct (Hgen sched g1 g2 es ok HI Hsm Hrun HQ1) as [HI2 (tn2 & tu2 & Hn2 & Hj2 & Hle & Himp)].
  assert (En : thread_at g2 n = tn2) by (unfold thread_at; apply nth_error_nth; auto).
  assert (Eu : thread_at g2 j = tu2) by (unfold thread_at; apply nth_error_nth; auto).
  rewrite En in *. rewrite Eu.
  destruct (Himp ltac:(rewrite Hres; reflexivity)) as (A & B & C & D & E & F).
  destruct (at_inv _ _ _ Hend) as (Hf & Hc & Hp).
  assert (Hdone : nall_done tn2) by (split; [auto|left; auto]).
  destruct (notify_all_wakes g2 n tn2 HI2 Hn2 Hdone) as (Hw & _).
  destruct (in_ww_pc13 tu2 (i_li g2 HI2 tu2 (nth_error_In _ _ Hj2)) C (Hw tu2 (nth_error_In _ _ Hj2)) F) as [P1 P2].
  auto.
Qed.

(* ================================================================== transport to the generated programs
   Everything above is about the hand-kept programs of Model/CondProg.v; the statements
   below are about Gen/P_cond.v, i.e. about what translate/kernels/semprog.py compiled from
   the repository on this run. *)
Definition gen_world (lockrec : bool) (k : Z) : list sem :=
  P_cond.ctor_Condition (if lockrec then P_cond.ctor_RLock else P_cond.ctor_Lock)
  ++ [P_cond.ctor_Semaphore 0; P_cond.ctor_Semaphore k; P_cond.ctor_BoundedSemaphore k;
      P_cond.ctor_Lock; P_cond.ctor_RLock].

Lemma gen_world_eq : forall lockrec k, gen_world lockrec k = world lockrec k.
Proof. intros [|] k; reflexivity. Qed.

Definition gen_init (lockrec : bool) (k : Z) (scripts : list (list call)) : sys :=
  init_sys P_cond.code (gen_world lockrec k) scripts.

Lemma gen_init_eq : forall lockrec k scripts, gen_init lockrec k scripts = init lockrec k scripts.
Proof.
  intros. unfold gen_init, init. rewrite gen_world_eq. apply init_sys_ext. apply gen_code_eq.
Qed.

Lemma gstep : forall g i go, step P_cond.code g i go = step code g i go.
Proof. apply step_ext. apply gen_code_eq. Qed.

Lemma grun : forall sched g, run P_cond.code g sched = run code g sched.
Proof. apply run_ext. apply gen_code_eq. Qed.

(* no counter reaches SEM_VALUE_MAX along the run (a release would raise ValueError) *)
Fixpoint gen_run_small (g : sys) (sched : list (nat * bool)) : Prop :=
  small g /\
  match sched with
  | [] => True
  | (i, go) :: r =>
    match step P_cond.code g i go with Some (g1, _) => gen_run_small g1 r | None => True end
  end.

Lemma gen_run_small_eq : forall sched g, gen_run_small g sched -> run_small g sched.
Proof.
  induction sched as [|[i go] sched IH]; intros g H; cbn [gen_run_small run_small] in *; [auto|].
  destruct H as [A B]. split; [auto|]. rewrite gstep in B.
  destruct (step code g i go) as [[g1 e]|]; auto.
Qed.

(* states reachable by the generated programs from an initial world, any number of threads,
   any scripts of client calls (ids 0..14), any schedule *)
Definition Reach (g : sys) : Prop :=
  exists lockrec k scripts sched es ok,
    Forall (Forall okcall) scripts /\
    gen_run_small (gen_init lockrec k scripts) sched /\
    run P_cond.code (gen_init lockrec k scripts) sched = (g, es, ok).

Theorem reach_inv : forall g, Reach g -> Inv g.
Proof.
  intros g (lockrec & k & scripts & sched & es & ok & Hs & Hsm & Hrun).
  rewrite grun, gen_init_eq in Hrun. rewrite gen_init_eq in Hsm.
  eapply inv_run; [apply inv_init; eauto|apply gen_run_small_eq; eauto|eauto].
Qed.

Theorem G_mutex : forall g i j ti tj, Reach g ->
    nth_error (thr g) i = Some ti -> nth_error (thr g) j = Some tj ->
    0 < nth 0 (held ti) 0 -> 0 < nth 0 (held tj) 0 -> i = j.
Proof. intros g i j ti tj HR. apply cond_mutex. apply reach_inv; auto. Qed.

Theorem G_counts : forall g, Reach g ->
    vv 1 g - vv 2 g + sumz t_pend (thr g) = sumz t_win (thr g) /\
    0 <= vv 3 g <= sumz t_ntok (thr g) /\
    (quiet g -> vv 3 g = 0 /\ vv 1 g - vv 2 g = sumz t_win (thr g)) /\
    (vv 0 g = 1 -> quiet g).
Proof.
  intros g HR. pose proof (reach_inv g HR) as HI.
  destruct (cond_counts g HI) as (A & B & C).
  split; [exact A|]. split; [exact B|]. split; [exact C|].
  apply lock_free_quiet; auto.
Qed.

Theorem G_results : forall g t, Reach g -> In t (thr g) -> Forall okres (results t).
Proof. intros g t HR. apply cond_results. apply reach_inv; auto. Qed.

Theorem G_notify_all_wakes : forall g i t, Reach g -> nth_error (thr g) i = Some t -> nall_done t ->
    (forall u, In u (thr g) -> t_win u = 0) /\ vv 1 g = 0 /\ vv 2 g = 0.
Proof. intros g i t HR. apply notify_all_wakes. apply reach_inv; auto. Qed.

Theorem G_notify_all_wakes_trace : forall sched g1 g2 es ok n j tn tu,
    Reach g1 -> gen_run_small g1 sched -> run P_cond.code g1 sched = (g2, es, ok) -> n <> j ->
    nth_error (thr g1) n = Some tn -> in_nall tn = true ->
    nth_error (thr g1) j = Some tu -> at_ tu 0 9 = true -> r0 (rg tu) = 0 ->
    at_ (thread_at g2 n) 2 24 = true -> results (thread_at g2 n) = results tn ->
    at_ (thread_at g2 j) 0 13 = true /\ pending (thread_at g2 j) = Some 1 /\
    cur (thread_at g2 j) = cur tu /\ results (thread_at g2 j) = results tu.
Proof.
  intros sched g1 g2 es ok n j tn tu HR Hsm Hrun. rewrite grun in Hrun.
  eapply notify_all_wakes_trace; eauto; try (apply reach_inv; auto); try (apply gen_run_small_eq; auto).
Qed.

Theorem G_notify_one : forall g i t, Reach g -> nth_error (thr g) i = Some t ->
    fin t = false -> cid t = 1%nat -> t_hl t = 1 ->
    vv 3 g <= 1 /\
    ((pc t = 13%nat \/ pc t = 14%nat) -> vv 1 g = 0 -> forall u, In u (thr g) -> t_win u = 0).
Proof. intros g i t HR. apply notify_one. apply reach_inv; auto. Qed.

Theorem G_timed_out_wait : forall g i t, Reach g -> small g -> nth_error (thr g) i = Some t ->
    at_ t 0 9 = true -> r0 (rg t) <> 0 ->
    exists g', step P_cond.code g i false = Some (g', (i, 3%nat, 0, 0)) /\ Inv g' /\
               pending (thread_at g' i) = Some 0.
Proof.
  intros g i t HR Hsm Ht Hat Hr. rewrite gstep. eapply timed_out_wait; eauto. apply reach_inv; auto.
Qed.

Theorem G_untimed_wait_true : forall g i t go g' e, Reach g -> small g -> nth_error (thr g) i = Some t ->
    at_ t 0 9 = true -> r0 (rg t) = 0 -> step P_cond.code g i go = Some (g', e) ->
    e = (i, 3%nat, 0, 1) /\ pending (thread_at g' i) = Some 1.
Proof.
  intros g i t go g' e HR Hsm Ht Hat Hr Hs. rewrite gstep in Hs. eapply untimed_wait_true; eauto.
  apply reach_inv; auto.
Qed.

Theorem G_step : forall g i go g' e t, Reach g -> small g -> nth_error (thr g) i = Some t ->
    step P_cond.code g i go = Some (g', e) ->
    Inv g' /\ flag_spec i t g g' e /\ res_spec t (thread_at g' i).
Proof.
  intros g i go g' e t HR Hsm Ht Hs. rewrite gstep in Hs. eapply step_spec; eauto. apply reach_inv; auto.
Qed.

Theorem G_flag_01 : forall g, Reach g -> aflag g = 0 \/ aflag g = 1.
Proof. intros g HR. apply aflag_01. apply reach_inv; auto. Qed.

(* non-vacuity: a reachable state with a timed waiter past its timeout, an untimed waiter
   blocked, and a notify_all in its acknowledgement loop *)
Definition ex_scripts : list (list call) := [[(0%nat, 0, 0)]; [(0%nat, 1, 0)]; [(2%nat, 0, 0)]].
Definition ex_sched : list (nat * bool) :=
  [(0%nat, true); (0%nat, true); (0%nat, true); (1%nat, true); (1%nat, true); (1%nat, true);
   (1%nat, false); (2%nat, true); (2%nat, true); (2%nat, true); (2%nat, true); (2%nat, true);
   (2%nat, true); (2%nat, true); (2%nat, true)].
Definition ex_state : sys := fst (fst (run P_cond.code (gen_init false 1 ex_scripts) ex_sched)).

Lemma ex_witness :
  Reach ex_state /\ vv 3 ex_state = 2 /\ sumz t_ntok (thr ex_state) = 2 /\
  sumz t_win (thr ex_state) = 2 /\ sumz t_pend (thr ex_state) = 2 /\
  exists t, nth_error (thr ex_state) 0 = Some t /\ at_ t 0 9 = true /\ r0 (rg t) = 0.
Proof.
  split.
  - exists false, 1, ex_scripts, ex_sched.
    destruct (run P_cond.code (gen_init false 1 ex_scripts) ex_sched) as [[g es] ok] eqn:E.
    exists es, ok. split; [|split].
    + repeat constructor; unfold okcall; cbn; lia.
    + vm_compute. repeat split.
    + unfold ex_state. rewrite E. reflexivity.
  - vm_compute. repeat split. eexists; repeat split.
Qed.
