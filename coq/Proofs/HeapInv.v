(* C14, part 3b: the heap invariant and its preservation by _free, _malloc, malloc, free,
   the deferred free and the draining of the pending list. *)
From Coq Require Import ZArith List Bool Lia ZifyBool Permutation.
From BV Require Import Lib.PyVal Model.Heap Proofs.HeapLib Proofs.HeapIdx Proofs.HeapGeo Proofs.HeapRe.
Import ListNotations.
Open Scope Z_scope.

(* all blocks the heap knows about, plus the blocks "in flight" H (taken out of the free
   lists / the live set but not yet put back) *)
Definition L (h : heap) (H : list block) : list block := F h ++ alloc h ++ H.

Record GInv (h : heap) (H : list block) : Prop := {
  gi_idx : IdxInv h;
  gi_geo : Geo (arenas h) (L h H);
  gi_coal : coalesced (F h) }.

Lemma L_hole h r H : Permutation (L h (r :: H)) (r :: L h H).
Proof.
  unfold L. rewrite !app_assoc. apply Permutation_sym, Permutation_middle.
Qed.

Lemma L_F h h' b H : Permutation (F h) (b :: F h') -> alloc h' = alloc h ->
  Permutation (L h H) (b :: L h' H).
Proof.
  intros HP Ha. unfold L. rewrite Ha.
  change (b :: F h' ++ alloc h ++ H) with ((b :: F h') ++ alloc h ++ H).
  apply Permutation_app_tail. assumption.
Qed.

Lemma coalesced_incl Fl Fl' : (forall x, In x Fl' -> In x Fl) -> coalesced Fl -> coalesced Fl'.
Proof. intros Hi Hc x y Hx Hy. apply Hc; auto. Qed.

Lemma block_eta (b : block) : b = (b_arena b, b_start b, b_stop b).
Proof. destruct b as [[a s] e]. reflexivity. Qed.

(* ---- _free, phase 1: absorb the free left neighbour ---- *)
Lemma free_prev_ok h r H : GInv h (r :: H) ->
  exists h1 st, free_prev h r = OK (h1, st) /\
    GInv h1 ((b_arena r, st, b_stop r) :: H) /\ frame h h1 /\
    (forall x, In x (F h1) -> In x (F h)) /\
    (forall x, In x (F h1) -> b_arena x = b_arena r -> b_stop x <> st).
Proof.
  intros [HI HG HC]. unfold free_prev.
  destruct (dget key_eqb (skey r) (e2b h)) as [p|] eqn:Eg.
  - destruct (KInv_get _ _ _ _ _ (i_e _ HI) Eg) as [Hp Hk].
    unfold skey, ekey in Hk. inversion Hk as [[Ha Hs]].
    destruct (absorb_ok h p HI Hp) as [h1 [Hab [HI1 [HP Hfr]]]].
    rewrite Hab. cbn [bind]. exists h1, (b_start p). split; [reflexivity|].
    assert (Hsub : forall x, In x (F h1) -> In x (F h)).
    { intros x Hx. eapply Permutation_in; [apply Permutation_sym; eassumption|right; assumption]. }
    split; [|split; [assumption|split; [assumption|]]].
    + destruct Hfr as [Hfa [Hfar _]]. constructor; [assumption| |eapply coalesced_incl; eassumption].
      rewrite Hfar.
      assert (HG2 : Geo (arenas h) (p :: r :: L h1 H)).
      { eapply geo_perm; [|exact HG].
        eapply Permutation_trans; [apply L_hole|].
        eapply Permutation_trans; [apply perm_skip, (L_F h h1 p H HP Hfa)|apply perm_swap]. }
      apply geo_merge in HG2; [|congruence|congruence].
      eapply geo_perm; [|exact HG2]. rewrite <- Ha. apply Permutation_sym, L_hole.
    + intros x Hx Hax Hst. apply (HC x p); [auto|assumption|congruence|assumption].
  - exists h, (b_start r). split; [reflexivity|]. rewrite <- block_eta.
    split; [constructor; assumption|]. split; [repeat split|]. split; [auto|].
    intros x Hx Hax Hst. apply (KInv_get_none _ _ _ _ (i_e _ HI) Eg x Hx).
    unfold ekey, skey. congruence.
Qed.

(* ---- _free, phase 2: absorb the free right neighbour ---- *)
Lemma free_next_ok h c H : GInv h (c :: H) ->
  exists h1 en, free_next h c = OK (h1, en) /\
    GInv h1 ((b_arena c, b_start c, en) :: H) /\ frame h h1 /\
    (forall x, In x (F h1) -> In x (F h)) /\
    (forall x, In x (F h1) -> b_arena x = b_arena c -> b_start x <> en).
Proof.
  intros [HI HG HC]. unfold free_next.
  destruct (dget key_eqb (ekey c) (s2b h)) as [n|] eqn:Eg.
  - destruct (KInv_get _ _ _ _ _ (i_s _ HI) Eg) as [Hn Hk].
    unfold skey, ekey in Hk. inversion Hk as [[Ha Hs]].
    destruct (absorb_ok h n HI Hn) as [h1 [Hab [HI1 [HP Hfr]]]].
    rewrite Hab. cbn [bind]. exists h1, (b_stop n). split; [reflexivity|].
    assert (Hsub : forall x, In x (F h1) -> In x (F h)).
    { intros x Hx. eapply Permutation_in; [apply Permutation_sym; eassumption|right; assumption]. }
    split; [|split; [assumption|split; [assumption|]]].
    + destruct Hfr as [Hfa [Hfar _]]. constructor; [assumption| |eapply coalesced_incl; eassumption].
      rewrite Hfar.
      assert (HG2 : Geo (arenas h) (c :: n :: L h1 H)).
      { eapply geo_perm; [|exact HG].
        eapply Permutation_trans; [apply L_hole|].
        apply perm_skip, (L_F h h1 n H HP Hfa). }
      apply geo_merge in HG2; [|congruence|congruence].
      eapply geo_perm; [|exact HG2]. apply Permutation_sym, L_hole.
    + intros x Hx Hax Hst. apply (HC n x); [assumption|auto|congruence|congruence].
  - exists h, (b_stop c). split; [reflexivity|]. rewrite <- block_eta.
    split; [constructor; assumption|]. split; [repeat split|]. split; [auto|].
    intros x Hx Hax Hst. apply (KInv_get_none _ _ _ _ (i_s _ HI) Eg x Hx).
    unfold ekey, skey. congruence.
Qed.

Lemma free_next_ext h b c : ekey b = ekey c -> free_next h b = free_next h c.
Proof.
  intros E. unfold free_next. rewrite E.
  assert (b_stop b = b_stop c) by (unfold ekey in E; congruence). rewrite H. reflexivity.
Qed.

(* ---- _free, phase 3: register the merged block ---- *)
Lemma free_insert_ok h m H : GInv h (m :: H) ->
  (forall x, In x (F h) -> b_arena x = b_arena m -> b_stop x <> b_start m) ->
  (forall x, In x (F h) -> b_arena x = b_arena m -> b_start x <> b_stop m) ->
  GInv (free_insert h m) H /\ frame h (free_insert h m) /\
  Permutation (F (free_insert h m)) (m :: F h).
Proof.
  intros [HI HG HC] Hl Hr.
  assert (HGm : Geo (arenas h) (m :: L h H)) by (eapply geo_perm; [apply L_hole|exact HG]).
  assert (Hwm : wf (arenas h) m) by (eapply geo_wf; [exact HGm|left; reflexivity]).
  assert (Hfresh : forall x, In x (F h) -> skey x <> skey m /\ ekey x <> ekey m).
  { intros x Hx.
    assert (HxL : In x (L h H)) by (unfold L; apply in_or_app; left; assumption).
    assert (Hwx : wf (arenas h) x) by (eapply geo_wf; [exact HGm|right; assumption]).
    destruct HGm as [_ Hpw _]. cbn in Hpw. destruct Hpw as [Hpw _]. specialize (Hpw x HxL).
    destruct Hwm as [sm Hwm], Hwx as [sx Hwx].
    unfold disj, skey, ekey in *. split; intros E; inversion E; lia. }
  destruct (insert_ok h m HI Hfresh) as [HI' [HP Hfr]].
  split; [|split; assumption].
  destruct Hfr as [Hfa [Hfar _]].
  constructor; [assumption| |].
  - rewrite Hfar. eapply geo_perm; [|exact HGm].
    unfold L. rewrite Hfa. apply Permutation_sym.
    change (m :: F h ++ alloc h ++ H) with ((m :: F h) ++ alloc h ++ H).
    apply Permutation_app_tail. assumption.
  - intros x y Hx Hy Ha.
    eapply Permutation_in in Hx; [|exact HP]. eapply Permutation_in in Hy; [|exact HP].
    destruct Hx as [<-|Hx], Hy as [<-|Hy].
    + destruct Hwm as [sm Hwm]. lia.
    + intros E. apply (Hr y Hy); congruence.
    + apply Hl; assumption.
    + apply HC; assumption.
Qed.

(* ---- Heap._free: the block r, in flight, becomes free and is merged with its neighbours *)
Lemma c_free_ok h r H : GInv h (r :: H) ->
  exists h', c_free h r = OK h' /\ GInv h' H /\ frame h h'.
Proof.
  intros HG.
  destruct (free_prev_ok h r H HG) as [h1 [st [E1 [HG1 [Hf1 [Hs1 Hl1]]]]]].
  destruct (free_next_ok h1 _ H HG1) as [h2 [en [E2 [HG2 [Hf2 [Hs2 Hr2]]]]]].
  unfold c_free. rewrite E1. cbn [bind].
  rewrite (free_next_ext h1 r (b_arena r, st, b_stop r)) by reflexivity.
  rewrite E2. cbn [bind].
  unfold b_arena at 1 2, b_start at 1 in HG2. cbn [fst snd] in HG2.
  destruct (free_insert_ok h2 (b_arena r, st, en) H HG2) as [HG3 [Hf3 _]].
  - intros x Hx Ha. apply Hl1; [apply Hs2; assumption|exact Ha].
  - intros x Hx Ha. apply Hr2; [assumption|exact Ha].
  - eexists. split; [reflexivity|]. split; [assumption|].
    destruct Hf1 as [? [? [? ?]]], Hf2 as [? [? [? ?]]], Hf3 as [? [? [? ?]]].
    repeat split; congruence.
Qed.

(* ---- Heap._malloc ---- *)
Definition pg_ok (pg : Z) : Prop := 0 < pg /\ pg mod 8 = 0.

Lemma bisect_all_small ls x : bisect_left ls x = length ls -> forall y, In y ls -> y < x.
Proof.
  intros E y Hy. apply In_nth_error in Hy as [j Hj].
  apply (proj1 (bisect_left_spec ls x) j y); [|assumption].
  rewrite E. apply nth_error_Some. congruence.
Qed.

Lemma F_blen_in_lengths h x : IdxInv h -> In x (F h) -> In (blen x) (lengths h).
Proof.
  intros HI Hx. destruct (F_locate h x HI Hx) as [seq [rest [Hg _]]].
  apply (l_keys _ _ (i_l _ HI)).
  apply dget_some_in in Hg; [|apply zeqb_spec].
  change (blen x) with (fst (blen x, seq)). apply in_map. assumption.
Qed.

(* the block comes out "in flight"; either it was a free block that is a best fit, or a
   new arena was mapped and then every free block is shorter than the request *)
Lemma c_malloc_ok pg h size H : pg_ok pg -> GInv h H -> 0 < size ->
  exists blk h', c_malloc pg h size = OK (blk, h') /\ GInv h' (blk :: H) /\
    size <= blen blk /\ alloc h' = alloc h /\ pending h' = pending h /\
    ((arenas h' = arenas h /\ nsize h' = nsize h /\ In blk (F h) /\
      Permutation (F h) (blk :: F h') /\
      forall x, In x (F h) -> size <= blen x -> blen blk <= blen x)
     \/
     (arenas h' = arenas h ++ [arena_length (nsize h) size pg] /\ nsize h' = nsize h * 2 /\
      F h' = F h /\
      blk = (Z.of_nat (length (arenas h)), 0, arena_length (nsize h) size pg) /\
      forall x, In x (F h) -> blen x < size)).
Proof.
  intros [Hpg Hpg8] [HI HG HC] Hsz. unfold c_malloc.
  destruct (Nat.eqb (bisect_left (lengths h) size) (length (lengths h))) eqn:E.
  - apply Nat.eqb_eq in E.
    set (len := arena_length (nsize h) size pg).
    assert (Hlen : size <= len).
    { unfold len, arena_length. pose proof (roundup_ge (Z.max (nsize h) size) pg Hpg). lia. }
    eexists. eexists. split; [reflexivity|].
    split; [|split; [unfold blen, b_start, b_stop; cbn [fst snd]; lia|]].
    + constructor; cbn [arenas alloc]; [destruct HI; constructor; assumption| |assumption].
      unfold L. cbn [arenas alloc]. change (F {| lengths := lengths h; l2s := l2s h; s2b := s2b h; e2b := e2b h;
        alloc := alloc h; arenas := arenas h ++ [len]; nsize := nsize h * 2; pending := pending h |}) with (F h).
      eapply geo_perm; [apply Permutation_sym, (L_hole h)|].
      apply geo_new_arena; [assumption|lia|].
      unfold len, arena_length. apply roundup_mod8; assumption.
    + split; [reflexivity|]. split; [reflexivity|]. right.
      split; [reflexivity|]. split; [reflexivity|]. split; [reflexivity|]. split; [reflexivity|].
      intros x Hx. apply (bisect_all_small _ _ E). apply F_blen_in_lengths; assumption.
  - apply Nat.eqb_neq in E. pose proof (bisect_left_le (lengths h) size) as Hle.
    destruct (take_ok h (bisect_left (lengths h) size) HI ltac:(lia)) as [b [h' [Ht [Hb [Hnth [HI' [HP Hfr]]]]]]].
    exists b, h'. split; [assumption|].
    assert (Hsb : size <= blen b) by (apply (proj2 (bisect_left_spec (lengths h) size)); assumption).
    destruct Hfr as [Hfa [Hfar [Hfn Hfp]]].
    split; [|split; [assumption|split; [assumption|split; [assumption|]]]].
    + constructor; [assumption| |].
      * rewrite Hfar. eapply geo_perm; [|exact HG].
        eapply Permutation_trans; [apply (L_F h h' b H HP Hfa)|apply Permutation_sym, L_hole].
      * eapply coalesced_incl; [|exact HC]. intros x Hx.
        eapply Permutation_in; [apply Permutation_sym; eassumption|right; assumption].
    + left. split; [assumption|]. split; [assumption|]. split; [assumption|]. split; [assumption|].
      (* best fit: lengths before the index are too small, later ones are larger (sorted) *)
      intros x Hx Hxs. pose proof (F_blen_in_lengths h x HI Hx) as Hxl.
      apply In_nth_error in Hxl as [j Hj].
      destruct (Nat.lt_ge_cases j (bisect_left (lengths h) size)) as [Hlt|Hge].
      * pose proof (proj1 (bisect_left_spec (lengths h) size) j _ Hlt Hj). lia.
      * destruct (Nat.eq_dec j (bisect_left (lengths h) size)) as [->|Hne]; [rewrite Hnth in Hj; inversion Hj; lia|].
        (* sortedness *)
        pose proof (l_sorted _ _ (i_l _ HI)) as Hs.
        assert (Hgen : forall (l : list Z) i j a c, allpairs Z.lt l -> (i < j)%nat ->
                   nth_error l i = Some a -> nth_error l j = Some c -> a < c).
        { clear. induction l as [|y r IH]; intros [|i] [|j] a c Hs Hij Ha Hc; cbn in *; try discriminate; try lia.
          - inversion Ha; subst. destruct Hs as [Hs _]. apply Hs. eapply nth_error_In; eassumption.
          - destruct Hs as [_ Hs]. eapply IH; [eassumption| |eassumption|eassumption]. lia. }
        assert (Hij : (bisect_left (lengths h) size < j)%nat) by lia.
        pose proof (Hgen _ _ _ _ _ Hs Hij Hnth Hj). lia.
Qed.

(* ---- the pending list, the whole invariant ---- *)
Definition PInv (h : heap) : Prop :=
  NoDup (pending h) /\ forall x, In x (pending h) -> In x (alloc h).

Definition HeapInv (h : heap) : Prop := GInv h [] /\ PInv h.

Lemma IdxInv_same h h' :
  lengths h' = lengths h -> l2s h' = l2s h -> s2b h' = s2b h -> e2b h' = e2b h ->
  IdxInv h -> IdxInv h'.
Proof.
  intros E1 E2 E3 E4 [H1 H2 H3 H4]. constructor; unfold F in *; rewrite ?E1, ?E2, ?E3, ?E4; assumption.
Qed.

Lemma heap_init_inv size : HeapInv (heap_init size).
Proof.
  split; [|split; [constructor|intros x []]].
  constructor.
  - constructor; cbn.
    + constructor; cbn; [exact I|intros l; split; intros []|constructor|intros l s []].
    + constructor.
    + split; [constructor|]. intros k b. cbn. split; [intros []|intros [[] _]].
    + split; [constructor|]. intros k b. cbn. split; [intros []|intros [[] _]].
  - constructor; cbn.
    + constructor.
    + exact I.
    + intros a sz x Ha. unfold asize in Ha. destruct (a <? 0); [discriminate|].
      destruct (Z.to_nat a); discriminate.
  - intros x y [].
Qed.

Lemma free_one_ok h b : GInv h [] -> In b (alloc h) ->
  exists h', free_one h b = OK h' /\ GInv h' [] /\ arenas h' = arenas h /\ nsize h' = nsize h /\
             pending h' = pending h /\ Permutation (alloc h) (b :: alloc h').
Proof.
  intros [HI HG HC] Hb. unfold free_one.
  destruct (remove1_in block_eqb block_eqb_spec b (alloc h) Hb) as [a' Ha'].
  pose proof (remove1_some block_eqb block_eqb_spec _ _ _ Ha') as HP. rewrite Ha'.
  assert (HG1 : GInv (set_alloc h a') [b]).
  { constructor; [eapply IdxInv_same; [| | | |exact HI]; reflexivity| |exact HC].
    unfold L, set_alloc. cbn [arenas alloc]. change (F _) with (F h).
    eapply geo_perm; [|exact HG]. unfold L. apply Permutation_app_head.
    rewrite app_nil_r. eapply Permutation_trans; [exact HP|apply Permutation_cons_append]. }
  destruct (c_free_ok _ b [] HG1) as [h' [Hf [HG' [Hfa [Hfar [Hfn Hfp]]]]]].
  exists h'. split; [assumption|]. split; [assumption|]. cbn [set_alloc alloc arenas nsize pending] in Hfa, Hfar, Hfn, Hfp.
  split; [assumption|]. split; [assumption|]. split; [assumption|]. rewrite Hfa. assumption.
Qed.

Lemma drain_list_ok l : forall h, GInv h [] -> NoDup l -> (forall x, In x l -> In x (alloc h)) ->
  exists h', drain_list l h = OK h' /\ GInv h' [] /\ arenas h' = arenas h /\ nsize h' = nsize h /\
             pending h' = pending h /\ Permutation (alloc h) (l ++ alloc h').
Proof.
  induction l as [|b r IH]; intros h HG Hnd Hin; cbn [drain_list].
  - exists h. split; [reflexivity|]. split; [assumption|]. split; [reflexivity|]. split; [reflexivity|]. split; [reflexivity|]. apply Permutation_refl.
  - destruct (free_one_ok h b HG (Hin b (or_introl eq_refl))) as [h1 [E1 [HG1 [Ha1 [Hn1 [Hp1 HP1]]]]]].
    rewrite E1. cbn [bind]. inversion Hnd as [|? ? Hni Hnd']; subst.
    destruct (IH h1 HG1 Hnd') as [h' [E2 [HG2 [Ha2 [Hn2 [Hp2 HP2]]]]]].
    + intros x Hx. assert (Hx2 : In x (alloc h)) by (apply Hin; right; assumption).
      eapply Permutation_in in Hx2; [|exact HP1]. destruct Hx2 as [<-|]; [contradiction|assumption].
    + exists h'. split; [assumption|]. split; [assumption|]. split; [congruence|]. split; [congruence|]. split; [congruence|].
      cbn [app]. eapply Permutation_trans; [exact HP1|]. apply perm_skip. assumption.
Qed.

Lemma drain_ok h : HeapInv h ->
  exists hd, drain h = OK hd /\ GInv hd [] /\ pending hd = [] /\ arenas hd = arenas h /\
             nsize hd = nsize h /\ Permutation (alloc h) (rev (pending h) ++ alloc hd).
Proof.
  intros [[HI HG HC] [Hnd Hin]]. unfold drain.
  destruct (drain_list_ok (rev (pending h)) (set_pending h [])) as [hd [E [HGd [Ha [Hn [Hp HP]]]]]].
  - constructor; [eapply IdxInv_same; [| | | |exact HI]; reflexivity|exact HG|exact HC].
  - apply NoDup_rev. assumption.
  - intros x Hx. apply in_rev in Hx. apply Hin. assumption.
  - exists hd. cbn [set_pending arenas nsize pending alloc] in *. split; [assumption|]. split; [assumption|]. split; [assumption|]. split; [assumption|]. split; assumption.
Qed.

Lemma mod8_add a b : a mod 8 = 0 -> b mod 8 = 0 -> (a + b) mod 8 = 0.
Proof. intros Ha Hb. rewrite Z.add_mod, Ha, Hb by lia. reflexivity. Qed.

(* the split of the block found by _malloc: the tail goes back to the free lists *)
Lemma malloc_tail h a s e size : GInv h [(a, s, e)] -> 0 < size -> size mod 8 = 0 -> size <= e - s ->
  exists h3, (if s + size <? e then c_free h (a, s + size, e) else OK h) = OK h3 /\
             GInv h3 [(a, s, s + size)] /\ frame h h3.
Proof.
  intros HG Hs Hs8 Hle.
  destruct (s + size <? e) eqn:E.
  - destruct HG as [HI HG HC].
    assert (Hw : wf (arenas h) (a, s, e)).
    { eapply geo_wf; [exact HG|]. unfold L. apply in_or_app; right. apply in_or_app; right. left; reflexivity. }
    destruct Hw as [sz [_ Hw]]. unfold b_start, b_stop in Hw. cbn [fst snd] in Hw.
    assert (HG2 : GInv h [(a, s + size, e); (a, s, s + size)]).
    { constructor; [assumption| |assumption].
      eapply geo_perm; [|apply (geo_split (arenas h) a s e (s + size) (L h []))].
      - eapply Permutation_trans; [|apply Permutation_sym, L_hole].
        eapply Permutation_trans; [apply perm_swap|]. apply perm_skip, Permutation_sym, L_hole.
      - eapply geo_perm; [apply L_hole|exact HG].
      - lia.
      - apply mod8_add; [apply Hw|assumption]. }
    destruct (c_free_ok h _ _ HG2) as [h3 [Ef [HG3 Hfr]]]. exists h3. auto.
  - assert (e = s + size) by lia. subst e. exists h. split; [reflexivity|]. split; [assumption|]. split; [reflexivity|]. split; [reflexivity|]. split; reflexivity.
Qed.

Lemma nodup_hole_not_alloc h b : NoDup (L h [b]) -> ~ In b (alloc h).
Proof.
  intros Hnd Hin. eapply Permutation_NoDup in Hnd; [|apply L_hole].
  inversion Hnd as [|? ? Hni _]; subst. apply Hni. unfold L. apply in_or_app; right. apply in_or_app; left. assumption.
Qed.

(* ---- Heap.malloc ---- *)
Lemma malloc_ok pg h n : pg_ok pg -> HeapInv h -> 0 <= n < maxsize ->
  exists b h' hd, malloc pg h n = OK (b, h') /\ drain h = OK hd /\ HeapInv h' /\
    pending h' = [] /\ blen b = norm_size n /\
    alloc h' = b :: alloc hd /\ ~ In b (alloc hd) /\
    ((arenas h' = arenas h /\ nsize h' = nsize h /\
      exists blk, In blk (F hd) /\ b_arena b = b_arena blk /\ b_start b = b_start blk /\
                  norm_size n <= blen blk /\
                  forall x, In x (F hd) -> norm_size n <= blen x -> blen blk <= blen x)
     \/
     (arenas h' = arenas h ++ [arena_length (nsize h) (norm_size n) pg] /\ nsize h' = nsize h * 2 /\
      b_arena b = Z.of_nat (length (arenas h)) /\ b_start b = 0 /\
      forall x, In x (F hd) -> blen x < norm_size n)).
Proof.
  intros Hpg HInv Hn. unfold malloc.
  destruct ((n <? 0) || (maxsize <=? n)) eqn:Ea; [lia|].
  destruct (drain_ok h HInv) as [hd [Ed [HGd [Hpd [Had [Hnd HPd]]]]]].
  rewrite Ed. cbn [bind].
  destruct (norm_size_props n ltac:(lia)) as [Hs0 [Hs8 Hsn]].
  destruct (c_malloc_ok pg hd (norm_size n) [] Hpg HGd Hs0) as [blk [h2 [Em [HG2 [Hsb [Ha2 [Hp2 Hcase]]]]]]].
  rewrite Em. cbn [bind]. destruct blk as [[a s] e].
  unfold b_arena, b_start, b_stop. cbn [fst snd].
  unfold blen, b_start, b_stop in Hsb. cbn [fst snd] in Hsb.
  destruct (malloc_tail h2 a s e (norm_size n) HG2 Hs0 Hs8 ltac:(lia)) as [h3 [E3 [HG3 [Hf3a [Hf3ar [Hf3n Hf3p]]]]]].
  rewrite E3. cbn [bind].
  set (b := (a, s, s + norm_size n)) in *.
  assert (Hni : ~ In b (alloc h3)) by (apply nodup_hole_not_alloc; eapply geo_nodup; exact (gi_geo _ _ HG3)).
  assert (Hmem : mem block_eqb b (alloc h3) = false).
  { destruct (mem block_eqb b (alloc h3)) eqn:Em2; [|reflexivity].
    apply (mem_in block_eqb block_eqb_spec) in Em2. contradiction. }
  unfold set_add. rewrite Hmem.
  exists b, (set_alloc h3 (b :: alloc h3)), hd. split; [reflexivity|]. split; [reflexivity|].
  assert (HG4 : GInv (set_alloc h3 (b :: alloc h3)) []).
  { destruct HG3 as [HI3 HGeo3 HC3].
    constructor; [eapply IdxInv_same; [| | | |exact HI3]; reflexivity| |exact HC3].
    unfold L, set_alloc. cbn [arenas alloc]. change (F _) with (F h3).
    eapply geo_perm; [|exact HGeo3]. unfold L. apply Permutation_app_head.
    rewrite app_nil_r. apply Permutation_sym, Permutation_cons_append. }
  split; [split; [exact HG4|]|].
  { unfold PInv, set_alloc. cbn [pending alloc]. rewrite Hf3p, Hp2, Hpd. split; [constructor|intros x []]. }
  cbn [set_alloc pending alloc arenas nsize].
  split; [congruence|]. split; [unfold blen, b, b_start, b_stop; cbn [fst snd]; lia|].
  split; [rewrite Hf3a, Ha2; reflexivity|]. split; [rewrite <- Ha2, <- Hf3a; assumption|].
  destruct Hcase as [[Har [Hns [Hin [HPF Hbest]]]]|[Har [Hns [HF [Hblk Hsmall]]]]].
  - left. split; [rewrite Hf3ar, Har, Had; reflexivity|]. split; [rewrite Hf3n, Hns, Hnd; reflexivity|].
    exists (a, s, e).
    split; [assumption|]. split; [reflexivity|]. split; [reflexivity|].
    split; [unfold blen, b_start, b_stop; cbn [fst snd]; lia|assumption].
  - right. inversion Hblk; subst a s e.
    split; [rewrite Hf3ar, Har, Had, Hnd; reflexivity|]. split; [rewrite Hf3n, Hns, Hnd; reflexivity|].
    split; [unfold b; cbn [fst snd]; rewrite Had; reflexivity|]. split; [reflexivity|assumption].
Qed.

(* ---- Heap.free with the lock acquired ---- *)
Lemma free_ok h b : HeapInv h -> In b (alloc h) -> ~ In b (pending h) ->
  exists h', free h b = OK h' /\ HeapInv h' /\ pending h' = [] /\ arenas h' = arenas h /\
             nsize h' = nsize h /\ Permutation (alloc h) (b :: rev (pending h) ++ alloc h').
Proof.
  intros HInv Hb Hnp. unfold free.
  destruct (drain_ok h HInv) as [hd [Ed [HGd [Hpd [Had [Hnd HPd]]]]]].
  rewrite Ed. cbn [bind].
  assert (Hbd : In b (alloc hd)).
  { eapply Permutation_in in Hb; [|exact HPd]. apply in_app_or in Hb. destruct Hb as [Hb|Hb]; [|assumption].
    apply in_rev in Hb. contradiction. }
  destruct (free_one_ok hd b HGd Hbd) as [h' [E [HG' [Ha [Hn [Hp HP]]]]]].
  exists h'. split; [assumption|]. split; [split; [assumption|]|].
  { unfold PInv. rewrite Hp, Hpd. split; [constructor|intros x []]. }
  split; [congruence|]. split; [congruence|]. split; [congruence|].
  eapply Permutation_trans; [exact HPd|].
  eapply Permutation_trans; [apply Permutation_app_head; exact HP|].
  apply Permutation_sym, Permutation_middle.
Qed.

(* ---- Heap.free with the lock taken ---- *)
Lemma free_deferred_ok h b : HeapInv h -> In b (alloc h) -> ~ In b (pending h) ->
  HeapInv (free_deferred h b).
Proof.
  intros [[HI HG HC] [Hnd Hin]] Hb Hnp. split.
  - constructor; [eapply IdxInv_same; [| | | |exact HI]; reflexivity|exact HG|exact HC].
  - unfold PInv, free_deferred, set_pending. cbn [pending alloc]. split.
    + eapply Permutation_NoDup; [apply Permutation_cons_append|]. constructor; assumption.
    + intros x Hx. apply in_app_or in Hx. destruct Hx as [Hx|[<-|[]]]; auto.
Qed.

(* ---- a free issued by the same thread from inside malloc / free (a finaliser run by the
   garbage collector): the lock is not re-entrant, the block is queued (HeapRe.v), and the
   outer call succeeds and keeps the invariant wherever the finaliser ran ---- *)
Lemma still_live_after_drain h hd v : In v (alloc h) -> ~ In v (pending h) ->
  Permutation (alloc h) (rev (pending h) ++ alloc hd) -> In v (alloc hd).
Proof.
  intros Hv Hnp HP. eapply Permutation_in in Hv; [|exact HP].
  apply in_app_or in Hv. destruct Hv as [Hv|Hv]; [|assumption]. apply in_rev in Hv. contradiction.
Qed.

Lemma malloc_re_ok pg h n p v : pg_ok pg -> HeapInv h -> 0 <= n < maxsize ->
  In v (alloc h) -> ~ In v (pending h) ->
  exists b h', malloc_re lock_reentrant pg (Some (p, v)) h n = OK (b, h') /\ HeapInv h'.
Proof.
  intros Hpg HInv Hn Hv Hnp. unfold lock_reentrant.
  assert (Hcase : p = RLocked \/ p <> RLocked) by (destruct p; [left; reflexivity|right; discriminate ..]).
  destruct Hcase as [->|Hp].
  - rewrite malloc_re_locked.
    destruct (malloc_ok pg (free_deferred h v) n Hpg (free_deferred_ok h v HInv Hv Hnp) Hn)
      as [b [h' [hd [E [_ [HI' _]]]]]].
    exists b, h'. split; assumption.
  - rewrite (malloc_re_post pg p v h n Hp).
    destruct (malloc_ok pg h n Hpg HInv Hn) as [b [h' [hd [E [Ed [HI' [Hp' [_ [Ha _]]]]]]]]].
    rewrite E. cbn [bind fst snd]. exists b, (free_deferred h' v). split; [reflexivity|].
    apply free_deferred_ok; [assumption| |rewrite Hp'; intros []].
    rewrite Ha. right.
    destruct (drain_ok h HInv) as [hd' [Ed' [_ [_ [_ [_ HP]]]]]]. rewrite Ed in Ed'. inversion Ed'; subst hd'.
    eapply still_live_after_drain; eassumption.
Qed.

Lemma free_re_ok h b p v : HeapInv h -> In b (alloc h) -> ~ In b (pending h) ->
  In v (alloc h) -> ~ In v (pending h) -> v <> b ->
  exists h', free_re lock_reentrant (Some (p, v)) h b = OK h' /\ HeapInv h'.
Proof.
  intros HInv Hb Hnb Hv Hnp Hne. unfold lock_reentrant.
  assert (Hcase : p = RLocked \/ p <> RLocked) by (destruct p; [left; reflexivity|right; discriminate ..]).
  destruct Hcase as [->|Hp].
  - rewrite free_re_locked.
    destruct (free_ok (free_deferred h v) b (free_deferred_ok h v HInv Hv Hnp)) as [h' [E [HI' _]]].
    + assumption.
    + unfold free_deferred, set_pending. cbn [pending]. intros Hin. apply in_app_or in Hin.
      destruct Hin as [Hin|[Hin|[]]]; [contradiction|congruence].
    + exists h'. split; assumption.
  - rewrite (free_re_post p v h b Hp).
    destruct (free_ok h b HInv Hb Hnb) as [h' [E [HI' [Hp' [_ [_ HP]]]]]].
    rewrite E. cbn [bind]. exists (free_deferred h' v). split; [reflexivity|].
    apply free_deferred_ok; [assumption| |rewrite Hp'; intros []].
    eapply Permutation_in in Hv; [|exact HP]. destruct Hv as [Hv|Hv]; [congruence|].
    apply in_app_or in Hv. destruct Hv as [Hv|Hv]; [|assumption]. apply in_rev in Hv. contradiction.
Qed.

(* ---- op sequences ---- *)
Definition valid_op (h : heap) (o : op) : Prop :=
  match o with
  | Malloc n => 0 <= n < maxsize
  | Free b => In b (alloc h) /\ ~ In b (pending h)
  | FreeDeferred b => In b (alloc h) /\ ~ In b (pending h)
  | MallocRe n p v => 0 <= n < maxsize /\ In v (alloc h) /\ ~ In v (pending h)
  | FreeRe b p v => (In b (alloc h) /\ ~ In b (pending h)) /\ (In v (alloc h) /\ ~ In v (pending h)) /\ v <> b
  end.

(* every free in the sequence -- immediate, deferred, or issued from inside another call -- frees a
   block that is live at that point and not already waiting in the pending list (i.e. each block
   is freed at most once) *)
Fixpoint valid_run (pg : Z) (h : heap) (ops : list op) : Prop :=
  match ops with
  | [] => True
  | o :: r => valid_op h o /\ forall x h', step pg h o = OK (x, h') -> valid_run pg h' r
  end.

Lemma step_ok pg h o : pg_ok pg -> HeapInv h -> valid_op h o ->
  exists x h', step pg h o = OK (x, h') /\ HeapInv h'.
Proof.
  intros Hpg HInv Hv. destruct o as [n|b|b|n p v|b p v]; cbn [valid_op] in Hv; unfold step.
  - destruct (malloc_ok pg h n Hpg HInv Hv) as [b [h' [hd [E [_ [HI' _]]]]]].
    rewrite E. cbn [bind]. eauto.
  - destruct Hv as [Hb Hnp]. destruct (free_ok h b HInv Hb Hnp) as [h' [E [HI' _]]].
    rewrite E. cbn [bind]. eauto.
  - destruct Hv as [Hb Hnp]. eexists. eexists. split; [reflexivity|]. apply free_deferred_ok; assumption.
  - destruct Hv as [Hn [Hv Hnp]]. destruct (malloc_re_ok pg h n p v Hpg HInv Hn Hv Hnp) as [b [h' [E HI']]].
    rewrite E. cbn [bind]. eauto.
  - destruct Hv as [[Hb Hnb] [[Hv Hnp] Hne]].
    destruct (free_re_ok h b p v HInv Hb Hnb Hv Hnp Hne) as [h' [E HI']].
    rewrite E. cbn [bind]. eauto.
Qed.

Lemma run_ok pg ops : pg_ok pg -> forall h, HeapInv h -> valid_run pg h ops ->
  exists h', run pg h ops = OK h' /\ HeapInv h'.
Proof.
  intros Hpg. induction ops as [|o r IH]; intros h HInv Hv; cbn [run].
  - eauto.
  - destruct Hv as [Hvo Hvr]. destruct (step_ok pg h o Hpg HInv Hvo) as [x [h1 [E HI1]]].
    rewrite E. cbn [bind]. apply IH; [assumption|]. eapply Hvr; eassumption.
Qed.
