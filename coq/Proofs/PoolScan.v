(* One timeout scan (TimeoutHandler.handle_timeouts): frame lemmas and the
   C05/C06 decision rules, first for the per-job step then for the whole pass. *)
From Coq Require Import ZArith List Bool Lia ZifyBool.
From BV Require Import Lib.Cases Model.LaxSem Model.Restart Model.Pool
     Proofs.PoolJobs Proofs.PoolInv.
Import ListNotations.
Open Scope Z_scope.

(* ------------------------------------------------------------ get/set algebra *)
Lemma get_set_job_same s j f : 0 <= j ->
  get_job (set_job s j f) j = option_map f (get_job s j).
Proof.
  intros Hj. unfold get_job, set_job. cbn [jobs].
  replace (j <? 0) with false by lia.
  destruct (nth_error (jobs s) (Z.to_nat j)) as [x|] eqn:E; cbn.
  - apply nth_upd_nth_same; exact E.
  - apply nth_error_None. rewrite length_upd_nth. apply nth_error_None. exact E.
Qed.

Lemma get_set_job_other s j j' f : j <> j' -> 0 <= j' ->
  get_job (set_job s j f) j' = get_job s j'.
Proof.
  intros Hne Hj'. unfold get_job, set_job. cbn [jobs].
  replace (j' <? 0) with false by lia.
  destruct (j <? 0) eqn:E; [reflexivity|].
  apply nth_upd_nth_other. lia.
Qed.

Lemma get_job_sj s s' j : same_jobs s s' -> get_job s' j = get_job s j.
Proof. apply get_job_same. Qed.

(* fields a scan never touches *)
Definition same_env (s s' : pool) : Prop :=
  now s' = now s /\ t_soft s' = t_soft s /\ t_hard s' = t_hard s /\ wlist s' = wlist s.

Lemma same_env_refl s : same_env s s. Proof. repeat split. Qed.
Lemma same_env_trans a b c : same_env a b -> same_env b c -> same_env a c.
Proof. unfold same_env. intros (?&?&?&?) (?&?&?&?). repeat split; congruence. Qed.

Lemma env_set_job s j f : same_env s (set_job s j f). Proof. repeat split. Qed.
Lemma env_deliver s p sg l : same_env s (deliver s p sg l). Proof. repeat split. Qed.
Lemma env_with_dirty s d : same_env s (with_dirty s d). Proof. repeat split. Qed.

Lemma env_on_hard s j x l : same_env s (on_hard s j x l).
Proof.
  unfold on_hard. destruct (ready x); [apply same_env_refl|].
  set (s1 := set_job s j _).
  assert (H1 : same_env s s1) by apply env_set_job.
  destruct (owner x) as [p|]; [|exact H1].
  destruct (in_pool s1 p); [|exact H1].
  destruct (negb (exit_of (deliver s1 p SIGTERM l) p =? 0) && exited (deliver s1 p SIGTERM l) p).
  - eapply same_env_trans; [exact H1|apply env_deliver].
  - eapply same_env_trans; [exact H1|]. eapply same_env_trans; apply env_deliver.
Qed.

Lemma env_on_soft s j x l : same_env s (on_soft s j x l).
Proof.
  unfold on_soft. destruct (ready x); [apply same_env_refl|].
  destruct (owner x) as [p|]; [|apply same_env_refl].
  destruct (in_pool s p); [|apply same_env_refl].
  eapply same_env_trans; [apply env_set_job|apply env_deliver].
Qed.

Lemma env_scan_job l s j : same_env s (scan_job l s j).
Proof.
  unfold scan_job. destruct (get_job s j) as [x|]; [|apply same_env_refl].
  destruct (kind x); try apply same_env_refl.
  destruct (time_accepted x) as [t|]; [|apply same_env_refl].
  destruct (timed_out s (Some t) (eff_hard s x)); [apply env_on_hard|].
  destruct (negb (memZ j (dirty s)) && timed_out s (Some t) (eff_soft s x)); [|apply same_env_refl].
  eapply same_env_trans; [apply env_on_soft|apply env_with_dirty].
Qed.

(* the step for key j touches no other job *)
Lemma jobs_on_hard_other s j x l j' : j <> j' -> 0 <= j' ->
  get_job (on_hard s j x l) j' = get_job s j'.
Proof.
  intros Hne Hj'. unfold on_hard. destruct (ready x); [reflexivity|].
  set (s1 := set_job s j _).
  assert (H1 : get_job s1 j' = get_job s j') by (apply get_set_job_other; assumption).
  destruct (owner x) as [p|]; [|exact H1].
  destruct (in_pool s1 p); [|exact H1].
  destruct (negb (exit_of (deliver s1 p SIGTERM l) p =? 0) && exited (deliver s1 p SIGTERM l) p);
    rewrite <- H1; apply get_job_sj.
  - apply sj_deliver.
  - eapply sj_trans; apply sj_deliver.
Qed.

Lemma jobs_on_soft_other s j x l j' : j <> j' -> 0 <= j' ->
  get_job (on_soft s j x l) j' = get_job s j'.
Proof.
  intros Hne Hj'. unfold on_soft. destruct (ready x); [reflexivity|].
  destruct (owner x) as [p|]; [|reflexivity].
  destruct (in_pool s p); [|reflexivity].
  rewrite (get_job_sj _ _ j' (sj_deliver _ p SIGUSR1 l)). apply get_set_job_other; assumption.
Qed.

Lemma scan_job_other l s j j' : j <> j' -> 0 <= j' ->
  get_job (scan_job l s j) j' = get_job s j'.
Proof.
  intros Hne Hj'. unfold scan_job. destruct (get_job s j) as [x|]; [|reflexivity].
  destruct (kind x); try reflexivity.
  destruct (time_accepted x) as [t|]; [|reflexivity].
  destruct (timed_out s (Some t) (eff_hard s x)); [apply jobs_on_hard_other; assumption|].
  destruct (negb (memZ j (dirty s)) && timed_out s (Some t) (eff_soft s x)); [|reflexivity].
  rewrite (get_job_sj _ _ j' (sj_with_dirty _ _)). apply jobs_on_soft_other; assumption.
Qed.

(* ------------------------------------------------------------ per-job rules *)
Definition hard_result (x : job) : job :=
  j_add_tmo (apply_set x (PTimeLimit (hard x))) (false, hard x).

(* C05: the step for a job that is past its effective hard limit fails it *)
Lemma scan_job_hard l s j x t :
  0 <= j -> get_job s j = Some x -> kind x = KApply -> time_accepted x = Some t ->
  ready x = false -> timed_out s (Some t) (eff_hard s x) = true ->
  get_job (scan_job l s j) j = Some (hard_result x).
Proof.
  intros Hj Hg Hk Ht Hr Hd. unfold scan_job. rewrite Hg, Hk, Ht, Hd.
  unfold on_hard. rewrite Hr.
  set (s1 := set_job s j _).
  assert (H1 : get_job s1 j = Some (hard_result x)).
  { unfold s1. rewrite get_set_job_same by exact Hj. rewrite Hg. reflexivity. }
  destruct (owner x) as [p|]; [|exact H1].
  destruct (in_pool s1 p); [|exact H1].
  destruct (negb (exit_of (deliver s1 p SIGTERM l) p =? 0) && exited (deliver s1 p SIGTERM l) p);
    rewrite <- H1; apply get_job_sj.
  - apply sj_deliver.
  - eapply sj_trans; apply sj_deliver.
Qed.

(* the job-record effect of a step that does NOT hit the hard limit: at most a
   soft-timeout callback entry is appended; nothing is resolved *)
Lemma scan_job_not_hard l s j x :
  0 <= j -> get_job s j = Some x ->
  (forall t, kind x = KApply -> time_accepted x = Some t -> timed_out s (Some t) (eff_hard s x) = false) ->
  get_job (scan_job l s j) j = Some x
  \/ get_job (scan_job l s j) j = Some (j_add_tmo x (true, soft x)).
Proof.
  intros Hj Hg Hnh. unfold scan_job. rewrite Hg.
  destruct (kind x) eqn:Hk; auto.
  destruct (time_accepted x) as [t|] eqn:Ht; auto.
  rewrite (Hnh t eq_refl eq_refl).
  destruct (negb (memZ j (dirty s)) && timed_out s (Some t) (eff_soft s x)); auto.
  rewrite (get_job_sj _ _ j (sj_with_dirty _ _)).
  unfold on_soft. destruct (ready x); auto.
  destruct (owner x) as [p|]; auto.
  destruct (in_pool s p); auto.
  right. rewrite (get_job_sj _ _ j (sj_deliver _ p SIGUSR1 l)).
  rewrite get_set_job_same by exact Hj. rewrite Hg. reflexivity.
Qed.

(* C06: which signals a step sends, and to whom *)
Lemma sigs_deliver s p sg l : sigs (deliver s p sg l) = sigs s ++ [(p, sg)].
Proof. reflexivity. Qed.

(* every signal sent by the step for job j goes to the owner recorded in j *)
Lemma scan_job_signals_owner l s j x :
  get_job s j = Some x ->
  exists extra, sigs (scan_job l s j) = sigs s ++ extra
                /\ forall p sg, In (p, sg) extra -> owner x = Some p.
Proof.
  intros Hg. unfold scan_job. rewrite Hg.
  assert (Hnil : exists extra, sigs s = sigs s ++ extra /\ forall p sg, In (p, sg) extra -> owner x = Some p)
    by (exists []; split; [rewrite app_nil_r; reflexivity|intros ? ? []]).
  destruct (kind x); try exact Hnil.
  destruct (time_accepted x) as [t|]; [|exact Hnil].
  destruct (timed_out s (Some t) (eff_hard s x)).
  - unfold on_hard. destruct (ready x); [exact Hnil|].
    set (s1 := set_job s j _). assert (Hs1 : sigs s1 = sigs s) by reflexivity.
    destruct (owner x) as [p|] eqn:Ho; [|rewrite Hs1; exact Hnil].
    destruct (in_pool s1 p); [|rewrite Hs1; exact Hnil].
    destruct (negb (exit_of (deliver s1 p SIGTERM l) p =? 0) && exited (deliver s1 p SIGTERM l) p).
    + exists [(p, SIGTERM)]. rewrite sigs_deliver, Hs1. split; [reflexivity|].
      intros q sg [H|[]]. inversion H; subst. reflexivity.
    + exists [(p, SIGTERM); (p, SIGKILL)]. rewrite !sigs_deliver, Hs1, <- app_assoc. split; [reflexivity|].
      intros q sg [H|[H|[]]]; inversion H; subst; reflexivity.
  - destruct (negb (memZ j (dirty s)) && timed_out s (Some t) (eff_soft s x)); [|exact Hnil].
    change (sigs (with_dirty (on_soft s j x l) (dirty s ++ [j]))) with (sigs (on_soft s j x l)).
    unfold on_soft. destruct (ready x); [exact Hnil|].
    destruct (owner x) as [p|] eqn:Ho; [|exact Hnil].
    destruct (in_pool s p); [|exact Hnil].
    exists [(p, SIGUSR1)]. rewrite sigs_deliver. split; [reflexivity|].
    intros q sg [H|[]]. inversion H; subst. reflexivity.
Qed.

(* no signal at all on behalf of a job whose result has been handled, or that
   has no effective limit, or that is not due *)
Lemma scan_job_quiet l s j x :
  get_job s j = Some x ->
  (ready x = true
   \/ (eff_hard s x = None /\ eff_soft s x = None)
   \/ (forall t, time_accepted x = Some t ->
                 timed_out s (Some t) (eff_hard s x) = false /\ timed_out s (Some t) (eff_soft s x) = false)) ->
  sigs (scan_job l s j) = sigs s.
Proof.
  intros Hg Hq. unfold scan_job. rewrite Hg.
  destruct (kind x); try reflexivity.
  destruct (time_accepted x) as [t|] eqn:Ht; [|reflexivity].
  destruct Hq as [Hr|[[Hh Hs]|Hn]].
  - destruct (timed_out s (Some t) (eff_hard s x)).
    + unfold on_hard. rewrite Hr. reflexivity.
    + destruct (negb (memZ j (dirty s)) && timed_out s (Some t) (eff_soft s x)); [|reflexivity].
      change (sigs (with_dirty (on_soft s j x l) (dirty s ++ [j]))) with (sigs (on_soft s j x l)).
      unfold on_soft. rewrite Hr. reflexivity.
  - rewrite Hh, Hs. unfold timed_out. rewrite andb_false_r. reflexivity.
  - destruct (Hn t eq_refl) as [H1 H2]. rewrite H1, H2, andb_false_r. reflexivity.
Qed.

(* the soft branch is taken only for a job not yet marked dirty, and marks it *)
Lemma scan_job_soft_marks l s j x t :
  get_job s j = Some x -> kind x = KApply -> time_accepted x = Some t ->
  timed_out s (Some t) (eff_hard s x) = false ->
  memZ j (dirty s) = false -> timed_out s (Some t) (eff_soft s x) = true ->
  dirty (scan_job l s j) = dirty s ++ [j].
Proof.
  intros Hg Hk Ht Hh Hd Hs. unfold scan_job. rewrite Hg, Hk, Ht, Hh, Hd, Hs. reflexivity.
Qed.

Lemma scan_job_dirty_no_soft l s j x :
  get_job s j = Some x -> memZ j (dirty s) = true ->
  (forall t, time_accepted x = Some t -> timed_out s (Some t) (eff_hard s x) = false) ->
  scan_job l s j = s.
Proof.
  intros Hg Hd Hh. unfold scan_job. rewrite Hg.
  destruct (kind x); try reflexivity.
  destruct (time_accepted x) as [t|]; [|reflexivity].
  rewrite (Hh t eq_refl), Hd. reflexivity.
Qed.

(* ------------------------------------------------------------ the whole pass *)
Definition snapshot (s : pool) : list Z := map jid (filter incache (jobs s)).

Lemma in_snapshot s j x : AllJ s -> get_job s j = Some x -> incache x = true -> In j (snapshot s).
Proof.
  intros Ha Hg Hc. destruct (get_job_nth _ _ _ Hg) as [Hj Hn].
  destruct (Ha _ _ Hn) as [_ Hid].
  unfold snapshot. apply in_map_iff. exists x. split; [lia|].
  apply filter_In. split; [eapply nth_error_In; eauto|exact Hc].
Qed.

Lemma snapshot_nonneg s j : AllJ s -> In j (snapshot s) -> 0 <= j.
Proof.
  intros Ha Hin. unfold snapshot in Hin. apply in_map_iff in Hin. destruct Hin as (x & Hid & Hf).
  apply filter_In in Hf. destruct Hf as [Hin _].
  apply In_nth_error in Hin. destruct Hin as [n Hn]. destruct (Ha _ _ Hn) as [_ Hid']. lia.
Qed.

(* the decision data of job j: stable while other jobs are processed *)
Definition pending_hard (j : Z) (x0 : job) (n : Z) (th : option Z) (s : pool) : Prop :=
  get_job s j = Some x0 /\ now s = n /\ t_hard s = th.

Definition resolved_tl (j : Z) (h : option Z) (s : pool) : Prop :=
  exists y, get_job s j = Some y /\ kind y = KApply /\ ready y = true /\ value y = Some (PTimeLimit h).

Lemma resolved_tl_stable j h s s' : AllJ s -> Good s s' -> resolved_tl j h s -> resolved_tl j h s'.
Proof.
  intros Ha Hg (y & Hy & Hk & Hr & Hv). destruct (Hg Ha) as [_ Hm].
  destruct (get_job_nth _ _ _ Hy) as [Hj Hn]. destruct (Hm _ _ Hn) as (z & Hz & Hyz).
  exists z. destruct (jm_outcome _ _ Hyz Hk Hr) as (A & B & _).
  repeat split.
  - unfold get_job. replace (j <? 0) with false by lia. exact Hz.
  - rewrite (jm_kind _ _ Hyz). exact Hk.
  - exact A.
  - congruence.
Qed.

Lemma timed_out_env s s' a b : now s' = now s -> timed_out s' a b = timed_out s a b.
Proof. intros H. unfold timed_out. rewrite H. reflexivity. Qed.

(* C05_fails_on_time: a cached, accepted, unresolved Apply job that is past its
   effective hard limit when a scan starts is failed with TimeLimitExceeded(its own
   limit) by that scan, whatever else is in the cache *)
Theorem scan_hard_on_time s l j x t :
  AllJ s -> scanner s = true ->
  get_job s j = Some x -> incache x = true -> kind x = KApply -> ready x = false ->
  time_accepted x = Some t -> timed_out s (Some t) (eff_hard s x) = true ->
  resolved_tl j (hard x) (fst (do_scan s l)).
Proof.
  intros Ha Hsc Hg Hc Hk Hr Ht Hd. unfold do_scan. rewrite Hsc. cbn [negb fst].
  assert (Hin : In j (snapshot s)) by (eapply in_snapshot; eauto).
  assert (Hj : 0 <= j) by (eapply snapshot_nonneg; eauto).
  assert (Hgen : forall snap s0,
             In j snap -> AllJ s0 -> pending_hard j x (now s) (t_hard s) s0 ->
             resolved_tl j (hard x) (fold_left (scan_job l) snap s0)).
  { induction snap as [|j' snap IH]; intros s0 Hin0 Ha0 Hp0; [destruct Hin0|].
    cbn [fold_left].
    destruct (Z.eq_dec j' j) as [->|Hne].
    - (* this is the step for j *)
      destruct Hp0 as (Hg0 & Hn0 & Ht0).
      assert (Hd0 : timed_out s0 (Some t) (eff_hard s0 x) = true).
      { unfold eff_hard. rewrite Ht0. rewrite (timed_out_env s s0) by exact Hn0. exact Hd. }
      pose proof (scan_job_hard l s0 j x t Hj Hg0 Hk Ht Hr Hd0) as Hres.
      assert (Hq : resolved_tl j (hard x) (scan_job l s0 j)).
      { exists (hard_result x). split; [exact Hres|]. unfold hard_result, apply_set. rewrite Hr. cbn. auto. }
      destruct (good_scan_job l s0 j Ha0) as [Ha1 _].
      eapply resolved_tl_stable; [exact Ha1| |exact Hq].
      apply fold_good1. intros; apply good_scan_job.
    - destruct Hin0 as [He|Hin0]; [congruence|].
      destruct (good_scan_job l s0 j' Ha0) as [Ha1 _].
      apply IH; [exact Hin0|exact Ha1|].
      destruct Hp0 as (Hg0 & Hn0 & Ht0). destruct (env_scan_job l s0 j') as (E1 & E2 & E3 & E4).
      repeat split; try congruence. rewrite scan_job_other by assumption. exact Hg0. }
  apply Hgen; [exact Hin|exact Ha|repeat split; exact Hg].
Qed.

(* C05_never_early: a job that is not past its hard limit when the scan starts is
   not resolved by that scan (its record can only gain a soft-timeout entry) *)
Definition unres (j : Z) (s : pool) : Prop :=
  exists y, get_job s j = Some y /\ ready y = false /\ value y = None.

Theorem scan_never_early s l j x :
  AllJ s ->
  get_job s j = Some x -> ready x = false -> value x = None ->
  (forall t, kind x = KApply -> time_accepted x = Some t -> timed_out s (Some t) (eff_hard s x) = false) ->
  unres j (fst (do_scan s l)).
Proof.
  intros Ha Hg Hr Hv Hnh. unfold do_scan.
  destruct (negb (scanner s)); cbn [fst]; [exists x; auto|].
  destruct (get_job_nth _ _ _ Hg) as [Hj _].
  set (s0 := with_dirty s (filter (fun j0 => memZ j0 (map jid (filter incache (jobs s)))) (dirty s))).
  (* invariant: job j is x, possibly with soft-timeout entries appended; env unchanged *)
  set (P := fun s1 : pool =>
              exists y, get_job s1 j = Some y /\ ready y = false /\ value y = None /\
                        kind y = kind x /\ time_accepted y = time_accepted x /\ hard y = hard x /\
                        now s1 = now s /\ t_hard s1 = t_hard s).
  assert (HP0 : P s0) by (exists x; repeat split; auto).
  assert (Hstep : forall s1 j', P s1 -> P (scan_job l s1 j')).
  { intros s1 j' (y & Hy & R & V & K & T & H & N & TH).
    destruct (env_scan_job l s1 j') as (E1 & E2 & E3 & E4).
    destruct (Z.eq_dec j' j) as [->|Hne].
    - assert (Hnh' : forall t, kind y = KApply -> time_accepted y = Some t ->
                               timed_out s1 (Some t) (eff_hard s1 y) = false).
      { intros t Hk Ht. unfold eff_hard. rewrite H, TH. rewrite (timed_out_env s s1) by exact N.
        apply Hnh; congruence. }
      destruct (scan_job_not_hard l s1 j y Hj Hy Hnh') as [Hs|Hs].
      + exists y. repeat split; auto; congruence.
      + exists (j_add_tmo y (true, soft y)). repeat split; auto; congruence.
    - exists y. rewrite scan_job_other by assumption. repeat split; auto; congruence. }
  assert (Hfold : forall snap s1, P s1 -> P (fold_left (scan_job l) snap s1)).
  { induction snap as [|j' snap IH]; intros s1 H1; cbn; [exact H1|]. apply IH. apply Hstep. exact H1. }
  destruct (Hfold (map jid (filter incache (jobs s))) s0 HP0) as (y & Hy & R & V & _).
  exists y. auto.
Qed.

(* precedence of the per-job limits over the pool defaults *)
Lemma eff_hard_own s x v : hard x = Some v -> eff_hard s x = Some v.
Proof. intros H. unfold eff_hard. rewrite H. reflexivity. Qed.
Lemma eff_soft_own s x v : soft x = Some v -> eff_soft s x = Some v.
Proof. intros H. unfold eff_soft. rewrite H. reflexivity. Qed.
Lemma eff_hard_default s x : hard x = None -> eff_hard s x = t_hard s.
Proof. intros H. unfold eff_hard. rewrite H. reflexivity. Qed.
Lemma eff_soft_default s x : soft x = None -> eff_soft s x = t_soft s.
Proof. intros H. unfold eff_soft. rewrite H. reflexivity. Qed.

(* map / imap jobs (and jobs not accepted yet) are never touched by the scan, and the
   scan does not raise on them *)
Lemma scan_job_multipart l s j x :
  get_job s j = Some x -> (kind x <> KApply \/ time_accepted x = None) -> scan_job l s j = s.
Proof.
  intros Hg H. unfold scan_job. rewrite Hg. destruct H as [H|H].
  - destruct (kind x); try reflexivity. congruence.
  - rewrite H. destruct (kind x); reflexivity.
Qed.

(* hard takes priority over soft when both are due, and then no USR1 is sent *)
Lemma scan_job_hard_priority l s j x t :
  0 <= j -> get_job s j = Some x -> kind x = KApply -> time_accepted x = Some t -> ready x = false ->
  timed_out s (Some t) (eff_hard s x) = true ->
  forall p, ~ In (p, SIGUSR1) (skipn (length (sigs s)) (sigs (scan_job l s j))).
Proof.
  intros Hj Hg Hk Ht Hr Hd p. unfold scan_job. rewrite Hg, Hk, Ht, Hd. unfold on_hard. rewrite Hr.
  set (s1 := set_job s j _). assert (Hs1 : sigs s1 = sigs s) by reflexivity.
  assert (Hsk : forall a b : list (Z * Z), skipn (length a) (a ++ b) = b).
  { intros a b. induction a; cbn; auto. }
  destruct (owner x) as [q|]; [|rewrite Hs1, skipn_all; intros []].
  destruct (in_pool s1 q); [|rewrite Hs1, skipn_all; intros []].
  destruct (negb (exit_of (deliver s1 q SIGTERM l) q =? 0) && exited (deliver s1 q SIGTERM l) q).
  - rewrite sigs_deliver, Hs1, Hsk. intros [H|[]]. inversion H.
  - rewrite !sigs_deliver, Hs1, <- app_assoc, Hsk. intros [H|[H|[]]]; inversion H.
Qed.

(* the dirty set after the filtering at the start of a scan keeps every job still cached *)
Lemma scan_keeps_dirty s j :
  memZ j (dirty s) = true -> In j (snapshot s) ->
  memZ j (filter (fun j0 => memZ j0 (snapshot s)) (dirty s)) = true.
Proof.
  intros Hd Hin. unfold memZ in *. rewrite existsb_exists in *.
  destruct Hd as (y & Hy & E). exists y. split; [|exact E].
  apply filter_In. split; [exact Hy|]. apply Z.eqb_eq in E. subst y.
  apply existsb_exists. exists j. split; [exact Hin|apply Z.eqb_refl].
Qed.
