(* C16: Gen = Model and the transport of the theorems of Proofs/QueueInvProofs.v to the
   programs generated on this run. *)
From Coq Require Import ZArith List Bool Lia ZifyBool Arith.
From BV Require Import Lib.Cases Model.SemProg Model.QueueProg Model.QueueCode Model.QueueCheck Proofs.SemProgProofs Proofs.QueueInvProofs Proofs.QueueStartProofs.
From BV Require Gen.P_queue.
Import ListNotations.
Open Scope Z_scope.

(* ------------------------------------------------------------------ Gen = Model *)
Lemma gen_qcode_eq : forall c, P_queue.code c = QueueCode.code c.
Proof.
  intro c. do 9 (destruct c as [|c]; [reflexivity|]). reflexivity.
Qed.

Lemma gen_qworld_eq : forall m, P_queue.queue_sems m = QueueCode.queue_sems m.
Proof. reflexivity. Qed.

Lemma gen_feed_eq : P_queue.FEED = QueueCode.FEED.
Proof. reflexivity. Qed.


(* ================================================================== transport to the generated programs *)
Definition gen_qworld (maxsize : Z) (nprocs : nat) : list sem := P_queue.queue_sems maxsize ++ proc_sems nprocs.

Lemma gen_qworld_w : forall M n, gen_qworld M n = qworld M n.
Proof. reflexivity. Qed.

(* own = the process of each (main thread, feeder slot) pair; [] = one main thread per process *)
Definition gen_qinit (maxsize : Z) (own : list nat) (scripts : list (list qcall)) : qsys :=
  qinit_sys P_queue.code P_queue.FEED (gen_qworld maxsize (length scripts)) own scripts.

Lemma gen_qinit_eq : forall M own scripts, gen_qinit M own scripts = qinit_own M own scripts.
Proof.
  intros. unfold gen_qinit, qinit_own. rewrite gen_qworld_w, gen_feed_eq.
  apply qinit_sys_ext. apply gen_qcode_eq.
Qed.

Lemma gqstep : forall g i go, qstep P_queue.code g i go = qstep qcode g i go.
Proof. apply qstep_ext. apply gen_qcode_eq. Qed.

Lemma gqrun : forall sched g, qrun P_queue.code g sched = qrun qcode g sched.
Proof. apply qrun_ext. apply gen_qcode_eq. Qed.

Fixpoint gen_qrun_small (g : qsys) (sched : list (nat * bool)) : Prop :=
  qsmall g /\
  match sched with
  | [] => True
  | (i, go) :: r =>
    match qstep P_queue.code g i go with Some (g1, _) => gen_qrun_small g1 r | None => True end
  end.

Lemma gen_qrun_small_eq : forall sched g, gen_qrun_small g sched -> qrun_small g sched.
Proof.
  induction sched as [|[i go] sched IH]; intros g H; cbn [gen_qrun_small qrun_small] in *; [auto|].
  destruct H as [A B]. split; [auto|]. rewrite gqstep in B.
  destruct (qstep qcode g i go) as [[g1 e]|]; auto.
Qed.

(* states reachable by the generated programs: any number of main threads, each running any script of
   put / get / task_done / join calls and each with the feeder thread its _start_thread would start,
   grouped into processes in any way (own: the main threads of one process share its queue object:
   buffer, _notempty, _thread), any maxsize >= 0, any schedule; counters below SEM_VALUE_MAX *)
Definition QReach (M : Z) (own : list nat) (g : qsys) : Prop :=
  exists scripts sched es ok,
    0 <= M /\ Forall (Forall okq) scripts /\ own_ok (length scripts) own /\
    gen_qrun_small (gen_qinit M own scripts) sched /\
    qrun P_queue.code (gen_qinit M own scripts) sched = (g, es, ok).

Theorem qreach_inv : forall M own g, QReach M own g -> QInv M own g.
Proof.
  intros M own g (scripts & sched & es & ok & HM & Hs & Hown & Hsm & Hrun).
  rewrite gqrun, gen_qinit_eq in Hrun. rewrite gen_qinit_eq in Hsm.
  eapply qinv_run; [apply qinv_init; eauto|apply gen_qrun_small_eq; eauto|eauto].
Qed.

Theorem G_queue_capacity : forall M own g, QReach M own g ->
    qv 0 g + sumz blen (procs g) + Z.of_nat (length (pipe g)) + sumz qt_tr (qthr g) = M /\
    0 <= qv 0 g /\
    sumz blen (procs g) + Z.of_nat (length (pipe g)) <= M.
Proof. intros M own g HR. apply (queue_capacity M own). apply qreach_inv; auto. Qed.

Theorem G_queue_fifo : forall M own g, QReach M own g ->
    (forall p, pk (plog (nth p (procs g) dps)) =
               slog (nth p (procs g) dps) ++ pk (fd_ftr (nth p (procs g) dps) (qthr g)) ++ pk (buf (nth p (procs g) dps))) /\
    map snd (sendlog g) = getlog g ++ pipe g /\
    (forall p, from_proc p (sendlog g) = slog (nth p (procs g) dps)) /\
    (forall m, zcnt m (map snd (sendlog g)) = sumz (fun ps => zcnt m (slog ps)) (procs g)).
Proof. intros M own g HR. apply (queue_fifo M own). apply qreach_inv; auto. Qed.

Theorem G_get_returns_received : forall M own g m, QReach M own g -> m <> E_EMPTY ->
    zcnt m (getlog g) =
    sumz (fun t => rcount m (qresults t)) (qthr g) + sumz (fun t => zcnt m (gheld t)) (qthr g).
Proof. intros M own g m HR. apply (get_returns_received M own). apply qreach_inv; auto. Qed.

Theorem G_put_get_exact : forall M own g m, QReach M own g -> m <> E_EMPTY -> picklable m = true ->
    sumz (fun ps => zcnt m (plog ps)) (procs g) =
    sumz (fun t => rcount m (qresults t)) (qthr g) + sumz (fun t => zcnt m (gheld t)) (qthr g)
    + zcnt m (pipe g)
    + psum (fun p => zcnt m (fd_ftr (nth p (procs g) dps) (qthr g))) (length (procs g))
    + sumz (fun ps => zcnt m (buf ps)) (procs g).
Proof. intros M own g m HR. apply (put_get_exact M own). apply qreach_inv; auto. Qed.

Theorem G_feeder_drops_only_unpicklable : forall M own g t, QReach M own g -> In t (qthr g) ->
    qfeeder t = true -> qpc t = 14%nat -> picklable (r2 (qrg t)) = false.
Proof. intros M own g t HR. apply (feeder_drops_only_unpicklable M own). apply qreach_inv; auto. Qed.

Theorem G_unpicklable_never_sent : forall M own g m, QReach M own g -> picklable m = false ->
    zcnt m (map snd (sendlog g)) = 0 /\ zcnt m (getlog g) = 0 /\ zcnt m (pipe g) = 0.
Proof. intros M own g m HR. apply (unpicklable_never_sent M own). apply qreach_inv; auto. Qed.

Theorem G_feeder_never_ends : forall M own g t, QReach M own g -> In t (qthr g) -> qfeeder t = true ->
    qfin t = false /\ qexited P_queue.code t = false.
Proof.
  intros M own g t HR Ht Hf. destruct (feeder_never_ends M own g t (qreach_inv M own g HR) Ht Hf) as [A B].
  split; [exact A|]. unfold qexited in *. rewrite gen_qcode_eq. exact B.
Qed.

Theorem G_queue_no_loss_no_dup : forall M own g m, QReach M own g -> picklable m = true ->
    sumz (fun ps => zcnt m (plog ps)) (procs g) =
    zcnt m (getlog g) + zcnt m (pipe g)
    + psum (fun p => zcnt m (fd_ftr (nth p (procs g) dps) (qthr g))) (length (procs g))
    + sumz (fun ps => zcnt m (buf ps)) (procs g).
Proof. intros M own g m HR. apply (queue_no_loss_no_dup M own). apply qreach_inv; auto. Qed.

Theorem G_unfinished_count : forall M own g, QReach M own g -> qv 3 g = sumz qt_unf (qthr g) /\ 0 <= qv 3 g.
Proof. intros M own g HR. apply (unfinished_count M own). apply qreach_inv; auto. Qed.

Theorem G_task_done_raises_iff_matched : forall M own g i t g' e, QReach M own g ->
    nth_error (qthr g) i = Some t -> qfin t = false -> qfeeder t = false ->
    qcid t = 4%nat -> qpc t = 1%nat ->
    qstep P_queue.code g i true = Some (g', e) ->
    (snd e = 0 <-> sumz qt_unf (qthr g) = 0) /\ (snd e = 1 <-> 0 < sumz qt_unf (qthr g)).
Proof.
  intros M own g i t g' e HR Ht Hf Hfd Hc Hp H. rewrite gqstep in H.
  eapply (task_done_raises_iff_matched M own); eauto. apply qreach_inv; auto.
Qed.

Theorem G_join_test_iff_matched : forall M own g i t g' e, QReach M own g ->
    nth_error (qthr g) i = Some t -> qfin t = false -> qfeeder t = false ->
    qcid t = 5%nat -> qpc t = 1%nat ->
    qstep P_queue.code g i true = Some (g', e) ->
    (snd e = 1 <-> sumz qt_unf (qthr g) = 0).
Proof.
  intros M own g i t g' e HR Ht Hf Hfd Hc Hp H. rewrite gqstep in H.
  eapply (join_test_iff_matched M own); eauto. apply qreach_inv; auto.
Qed.

Theorem G_queue_locks : forall M own g, QReach M own g ->
    qv 1 g + sumz qt_rl (qthr g) = 1 /\ qv 2 g + sumz qt_wl (qthr g) = 1 /\
    forall p, (p < length (procs g))%nat -> qv (nls p) g + sumz (qt_nl p) (qthr g) = 1.
Proof. intros M own g HR. apply (queue_locks M own). apply qreach_inv; auto. Qed.

Theorem G_queue_step : forall M own g i go g' e, QReach M own g -> qsmall g ->
    qstep P_queue.code g i go = Some (g', e) -> QInv M own g'.
Proof. intros M own g i go g' e HR Hsm H. rewrite gqstep in H. eapply (qstep_inv M own); eauto. apply qreach_inv; auto. Qed.

Theorem G_full_only_when_zero : forall M own g i t g' e, QReach M own g ->
    nth_error (qthr g) i = Some t -> qfin t = false -> qfeeder t = false ->
    (qcid t = 0%nat \/ qcid t = 3%nat) -> qpc t = 0%nat ->
    qstep P_queue.code g i true = Some (g', e) ->
    (snd e = 0 -> qv 0 g = 0) /\ (snd e = 1 -> 0 < qv 0 g).
Proof.
  intros M own g i t g' e HR Ht Hf Hfd Hc Hp H. rewrite gqstep in H.
  eapply (full_only_when_zero M own); eauto. apply qreach_inv; auto.
Qed.

Theorem G_empty_only_when_nothing : forall g i t g' e,
    nth_error (qthr g) i = Some t -> qfin t = false -> qfeeder t = false ->
    qcid t = 1%nat -> qpc t = 19%nat ->
    qstep P_queue.code g i true = Some (g', e) ->
    (snd e = 0 <-> pipe g = []).
Proof. intros g i t g' e Ht Hf Hfd Hc Hp H. rewrite gqstep in H. eapply empty_only_when_nothing; eauto. Qed.

Theorem G_put_appends_its_argument : forall M own g t, QReach M own g -> In t (qthr g) ->
    qfeeder t = false -> qfin t = false -> (qcid t = 0%nat \/ qcid t = 3%nat) ->
    (qpc t = 0%nat \/ qpc t = 3%nat \/ qpc t = 6%nat) -> r2 (qrg t) = a2_of (qcur t).
Proof. intros M own g t HR. apply (put_appends_its_argument M own). apply qreach_inv; auto. Qed.

(* non-vacuity: maxsize 1, two producers and a consumer; a reachable state with one message
   received, one in the pipe... *)
Definition qex_scripts : list (list qcall) :=
  [[(0%nat, 0, 1, 11)]; [(0%nat, 0, 1, 12)]; [(1%nat, 0, 1, 0)]].
Definition qex_sched : list (nat * bool) :=
  [(0%nat, true); (0%nat, true); (0%nat, true); (0%nat, true); (1%nat, true); (1%nat, true); (1%nat, true);
   (1%nat, true); (4%nat, true); (4%nat, true)].
Definition qex_state : qsys := fst (fst (qrun P_queue.code (gen_qinit 1 [] qex_scripts) qex_sched)).

(* boolean version of the "counters below SEM_VALUE_MAX" side condition, for closed examples *)
Definition qsmallb (g : qsys) : bool := forallb (fun s => val s <? QSVM) (qsems g).

Lemma qsmallb_ok : forall g, qsmallb g = true -> qsmall g.
Proof.
  intros g H. unfold qsmallb in H. rewrite forallb_forall in H.
  assert (G : forall k, qv k g < QSVM).
  { intros k. unfold qv. destruct (nth_in_or_default k (qsems g) dsem) as [Hin|Hd].
    - specialize (H _ Hin). lia.
    - rewrite Hd. cbn. unfold QSVM. lia. }
  unfold qsmall. repeat split; auto.
Qed.

Fixpoint gen_qrun_smallb (g : qsys) (sched : list (nat * bool)) : bool :=
  qsmallb g &&
  match sched with
  | [] => true
  | (i, go) :: r =>
    match qstep P_queue.code g i go with Some (g1, _) => gen_qrun_smallb g1 r | None => true end
  end.

Lemma gen_qrun_smallb_ok : forall sched g, gen_qrun_smallb g sched = true -> gen_qrun_small g sched.
Proof.
  induction sched as [|[i go] sched IH]; intros g H; cbn [gen_qrun_smallb gen_qrun_small] in *;
    apply andb_prop in H; destruct H as [A B]; (split; [apply qsmallb_ok; auto|]); auto.
  destruct (qstep P_queue.code g i go) as [[g1 e]|]; auto.
Qed.

Lemma qex_witness :
  QReach 1 [] qex_state /\ qv 0 qex_state = 0 /\ getlog qex_state = [11] /\ sendlog qex_state = [(0%nat, 11)] /\
  sumz qt_tr (qthr qex_state) = 1 /\ pipe qex_state = [].
Proof.
  split.
  - exists qex_scripts, qex_sched.
    destruct (qrun P_queue.code (gen_qinit 1 [] qex_scripts) qex_sched) as [[g es] ok] eqn:E.
    exists es, ok. split; [lia|]. split; [|split; [|split]].
    + repeat constructor; unfold okq; cbn; lia.
    + apply own_ok_nil.
    + apply gen_qrun_smallb_ok. vm_compute. reflexivity.
    + unfold qex_state. rewrite E. reflexivity.
  - vm_compute. repeat split.
Qed.

(* ================================================================== the feeder's failure path
   REGRESSION CASE (the witness of the former refutation theorem of "lose nothing", continued).  Before the
   repair 36337df the handler `except Exception` of Queue._feed was outside its `while 1`: the
   first object that could not be serialised ended the feeder thread and everything put
   afterwards by that process was lost.  Same scenario on the repaired code: capacity 2, process
   0 puts an object that cannot be pickled (1000) and then 12, process 1 calls get().  The feeder
   pops 1000, fails to serialise it, gives its capacity token back and goes on: 12 is written
   to the pipe, received and RETURNED by the get; at the end nothing can move, every buffer and
   the pipe are empty and the capacity semaphore is back at maxsize. *)
Definition qlost_scripts : list (list qcall) :=
  [[(0%nat, 0, 1, 1000); (0%nat, 0, 1, 12)]; [(1%nat, 0, 1, 0)]].
Definition qlost_sched : list (nat * bool) :=
  repeat (0%nat, true) 7 ++ repeat (1%nat, true) 10 ++ repeat (2%nat, true) 4.
Definition qlost_state : qsys := fst (fst (qrun P_queue.code (gen_qinit 2 [] qlost_scripts) qlost_sched)).

Definition qdeadb (g : qsys) : bool :=
  forallb (fun i => match qstep P_queue.code g i true, qstep P_queue.code g i false with
                    | None, None => true | _, _ => false end) (seq 0 (length (qthr g))).

Lemma qdeadb_ok : forall g, qdeadb g = true -> forall i go, qstep P_queue.code g i go = None.
Proof.
  intros g H i go. destruct (Nat.lt_ge_cases i (length (qthr g))) as [Hi|Hi].
  - unfold qdeadb in H. rewrite forallb_forall in H. specialize (H i ltac:(apply in_seq; lia)).
    destruct go; destruct (qstep P_queue.code g i true), (qstep P_queue.code g i false); congruence.
  - unfold qstep. replace (nth_error (qthr g) i) with (@None qthread); [reflexivity|].
    symmetry. apply nth_error_None. lia.
Qed.

Lemma qlost_now_delivered :
  QReach 2 [] qlost_state /\
  (forall i go, qstep P_queue.code qlost_state i go = None) /\
  (* both puts of process 0 were accepted *)
  map snd (qresults (nth 0 (qthr qlost_state) dqt)) = [V_NONE; V_NONE] /\
  plog (nth 0 (procs qlost_state) dps) = [1000; 12] /\
  (* the feeder of process 0 is alive (asleep on the notification semaphore of _notempty) and
     has written 12, and only 12 *)
  (let f := nth 1 (qthr qlost_state) dqt in qfin f = false /\ qexited P_queue.code f = false /\ qpc f = 4%nat) /\
  sendlog qlost_state = [(0%nat, 12)] /\
  (* the get of process 1 RETURNED 12 *)
  map snd (qresults (nth 2 (qthr qlost_state) dqt)) = [12] /\ getlog qlost_state = [12] /\
  (* nothing is left anywhere and the capacity is whole again *)
  buf (nth 0 (procs qlost_state) dps) = [] /\ pipe qlost_state = [] /\ qv 0 qlost_state = 2.
Proof.
  split.
  - exists qlost_scripts, qlost_sched.
    destruct (qrun P_queue.code (gen_qinit 2 [] qlost_scripts) qlost_sched) as [[g es] ok] eqn:E.
    exists es, ok. split; [lia|]. split; [|split; [|split]].
    + repeat constructor; unfold okq; cbn; lia.
    + apply own_ok_nil.
    + apply gen_qrun_smallb_ok. vm_compute. reflexivity.
    + unfold qlost_state. rewrite E. reflexivity.
  - split; [apply qdeadb_ok; vm_compute; reflexivity|].
    vm_compute. repeat split.
Qed.

(* ================================================================== several producer threads of one process:
   Queue._start_thread *)
Theorem G_one_feeder_started : forall M own g p, QReach M own g ->
    (length (spawned (nth p (procs g) dps)) <= 1)%nat.
Proof. intros M own g p HR. apply (one_feeder_started M own). apply qreach_inv; auto. Qed.

Theorem G_feeder_unique : forall M own g i j ti tj, QReach M own g ->
    nth_error (qthr g) i = Some ti -> nth_error (qthr g) j = Some tj ->
    qfeeder ti = true -> qfeeder tj = true -> qproc ti = qproc tj ->
    qdormant g i ti = false -> qdormant g j tj = false -> i = j.
Proof. intros M own g i j ti tj HR. apply (feeder_unique M own). apply qreach_inv; auto. Qed.

Theorem G_start_under_lock : forall M own g i t, QReach M own g -> nth_error (qthr g) i = Some t -> at_start t ->
    qv (nls (qproc t)) g = 0 /\
    spawned (nth (qproc t) (procs g) dps) = [] /\ buf (nth (qproc t) (procs g) dps) = [] /\
    (forall j u, nth_error (qthr g) j = Some u -> j <> i -> qt_nl (qproc t) u = 0 /\ ~ (qproc u = qproc t /\ at_start u)).
Proof. intros M own g i t HR. apply (start_under_lock M own). apply qreach_inv; auto. Qed.

Theorem G_start_step_clears_nothing : forall M own g i go g' e, QReach M own g ->
    qstep P_queue.code g i go = Some (g', e) -> snd (fst e) = 7 ->
    exists t, nth_error (qthr g) i = Some t /\ at_start t /\ e = (i, THREAD, 7, 0) /\
              buf (nth (qproc t) (procs g) dps) = [].
Proof.
  intros M own g i go g' e HR H. rewrite gqstep in H. eapply (start_step_clears_nothing M own); eauto.
  apply qreach_inv; auto.
Qed.

Theorem G_trace_starts_ok : forall M own scripts sched g es ok,
    0 <= M -> Forall (Forall okq) scripts -> own_ok (length scripts) own ->
    gen_qrun_small (gen_qinit M own scripts) sched ->
    qrun P_queue.code (gen_qinit M own scripts) sched = (g, es, ok) ->
    clear_ok es = true /\ one_feeder_ok own (length scripts) es = true.
Proof.
  intros M own scripts sched g es ok HM Hs Hown Hsm H.
  rewrite gqrun, gen_qinit_eq in H. rewrite gen_qinit_eq in Hsm.
  eapply (trace_starts_ok M own scripts sched g es ok); eauto; apply gen_qrun_small_eq; auto.
Qed.

Theorem G_thread_order : forall M own g i t, QReach M own g -> nth_error (qthr g) i = Some t ->
    Subseq (tput t) (plog (nth (qproc t) (procs g) dps)).
Proof. intros M own g i t HR. apply (thread_order M own). apply qreach_inv; auto. Qed.

(* non-vacuity: capacity 2; main threads 0 and 2 are TWO THREADS OF PROCESS 0 (own = [0; 0; 2]), each doing
   the first put on the fresh queue; process 2 gets twice.  Schedule: both threads take a capacity token;
   thread 0 takes the lock of _notempty and stands at _start_thread while thread 2 waits for that lock;
   thread 0 starts the feeder (slot 1), appends 11 and leaves; thread 2 finds self._thread set, appends 12;
   the feeder writes 11, 12; the consumer returns 11, 12.  One feeder was started (slot 1; slot 3 is
   still dormant), nothing was dropped, per-producer order held, the capacity is whole. *)
Definition qtwo_scripts : list (list qcall) :=
  [[(0%nat, 0, 1, 11)]; [(0%nat, 0, 1, 12)]; [(1%nat, 0, 1, 0); (1%nat, 0, 1, 0)]].
Definition qtwo_own : list nat := [0; 0; 2]%nat.
Definition qtwo_sched : list (nat * bool) :=
  [(0%nat, true); (2%nat, true); (0%nat, true); (0%nat, true); (0%nat, true); (2%nat, true); (2%nat, true)]
  ++ repeat (1%nat, true) 10 ++ repeat (4%nat, true) 8.
Definition qtwo_run := qrun P_queue.code (gen_qinit 2 qtwo_own qtwo_scripts) qtwo_sched.
Definition qtwo_state : qsys := fst (fst qtwo_run).
(* the state in the middle of the race: thread 0 stands at _start_thread, thread 2 has its token and waits *)
Definition qtwo_mid : qsys := fst (fst (qrun P_queue.code (gen_qinit 2 qtwo_own qtwo_scripts) (firstn 3 qtwo_sched))).

Lemma qtwo_witness :
  QReach 2 qtwo_own qtwo_state /\ QReach 2 qtwo_own qtwo_mid /\
  (* in the middle: thread 0 at _start_thread holding the lock, thread 2 blocked on it *)
  (at_start (nth 0 (qthr qtwo_mid) dqt) /\ qv (nls 0) qtwo_mid = 0 /\
   qstep P_queue.code qtwo_mid 2 true = None /\ qpc (nth 2 (qthr qtwo_mid) dqt) = 3%nat) /\
  (* at the end *)
  snd qtwo_run = true /\
  (forall i go, qstep P_queue.code qtwo_state i go = None) /\
  spawned (nth 0 (procs qtwo_state) dps) = [1%nat] /\
  qdormant qtwo_state 3 (nth 3 (qthr qtwo_state) dqt) = true /\
  map snd (qresults (nth 0 (qthr qtwo_state) dqt)) = [V_NONE] /\
  map snd (qresults (nth 2 (qthr qtwo_state) dqt)) = [V_NONE] /\
  plog (nth 0 (procs qtwo_state) dps) = [11; 12] /\
  tput (nth 0 (qthr qtwo_state) dqt) = [11] /\ tput (nth 2 (qthr qtwo_state) dqt) = [12] /\
  sendlog qtwo_state = [(0%nat, 11); (0%nat, 12)] /\
  map snd (qresults (nth 4 (qthr qtwo_state) dqt)) = [12; 11] /\ getlog qtwo_state = [11; 12] /\
  buf (nth 0 (procs qtwo_state) dps) = [] /\ pipe qtwo_state = [] /\ qv 0 qtwo_state = 2 /\
  filter is_start (snd (fst qtwo_run)) = [(0%nat, THREAD, 7, 0)].
Proof.
  assert (Hown : own_ok 3 qtwo_own).
  { intros q Hq. destruct q as [|[|[|q]]]; cbn; lia. }
  split; [|split].
  - exists qtwo_scripts, qtwo_sched.
    destruct (qrun P_queue.code (gen_qinit 2 qtwo_own qtwo_scripts) qtwo_sched) as [[g es] ok] eqn:E.
    exists es, ok. split; [lia|]. split; [|split; [|split]].
    + repeat constructor; unfold okq; cbn; lia.
    + exact Hown.
    + apply gen_qrun_smallb_ok. vm_compute. reflexivity.
    + unfold qtwo_state, qtwo_run. rewrite E. reflexivity.
  - exists qtwo_scripts, (firstn 3 qtwo_sched).
    destruct (qrun P_queue.code (gen_qinit 2 qtwo_own qtwo_scripts) (firstn 3 qtwo_sched)) as [[g es] ok] eqn:E.
    exists es, ok. split; [lia|]. split; [|split; [|split]].
    + repeat constructor; unfold okq; cbn; lia.
    + exact Hown.
    + apply gen_qrun_smallb_ok. vm_compute. reflexivity.
    + unfold qtwo_mid. rewrite E. reflexivity.
  - split.
    + split; [|vm_compute; repeat split].
      unfold at_start. vm_compute. split; [reflexivity|]. left. split; reflexivity.
    + split; [vm_compute; reflexivity|]. split; [apply qdeadb_ok; vm_compute; reflexivity|].
      vm_compute. repeat split.
Qed.
