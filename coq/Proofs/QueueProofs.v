(* C16: proofs about the queue programs (Model/QueueCode.v) under the interleaving
   semantics of Model/QueueProg.v. *)
From Coq Require Import ZArith List Bool Lia ZifyBool Arith.
From BV Require Import Model.SemProg Model.QueueProg Model.QueueCode Proofs.SemProgProofs.
From BV Require Gen.P_queue.
Import ListNotations.
Open Scope Z_scope.

(* ------------------------------------------------------------------ Gen = Model *)
Lemma gen_qcode_eq : forall c, P_queue.code c = QueueCode.code c.
Proof.
  intro c. do 9 (destruct c as [|c]; [reflexivity|]). reflexivity.
Qed.

Lemma gen_qworld_eq : forall m, P_queue.queue_sems m = QueueCode.queue_sems m.
Proof. reflexivity. Qed.

Lemma gen_feed_eq : P_queue.FEED = QueueCode.FEED.
Proof. reflexivity. Qed.
