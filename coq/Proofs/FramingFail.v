(* C13: a sender that fails.  For ANY write script (OS errors included): if the
   first k send_bytes calls return normally and the next one raises the OS error,
   then the wire holds the k framed messages followed by a PROPER prefix of the
   framing of the failing one, and a receiver (any read script without an OS
   error) delivers exactly the k messages and then raises EOFError / OSError --
   never a short or altered message.  (Composition of the wire-format theorem
   with the end-of-stream theorem; the two sides are joined by the FIFO
   assumption only.) *)
From Coq Require Import ZArith List Bool Lia ZifyBool.
From BV Require Import Model.Framing Proofs.FramingProofs.
Import ListNotations.
Open Scope Z_scope.

Lemma len_pos_nonnil {A} (l : list A) : l <> [] -> 0 < len l.
Proof. destruct l; [congruence|]. intros _. rewrite len_cons. pose proof (len_nonneg l). lia. Qed.

Lemma nonnil_len_pos {A} (l : list A) : 0 < len l -> l <> [].
Proof. intros H ->. unfold len in H. cbn in H. lia. Qed.

(* the write-all loop on a non-empty buffer: an exception leaves a non-empty rest *)
Lemma send_loop_err_proper : forall o buf o' w t e,
    buf <> [] -> send_loop o buf = (o', w, t, Some e) ->
    exists rest, buf = w ++ rest /\ rest <> [].
Proof.
  induction o as [|r o IH]; intros buf o' w t e Hb H; cbn [send_loop] in H.
  - discriminate.
  - destruct r as [k| |].
    + set (n := sys_write k buf) in *.
      destruct (len buf - n =? 0) eqn:E; [discriminate|].
      destruct (send_loop o (drop n buf)) as [[[o2 w2] t2] e2] eqn:E2.
      injection H as <- <- <- ->.
      pose proof (len_pos_nonnil buf Hb) as Hl.
      pose proof (sys_write_bounds k buf Hl) as Hn. fold n in Hn.
      destruct (IH (drop n buf) o2 w2 t2 e) as (rest & Hr & Hne).
      { apply nonnil_len_pos. rewrite len_drop. lia. }
      { exact E2. }
      exists rest. split; [|exact Hne]. rewrite <- app_assoc, <- Hr, take_drop. reflexivity.
    + destruct (send_loop o buf) as [[[o2 w2] t2] e2] eqn:E2.
      injection H as <- <- <- ->. apply (IH buf o2 w2 t2 e Hb E2).
    + injection H as <- <- <- <-. exists buf. split; [reflexivity|exact Hb].
Qed.

(* _send_bytes interrupted by the OS: a proper prefix of header ++ payload is out *)
Lemma send_raw_err_proper o m o' w t :
  send_bytes_raw o m = (o', w, t, Some EIo) ->
  (exists rest, encode m = w ++ rest /\ rest <> []) /\ fits m.
Proof.
  unfold send_bytes_raw, fits. intros H.
  destruct (len m >? MAXLEN) eqn:Emax; [discriminate|]. split; [|lia].
  assert (Hh : be32 (len m) <> []) by discriminate.
  destruct (len m >? THRESH) eqn:Eth.
  - destruct (send_loop o (be32 (len m))) as [[[o1 w1] t1] e1] eqn:E1.
    destruct e1 as [e1|].
    + injection H as <- <- <- ->.
      destruct (send_loop_err_proper _ _ _ _ _ _ Hh E1) as (r1 & Hb & Hne).
      exists (r1 ++ m). unfold encode. rewrite Hb, <- app_assoc. split; [reflexivity|].
      destruct r1; [congruence|discriminate].
    + destruct (send_loop o1 m) as [[[o2 w2] t2] e2] eqn:E2.
      injection H as <- <- <- ->.
      destruct (send_loop_spec _ _ _ _ _ _ E1) as ((r1 & Hb1 & Hr1) & _).
      rewrite (Hr1 eq_refl), app_nil_r in Hb1.
      assert (Hm : m <> []) by (apply nonnil_len_pos; unfold THRESH in Eth; lia).
      destruct (send_loop_err_proper _ _ _ _ _ _ Hm E2) as (r2 & Hb2 & Hne).
      exists r2. unfold encode. rewrite Hb1, <- app_assoc, <- Hb2. split; [reflexivity|exact Hne].
  - assert (Hw : be32 (len m) ++ m <> []) by discriminate.
    destruct (send_loop_err_proper _ _ _ _ _ _ Hw H) as (r & Hb & Hne).
    exists r. split; [exact Hb|exact Hne].
Qed.

Lemma err_code_nonzero e : err_code e <> 0.
Proof. destruct e; cbn; lia. Qed.

Lemma code_of_zero e : code_of e = 0 -> e = None.
Proof. destruct e as [e|]; [|reflexivity]. cbn. intros H. destruct (err_code_nonzero e H). Qed.

Lemma code_of_io e : code_of e = 106 -> e = Some EIo.
Proof. destruct e as [e|]; [|discriminate]. destruct e; cbn; intros H; try discriminate; reflexivity. Qed.

(* the sends that returned normally, under ANY script: their framings are on the
   wire, in order, and the run goes on with the rest of the script *)
Lemma run_sender_ok_prefix : forall ops msgs c,
    Forall2 (valid_send c) ops msgs ->
    forall o more wire t obs_more,
      run_sender c o (ops ++ more) = (wire, t, map (fun _ => (0, flags c)) msgs ++ obs_more) ->
      Forall fits msgs /\
      exists o1 w2 t2, wire = wire_of msgs ++ w2 /\ run_sender c o1 more = (w2, t2, obs_more).
Proof.
  intros ops msgs c H. induction H as [|op m ops msgs Hv _ IH]; intros o more wire t obs_more E.
  - split; [constructor|]. exists o, wire, t. split; [reflexivity|exact E].
  - destruct Hv as (buf & off & size & lo & hi & -> & Ha & ->).
    cbn [app run_sender map] in E.
    destruct (send_bytes c o buf off size) as [[[o1 w1] t1] e] eqn:Es.
    destruct (run_sender c o1 (ops ++ more)) as [[w t'] obs] eqn:Er.
    injection E as <- <- Hc Ho.
    apply code_of_zero in Hc. subst e.
    pose proof (send_bytes_wire _ _ _ _ _ _ _ _ _ Es) as Hw. rewrite Ha in Hw. cbn zeta in Hw.
    destruct Hw as ((r & Hb & Hr) & Hf & _ & _).
    rewrite (Hr eq_refl), app_nil_r in Hb.
    rewrite Ho in Er. destruct (IH _ _ _ _ _ Er) as (Hfs & o2 & w2 & t2 & -> & E2).
    split; [constructor; [exact (Hf eq_refl)|exact Hfs]|].
    exists o2, w2, t2. split; [|exact E2].
    unfold wire_of. cbn [map concat]. rewrite Hb, <- app_assoc. reflexivity.
Qed.

(* k sends return normally, the next raises the OS error: what is on the wire *)
Lemma sender_failure_wire sc wo ops msgs op m wire tw fl :
  Forall2 (valid_send sc) ops msgs -> valid_send sc op m ->
  run_sender sc wo (ops ++ [op]) = (wire, tw, map (fun _ => (0, flags sc)) msgs ++ [(106, fl)]) ->
  Forall fits msgs /\ fits m /\
  exists partial more, wire = wire_of msgs ++ partial /\ encode m = partial ++ more /\ more <> [].
Proof.
  intros Hv Hop E.
  destruct (run_sender_ok_prefix ops msgs sc Hv _ _ _ _ _ E) as (Hfs & o1 & w2 & t2 & -> & E2).
  destruct Hop as (buf & off & size & lo & hi & -> & Ha & ->).
  cbn [run_sender] in E2. rewrite (send_bytes_accepted _ _ _ _ _ _ _ Ha) in E2.
  destruct (send_bytes_raw o1 (slice lo hi buf)) as [[[o2 w1] t1] e] eqn:Es.
  injection E2 as <- <- Hc _. apply code_of_io in Hc. subst e.
  destruct (send_raw_err_proper _ _ _ _ _ Es) as ((rest & Hb & Hne) & Hf).
  split; [exact Hfs|]. split; [exact Hf|].
  exists w1, rest. rewrite app_nil_r. split; [reflexivity|]. split; [exact Hb|exact Hne].
Qed.

(* ... and what the receiver makes of it *)
Lemma sender_failure sc rc wo ro ops msgs op m wire tw fl mxs mx :
  Forall2 (valid_send sc) ops msgs -> valid_send sc op m ->
  run_sender sc wo (ops ++ [op]) = (wire, tw, map (fun _ => (0, flags sc)) msgs ++ [(106, fl)]) ->
  openr rc -> ~ In RErr ro -> Forall2 max_ok msgs mxs -> max_ok m mx ->
  exists partial more s t,
    wire = wire_of msgs ++ partial /\ encode m = partial ++ more /\ more <> [] /\
    run_receiver rc ro wire (recvs mxs ++ [RRecv mx]) =
    (s, t, map (ok_obs rc) msgs ++
           [mk_robs (if (len partial =? 0) || (len partial =? 4) then 301 else 105)
                    [] (-1) [] (flags rc)]).
Proof.
  intros Hv Hop E Hr Hn Hm Hmx.
  destruct (sender_failure_wire sc wo ops msgs op m wire tw fl Hv Hop E)
    as (Hfs & Hf & partial & more & -> & He & Hne).
  destruct (eof_after msgs mxs rc ro m partial more mx Hr Hn Hfs Hm Hf Hmx He Hne) as (s & t & Er).
  exists partial, more, s, t. repeat split; assumption.
Qed.
