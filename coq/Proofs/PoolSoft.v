(* C06, trace level: over EVERY history of the pool model a job receives at most one
   soft-timeout callback (and hence at most one SIGUSR1 on its behalf).

   Invariant: a job that has had its soft callback and can still be visited by a scan
   (it is cached, or it is in the snapshot of a scan in progress) is in the scanner's
   dirty set.  Events other than scans leave the callback log, the dirty set and the
   snapshot alone and never put a job back into the cache ([Quiet]). *)
From Coq Require Import ZArith List Bool Lia ZifyBool.
From BV Require Import Lib.Cases Model.LaxSem Model.Restart Model.Pool
     Proofs.PoolJobs Proofs.PoolInv Proofs.PoolScan.
Import ListNotations.
Open Scope Z_scope.

Definition soft_count (x : job) : nat := length (filter fst (cb_tmo x)).

(* ------------------------------------------------------------ quiet job functions *)
Definition Q (x y : job) : Prop :=
  cb_tmo y = cb_tmo x /\ (incache x = false -> incache y = false).

Lemma Q_refl x : Q x x. Proof. split; auto. Qed.
Lemma Q_trans x y z : Q x y -> Q y z -> Q x z.
Proof. intros [a b] [c d]. split; [congruence|auto]. Qed.

Lemma Q_apply_set x p : Q x (apply_set x p).
Proof.
  unfold apply_set. destruct (ready x); [apply Q_refl|]. split; cbn; [reflexivity|].
  intros H. destruct (accepted x); auto.
Qed.
Lemma Q_map_set x p : Q x (map_set x p).
Proof.
  unfold map_set. destruct (payload_success p); [destruct (number_left x - 1 =? 0)|];
    split; cbn; auto; intros H; destruct (accepted x); auto.
Qed.
Lemma Q_mk_imap x inc rdy idx len uns its :
  (incache x = false -> inc = false) -> Q x (mk_imap x inc rdy idx len uns its).
Proof. intros H. split; cbn; auto. Qed.
Lemma Q_imap_set x i p : Q x (fst (imap_set x i p)).
Proof.
  unfold imap_set.
  destruct (if okey_eqb (Some (index x)) i
            then drain (length (unsorted x)) (index x + 1) (unsorted x) (items x ++ [p])
            else (index x, assoc_put i p (unsorted x), items x)) as [[idx uns] its].
  destruct (okey_eqb (Some idx) (ilength x)); cbn [fst]; apply Q_mk_imap; auto.
Qed.
Lemma Q_imapu_set x p : Q x (fst (imapu_set x p)).
Proof.
  unfold imapu_set. destruct (okey_eqb (Some (index x + 1)) (ilength x)); cbn [fst]; apply Q_mk_imap; auto.
Qed.
Lemma Q_job_set x i p : Q x (fst (job_set x i p)).
Proof.
  unfold job_set. destruct (kind x); cbn [fst];
    [apply Q_apply_set|apply Q_map_set|apply Q_imap_set|apply Q_imapu_set].
Qed.
Lemma Q_set_length x n : Q x (fst (set_length x n)).
Proof.
  unfold set_length. destruct (negb (is_imap x)); cbn [fst]; [apply Q_refl|].
  destruct (okey_eqb (Some (index x)) (Some n)); cbn [fst]; apply Q_mk_imap; auto.
Qed.
Lemma Q_apply_ack x t p : Q x (apply_ack x t p).
Proof. split; cbn; auto. intros H. destruct (ready x); auto. Qed.
Lemma Q_map_ack x i p : Q x (map_ack x i p).
Proof. split; cbn; auto. intros H. destruct (ready x); auto. Qed.
Lemma Q_imap_ack x p : Q x (imap_ack x p).
Proof. split; cbn; auto. Qed.
Lemma Q_uncache x : Q x (j_uncache x).
Proof. split; cbn; auto. Qed.
Lemma Q_set_lost x m : Q x (j_set_lost x m).
Proof. split; cbn; auto. Qed.
Lemma Q_mark_lost x : Q x (fst (mark_lost x)).
Proof. unfold mark_lost. destruct (worker_lost x) as [[t st]|]; [apply Q_job_set|apply Q_refl]. Qed.
Lemma Q_on_job_down s cl rem x : Q x (fst (on_job_down s cl rem x)).
Proof.
  unfold on_job_down. destruct (acked_by_gone cl rem x) as [p|]; [|apply Q_refl].
  destruct (ready x); [apply Q_refl|].
  destruct (memZ p cl && match get_proc s p with Some q => jterm q | None => false end);
    [apply Q_job_set|].
  destruct (worker_lost x); cbn [fst]; [apply Q_refl|apply Q_set_lost].
Qed.

(* ------------------------------------------------------------ quiet state changes *)
Definition jobsQ (l l' : list job) : Prop :=
  (forall n x, nth_error l n = Some x -> exists y, nth_error l' n = Some y /\ Q x y)
  /\ (forall n y, nth_error l' n = Some y -> (length l <= n)%nat -> cb_tmo y = []).

Definition Quiet (s s' : pool) : Prop :=
  dirty s' = dirty s /\ scan_todo s' = scan_todo s /\ jobsQ (jobs s) (jobs s').

Lemma jobsQ_refl l : jobsQ l l.
Proof.
  split.
  - intros n x H. exists x. split; [exact H|apply Q_refl].
  - intros n y H Hn. apply nth_error_None in Hn. congruence.
Qed.

Lemma jobsQ_trans a b c : jobsQ a b -> jobsQ b c -> jobsQ a c.
Proof.
  intros [H1 N1] [H2 N2]. split.
  - intros n x Hx. destruct (H1 n x Hx) as (y & Hy & Qxy). destruct (H2 n y Hy) as (z & Hz & Qyz).
    exists z. split; [exact Hz|eapply Q_trans; eauto].
  - intros n z Hz Hn.
    destruct (nth_error b n) as [y|] eqn:Hy.
    + destruct (H2 n y Hy) as (z' & Hz' & [E _]). assert (z' = z) by congruence. subst z'.
      rewrite E. apply (N1 n y Hy Hn).
    + apply (N2 n z Hz). apply nth_error_None. exact Hy.
Qed.

Lemma Quiet_refl s : Quiet s s.
Proof. split; [reflexivity|]. split; [reflexivity|apply jobsQ_refl]. Qed.
Lemma Quiet_trans a b c : Quiet a b -> Quiet b c -> Quiet a c.
Proof.
  intros (d1 & t1 & j1) (d2 & t2 & j2). split; [congruence|]. split; [congruence|].
  eapply jobsQ_trans; eauto.
Qed.

Lemma Quiet_same s s' : jobs s' = jobs s -> dirty s' = dirty s -> scan_todo s' = scan_todo s -> Quiet s s'.
Proof. intros Hj Hd Ht. split; [exact Hd|]. split; [exact Ht|]. rewrite Hj. apply jobsQ_refl. Qed.

Lemma jobsQ_upd l n f : (forall x, Q x (f x)) -> jobsQ l (upd_nth n f l).
Proof.
  intros Hf. split.
  - intros m x Hx. destruct (Nat.eq_dec n m) as [<-|Hne].
    + exists (f x). split; [apply nth_upd_nth_same; exact Hx|apply Hf].
    + exists x. split; [rewrite nth_upd_nth_other by exact Hne; exact Hx|apply Q_refl].
  - intros m y Hy Hm. assert (nth_error (upd_nth n f l) m = None)
      by (apply nth_error_None; rewrite length_upd_nth; exact Hm). congruence.
Qed.

Lemma Quiet_set_job s j f : (forall x, Q x (f x)) -> Quiet s (set_job s j f).
Proof.
  intros Hf. unfold Quiet, set_job. cbn [dirty scan_todo jobs]. split; [reflexivity|]. split; [reflexivity|].
  destruct (j <? 0); [apply jobsQ_refl|]. apply (jobsQ_upd _ _ _ Hf).
Qed.

Lemma Quiet_map_jobs s f : (forall x, Q x (f x)) -> Quiet s (map_jobs s f).
Proof.
  intros Hf. unfold Quiet, map_jobs. cbn [dirty scan_todo jobs]. split; [reflexivity|]. split; [reflexivity|].
  split.
  - intros n x Hx. exists (f x). split; [rewrite nth_error_map, Hx; reflexivity|apply Hf].
  - intros n y Hy Hn. assert (nth_error (map f (jobs s)) n = None)
      by (apply nth_error_None; rewrite map_length; exact Hn). congruence.
Qed.

Lemma Quiet_add_job s x : cb_tmo x = [] -> Quiet s (add_job s x).
Proof.
  intros Hx. unfold Quiet, add_job. cbn [dirty scan_todo jobs]. split; [reflexivity|]. split; [reflexivity|].
  split.
  - intros n y Hy. exists y. split; [|apply Q_refl].
    rewrite nth_error_app1; [exact Hy|]. apply nth_error_Some. congruence.
  - intros n y Hy Hn. rewrite nth_error_app2 in Hy by exact Hn.
    destruct (n - length (jobs s))%nat as [|k]; cbn in Hy; [inversion Hy; subst; exact Hx|].
    destruct k; discriminate.
Qed.

(* ------------------------------------------------------------ every non-scan event is quiet *)
Definition is_scan_event (e : event) : bool :=
  match e with EScan _ | EScanBegin | EScanStep _ | EScanEnd => true | _ => false end.

Lemma Quiet_feed_tasks : forall fuel i j k fa io s, Quiet s (fst (fst (feed_tasks fuel i j k fa io s))).
Proof.
  induction fuel as [|f IH]; intros; cbn [feed_tasks]; [apply Quiet_refl|].
  destruct (okey_eqb (Some k) fa); [|apply IH]. destruct io; [apply Quiet_refl|].
  eapply Quiet_trans; [|apply IH].
  destruct (cached s j) as [x|]; [|apply Quiet_refl].
  destruct (kind x); try (apply Quiet_set_job; intros y; apply Q_job_set).
  eapply Quiet_trans; [|apply Quiet_set_job; intros y; apply Q_uncache].
  eapply Quiet_trans; [|apply Quiet_set_job; intros y; apply Q_job_set].
  destruct (ready x); [apply Quiet_refl|apply Quiet_same; reflexivity].
Qed.

Lemma Quiet_do_feeds : forall fs k fa io s, Quiet s (fst (fst (do_feeds fs k fa io s))).
Proof.
  induction fs as [|[[j n] sl] r IH]; intros; cbn [do_feeds]; [apply Quiet_refl|].
  pose proof (Quiet_feed_tasks (Z.to_nat n) 0 j k fa io s) as H0.
  destruct (feed_tasks (Z.to_nat n) 0 j k fa io s) as [[s1 k1] st]. cbn [fst] in H0.
  destruct st; [exact H0|].
  assert (H1 : Quiet s1 (fst (if sl then
                               match get_job s1 j with
                               | Some x => (set_job s1 j (fun x0 => fst (set_length x0 n)), snd (set_length x n))
                               | None => (s1, false)
                               end else (s1, false)))).
  { destruct sl; [|apply Quiet_refl]. destruct (get_job s1 j); [|apply Quiet_refl].
    cbn [fst]. apply Quiet_set_job. intros y. apply Q_set_length. }
  destruct (if sl then
              match get_job s1 j with
              | Some x => (set_job s1 j (fun x0 => fst (set_length x0 n)), snd (set_length x n))
              | None => (s1, false)
              end else (s1, false)) as [s2 e]. cbn [fst] in H1.
  destruct e; cbn [fst]; [eapply Quiet_trans; eauto|].
  eapply Quiet_trans; [exact H0|]. eapply Quiet_trans; [exact H1|apply IH].
Qed.

Lemma Quiet_repopulate : forall fuel i codes s, Quiet s (fst (repopulate fuel i codes s)).
Proof.
  intros. apply Quiet_same.
  - apply (sj_repopulate fuel i codes s).
  - revert i s. induction fuel as [|f IH]; intros; cbn [repopulate]; [reflexivity|].
    destruct (negb (pstate s =? 0)); [reflexivity|].
    match goal with |- context [if ?c then Restart.step (rst s) (now s) else (rst s, false)] =>
      destruct (if c then Restart.step (rst s) (now s) else (rst s, false)) as [r raised] end.
    destruct raised; [reflexivity|]. destruct (avail_index (with_rst s r)); [|reflexivity].
    rewrite IH. reflexivity.
  - revert i s. induction fuel as [|f IH]; intros; cbn [repopulate]; [reflexivity|].
    destruct (negb (pstate s =? 0)); [reflexivity|].
    match goal with |- context [if ?c then Restart.step (rst s) (now s) else (rst s, false)] =>
      destruct (if c then Restart.step (rst s) (now s) else (rst s, false)) as [r raised] end.
    destruct raised; [reflexivity|]. destruct (avail_index (with_rst s r)); [|reflexivity].
    rewrite IH. reflexivity.
Qed.

Lemma Quiet_join_exited s : Quiet s (fst (join_exited s)).
Proof.
  unfold join_exited.
  set (s1 := mark_all_lost s).
  assert (H1 : Quiet s s1).
  { unfold s1, mark_all_lost. apply Quiet_map_jobs. intros x.
    destruct (lost_due s x); [apply Q_mark_lost|apply Q_refl]. }
  set (cl := filter (exited s1) (rev (wlist s1))).
  set (rem := filter (fun p => negb (exited s1 p)) (wlist s1)).
  assert (H2 : Quiet s (with_wlist s1 rem))
    by (eapply Quiet_trans; [exact H1|apply Quiet_same; reflexivity]).
  destruct cl as [|c0 cl0]; cbn [fst]; [exact H2|].
  eapply Quiet_trans; [exact H2|]. unfold down_all. apply Quiet_map_jobs. intros x.
  destruct (incache x); [apply Q_on_job_down|apply Q_refl].
Qed.

Lemma Quiet_do_tick s : Quiet s (fst (do_tick s)).
Proof.
  unfold do_tick. pose proof (Quiet_join_exited s) as H0.
  destruct (join_exited s) as [s1 codes]. cbn [fst] in H0.
  pose proof (Quiet_repopulate (Z.to_nat (nprocs s1 - Z.of_nat (length (wlist s1)))) 0 codes s1) as H3.
  destruct (repopulate _ 0 codes s1) as [s3 r]. cbn [fst] in H3.
  destruct r; cbn [fst];
    (eapply Quiet_trans; [exact H0|]; eapply Quiet_trans; [exact H3|apply Quiet_same; reflexivity]).
Qed.

Lemma Quiet_do_close s : Quiet s (do_close s).
Proof. unfold do_close. destruct (pstate s =? 0); [apply Quiet_same; reflexivity|apply Quiet_refl]. Qed.

Lemma Quiet_do_tick_close s k : Quiet s (fst (do_tick_close s k)).
Proof.
  unfold do_tick_close. pose proof (Quiet_join_exited s) as H0. pose proof (Quiet_do_tick s) as Ht.
  destruct (join_exited s) as [s1 codes]. cbn [fst] in H0.
  destruct (Z.to_nat (nprocs s1 - Z.of_nat (length (wlist s1))) <=? k)%nat; [exact Ht|].
  pose proof (Quiet_repopulate (S k) 0 codes s1) as H3.
  destruct (repopulate (S k) 0 codes s1) as [s3 r]. cbn [fst] in H3.
  destruct r; cbn [fst];
    try (eapply Quiet_trans; [exact H0|]; eapply Quiet_trans; [exact H3|apply Quiet_same; reflexivity]).
  eapply Quiet_trans; [exact H0|]. eapply Quiet_trans; [exact H3|].
  eapply Quiet_trans; [apply Quiet_do_close|apply Quiet_same; reflexivity].
Qed.

Lemma Quiet_shrink_loop : forall ws i n s, Quiet s (fst (shrink_loop ws i n s)).
Proof.
  intros. apply Quiet_same; [apply sj_shrink_loop| |].
  - revert i s. induction ws as [|p r IH]; intros; cbn [shrink_loop fst]; [reflexivity|].
    destruct (n - 1 <=? i); cbn [fst]; [reflexivity|]. rewrite IH. reflexivity.
  - revert i s. induction ws as [|p r IH]; intros; cbn [shrink_loop fst]; [reflexivity|].
    destruct (n - 1 <=? i); cbn [fst]; [reflexivity|]. rewrite IH. reflexivity.
Qed.

Lemma new_job_tmo s k : cb_tmo (new_job s k) = []. Proof. reflexivity. Qed.

Theorem Quiet_step s e : is_scan_event e = false -> Quiet s (fst (step s e)).
Proof.
  intros He. unfold step.
  eapply Quiet_trans; [apply (Quiet_same s (with_sigs s [])); reflexivity|].
  set (s0 := with_sigs s []).
  destruct e; try discriminate; cbn [fst].
  - unfold do_apply.
    destruct (negb (pstate s0 =? 0)); [apply Quiet_refl|].
    destruct ((match slot with Some b => b | None => putlocks s0 end) && (LaxSem.value (sem s0) =? 0)); [apply Quiet_refl|]. cbn [fst].
    destruct (match slot with Some b => b | None => putlocks s0 end).
    + eapply Quiet_trans; [apply (Quiet_same s0 (with_sem s0 (sstep' (sem s0) Acquire))); reflexivity|].
      apply Quiet_add_job. reflexivity.
    + apply Quiet_add_job. reflexivity.
  - unfold do_map. destruct (negb (pstate s0 =? 0)); [apply Quiet_refl|]. cbn [fst].
    match goal with |- Quiet s0 (with_feeds (add_job s0 ?x) _) =>
      apply (Quiet_trans s0 (add_job s0 x)); [apply Quiet_add_job; reflexivity|apply Quiet_same; reflexivity] end.
  - unfold do_imap. destruct (negb (pstate s0 =? 0)); [apply Quiet_refl|]. cbn [fst].
    match goal with |- Quiet s0 (with_feeds (add_job s0 ?x) _) =>
      apply (Quiet_trans s0 (add_job s0 x)); [apply Quiet_add_job; reflexivity|apply Quiet_same; reflexivity] end.
  - unfold do_imap. destruct (negb (pstate s0 =? 0)); [apply Quiet_refl|]. cbn [fst].
    match goal with |- Quiet s0 (with_feeds (add_job s0 ?x) _) =>
      apply (Quiet_trans s0 (add_job s0 x)); [apply Quiet_add_job; reflexivity|apply Quiet_same; reflexivity] end.
  - unfold do_feed. pose proof (Quiet_do_feeds (feeds s0) 0 fail_at io s0) as H.
    destruct (do_feeds (feeds s0) 0 fail_at io s0) as [[s1 rest] r]. cbn [fst] in *.
    eapply Quiet_trans; [exact H|apply Quiet_same; reflexivity].
  - unfold do_ack.
    eapply Quiet_trans; [apply (Quiet_same s0 (with_rst s0 (Restart.ack (rst s0)))); reflexivity|].
    destruct (cached _ j) as [x|]; [|apply Quiet_refl].
    destruct (kind x); cbn [fst].
    + apply Quiet_set_job. intros y. apply Q_apply_ack.
    + destruct i; cbn [fst]; [|apply Quiet_refl]. apply Quiet_set_job. intros y. apply Q_map_ack.
    + apply Quiet_set_job. intros y. apply Q_imap_ack.
    + apply Quiet_set_job. intros y. apply Q_imap_ack.
  - unfold do_ready. destruct (cached s0 j) as [x|]; [|apply Quiet_refl]. cbn [fst].
    set (s1 := if ready x then bump_counter s0 x
               else with_sem (bump_counter s0 x) (LaxSem.release (sem (bump_counter s0 x)))).
    assert (H1 : Quiet s0 s1).
    { apply Quiet_same; unfold s1, bump_counter;
        destruct (ready x); destruct (worker_pids x) as [|p0 l0]; try reflexivity;
          destruct (in_pool s0 p0); reflexivity. }
    eapply Quiet_trans; [exact H1|]. apply Quiet_set_job. intros y. apply Q_job_set.
  - apply Quiet_same; reflexivity.
  - apply Quiet_refl.
  - apply Quiet_same; reflexivity.
  - apply Quiet_refl.
  - apply Quiet_same; reflexivity.
  - apply Quiet_do_tick.
  - apply Quiet_same; reflexivity.
  - apply Quiet_set_job. intros y. apply Q_uncache.
  - unfold do_terminate_job. destruct (in_pool s0 p); cbn [fst]; [|apply Quiet_refl].
    apply Quiet_same; reflexivity.
  - apply Quiet_same; reflexivity.
  - unfold do_shrink. destruct (inactive s0) as [|w ws]; [apply Quiet_refl|].
    destruct (LaxSem.value (sem s0) <? Z.min (Z.max n 1) (Z.of_nat (length (w :: ws))));
      [apply Quiet_refl|]. apply Quiet_shrink_loop.
  - apply Quiet_do_close.
  - unfold do_next. destruct (get_job s0 j) as [x|]; [|apply Quiet_refl].
    destruct (negb (is_imap x)); [apply Quiet_refl|].
    destruct (items x); cbn [fst].
    + destruct (okey_eqb (Some (index x)) (ilength x)); cbn [fst]; [|apply Quiet_refl].
      apply Quiet_set_job. intros y. apply Q_mk_imap. auto.
    + apply Quiet_set_job. intros y. apply Q_mk_imap. auto.
  - apply Quiet_do_tick_close.
  - unfold do_join_shutdown. destruct (wlist s0); cbn [fst]; [|apply Quiet_join_exited].
    unfold mark_all_lost. apply Quiet_map_jobs. intros x.
    destruct (lost_due s0 x); [apply Q_mark_lost|apply Q_refl].
  - unfold do_apply_q, do_apply.
    destruct (negb (pstate s0 =? 0)); [apply Quiet_refl|].
    destruct ((match slot with Some b => b | None => putlocks s0 end) && (LaxSem.value (sem s0) =? 0));
      [apply Quiet_refl|]. cbn [fst].
    eapply Quiet_trans; [|apply Quiet_same; reflexivity].
    destruct (match slot with Some b => b | None => putlocks s0 end).
    + eapply Quiet_trans; [apply (Quiet_same s0 (with_sem s0 (sstep' (sem s0) Acquire))); reflexivity|].
      apply Quiet_add_job. reflexivity.
    + apply Quiet_add_job. reflexivity.
  - unfold do_apply_unsendable. destruct (negb (pstate s0 =? 0)); [apply Quiet_refl|].
    destruct (_ && _); apply Quiet_refl.
Qed.

(* ------------------------------------------------------------ the invariant *)
(* L = cache keys a scan may still visit (the snapshot remainder of a scan in progress) *)
Definition SoftInvL (L : list Z) (s : pool) : Prop :=
  forall j x, get_job s j = Some x ->
    (soft_count x <= 1)%nat /\
    (soft_count x = 1%nat -> (incache x = true \/ In j L) -> memZ j (dirty s) = true).

Definition SoftInv (s : pool) : Prop := SoftInvL (scan_todo s) s.

Lemma SoftInvL_weaken L L' s : incl L' L -> SoftInvL L s -> SoftInvL L' s.
Proof.
  intros Hi H j x Hg. destruct (H j x Hg) as [A B]. split; [exact A|].
  intros Hc [Hin|Hin]; apply B; auto.
Qed.

Lemma get_job_quiet s s' j y :
  Quiet s s' -> get_job s' j = Some y ->
  (exists x, get_job s j = Some x /\ Q x y) \/ (get_job s j = None /\ cb_tmo y = []).
Proof.
  intros (_ & _ & [H1 N1]) Hy. unfold get_job in *. destruct (j <? 0); [discriminate|].
  destruct (nth_error (jobs s) (Z.to_nat j)) as [x|] eqn:Hx.
  - left. destruct (H1 _ _ Hx) as (y' & Hy' & Hq). exists x. split; [reflexivity|]. congruence.
  - right. split; [reflexivity|]. apply (N1 _ _ Hy). apply nth_error_None. exact Hx.
Qed.

Lemma SoftInv_quiet s s' : Quiet s s' -> SoftInv s -> SoftInv s'.
Proof.
  intros Hq Hi. unfold SoftInv. destruct Hq as (Hd & Ht & Hj). rewrite Ht.
  intros j y Hy.
  destruct (get_job_quiet s s' j y (conj Hd (conj Ht Hj)) Hy) as [(x & Hx & [Et Ec])|[_ Et]].
  - destruct (Hi j x Hx) as [A B]. unfold soft_count in *. rewrite Et. split; [exact A|].
    intros H1 H2. rewrite Hd. apply B; [exact H1|].
    destruct H2 as [H2|H2]; [left|right; exact H2].
    destruct (incache x) eqn:E; [reflexivity|]. rewrite (Ec eq_refl) in H2. discriminate.
  - unfold soft_count. rewrite Et. cbn. split; [lia|]. intros H; discriminate.
Qed.

(* one scan step *)
Lemma memZ_app x l y : memZ x (l ++ [y]) = memZ x l || (x =? y).
Proof. unfold memZ. rewrite existsb_app. cbn. rewrite orb_false_r. reflexivity. Qed.

Lemma soft_count_add x t :
  soft_count (j_add_tmo x t) = (soft_count x + (if fst t then 1 else 0))%nat.
Proof.
  unfold soft_count, j_add_tmo. cbn [cb_tmo]. rewrite filter_app, app_length. cbn.
  destruct (fst t); cbn; lia.
Qed.

Lemma todo_scan_job l s j : scan_todo (scan_job l s j) = scan_todo s.
Proof.
  unfold scan_job. destruct (get_job s j) as [x|]; [|reflexivity].
  destruct (kind x); try reflexivity. destruct (time_accepted x) as [t|]; [|reflexivity].
  destruct (timed_out s (Some t) (eff_hard s x)).
  - unfold on_hard. destruct (ready x); [reflexivity|].
    destruct (owner x) as [p|]; [|reflexivity]. destruct (in_pool _ p); [|reflexivity].
    destruct (negb (exit_of _ p =? 0) && exited _ p); reflexivity.
  - destruct (negb (memZ j (dirty s)) && timed_out s (Some t) (eff_soft s x)); [|reflexivity].
    cbn [scan_todo with_dirty]. unfold on_soft. destruct (ready x); [reflexivity|].
    destruct (owner x) as [p|]; [|reflexivity]. destruct (in_pool s p); reflexivity.
Qed.

Lemma dirty_scan_job_mono l s j k : memZ k (dirty s) = true -> memZ k (dirty (scan_job l s j)) = true.
Proof.
  intros H. unfold scan_job. destruct (get_job s j) as [x|]; [|exact H].
  destruct (kind x); try exact H. destruct (time_accepted x) as [t|]; [|exact H].
  destruct (timed_out s (Some t) (eff_hard s x)).
  - unfold on_hard. destruct (ready x); [exact H|].
    destruct (owner x) as [p|]; [|exact H]. destruct (in_pool _ p); [|exact H].
    destruct (negb (exit_of _ p =? 0) && exited _ p); exact H.
  - destruct (negb (memZ j (dirty s)) && timed_out s (Some t) (eff_soft s x)); [|exact H].
    cbn [dirty with_dirty]. rewrite memZ_app, H. reflexivity.
Qed.

(* what one step does to the job it visits: nothing, or a hard-timeout record (no soft
   entry), or -- only when j was not dirty -- one soft entry, after which j is dirty *)
Lemma scan_job_self l s j x : 0 <= j -> get_job s j = Some x ->
  exists y, get_job (scan_job l s j) j = Some y /\
    ((soft_count y = soft_count x) \/
     (memZ j (dirty s) = false /\ soft_count y = S (soft_count x) /\ memZ j (dirty (scan_job l s j)) = true)).
Proof.
  intros Hj Hg. unfold scan_job. rewrite Hg.
  destruct (kind x) eqn:Hk; try (exists x; split; [exact Hg|left; reflexivity]).
  destruct (time_accepted x) as [t|] eqn:Ht; [|exists x; split; [exact Hg|left; reflexivity]].
  destruct (timed_out s (Some t) (eff_hard s x)) eqn:Hh.
  - unfold on_hard. destruct (ready x) eqn:Hr; [exists x; split; [exact Hg|left; reflexivity]|].
    set (s1 := set_job s j _).
    assert (H1 : get_job s1 j = Some (hard_result x))
      by (unfold s1; rewrite get_set_job_same by exact Hj; rewrite Hg; reflexivity).
    exists (hard_result x). split.
    + destruct (owner x) as [p|]; [|exact H1]. destruct (in_pool s1 p); [|exact H1].
      destruct (negb (exit_of (deliver s1 p SIGTERM l) p =? 0) && exited (deliver s1 p SIGTERM l) p);
        rewrite <- H1; apply get_job_sj; [apply sj_deliver|eapply sj_trans; apply sj_deliver].
    + left. unfold hard_result. rewrite soft_count_add. cbn [fst].
      unfold soft_count. destruct (Q_apply_set x (PTimeLimit (hard x))) as [E _]. rewrite E. lia.
  - destruct (negb (memZ j (dirty s))) eqn:Hd; cbn [andb]; [|exists x; split; [exact Hg|left; reflexivity]].
    destruct (timed_out s (Some t) (eff_soft s x)); [|exists x; split; [exact Hg|left; reflexivity]].
    apply negb_true_iff in Hd.
    assert (Hdirty : memZ j (dirty (with_dirty (on_soft s j x l) (dirty s ++ [j]))) = true)
      by (cbn [dirty with_dirty]; rewrite memZ_app, Z.eqb_refl, orb_true_r; reflexivity).
    rewrite (get_job_sj _ _ j (sj_with_dirty _ _)).
    unfold on_soft. destruct (ready x); [exists x; split; [exact Hg|left; reflexivity]|].
    destruct (owner x) as [p|]; [|exists x; split; [exact Hg|left; reflexivity]].
    destruct (in_pool s p); [|exists x; split; [exact Hg|left; reflexivity]].
    exists (j_add_tmo x (true, soft x)). split.
    + rewrite (get_job_sj _ _ j (sj_deliver _ p SIGUSR1 l)).
      rewrite get_set_job_same by exact Hj. rewrite Hg. reflexivity.
    + right. split; [exact Hd|]. split; [rewrite soft_count_add; cbn [fst]; lia|exact Hdirty].
Qed.

Lemma incache_scan_job_self l s j x y :
  get_job s j = Some x -> get_job (scan_job l s j) j = Some y -> incache x = false -> incache y = false.
Proof.
  intros Hg Hy Hc.
  destruct (get_job_nth _ _ _ Hg) as [Hj Hn].
  assert (Hgood : jobs_mono (jobs s) (jobs (scan_job l s j))).
  { (* monotonicity does not need the invariant here: reuse the frame characterisation *)
    intros n x0 Hx0. destruct (Nat.eq_dec n (Z.to_nat j)) as [->|Hne].
    - assert (x0 = x) by congruence. subst x0. exists y. split.
      + unfold get_job in Hy. replace (j <? 0) with false in Hy by lia. exact Hy.
      + (* y is x, a hard result of x, or x with a soft entry *)
        revert Hy. unfold scan_job. rewrite Hg.
        destruct (kind x); try (intros E; assert (y = x) by congruence; subst; apply jmono_refl).
        destruct (time_accepted x) as [t|]; [|intros E; assert (y = x) by congruence; subst; apply jmono_refl].
        destruct (timed_out s (Some t) (eff_hard s x)).
        * unfold on_hard. destruct (ready x); [intros E; assert (y = x) by congruence; subst; apply jmono_refl|].
          set (s1 := set_job s j _).
          assert (H1 : get_job s1 j = Some (hard_result x))
            by (unfold s1; rewrite get_set_job_same by exact Hj; rewrite Hg; reflexivity).
          intros E.
          assert (Hy' : get_job s1 j = Some y).
          { revert E. destruct (owner x) as [p|]; [|auto]. destruct (in_pool s1 p); [|auto].
            destruct (negb (exit_of (deliver s1 p SIGTERM l) p =? 0) && exited (deliver s1 p SIGTERM l) p);
              intros E; rewrite <- E; symmetry; apply get_job_sj;
                [apply sj_deliver|eapply sj_trans; apply sj_deliver]. }
          assert (y = hard_result x) by congruence. subst y. unfold hard_result.
          eapply jmono_trans; [apply apply_set_mono|apply j_add_tmo_mono].
        * destruct (negb (memZ j (dirty s)) && timed_out s (Some t) (eff_soft s x));
            [|intros E; assert (y = x) by congruence; subst; apply jmono_refl].
          rewrite (get_job_sj _ _ j (sj_with_dirty _ _)).
          unfold on_soft. destruct (ready x); [intros E; assert (y = x) by congruence; subst; apply jmono_refl|].
          destruct (owner x) as [p|]; [|intros E; assert (y = x) by congruence; subst; apply jmono_refl].
          destruct (in_pool s p); [|intros E; assert (y = x) by congruence; subst; apply jmono_refl].
          rewrite (get_job_sj _ _ j (sj_deliver _ p SIGUSR1 l)).
          rewrite get_set_job_same by exact Hj. rewrite Hg. intros E. inversion E. apply j_add_tmo_mono.
    - exists x0. split; [|apply jmono_refl].
      assert (Hn0 : 0 <= Z.of_nat n) by lia.
      pose proof (scan_job_other l s j (Z.of_nat n) ltac:(lia) Hn0) as Ho.
      unfold get_job in Ho. replace (Z.of_nat n <? 0) with false in Ho by lia.
      rewrite Nat2Z.id in Ho. rewrite Ho. exact Hx0. }
  destruct (Hgood _ _ Hn) as (y' & Hy' & Hm).
  unfold get_job in Hy. replace (j <? 0) with false in Hy by lia.
  assert (y' = y) by congruence. subst y'. apply (jm_uncached _ _ Hm Hc).
Qed.

Lemma SoftInvL_scan_job l L s j : 0 <= j -> SoftInvL (j :: L) s -> SoftInvL L (scan_job l s j).
Proof.
  intros Hj Hi k y Hy.
  destruct (Z.eq_dec j k) as [<-|Hne].
  - (* the visited job *)
    destruct (get_job s j) as [x|] eqn:Hg.
    + destruct (Hi j x Hg) as [A B].
      destruct (scan_job_self l s j x Hj Hg) as (y' & Hy' & Hc). assert (y' = y) by congruence. subst y'.
      destruct Hc as [Hsame|(Hnd & Hs & Hd)].
      * rewrite Hsame. split; [exact A|]. intros H1 H2.
        apply dirty_scan_job_mono. apply B; [exact H1|].
        destruct H2 as [H2|H2]; [|right; right; exact H2].
        destruct (incache x) eqn:E; [left; reflexivity|].
        rewrite (incache_scan_job_self l s j x y Hg Hy E) in H2. discriminate.
      * (* it was not dirty, so it had no soft entry yet *)
        assert (H0 : soft_count x = 0%nat).
        { destruct (soft_count x) as [|[|n]] eqn:E; [reflexivity| |lia].
          rewrite (B eq_refl (or_intror (or_introl eq_refl))) in Hnd. discriminate. }
        rewrite Hs, H0. split; [lia|]. intros _ _. exact Hd.
    + (* no such job: the step does nothing *)
      unfold scan_job in Hy. rewrite Hg in Hy. congruence.
  - (* another job: untouched; the dirty set only grows *)
    destruct (get_job_nth _ _ _ Hy) as [Hk _].
    rewrite scan_job_other in Hy by assumption.
    destruct (Hi k y Hy) as [A B]. split; [exact A|].
    intros H1 H2. apply dirty_scan_job_mono. apply B; [exact H1|].
    destruct H2 as [H2|H2]; [left; exact H2|right; right; exact H2].
Qed.

Lemma SoftInvL_with_todo L s t : SoftInvL L s -> SoftInvL L (with_todo s t).
Proof. intros H j x Hg. apply (H j x Hg). Qed.

Lemma snapshot_sound s j : AllJ s -> In j (snapshot s) ->
  exists x, get_job s j = Some x /\ incache x = true.
Proof.
  intros Ha Hin. unfold snapshot in Hin. apply in_map_iff in Hin. destruct Hin as (x & Hid & Hf).
  apply filter_In in Hf. destruct Hf as [Hin Hc]. apply In_nth_error in Hin. destruct Hin as [n Hn].
  destruct (Ha _ _ Hn) as [_ Hid']. exists x. split; [|exact Hc].
  unfold get_job. replace (j <? 0) with false by lia. replace (Z.to_nat j) with n by lia. exact Hn.
Qed.

(* the snapshot taken at the start of a scan *)
Lemma SoftInvL_begin L s :
  AllJ s -> SoftInvL L s ->
  SoftInvL (snapshot s) (with_dirty s (filter (fun j => memZ j (snapshot s)) (dirty s))).
Proof.
  intros Ha Hi j x Hg. change (get_job s j = Some x) in Hg.
  destruct (Hi j x Hg) as [A B]. split; [exact A|].
  intros H1 H2. cbn [dirty with_dirty].
  assert (Hc : incache x = true).
  { destruct H2 as [H2|H2]; [exact H2|].
    destruct (snapshot_sound s j Ha H2) as (x' & Hx' & Hc'). congruence. }
  apply scan_keeps_dirty; [apply B; auto|]. eapply in_snapshot; eauto.
Qed.

Lemma all_nonneg_snapshot s : AllJ s -> forall j, In j (snapshot s) -> 0 <= j.
Proof. intros Ha j. apply snapshot_nonneg. exact Ha. Qed.

(* a full scan: begin, visit every key of the snapshot, end *)
Lemma SoftInvL_fold l : forall snap L s,
    (forall j, In j snap -> 0 <= j) -> SoftInvL (snap ++ L) s -> SoftInvL L (fold_left (scan_job l) snap s).
Proof.
  induction snap as [|j snap IH]; intros L s Hn Hi; cbn [fold_left app] in *; [exact Hi|].
  apply IH; [intros k Hk; apply Hn; right; exact Hk|].
  apply SoftInvL_scan_job; [apply Hn; left; reflexivity|exact Hi].
Qed.

Theorem SoftInv_step s e : AllJ s -> SoftInv s -> SoftInv (fst (step s e)).
Proof.
  intros Ha Hi.
  destruct (is_scan_event e) eqn:He; [|apply (SoftInv_quiet s); [apply Quiet_step; exact He|exact Hi]].
  assert (H0 : SoftInv (with_sigs s [])) by exact Hi.
  assert (Ha0 : AllJ (with_sigs s [])) by exact Ha.
  destruct e; try discriminate; unfold step; cbn [fst]; set (s0 := with_sigs s []) in *.
  - (* EScan: snapshot, all steps, nothing left to visit *)
    unfold SoftInv. cbn [scan_todo with_todo]. apply SoftInvL_with_todo.
    unfold do_scan. destruct (negb (scanner s0)); cbn [fst]; [eapply SoftInvL_weaken; [|exact H0]; intros k []|].
    change (map jid (filter incache (jobs s0))) with (snapshot s0).
    apply SoftInvL_fold; [apply all_nonneg_snapshot; exact Ha0|].
    rewrite app_nil_r. apply (SoftInvL_begin (scan_todo s0)); assumption.
  - (* EScanBegin *)
    destruct (negb (scanner s0)); cbn [fst]; [exact H0|].
    unfold SoftInv. cbn [scan_todo with_todo]. apply SoftInvL_with_todo.
    change (map jid (filter incache (jobs s0))) with (snapshot s0).
    apply (SoftInvL_begin (scan_todo s0)); assumption.
  - (* EScanStep *)
    unfold SoftInv in H0. destruct (scan_todo s0) as [|j r] eqn:Et; cbn [fst].
    + unfold SoftInv. rewrite Et. exact H0.
    + unfold SoftInv. cbn [scan_todo with_todo]. apply SoftInvL_with_todo.
      destruct (Z_lt_le_dec j 0) as [Hneg|Hj].
      * (* a negative key names no job: the step does nothing *)
        assert (Hno : scan_job lingers s0 j = s0).
        { unfold scan_job, get_job. replace (j <? 0) with true by lia. reflexivity. }
        rewrite Hno. eapply SoftInvL_weaken; [|exact H0]. intros k Hk. right. exact Hk.
      * apply SoftInvL_scan_job; assumption.
  - (* EScanEnd *)
    unfold SoftInv. cbn [scan_todo with_todo]. apply SoftInvL_with_todo.
    eapply SoftInvL_weaken; [|exact H0]. intros k [].
Qed.

Lemma SoftInv_init c : SoftInv (init c).
Proof.
  intros j x Hg. exfalso. unfold init in Hg.
  assert (H : forall n i s, jobs s = [] -> jobs (start_n n i s) = []).
  { induction n as [|n IH]; intros i s Hs; cbn; [exact Hs|]. apply IH. exact Hs. }
  unfold get_job in Hg. destruct (j <? 0); [discriminate|]. rewrite H in Hg by reflexivity.
  destruct (Z.to_nat j); discriminate.
Qed.

(* C06, all histories: every job has had at most one soft-timeout callback *)
Theorem soft_at_most_once c tr j x :
  get_job (run c tr) j = Some x -> (soft_count x <= 1)%nat.
Proof.
  assert (Hrun : forall tr0 s, AllJ s -> SoftInv s ->
             AllJ (fold_left (fun s e => fst (step s e)) tr0 s) /\
             SoftInv (fold_left (fun s e => fst (step s e)) tr0 s)).
  { induction tr0 as [|e tr0 IH]; intros s Ha Hi; cbn; [split; assumption|].
    apply IH; [apply (good_step s e Ha)|apply SoftInv_step; assumption]. }
  intros Hg. destruct (Hrun tr (init c) (AllJ_init c) (SoftInv_init c)) as [_ Hi].
  apply (Hi j x Hg).
Qed.
