(* C03, audit follow-up: the SYN channel as one shared stream, "every announced job is
   answered or refused", and the closed handshake worker || parent (the link between the
   pool's two switches `synack` and "workers have a SYN queue"). *)
From Coq Require Import ZArith List Bool Lia ZifyBool.
From BV Require Import Lib.PyVal Model.Worker Proofs.WorkerProofs.
Import ListNotations.
Open Scope Z_scope.

(* ------------------------------------------------------------------ *)
(* 1. the shared stream                                                  *)
Lemma wait_for_syn_s_fst l :
  fst (wait_for_syn_s l) = wait_for_syn l.
Proof.
  induction l as [|e r IH]; cbn [wait_for_syn_s wait_for_syn]; [reflexivity|].
  destruct (protected_receive e); cbn [fst]; try reflexivity;
    destruct (wait_for_syn_s r) as [[o n] rest]; cbn [fst] in IH; rewrite <- IH; reflexivity.
Qed.

Lemma syn_result_s_closed c q :
  syn_closed q = true ->
  syn_result_s c q [] = (fst (syn_result c q), snd (syn_result c q), []).
Proof.
  unfold syn_closed, syn_result_s, syn_result. intros H. cbn [app].
  destruct (has_syn c); [|reflexivity].
  rewrite <- wait_for_syn_s_fst.
  destruct (wait_for_syn_s (q_syn q)) as [[o n] rest]; cbn [fst snd] in *.
  destruct rest; [reflexivity|discriminate].
Qed.

Lemma pre_s_pair l t : pre_s l (t, []) = (pre l t, []).
Proof. destruct t as [[l' x] n]. reflexivity. Qed.

(* when every job's segment of the SYN stream is read to its end by that job's own wait,
   the worker over ONE shared stream behaves exactly as the per-job model, and nothing is
   ever left behind for another job: every answer is consumed by the job it was sent for *)
Theorem shared_stream_eq c : forall ins n,
    (forall q, In (RMsg q) ins -> syn_closed q = true) ->
    loop_s c n ins [] = (loop c n ins, []).
Proof.
  induction ins as [|e rest IH]; intros n Hc.
  - cbn [loop_s loop]. destruct (guard (maxtasks c) n); reflexivity.
  - assert (Hrest : forall q, In (RMsg q) rest -> syn_closed q = true)
      by (intros q Hq; apply Hc; right; exact Hq).
    cbn [loop_s loop]. destruct (guard (maxtasks c) n); [|reflexivity].
    destruct e as [| | | | | | |q]; cbn [protected_receive]; try reflexivity;
      try (rewrite (IH n Hrest), pre_s_pair; reflexivity).
    destruct (negb (task_ok (q_ty q))); [reflexivity|].
    rewrite (syn_result_s_closed c q (Hc q (or_introl eq_refl))).
    change (accept_events_n c q (snd (syn_result c q))) with (accept_events c q).
    destruct (fst (syn_result c q)); try reflexivity.
    + destruct (task_escapes q); [reflexivity|].
      destruct (mem_exceeded (eff_maxmem c) (q_mem q)); [reflexivity|].
      rewrite (IH (n + 1) Hrest), pre_s_pair. reflexivity.
    + rewrite (IH n Hrest), pre_s_pair. reflexivity.
Qed.

Corollary workloop_shared_eq c ins :
  (forall q, In (RMsg q) ins -> syn_closed q = true) ->
  workloop_s c ins = workloop c ins.
Proof.
  intros H. unfold workloop_s, workloop. rewrite (shared_stream_eq c ins 0 H).
  destruct (loop c 0 ins) as [[l x] n]. reflexivity.
Qed.

(* segments of the shape "empty polls, then one final event" are closed *)
Definition nonanswer (e : rcv Z) : bool :=
  match e with RTimeout | REintr | RFalsy => true | _ => false end.

Lemma wait_for_syn_s_delay d tail :
  forallb nonanswer d = true ->
  wait_for_syn_s (d ++ tail) =
  let '(o, n, rest) := wait_for_syn_s tail in (o, (length d + n)%nat, rest).
Proof.
  induction d as [|e d IH]; intros H; cbn [app forallb length] in *.
  - destruct (wait_for_syn_s tail) as [[o n] rest]. reflexivity.
  - apply andb_prop in H. destruct H as [He Hd].
    destruct e; try discriminate He; cbn [wait_for_syn_s protected_receive];
      rewrite (IH Hd); destruct (wait_for_syn_s tail) as [[o n] rest]; reflexivity.
Qed.

Lemma wait_for_syn_delay d tail :
  forallb nonanswer d = true ->
  wait_for_syn (d ++ tail) =
  (fst (wait_for_syn tail), (length d + snd (wait_for_syn tail))%nat).
Proof.
  intros H. rewrite <- !wait_for_syn_s_fst, (wait_for_syn_s_delay d tail H).
  destruct (wait_for_syn_s tail) as [[o n] rest]. reflexivity.
Qed.

Lemma closed_delay_answer q d r :
  q_syn q = d ++ [RMsg r] -> forallb nonanswer d = true -> syn_closed q = true.
Proof.
  intros E H. unfold syn_closed. rewrite E, (wait_for_syn_s_delay d _ H). reflexivity.
Qed.

Lemma closed_delay_only q :
  forallb nonanswer (q_syn q) = true -> syn_closed q = true.
Proof.
  intros H. unfold syn_closed. rewrite <- (app_nil_r (q_syn q)), (wait_for_syn_s_delay _ _ H).
  reflexivity.
Qed.

(* ------------------------------------------------------------------ *)
(* 2. every announced job is answered or refused                         *)
Lemma syn_decide_false ty : Worker.syn_decide ty = Some false <-> ty = NACK.
Proof.
  unfold Worker.syn_decide. destruct (ty =? NACK) eqn:E.
  - split; [intros _; lia|reflexivity].
  - destruct (ty =? ACK); split; intros H; try discriminate; lia.
Qed.

Lemma wait_for_syn_false l :
  fst (wait_for_syn l) = SynFalse <-> first_answer l = Some NACK.
Proof.
  induction l as [|e r IH]; cbn [wait_for_syn first_answer].
  - cbn. split; discriminate.
  - destruct (protected_receive e) as [| |ty|code]; cbn [fst].
    + destruct (wait_for_syn r); exact IH.
    + destruct (wait_for_syn r); exact IH.
    + split.
      * intros H. destruct (Worker.syn_decide ty) as [[|]|] eqn:E; try discriminate H.
        apply syn_decide_false in E. rewrite E. reflexivity.
      * intros H. inversion H. reflexivity.
    + split; discriminate.
Qed.

(* a job the worker has left behind is settled: executed to the end with its READY written,
   or refused -- the first answer on the SYN channel for it was the parent's NACK *)
Definition settled (c : cfg) (q : req) : Prop :=
  (confirmed c q = true /\ escapes q = false) \/
  (has_syn c = true /\ first_answer (q_syn q) = Some NACK).

Lemma settled_block_ready c q :
  confirmed c q = true -> escapes q = false ->
  block c q = [EPut (ack_msg c q); ERun (q_job q) (q_i q);
               EPut (ready_msg c q (final_res (q_beh q)))].
Proof. intros H1 H2. unfold block. rewrite H1, H2. reflexivity. Qed.

Lemma in_removelast_cons {A} (x q : A) l :
  In x (removelast (q :: l)) -> (x = q /\ l <> []) \/ In x (removelast l).
Proof.
  destruct l as [|y l]; cbn [removelast]; [intros []|].
  intros [H|H]; [left; split; [auto|discriminate]|right; exact H].
Qed.

Theorem loop_grammar_settled c : forall ins n, exists k,
    proto (evs (loop c n ins)) = flat_map (block c) (firstn k (tasks ins)) /\
    cnt (loop c n ins) = n + Z.of_nat (length (filter (counted c) (firstn k (tasks ins)))) /\
    forall q, In q (removelast (firstn k (tasks ins))) -> settled c q.
Proof.
  induction ins as [|e rest IH]; intros n.
  - exists O. destruct (guard (maxtasks c) n) eqn:G.
    + rewrite loop_nil by exact G. cbn. (split; [reflexivity|split; [lia|intros q0 []]]).
    + rewrite loop_stop by exact G. cbn. (split; [reflexivity|split; [lia|intros q0 []]]).
  - destruct (guard (maxtasks c) n) eqn:G;
      [|exists O; rewrite loop_stop by exact G; cbn; (split; [reflexivity|split; [lia|intros q0 []]])].
    loop_cases c n e rest G;
      try (exists O; cbn; (split; [reflexivity|split; [lia|intros q0 []]]));
      try (destruct (IH n) as [k [Hp [Hc Hs]]]; exists k;
           rewrite pre_evs, pre_cnt; cbn [tasks app proto filter is_proto];
           (split; [assumption|split; assumption])).
    + exists 1%nat. cbn [tasks]. rewrite Hty. cbn [firstn flat_map filter removelast].
      unfold evs, cnt. cbn [fst snd]. unfold counted, block, confirmed, escapes.
      rewrite Hsyn, Hesc. rewrite proto_app, proto_accept, app_nil_r. cbn.
      (split; [reflexivity|split; [lia|intros q0 []]]).
    + exists 1%nat. cbn [tasks]. rewrite Hty. cbn [firstn flat_map filter removelast].
      unfold evs, cnt. cbn [fst snd]. unfold counted, block, confirmed, escapes.
      rewrite Hsyn, Hesc. cbn [andb negb].
      rewrite proto_app, proto_accept, proto_exec, app_nil_r. cbn [length].
      (split; [reflexivity|split; [lia|intros q0 []]]).
    + destruct (IH (n + 1)) as [k [Hp [Hc Hs]]]. exists (S k).
      rewrite pre_evs, pre_cnt. cbn [tasks]. rewrite Hty. cbn [firstn flat_map filter].
      unfold counted at 1, block at 1, confirmed, escapes. rewrite Hsyn, Hesc. cbn [andb negb].
      rewrite !proto_app, proto_accept, proto_exec, Hp. cbn [length].
      split; [reflexivity|]. split.
      * fold (confirmed c) in *. unfold counted in Hc. unfold counted. lia.
      * intros q0 Hq0. apply in_removelast_cons in Hq0. destruct Hq0 as [[-> _]|Hq0].
        -- left. unfold confirmed, escapes. rewrite Hsyn, Hesc. split; reflexivity.
        -- apply Hs. exact Hq0.
    + destruct (IH n) as [k [Hp [Hc Hs]]]. exists (S k).
      rewrite pre_evs, pre_cnt. cbn [tasks]. rewrite Hty. cbn [firstn flat_map filter].
      unfold counted at 1, block at 1, confirmed. rewrite Hsyn. cbn [andb].
      rewrite proto_app, proto_accept, Hp. split; [reflexivity|]. split; [exact Hc|].
      intros q0 Hq0. apply in_removelast_cons in Hq0. destruct Hq0 as [[-> _]|Hq0].
      * right. destruct (syn_false_has_syn c q Hsyn) as [Hh _]. split; [exact Hh|].
        apply wait_for_syn_false. unfold syn_result in Hsyn. rewrite Hh in Hsyn. exact Hsyn.
      * apply Hs. exact Hq0.
    + exists 1%nat. cbn [tasks]. rewrite Hty. cbn [firstn flat_map filter removelast].
      unfold evs, cnt, counted, block, confirmed. cbn [fst snd]. rewrite Hsyn, proto_accept.
      cbn. (split; [reflexivity|split; [lia|intros q0 []]]).
    + exists 1%nat. cbn [tasks]. rewrite Hty. cbn [firstn flat_map filter removelast].
      unfold evs, cnt, counted, block, confirmed. cbn [fst snd]. rewrite Hsyn, proto_accept.
      cbn. (split; [reflexivity|split; [lia|intros q0 []]]).
    + exists 1%nat. cbn [tasks]. rewrite Hty. cbn [firstn flat_map filter removelast].
      unfold evs, cnt, counted, block, confirmed. cbn [fst snd]. rewrite Hsyn, proto_accept.
      cbn. (split; [reflexivity|split; [lia|intros q0 []]]).
Qed.

Theorem workloop_acked_answered_or_refused c ins : exists k,
    proto (w_events c ins) = flat_map (block c) (firstn k (tasks ins)) /\
    forall q, In q (removelast (firstn k (tasks ins))) ->
              (block c q = [EPut (ack_msg c q); ERun (q_job q) (q_i q);
                            EPut (ready_msg c q (final_res (q_beh q)))])
              \/ (block c q = [EPut (ack_msg c q)] /\ has_syn c = true /\
                  first_answer (q_syn q) = Some NACK).
Proof.
  rewrite w_events_eq. destruct (loop_grammar_settled c ins 0) as [k [Hp [_ Hs]]].
  exists k. split; [exact Hp|]. intros q Hq. destruct (Hs q Hq) as [[H1 H2]|[H1 H2]].
  - left. apply settled_block_ready; assumption.
  - right. split; [|split; assumption]. unfold block, confirmed, syn_result. rewrite H1.
    apply wait_for_syn_false in H2. rewrite H2. reflexivity.
Qed.

(* ------------------------------------------------------------------ *)
(* 3. the closed handshake                                               *)
Definition delay_ok (h : hjob) : bool := forallb nonanswer (q_syn (hj_req h)).

(* the two switches agree and the response is delivered: synack on, workers have a SYN
   queue whose write end is a truthy descriptor, send_ack writes to it *)
Definition linked (pc : pcfg) (c : cfg) : Prop :=
  has_send_ack pc = true /\ has_syn c = true /\ exists f, fd_truthy (synfd c) = Some f.

(* _ack gets as far as its answer: the job was refused on entry (no callback is run), or
   the accept callback (if any) returns.  A raising accept callback leaves _ack through
   `except self._propagate_errors` (observation O1 of docs/C03.md): no answer at all, see
   hs_raising_callback_starves. *)
Definition cb_returns (pc : pcfg) (h : hjob) : bool :=
  hj_cancel h || negb (has_accept_cb pc && hj_raises h).

(* the answer depends on the flag as _ack read it on entry ([hj_cancel]) -- not on a
   cancellation that lands while the hooks run ([hj_late]) *)
Lemma syn_answer_linked pc c h :
  linked pc c -> cb_returns pc h = true ->
  syn_answer pc true c h = [RMsg (if hj_cancel h then NACK else ACK)].
Proof.
  intros (Hs & _ & f & Hf) Hr. unfold syn_answer, p_ack, ar_at_ack.
  cbn [in_cache cancelled negb is_ready worker_pid time_accepted snd].
  rewrite Hs, Hf. unfold cb_returns in Hr.
  destruct (hj_cancel h); cbn [andb orb snd responses flat_map app] in *.
  - reflexivity.
  - apply negb_true_iff in Hr. rewrite Hr. cbn [snd].
    destruct (has_accept_cb pc); cbn [app flat_map responses]; reflexivity.
Qed.

Lemma hs_req_fields pc dl c h :
  q_ty (hs_req pc dl c h) = q_ty (hj_req h) /\ q_job (hs_req pc dl c h) = q_job (hj_req h) /\
  q_i (hs_req pc dl c h) = q_i (hj_req h) /\ q_t (hs_req pc dl c h) = q_t (hj_req h) /\
  q_beh (hs_req pc dl c h) = q_beh (hj_req h) /\ q_mem (hs_req pc dl c h) = q_mem (hj_req h) /\
  q_term (hs_req pc dl c h) = q_term (hj_req h) /\
  q_syn (hs_req pc dl c h) = q_syn (hj_req h) ++ syn_answer pc dl c h.
Proof. unfold hs_req, with_syn. cbn. repeat split. Qed.

(* the worker's decision about a job is exactly the parent's: run iff not cancelled
   before acceptance; and the answer is read by this job's own wait *)
Theorem hs_confirmed pc c h :
  linked pc c -> delay_ok h = true -> cb_returns pc h = true ->
  confirmed c (hs_req pc true c h) = negb (hj_cancel h) /\
  fst (syn_result c (hs_req pc true c h)) = (if hj_cancel h then SynFalse else SynTrue) /\
  syn_closed (hs_req pc true c h) = true.
Proof.
  intros L D R. pose proof (syn_answer_linked pc c h L R) as A.
  destruct L as (_ & Hh & _).
  assert (E : fst (syn_result c (hs_req pc true c h)) = if hj_cancel h then SynFalse else SynTrue).
  { unfold syn_result. rewrite Hh. unfold hs_req, with_syn. cbn [q_syn]. rewrite A.
    rewrite (wait_for_syn_delay _ _ D). cbn [fst wait_for_syn protected_receive].
    destruct (hj_cancel h); reflexivity. }
  split; [|split; [exact E|]].
  - unfold confirmed. rewrite E. destruct (hj_cancel h); reflexivity.
  - eapply closed_delay_answer; [|exact D]. unfold hs_req, with_syn. cbn [q_syn].
    rewrite A. reflexivity.
Qed.

(* no answer ever arrives (synack off, or the response is not delivered) but the worker has
   a SYN queue: it waits for ever (the script of empty polls runs out) *)
Theorem hs_no_answer_starves pc c h dl :
  has_syn c = true -> delay_ok h = true -> (has_send_ack pc = false \/ dl = false) ->
  fst (syn_result c (hs_req pc dl c h)) = SynStarved.
Proof.
  intros Hh D Hn. unfold syn_result. rewrite Hh. unfold hs_req, with_syn. cbn [q_syn].
  assert (A : syn_answer pc dl c h = []).
  { unfold syn_answer. destruct dl; [|reflexivity]. destruct Hn as [Hn|Hn]; [|discriminate].
    unfold p_ack, ar_at_ack. cbn [in_cache cancelled negb is_ready snd]. rewrite Hn.
    rewrite andb_false_r. cbn [snd].
    destruct (has_accept_cb pc), (hj_raises h); reflexivity. }
  rewrite A, app_nil_r. rewrite <- (app_nil_r (q_syn (hj_req h))).
  rewrite (wait_for_syn_delay _ _ D). reflexivity.
Qed.

(* the accept callback of a job that _ack has accepted raises: Python evaluates
   `except self._propagate_errors`, AttributeError leaves _ack (on_ack swallows it), owner
   and timeouts are recorded but NO answer is sent -- the worker waits for ever
   (observation O1; the handshake cases of the harness reproduce it on the real code) *)
Theorem hs_raising_callback_starves pc c h :
  linked pc c -> delay_ok h = true -> hj_cancel h = false ->
  has_accept_cb pc = true -> hj_raises h = true ->
  fst (syn_result c (hs_req pc true c h)) = SynStarved.
Proof.
  intros (Hs & Hh & f & Hf) D Hc Ha Hr. unfold syn_result. rewrite Hh.
  unfold hs_req, with_syn. cbn [q_syn].
  assert (A : syn_answer pc true c h = []).
  { unfold syn_answer, p_ack, ar_at_ack. cbn [in_cache cancelled negb is_ready snd].
    rewrite Hc, Ha, Hr. reflexivity. }
  rewrite A, app_nil_r. rewrite <- (app_nil_r (q_syn (hj_req h))).
  rewrite (wait_for_syn_delay _ _ D). reflexivity.
Qed.

(* whole run *)
Fixpoint htasks (ins : list (rcv hjob)) : list hjob :=
  match ins with
  | [] => []
  | RMsg h :: r => if task_ok (q_ty (hj_req h)) then h :: htasks r else htasks r
  | _ :: r => htasks r
  end.

Definition hblock (pc : pcfg) (c : cfg) (h : hjob) : list ev :=
  let q := hs_req pc true c h in
  EPut (ack_msg c q) ::
  (if hj_cancel h then []
   else ERun (q_job q) (q_i q) ::
        (if escapes (hj_req h) then [] else [EPut (ready_msg c q (final_res (q_beh q)))])).

Definition hcounted (h : hjob) : bool := negb (hj_cancel h) && negb (escapes (hj_req h)).

Lemma tasks_hs_ins pc dl c l : tasks (hs_ins pc dl c l) = map (hs_req pc dl c) (htasks l).
Proof.
  induction l as [|e l IH]; [reflexivity|].
  destruct e; cbn [hs_ins map hs_in tasks htasks]; try exact IH.
  fold (hs_ins pc dl c l).
  change (q_ty (hs_req pc dl c a)) with (q_ty (hj_req a)).
  destruct (task_ok (q_ty (hj_req a))); cbn [map]; rewrite IH; reflexivity.
Qed.

Lemma in_htasks h l : In h (htasks l) -> In (RMsg h) l.
Proof.
  induction l as [|e l IH]; [intros []|].
  destruct e; cbn [htasks]; try (intros H0; right; apply IH; exact H0).
  destruct (task_ok (q_ty (hj_req a))).
  - intros [->|H0]; [left; reflexivity|right; apply IH; exact H0].
  - intros H0; right; apply IH; exact H0.
Qed.

Lemma escapes_hs_req pc dl c h : escapes (hs_req pc dl c h) = escapes (hj_req h).
Proof. reflexivity. Qed.

Lemma firstn_In {A} (x : A) k l : In x (firstn k l) -> In x l.
Proof.
  revert l. induction k as [|k IH]; intros [|y l]; cbn [firstn]; try (intros H0; exact H0); try (intros H0; destruct H0; fail).
  intros [->|H0]; [left; reflexivity|right; apply IH; exact H0].
Qed.

Lemma flat_map_ext_in {A B} (f g : A -> list B) l :
  (forall x, In x l -> f x = g x) -> flat_map f l = flat_map g l.
Proof.
  induction l as [|x l IH]; intros H; [reflexivity|]. cbn [flat_map].
  rewrite (H x (or_introl eq_refl)), IH; [reflexivity|]. intros y Hy. apply H. right. exact Hy.
Qed.

Lemma filter_ext_in_len {A} (f g : A -> bool) l :
  (forall x, In x l -> f x = g x) -> length (filter f l) = length (filter g l).
Proof.
  induction l as [|x l IH]; intros H; [reflexivity|]. cbn [filter].
  rewrite (H x (or_introl eq_refl)). destruct (g x); cbn [length]; rewrite IH; auto;
    intros y Hy; apply H; right; exact Hy.
Qed.

Lemma runs_hblocks pc c l :
  runs (flat_map (hblock pc c) l) = length (filter (fun h => negb (hj_cancel h)) l).
Proof.
  induction l as [|h l IH]; [reflexivity|]. cbn [flat_map filter]. rewrite runs_app, IH.
  unfold hblock. destruct (hj_cancel h); cbn [negb runs length]; [reflexivity|].
  destruct (escapes (hj_req h)); reflexivity.
Qed.

Lemma runs_proto l : runs (proto l) = runs l.
Proof.
  induction l as [|e l IH]; [reflexivity|]. unfold proto in *.
  destruct e; cbn [filter is_proto runs]; rewrite ?IH; reflexivity.
Qed.

(* Closed handshake, whole run, every script / quota / behaviour / delay: with the two
   switches linked, the jobs the worker takes are answered by their own parent handles;
   a job cancelled before acceptance is announced and then dropped (ACK only: never run,
   never counted), every other job is run; the number of executions is the number of taken
   jobs that were not cancelled; and the run over ONE shared SYN stream is this same run
   (nothing is ever left in the stream for another job). *)
Theorem hs_whole_run pc c hins :
  linked pc c -> (forall h, In (RMsg h) hins -> delay_ok h = true /\ cb_returns pc h = true) ->
  let ins := hs_ins pc true c hins in
  exists k,
    proto (w_events c ins) = flat_map (hblock pc c) (firstn k (htasks hins)) /\
    w_completed c ins = Z.of_nat (length (filter hcounted (firstn k (htasks hins)))) /\
    runs (w_events c ins) = length (filter (fun h => negb (hj_cancel h)) (firstn k (htasks hins))) /\
    workloop_s c ins = workloop c ins.
Proof.
  intros L D ins.
  destruct (workloop_grammar c ins) as [k [Hp Hc]]. exists k.
  unfold ins in Hp, Hc. rewrite tasks_hs_ins, firstn_map in Hp, Hc.
  assert (HC : forall h, In h (firstn k (htasks hins)) ->
                         confirmed c (hs_req pc true c h) = negb (hj_cancel h)).
  { intros h Hh. apply (hs_confirmed pc c h L); apply D, in_htasks; eapply firstn_In; exact Hh. }
  assert (Hp' : proto (w_events c ins) = flat_map (hblock pc c) (firstn k (htasks hins))).
  { unfold ins. rewrite Hp. rewrite flat_map_concat_map, map_map, <- flat_map_concat_map.
    apply flat_map_ext_in. intros h Hh. unfold block, hblock. rewrite (HC h Hh).
    destruct (hj_cancel h); reflexivity. }
  split; [exact Hp'|]. split; [|split].
  - unfold ins. rewrite Hc. f_equal.
    rewrite <- (map_length (hs_req pc true c)).
    assert (E : forall l, (forall h, In h l -> confirmed c (hs_req pc true c h) = negb (hj_cancel h)) ->
                          length (filter (counted c) (map (hs_req pc true c) l)) =
                          length (filter hcounted l)).
    { induction l as [|h l IH]; intros H; [reflexivity|]. cbn [map filter].
      unfold counted at 1, hcounted at 1. rewrite (H h (or_introl eq_refl)).
      change (escapes (hs_req pc true c h)) with (escapes (hj_req h)).
      destruct (negb (hj_cancel h) && negb (escapes (hj_req h))); cbn [length]; rewrite IH; auto;
        intros y Hy; apply H; right; exact Hy. }
    rewrite map_length. apply E. exact HC.
  - rewrite <- runs_proto, Hp'. apply runs_hblocks.
  - apply workloop_shared_eq. intros q Hq. unfold ins, hs_ins in Hq.
    apply in_map_iff in Hq. destruct Hq as [e [He Hin]].
    destruct e; try discriminate He. cbn [hs_in] in He. inversion He; subst q.
    apply (hs_confirmed pc c a L); apply D; exact Hin.
Qed.

(* ---- the configuration a user of plain billiard can enable: synack=True, but
   Pool.get_process_queues gives the workers no SYN queue and Pool.send_ack is a no-op.
   The claim "with the pool's synack switch on, a job cancelled before acceptance is
   never executed and no result callback runs without the accept callback" is false. *)
Definition synack_honours_cancel : Prop :=
  forall pc c h, has_send_ack pc = true -> hj_cancel h = true ->
    let wl := w_events c [RMsg (hs_req pc false c h)] in
    runs wl = O /\
    accept_first false (snd (hs_parent pc (q_job (hj_req h)) true wl)) = true.

Definition plain_pc : pcfg := mk_pcfg true true true true true.
Definition plain_cfg : cfg := mk_cfg None None 7 None 4242 None None.
Definition plain_job : hjob := mk_hjob (mk_req TASK 41 None 100 (Returns 5) [] 0 false) true false false.

Theorem synack_without_syn_queue_witness :
  has_send_ack plain_pc = true /\ has_syn plain_cfg = false /\ hj_cancel plain_job = true /\
  let wl := w_events plain_cfg [RMsg (hs_req plain_pc false plain_cfg plain_job)] in
  wl = [EInq; ENow; EPut (mk_msg ACK 41 None (PAckP 100 4242 None));
        ERun 41 None; EPut (mk_msg READY 41 None (PReadyP (ROk 5) 7)); EInq] /\
  hs_parent plain_pc 41 true wl =
  (mk_ar true true None None true false,
   [OCancelled; OAcked; OTimeoutCancel; OCbResult 5; OReadied]) /\
  accept_first false (snd (hs_parent plain_pc 41 true wl)) = false.
Proof. vm_compute. repeat split; reflexivity. Qed.

Theorem synack_honours_cancel_refuted : ~ synack_honours_cancel.
Proof.
  intros H. specialize (H plain_pc plain_cfg plain_job eq_refl eq_refl).
  destruct H as [H _]. vm_compute in H. discriminate H.
Qed.

(* ------------------------------------------------------------------ *)
(* 4. the hook point inside _ack: between the decision (the ONE reading of the
      cancellation flag, on entry) and the answer, the timeout hook and the accept callback
      run; a _cancel() can land there (issued by the callback itself or by another thread) *)
Definition with_cancelled (s : ar) (b : bool) : ar :=
  mk_ar (accepted s) b (worker_pid s) (time_accepted s) (is_ready s) (in_cache s).

(* such a cancellation sets the flag of an accepted job and changes NOTHING else: same
   hooks in the same order with the same arguments, same answer, same ownership record *)
Theorem p_ack_late_cancel pc s t pid fd r lc :
  snd (p_ack pc s t pid fd r lc) = snd (p_ack pc s t pid fd r false) /\
  fst (p_ack pc s t pid fd r lc) =
  (if in_cache s && negb (cancelled s && has_send_ack pc)
   then with_cancelled (fst (p_ack pc s t pid fd r false)) (cancelled s || lc)
   else fst (p_ack pc s t pid fd r false)).
Proof.
  unfold p_ack, with_cancelled. destruct (in_cache s); cbn [negb andb]; [|split; reflexivity].
  destruct (cancelled s && has_send_ack pc); cbn [negb]; [split; reflexivity|].
  destruct (has_accept_cb pc && r); cbn [fst snd accepted worker_pid time_accepted is_ready in_cache];
    split; reflexivity.
Qed.

(* The answer is determined by the FIRST reading of the flag.  Handshake on, truthy
   descriptor: refused on entry -> NACK; accepted on entry -> ACK, whatever lands while the
   hooks run; no answer exactly when the accept callback raises. *)
Theorem p_ack_answer_first_read pc s t pid fd r lc f :
  in_cache s = true -> has_send_ack pc = true -> fd_truthy fd = Some f ->
  responses (snd (p_ack pc s t pid fd r lc)) =
  if cancelled s then [RMsg NACK]
  else if has_accept_cb pc && r then [] else [RMsg ACK].
Proof.
  intros Hc Hs Hf. unfold p_ack. rewrite Hc, Hs, Hf. cbn [negb].
  destruct (cancelled s); cbn [andb snd responses flat_map app]; [reflexivity|].
  destruct (has_accept_cb pc); cbn [andb]; [destruct r|]; reflexivity.
Qed.

(* trace level (what the monitor of the harness judges on the real code): in ONE run of
   _ack the accept callback and a NACK answer never occur together *)
Theorem p_ack_accepted_never_refused pc s t pid fd r lc p t' resp p' f :
  In (OCbAccept p t') (snd (p_ack pc s t pid fd r lc)) ->
  In (OSendAck resp p' f) (snd (p_ack pc s t pid fd r lc)) ->
  resp = ACK.
Proof.
  unfold p_ack. destruct (negb (in_cache s)); cbn [snd]; [intros []|].
  destruct (cancelled s && has_send_ack pc); cbn [snd].
  - destruct (fd_truthy fd); [intros [H|[]]; discriminate H|intros []].
  - intros _. destruct (has_accept_cb pc && r); cbn [snd]; intros H.
    + destruct H as [H|H]; [discriminate H|].
      destruct (has_accept_cb pc); [destruct H as [H|[]]; discriminate H|destruct H].
    + destruct H as [H|H]; [discriminate H|]. apply in_app_or in H. destruct H as [H|H].
      * destruct (has_accept_cb pc); [destruct H as [H|[]]; discriminate H|destruct H].
      * destruct (has_send_ack pc); [|destruct H]. destruct (fd_truthy fd); [|destruct H].
        destruct H as [H|[]]. inversion H. reflexivity.
Qed.

(* closed handshake: the accept callback of a job ran (and returned) => the worker runs the
   job.  [hj_late] is arbitrary: cancelling during acceptance is too late to refuse. *)
Theorem hs_accept_callback_implies_run pc c h p t :
  linked pc c -> delay_ok h = true -> hj_raises h = false ->
  In (OCbAccept p t) (snd (p_ack pc (ar_at_ack (hj_cancel h)) (q_t (hj_req h)) (eff_pid c)
                                 (synfd c) (hj_raises h) (hj_late h))) ->
  confirmed c (hs_req pc true c h) = true /\
  fst (syn_result c (hs_req pc true c h)) = SynTrue.
Proof.
  intros L D Hr Hin.
  assert (Hc : hj_cancel h = false).
  { destruct (hj_cancel h) eqn:E; [|reflexivity]. exfalso.
    destruct L as (Hs & _ & f & Hf). unfold p_ack, ar_at_ack in Hin.
    cbn [in_cache cancelled negb] in Hin. rewrite Hs, Hf in Hin. cbn [andb snd] in Hin.
    destruct Hin as [H|[]]. discriminate H. }
  assert (R : cb_returns pc h = true).
  { unfold cb_returns. rewrite Hr, andb_false_r. apply orb_true_r. }
  destruct (hs_confirmed pc c h L D R) as (A & B & _). rewrite Hc in A, B. split; assumption.
Qed.

(* ... and nothing the worker ever reads depends on it: the worker's inputs, hence its
   whole run, are the same with every late cancellation removed *)
Definition no_late (h : hjob) : hjob := mk_hjob (hj_req h) (hj_cancel h) (hj_raises h) false.
Definition no_late_in (e : rcv hjob) : rcv hjob :=
  match e with
  | RShutdown => RShutdown | RTimeout => RTimeout | REintr => REintr | REof => REof
  | RIOErr => RIOErr | RNoneMsg => RNoneMsg | RFalsy => RFalsy
  | RMsg h => RMsg (no_late h)
  end.

Theorem hs_late_cancel_invisible pc dl c hins :
  hs_ins pc dl c hins = hs_ins pc dl c (map no_late_in hins).
Proof.
  unfold hs_ins. rewrite map_map. apply map_ext. intros [| | | | | | |h]; try reflexivity.
  cbn [no_late_in hs_in]. f_equal. unfold hs_req, syn_answer, no_late.
  cbn [hj_req hj_cancel hj_raises hj_late].
  destruct dl; [|reflexivity].
  rewrite (proj1 (p_ack_late_cancel pc (ar_at_ack (hj_cancel h)) (q_t (hj_req h)) (eff_pid c)
                                    (synfd c) (hj_raises h) (hj_late h))).
  reflexivity.
Qed.

(* the statement a second reading of the flag would make false, with its witness: linked
   handshake, accept callback cancels its own job -> ACK, RUN, READY *)
Example late_cancel_witness :
  let pc := mk_pcfg true true true true true in
  let c := mk_cfg None (Some 9) 7 None 4242 None None in
  let h := mk_hjob (mk_req TASK 41 None 100 (Returns 5) [RTimeout] 0 false) false false true in
  p_ack pc (ar_at_ack false) 100 4242 (Some 9) false true =
  (mk_ar true true (Some 4242) (Some 100) false true,
   [OTimeoutSet; OCbAccept 4242 100; OSendAck ACK 4242 9]) /\
  proto (w_events c (hs_ins pc true c [RMsg h; RShutdown])) =
  [EPut (mk_msg ACK 41 None (PAckP 100 4242 (Some 9))); ERun 41 None;
   EPut (mk_msg READY 41 None (PReadyP (ROk 5) 7))].
Proof. vm_compute. split; reflexivity. Qed.

(* ---- known finding F-C03-2 (signature C03:raising-accept-callback-leaves-worker-unanswered).
   The claim "with the handshake linked, every job that _ack accepted (not cancelled before
   acceptance) gets an answer, so its worker does not wait for ever" is FALSE of the code:
   a raising accept callback leaves _ack without any answer (hs_raising_callback_starves).
   The strongest true statement is hs_confirmed (under [cb_returns]). *)
Definition accepted_job_answered : Prop :=
  forall pc c h, linked pc c -> delay_ok h = true -> hj_cancel h = false ->
    fst (syn_result c (hs_req pc true c h)) <> SynStarved.

Definition o1_pc : pcfg := mk_pcfg true true true true true.
Definition o1_cfg : cfg := mk_cfg None (Some 9) 7 (Some 77) 4242 None None.
Definition o1_job : hjob := mk_hjob (mk_req TASK 20 None 200 (Returns 0) [] 0 false) false true false.

Lemma o1_linked : linked o1_pc o1_cfg.
Proof. unfold linked. repeat split. exists 9. reflexivity. Qed.

Theorem accepted_job_answered_refuted : ~ accepted_job_answered.
Proof.
  intros H. apply (H o1_pc o1_cfg o1_job o1_linked eq_refl eq_refl).
  apply hs_raising_callback_starves; try reflexivity. exact o1_linked.
Qed.

(* the witness as a whole run: the worker announces job 20 and polls its SYN queue until the
   script runs out; the parent has run the accept callback, recorded owner and acceptance
   time, armed the timeouts -- and sent nothing *)
Theorem raising_accept_callback_witness :
  let wl := w_events o1_cfg (hs_ins o1_pc true o1_cfg [RMsg o1_job; RShutdown]) in
  wl = [EInq; ENow; EPut (mk_msg ACK 20 None (PAckP 200 77 (Some 9))); ESyn] /\
  w_exit o1_cfg (hs_ins o1_pc true o1_cfg [RMsg o1_job; RShutdown]) = XStarved /\
  hs_parent_x o1_pc 20 false true false wl =
  (mk_ar true false (Some 77) (Some 200) false true, [OTimeoutSet; OCbAccept 77 200; OAcked]).
Proof. vm_compute. repeat split; reflexivity. Qed.
