(* C13: the definitions generated from billiard/connection.py on this run
   (Gen/K_framing.v) compute exactly what Model/Framing.v says. *)
From Coq Require Import ZArith List Bool Lia ZifyBool.
From BV Require Import Lib.PyVal Gen.K_framing Model.Framing.
Import ListNotations.
Open Scope Z_scope.

Definition optv (o : option Z) : pv := match o with Some z => PInt z | None => PNone end.
(* the handle attribute: None when closed, otherwise some descriptor h *)
Definition hv (c : conn) (h : Z) : pv := if closed c then PNone else PInt h.
(* the object before a call: flags from c, no output recorded yet *)
Definition emb (c : conn) (h : Z) : st :=
  mk_st (hv c h) (PBool (readable c)) (PBool (writable c))
        PNone PNone PNone PNone PNone PNone PNone PNone PNone PNone.

(* exception class of a model error (struct.error is shown as ValueError in Gen) *)
Definition kind_exn (e : err) : exn :=
  match e with
  | EClosed | ENotReadable | ENotWritable | EBadLen | EEofMid | EIo => OSError
  | EOffNeg | EBufLtOff | ESizeNeg | EBufLtOffSize | EMaxNeg | EIntoOffNeg | EIntoOffBig => ValueError
  | EStruct => ValueError
  | EEof => EOFError
  | ETooShort _ => BufferTooShort
  | ENoLen => TypeError
  | ESpin => OutOfFuel            (* not an exception: the call does not return *)
  end.

Ltac cases :=
  repeat match goal with
         | |- context [if ?b then _ else _] => destruct b eqn:?; cbn
         end.

Lemma gen_check_closed c h :
  check_closed (emb c h) = if closed c then Exc OSError (emb c h) else Ok PNone (emb c h).
Proof. destruct c as [[] r w]; reflexivity. Qed.

Lemma gen_check_readable c h :
  check_readable (emb c h) = if readable c then Ok PNone (emb c h) else Exc OSError (emb c h).
Proof. destruct c as [cl [] w]; reflexivity. Qed.

Lemma gen_check_writable c h :
  check_writable (emb c h) = if writable c then Ok PNone (emb c h) else Exc OSError (emb c h).
Proof. destruct c as [cl r []]; reflexivity. Qed.

Lemma gen_close c h : K_framing.close (emb c h) = Ok PNone (emb (Framing.close c) h).
Proof. destruct c as [[] r w]; reflexivity. Qed.

(* _bad_message_length: the state change of the model, then OSError *)
Lemma gen_bad_length c h :
  bad_message_length (emb c h) = Exc OSError (emb (bad_length c) h).
Proof. destruct c as [[] r []]; reflexivity. Qed.

(* send_bytes: same checks in the same order, same slice handed to _send_bytes.
   `it` = m.itemsize, `d0` = first dimension of the caller's buffer (None: it has
   no dimension, len() raises TypeError), `nbytes` = its size in bytes.  The
   length the checks use is the BYTE COUNT only on the `itemsize > 1` path (the
   view is then the flat copy, token 1); otherwise it is the FIRST DIMENSION of
   the caller's buffer, which is also the view that is sliced (token 0). *)
Definition dimv (d0 : option Z) : pv := match d0 with Some d => PInt d | None => PErr TypeError end.
Definition code_len (it : Z) (d0 : option Z) (nbytes : Z) : option Z :=
  if it >? 1 then Some nbytes else d0.
Definition code_view (it : Z) : pv := if it >? 1 then mv_flat else mv_orig.

Lemma gen_send_bytes c h buf off size it d0 nbytes :
  K_framing.send_bytes (emb c h) buf (PInt off) (optv size) (PInt it) (dimv d0) (PInt nbytes) =
  match code_len it d0 nbytes with
  | None => Exc (if closed c then OSError else if negb (writable c) then OSError else TypeError) (emb c h)
  | Some n =>
      match send_args c n off size with
      | inl e => Exc (kind_exn e) (emb c h)
      | inr (lo, hi) =>
          Ok PNone (set_out_hi (set_out_lo (set_out_base (emb c h) (code_view it)) (PInt lo)) (PInt hi))
      end
  end.
Proof.
  unfold code_len, code_view.
  destruct c as [[] r []]; try (destruct (it >? 1); [|destruct d0]; reflexivity).
  unfold K_framing.send_bytes, send_args, emb, hv, mv_flat, mv_orig. cbn.
  destruct (it >? 1); cbn.
  - destruct (off <? 0); cbn; [reflexivity|].
    destruct (nbytes <? off); cbn; [reflexivity|].
    destruct size as [sz|]; cbn; [|reflexivity].
    destruct (sz <? 0); cbn; [reflexivity|].
    destruct (off + sz >? nbytes); cbn; reflexivity.
  - destruct d0 as [n|]; cbn; [|reflexivity].
    destruct (off <? 0); cbn; [reflexivity|].
    destruct (n <? off); cbn; [reflexivity|].
    destruct size as [sz|]; cbn; [|reflexivity].
    destruct (sz <? 0); cbn; [reflexivity|].
    destruct (off + sz >? n); cbn; reflexivity.
Qed.

(* the same, for a buffer of the model: the code decides exactly as send_bytes_sh
   (same rejection, same rows lo..hi of the same view) *)
Definition dim0_of (b : pybuf) : option Z := match pb_shape b with [] => None | d :: _ => Some d end.

Lemma code_len_view b :
  code_len (pb_item b) (dim0_of b) (len (pb_bytes b)) =
  match view_of b with Some (rows, _) => Some rows | None => None end.
Proof.
  unfold code_len, view_of, dim0_of. destruct (pb_item b >? 1); [reflexivity|].
  destruct (pb_shape b); reflexivity.
Qed.

Lemma gen_send_bytes_buf c h buf b off size :
  K_framing.send_bytes (emb c h) buf (PInt off) (optv size)
                       (PInt (pb_item b)) (dimv (dim0_of b)) (PInt (len (pb_bytes b))) =
  match view_of b with
  | None => Exc (if closed c then OSError else if negb (writable c) then OSError else TypeError) (emb c h)
  | Some (rows, rs) =>
      match send_args c rows off size with
      | inl e => Exc (kind_exn e) (emb c h)
      | inr (lo, hi) =>
          Ok PNone (set_out_hi (set_out_lo (set_out_base (emb c h) (code_view (pb_item b))) (PInt lo)) (PInt hi))
      end
  end.
Proof.
  rewrite gen_send_bytes, code_len_view. destruct (view_of b) as [[rows rs]|]; reflexivity.
Qed.

(* recv_bytes: checks, then whatever _recv_bytes does; None -> _bad_message_length *)
Lemma gen_recv_bytes c h mx rb :
  K_framing.recv_bytes (emb c h) (optv mx) rb =
  match recv_args c mx with
  | Some e => Exc (kind_exn e) (emb c h)
  | None =>
      match rb with
      | PErr e => Exc e (set_out_max (emb c h) (optv mx))
      | PNone => Exc OSError (set_out_max (emb (bad_length c) h) (optv mx))
      | v => Ok v (set_out_max (emb c h) (optv mx))
      end
  end.
Proof.
  destruct c as [[] [] w]; try reflexivity.
  unfold K_framing.recv_bytes, recv_args, emb, hv. cbn.
  destruct mx as [k|]; cbn.
  - destruct (k <? 0); cbn; [reflexivity|].
    destruct rb as [|z|b|e]; cbn; try reflexivity. destruct w; reflexivity.
  - destruct rb as [|z|b|e]; cbn; try reflexivity. destruct w; reflexivity.
Qed.

(* recv_bytes_into: checks, size test, and the slice given to readinto *)
Lemma gen_recv_bytes_into c h buf off it nitems rb msgsize :
  it <> 0 ->
  K_framing.recv_bytes_into (emb c h) buf (PInt off) (PInt it) (PInt nitems) rb (PInt msgsize) =
  match into_args c (it * nitems) off with
  | Some e => Exc (kind_exn e) (emb c h)
  | None =>
      match rb with
      | PErr e => Exc e (emb c h)
      | _ => if it * nitems <? off + msgsize then Exc BufferTooShort (emb c h)
             else Ok (PInt msgsize)
                     (set_out_hi (set_out_lo (set_out_base (emb c h) mv_orig) (PInt (off / it))) (PInt ((off + msgsize) / it)))
      end
  end.
Proof.
  intros Hit. destruct c as [[] [] w]; try reflexivity.
  unfold K_framing.recv_bytes_into, into_args, emb, hv. cbn.
  destruct (off <? 0); cbn; [reflexivity|].
  destruct (off >? it * nitems); cbn; [reflexivity|].
  replace (it =? 0) with false by lia.
  destruct rb as [|z|b|e]; cbn; try reflexivity;
    destruct (it * nitems <? off + msgsize); cbn; reflexivity.
Qed.

(* _send_bytes: range of the header, the threshold, what goes to _send *)
Definition plan_state (c : conn) (h n : Z) (w1 w2 : pv) : st :=
  set_out_w2 (set_out_w1 (set_out_hdr (emb c h) (PInt n)) w1) w2.

Lemma gen_send_plan c h mv n (is_mv : bool) :
  send_plan (emb c h) (PInt 2) mv (PInt n) (PBool is_mv) =
  if (n <? -2147483648) || (n >? MAXLEN) then Exc ValueError (emb c h)
  else if n >? THRESH then Ok PNone (plan_state c h n (PInt 1) (PInt 2))
       else Ok PNone (plan_state c h n (PInt 3) PNone).
Proof.
  unfold send_plan, MAXLEN, THRESH, plan_state, emb. cbn.
  destruct ((n <? -2147483648) || (n >? 2147483647)); cbn; [reflexivity|].
  destruct (n >? 16384); cbn; [reflexivity|].
  destruct is_mv; reflexivity.
Qed.

(* _recv_bytes: reads HDR bytes, applies the maxsize test to the decoded size *)
Lemma gen_recv_plan c h mx wsz :
  recv_plan (emb c h) (optv mx) (PInt wsz) =
  if over_max wsz mx then Ok PNone (set_out_r1 (emb c h) (PInt HDR))
  else Ok (PInt 1) (set_out_r2 (set_out_r1 (emb c h) (PInt HDR)) (PInt wsz)).
Proof.
  unfold recv_plan, over_max, HDR, emb. cbn.
  destruct mx as [k|]; cbn; [|reflexivity].
  destruct (wsz >? k); reflexivity.
Qed.

(* one iteration of _send after write() returned n: new `remaining`, and either
   break (None) or the lower bound of the next slice buf[n:] *)
Definition with_rem (c : conn) (h r : Z) : st := set_self_loop_remaining (emb c h) (PInt r).

Lemma gen_send_else c h r n :
  send_else (with_rem c h r) (PInt n) =
  Ok (if r - n =? 0 then PNone else PInt n) (with_rem c h (r - n)).
Proof.
  unfold send_else, with_rem, emb. cbn. destruct (r - n =? 0); reflexivity.
Qed.

Lemma gen_recv_cond c h r size :
  recv_cond (with_rem c h r) size = Ok (PBool (r >? 0)) (with_rem c h r).
Proof. reflexivity. Qed.

(* one iteration of _recv after read() returned a chunk of n bytes *)
Lemma gen_recv_else c h r size n :
  recv_else (with_rem c h r) (PInt size) (PInt n) =
  if n =? 0 then Exc (kind_exn (eof_err r size)) (with_rem c h r)
  else Ok PNone (with_rem c h (r - n)).
Proof.
  unfold recv_else, with_rem, emb, eof_err. cbn.
  destruct (n =? 0); cbn; [|reflexivity].
  destruct (r =? size); reflexivity.
Qed.
