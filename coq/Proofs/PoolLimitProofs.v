(* Proofs about the closed composition WITH HARD TIME LIMITS, Model/PoolLimit.v.

   For every reachable state / every schedule without the racy scan LScanRacy (any number of jobs,
   any pool size >= 1 -- one included --, any per-job limits and pool default, any lingering
   choices, no restart limiter, no soft limits):
     - [LInv]: each unresolved job is in exactly one place; a job is failed with TimeLimitExceeded
       only if it was accepted, has a non-zero effective limit (its own if given, else the pool
       default) and that limit had elapsed since acceptance; the error carries that limit; no job
       is ever reported lost; free slots + unresolved jobs + dead workers not yet reaped = bound;
     - [lscan_exact]: what a scan does, exactly: it fails EVERY overdue job, touches no other job,
       and signals exactly the owners (TERM, and KILL iff lingering);
     - [pass_restores_pool]: after the next pass the pool is at its size with live workers only;
     - liveness: [lstep_decreases], [lprogress], [lcompletion], [lcan_always_complete],
       [lmaximal_useful_schedule_completes];
     - [lreach_is_run]: the parent of every reachable state is a [Pool.run];
   and for the racy scan the refutation [racy_scan_loses_a_slot]; without a scanner
   [no_scanner_never_times_out] (D14 in the closed system). *)
From Coq Require Import ZArith List Bool Lia ZifyBool Permutation.
From BV Require Import Lib.Cases Model.LaxSem Model.Restart Model.Pool Model.PoolSys Model.PoolCrash Model.PoolLimit
     Proofs.LaxSemProofs Proofs.PoolJobs Proofs.PoolInv Proofs.PoolTick Proofs.PoolScan Proofs.PoolSup Proofs.PoolIdx
     Proofs.PoolSize Proofs.PoolMore Proofs.PoolCor Proofs.PoolSysProofs Proofs.PoolCrashProofs.
Import ListNotations.
Open Scope Z_scope.

(* ================================================================== A. the parent events *)
(* the limits and the scanner never change *)
Record lframe (s s' : pool) : Prop := {
  lf_hard : t_hard s' = t_hard s;
  lf_soft : t_soft s' = t_soft s;
  lf_scanner : scanner s' = scanner s
}.
Lemma lframe_refl s : lframe s s. Proof. constructor; reflexivity. Qed.
Lemma lframe_trans a b c : lframe a b -> lframe b c -> lframe a c.
Proof. intros [A B C] [D E F]. constructor; congruence. Qed.

Lemma lframe_repopulate : forall fuel i codes s, lframe s (fst (repopulate fuel i codes s)).
Proof.
  induction fuel as [|f IH]; intros i codes s; cbn [repopulate]; [apply lframe_refl|].
  destruct (negb (pstate s =? 0)); [apply lframe_refl|].
  match goal with |- context [if ?c then Restart.step (rst s) (now s) else (rst s, false)] =>
    destruct (if c then Restart.step (rst s) (now s) else (rst s, false)) as [r raised] end.
  destruct raised; [constructor; reflexivity|].
  destruct (avail_index (with_rst s r)) as [ix|]; [|constructor; reflexivity].
  eapply lframe_trans; [|apply IH]. constructor; reflexivity.
Qed.

Lemma lframe_step s e :
  match e with EAck _ None _ | EReady _ None _ _ | EAdvance _ | ETick | EApply None _ None None => True | _ => False end ->
  lframe s (fst (step s e)).
Proof.
  destruct e; try contradiction; intros He.
  - destruct soft, lost, slot; try contradiction. unfold step, do_apply. cbn [putlocks with_sigs sem pstate].
    destruct (negb (pstate s =? 0)); [constructor; reflexivity|].
    destruct (putlocks s && (LaxSem.value (sem s) =? 0)); [constructor; reflexivity|].
    destruct (putlocks s); constructor; reflexivity.
  - destruct i; [contradiction|]. unfold step, do_ack.
    destruct (cached _ j) as [x|]; [|constructor; reflexivity].
    destruct (kind x); constructor; reflexivity.
  - destruct i; [contradiction|]. unfold step, do_ready.
    destruct (cached _ j) as [x|]; [|constructor; reflexivity]. cbn [fst].
    unfold bump_counter. destruct (worker_pids x) as [|p r]; [destruct (ready x); constructor; reflexivity|].
    destruct (in_pool _ p); destruct (ready x); constructor; reflexivity.
  - unfold step, do_tick.
    assert (H1 : lframe (with_sigs s []) (fst (join_exited (with_sigs s [])))).
    { unfold join_exited. destruct (filter _ (rev _)); constructor; reflexivity. }
    destruct (join_exited (with_sigs s [])) as [s1 codes]. cbn [fst] in *.
    pose proof (lframe_repopulate (Z.to_nat (nprocs s1 - Z.of_nat (length (wlist s1)))) 0 codes s1) as H2.
    destruct (repopulate _ 0 codes s1) as [s2 r]. cbn [fst] in H2.
    assert (H0 : lframe s (with_sigs s [])) by (constructor; reflexivity).
    destruct r; cbn [fst]; try (eapply lframe_trans; [exact H0|eapply lframe_trans; [exact H1|exact H2]]).
    eapply lframe_trans; [exact H0|]. eapply lframe_trans; [exact H1|]. eapply lframe_trans; [exact H2|].
    constructor; reflexivity.
  - constructor; reflexivity.
Qed.

(* ---- apply_async with a limit *)
Definition lfresh (s : pool) (h : option Z) : job :=
  mkjob (Z.of_nat (length (jobs s))) KApply true false None false [] [] None
        (py_or None (t_soft s)) (py_or h (t_hard s)) (dflt_lost s) None 0 0 0 [] 0 0 0 0 None [] [].

Lemma lapply_spec s h s' :
  0 <= LaxSem.value (sem s) ->
  step s (EApply None h None None) = (s', RNone) ->
  pframe s s' /\ now s' = now s /\ pstate s = 0
  /\ jobs s' = jobs s ++ [lfresh s h]
  /\ (putlocks s = true -> 0 < LaxSem.value (sem s)
                           /\ sem s' = mk_sem (LaxSem.value (sem s) - 1) (LaxSem.bound (sem s)) (LaxSem.pending (sem s)))
  /\ (putlocks s = false -> sem s' = sem s).
Proof.
  intros Hnn. unfold step, do_apply. cbn [putlocks with_sigs sem pstate].
  destruct (pstate s =? 0) eqn:Es; cbn [negb]; [|discriminate].
  destruct (putlocks s) eqn:Ep; cbn [andb].
  - destruct (LaxSem.value (sem s) =? 0) eqn:Ev; [discriminate|].
    intros H; inversion H; subst; clear H.
    split; [constructor; try reflexivity; exact Ep|]. split; [reflexivity|]. split; [lia|].
    split; [reflexivity|]. split; [|discriminate]. intros _.
    unfold sstep', LaxSem.sstep. cbn.
    destruct (0 <? LaxSem.value (sem s)) eqn:Eg; [|lia]. split; [lia|reflexivity].
  - intros H; inversion H; subst; clear H.
    split; [constructor; try reflexivity; exact Ep|]. split; [reflexivity|]. split; [lia|].
    split; [reflexivity|]. split; [discriminate|reflexivity].
Qed.

Lemma lapply_enabled s h :
  pstate s = 0 -> (putlocks s = true -> 0 < LaxSem.value (sem s)) ->
  exists s', step s (EApply None h None None) = (s', RNone).
Proof.
  intros Hp Hv. unfold step, do_apply. cbn [putlocks with_sigs sem pstate]. rewrite Hp. cbn [Z.eqb negb].
  destruct (putlocks s) eqn:Ep; cbn [andb].
  - specialize (Hv eq_refl). destruct (LaxSem.value (sem s) =? 0) eqn:Ev; [lia|]. eauto.
  - eauto.
Qed.

(* ---- one step of the scan *)
(* everything but jobs, processes and signals *)
Record sframe (s s' : pool) : Prop := {
  sf_wlist : wlist s' = wlist s; sf_nprocs : nprocs s' = nprocs s; sf_sem : sem s' = sem s;
  sf_pstate : pstate s' = pstate s; sf_putlocks : putlocks s' = putlocks s; sf_dflt : dflt_lost s' = dflt_lost s;
  sf_rst : rst s' = rst s; sf_now : now s' = now s; sf_hard : t_hard s' = t_hard s; sf_soft : t_soft s' = t_soft s;
  sf_scanner : scanner s' = scanner s; sf_plen : length (procs s') = length (procs s);
  sf_jlen : length (jobs s') = length (jobs s)
}.
Lemma sframe_refl s : sframe s s. Proof. constructor; reflexivity. Qed.
Lemma sframe_trans a b c : sframe a b -> sframe b c -> sframe a c.
Proof. intros [] []. constructor; congruence. Qed.

(* the decision of the scan for one job (cached or not) *)
Definition dueh (s : pool) (x : job) : bool :=
  negb (ready x) && match time_accepted x with Some t => timed_out s (Some t) (eff_hard s x) | None => false end.

Definition killed (l : bool) : Z := if l then -9 else -15.
Definition sigs_for (l : bool) (p : Z) : list (Z * Z) := (p, SIGTERM) :: if l then [(p, SIGKILL)] else [].

Lemma pinfo_set_proc_gen s p f q :
  pinfo (set_proc s p f) q
  = if q =? p then option_map (fun x => (pexit (f x), jterm (f x))) (get_proc s q) else pinfo s q.
Proof.
  unfold pinfo. rewrite get_proc_set_proc. destruct (q =? p); [|reflexivity].
  destruct (get_proc s q); reflexivity.
Qed.

Lemma scan_job_due l s j x t p jt :
  0 <= j -> get_job s j = Some x -> kind x = KApply -> ready x = false -> time_accepted x = Some t ->
  timed_out s (Some t) (eff_hard s x) = true -> owner x = Some p -> in_pool s p = true ->
  pinfo s p = Some (None, jt) ->
  let s1 := scan_job l s j in
  (forall k, get_job s1 k = if k =? j then Some (hard_result x) else get_job s k)
  /\ (forall q, pinfo s1 q = if q =? p then Some (Some (killed l), jt) else pinfo s q)
  /\ sigs s1 = sigs s ++ sigs_for l p
  /\ sframe s s1.
Proof.
  intros Hj Hg Hk Hr Ht Hd Ho Hip Hpi. unfold scan_job. rewrite Hg, Hk, Ht, Hd. unfold on_hard. rewrite Hr, Ho.
  set (s0 := set_job s j (fun x0 => j_add_tmo (apply_set x0 (PTimeLimit (hard x0))) (false, hard x0))).
  assert (Hg0 : forall k, get_job s0 k = if k =? j then Some (hard_result x) else get_job s k).
  { intros k. destruct (Z.eqb_spec k j) as [->|Hne].
    - unfold s0. rewrite (get_set_same s j _ x Hg). reflexivity.
    - unfold s0. rewrite get_set_other by congruence. reflexivity. }
  assert (Hl0 : length (jobs s0) = length (jobs s)) by apply len_set_job.
  change (in_pool s0 p) with (in_pool s p). rewrite Hip.
  assert (Hgp : exists q0, get_proc s0 p = Some q0 /\ pexit q0 = None /\ jterm q0 = jt).
  { unfold pinfo in Hpi. change (get_proc s0 p) with (get_proc s p). destruct (get_proc s p) as [q0|]; [|discriminate].
    cbn in Hpi. inversion Hpi. eauto. }
  destruct Hgp as (q0 & Hq0 & Hpe & Hjt).
  destruct l.
  - (* lingers: TERM does not end it, KILL does *)
    set (s1 := deliver s0 p SIGTERM true).
    assert (Hq1 : get_proc s1 p = Some q0).
    { unfold s1, deliver. rewrite get_proc_set_proc, Z.eqb_refl.
      change (get_proc (with_sigs s0 (sigs s0 ++ [(p, SIGTERM)])) p) with (get_proc s0 p). rewrite Hq0. cbn. rewrite Hpe.
      destruct q0; reflexivity. }
    assert (Hc : negb (exit_of s1 p =? 0) && exited s1 p = false).
    { unfold exit_of, exited. rewrite Hq1, Hpe. reflexivity. }
    rewrite Hc. split; [intros k; exact (Hg0 k)|]. split.
    + intros q. unfold deliver at 1. rewrite pinfo_set_proc_gen.
      change (get_proc (with_sigs s1 (sigs s1 ++ [(p, SIGKILL)])) q) with (get_proc s1 q).
      change (pinfo (with_sigs s1 (sigs s1 ++ [(p, SIGKILL)])) q) with (pinfo s1 q).
      destruct (Z.eqb_spec q p) as [->|Hne].
      * rewrite Hq1. cbn. rewrite Hpe. cbn. rewrite Hjt. reflexivity.
      * unfold s1, deliver. rewrite pinfo_set_proc_gen, (eqb_ne q p Hne). reflexivity.
    + split; [cbn; rewrite <- app_assoc; reflexivity|].
      constructor; try reflexivity.
      * unfold deliver. rewrite procs_len_set_proc. cbn [procs with_sigs]. unfold s1, deliver. rewrite procs_len_set_proc. reflexivity.
      * exact Hl0.
  - set (s1 := deliver s0 p SIGTERM false).
    assert (Hq1 : get_proc s1 p = Some (mkproc (pid q0) (widx q0) (Some (-15)) (controlled q0) (jterm q0) (counter q0))).
    { unfold s1, deliver. rewrite get_proc_set_proc, Z.eqb_refl.
      change (get_proc (with_sigs s0 (sigs s0 ++ [(p, SIGTERM)])) p) with (get_proc s0 p). rewrite Hq0. cbn. rewrite Hpe. reflexivity. }
    assert (Hc : negb (exit_of s1 p =? 0) && exited s1 p = true).
    { unfold exit_of, exited. rewrite Hq1. reflexivity. }
    rewrite Hc. split; [intros k; exact (Hg0 k)|]. split.
    + intros q. destruct (Z.eqb_spec q p) as [->|Hne].
      * unfold pinfo. rewrite Hq1. cbn. rewrite Hjt. reflexivity.
      * unfold s1, deliver. rewrite pinfo_set_proc_gen, (eqb_ne q p Hne). reflexivity.
    + split; [reflexivity|]. constructor; try reflexivity.
      * unfold s1, deliver. rewrite procs_len_set_proc. reflexivity.
      * exact Hl0.
Qed.

Lemma scan_job_notdue l s j :
  t_soft s = None ->
  (forall x, get_job s j = Some x -> kind x = KApply /\ soft x = None /\ dueh s x = false) ->
  scan_job l s j = s.
Proof.
  intros Hs Hx. unfold scan_job. destruct (get_job s j) as [x|]; [|reflexivity].
  destruct (Hx x eq_refl) as (Hk & Hso & Hd). rewrite Hk. unfold dueh in Hd.
  destruct (time_accepted x) as [t|]; [|reflexivity].
  assert (Hes : eff_soft s x = None) by (unfold eff_soft; rewrite Hso; exact Hs).
  rewrite Hes. unfold timed_out at 2. rewrite andb_false_r.
  destruct (timed_out s (Some t) (eff_hard s x)) eqn:Eh; [|reflexivity].
  unfold on_hard. destruct (ready x); [reflexivity|discriminate].
Qed.

(* ---- the whole scan *)
Definition scanf (s : pool) (x : job) : job := if dueh s x then hard_result x else x.

Definition spairs (s : pool) (snap : list Z) : list (Z * Z) :=
  flat_map (fun j => match get_job s j with
                     | Some x => if dueh s x then match owner x with Some p => [(j, p)] | None => [] end else []
                     | None => []
                     end) snap.

Lemma dueh_env s s' x : now s' = now s -> t_hard s' = t_hard s -> dueh s' x = dueh s x.
Proof. intros A B. unfold dueh, eff_hard, timed_out. rewrite A, B. reflexivity. Qed.

Lemma spairs_ext s s' snap :
  now s' = now s -> t_hard s' = t_hard s -> (forall j, In j snap -> get_job s' j = get_job s j) ->
  spairs s' snap = spairs s snap.
Proof.
  intros A B H. unfold spairs. induction snap as [|j r IH]; [reflexivity|]. cbn [flat_map].
  rewrite (H j (or_introl eq_refl)), IH by (intros k Hk; apply H; right; exact Hk).
  destruct (get_job s j) as [x|]; [|reflexivity]. rewrite (dueh_env s s' x A B). reflexivity.
Qed.

Definition killf (l : bool) (i : option Z * bool) : option Z * bool := (Some (killed l), snd i).

Lemma scan_fold l : forall snap cur,
    NoDup snap -> (forall j, In j snap -> 0 <= j) -> t_soft cur = None ->
    (forall j x, In j snap -> get_job cur j = Some x ->
                 kind x = KApply /\ soft x = None /\ (time_accepted x <> None -> exists p, owner x = Some p)) ->
    NoDup (map snd (spairs cur snap)) ->
    (forall j p, In (j, p) (spairs cur snap) -> in_pool cur p = true /\ exists jt, pinfo cur p = Some (None, jt)) ->
    let res := fold_left (scan_job l) snap cur in
    (forall k, get_job res k = if memZ k snap then option_map (scanf cur) (get_job cur k) else get_job cur k)
    /\ (forall q, pinfo res q = if memZ q (map snd (spairs cur snap)) then option_map (killf l) (pinfo cur q) else pinfo cur q)
    /\ sigs res = sigs cur ++ flat_map (fun jp => sigs_for l (snd jp)) (spairs cur snap)
    /\ sframe cur res.
Proof.
  induction snap as [|j snap IH]; intros cur Hnd Hpos Hsoft Hjobs Hvnd Hval.
  - cbn [fold_left spairs flat_map map memZ existsb]. rewrite app_nil_r.
    repeat split; try reflexivity.
  - cbn [fold_left]. inversion Hnd as [|? ? Hnj Hnd']; subst.
    assert (Hmj : memZ j snap = false).
    { destruct (memZ j snap) eqn:E; [|reflexivity]. apply memZ_In in E. contradiction. }
    assert (Hpos' : forall k, In k snap -> 0 <= k) by (intros k Hk; apply Hpos; right; exact Hk).
    destruct (get_job cur j) as [x|] eqn:Hx.
    2:{ (* no such job *)
      assert (E1 : scan_job l cur j = cur) by (unfold scan_job; rewrite Hx; reflexivity).
      assert (Esp : spairs cur (j :: snap) = spairs cur snap) by (unfold spairs; cbn [flat_map]; rewrite Hx; reflexivity).
      rewrite E1. rewrite Esp in *.
      destruct (IH cur Hnd' Hpos' Hsoft (fun k y Hk => Hjobs k y (or_intror Hk)) Hvnd Hval) as (A & B & C & D).
      split; [|auto]. intros k. rewrite A. cbn [memZ existsb]. fold (memZ k snap).
      destruct (Z.eqb_spec k j) as [->|Hne]; [rewrite Hmj, Hx; reflexivity|reflexivity]. }
    destruct (Hjobs j x (or_introl eq_refl) Hx) as (Hk & Hso & Hown).
    destruct (dueh cur x) eqn:Hdue.
    + (* this job is overdue: failed, its owner signalled *)
      unfold dueh in Hdue. apply andb_true_iff in Hdue. destruct Hdue as [Hr Hto]. apply negb_true_iff in Hr.
      destruct (time_accepted x) as [t|] eqn:Hta; [|discriminate].
      destruct (Hown ltac:(discriminate)) as [p Hp].
      assert (Hdue' : dueh cur x = true) by (unfold dueh; rewrite Hr, Hta, Hto; reflexivity).
      assert (Esp : spairs cur (j :: snap) = (j, p) :: spairs cur snap).
      { unfold spairs. cbn [flat_map]. rewrite Hx, Hdue', Hp. reflexivity. }
      rewrite Esp in *. cbn [map snd] in Hvnd. inversion Hvnd as [|? ? Hpn Hvnd']; subst.
      destruct (Hval j p (or_introl eq_refl)) as (Hip & jt & Hpi).
      destruct (scan_job_due l cur j x t p jt (Hpos j (or_introl eq_refl)) Hx Hk Hr Hta Hto Hp Hip Hpi) as (G1 & P1 & S1 & F1).
      set (cur1 := scan_job l cur j) in *.
      assert (Hsp1 : spairs cur1 snap = spairs cur snap).
      { apply spairs_ext; [apply F1|apply F1|]. intros k Hk0. rewrite G1.
        rewrite eqb_ne; [reflexivity|]. intros ->. contradiction. }
      assert (Hmp : memZ p (map snd (spairs cur snap)) = false).
      { destruct (memZ p (map snd (spairs cur snap))) eqn:E; [|reflexivity]. apply memZ_In in E. contradiction. }
      destruct (IH cur1 Hnd' Hpos') as (A & B & C & D).
      * rewrite (sf_soft _ _ F1). exact Hsoft.
      * intros k y Hk0 Hy. rewrite G1 in Hy. rewrite eqb_ne in Hy by (intros ->; contradiction).
        apply (Hjobs k y (or_intror Hk0) Hy).
      * rewrite Hsp1. exact Hvnd'.
      * intros k q Hin. rewrite Hsp1 in Hin. destruct (Hval k q (or_intror Hin)) as (Hq1 & jt' & Hq2).
        assert (Hne : q <> p).
        { intros ->. apply Hpn. apply in_map_iff. exists (k, p). split; [reflexivity|exact Hin]. }
        unfold in_pool. rewrite (sf_wlist _ _ F1). split; [exact Hq1|]. exists jt'. rewrite P1, (eqb_ne q p Hne). exact Hq2.
      * rewrite Hsp1 in *. split; [|split; [|split]].
        -- intros k. rewrite A, G1. cbn [memZ existsb]. fold (memZ k snap).
           destruct (Z.eqb_spec k j) as [->|Hne].
           ++ rewrite Hmj, Hx. cbn [option_map orb]. unfold scanf. rewrite Hdue'. reflexivity.
           ++ cbn [orb]. destruct (memZ k snap); [|reflexivity].
              destruct (get_job cur k) as [z|]; [|reflexivity]. cbn [option_map]. unfold scanf.
              rewrite (dueh_env cur cur1 z (sf_now _ _ F1) (sf_hard _ _ F1)). reflexivity.
        -- intros q. rewrite B, P1. cbn [map snd memZ existsb]. fold (memZ q (map snd (spairs cur snap))).
           destruct (Z.eqb_spec q p) as [->|Hne].
           ++ rewrite Hmp, Hpi. reflexivity.
           ++ cbn [orb]. reflexivity.
        -- rewrite C, S1. cbn [flat_map snd]. rewrite <- app_assoc. reflexivity.
        -- eapply sframe_trans; eauto.
    + (* not overdue: nothing happens *)
      assert (E1 : scan_job l cur j = cur).
      { apply scan_job_notdue; [exact Hsoft|]. intros z Hz. assert (z = x) by congruence. subst z. auto. }
      assert (Esp : spairs cur (j :: snap) = spairs cur snap) by (unfold spairs; cbn [flat_map]; rewrite Hx, Hdue; reflexivity).
      rewrite E1. rewrite Esp in *.
      destruct (IH cur Hnd' Hpos' Hsoft (fun k y Hk0 => Hjobs k y (or_intror Hk0)) Hvnd Hval) as (A & B & C & D).
      split; [|auto]. intros k. rewrite A. cbn [memZ existsb]. fold (memZ k snap).
      destruct (Z.eqb_spec k j) as [->|Hne]; [|reflexivity].
      rewrite Hmj, Hx. cbn [option_map orb]. unfold scanf. rewrite Hdue. reflexivity.
Qed.

(* the job table is indexed by job id *)
Lemma AllJ_get s k x : AllJ s -> get_job s k = Some x -> jid x = k.
Proof. intros Ha Hg. destruct (get_job_nth _ _ _ Hg) as [Hk Hn]. destruct (Ha _ _ Hn) as [_ Hid]. lia. Qed.

Lemma AllJ_in_get s x : AllJ s -> In x (jobs s) -> get_job s (jid x) = Some x.
Proof.
  intros Ha Hin. apply In_nth_error in Hin. destruct Hin as [i Hi]. destruct (Ha _ _ Hi) as [_ Hid].
  rewrite Hid. unfold get_job. replace (Z.of_nat i <? 0) with false by lia. rewrite Nat2Z.id. exact Hi.
Qed.

Lemma AllJ_nodup_jid s : AllJ s -> NoDup (map jid (jobs s)).
Proof.
  intros Ha. apply NoDup_nth_error. intros i j Hi E. rewrite map_length in Hi.
  rewrite !nth_error_map in E.
  destruct (nth_error (jobs s) i) as [x|] eqn:Ex; [|apply nth_error_None in Ex; lia].
  destruct (nth_error (jobs s) j) as [z|] eqn:Ez; [|discriminate].
  cbn in E. inversion E as [E']. destruct (Ha _ _ Ex) as [_ A]. destruct (Ha _ _ Ez) as [_ B]. lia.
Qed.

(* what the scan decides, on the job table *)
Definition scang (s : pool) (x : job) : job := if scanner s && dueb s x then hard_result x else x.
Definition dpairs (s : pool) : list (Z * Z) := if scanner s then due_pairs s else [].

Record ScanPre (s : pool) : Prop := {
  sp_allj : AllJ s;
  sp_jobs : forall k x, get_job s k = Some x ->
                        kind x = KApply /\ soft x = None /\ (time_accepted x <> None -> exists p, owner x = Some p);
  sp_soft : t_soft s = None;
  sp_nodup : NoDup (map snd (due_pairs s));
  sp_alive : forall j p, In (j, p) (due_pairs s) -> in_pool s p = true /\ exists jt, pinfo s p = Some (None, jt)
}.

Lemma dueb_dueh s x : kind x = KApply -> dueb s x = incache x && dueh s x.
Proof. intros Hk. unfold dueb, dueh. rewrite Hk, andb_assoc. reflexivity. Qed.

Lemma spairs_snapshot s : AllJ s -> (forall k x, get_job s k = Some x -> kind x = KApply) ->
  spairs s (snapshot s) = due_pairs s.
Proof.
  intros Ha Hk. unfold spairs, snapshot, due_pairs.
  assert (H : forall l, (forall x, In x l -> In x (jobs s)) ->
            flat_map (fun j => match get_job s j with
                               | Some x => if dueh s x then match owner x with Some p => [(j, p)] | None => [] end else []
                               | None => [] end) (map jid (filter incache l))
            = flat_map (fun x => if dueb s x then match owner x with Some p => [(jid x, p)] | None => [] end else []) l).
  { induction l as [|x l IH]; intros Hin; [reflexivity|]. cbn [filter flat_map].
    assert (Hx : In x (jobs s)) by (apply Hin; left; reflexivity).
    pose proof (AllJ_in_get s x Ha Hx) as Hg. rewrite (dueb_dueh s x (Hk _ _ Hg)).
    destruct (incache x); cbn [map flat_map andb].
    - rewrite Hg. f_equal. apply IH. intros z Hz. apply Hin. right. exact Hz.
    - apply IH. intros z Hz. apply Hin. right. exact Hz. }
  apply H. auto.
Qed.

Lemma memZ_snapshot s k x : AllJ s -> get_job s k = Some x -> memZ k (snapshot s) = incache x.
Proof.
  intros Ha Hg. apply eq_iff_eq_true. rewrite memZ_In. split.
  - unfold snapshot. rewrite in_map_iff. intros (z & Hz & Hin). apply filter_In in Hin. destruct Hin as [Hin Hc].
    pose proof (AllJ_in_get s z Ha Hin) as Hg'. rewrite Hz in Hg'. congruence.
  - intros Hc. eapply in_snapshot; eauto.
Qed.

(* one whole pass of the timeout handler, exactly *)
Lemma lscan_spec s l :
  ScanPre s ->
  let s' := fst (step s (EScan l)) in
  (forall k, get_job s' k = option_map (scang s) (get_job s k))
  /\ (forall q, pinfo s' q = if memZ q (map snd (dpairs s)) then option_map (killf l) (pinfo s q) else pinfo s q)
  /\ sigs s' = flat_map (fun jp => sigs_for l (snd jp)) (dpairs s)
  /\ sframe s s'.
Proof.
  intros [Ha Hjobs Hsoft Hnd Hal]. unfold step. cbn [fst]. unfold do_scan. unfold scang, dpairs.
  change (scanner (with_sigs s [])) with (scanner s).
  destruct (scanner s) eqn:Hsc; cbn [negb fst andb].
  - change (filter incache (jobs (with_sigs s []))) with (filter incache (jobs s)).
    fold (snapshot s).
    set (s1 := with_dirty (with_sigs s []) (filter (fun j => memZ j (snapshot s)) (dirty (with_sigs s [])))).
    assert (Hg1 : forall k, get_job s1 k = get_job s k) by reflexivity.
    assert (Hp1 : forall q, pinfo s1 q = pinfo s q) by reflexivity.
    assert (Hk1 : forall k x, get_job s k = Some x -> kind x = KApply) by (intros k x Hx; apply (Hjobs k x Hx)).
    assert (Hsp : spairs s1 (snapshot s) = due_pairs s).
    { rewrite <- (spairs_snapshot s Ha Hk1). apply spairs_ext; try reflexivity. }
    destruct (scan_fold l (snapshot s) s1) as (A & B & C & D).
    + unfold snapshot. apply NoDup_map_filter. apply AllJ_nodup_jid. exact Ha.
    + intros j Hj. eapply snapshot_nonneg; eauto.
    + exact Hsoft.
    + intros j x _ Hx. rewrite Hg1 in Hx. apply (Hjobs j x Hx).
    + rewrite Hsp. exact Hnd.
    + intros j p Hin. rewrite Hsp in Hin. destruct (Hal j p Hin) as (X & jt & Y). split; [exact X|]. exists jt. rewrite Hp1. exact Y.
    + rewrite Hsp in *. split; [|split; [|split]].
      * intros k. change (get_job (with_todo (fold_left (scan_job l) (snapshot s) s1) []) k)
          with (get_job (fold_left (scan_job l) (snapshot s) s1) k). rewrite A, Hg1.
        destruct (get_job s k) as [x|] eqn:Hx.
        -- cbn [option_map]. rewrite (memZ_snapshot s k x Ha Hx), (dueb_dueh s x (Hk1 k x Hx)).
           unfold scanf. rewrite (dueh_env s s1 x) by reflexivity. destruct (incache x); reflexivity.
        -- destruct (memZ k (snapshot s)); reflexivity.
      * intros q. change (pinfo (with_todo (fold_left (scan_job l) (snapshot s) s1) []) q)
          with (pinfo (fold_left (scan_job l) (snapshot s) s1) q). rewrite B, Hp1. reflexivity.
      * change (sigs (with_todo (fold_left (scan_job l) (snapshot s) s1) [])) with (sigs (fold_left (scan_job l) (snapshot s) s1)).
        rewrite C. reflexivity.
      * destruct D. constructor; assumption.
  - split; [|split; [|split]].
    + intros k. change (get_job (with_todo (with_sigs s []) []) k) with (get_job s k).
      destruct (get_job s k); reflexivity.
    + intros q. reflexivity.
    + reflexivity.
    + constructor; reflexivity.
Qed.

Local Opaque step.

(* ================================================================== B. lists *)
Lemma list_ext_nth {A} : forall (l l' : list A), (forall i, nth_error l i = nth_error l' i) -> l = l'.
Proof.
  induction l as [|a l IH]; intros [|b l'] H; [reflexivity|specialize (H O); discriminate|specialize (H O); discriminate|].
  pose proof (H O) as H0. cbn in H0. inversion H0; subst. f_equal. apply IH. intros i. exact (H (S i)).
Qed.

(* a job table updated job by job is the old one mapped through the update *)
Fixpoint imap (F : Z -> job -> job) (i : nat) (l : list job) : list job :=
  match l with [] => [] | x :: r => F (Z.of_nat i) x :: imap F (S i) r end.

Lemma nth_imap F : forall l i0 i, nth_error (imap F i0 l) i = option_map (F (Z.of_nat (i0 + i))) (nth_error l i).
Proof.
  induction l as [|x l IH]; intros i0 [|i]; cbn [imap nth_error option_map]; try reflexivity.
  - rewrite Nat.add_0_r. reflexivity.
  - rewrite IH. replace (S i0 + i)%nat with (i0 + S i)%nat by lia. reflexivity.
Qed.

Lemma jmap_imap s s' F : jmap s s' F -> jobs s' = imap F 0 (jobs s).
Proof.
  intros [Hl H]. apply list_ext_nth. intros i. rewrite nth_imap. cbn [Nat.add].
  specialize (H (Z.of_nat i)). unfold get_job in H. replace (Z.of_nat i <? 0) with false in H by lia.
  rewrite Nat2Z.id in H. exact H.
Qed.

Lemma imap_length F : forall l i0, length (imap F i0 l) = length l.
Proof. induction l as [|x l IH]; intros i0; cbn; [reflexivity|rewrite IH; reflexivity]. Qed.

Lemma filter_imap_same (u : job -> bool) F : forall l i0,
    (forall i x, nth_error l i = Some x -> u (F (Z.of_nat (i0 + i)) x) = u x) ->
    length (filter u (imap F i0 l)) = length (filter u l).
Proof.
  induction l as [|x l IH]; intros i0 H; [reflexivity|]. cbn [imap filter].
  pose proof (H O x eq_refl) as H0. rewrite Nat.add_0_r in H0. rewrite H0.
  assert (IH' : length (filter u (imap F (S i0) l)) = length (filter u l)).
  { apply IH. intros i z Hz. replace (S i0 + i)%nat with (i0 + S i)%nat by lia. apply (H (S i) z Hz). }
  destruct (u x); cbn [length]; rewrite IH'; reflexivity.
Qed.

(* exactly one job changes from counted to not counted *)
Lemma filter_imap_one (u : job -> bool) F : forall l i0 i1 x1,
    nth_error l i1 = Some x1 -> u x1 = true -> u (F (Z.of_nat (i0 + i1)) x1) = false ->
    (forall i x, nth_error l i = Some x -> i <> i1 -> u (F (Z.of_nat (i0 + i)) x) = u x) ->
    (length (filter u (imap F i0 l)) + 1 = length (filter u l))%nat.
Proof.
  induction l as [|x l IH]; intros i0 [|i1] x1 Hn Hu Hf Ho; cbn [nth_error] in Hn; try discriminate.
  - inversion Hn; subst x1. cbn [imap filter]. rewrite Nat.add_0_r in Hf. rewrite Hf, Hu. cbn [length].
    rewrite (filter_imap_same u F l (S i0)); [lia|].
    intros i z Hz. replace (S i0 + i)%nat with (i0 + S i)%nat by lia. apply (Ho (S i) z Hz). lia.
  - cbn [imap filter]. pose proof (Ho O x eq_refl ltac:(lia)) as H0. rewrite Nat.add_0_r in H0. rewrite H0.
    assert (IH' : (length (filter u (imap F (S i0) l)) + 1 = length (filter u l))%nat).
    { apply (IH (S i0) i1 x1 Hn Hu).
      - replace (S i0 + i1)%nat with (i0 + S i1)%nat by lia. exact Hf.
      - intros i z Hz Hne. replace (S i0 + i)%nat with (i0 + S i)%nat by lia. apply (Ho (S i) z Hz). lia. }
    destruct (u x); cbn [length]; lia.
Qed.

Lemma lsum_imap_same (g g' : job -> nat) F : forall l i0,
    (forall i x, nth_error l i = Some x -> g' (F (Z.of_nat (i0 + i)) x) = g x) ->
    list_sum (map g' (imap F i0 l)) = list_sum (map g l).
Proof.
  induction l as [|x l IH]; intros i0 H; [reflexivity|]. cbn [imap map]. rewrite !lsum_cons.
  pose proof (H O x eq_refl) as H0. rewrite Nat.add_0_r in H0. rewrite H0. f_equal.
  apply IH. intros i z Hz. replace (S i0 + i)%nat with (i0 + S i)%nat by lia. apply (H (S i) z Hz).
Qed.

Lemma lsum_imap_le (g g' : job -> nat) F : forall l i0,
    (forall i x, nth_error l i = Some x -> (g' (F (Z.of_nat (i0 + i)) x) <= g x)%nat) ->
    (list_sum (map g' (imap F i0 l)) <= list_sum (map g l))%nat.
Proof.
  induction l as [|x l IH]; intros i0 H; [cbn; lia|]. cbn [imap map]. rewrite !lsum_cons.
  pose proof (H O x eq_refl) as H0. rewrite Nat.add_0_r in H0.
  assert (list_sum (map g' (imap F (S i0) l)) <= list_sum (map g l))%nat.
  { apply IH. intros i z Hz. replace (S i0 + i)%nat with (i0 + S i)%nat by lia. apply (H (S i) z Hz). }
  lia.
Qed.

Lemma filter_or_disjoint {A} (a b : A -> bool) l :
  (forall x, In x l -> a x = true -> b x = false) ->
  length (filter (fun x => a x || b x) l) = (length (filter a l) + length (filter b l))%nat.
Proof.
  induction l as [|x l IH]; intros H; [reflexivity|]. cbn [filter].
  assert (IH' := IH (fun z Hz => H z (or_intror Hz))).
  pose proof (H x (or_introl eq_refl)) as Hx.
  destruct (a x) eqn:Ea; cbn [orb length].
  - rewrite (Hx eq_refl). lia.
  - destruct (b x); cbn [length]; lia.
Qed.

Lemma filter_mem_length l v : NoDup l -> NoDup v -> (forall q, In q v -> In q l) ->
  length (filter (fun q => memZ q v) l) = length v.
Proof.
  intros Hl Hv Hin. apply Permutation_length. apply NoDup_Permutation; [apply NoDup_filter; exact Hl|exact Hv|].
  intros q. rewrite filter_In, memZ_In. split; [tauto|]. intros H. split; [apply Hin; exact H|exact H].
Qed.

Lemma filter_and_not (u d : job -> bool) (f : job -> job) l :
  (forall x, In x l -> u (f x) = u x && negb (d x)) -> (forall x, In x l -> d x = true -> u x = true) ->
  (length (filter u (map f l)) + length (filter d l) = length (filter u l))%nat.
Proof.
  induction l as [|x l IH]; intros H1 H2; [reflexivity|]. cbn [map filter].
  assert (IH' := IH (fun z Hz => H1 z (or_intror Hz)) (fun z Hz => H2 z (or_intror Hz))).
  rewrite (H1 x (or_introl eq_refl)). pose proof (H2 x (or_introl eq_refl)) as Hx.
  destruct (d x) eqn:Ed.
  - rewrite (Hx eq_refl). cbn [andb negb length]. lia.
  - destruct (u x); cbn [andb negb length]; lia.
Qed.

Lemma running_filter (g : Z -> bool) w :
  running (filter (fun e => g (fst e)) w) = filter (fun jp => g (snd jp)) (running w).
Proof.
  induction w as [|[p [j|]] w IH]; [reflexivity| |].
  - cbn [filter fst]. rewrite running_busy. cbn [filter snd]. destruct (g p); [rewrite running_busy|]; rewrite IH; reflexivity.
  - cbn [filter fst]. rewrite running_idle. destruct (g p); [rewrite running_idle|]; exact IH.
Qed.

Lemma pcnt_filter_keep (g : Z * Z -> bool) k l :
  (forall q, In (k, q) l -> g (k, q) = true) -> pcnt k (filter g l) = pcnt k l.
Proof.
  induction l as [|[j q] l IH]; intros H; [reflexivity|]. cbn [filter].
  assert (IH' := IH (fun q0 Hq => H q0 (or_intror Hq))).
  destruct (Z.eqb_spec j k) as [->|Hne].
  - rewrite (H q (or_introl eq_refl)), !pcnt_cons, IH'. reflexivity.
  - destruct (g (j, q)); rewrite ?pcnt_cons, IH', ?(eqb_ne j k Hne); reflexivity.
Qed.

Lemma pcnt_filter_le (g : Z * Z -> bool) k l : (pcnt k (filter g l) <= pcnt k l)%nat.
Proof.
  induction l as [|[j q] l IH]; [cbn; lia|]. cbn [filter]. destruct (g (j, q)); rewrite ?pcnt_cons; lia.
Qed.

Lemma in_filter_snd (g : Z -> bool) (k q : Z) (l : list (Z * Z)) :
  In (k, q) (filter (fun jp => g (snd jp)) l) <-> In (k, q) l /\ g q = true.
Proof. rewrite filter_In. reflexivity. Qed.

Lemma nodupZ_ok l : nodupZ l = true -> NoDup l.
Proof.
  induction l as [|a l IH]; intros H; [constructor|]. cbn in H. apply andb_true_iff in H. destruct H as [H1 H2].
  constructor; [|apply IH; exact H2]. intros Hin. apply memZ_In in Hin. rewrite Hin in H1. discriminate.
Qed.

(* ================================================================== C. the invariant *)
Definition lst (y : lsys) : list (Z * Z) := running (lwk y) ++ creadys (loutq y).
Definition nunres (s : pool) : nat := length (filter (fun x => negb (ready x)) (jobs s)).

Definition LJ (y : lsys) (k : Z) (x : job) : Prop :=
  let s := lpar y in
  kind x = KApply /\ soft x = None /\ worker_lost x = None
  (* the effective limit: the call's own if it gave one, else the pool default *)
  /\ (exists h, nth_error (llims y) (Z.to_nat k) = Some h /\ hard x = py_or h (t_hard s))
  /\ (wp x = [] /\ accepted x = false /\ time_accepted x = None
      \/ exists p t, wp x = [p] /\ accepted x = true /\ time_accepted x = Some t /\ t <= now s)
  /\ (ready x = false -> incache x = true /\ value x = None /\ cb_succ x = 0 /\ cb_err x = 0)
  /\ (ready x = true ->
      (value x = Some (outcome_of (lbad y) k)
       /\ cb_succ x = (if task_ok (lbad y) k then 1 else 0) /\ cb_err x = (if task_ok (lbad y) k then 0 else 1))
      (* failed by the timeout handler: it had been accepted, has a non-zero effective limit, the limit
         has elapsed since acceptance, and the error carries that limit *)
      \/ (value x = Some (PTimeLimit (hard x)) /\ cb_succ x = 0 /\ cb_err x = 1 /\ incache x = false
          /\ scanner s = true
          /\ exists t lim, time_accepted x = Some t /\ hard x = Some lim /\ lim <> 0 /\ t <> 0 /\ t + lim <= now s)).

Record LInv (n : nat) (y : lsys) : Prop := {
  u_allj : AllJ (lpar y);
  (* an unresolved job is in exactly one place; a resolved one is in no queue and on no worker
     (a stale READY of a job the scan failed may still be in the pipe) *)
  u_tok : forall j, cunres (lpar y) j = true -> (cnt j (ltaskq y) + cnt j (linq y) + pcnt j (lst y) = 1)%nat;
  u_tok0 : forall j, cunres (lpar y) j = false -> (cnt j (ltaskq y) + cnt j (linq y) + pcnt j (running (lwk y)) = 0)%nat;
  u_job : forall k x, get_job (lpar y) k = Some x -> LJ y k x;
  u_msg : forall j p ok t, In (MReady j p ok t) (loutq y) ->
          t = tag_of j /\ ok = task_ok (lbad y) j /\ exists x, get_job (lpar y) j = Some x;
  u_pid : forall m, In m (loutq y) -> in_pool (lpar y) (msg_pid m) = true;
  u_ack : forall k p, In (MAck k p) (loutq y) ->
          (exists x, get_job (lpar y) k = Some x) /\ (cunres (lpar y) k = true -> In (k, p) (lst y));
  u_acks : forall k x, get_job (lpar y) k = Some x -> ready x = false ->
           (cnt k (acks (loutq y)) + one (accepted x) = pcnt k (lst y))%nat;
  u_wp : forall k x p, get_job (lpar y) k = Some x -> ready x = false -> In p (wp x) -> In (k, p) (lst y);
  u_wk : map fst (lwk y) = kept (lpar y);
  u_size : Z.of_nat (length (wlist (lpar y))) = nprocs (lpar y);
  u_st : pstate (lpar y) = 0;
  u_maxr : maxR (rst (lpar y)) = None;
  u_w : WInv (lpar y);
  u_nn : 0 <= LaxSem.value (sem (lpar y)) <= LaxSem.bound (sem (lpar y));
  (* free slots + unresolved jobs + workers killed and not reaped yet = the bound *)
  u_sem : putlocks (lpar y) = true ->
          LaxSem.value (sem (lpar y)) + Z.of_nat (nunres (lpar y)) + Z.of_nat (length (dead_workers (lpar y)))
          = LaxSem.bound (sem (lpar y));
  u_bound : 1 <= LaxSem.bound (sem (lpar y)) /\ 1 <= nprocs (lpar y);
  u_soft : t_soft (lpar y) = None;
  u_n : (length (jobs (lpar y)) + length (ltodo y) = n)%nat;
  u_lims : length (llims y) = length (jobs (lpar y))
}.

Ltac lfields := cbn [lpar lbad ltodo llims ltaskq linq lwk loutq].

Lemma pcnt_lst j y : pcnt j (lst y) = (pcnt j (running (lwk y)) + pcnt j (creadys (loutq y)))%nat.
Proof. unfold lst. apply pcnt_app. Qed.
Lemma in_lst k p y : In (k, p) (lst y) <-> In (k, p) (running (lwk y)) \/ In (k, p) (creadys (loutq y)).
Proof. unfold lst. apply in_app_iff. Qed.

Lemma lst_unique n y k p p' : LInv n y -> cunres (lpar y) k = true -> In (k, p) (lst y) -> In (k, p') (lst y) -> p = p'.
Proof.
  intros H Hu H1 H2. eapply pair_unique; eauto. pose proof (u_tok n y H k Hu). lia.
Qed.

Lemma lst_unres n y k p : LInv n y -> cunres (lpar y) k = true -> In (k, p) (lst y) ->
  pcnt k (lst y) = 1%nat /\ cnt k (ltaskq y) = 0%nat /\ cnt k (linq y) = 0%nat.
Proof. intros H Hu Hin. pose proof (u_tok n y H k Hu). apply pcnt_in in Hin. lia. Qed.

Lemma llive_worker n y p : LInv n y -> In p (map fst (lwk y)) ->
  in_pool (lpar y) p = true /\ exited (lpar y) p = false.
Proof.
  intros H Hin. rewrite (u_wk n y H) in Hin. unfold kept in Hin. apply filter_In in Hin. destruct Hin as [Hw He].
  split; [apply memZ_In; exact Hw|]. destruct (exited (lpar y) p); [discriminate|reflexivity].
Qed.

Lemma lwk_nodup n y : LInv n y -> NoDup (map fst (lwk y)).
Proof. intros H. rewrite (u_wk n y H). unfold kept. apply NoDup_filter. apply WInv_wlist_nodup. exact (u_w n y H). Qed.

Lemma running_in_wk k p w : In (k, p) (running w) -> In p (map fst w).
Proof. intros H. apply in_running in H. apply in_map_iff. exists (p, Some k). split; [reflexivity|exact H]. Qed.

Lemma eff_hard_hard s x h : hard x = py_or h (t_hard s) -> eff_hard s x = hard x.
Proof.
  intros H. unfold eff_hard. destruct (hard x) as [v|] eqn:E; [reflexivity|].
  unfold py_or in H. destruct (truthyZ h) eqn:Et; [|congruence]. destruct h; [discriminate|discriminate].
Qed.

(* ---- steps that leave the parent alone *)
Lemma linv_same_par n y y' :
  LInv n y -> lpar y' = lpar y -> lbad y' = lbad y -> ltodo y' = ltodo y -> llims y' = llims y ->
  (forall j, (cnt j (ltaskq y') + cnt j (linq y') + pcnt j (lst y') = cnt j (ltaskq y) + cnt j (linq y) + pcnt j (lst y))%nat) ->
  (forall j, (cnt j (ltaskq y') + cnt j (linq y') + pcnt j (running (lwk y')) <= cnt j (ltaskq y) + cnt j (linq y) + pcnt j (running (lwk y))
              \/ cunres (lpar y) j = true)%nat) ->
  (forall j p ok t, In (MReady j p ok t) (loutq y') ->
                    In (MReady j p ok t) (loutq y) \/ (t = tag_of j /\ ok = task_ok (lbad y) j /\ cunres (lpar y) j = true)) ->
  (forall m, In m (loutq y') -> In m (loutq y) \/ In (msg_pid m) (map fst (lwk y))) ->
  (forall k p, In (k, p) (lst y) -> In (k, p) (lst y')) ->
  (forall k p, In (MAck k p) (loutq y') ->
               In (MAck k p) (loutq y) \/ (cunres (lpar y) k = true /\ In (k, p) (lst y'))) ->
  (forall k, (cnt k (acks (loutq y')) + pcnt k (lst y) = cnt k (acks (loutq y)) + pcnt k (lst y'))%nat) ->
  map fst (lwk y') = map fst (lwk y) ->
  LInv n y'.
Proof.
  intros H Ep Eb Et El Htok Htok0 Hmsg Hpid Hmono Hack Hacks Hwk.
  pose proof H as [Ha Ht Ht0 Hj Hm Hpi Hac Hacs Hwp Hwk0 Hsize Hst Hmaxr Hw Hnn Hsem Hbound Hsoft Hn Hlims].
  constructor; rewrite ?Ep, ?Eb, ?Et, ?El; try assumption.
  - intros j Hu. rewrite Htok. apply Ht. exact Hu.
  - intros j Hu. destruct (Htok0 j) as [Hle|Hc]; [|congruence]. specialize (Ht0 j Hu). lia.
  - intros k x Hg. specialize (Hj k x Hg). unfold LJ in *. rewrite Ep, Eb, El. exact Hj.
  - intros j p ok t Hin. destruct (Hmsg j p ok t Hin) as [Hold|(A & B & C)]; [eauto|].
    split; [exact A|]. split; [exact B|]. destruct (cunres_job _ _ C) as (x & Hx & _). eauto.
  - intros m Hin. destruct (Hpid m Hin) as [Hold|Hnew]; [eauto|]. apply (llive_worker n y _ H Hnew).
  - intros k p Hin. destruct (Hack k p Hin) as [Hold|[Hu Hs]].
    + destruct (Hac k p Hold) as [A B]. split; [exact A|]. intros Hu. apply Hmono, B, Hu.
    + split; [|intros _; exact Hs]. destruct (cunres_job _ _ Hu) as (x & Hx & _). eauto.
  - intros k x Hg Hr. specialize (Hacs k x Hg Hr). specialize (Hacks k). lia.
  - intros k x p Hg Hr Hin. apply Hmono. eapply Hwp; eauto.
  - rewrite Hwk. exact Hwk0.
Qed.

Lemma linv_put n y y' : LInv n y -> limit_step y LPut = Some y' -> LInv n y'.
Proof.
  intros H. cbn [limit_step]. destruct (ltaskq y) as [|j r] eqn:Eq; [discriminate|].
  intros E; inversion E; subst y'; clear E.
  apply (linv_same_par n y); lfields; try reflexivity; try tauto.
  - intros j0. change (lst (mkls _ _ _ _ _ _ _ _)) with (lst y). rewrite Eq, cnt_app, cnt_one, cnt_cons. lia.
  - intros j0. left. rewrite Eq, cnt_app, cnt_one, cnt_cons. lia.
Qed.

Lemma linv_take n y p y' : LInv n y -> limit_step y (LTake p) = Some y' -> LInv n y'.
Proof.
  intros H. cbn [limit_step]. destruct (wk_get (lwk y) p) as [[?|]|] eqn:Eg; try discriminate.
  destruct (linq y) as [|j r] eqn:Eq; [discriminate|]. intros E; inversion E; subst y'; clear E.
  destruct (wk_split _ _ _ Eg (lwk_nodup n y H)) as (w1 & w2 & Ew & Es & Ed).
  assert (Hrun : running (wk_set (lwk y) p (Some j)) = running w1 ++ (j, p) :: running w2)
    by (rewrite Es, running_app, running_busy; reflexivity).
  assert (Hrun0 : running (lwk y) = running w1 ++ running w2)
    by (rewrite Ew, running_app, running_idle; reflexivity).
  assert (Hju : cunres (lpar y) j = true).
  { destruct (cunres (lpar y) j) eqn:Hu; [reflexivity|exfalso].
    pose proof (u_tok0 n y H j Hu) as Ht. rewrite Eq, cnt_cons, Z.eqb_refl in Ht. cbn [one] in Ht. lia. }
  apply (linv_same_par n y); lfields; try reflexivity.
  - exact H.
  - intros j0. rewrite !pcnt_lst. lfields.
    rewrite Hrun, Hrun0, Eq, cnt_cons, creadys_app, creadys_ack, !pcnt_app, pcnt_cons, pcnt_nil. lia.
  - intros j0. destruct (Z.eqb_spec j j0) as [<-|Hne]; [right; exact Hju|left].
    rewrite Hrun, Hrun0, Eq, cnt_cons, !pcnt_app, pcnt_cons, (eqb_ne j j0 Hne). cbn [one]. lia.
  - intros j0 p0 ok t Hin. apply in_app_or in Hin. destruct Hin as [Hin|[Hin|[]]]; [left; exact Hin|discriminate].
  - intros m Hin. apply in_app_or in Hin. destruct Hin as [Hin|[<-|[]]]; [left; exact Hin|right].
    cbn [msg_pid]. rewrite Ew, map_app. apply in_or_app. right. left. reflexivity.
  - intros k q. rewrite !in_lst. lfields. rewrite Hrun, Hrun0, creadys_app, !in_app_iff. cbn [In]. tauto.
  - intros k q Hin. apply in_app_or in Hin. destruct Hin as [Hin|[E|[]]]; [left; exact Hin|right].
    inversion E; subst. split; [exact Hju|]. rewrite in_lst. lfields. left. rewrite Hrun. apply in_or_app. right. left. reflexivity.
  - intros k. rewrite !pcnt_lst. lfields.
    rewrite Hrun, Hrun0, acks_app, acks_ack, cnt_app, creadys_app, creadys_ack, !pcnt_app, pcnt_cons, pcnt_nil, cnt_one. lia.
  - apply map_fst_wk_set.
Qed.

Lemma linv_finish n y p y' : LInv n y -> limit_step y (LFinish p) = Some y' -> LInv n y'.
Proof.
  intros H. cbn [limit_step]. destruct (wk_get (lwk y) p) as [[j|]|] eqn:Eg; try discriminate.
  intros E; inversion E; subst y'; clear E.
  destruct (wk_split _ _ _ Eg (lwk_nodup n y H)) as (w1 & w2 & Ew & Es & Ed).
  assert (Hrun : running (wk_set (lwk y) p None) = running w1 ++ running w2)
    by (rewrite Es, running_app, running_idle; reflexivity).
  assert (Hrun0 : running (lwk y) = running w1 ++ (j, p) :: running w2)
    by (rewrite Ew, running_app, running_busy; reflexivity).
  assert (Hju : cunres (lpar y) j = true).
  { destruct (cunres (lpar y) j) eqn:Hu; [reflexivity|exfalso].
    pose proof (u_tok0 n y H j Hu) as Ht. rewrite Hrun0, pcnt_app, pcnt_cons, Z.eqb_refl in Ht. cbn [one] in Ht. lia. }
  apply (linv_same_par n y); lfields; try reflexivity.
  - exact H.
  - intros j0. rewrite !pcnt_lst. lfields.
    rewrite Hrun, Hrun0, creadys_app, creadys_ready, !pcnt_app, !pcnt_cons, pcnt_nil. lia.
  - intros j0. left. rewrite Hrun, Hrun0, !pcnt_app, pcnt_cons. lia.
  - intros j0 p0 ok t Hin. apply in_app_or in Hin. destruct Hin as [Hin|[Hin|[]]]; [left; exact Hin|right].
    inversion Hin; subst. auto.
  - intros m Hin. apply in_app_or in Hin. destruct Hin as [Hin|[<-|[]]]; [left; exact Hin|right].
    cbn [msg_pid]. rewrite Ew, map_app. apply in_or_app. right. left. reflexivity.
  - intros k q. rewrite !in_lst. lfields. rewrite Hrun, Hrun0, creadys_app, creadys_ready, !in_app_iff. cbn [In]. tauto.
  - intros k q Hin. apply in_app_or in Hin. destruct Hin as [Hin|[E|[]]]; [left; exact Hin|discriminate].
  - intros k. rewrite !pcnt_lst. lfields.
    rewrite Hrun, Hrun0, acks_app, acks_ready, cnt_app, creadys_app, creadys_ready, !pcnt_app, !pcnt_cons, pcnt_nil, cnt_nil. lia.
  - apply map_fst_wk_set.
Qed.

Lemma LJ_frame y y' k x :
  t_hard (lpar y') = t_hard (lpar y) -> scanner (lpar y') = scanner (lpar y) -> now (lpar y) <= now (lpar y') -> lbad y' = lbad y ->
  (forall h, nth_error (llims y) (Z.to_nat k) = Some h -> nth_error (llims y') (Z.to_nat k) = Some h) ->
  LJ y k x -> LJ y' k x.
Proof.
  intros Eh Es En Eb El (A & B & C & (h & D1 & D2) & E & F & G). unfold LJ. rewrite Eb, Eh, Es.
  split; [exact A|]. split; [exact B|]. split; [exact C|]. split; [exists h; auto|]. split.
  - destruct E as [E|(p & t & E1 & E2 & E3 & E4)]; [left; exact E|right]. exists p, t. repeat split; try assumption. lia.
  - split; [exact F|]. intros Hr. destruct (G Hr) as [G1|(G1 & G2 & G3 & G4 & G4' & t & lim & G5 & G6 & G7 & G8 & G9)]; [left; exact G1|right].
    repeat (split; [assumption|]). exists t, lim. repeat split; try assumption. lia.
Qed.

Lemma dead_frame s s' : pframe s s' -> dead_workers s' = dead_workers s.
Proof.
  intros PF. unfold dead_workers. rewrite (pf_wlist _ _ PF). apply filter_ext_eq. apply (pframe_exited _ _ PF).
Qed.

(* ---- apply_async *)
Lemma linv_submit n y y' : LInv n y -> limit_step y LSubmit = Some y' -> LInv n y'.
Proof.
  intros H. pose proof H as [Ha Ht Ht0 Hj Hm Hpi Hac Hacs Hwp Hwk0 Hsize Hst Hmaxr Hw Hnn Hsem Hbound Hsoft Hn Hlims].
  cbn [limit_step]. destruct (ltodo y) as [|h td] eqn:Etd; [discriminate|].
  destruct (step (lpar y) (EApply None h None None)) as [s' r] eqn:Est.
  destruct r; try discriminate. intros E; inversion E; subst y'; clear E.
  destruct (lapply_spec _ _ _ (proj1 Hnn) Est) as (PF & NW & Hp0 & Hjobs & Hl & Hnl).
  pose proof (lframe_step (lpar y) (EApply None h None None) I) as LF. rewrite Est in LF. cbn [fst] in LF.
  set (jn := Z.of_nat (length (jobs (lpar y)))) in *.
  assert (Hget : forall j, get_job s' j = if j =? jn then Some (lfresh (lpar y) h) else get_job (lpar y) j).
  { intros j. rewrite !get_job_gj, Hjobs. apply gj_app_new. }
  assert (Hfresh : get_job (lpar y) jn = None) by (rewrite get_job_gj; apply gj_fresh).
  assert (Hun : forall j, cunres s' j = if j =? jn then true else cunres (lpar y) j).
  { intros j. unfold cunres. rewrite Hget. destruct (j =? jn); reflexivity. }
  assert (Hun0 : cunres (lpar y) jn = false) by (unfold cunres; rewrite Hfresh; reflexivity).
  assert (Hnr : pcnt jn (creadys (loutq y)) = 0%nat).
  { destruct (pcnt jn (creadys (loutq y))) eqn:E; [reflexivity|exfalso].
    destruct (pcnt_pos_in jn (creadys (loutq y))) as [p Hp]; [lia|]. apply in_creadys in Hp. destruct Hp as (ok & t & Hp).
    destruct (Hm _ _ _ _ Hp) as (_ & _ & x & Hx). congruence. }
  assert (Hww : WInv s') by (pose proof (WInv_step (lpar y) (EApply None h None None) Hw) as X; rewrite Est in X; exact X).
  assert (Haa : AllJ s').
  { destruct (good_step (lpar y) (EApply None h None None) Ha) as [X _]. rewrite Est in X. exact X. }
  set (y' := mkls s' (lbad y) td (llims y ++ [h]) (ltaskq y ++ [jn]) (linq y) (lwk y) (loutq y)).
  assert (Hlst : lst y' = lst y) by reflexivity.
  assert (HLJ : forall k x, k <> jn -> LJ y k x -> LJ y' k x).
  { intros k x Hne. apply LJ_frame; unfold y'; lfields; [apply LF|apply LF|lia|reflexivity|].
    intros h0 Hh. rewrite nth_error_app1; [exact Hh|]. apply nth_error_Some. congruence. }
  constructor; unfold y'; lfields; fold y'.
  - exact Haa.
  - intros j. rewrite Hun, Hlst, cnt_app, cnt_one. destruct (Z.eqb_spec j jn) as [->|Hne].
    + intros _. specialize (Ht0 jn Hun0). rewrite pcnt_lst, Hnr, Z.eqb_refl. cbn [one]. lia.
    + intros Hu. specialize (Ht j Hu). rewrite (eqb_ne jn j) by congruence. cbn [one]. lia.
  - intros j. rewrite Hun, cnt_app, cnt_one. destruct (Z.eqb_spec j jn) as [->|Hne]; [discriminate|].
    intros Hu. specialize (Ht0 j Hu). rewrite (eqb_ne jn j) by congruence. cbn [one]. lia.
  - intros k x. rewrite Hget. destruct (Z.eqb_spec k jn) as [->|Hne].
    + intros E; inversion E; subst x. unfold LJ, lfresh, y'. lfields. rewrite (lf_hard _ _ LF). cbn.
      rewrite Hsoft. split; [reflexivity|]. split; [reflexivity|]. split; [reflexivity|]. split.
      * exists h. split; [|reflexivity]. unfold jn. rewrite Nat2Z.id, <- Hlims, nth_error_app2 by lia.
        rewrite Nat.sub_diag. reflexivity.
      * split; [left; auto|]. split; [auto|intros; discriminate].
    + intros Hg. apply HLJ; [exact Hne|apply Hj; exact Hg].
  - intros j p ok t Hin. destruct (Hm j p ok t Hin) as (A & B & x & Hx). split; [exact A|]. split; [exact B|].
    rewrite Hget. destruct (j =? jn); eauto.
  - intros m Hin. rewrite (pframe_in_pool _ _ PF). apply Hpi. exact Hin.
  - intros k p Hin. destruct (Hac k p Hin) as [[x Hx] B].
    assert (k <> jn) by (intros ->; congruence).
    rewrite Hget, Hun, Hlst, (eqb_ne k jn) by congruence. split; [eauto|exact B].
  - intros k x. rewrite Hget, Hlst. destruct (Z.eqb_spec k jn) as [->|Hne].
    + intros E _; inversion E; subst x. cbn [accepted lfresh one]. specialize (Ht0 jn Hun0). rewrite pcnt_lst, Hnr.
      destruct (cnt jn (acks (loutq y))) eqn:Ec; [lia|exfalso].
      assert (Hin : In jn (acks (loutq y))) by (apply cnt_pos_in; lia).
      apply in_acks in Hin. destruct Hin as [p Hin]. destruct (Hac jn p Hin) as [[x Hx] _]. congruence.
    + apply Hacs.
  - intros k x p. rewrite Hget, Hlst. destruct (Z.eqb_spec k jn) as [->|Hne].
    + intros E _; inversion E; subst x. intros [].
    + apply Hwp.
  - rewrite (pframe_kept _ _ PF). exact Hwk0.
  - rewrite (pf_wlist _ _ PF), (pf_nprocs _ _ PF). exact Hsize.
  - rewrite (pf_pstate _ _ PF). exact Hst.
  - rewrite (pf_maxr _ _ PF). exact Hmaxr.
  - exact Hww.
  - destruct (putlocks (lpar y)) eqn:Ep.
    + destruct (Hl eq_refl) as [Hpos ->]. cbn. lia.
    + rewrite (Hnl eq_refl). exact Hnn.
  - rewrite (pf_putlocks _ _ PF), (dead_frame _ _ PF). intros Ep. destruct (Hl Ep) as [Hpos ->]. specialize (Hsem Ep).
    cbn [LaxSem.value LaxSem.bound]. unfold nunres in *. rewrite Hjobs, filter_app, app_length. cbn. lia.
  - rewrite (pf_nprocs _ _ PF). destruct (putlocks (lpar y)) eqn:Ep.
    + destruct (Hl eq_refl) as [Hpos ->]. exact Hbound.
    + rewrite (Hnl eq_refl). exact Hbound.
  - rewrite (lf_soft _ _ LF). exact Hsoft.
  - rewrite Hjobs, app_length. cbn [length] in *. lia.
  - rewrite Hjobs, !app_length, Hlims. reflexivity.
Qed.

(* ---- the result handler takes an acknowledgement *)
Lemma ackf_more s j p k z :
  let z' := ackf s j p k z in
  soft z' = soft z /\ hard z' = hard z
  /\ (z' = z \/ (k = j /\ incache z = true /\ z' = apply_ack z (now s) p)).
Proof.
  unfold ackf. destruct (Z.eqb_spec k j) as [->|Hne]; cbn [andb].
  - destruct (incache z) eqn:Hi; [|auto]. cbn. auto 10.
  - auto.
Qed.

Lemma linv_recv_ack n y j p r :
  LInv n y -> loutq y = MAck j p :: r ->
  LInv n (mkls (fst (step (lpar y) (EAck j None p))) (lbad y) (ltodo y) (llims y) (ltaskq y) (linq y) (lwk y) r).
Proof.
  intros H Eq. pose proof H as [Ha Ht Ht0 Hj Hm Hpi Hac Hacs Hwp Hwk0 Hsize Hst Hmaxr Hw Hnn Hsem Hbound Hsoft Hn Hlims].
  destruct (cack_spec (lpar y) j p) as (PF & NW & SE & JL & JM).
  { intros x Hx. exact (proj1 (Hj j x Hx)). }
  pose proof (WInv_step (lpar y) (EAck j None p) Hw) as Hww.
  pose proof (proj1 (good_step (lpar y) (EAck j None p) Ha)) as Haa.
  pose proof (lframe_step (lpar y) (EAck j None p) I) as LF.
  pose proof (jmap_imap _ _ _ (conj JL JM)) as Him.
  set (s' := fst (step (lpar y) (EAck j None p))) in *.
  destruct (Hac j p) as [[x Hx] Hstj]; [rewrite Eq; left; reflexivity|].
  set (y' := mkls s' (lbad y) (ltodo y) (llims y) (ltaskq y) (linq y) (lwk y) r).
  assert (Hsta : lst y' = lst y) by (unfold lst, y'; lfields; rewrite Eq, creadys_cons_ack; reflexivity).
  assert (Hun : forall k, cunres s' k = cunres (lpar y) k).
  { intros k. unfold cunres. rewrite JM. destruct (get_job (lpar y) k) as [z|]; [|reflexivity]. cbn [option_map].
    rewrite (proj1 (ackf_fields (lpar y) j p k z)). reflexivity. }
  assert (Hinv : forall k z', get_job s' k = Some z' ->
                              exists z, get_job (lpar y) k = Some z /\ z' = ackf (lpar y) j p k z).
  { intros k z'. rewrite JM. destruct (get_job (lpar y) k) as [z|]; [|discriminate]. cbn. intros E; inversion E. eauto. }
  assert (Hupd : forall z, get_job (lpar y) j = Some z -> ready z = false ->
                           ackf (lpar y) j p j z = apply_ack z (now (lpar y)) p).
  { intros z Hz Hr. unfold ackf. rewrite Z.eqb_refl. destruct (Hj j z Hz) as (_ & _ & _ & _ & _ & E & _).
    rewrite (proj1 (E Hr)). reflexivity. }
  assert (Hoth : forall k z, k <> j -> ackf (lpar y) j p k z = z).
  { intros k z Hne. unfold ackf. rewrite (eqb_ne k j) by congruence. reflexivity. }
  constructor; unfold y'; lfields; fold y'.
  - exact Haa.
  - intros k. rewrite Hsta, Hun. apply Ht.
  - intros k. rewrite Hun. apply Ht0.
  - intros k z' Hg. destruct (Hinv k z' Hg) as (z & Hz & ->).
    destruct (Hj k z Hz) as (A & B & C & (h & D1 & D2) & E & F & G).
    destruct (ackf_fields (lpar y) j p k z) as (R1 & R2 & R3 & R4 & R5 & R6 & R7 & R8).
    destruct (ackf_more (lpar y) j p k z) as (S1 & S2 & S3).
    unfold LJ, y'. lfields. rewrite R1, R2, R3, R4, R5, R8, S1, S2, (lf_hard _ _ LF), (lf_scanner _ _ LF), NW.
    split; [exact A|]. split; [exact B|]. split; [exact C|]. split; [exists h; auto|]. split; [|split].
    + destruct S3 as [->|(_ & _ & ->)]; [exact E|]. right. exists p, (now (lpar y)). cbn. repeat split; try reflexivity; try lia.
    + intros Hr. destruct (F Hr) as (F1 & F2). split; [|exact F2].
      destruct S3 as [->|(_ & _ & ->)]; [exact F1|]. cbn. rewrite Hr. exact F1.
    + intros Hr. destruct (G Hr) as [G1|(G1 & G2 & G3 & G4 & G5)]; [left; exact G1|right].
      destruct S3 as [->|(_ & Hic & _)]; [auto|congruence].
  - intros j0 p0 ok t Hin. destruct (Hm j0 p0 ok t) as (A & B & z & Hz); [rewrite Eq; right; exact Hin|].
    split; [exact A|]. split; [exact B|]. rewrite JM, Hz. cbn. eauto.
  - intros m Hin. rewrite (pframe_in_pool _ _ PF). apply Hpi. rewrite Eq. right. exact Hin.
  - intros k q Hin. destruct (Hac k q) as [[z Hz] B]; [rewrite Eq; right; exact Hin|].
    rewrite Hsta, Hun. split; [|exact B]. rewrite JM, Hz. cbn. eauto.
  - intros k z' Hg Hr. destruct (Hinv k z' Hg) as (z & Hz & ->).
    rewrite (proj1 (ackf_fields (lpar y) j p k z)) in Hr. rewrite Hsta.
    specialize (Hacs k z Hz Hr). rewrite Eq, acks_cons_ack, cnt_cons in Hacs.
    assert (Hu : cunres (lpar y) k = true) by (rewrite (job_cunres _ _ _ Hz), Hr; reflexivity).
    pose proof (Ht k Hu) as Hle.
    destruct (Z.eq_dec k j) as [->|Hne].
    + rewrite Z.eqb_refl in Hacs. cbn [one] in Hacs. rewrite (Hupd z Hz Hr). cbn [accepted apply_ack one].
      clear - Hacs Hle. destruct (accepted z); cbn [one] in Hacs; lia.
    + rewrite (Hoth k z Hne). rewrite (eqb_ne j k) in Hacs by congruence. cbn [one] in Hacs. clear - Hacs. lia.
  - intros k z' q Hg Hr Hin. destruct (Hinv k z' Hg) as (z & Hz & ->).
    rewrite (proj1 (ackf_fields (lpar y) j p k z)) in Hr. rewrite Hsta.
    destruct (Z.eq_dec k j) as [->|Hne].
    + rewrite (Hupd z Hz Hr) in Hin. cbn [wp apply_ack] in Hin. destruct Hin as [<-|[]].
      apply Hstj. rewrite (job_cunres _ _ _ Hz), Hr. reflexivity.
    + rewrite (Hoth k z Hne) in Hin. eapply Hwp; eauto.
  - rewrite (pframe_kept _ _ PF). exact Hwk0.
  - rewrite (pf_wlist _ _ PF), (pf_nprocs _ _ PF). exact Hsize.
  - rewrite (pf_pstate _ _ PF). exact Hst.
  - rewrite (pf_maxr _ _ PF). exact Hmaxr.
  - exact Hww.
  - rewrite SE. exact Hnn.
  - rewrite (pf_putlocks _ _ PF), SE, (dead_frame _ _ PF). intros Ep. specialize (Hsem Ep).
    unfold nunres in *. rewrite Him, (filter_imap_same _ _ (jobs (lpar y)) 0); [exact Hsem|].
    intros i z _. rewrite (proj1 (ackf_fields (lpar y) j p _ z)). reflexivity.
  - rewrite SE, (pf_nprocs _ _ PF). exact Hbound.
  - rewrite (lf_soft _ _ LF). exact Hsoft.
  - rewrite JL. exact Hn.
  - rewrite JL. exact Hlims.
Qed.

(* ---- the result handler takes a result (possibly a stale one: the job was failed by a scan) *)
Lemma apply_set_ready x pl : ready x = true -> apply_set x pl = x.
Proof. intros H. unfold apply_set. rewrite H. reflexivity. Qed.

Lemma linv_recv_ready n y j p ok t r :
  LInv n y -> loutq y = MReady j p ok t :: r ->
  LInv n (mkls (fst (step (lpar y) (EReady j None ok t))) (lbad y) (ltodo y) (llims y) (ltaskq y) (linq y) (lwk y) r).
Proof.
  intros H Eq. pose proof H as [Ha Ht Ht0 Hj Hm Hpi Hac Hacs Hwp Hwk0 Hsize Hst Hmaxr Hw Hnn Hsem Hbound Hsoft Hn Hlims].
  destruct (Hm j p ok t) as (Et & Eok & x & Hx); [rewrite Eq; left; reflexivity|].
  destruct (cready_spec (lpar y) j ok t) as (PF & NW & SE & JL & JM).
  { intros z Hz. exact (proj1 (Hj j z Hz)). }
  rewrite Hx in SE.
  pose proof (WInv_step (lpar y) (EReady j None ok t) Hw) as Hww.
  pose proof (proj1 (good_step (lpar y) (EReady j None ok t) Ha)) as Haa.
  pose proof (lframe_step (lpar y) (EReady j None ok t) I) as LF.
  pose proof (jmap_imap _ _ _ (conj JL JM)) as Him.
  set (pl := if ok then PValue t else PExc t) in *.
  set (s' := fst (step (lpar y) (EReady j None ok t))) in *.
  set (y' := mkls s' (lbad y) (ltodo y) (llims y) (ltaskq y) (linq y) (lwk y) r).
  destruct (get_job_nth _ _ _ Hx) as [Hj0 Hnx].
  assert (Hpc : forall k, (pcnt k (lst y') + one (Z.eqb j k) = pcnt k (lst y))%nat).
  { intros k. rewrite !pcnt_lst. unfold y'; lfields. rewrite Eq, creadys_cons_ready, pcnt_cons. lia. }
  assert (Hsin : forall k q, k <> j -> In (k, q) (lst y) -> In (k, q) (lst y')).
  { intros k q Hne. rewrite !in_lst. unfold y'; lfields. rewrite Eq, creadys_cons_ready. cbn [In].
    intros [H1|[H2|H2]]; [tauto|congruence|tauto]. }
  assert (Hoth : forall k z, k <> j -> readyf j pl k z = z).
  { intros k z Hne. unfold readyf. rewrite (eqb_ne k j) by congruence. reflexivity. }
  assert (Hinv : forall k z', get_job s' k = Some z' ->
                              exists z, get_job (lpar y) k = Some z /\ z' = readyf j pl k z).
  { intros k z'. rewrite JM. destruct (get_job (lpar y) k) as [z|]; [|discriminate]. cbn. intros E; inversion E. eauto. }
  destruct (Hj j x Hx) as (A0 & B0 & C0 & D0 & E0 & F0 & G0).
  assert (Hnew : readyf j pl j x = if ready x then x else apply_set x pl).
  { unfold readyf. rewrite Z.eqb_refl. cbn [andb]. destruct (ready x) eqn:Hr.
    - destruct (incache x); [apply apply_set_ready; exact Hr|reflexivity].
    - rewrite (proj1 (F0 eq_refl)). reflexivity. }
  assert (Hrn : ready (readyf j pl j x) = true).
  { rewrite Hnew. destruct (ready x) eqn:Hr; [exact Hr|]. unfold apply_set. rewrite Hr. reflexivity. }
  assert (Hun : forall k, cunres s' k = if k =? j then false else cunres (lpar y) k).
  { intros k. unfold cunres. rewrite JM. destruct (Z.eqb_spec k j) as [->|Hne].
    - rewrite Hx. cbn [option_map]. rewrite Hrn. reflexivity.
    - destruct (get_job (lpar y) k) as [z|]; [|reflexivity]. cbn [option_map]. rewrite Hoth by exact Hne. reflexivity. }
  assert (Hkj : forall k z', get_job s' k = Some z' -> ready z' = false -> k <> j /\ get_job (lpar y) k = Some z').
  { intros k z' Hg Hr. assert (Hu : cunres s' k = true) by (rewrite (job_cunres _ _ _ Hg), Hr; reflexivity).
    rewrite Hun in Hu. destruct (Z.eqb_spec k j) as [->|Hne]; [discriminate|]. split; [exact Hne|].
    destruct (Hinv k z' Hg) as (z & Hz & ->). rewrite Hoth by exact Hne. exact Hz. }
  assert (HLJ : forall k z, LJ y k z -> LJ y' k z).
  { intros k z. apply LJ_frame; unfold y'; lfields; [apply LF|apply LF|lia|reflexivity|auto]. }
  constructor; unfold y'; lfields; fold y'.
  - exact Haa.
  - intros k. rewrite Hun. destruct (Z.eqb_spec k j) as [->|Hne]; [discriminate|]. intros Hu. specialize (Ht k Hu).
    specialize (Hpc k). rewrite (eqb_ne j k) in Hpc by congruence. cbn [one] in Hpc. lia.
  - intros k. rewrite Hun. destruct (Z.eqb_spec k j) as [->|Hne]; [|apply Ht0]. intros _.
    destruct (cunres (lpar y) j) eqn:Hu; [|apply Ht0; exact Hu].
    specialize (Ht j Hu). rewrite pcnt_lst, Eq, creadys_cons_ready, pcnt_cons, Z.eqb_refl in Ht. cbn [one] in Ht. lia.
  - intros k z' Hg. destruct (Hinv k z' Hg) as (z & Hz & ->). destruct (Z.eq_dec k j) as [->|Hne].
    + assert (z = x) by congruence. subst z. rewrite Hnew. destruct (ready x) eqn:Hr; [apply HLJ, Hj; exact Hx|].
      destruct (F0 eq_refl) as (Hic & Hv & Hcs & Hce).
      unfold LJ, y'. lfields. rewrite (lf_hard _ _ LF), NW. unfold apply_set. rewrite Hr.
      cbn [kind soft worker_lost hard wp accepted time_accepted ready value cb_succ cb_err incache].
      repeat (split; [assumption|]). split; [intros; discriminate|]. intros _. left.
      rewrite Hcs, Hce. unfold pl, outcome_of. subst ok t. destruct (task_ok (lbad y) j); cbn; auto.
    + rewrite Hoth by exact Hne. apply HLJ, Hj. exact Hz.
  - intros j0 p0 ok0 t0 Hin. destruct (Hm j0 p0 ok0 t0) as (A & B & z & Hz); [rewrite Eq; right; exact Hin|].
    split; [exact A|]. split; [exact B|]. rewrite JM, Hz. cbn. eauto.
  - intros m Hin. rewrite (pframe_in_pool _ _ PF). apply Hpi. rewrite Eq. right. exact Hin.
  - intros k q Hin. destruct (Hac k q) as [[z Hz] B]; [rewrite Eq; right; exact Hin|].
    split; [rewrite JM, Hz; cbn; eauto|]. rewrite Hun. destruct (Z.eqb_spec k j) as [->|Hne]; [discriminate|].
    intros Hu. apply Hsin; [exact Hne|apply B; exact Hu].
  - intros k z' Hg Hr. destruct (Hkj k z' Hg Hr) as [Hne Hz].
    specialize (Hacs k z' Hz Hr). rewrite Eq, acks_cons_ready in Hacs. specialize (Hpc k).
    rewrite (eqb_ne j k) in Hpc by congruence. cbn [one] in Hpc. clear - Hacs Hpc. lia.
  - intros k z' q Hg Hr Hin. destruct (Hkj k z' Hg Hr) as [Hne Hz]. apply Hsin; [exact Hne|]. eapply Hwp; eauto.
  - rewrite (pframe_kept _ _ PF). exact Hwk0.
  - rewrite (pf_wlist _ _ PF), (pf_nprocs _ _ PF). exact Hsize.
  - rewrite (pf_pstate _ _ PF). exact Hst.
  - rewrite (pf_maxr _ _ PF). exact Hmaxr.
  - exact Hww.
  - rewrite SE. destruct (incache x && negb (ready x)); [|exact Hnn].
    unfold LaxSem.release. destruct (_ <? _) eqn:El; cbn [LaxSem.value LaxSem.bound]; lia.
  - rewrite (pf_putlocks _ _ PF), SE, (dead_frame _ _ PF). intros Ep. specialize (Hsem Ep).
    unfold nunres in *. rewrite Him.
    assert (Hothi : forall i z, nth_error (jobs (lpar y)) i = Some z -> i <> Z.to_nat j ->
                     negb (ready (readyf j pl (Z.of_nat (0 + i)) z)) = negb (ready z)).
    { intros i z _ Hne. rewrite Hoth by lia. reflexivity. }
    destruct (ready x) eqn:Hr.
    + rewrite andb_false_r. rewrite (filter_imap_same _ _ (jobs (lpar y)) 0); [exact Hsem|].
      intros i z Hz. destruct (Nat.eq_dec i (Z.to_nat j)) as [->|Hne]; [|apply Hothi; assumption].
      assert (z = x) by congruence. subst z. cbn [Nat.add]. rewrite Z2Nat.id by lia. rewrite Hnew, Hr. reflexivity.
    + rewrite (proj1 (F0 eq_refl)). cbn [andb negb].
      pose proof (filter_imap_one (fun z => negb (ready z)) (readyf j pl) (jobs (lpar y)) 0 (Z.to_nat j) x Hnx) as H1.
      cbn [Nat.add] in H1. rewrite Z2Nat.id in H1 by lia. rewrite Hrn, Hr in H1.
      specialize (H1 eq_refl eq_refl Hothi).
      unfold LaxSem.release. destruct (LaxSem.value (sem (lpar y)) <? LaxSem.bound (sem (lpar y))) eqn:El;
        cbn [LaxSem.value LaxSem.bound]; lia.
  - rewrite (pf_nprocs _ _ PF), SE. destruct (incache x && negb (ready x)); [|exact Hbound].
    unfold LaxSem.release. destruct (_ <? _); exact Hbound.
  - rewrite (lf_soft _ _ LF). exact Hsoft.
  - rewrite JL. exact Hn.
  - rewrite JL. exact Hlims.
Qed.

Lemma linv_recv n y y' : LInv n y -> limit_step y LRecv = Some y' -> LInv n y'.
Proof.
  intros H. cbn [limit_step]. destruct (loutq y) as [|[j p|j p ok t] r] eqn:Eq; [discriminate| |];
    intros E; inversion E; subst y'; clear E.
  - exact (linv_recv_ack n y j p r H Eq).
  - exact (linv_recv_ready n y j p ok t r H Eq).
Qed.

(* ---- the clock *)
Lemma linv_advance n y d y' : LInv n y -> limit_step y (LAdvance d) = Some y' -> LInv n y'.
Proof.
  intros H. pose proof H as [Ha Ht Ht0 Hj Hm Hpi Hac Hacs Hwp Hwk0 Hsize Hst Hmaxr Hw Hnn Hsem Hbound Hsoft Hn Hlims].
  cbn [limit_step]. destruct (0 <? d) eqn:Ed; [|discriminate]. intros E; inversion E; subst y'; clear E.
  destruct (cadvance_spec (lpar y) d) as (PF & NW & SE & JE).
  pose proof (WInv_step (lpar y) (EAdvance d) Hw) as Hww.
  pose proof (proj1 (good_step (lpar y) (EAdvance d) Ha)) as Haa.
  pose proof (lframe_step (lpar y) (EAdvance d) I) as LF.
  set (s' := fst (step (lpar y) (EAdvance d))) in *.
  set (y' := mkls s' (lbad y) (ltodo y) (llims y) (ltaskq y) (linq y) (lwk y) (loutq y)).
  assert (Hg : forall k, get_job s' k = get_job (lpar y) k) by (intros k; rewrite !get_job_gj, JE; reflexivity).
  assert (Hun : forall k, cunres s' k = cunres (lpar y) k) by (intros k; unfold cunres; rewrite Hg; reflexivity).
  constructor; unfold y'; lfields; fold y'; change (lst y') with (lst y).
  - exact Haa.
  - intros k. rewrite Hun. apply Ht.
  - intros k. rewrite Hun. apply Ht0.
  - intros k x Hx. rewrite Hg in Hx. apply (LJ_frame y y'); unfold y'; lfields; [apply LF|apply LF|lia|reflexivity|auto|apply Hj; exact Hx].
  - intros j p ok t Hin. rewrite Hg. apply (Hm j p ok t). exact Hin.
  - intros m Hin. rewrite (pframe_in_pool _ _ PF). apply Hpi. exact Hin.
  - intros k p Hin. rewrite Hg, Hun. apply Hac. exact Hin.
  - intros k x. rewrite Hg. apply Hacs.
  - intros k x p. rewrite Hg. apply Hwp.
  - rewrite (pframe_kept _ _ PF). exact Hwk0.
  - rewrite (pf_wlist _ _ PF), (pf_nprocs _ _ PF). exact Hsize.
  - rewrite (pf_pstate _ _ PF). exact Hst.
  - rewrite (pf_maxr _ _ PF). exact Hmaxr.
  - exact Hww.
  - rewrite SE. exact Hnn.
  - rewrite (pf_putlocks _ _ PF), SE, (dead_frame _ _ PF). unfold nunres. rewrite JE. exact Hsem.
  - rewrite SE, (pf_nprocs _ _ PF). exact Hbound.
  - rewrite (lf_soft _ _ LF). exact Hsoft.
  - rewrite JE. exact Hn.
  - rewrite JE. exact Hlims.
Qed.

(* ================================================================== D. the supervision pass *)
Lemma ltick_jobs_same n y : LInv n y -> drained (lpar y) (loutq y) = true ->
  forall x, In x (jobs (lpar y)) -> tick_job (lpar y) x = x.
Proof.
  intros H Hd x Hin. pose proof (AllJ_in_get _ _ (u_allj n y H) Hin) as Hg. set (k := jid x) in *.
  destruct (ready x) eqn:Hr; [apply tick_job_ready; exact Hr|].
  destruct (u_job n y H k x Hg) as (A & _ & C & _ & E & _).
  apply tick_frame; [unfold lost_due; rewrite C, andb_false_r; reflexivity|].
  assert (Hwpk : worker_pids x = wp x) by (unfold worker_pids; rewrite A; reflexivity).
  destruct E as [(E1 & _)|(p & t & E1 & _)]; [apply abg_none; rewrite Hwpk; exact E1|].
  rewrite (abg_single _ _ x p) by (rewrite Hwpk; exact E1). rewrite memZ_reaped, memZ_kept.
  assert (Hs : In (k, p) (lst y)) by (apply (u_wp n y H k x p Hg Hr); rewrite E1; left; reflexivity).
  apply in_lst in Hs. destruct Hs as [Hs|Hs].
  - destruct (llive_worker n y p H (running_in_wk _ _ _ Hs)) as [X Y]. rewrite X, Y. reflexivity.
  - apply in_creadys in Hs. destruct Hs as (ok & t0 & Hm). pose proof (u_pid n y H _ Hm) as X. cbn [msg_pid] in X.
    pose proof (drained_spec _ _ Hd _ Hm) as Y. unfold dead_unreaped in Y. cbn [msg_pid] in Y. rewrite X, andb_true_r in Y.
    rewrite X, Y. reflexivity.
Qed.

Lemma linv_tick_to n y y' :
  LInv n y -> drained (lpar y) (loutq y) = true -> ltick_to y = Some y' -> LInv n y'.
Proof.
  intros H Hd. pose proof H as [Ha Ht Ht0 Hj Hm Hpi Hac Hacs Hwp Hwk0 Hsize Hst Hmaxr Hw Hnn Hsem Hbound Hsoft Hn Hlims].
  destruct (ctick_spec (lpar y) Hst Hmaxr) as (s' & E & W & PL & J & SE & PS & MR & PU & DF & NW & NP & PG); [lia|].
  unfold ltick_to. rewrite E. intros E'; inversion E'; subst y'; clear E'.
  pose proof (WInv_step (lpar y) ETick Hw) as Hww. rewrite E in Hww. cbn [fst] in Hww.
  pose proof (proj1 (good_step (lpar y) ETick Ha)) as Haa. rewrite E in Haa. cbn [fst] in Haa.
  pose proof (lframe_step (lpar y) ETick I) as LF. rewrite E in LF. cbn [fst] in LF.
  pose proof (reaped_kept_length (lpar y)) as Hrk.
  assert (Hkl : length (lwk y) = length (kept (lpar y))) by (rewrite <- Hwk0, map_length; reflexivity).
  assert (Hmn : missing_n (lpar y) = length (reaped (lpar y))) by (unfold missing_n; rewrite <- Hsize; lia).
  assert (Hdl : length (dead_workers (lpar y)) = length (reaped (lpar y))).
  { unfold dead_workers, reaped. rewrite filter_rev_length. reflexivity. }
  assert (Hjs : jobs s' = jobs (lpar y)).
  { rewrite J. rewrite <- (map_id (jobs (lpar y))) at 2. apply map_ext_in. apply (ltick_jobs_same n y H Hd). }
  set (fr := fresh_pids (lpar y) (missing_n (lpar y))) in *.
  assert (Hex : forall p, exited s' p = exited (lpar y) p) by (apply pgrow_exited; exact PG).
  assert (Hfrex : forall p, In p fr -> exited (lpar y) p = false).
  { intros p Hin. apply in_fresh in Hin. destruct (exited (lpar y) p) eqn:He; [|reflexivity]. apply exited_valid in He. lia. }
  assert (Hfrnp : forall p, In p fr -> in_pool (lpar y) p = false).
  { intros p Hin. apply in_fresh in Hin. destruct (in_pool (lpar y) p) eqn:Hip; [|reflexivity].
    apply memZ_In in Hip. destruct Hw as [_ Hv]. specialize (Hv p Hip). lia. }
  assert (Hip' : forall p, in_pool s' p = (in_pool (lpar y) p && negb (exited (lpar y) p)) || memZ p fr).
  { intros p. unfold in_pool at 1. rewrite W. unfold memZ at 1. rewrite existsb_app.
    fold (memZ p (kept (lpar y))). fold (memZ p fr). rewrite memZ_kept. reflexivity. }
  assert (Hnews : filter (fun p => negb (in_pool (lpar y) p)) (wlist s') = fr).
  { rewrite W, filter_app. rewrite filter_none, filter_all; [reflexivity| |].
    - intros p Hin. rewrite (Hfrnp p Hin). reflexivity.
    - intros p Hin. unfold kept in Hin. apply filter_In in Hin. destruct Hin as [Hin _].
      apply memZ_In in Hin. unfold in_pool. rewrite Hin. reflexivity. }
  rewrite Hnews.
  assert (Hg : forall k, get_job s' k = get_job (lpar y) k) by (intros k; rewrite !get_job_gj, Hjs; reflexivity).
  assert (Hun : forall k, cunres s' k = cunres (lpar y) k) by (intros k; unfold cunres; rewrite Hg; reflexivity).
  set (y' := mkls s' (lbad y) (ltodo y) (llims y) (ltaskq y) (linq y) (lwk y ++ map (fun p => (p, None)) fr) (loutq y)).
  assert (Hrun' : running (lwk y ++ map (fun p => (p, None)) fr) = running (lwk y))
    by (rewrite running_app, running_idles, app_nil_r; reflexivity).
  assert (Hlst : lst y' = lst y) by (unfold lst, y'; lfields; rewrite Hrun'; reflexivity).
  assert (Hkept' : kept s' = kept (lpar y) ++ fr).
  { unfold kept at 1. rewrite W, filter_app. f_equal.
    - apply filter_all. intros p Hin. rewrite Hex. unfold kept in Hin. apply filter_In in Hin. tauto.
    - apply filter_all. intros p Hin. rewrite Hex, (Hfrex p Hin). reflexivity. }
  assert (Hdead' : dead_workers s' = []).
  { unfold dead_workers. apply filter_none. intros p Hin. rewrite W in Hin. apply in_app_or in Hin. rewrite Hex.
    destruct Hin as [Hin|Hin]; [|apply Hfrex; exact Hin]. unfold kept in Hin. apply filter_In in Hin.
    destruct (exited (lpar y) p); [destruct Hin; discriminate|reflexivity]. }
  pose proof (value_iter_release (length (reaped (lpar y))) (sem (lpar y)) (proj2 Hnn)) as Hval.
  pose proof (proj1 (bound_iter_release (length (reaped (lpar y))) (sem (lpar y)))) as Hbd.
  constructor; unfold y'; lfields; fold y'; rewrite ?Hlst.
  - exact Haa.
  - intros k. rewrite Hun. apply Ht.
  - intros k. rewrite Hun, Hrun'. apply Ht0.
  - intros k x Hx. rewrite Hg in Hx. apply (LJ_frame y y'); unfold y'; lfields; [apply LF|apply LF|lia|reflexivity|auto|apply Hj; exact Hx].
  - intros j p ok t Hin. rewrite Hg. apply (Hm j p ok t). exact Hin.
  - intros m Hin. rewrite Hip'. rewrite (Hpi m Hin).
    pose proof (drained_spec _ _ Hd m Hin) as Hdu. unfold dead_unreaped in Hdu. rewrite (Hpi m Hin), andb_true_r in Hdu.
    rewrite Hdu. reflexivity.
  - intros k p Hin. rewrite Hg, Hun. apply Hac. exact Hin.
  - intros k x. rewrite Hg. apply Hacs.
  - intros k x p. rewrite Hg. apply Hwp.
  - rewrite map_app, map_map. cbn [fst]. rewrite map_id, Hwk0, Hkept'. reflexivity.
  - rewrite W, app_length, NP. unfold fr, fresh_pids. rewrite map_length, seq_length, Hmn. lia.
  - exact PS.
  - exact MR.
  - exact Hww.
  - rewrite SE. lia.
  - rewrite PU, SE, Hdead'. intros Ep. specialize (Hsem Ep). unfold nunres in *. rewrite Hjs. cbn [length]. lia.
  - rewrite SE, Hbd, NP. exact Hbound.
  - rewrite (lf_soft _ _ LF). exact Hsoft.
  - rewrite Hjs. exact Hn.
  - rewrite Hjs. exact Hlims.
Qed.

Lemma ltick_to_enabled n y : LInv n y -> exists y', ltick_to y = Some y'.
Proof.
  intros H. destruct (ctick_spec (lpar y) (u_st n y H) (u_maxr n y H)) as (s' & E & _); [rewrite (u_size n y H); lia|].
  unfold ltick_to. rewrite E. eauto.
Qed.

Lemma linv_tick n y y' : LInv n y -> limit_step y LTick = Some y' -> LInv n y'.
Proof.
  intros H. cbn [limit_step]. destruct (drained (lpar y) (loutq y)) eqn:Hd; [|discriminate].
  apply linv_tick_to; assumption.
Qed.

(* ================================================================== E. the timeout handler's pass *)
Lemma in_due_pairs s j p :
  In (j, p) (due_pairs s) <-> exists x, In x (jobs s) /\ dueb s x = true /\ owner x = Some p /\ jid x = j.
Proof.
  unfold due_pairs. rewrite in_flat_map. split.
  - intros (x & Hin & Hp). destruct (dueb s x) eqn:Hd; [|destruct Hp]. destruct (owner x) as [q|] eqn:Ho; [|destruct Hp].
    destruct Hp as [E|[]]. inversion E; subst. eauto 10.
  - intros (x & Hin & Hd & Ho & Hid). exists x. split; [exact Hin|]. rewrite Hd, Ho, Hid. left. reflexivity.
Qed.

Lemma due_pairs_length s :
  (forall x, In x (jobs s) -> dueb s x = true -> owner x <> None) ->
  length (due_pairs s) = length (filter (dueb s) (jobs s)).
Proof.
  unfold due_pairs. induction (jobs s) as [|x l IH]; intros H; [reflexivity|]. cbn [flat_map filter].
  rewrite app_length, IH by (intros z Hz; apply H; right; exact Hz).
  destruct (dueb s x) eqn:Hd; [|reflexivity]. pose proof (H x (or_introl eq_refl) Hd) as Ho.
  destruct (owner x); [reflexivity|congruence].
Qed.

Lemma map_fst_filter {A} (g : Z -> bool) (w : list (Z * A)) :
  map fst (filter (fun e => g (fst e)) w) = filter g (map fst w).
Proof. induction w as [|[p o] w IH]; [reflexivity|]. cbn [filter map fst]. destruct (g p); cbn [map fst]; rewrite IH; reflexivity. Qed.

Lemma imap_const f : forall l i, imap (fun _ => f) i l = map f l.
Proof. induction l as [|x l IH]; intros i; [reflexivity|]. cbn [imap map]. rewrite IH. reflexivity. Qed.

Lemma dueb_facts s x h :
  dueb s x = true -> hard x = py_or h (t_hard s) ->
  incache x = true /\ ready x = false /\ kind x = KApply
  /\ exists t lim, time_accepted x = Some t /\ hard x = Some lim /\ lim <> 0 /\ t <> 0 /\ t + lim <= now s.
Proof.
  intros Hd Hh. unfold dueb in Hd. apply andb_true_iff in Hd. destruct Hd as [Hd Hto].
  apply andb_true_iff in Hd. destruct Hd as [Hic Hr]. apply negb_true_iff in Hr.
  destruct (kind x) eqn:Hk; try discriminate. destruct (time_accepted x) as [t|]; [|discriminate].
  rewrite (eff_hard_hard s x h Hh) in Hto. unfold timed_out in Hto. destruct (hard x) as [lim|]; [|discriminate].
  repeat split; try assumption. exists t, lim. repeat split; try reflexivity; lia.
Qed.

(* from the guard of the clean scan *)
Lemma scan_clean_spec s w :
  scan_clean s w = true ->
  NoDup (map snd (due_pairs s))
  /\ forall j p, In (j, p) (due_pairs s) -> wk_get w p = Some None \/ wk_get w p = Some (Some j).
Proof.
  unfold scan_clean. rewrite andb_true_iff. intros [A B]. split; [apply nodupZ_ok; exact A|].
  intros j p Hin. rewrite forallb_forall in B. specialize (B _ Hin). cbn [fst snd] in B.
  destruct (wk_get w p) as [[j2|]|]; [|auto|discriminate]. right. assert (j2 = j) by lia. subst. reflexivity.
Qed.

Lemma linv_scan_pre n y : LInv n y -> scan_clean (lpar y) (lwk y) = true -> ScanPre (lpar y).
Proof.
  intros H Hc. destruct (scan_clean_spec _ _ Hc) as [G1 G2]. constructor.
  - exact (u_allj n y H).
  - intros k x Hx. destruct (u_job n y H k x Hx) as (A & B & _ & _ & E & _). split; [exact A|]. split; [exact B|].
    intros Hta. destruct E as [(_ & _ & E)|(p & t & E & _)]; [congruence|]. exists p. unfold owner. rewrite E. reflexivity.
  - exact (u_soft n y H).
  - exact G1.
  - intros j p Hin. assert (Hp : In p (map fst (lwk y))).
    { destruct (G2 j p Hin) as [E|E]; apply wk_get_in in E; apply in_map_iff; eexists; (split; [|exact E]); reflexivity. }
    destruct (llive_worker n y p H Hp) as [Hip He]. split; [exact Hip|].
    apply memZ_In in Hip. destruct (u_w n y H) as [_ Hv]. destruct (valid_get_proc _ _ (Hv p Hip)) as [q Hq].
    rewrite exited_pinfo in He. unfold pinfo in *. rewrite Hq in *. cbn in *. destruct (pexit q); [discriminate|eauto].
Qed.

Lemma linv_scan_to n y l :
  LInv n y -> scan_clean (lpar y) (lwk y) = true -> LInv n (scan_to y l).
Proof.
  intros H Hc. pose proof H as [Ha Ht Ht0 Hj Hm Hpi Hac Hacs Hwp Hwk0 Hsize Hst Hmaxr Hw Hnn Hsem Hbound Hsoft Hn Hlims].
  destruct (scan_clean_spec _ _ Hc) as [G1 G2].
  pose proof (linv_scan_pre n y H Hc) as Pre.
  destruct (lscan_spec (lpar y) l Pre) as (JM & PI & SG & SF).
  pose proof (WInv_step (lpar y) (EScan l) Hw) as Hww.
  pose proof (proj1 (good_step (lpar y) (EScan l) Ha)) as Haa.
  unfold scan_to. set (s' := fst (step (lpar y) (EScan l))) in *.
  set (V := map snd (dpairs (lpar y))) in *.
  assert (HDsub : forall j p, In (j, p) (dpairs (lpar y)) -> In (j, p) (due_pairs (lpar y)) /\ scanner (lpar y) = true).
  { intros j p. unfold dpairs. destruct (scanner (lpar y)); [auto|intros []]. }
  assert (HVnd : NoDup V) by (unfold V, dpairs; destruct (scanner (lpar y)); [exact G1|constructor]).
  assert (HValive : forall q, In q V -> in_pool (lpar y) q = true /\ exited (lpar y) q = false /\ exists jt, pinfo (lpar y) q = Some (None, jt)).
  { intros q Hq. unfold V in Hq. apply in_map_iff in Hq. destruct Hq as ([j p] & E & Hin). cbn in E. subst p.
    destruct (HDsub _ _ Hin) as [Hin' _]. destruct (sp_alive _ Pre j q Hin') as (X & jt & Y).
    split; [exact X|]. split; [rewrite exited_pinfo, Y; reflexivity|eauto]. }
  assert (Hex : forall q, exited s' q = exited (lpar y) q || memZ q V).
  { intros q. rewrite !exited_pinfo, PI. fold V. destruct (memZ q V) eqn:Em; [|rewrite orb_false_r; reflexivity].
    apply memZ_In in Em. destruct (HValive q Em) as (_ & _ & jt & Y). rewrite Y. reflexivity. }
  assert (Hip : forall q, in_pool s' q = in_pool (lpar y) q) by (intros q; unfold in_pool; rewrite (sf_wlist _ _ SF); reflexivity).
  assert (Hlwk : filter (fun e => negb (exited s' (fst e))) (lwk y) = filter (fun e => negb (memZ (fst e) V)) (lwk y)).
  { apply filter_ext_in. intros [p o] Hin. cbn [fst]. rewrite Hex.
    assert (Hp : In p (map fst (lwk y))) by (apply in_map_iff; exists (p, o); split; [reflexivity|exact Hin]).
    rewrite (proj2 (llive_worker n y p H Hp)). reflexivity. }
  rewrite Hlwk.
  assert (Hrun : running (filter (fun e => negb (memZ (fst e) V)) (lwk y))
                 = filter (fun jp => negb (memZ (snd jp) V)) (running (lwk y)))
    by (apply (running_filter (fun q => negb (memZ q V)))).
  set (dj := fun x => scanner (lpar y) && dueb (lpar y) x).
  assert (Hsc : forall x, scang (lpar y) x = if dj x then hard_result x else x) by reflexivity.
  assert (Hdjr : forall k x, get_job (lpar y) k = Some x -> dj x = true ->
             ready x = false /\ exists p, wp x = [p] /\ In (k, p) (dpairs (lpar y)) /\ In p V).
  { intros k x Hx Hd. unfold dj in Hd. apply andb_true_iff in Hd. destruct Hd as [Hs Hd].
    destruct (Hj k x Hx) as (_ & _ & _ & (h & _ & Hh) & E & _).
    destruct (dueb_facts _ _ h Hd Hh) as (_ & Hr & _ & t & lim & Hta & _). split; [exact Hr|].
    destruct E as [(_ & _ & E)|(p & t0 & E & _)]; [congruence|]. exists p. split; [exact E|].
    assert (Hin : In (k, p) (dpairs (lpar y))).
    { unfold dpairs. rewrite Hs. apply in_due_pairs. exists x. split; [eapply get_in_jobs; eauto|].
      split; [exact Hd|]. split; [unfold owner; rewrite E; reflexivity|]. apply (AllJ_get _ _ _ Ha Hx). }
    split; [exact Hin|]. unfold V. apply in_map_iff. exists (k, p). split; [reflexivity|exact Hin]. }
  assert (Hvict : forall p k, In (p, Some k) (lwk y) -> In p V ->
             exists x, get_job (lpar y) k = Some x /\ dj x = true).
  { intros p k Hin Hp. unfold V in Hp. apply in_map_iff in Hp. destruct Hp as ([j q] & E & Hd). cbn in E. subst q.
    destruct (HDsub _ _ Hd) as [Hd' Hs]. pose proof (wk_in_get _ _ _ (lwk_nodup n y H) Hin) as Hg.
    destruct (G2 j p Hd') as [E|E]; [congruence|]. assert (k = j) by congruence. subst k.
    apply in_due_pairs in Hd'. destruct Hd' as (x & Hx & Hdx & _ & Hid). exists x.
    split; [rewrite <- Hid; apply AllJ_in_get; assumption|]. unfold dj. rewrite Hs, Hdx. reflexivity. }
  assert (Hun : forall k, cunres s' k = match get_job (lpar y) k with Some x => negb (ready x) && negb (dj x) | None => false end).
  { intros k. unfold cunres. rewrite JM. destruct (get_job (lpar y) k) as [x|]; [|reflexivity]. cbn [option_map].
    rewrite Hsc. destruct (dj x); [|rewrite andb_true_r; reflexivity].
    unfold hard_result, apply_set. destruct (ready x) eqn:Hr; cbn [ready j_add_tmo]; rewrite ?Hr; reflexivity. }
  assert (Hun1 : forall k, cunres s' k = true -> exists x, get_job (lpar y) k = Some x /\ ready x = false /\ dj x = false
                                                         /\ get_job s' k = Some x /\ cunres (lpar y) k = true).
  { intros k Hu. rewrite Hun in Hu. destruct (get_job (lpar y) k) as [x|] eqn:Hx; [|discriminate].
    apply andb_true_iff in Hu. destruct Hu as [A B]. apply negb_true_iff in A. apply negb_true_iff in B.
    exists x. split; [reflexivity|]. split; [exact A|]. split; [exact B|]. split.
    - rewrite JM, Hx. cbn [option_map]. rewrite Hsc, B. reflexivity.
    - rewrite (job_cunres _ _ _ Hx), A. reflexivity. }
  assert (Hkeep : forall k q, cunres s' k = true -> In (k, q) (running (lwk y)) -> negb (memZ q V) = true).
  { intros k q Hu Hin. destruct (Hun1 k Hu) as (x & Hx & _ & Hd & _).
    destruct (memZ q V) eqn:Em; [exfalso|reflexivity]. apply memZ_In in Em. apply in_running in Hin.
    destruct (Hvict q k Hin Em) as (x0 & Hx0 & Hd0). congruence. }
  set (y' := mkls s' (lbad y) (ltodo y) (llims y) (ltaskq y) (linq y) (filter (fun e => negb (memZ (fst e) V)) (lwk y)) (loutq y)).
  assert (Hpc : forall k, cunres s' k = true -> pcnt k (lst y') = pcnt k (lst y)).
  { intros k Hu. rewrite !pcnt_lst. unfold y'; lfields. rewrite Hrun. f_equal.
    apply pcnt_filter_keep. intros q Hq. cbn [snd]. apply (Hkeep k q Hu Hq). }
  assert (Hsi : forall k q, cunres s' k = true -> In (k, q) (lst y) -> In (k, q) (lst y')).
  { intros k q Hu. rewrite !in_lst. unfold y'; lfields. rewrite Hrun. intros [A|A]; [left|right; exact A].
    apply (in_filter_snd (fun q0 => negb (memZ q0 V))). split; [exact A|apply (Hkeep k q Hu A)]. }
  assert (HLJ : forall k z, LJ y k z -> LJ y' k z).
  { intros k z. apply LJ_frame; unfold y'; lfields; [apply SF|apply SF|rewrite (sf_now _ _ SF); lia|reflexivity|auto]. }
  assert (Hjl : jobs s' = map (scang (lpar y)) (jobs (lpar y))).
  { rewrite (jmap_imap (lpar y) s' (fun _ => scang (lpar y)) (conj (sf_jlen _ _ SF) JM)). apply imap_const. }
  constructor; unfold y'; lfields; fold y'.
  - exact Haa.
  - intros k Hu. rewrite (Hpc k Hu). destruct (Hun1 k Hu) as (_ & _ & _ & _ & _ & Hu0). apply Ht. exact Hu0.
  - intros k Hu. rewrite Hrun.
    pose proof (pcnt_filter_le (fun jp => negb (memZ (snd jp) V)) k (running (lwk y))) as Hle.
    destruct (cunres (lpar y) k) eqn:Hu0; [|specialize (Ht0 k Hu0); lia].
    destruct (cunres_job _ _ Hu0) as (x & Hx & Hr). rewrite Hun, Hx, Hr in Hu. cbn [negb andb] in Hu.
    apply negb_false_iff in Hu. destruct (Hdjr k x Hx Hu) as (_ & p & Hwpx & _ & HpV).
    assert (Hs : In (k, p) (lst y)) by (apply (Hwp k x p Hx Hr); rewrite Hwpx; left; reflexivity).
    destruct (lst_unres n y k p H Hu0 Hs) as (_ & A & B). rewrite A, B. cbn [Nat.add].
    destruct (pcnt k (filter (fun jp => negb (memZ (snd jp) V)) (running (lwk y)))) eqn:E; [reflexivity|exfalso].
    destruct (pcnt_pos_in k (filter (fun jp => negb (memZ (snd jp) V)) (running (lwk y)))) as [q Hq]; [lia|].
    apply (in_filter_snd (fun q0 => negb (memZ q0 V))) in Hq. destruct Hq as [Hq1 Hq2].
    assert (q = p) by (apply (lst_unique n y k q p H Hu0); [apply in_lst; left; exact Hq1|exact Hs]). subst q.
    apply memZ_In in HpV. rewrite HpV in Hq2. discriminate.
  - intros k x' Hg. rewrite JM in Hg. destruct (get_job (lpar y) k) as [x|] eqn:Hx; [|discriminate]. cbn in Hg. inversion Hg; subst x'.
    rewrite Hsc. destruct (dj x) eqn:Hd; [|apply HLJ, Hj; exact Hx].
    destruct (Hj k x Hx) as (A & B & C & (h & D1 & D2) & E & F & G).
    unfold dj in Hd. apply andb_true_iff in Hd. destruct Hd as [Hs Hd].
    destruct (dueb_facts _ _ h Hd D2) as (_ & Hr & _ & t & lim & Hta & Hh & Hl0 & Ht0' & Hel).
    destruct (F Hr) as (_ & _ & Hcs & Hce).
    assert (Hacc : accepted x = true) by (destruct E as [(_ & _ & E)|(p & t0 & _ & E & _)]; [congruence|exact E]).
    unfold LJ, y'. lfields. rewrite (sf_hard _ _ SF), (sf_now _ _ SF), (sf_scanner _ _ SF). unfold hard_result, apply_set. rewrite Hr.
    cbn [kind soft worker_lost hard wp accepted time_accepted ready value cb_succ cb_err incache j_add_tmo payload_success].
    split; [exact A|]. split; [exact B|]. split; [exact C|]. split; [exists h; auto|]. split; [exact E|].
    split; [intros; discriminate|]. intros _. right. rewrite Hacc, Hcs, Hce.
    repeat (split; [reflexivity|]). split; [exact Hs|]. exists t, lim. auto 10.
  - intros j p ok t Hin. destruct (Hm j p ok t Hin) as (A & B & x & Hx). split; [exact A|]. split; [exact B|].
    rewrite JM, Hx. cbn. eauto.
  - intros m Hin. rewrite Hip. apply Hpi. exact Hin.
  - intros k p Hin. destruct (Hac k p Hin) as [[x Hx] B]. split; [rewrite JM, Hx; cbn; eauto|].
    intros Hu. apply (Hsi k p Hu). apply B. destruct (Hun1 k Hu) as (_ & _ & _ & _ & _ & Hu0). exact Hu0.
  - intros k x' Hg Hr. assert (Hu : cunres s' k = true) by (rewrite (job_cunres _ _ _ Hg), Hr; reflexivity).
    destruct (Hun1 k Hu) as (x & Hx & Hr0 & _ & Hg' & _). assert (x' = x) by congruence. subst x'.
    rewrite (Hpc k Hu). apply (Hacs k x Hx Hr0).
  - intros k x' p Hg Hr Hin. assert (Hu : cunres s' k = true) by (rewrite (job_cunres _ _ _ Hg), Hr; reflexivity).
    destruct (Hun1 k Hu) as (x & Hx & Hr0 & _ & Hg' & _). assert (x' = x) by congruence. subst x'.
    apply (Hsi k p Hu). apply (Hwp k x p Hx Hr0 Hin).
  - rewrite (map_fst_filter (fun q => negb (memZ q V))), Hwk0. unfold kept. rewrite (sf_wlist _ _ SF), filter_filter.
    apply filter_ext_eq. intros q. rewrite Hex, negb_orb. reflexivity.
  - rewrite (sf_wlist _ _ SF), (sf_nprocs _ _ SF). exact Hsize.
  - rewrite (sf_pstate _ _ SF). exact Hst.
  - rewrite (sf_rst _ _ SF). exact Hmaxr.
  - exact Hww.
  - rewrite (sf_sem _ _ SF). exact Hnn.
  - rewrite (sf_putlocks _ _ SF), (sf_sem _ _ SF). intros Ep. specialize (Hsem Ep).
    assert (Hnu : (nunres s' + length (filter dj (jobs (lpar y))) = nunres (lpar y))%nat).
    { unfold nunres. rewrite Hjl. apply filter_and_not.
      - intros x _. rewrite Hsc. destruct (dj x); [|rewrite andb_true_r; reflexivity].
        unfold hard_result, apply_set. destruct (ready x) eqn:Hr; cbn [ready j_add_tmo]; rewrite ?Hr; reflexivity.
      - intros x Hin Hd. pose proof (AllJ_in_get _ _ Ha Hin) as Hx. rewrite (proj1 (Hdjr _ x Hx Hd)). reflexivity. }
    assert (Hdd : length (dead_workers s') = (length (dead_workers (lpar y)) + length V)%nat).
    { unfold dead_workers. rewrite (sf_wlist _ _ SF).
      rewrite (filter_ext_eq (exited s') (fun q => exited (lpar y) q || memZ q V)) by exact Hex.
      rewrite filter_or_disjoint.
      - f_equal. apply filter_mem_length; [apply WInv_wlist_nodup; exact Hw|exact HVnd|].
        intros q Hq. apply memZ_In. apply (HValive q Hq).
      - intros q _ He. destruct (memZ q V) eqn:Em; [|reflexivity]. apply memZ_In in Em.
        destruct (HValive q Em) as (_ & He' & _). congruence. }
    assert (HVl : length V = length (filter dj (jobs (lpar y)))).
    { unfold V, dpairs, dj. rewrite map_length. destruct (scanner (lpar y)); cbn [andb].
      - apply due_pairs_length. intros x Hin Hd. pose proof (AllJ_in_get _ _ Ha Hin) as Hx.
        destruct (Hj _ x Hx) as (_ & _ & _ & (h & _ & Hh) & E & _).
        destruct (dueb_facts _ _ h Hd Hh) as (_ & _ & _ & t & lim & Hta & _).
        destruct E as [(_ & _ & E)|(p & t0 & E & _)]; [congruence|]. unfold owner. rewrite E. discriminate.
      - rewrite filter_none; [reflexivity|auto]. }
    lia.
  - rewrite (sf_sem _ _ SF), (sf_nprocs _ _ SF). exact Hbound.
  - rewrite (sf_soft _ _ SF). exact Hsoft.
  - rewrite (sf_jlen _ _ SF). exact Hn.
  - rewrite (sf_jlen _ _ SF). exact Hlims.
Qed.

Lemma linv_scan n y l y' : LInv n y -> limit_step y (LScan l) = Some y' -> LInv n y'.
Proof.
  intros H. cbn [limit_step]. destruct (scan_clean (lpar y) (lwk y)) eqn:Hc; [|discriminate].
  intros E; inversion E; subst y'. apply linv_scan_to; assumption.
Qed.

(* every step but the racy scan keeps the invariant *)
Theorem linv_step n y a y' : LInv n y -> is_racy a = false -> limit_step y a = Some y' -> LInv n y'.
Proof.
  intros H He Hs. destruct a; try discriminate.
  - eapply linv_submit; eauto.
  - eapply linv_put; eauto.
  - eapply linv_take; eauto.
  - eapply linv_finish; eauto.
  - eapply linv_recv; eauto.
  - eapply linv_scan; eauto.
  - eapply linv_tick; eauto.
  - eapply linv_advance; eauto.
Qed.

(* ================================================================== F. reachable states *)
Lemma start_n_lframe : forall k i s, lframe s (start_n k i s).
Proof.
  induction k as [|k IH]; intros i s; cbn [start_n]; [apply lframe_refl|].
  eapply lframe_trans; [|apply IH]. constructor; reflexivity.
Qed.

Lemma linv_init c lims bd :
  1 <= c_n c -> c_maxr c = None -> c_soft c = None -> LInv (length lims) (linit c lims bd).
Proof.
  intros Hn Hm Hso. unfold linit.
  pose proof (WInv_init c ltac:(lia)) as Hw. pose proof (rst_init c) as Hr. pose proof (AllJ_init c) as Haj.
  unfold init in *.
  match goal with |- context [start_n ?k ?i ?s0] =>
    destruct (start_n_frame k i s0) as (A & B & C & D); destruct (start_n_more k i s0) as (W & PG & NP & DF);
    pose proof (start_n_lframe k i s0) as LF;
    remember (start_n k i s0) as s eqn:Es; pose (z0 := s0) end.
  unfold fresh_pids in W. cbn [jobs sem pstate putlocks wlist nprocs dflt_lost procs length app] in A, B, C, D, W, NP, DF.
  change (pgrow z0 s) in PG.
  assert (Hp0 : forall q, pinfo z0 q = None).
  { intros q. unfold pinfo, get_proc, z0. cbn [procs]. destruct (q <? 0); [reflexivity|]. destruct (Z.to_nat q); reflexivity. }
  assert (Hex : forall p, exited s p = false).
  { intros p. rewrite exited_pinfo. destruct (PG p) as [E|[_ E]]; rewrite E, ?Hp0; reflexivity. }
  assert (Hg : forall k, get_job s k = None) by (intros k; apply get_job_nil; exact A).
  assert (Hu : forall k, cunres s k = false) by (intros k; unfold cunres; rewrite Hg; reflexivity).
  assert (Hkept : kept s = wlist s) by (unfold kept; apply filter_all; intros p _; rewrite Hex; reflexivity).
  assert (Hlen : length (wlist s) = Z.to_nat (c_n c)) by (rewrite W, map_length, seq_length; reflexivity).
  clear Es. constructor; lfields.
  - exact Haj.
  - intros j. rewrite Hu. discriminate.
  - intros j _. rewrite running_idles. reflexivity.
  - intros k x. rewrite Hg. discriminate.
  - intros j p ok t [].
  - intros m [].
  - intros k p [].
  - intros k x. rewrite Hg. discriminate.
  - intros k x p. rewrite Hg. discriminate.
  - rewrite map_map. cbn [fst]. rewrite map_id. symmetry. exact Hkept.
  - rewrite Hlen, NP. lia.
  - rewrite C. reflexivity.
  - rewrite Hr. cbn. exact Hm.
  - exact Hw.
  - rewrite B. cbn. lia.
  - intros _. rewrite B. unfold nunres, dead_workers. rewrite A, (filter_none (exited s)) by (intros p _; apply Hex). cbn. lia.
  - rewrite B, NP. cbn. lia.
  - rewrite (lf_soft _ _ LF). exact Hso.
  - rewrite A. reflexivity.
  - rewrite A. reflexivity.
Qed.

Inductive lreachE (c : config) : lsys -> Prop :=
| lre_init lims bd : lreachE c (linit c lims bd)
| lre_step y a y' : lreachE c y -> limit_step y a = Some y' -> lreachE c y'.

(* reachable without the racy scan; n = the number of calls the client makes in all *)
Inductive lreach (c : config) (n : nat) : lsys -> Prop :=
| lr_init lims bd : length lims = n -> lreach c n (linit c lims bd)
| lr_step y a y' : lreach c n y -> is_racy a = false -> limit_step y a = Some y' -> lreach c n y'.

Lemma lreach_lreachE c n y : lreach c n y -> lreachE c y.
Proof. induction 1; [constructor|econstructor; eauto]. Qed.

Theorem lreach_inv c n y : 1 <= c_n c -> c_maxr c = None -> c_soft c = None -> lreach c n y -> LInv n y.
Proof.
  intros Hn Hm Hs H. induction H as [lims bd <-|y a y' _ IH He Hst]; [apply linv_init; assumption|].
  eapply linv_step; eauto.
Qed.

Lemma ltick_to_par y y' : ltick_to y = Some y' -> lpar y' = fst (step (lpar y) ETick).
Proof.
  unfold ltick_to. destruct (step (lpar y) ETick) as [s' r]. destruct r; try discriminate.
  intros E; inversion E; reflexivity.
Qed.

Lemma lstep_par y a y' : limit_step y a = Some y' -> lpar y' = run_from (lpar y) (levent y a).
Proof.
  destruct a; cbn [limit_step levent].
  - destruct (ltodo y) as [|h r]; [discriminate|].
    destruct (step (lpar y) (EApply None h None None)) as [s' r0] eqn:E.
    destruct r0; try discriminate. intros H; inversion H; subst y'. cbn [lpar run_from fold_left]. rewrite E. reflexivity.
  - destruct (ltaskq y); [discriminate|]. intros H; inversion H; reflexivity.
  - destruct (wk_get (lwk y) p) as [[?|]|]; try discriminate. destruct (linq y); [discriminate|].
    intros H; inversion H. reflexivity.
  - destruct (wk_get (lwk y) p) as [[?|]|]; try discriminate. intros H; inversion H. reflexivity.
  - destruct (loutq y) as [|[j p|j p ok t] r]; [discriminate| |]; intros H; inversion H; reflexivity.
  - destruct (scan_clean (lpar y) (lwk y)); [|discriminate]. intros H; inversion H; reflexivity.
  - destruct (scan_clean (lpar y) (lwk y)); [discriminate|]. intros H; inversion H; reflexivity.
  - destruct (drained (lpar y) (loutq y)); [|discriminate]. intros H. rewrite (ltick_to_par _ _ H). reflexivity.
  - destruct (0 <? d); [|discriminate]. intros H; inversion H. reflexivity.
Qed.

Lemma lrun_par : forall sched y y', lrun y sched = Some y' -> lpar y' = run_from (lpar y) (levents_of y sched).
Proof.
  induction sched as [|a r IH]; intros y y'; cbn [lrun levents_of].
  - intros H; inversion H; reflexivity.
  - destruct (limit_step y a) as [y1|] eqn:E; [|discriminate]. intros H.
    rewrite run_from_app, <- (lstep_par _ _ _ E). apply IH. exact H.
Qed.

(* the parent of every reachable state (racy scans included) is a state of the open pool model *)
Theorem lreachE_is_run c y : lreachE c y -> exists tr, lpar y = run c tr.
Proof.
  intros H. induction H as [lims bd|y a y' _ (tr & IH) Hs]; [exists []; reflexivity|].
  exists (tr ++ levent y a). rewrite (lstep_par _ _ _ Hs), IH. unfold run, run_from. rewrite fold_left_app. reflexivity.
Qed.

Theorem lreach_is_run c n y : lreach c n y -> exists tr, lpar y = run c tr.
Proof. intros H. apply (lreachE_is_run c). eapply lreach_lreachE; eauto. Qed.

Lemma lrun_inv n : forall sched y y', LInv n y -> no_racy sched -> lrun y sched = Some y' -> LInv n y'.
Proof.
  induction sched as [|a r IH]; intros y y' Hy Hne; cbn [lrun].
  - intros H; inversion H; subst; exact Hy.
  - destruct (limit_step y a) as [y1|] eqn:E; [|discriminate]. apply IH.
    + eapply linv_step; eauto. apply Hne. left. reflexivity.
    + intros b Hb. apply Hne. right. exact Hb.
Qed.

Lemma lrun_reach c n : forall sched y y', lreach c n y -> no_racy sched -> lrun y sched = Some y' -> lreach c n y'.
Proof.
  induction sched as [|a r IH]; intros y y' Hy Hne; cbn [lrun].
  - intros H; inversion H; subst; exact Hy.
  - destruct (limit_step y a) as [y1|] eqn:E; [|discriminate]. apply IH.
    + eapply lr_step; eauto. apply Hne. left. reflexivity.
    + intros b Hb. apply Hne. right. exact Hb.
Qed.

(* ================================================================== G. what a scan does, exactly *)
(* a clean scan: EVERY overdue job (cached, accepted, unresolved, effective limit elapsed) is failed
   with TimeLimitExceeded(its limit), no other job is touched, the signals sent are exactly TERM
   (and KILL iff lingering) to the owner of each job just failed, in cache order, those workers are
   dead afterwards (and nobody else), and they have left the live workers *)
Theorem lscan_exact n y l y' :
  LInv n y -> limit_step y (LScan l) = Some y' ->
  (forall k, get_job (lpar y') k = option_map (scang (lpar y)) (get_job (lpar y) k))
  /\ sigs (lpar y') = flat_map (fun jp => sigs_for l (snd jp)) (dpairs (lpar y))
  /\ (forall q, exited (lpar y') q = exited (lpar y) q || memZ q (map snd (dpairs (lpar y))))
  /\ (forall q, In q (map snd (dpairs (lpar y))) -> exit_of (lpar y') q = killed l /\ In q (map fst (lwk y)))
  /\ lwk y' = filter (fun e => negb (memZ (fst e) (map snd (dpairs (lpar y))))) (lwk y)
  /\ wlist (lpar y') = wlist (lpar y) /\ sem (lpar y') = sem (lpar y) /\ now (lpar y') = now (lpar y).
Proof.
  intros H. cbn [limit_step]. destruct (scan_clean (lpar y) (lwk y)) eqn:Hc; [|discriminate].
  intros E; inversion E; subst y'; clear E. unfold scan_to. lfields.
  pose proof (linv_scan_pre n y H Hc) as Pre. destruct (scan_clean_spec _ _ Hc) as [G1 G2].
  destruct (lscan_spec (lpar y) l Pre) as (JM & PI & SG & SF).
  set (s' := fst (step (lpar y) (EScan l))) in *. set (V := map snd (dpairs (lpar y))) in *.
  assert (HV : forall q, In q V -> In q (map fst (lwk y)) /\ exists jt, pinfo (lpar y) q = Some (None, jt)).
  { intros q Hq. unfold V in Hq. apply in_map_iff in Hq. destruct Hq as ([j p] & E & Hin). cbn in E. subst p.
    assert (Hin' : In (j, q) (due_pairs (lpar y))) by (unfold dpairs in Hin; destruct (scanner (lpar y)); [exact Hin|destruct Hin]).
    split; [|exact (proj2 (sp_alive _ Pre j q Hin'))].
    destruct (G2 j q Hin') as [E|E]; apply wk_get_in in E; apply in_map_iff; eexists; (split; [|exact E]); reflexivity. }
  assert (Hex : forall q, exited s' q = exited (lpar y) q || memZ q V).
  { intros q. rewrite !exited_pinfo, PI. fold V. destruct (memZ q V) eqn:Em; [|rewrite orb_false_r; reflexivity].
    apply memZ_In in Em. destruct (HV q Em) as (_ & jt & Y). rewrite Y. reflexivity. }
  split; [exact JM|]. split; [exact SG|]. split; [exact Hex|]. split.
  { intros q Hq. destruct (HV q Hq) as (A & jt & Y). split; [|exact A].
    rewrite exit_of_pinfo, PI. fold V. rewrite (proj2 (memZ_In q V) Hq), Y. reflexivity. }
  split.
  { apply filter_ext_in. intros [p o] Hin. cbn [fst]. rewrite Hex.
    assert (Hp : In p (map fst (lwk y))) by (apply in_map_iff; exists (p, o); split; [reflexivity|exact Hin]).
    rewrite (proj2 (llive_worker n y p H Hp)). reflexivity. }
  split; [apply SF|]. split; apply SF.
Qed.

(* ... in words *)
Corollary scan_fails_every_overdue_job n y l y' k x :
  LInv n y -> limit_step y (LScan l) = Some y' -> scanner (lpar y) = true ->
  get_job (lpar y) k = Some x -> dueb (lpar y) x = true ->
  exists x', get_job (lpar y') k = Some x' /\ ready x' = true /\ value x' = Some (PTimeLimit (hard x))
             /\ cb_err x' = 1 /\ cb_succ x' = 0.
Proof.
  intros H Hs Hsc Hx Hd. destruct (lscan_exact n y l y' H Hs) as (JM & _).
  destruct (u_job n y H k x Hx) as (_ & _ & _ & (h & _ & Hh) & _ & F & _).
  destruct (dueb_facts _ _ h Hd Hh) as (_ & Hr & _). destruct (F Hr) as (_ & _ & Hcs & Hce).
  exists (hard_result x). rewrite JM, Hx. cbn [option_map]. unfold scang. rewrite Hsc, Hd. cbn [andb].
  split; [reflexivity|]. unfold hard_result, apply_set. rewrite Hr. cbn. rewrite Hcs, Hce. auto.
Qed.

Corollary scan_touches_no_other_job n y l y' k x :
  LInv n y -> limit_step y (LScan l) = Some y' -> get_job (lpar y) k = Some x -> dueb (lpar y) x = false ->
  get_job (lpar y') k = Some x.
Proof.
  intros H Hs Hx Hd. destruct (lscan_exact n y l y' H Hs) as (JM & _). rewrite JM, Hx. cbn [option_map].
  unfold scang. rewrite Hd, andb_false_r. reflexivity.
Qed.

(* the test, spelled out: overdue = cached, unresolved, accepted at t <> 0, effective limit lim <> 0
   (the job's own if the call gave one, else the pool default), t + lim <= now *)
Theorem dueb_iff n y k x :
  LInv n y -> get_job (lpar y) k = Some x ->
  (dueb (lpar y) x = true <->
   incache x = true /\ ready x = false
   /\ exists t lim, time_accepted x = Some t /\ hard x = Some lim /\ lim <> 0 /\ t <> 0 /\ t + lim <= now (lpar y)).
Proof.
  intros H Hx. destruct (u_job n y H k x Hx) as (A & _ & _ & (h & _ & Hh) & _). split.
  - intros Hd. destruct (dueb_facts _ _ h Hd Hh) as (P & Q & _ & R). auto.
  - intros (P & Q & t & lim & R1 & R2 & R3 & R4 & R5). unfold dueb. rewrite P, Q, A, R1, (eff_hard_hard _ _ h Hh), R2.
    unfold timed_out. cbn. lia.
Qed.

(* the job's limit is its own if the call gave a (non-zero) one, else the pool default *)
Theorem limit_is_own_or_default c n y k x :
  1 <= c_n c -> c_maxr c = None -> c_soft c = None -> lreach c n y -> get_job (lpar y) k = Some x ->
  exists h, nth_error (llims y) (Z.to_nat k) = Some h /\ hard x = py_or h (t_hard (lpar y)).
Proof.
  intros Hn Hm Hs Hr Hx. exact (proj1 (proj2 (proj2 (proj2 (u_job n y (lreach_inv c n y Hn Hm Hs Hr) k x Hx))))).
Qed.

(* the next pass brings the pool back: no dead worker left in the list, the list has the configured
   size (ONE included), its members are exactly the live workers, and the slots add up again *)
Theorem pass_restores_pool n y y' :
  LInv n y -> limit_step y LTick = Some y' ->
  dead_workers (lpar y') = [] /\ Z.of_nat (length (wlist (lpar y'))) = nprocs (lpar y')
  /\ map fst (lwk y') = wlist (lpar y')
  /\ (putlocks (lpar y') = true ->
      LaxSem.value (sem (lpar y')) + Z.of_nat (nunres (lpar y')) = LaxSem.bound (sem (lpar y'))).
Proof.
  intros H Hs. pose proof (linv_tick n y y' H Hs) as H'. cbn [limit_step] in Hs.
  destruct (drained (lpar y) (loutq y)); [|discriminate].
  assert (Hd : dead_workers (lpar y') = []).
  { unfold dead_workers. apply filter_none. intros p Hp. rewrite (ltick_to_par _ _ Hs) in *.
    rewrite step_tick in *. apply (NoEx_do_tick _ p Hp). }
  split; [exact Hd|]. split; [exact (u_size n y' H')|]. split.
  - rewrite (u_wk n y' H'). unfold kept. apply filter_all. intros p Hp.
    destruct (exited (lpar y') p) eqn:He; [|reflexivity].
    assert (In p (dead_workers (lpar y'))) by (unfold dead_workers; apply filter_In; auto). rewrite Hd in H0. destruct H0.
  - intros Ep. pose proof (u_sem n y' H' Ep) as X. rewrite Hd in X. cbn [length] in X. lia.
Qed.

(* ================================================================== H. liveness *)
Lemma filter_imap_le (u : job -> bool) F : forall l i0,
    (forall i x, nth_error l i = Some x -> u (F (Z.of_nat (i0 + i)) x) = true -> u x = true) ->
    (length (filter u (imap F i0 l)) <= length (filter u l))%nat.
Proof.
  induction l as [|x l IH]; intros i0 H; [cbn; lia|]. cbn [imap filter].
  pose proof (H O x eq_refl) as H0. rewrite Nat.add_0_r in H0.
  assert (IH' : (length (filter u (imap F (S i0) l)) <= length (filter u l))%nat).
  { apply IH. intros i z Hz. replace (S i0 + i)%nat with (i0 + S i)%nat by lia. apply (H (S i) z Hz). }
  destruct (u (F (Z.of_nat i0) x)) eqn:E; [rewrite (H0 eq_refl); cbn [length]; lia|].
  destruct (u x); cbn [length]; lia.
Qed.

Lemma remw_now s s' x : now s' = now s -> remw s' x = remw s x.
Proof. intros E. unfold remw. rewrite E. reflexivity. Qed.

Lemma remw_ready s x : ready x = true -> remw s x = 0%nat.
Proof. intros E. unfold remw. rewrite E. reflexivity. Qed.

Lemma remw_fresh s s' h : remw s' (lfresh s h) = limw (py_or h (t_hard s)).
Proof.
  unfold remw, lfresh, limw. cbn [ready hard time_accepted]. destruct (py_or h (t_hard s)) as [l|]; [|reflexivity].
  destruct (l =? 0); reflexivity.
Qed.

Lemma todo_weight_eq s s' l : t_hard s' = t_hard s ->
  list_sum (map (fun h => (8 + limw (py_or h (t_hard s')))%nat) l) = list_sum (map (fun h => (8 + limw (py_or h (t_hard s)))%nat) l).
Proof. intros E. rewrite E. reflexivity. Qed.

Lemma scan_counts n y l :
  LInv n y -> scan_clean (lpar y) (lwk y) = true ->
  let s := lpar y in let s' := fst (step s (EScan l)) in
  let d := length (filter (fun x => scanner s && dueb s x) (jobs s)) in
  jobs s' = map (scang s) (jobs s)
  /\ (nunres s' + d = nunres s)%nat
  /\ length (dead_workers s') = (length (dead_workers s) + d)%nat
  /\ sframe s s'.
Proof.
  intros H Hc. pose proof H as [Ha Ht Ht0 Hj Hm Hpi Hac Hacs Hwp Hwk0 Hsize Hst Hmaxr Hw Hnn Hsem Hbound Hsoft Hn Hlims].
  destruct (scan_clean_spec _ _ Hc) as [G1 G2]. pose proof (linv_scan_pre n y H Hc) as Pre.
  destruct (lscan_spec (lpar y) l Pre) as (JM & PI & SG & SF). cbn zeta.
  set (s' := fst (step (lpar y) (EScan l))) in *. set (V := map snd (dpairs (lpar y))) in *.
  set (dj := fun x => scanner (lpar y) && dueb (lpar y) x).
  assert (Hjl : jobs s' = map (scang (lpar y)) (jobs (lpar y))).
  { rewrite (jmap_imap (lpar y) s' (fun _ => scang (lpar y)) (conj (sf_jlen _ _ SF) JM)). apply imap_const. }
  assert (Hdue : forall x, In x (jobs (lpar y)) -> dj x = true -> ready x = false /\ owner x <> None).
  { intros x Hin Hd. pose proof (AllJ_in_get _ _ Ha Hin) as Hx. unfold dj in Hd. apply andb_true_iff in Hd. destruct Hd as [_ Hd].
    destruct (Hj _ x Hx) as (_ & _ & _ & (h & _ & Hh) & E & _).
    destruct (dueb_facts _ _ h Hd Hh) as (_ & Hr & _ & t & lim & Hta & _). split; [exact Hr|].
    destruct E as [(_ & _ & E)|(p & t0 & E & _)]; [congruence|]. unfold owner. rewrite E. discriminate. }
  assert (HVnd : NoDup V) by (unfold V, dpairs; destruct (scanner (lpar y)); [exact G1|constructor]).
  assert (HValive : forall q, In q V -> in_pool (lpar y) q = true /\ exited (lpar y) q = false /\ exists jt, pinfo (lpar y) q = Some (None, jt)).
  { intros q Hq. unfold V in Hq. apply in_map_iff in Hq. destruct Hq as ([j p] & E & Hin). cbn in E. subst p.
    assert (Hin' : In (j, q) (due_pairs (lpar y))) by (unfold dpairs in Hin; destruct (scanner (lpar y)); [exact Hin|destruct Hin]).
    destruct (sp_alive _ Pre j q Hin') as (X & jt & Y). split; [exact X|]. split; [rewrite exited_pinfo, Y; reflexivity|eauto]. }
  assert (Hex : forall q, exited s' q = exited (lpar y) q || memZ q V).
  { intros q. rewrite !exited_pinfo, PI. fold V. destruct (memZ q V) eqn:Em; [|rewrite orb_false_r; reflexivity].
    apply memZ_In in Em. destruct (HValive q Em) as (_ & _ & jt & Y). rewrite Y. reflexivity. }
  assert (HVl : length V = length (filter dj (jobs (lpar y)))).
  { unfold V, dpairs, dj. rewrite map_length. destruct (scanner (lpar y)) eqn:Es; cbn [andb].
    - apply due_pairs_length. intros x Hin Hd. apply (Hdue x Hin). unfold dj. exact Hd.
    - rewrite filter_none; [reflexivity|auto]. }
  split; [exact Hjl|]. split; [|split; [|exact SF]].
  - unfold nunres. rewrite Hjl. apply filter_and_not.
    + intros x _. unfold scang. fold (dj x). destruct (dj x); [|rewrite andb_true_r; reflexivity].
      unfold hard_result, apply_set. destruct (ready x) eqn:Hr; cbn [ready j_add_tmo]; rewrite ?Hr; reflexivity.
    + intros x Hin Hd. rewrite (proj1 (Hdue x Hin Hd)). reflexivity.
  - fold dj. rewrite <- HVl. unfold dead_workers. rewrite (sf_wlist _ _ SF).
    rewrite (filter_ext_eq (exited s') (fun q => exited (lpar y) q || memZ q V)) by exact Hex.
    rewrite filter_or_disjoint.
    + f_equal. apply filter_mem_length; [apply WInv_wlist_nodup; exact Hw|exact HVnd|].
      intros q Hq. apply memZ_In. apply (HValive q Hq).
    + intros q _ He. destruct (memZ q V) eqn:Em; [|reflexivity]. apply memZ_In in Em.
      destruct (HValive q Em) as (_ & He' & _). congruence.
Qed.

Lemma ltick_facts n y y' :
  LInv n y -> drained (lpar y) (loutq y) = true -> ltick_to y = Some y' ->
  jobs (lpar y') = jobs (lpar y) /\ dead_workers (lpar y') = [] /\ running (lwk y') = running (lwk y)
  /\ now (lpar y') = now (lpar y) /\ t_hard (lpar y') = t_hard (lpar y)
  /\ ltodo y' = ltodo y /\ ltaskq y' = ltaskq y /\ linq y' = linq y /\ loutq y' = loutq y.
Proof.
  intros H Hd Hs. pose proof (ltick_to_par _ _ Hs) as Hp.
  destruct (ctick_spec (lpar y) (u_st n y H) (u_maxr n y H)) as (s' & E & W & PL & J & SE & PS & MR & PU & DF & NW & NP & PG);
    [rewrite (u_size n y H); lia|].
  pose proof (lframe_step (lpar y) ETick I) as LF.
  unfold ltick_to in Hs. rewrite E in Hs. inversion Hs; subst y'; clear Hs. lfields. cbn [lpar] in Hp.
  split.
  { rewrite J. rewrite <- (map_id (jobs (lpar y))) at 2. apply map_ext_in. apply (ltick_jobs_same n y H Hd). }
  split.
  { unfold dead_workers. apply filter_none. intros p Hin. rewrite Hp in *. rewrite step_tick in *. apply (NoEx_do_tick _ p Hin). }
  split; [rewrite running_app, running_idles, app_nil_r; reflexivity|].
  split; [exact NW|]. split; [rewrite E in LF; apply LF|]. repeat split; reflexivity.
Qed.

(* every step other than the racy scan, taken when it has a point, decreases the work left *)
Theorem lstep_decreases n y a y' :
  LInv n y -> is_racy a = false -> luseful y a = true -> limit_step y a = Some y' -> (lwork y' < lwork y)%nat.
Proof.
  intros H He Hu Hs.
  pose proof H as [Ha Ht Ht0 Hj Hm Hpi Hac Hacs Hwp Hwk0 Hsize Hst Hmaxr Hw Hnn Hsem Hbound Hsoft Hn Hlims].
  destruct a; try discriminate; cbn [limit_step] in Hs.
  - (* submit *)
    destruct (ltodo y) as [|h td] eqn:Etd; [discriminate|].
    destruct (step (lpar y) (EApply None h None None)) as [s' r] eqn:Est.
    destruct r; try discriminate. inversion Hs; subst y'; clear Hs.
    destruct (lapply_spec _ _ _ (proj1 Hnn) Est) as (PF & NW & Hp0 & Hjobs & _).
    pose proof (lframe_step (lpar y) (EApply None h None None) I) as LF. rewrite Est in LF. cbn [fst] in LF.
    unfold lwork. lfields. rewrite Etd. cbn [map]. rewrite lsum_cons, (todo_weight_eq _ _ td (lf_hard _ _ LF)).
    rewrite (dead_frame _ _ PF), Hjobs, filter_app, map_app, list_sum_app, !app_length. cbn [filter map ready lfresh negb length].
    rewrite lsum_cons, lsum_nil, (remw_fresh (lpar y) s' h).
    rewrite (map_ext (remw s') (remw (lpar y))) by (intros x; apply remw_now; exact NW). lia.
  - destruct (ltaskq y) as [|j r] eqn:Eq; [discriminate|]. inversion Hs; subst y'; clear Hs.
    unfold lwork. lfields. rewrite Eq, app_length. cbn [length]. lia.
  - destruct (wk_get (lwk y) p) as [[?|]|] eqn:Eg; try discriminate.
    destruct (linq y) as [|j r] eqn:Eq; [discriminate|]. inversion Hs; subst y'; clear Hs.
    destruct (wk_split _ _ _ Eg (lwk_nodup n y H)) as (w1 & w2 & Ew & Es & Ed).
    unfold lwork. lfields. rewrite Es, Ew, Eq, !running_app, running_busy, running_idle, !app_length. cbn [length]. lia.
  - destruct (wk_get (lwk y) p) as [[j|]|] eqn:Eg; try discriminate. inversion Hs; subst y'; clear Hs.
    destruct (wk_split _ _ _ Eg (lwk_nodup n y H)) as (w1 & w2 & Ew & Es & Ed).
    unfold lwork. lfields. rewrite Es, Ew, !running_app, running_busy, running_idle, !app_length. cbn [length]. lia.
  - (* recv *)
    destruct (loutq y) as [|[j p|j p ok t] r] eqn:Eq; [discriminate| |]; inversion Hs; subst y'; clear Hs.
    + destruct (cack_spec (lpar y) j p) as (PF & NW & SE & JL & JM).
      { intros x Hx. exact (proj1 (Hj j x Hx)). }
      pose proof (lframe_step (lpar y) (EAck j None p) I) as LF.
      pose proof (jmap_imap _ _ _ (conj JL JM)) as Him.
      set (s' := fst (step (lpar y) (EAck j None p))) in *.
      unfold lwork. lfields. rewrite Eq, (todo_weight_eq _ _ _ (lf_hard _ _ LF)), (dead_frame _ _ PF), Him.
      rewrite (filter_imap_same (fun x => negb (ready x)) (ackf (lpar y) j p) (jobs (lpar y)) 0)
        by (intros i z _; rewrite (proj1 (ackf_fields (lpar y) j p _ z)); reflexivity).
      rewrite (lsum_imap_same (remw (lpar y)) (remw s') (ackf (lpar y) j p) (jobs (lpar y)) 0).
      * cbn [length]. lia.
      * intros i z Hz. cbn [Nat.add]. destruct (ackf_more (lpar y) j p (Z.of_nat i) z) as (_ & _ & [->|(Ek & Hic & ->)]);
          [apply remw_now; exact NW|].
        assert (Hgz : get_job (lpar y) j = Some z).
        { unfold get_job. rewrite <- Ek. replace (Z.of_nat i <? 0) with false by lia. rewrite Nat2Z.id. exact Hz. }
        destruct (ready z) eqn:Hr; [rewrite !remw_ready by (cbn; exact Hr); reflexivity|].
        assert (Hu0 : cunres (lpar y) j = true) by (rewrite (job_cunres _ _ _ Hgz), Hr; reflexivity).
        pose proof (Hacs j z Hgz Hr) as Hk. rewrite ?Eq, acks_cons_ack, cnt_cons, Z.eqb_refl in Hk. cbn [one] in Hk.
        pose proof (Ht j Hu0) as Hle.
        assert (Hacc : accepted z = false) by (destruct (accepted z); [cbn [one] in Hk; lia|reflexivity]).
        destruct (Hj j z Hgz) as (_ & _ & _ & _ & E & _).
        destruct E as [(_ & _ & Hta)|(q & t & _ & E & _)]; [|congruence].
        unfold remw. cbn [ready hard time_accepted apply_ack]. rewrite Hr, Hta, NW.
        destruct (hard z) as [lm|]; [|reflexivity]. destruct (lm =? 0); [reflexivity|]. f_equal. lia.
    + destruct (cready_spec (lpar y) j ok t) as (PF & NW & SE & JL & JM).
      { intros x Hx. exact (proj1 (Hj j x Hx)). }
      pose proof (lframe_step (lpar y) (EReady j None ok t) I) as LF.
      pose proof (jmap_imap _ _ _ (conj JL JM)) as Him.
      set (s' := fst (step (lpar y) (EReady j None ok t))) in *. set (pl := if ok then PValue t else PExc t) in *.
      assert (Hrf : forall k z, ready z = true -> readyf j pl k z = z).
      { intros k z Hr. unfold readyf. destruct ((k =? j) && incache z); [apply apply_set_ready; exact Hr|reflexivity]. }
      assert (Hrr : forall k z, ready (readyf j pl k z) = false -> ready z = false /\ readyf j pl k z = z).
      { intros k z Hr. unfold readyf in *. destruct ((k =? j) && incache z); [|auto].
        unfold apply_set in Hr. destruct (ready z) eqn:Hz; [congruence|discriminate]. }
      unfold lwork. lfields. rewrite Eq, (todo_weight_eq _ _ _ (lf_hard _ _ LF)), (dead_frame _ _ PF), Him.
      pose proof (filter_imap_le (fun x => negb (ready x)) (readyf j pl) (jobs (lpar y)) 0) as H1.
      pose proof (lsum_imap_le (remw (lpar y)) (remw s') (readyf j pl) (jobs (lpar y)) 0) as H2.
      assert (H1' : (length (filter (fun x => negb (ready x)) (imap (readyf j pl) 0 (jobs (lpar y))))
                     <= length (filter (fun x => negb (ready x)) (jobs (lpar y))))%nat).
      { apply H1. intros i z _ Hr. apply negb_true_iff in Hr. destruct (Hrr _ _ Hr) as [A _]. rewrite A. reflexivity. }
      assert (H2' : (list_sum (map (remw s') (imap (readyf j pl) 0 (jobs (lpar y)))) <= list_sum (map (remw (lpar y)) (jobs (lpar y))))%nat).
      { apply H2. intros i z _. destruct (ready (readyf j pl (Z.of_nat (0 + i)) z)) eqn:Hr.
        - rewrite (remw_ready s' _ Hr). lia.
        - destruct (Hrr _ _ Hr) as [_ ->]. rewrite (remw_now _ _ z NW). lia. }
      cbn [length]. lia.
  - (* a clean scan that has a point *)
    destruct (scan_clean (lpar y) (lwk y)) eqn:Hc; [|discriminate]. inversion Hs; subst y'; clear Hs.
    destruct (scan_counts n y lingers H Hc) as (Hjl & Hnu & Hdd & SF). cbn zeta in *.
    cbn [luseful] in Hu. unfold useful_scan in Hu. apply andb_true_iff in Hu. destruct Hu as [Hsc Hu].
    assert (Hd1 : (1 <= length (filter (fun x => scanner (lpar y) && dueb (lpar y) x) (jobs (lpar y))))%nat).
    { apply existsb_exists in Hu. destruct Hu as (x & Hin & Hd).
      assert (Hf : In x (filter (fun x0 => scanner (lpar y) && dueb (lpar y) x0) (jobs (lpar y))))
        by (apply filter_In; split; [exact Hin|rewrite Hsc, Hd; reflexivity]).
      destruct (filter _ (jobs (lpar y))); [destruct Hf|cbn; lia]. }
    unfold scan_to, lwork. lfields. set (s' := fst (step (lpar y) (EScan lingers))) in *.
    rewrite (todo_weight_eq _ _ _ (sf_hard _ _ SF)).
    assert (Hrl : (length (running (filter (fun e => negb (exited s' (fst e))) (lwk y))) <= length (running (lwk y)))%nat).
    { rewrite (running_filter (fun q => negb (exited s' q))). apply filter_length_le_all. }
    assert (HR : (list_sum (map (remw s') (jobs s')) <= list_sum (map (remw (lpar y)) (jobs (lpar y))))%nat).
    { rewrite Hjl, map_map. apply list_sum_le. intros x _. unfold scang.
      destruct (scanner (lpar y) && dueb (lpar y) x).
      - rewrite remw_ready; [lia|]. unfold hard_result, apply_set. destruct (ready x) eqn:Hr; cbn [ready j_add_tmo]; rewrite ?Hr; reflexivity.
      - rewrite (remw_now _ _ x (sf_now _ _ SF)). lia. }
    unfold nunres in Hnu. lia.
  - (* a pass that has a point *)
    destruct (drained (lpar y) (loutq y)) eqn:Hd; [|discriminate].
    destruct (ltick_facts n y y' H Hd Hs) as (Hjs & Hdead & Hrun & NW & TH & E1 & E2 & E3 & E4).
    assert (Hd1 : (1 <= length (dead_workers (lpar y)))%nat).
    { cbn [luseful] in Hu. unfold useful_tick in Hu. apply orb_true_iff in Hu. destruct Hu as [Hu|Hu]; [|lia].
      apply orb_true_iff in Hu. destruct Hu as [Hu|Hu].
      - apply existsb_exists in Hu. destruct Hu as (p & Hp & Hpe).
        assert (Hf : In p (dead_workers (lpar y))) by (unfold dead_workers; apply filter_In; auto).
        destruct (dead_workers (lpar y)); [destruct Hf|cbn; lia].
      - exfalso. apply existsb_exists in Hu. destruct Hu as (x & Hin & Hdue).
        pose proof (AllJ_in_get _ _ Ha Hin) as Hx. destruct (Hj _ x Hx) as (_ & _ & C & _).
        unfold lost_due in Hdue. rewrite C, andb_false_r in Hdue. discriminate. }
    unfold lwork. rewrite E1, E2, E3, E4, Hrun, Hjs, Hdead, (todo_weight_eq _ _ _ TH).
    rewrite (map_ext (remw (lpar y')) (remw (lpar y))) by (intros x; apply remw_now; exact NW). cbn [length]. lia.
  - (* a wait that has a point *)
    destruct (0 <? d) eqn:Ed; [|discriminate]. inversion Hs; subst y'; clear Hs.
    destruct (cadvance_spec (lpar y) d) as (PF & NW & SE & JE).
    pose proof (lframe_step (lpar y) (EAdvance d) I) as LF.
    set (s' := fst (step (lpar y) (EAdvance d))) in *.
    unfold lwork. lfields. rewrite (todo_weight_eq _ _ _ (lf_hard _ _ LF)), (dead_frame _ _ PF), JE.
    assert (Hlt : (list_sum (map (remw s') (jobs (lpar y))) < list_sum (map (remw (lpar y)) (jobs (lpar y))))%nat).
    { assert (Hle : forall x, (remw s' x <= remw (lpar y) x)%nat).
      { intros x. unfold remw. rewrite NW. destruct (ready x); [lia|]. destruct (hard x) as [lm|]; [|lia].
        destruct (lm =? 0); [lia|]. destruct (time_accepted x); lia. }
      apply list_sum_lt; [intros x _; apply Hle|].
      cbn [luseful] in Hu. unfold luseful_advance in Hu. apply orb_true_iff in Hu. destruct Hu as [Hu|Hu].
      - apply existsb_exists in Hu. destruct Hu as (x & Hin & Hp). exists x. split; [exact Hin|].
        unfold limit_pending in Hp. apply andb_true_iff in Hp. destruct Hp as [Hr Hp]. apply negb_true_iff in Hr.
        unfold remw. rewrite Hr, NW. destruct (hard x) as [lm|]; [|discriminate]. destruct (time_accepted x) as [t|]; [|discriminate].
        destruct (lm =? 0); [discriminate|]. cbn [negb andb] in Hp. lia.
      - exfalso. unfold useful_advance in Hu. apply existsb_exists in Hu. destruct Hu as (x & Hin & Hb).
        pose proof (AllJ_in_get _ _ Ha Hin) as Hx. destruct (Hj _ x Hx) as (_ & _ & C & _).
        unfold is_marked in Hb. rewrite C in Hb. rewrite andb_false_r in Hb. discriminate. }
    lia.
Qed.

Theorem luseful_schedules_are_finite n : forall sched y y',
    LInv n y -> no_racy sched -> lall_useful y sched -> lrun y sched = Some y' ->
    (length sched + lwork y' <= lwork y)%nat.
Proof.
  induction sched as [|a r IH]; intros y y' Hy Hne Hu; cbn [lrun length].
  - intros H; inversion H; lia.
  - destruct (limit_step y a) as [y1|] eqn:E; [|discriminate]. intros Hr.
    cbn [lall_useful] in Hu. rewrite E in Hu. destruct Hu as [Hu1 Hu2].
    assert (Hea : is_racy a = false) by (apply Hne; left; reflexivity).
    pose proof (lstep_decreases n y a y1 Hy Hea Hu1 E) as Hd.
    assert (Hy1 : LInv n y1) by (eapply linv_step; eauto).
    specialize (IH y1 y' Hy1 (fun b Hb => Hne b (or_intror Hb)) Hu2 Hr). lia.
Qed.

Lemma lwork_init c lims bd :
  lwork (linit c lims bd) = list_sum (map (fun h => (8 + limw (py_or h (c_hard c)))%nat) lims).
Proof.
  unfold lwork, linit. lfields. rewrite running_idles.
  assert (Hj : jobs (init c) = []).
  { unfold init. match goal with |- context [start_n ?k ?i ?s0] => destruct (start_n_frame k i s0) as (A & _) end. exact A. }
  assert (Hd : dead_workers (init c) = []).
  { unfold dead_workers. apply filter_none. intros p _. unfold init.
    match goal with |- context [start_n ?k ?i ?s0] => destruct (start_n_more k i s0) as (_ & PG & _); set (z0 := s0) in * end.
    rewrite exited_pinfo. destruct (PG p) as [E|[_ E]]; rewrite E; [|reflexivity].
    unfold pinfo, get_proc, z0. cbn [procs]. destruct (p <? 0); [reflexivity|]. destruct (Z.to_nat p); reflexivity. }
  assert (Hh : t_hard (init c) = c_hard c).
  { unfold init. match goal with |- context [start_n ?k ?i ?s0] => pose proof (start_n_lframe k i s0) as LF end. rewrite (lf_hard _ _ LF). reflexivity. }
  rewrite Hj, Hd, Hh. cbn [length filter map]. rewrite lsum_nil. lia.
Qed.

(* 8 steps per job plus the time its limit allows, at most *)
Theorem luseful_schedules_are_short c lims bd sched y :
  1 <= c_n c -> c_maxr c = None -> c_soft c = None -> no_racy sched -> lall_useful (linit c lims bd) sched ->
  lrun (linit c lims bd) sched = Some y ->
  (length sched <= list_sum (map (fun h => (8 + limw (py_or h (c_hard c)))%nat) lims))%nat.
Proof.
  intros Hn Hm Hs Hne Hu Hr.
  pose proof (luseful_schedules_are_finite _ sched _ _ (linv_init c lims bd Hn Hm Hs) Hne Hu Hr) as H.
  rewrite lwork_init in H. lia.
Qed.

(* never stuck: while work remains a step is enabled that is not the racy scan, and no scan and no
   wait is ever needed to go on *)
Theorem lprogress n y : LInv n y -> (0 < lwork y)%nat ->
  exists a y', is_racy a = false /\ luseful y a = true /\ limit_step y a = Some y'.
Proof.
  intros H Hpos.
  pose proof H as [Ha Ht Ht0 Hj Hm Hpi Hac Hacs Hwp Hwk0 Hsize Hst Hmaxr Hw Hnn Hsem Hbound Hsoft Hn Hlims].
  destruct (loutq y) as [|m r] eqn:Eo.
  2:{ exists LRecv. cbn [limit_step]. rewrite Eo. destruct m; eexists; repeat split; reflexivity. }
  destruct (ltaskq y) as [|j r] eqn:Eq.
  2:{ exists LPut. cbn [limit_step]. rewrite Eq. eexists; repeat split; reflexivity. }
  destruct (running (lwk y)) as [|[j p] rr] eqn:Er.
  2:{ assert (Hin : In (p, Some j) (lwk y)) by (apply in_running; rewrite Er; left; reflexivity).
      exists (LFinish p). cbn [limit_step]. rewrite (wk_in_get _ _ _ (lwk_nodup n y H) Hin).
      eexists; repeat split; reflexivity. }
  assert (Hdr : drained (lpar y) (loutq y) = true) by (rewrite Eo; reflexivity).
  destruct (dead_workers (lpar y)) as [|p dl] eqn:Ed.
  2:{ assert (Hp : In p (dead_workers (lpar y))) by (rewrite Ed; left; reflexivity).
      unfold dead_workers in Hp. apply filter_In in Hp. destruct Hp as [Hp1 Hp2].
      destruct (ltick_to_enabled n y H) as [y' Hy']. exists LTick, y'. cbn [limit_step luseful]. rewrite Hdr.
      repeat split; try reflexivity; [|exact Hy']. unfold useful_tick.
      assert (Hx : existsb (exited (lpar y)) (wlist (lpar y)) = true) by (apply existsb_exists; eauto).
      rewrite Hx. reflexivity. }
  assert (Hkw : kept (lpar y) = wlist (lpar y)).
  { unfold kept. apply filter_all. intros p Hp. destruct (exited (lpar y) p) eqn:He; [exfalso|reflexivity].
    assert (Hf : In p (dead_workers (lpar y))) by (unfold dead_workers; apply filter_In; auto). rewrite Ed in Hf. destruct Hf. }
  assert (Hwkl : length (lwk y) = length (wlist (lpar y))) by (rewrite <- Hkw, <- Hwk0, map_length; reflexivity).
  destruct (lwk y) as [|[p o] wr] eqn:Ew; [cbn [length] in Hwkl; lia|].
  assert (Ho : o = None) by (destruct o as [j|]; [rewrite running_busy in Er; discriminate|reflexivity]). subst o.
  destruct (linq y) as [|j r] eqn:Ei.
  2:{ exists (LTake p). cbn [limit_step]. rewrite Ew, Ei. unfold wk_get. cbn [find fst snd]. rewrite Z.eqb_refl.
      eexists; repeat split; reflexivity. }
  (* nothing is in flight: every job is resolved; the client has calls left and a slot is free *)
  assert (Hall : forall x, In x (jobs (lpar y)) -> ready x = true).
  { intros x Hin. destruct (ready x) eqn:Hr; [reflexivity|exfalso].
    pose proof (AllJ_in_get _ _ Ha Hin) as Hx.
    assert (Hu : cunres (lpar y) (jid x) = true) by (rewrite (job_cunres _ _ _ Hx), Hr; reflexivity).
    specialize (Ht _ Hu). rewrite pcnt_lst, ?Ew, Er, ?Eo, ?Eq, ?Ei in Ht. cbn in Ht. discriminate. }
  assert (Hnu : nunres (lpar y) = 0%nat).
  { unfold nunres. rewrite filter_none; [reflexivity|]. intros x Hin. rewrite (Hall x Hin). reflexivity. }
  assert (HR : list_sum (map (remw (lpar y)) (jobs (lpar y))) = 0%nat).
  { rewrite (map_ext_in _ (fun _ => 0%nat)) by (intros x Hin; apply remw_ready, Hall; exact Hin).
    generalize (jobs (lpar y)). intros l0. induction l0 as [|x l IH]; [reflexivity|]. cbn [map]. rewrite lsum_cons. exact IH. }
  destruct (ltodo y) as [|h td] eqn:Etd.
  { exfalso. unfold lwork in Hpos. unfold nunres in Hnu. rewrite ?Etd, ?Ew, ?Eq, ?Ei, ?Eo, ?Ed, Er, Hnu, HR in Hpos. cbn in Hpos. lia. }
  destruct (lapply_enabled (lpar y) h Hst) as [s' Hs'].
  { intros Ep. specialize (Hsem Ep). rewrite Hnu in Hsem. cbn [length] in Hsem. lia. }
  exists LSubmit. cbn [limit_step]. rewrite ?Etd, Hs'. eexists; repeat split; reflexivity.
Qed.

(* what "complete" means *)
Definition lresolved_ok (y : lsys) (k : Z) (x : job) : Prop :=
  ready x = true
  /\ ((value x = Some (outcome_of (lbad y) k)
       /\ cb_succ x = (if task_ok (lbad y) k then 1 else 0) /\ cb_err x = (if task_ok (lbad y) k then 0 else 1))
      \/ (value x = Some (PTimeLimit (hard x)) /\ cb_succ x = 0 /\ cb_err x = 1 /\ scanner (lpar y) = true
          /\ exists t lim, time_accepted x = Some t /\ hard x = Some lim /\ lim <> 0 /\ t <> 0 /\ t + lim <= now (lpar y)))
  /\ exists h, nth_error (llims y) (Z.to_nat k) = Some h /\ hard x = py_or h (t_hard (lpar y)).

Definition lcall_complete (n : nat) (y : lsys) : Prop :=
  length (jobs (lpar y)) = n
  /\ (forall k, 0 <= k < Z.of_nat n -> exists x, get_job (lpar y) k = Some x /\ lresolved_ok y k x)
  /\ ltodo y = [] /\ ltaskq y = [] /\ linq y = [] /\ loutq y = [] /\ running (lwk y) = []
  /\ dead_workers (lpar y) = []
  /\ Z.of_nat (length (wlist (lpar y))) = nprocs (lpar y) /\ map fst (lwk y) = wlist (lpar y)
  /\ (putlocks (lpar y) = true -> LaxSem.value (sem (lpar y)) = LaxSem.bound (sem (lpar y))).

Lemma ldone_at_zero n y : LInv n y -> lwork y = 0%nat -> lcall_complete n y.
Proof.
  intros H H0.
  pose proof H as [Ha Ht Ht0 Hj Hm Hpi Hac Hacs Hwp Hwk0 Hsize Hst Hmaxr Hw Hnn Hsem Hbound Hsoft Hn Hlims].
  unfold lwork in H0.
  assert (E1 : ltodo y = []).
  { destruct (ltodo y); [reflexivity|]. cbn [map] in H0. rewrite lsum_cons in H0. lia. }
  assert (E2 : ltaskq y = []) by (apply length_zero_iff_nil; lia).
  assert (E3 : linq y = []) by (apply length_zero_iff_nil; lia).
  assert (E4 : running (lwk y) = []) by (apply length_zero_iff_nil; lia).
  assert (E5 : loutq y = []) by (apply length_zero_iff_nil; lia).
  assert (E6 : dead_workers (lpar y) = []) by (apply length_zero_iff_nil; lia).
  assert (E7 : nunres (lpar y) = 0%nat) by (unfold nunres; lia).
  assert (Hkw : kept (lpar y) = wlist (lpar y)).
  { unfold kept. apply filter_all. intros p Hp. destruct (exited (lpar y) p) eqn:He; [exfalso|reflexivity].
    assert (Hf : In p (dead_workers (lpar y))) by (unfold dead_workers; apply filter_In; auto). rewrite E6 in Hf. destruct Hf. }
  unfold lcall_complete. rewrite E1 in Hn. cbn [length] in Hn. split; [lia|]. split.
  { intros k Hk. destruct (nth_error (jobs (lpar y)) (Z.to_nat k)) as [x|] eqn:En.
    2:{ apply nth_error_None in En. lia. }
    assert (Hg : get_job (lpar y) k = Some x) by (unfold get_job; destruct (k <? 0) eqn:E; [lia|exact En]).
    exists x. split; [exact Hg|].
    assert (Hr : ready x = true).
    { destruct (ready x) eqn:Hr; [reflexivity|exfalso]. unfold nunres in E7.
      assert (Hf : In x (filter (fun z => negb (ready z)) (jobs (lpar y))))
        by (apply filter_In; split; [eapply nth_error_In; eauto|rewrite Hr; reflexivity]).
      destruct (filter _ (jobs (lpar y))); [destruct Hf|discriminate]. }
    destruct (Hj k x Hg) as (_ & _ & _ & D & _ & _ & G). split; [exact Hr|]. split; [|exact D].
    destruct (G Hr) as [G1|(G1 & G2 & G3 & G4 & G5 & G6)]; [left; exact G1|right; auto]. }
  repeat (split; [assumption|]). split; [rewrite Hwk0; exact Hkw|].
  intros Ep. specialize (Hsem Ep). rewrite E6, E7 in Hsem. cbn in Hsem. lia.
Qed.

Theorem lcompletion n y :
  LInv n y -> (forall a, is_racy a = false -> luseful y a = true -> limit_step y a = None) -> lcall_complete n y.
Proof.
  intros Hi Hstuck. apply ldone_at_zero; [exact Hi|]. destruct (lwork y) eqn:Em; [reflexivity|exfalso].
  destruct (lprogress n y Hi) as (a & y' & He & Hu & Hs); [lia|]. rewrite (Hstuck a He Hu) in Hs. discriminate.
Qed.

Theorem lcan_always_complete n : forall y, LInv n y ->
  exists sched y', lrun y sched = Some y' /\ no_racy sched /\ lall_useful y sched /\ lwork y' = 0%nat /\ lcall_complete n y'.
Proof.
  assert (Hind : forall m y, (lwork y <= m)%nat -> LInv n y ->
            exists sched y', lrun y sched = Some y' /\ no_racy sched /\ lall_useful y sched /\ lwork y' = 0%nat /\ lcall_complete n y').
  { induction m as [|m IH]; intros y Hm Hi.
    - exists [], y. split; [reflexivity|]. split; [intros a []|]. split; [exact I|]. split; [lia|apply ldone_at_zero; [assumption|lia]].
    - destruct (lwork y) eqn:Em.
      + exists [], y. split; [reflexivity|]. split; [intros a []|]. split; [exact I|]. split; [exact Em|apply ldone_at_zero; assumption].
      + destruct (lprogress n y Hi) as (a & y1 & He & Hu & Hs); [lia|].
        pose proof (lstep_decreases n y a y1 Hi He Hu Hs) as Hd.
        destruct (IH y1) as (sched & y' & Hrun & Hne & Hau & Hw0 & Hdone); [lia|eapply linv_step; eauto|].
        exists (a :: sched), y'. cbn [lrun lall_useful]. rewrite Hs. split; [exact Hrun|].
        split; [intros b [<-|Hb]; [exact He|apply Hne; exact Hb]|]. auto. }
  intros y Hi. apply (Hind (lwork y)); [lia|exact Hi].
Qed.

Theorem lmaximal_useful_schedule_completes c lims bd sched y :
  1 <= c_n c -> c_maxr c = None -> c_soft c = None ->
  no_racy sched -> lall_useful (linit c lims bd) sched -> lrun (linit c lims bd) sched = Some y ->
  (forall a, is_racy a = false -> luseful y a = true -> limit_step y a = None) ->
  lcall_complete (length lims) y
  /\ (length sched <= list_sum (map (fun h => (8 + limw (py_or h (c_hard c)))%nat) lims))%nat.
Proof.
  intros Hn Hm Hs Hne Hu Hr Hstuck. split.
  - apply lcompletion; [|exact Hstuck]. eapply lrun_inv; [apply linv_init; eassumption|exact Hne|exact Hr].
  - eapply luseful_schedules_are_short; eauto.
Qed.

(* ================================================================== I. safety, for reachable states *)
Section LReachable.
Variable c : config.
Variable n : nat.
Hypothesis Hsize : 1 <= c_n c.
Hypothesis Hnolimit : c_maxr c = None.
Hypothesis Hnosoft : c_soft c = None.

Theorem lunresolved_iff_in_one_place y j : lreach c n y ->
  count_occ Z.eq_dec (ltokens y) j = if cunres (lpar y) j then 1%nat else 0%nat.
Proof.
  intros Hr. pose proof (lreach_inv c n y Hsize Hnolimit Hnosoft Hr) as H.
  change (count_occ Z.eq_dec (ltokens y) j) with (cnt j (ltokens y)).
  unfold ltokens, lstarted. rewrite !cnt_app. fold (pcnt j (running (lwk y) ++ live_readys (lpar y) (loutq y))).
  rewrite pcnt_app. unfold live_readys. rewrite (pcnt_filter_fst (cunres (lpar y))).
  destruct (cunres (lpar y) j) eqn:Hu.
  - pose proof (u_tok n y H j Hu) as X. rewrite pcnt_lst in X. lia.
  - pose proof (u_tok0 n y H j Hu) as X. lia.
Qed.

(* resolved once: by its own result, or failed by the timeout handler -- and then it had been
   accepted, it has a non-zero effective limit (its own if given, else the pool default), that limit
   had elapsed since acceptance, the error carries it, and the pool has a timeout handler.  No job is
   ever reported lost in this system. *)
Theorem lresolved_own_result_or_time_limit y k x : lreach c n y ->
  get_job (lpar y) k = Some x -> ready x = true -> lresolved_ok y k x.
Proof.
  intros Hr Hg Hrd. destruct (u_job n y (lreach_inv c n y Hsize Hnolimit Hnosoft Hr) k x Hg) as (_ & _ & _ & D & _ & _ & G).
  split; [exact Hrd|]. split; [|exact D]. destruct (G Hrd) as [G1|(G1 & G2 & G3 & G4 & G5 & G6)]; [left; exact G1|right; auto].
Qed.

Theorem lno_job_ever_marked_lost y k x : lreach c n y -> get_job (lpar y) k = Some x -> worker_lost x = None.
Proof. intros Hr Hg. exact (proj1 (proj2 (proj2 (u_job n y (lreach_inv c n y Hsize Hnolimit Hnosoft Hr) k x Hg)))). Qed.

(* D14 in the closed system: on a pool without a timeout handler (no default limits, timeouts not
   enabled) no job is ever timed out, whatever limit its call gave *)
Theorem no_scanner_never_times_out y k x h : lreach c n y -> scanner (lpar y) = false ->
  get_job (lpar y) k = Some x -> value x <> Some (PTimeLimit h).
Proof.
  intros Hr Hsc Hg Hv. destruct (u_job n y (lreach_inv c n y Hsize Hnolimit Hnosoft Hr) k x Hg) as (_ & _ & _ & _ & _ & F & G).
  destruct (ready x) eqn:Hrd.
  - destruct (G eq_refl) as [(G1 & _)|(_ & _ & _ & _ & G5 & _)]; [|congruence].
    rewrite G1 in Hv. unfold outcome_of in Hv. destruct (task_ok (lbad y) k); discriminate.
  - destruct (F eq_refl) as (_ & F2 & _). congruence.
Qed.

(* slots: free + unresolved jobs + workers killed and not yet reaped = bound *)
Theorem lslots_account y : lreach c n y -> putlocks (lpar y) = true ->
  LaxSem.value (sem (lpar y)) + Z.of_nat (nunres (lpar y)) + Z.of_nat (length (dead_workers (lpar y)))
  = LaxSem.bound (sem (lpar y)).
Proof. intros Hr. exact (u_sem n y (lreach_inv c n y Hsize Hnolimit Hnosoft Hr)). Qed.
End LReachable.

(* the scanner flag never changes, so "a pool without a timeout handler" is a property of the configuration *)
Lemma lstep_scanner n y a y' : LInv n y -> is_racy a = false -> limit_step y a = Some y' -> scanner (lpar y') = scanner (lpar y).
Proof.
  intros H He Hs. destruct a; try discriminate; cbn [limit_step] in Hs.
  - destruct (ltodo y) as [|h r]; [discriminate|]. pose proof (lframe_step (lpar y) (EApply None h None None) I) as LF.
    destruct (step (lpar y) (EApply None h None None)) as [s' r0]. destruct r0; try discriminate. inversion Hs; subst. apply LF.
  - destruct (ltaskq y); [discriminate|]. inversion Hs; reflexivity.
  - destruct (wk_get (lwk y) p) as [[?|]|]; try discriminate. destruct (linq y); [discriminate|]. inversion Hs; reflexivity.
  - destruct (wk_get (lwk y) p) as [[?|]|]; try discriminate. inversion Hs; reflexivity.
  - destruct (loutq y) as [|[j p|j p ok t] r]; [discriminate| |]; inversion Hs; subst; cbn [lpar].
    + apply (lframe_step (lpar y) (EAck j None p) I).
    + apply (lframe_step (lpar y) (EReady j None ok t) I).
  - destruct (scan_clean (lpar y) (lwk y)) eqn:Hc; [|discriminate]. inversion Hs; subst. unfold scan_to. cbn [lpar].
    destruct (lscan_spec (lpar y) lingers (linv_scan_pre n y H Hc)) as (_ & _ & _ & SF). apply SF.
  - destruct (drained (lpar y) (loutq y)); [|discriminate]. rewrite (ltick_to_par _ _ Hs). apply (lframe_step (lpar y) ETick I).
  - destruct (0 <? d); [|discriminate]. inversion Hs; subst. cbn [lpar]. apply (lframe_step (lpar y) (EAdvance d) I).
Qed.

Theorem lreach_scanner c n y : 1 <= c_n c -> c_maxr c = None -> c_soft c = None -> lreach c n y ->
  scanner (lpar y) = scanner (init c).
Proof.
  intros Hn Hm Hs H. induction H as [lims bd E|y a y' Hr IH He Hst]; [reflexivity|].
  rewrite <- IH. eapply lstep_scanner; eauto. eapply lreach_inv; eauto.
Qed.

(* whichever step (other than the racy scan) turns an unresolved job into one failed with
   TimeLimitExceeded is a scan of a pool that has a timeout handler, the job was overdue when the scan
   started (cached, accepted, its non-zero effective limit elapsed: [dueb_iff]), and the error
   carries the job's limit *)
Theorem time_limit_only_by_due_scan n y a y' k x x' h :
  LInv n y -> is_racy a = false -> limit_step y a = Some y' ->
  get_job (lpar y) k = Some x -> ready x = false ->
  get_job (lpar y') k = Some x' -> value x' = Some (PTimeLimit h) ->
  (exists l, a = LScan l) /\ scanner (lpar y) = true /\ dueb (lpar y) x = true /\ h = hard x.
Proof.
  intros H He Hs Hx Hr Hx' Hv.
  destruct (u_job n y H k x Hx) as (A & _ & _ & _ & _ & F & _). destruct (F Hr) as (Hic & Hvn & _).
  assert (Hsame : x' = x -> False) by (intros ->; congruence).
  destruct a; try discriminate.
  - exfalso. cbn [limit_step] in Hs. destruct (ltodo y) as [|h0 td]; [discriminate|].
    destruct (step (lpar y) (EApply None h0 None None)) as [s' r] eqn:Est. destruct r; try discriminate.
    inversion Hs; subst y'; clear Hs. cbn [lpar] in Hx'.
    destruct (lapply_spec _ _ _ (proj1 (u_nn n y H)) Est) as (_ & _ & _ & Hjobs & _).
    rewrite get_job_gj, Hjobs, gj_app_new, <- get_job_gj in Hx'.
    destruct (Z.eqb_spec k (Z.of_nat (length (jobs (lpar y))))) as [->|Hne]; [|apply Hsame; congruence].
    rewrite get_job_gj, gj_fresh in Hx. discriminate.
  - exfalso. cbn [limit_step] in Hs. destruct (ltaskq y); [discriminate|]. inversion Hs; subst y'. cbn [lpar] in Hx'. apply Hsame. congruence.
  - exfalso. cbn [limit_step] in Hs. destruct (wk_get (lwk y) p) as [[?|]|]; try discriminate. destruct (linq y); [discriminate|].
    inversion Hs; subst y'. cbn [lpar] in Hx'. apply Hsame. congruence.
  - exfalso. cbn [limit_step] in Hs. destruct (wk_get (lwk y) p) as [[?|]|]; try discriminate.
    inversion Hs; subst y'. cbn [lpar] in Hx'. apply Hsame. congruence.
  - exfalso. cbn [limit_step] in Hs.
    destruct (loutq y) as [|[j0 p0|j0 p0 ok t0] r]; [discriminate| |]; inversion Hs; subst y'; clear Hs; cbn [lpar] in Hx'.
    + destruct (cack_spec (lpar y) j0 p0) as (_ & _ & _ & _ & JM).
      { intros z Hz. exact (proj1 (u_job n y H j0 z Hz)). }
      rewrite JM, Hx in Hx'. cbn [option_map] in Hx'. inversion Hx'; subst x'.
      rewrite (proj1 (proj2 (ackf_fields (lpar y) j0 p0 k x))) in Hv. congruence.
    + destruct (cready_spec (lpar y) j0 ok t0) as (_ & _ & _ & _ & JM).
      { intros z Hz. exact (proj1 (u_job n y H j0 z Hz)). }
      rewrite JM, Hx in Hx'. cbn [option_map] in Hx'. inversion Hx'; subst x'. unfold readyf in Hv.
      destruct ((k =? j0) && incache x); [|congruence]. unfold apply_set in Hv. rewrite Hr in Hv. cbn in Hv.
      destruct ok; discriminate.
  - destruct (lscan_exact n y lingers y' H Hs) as (JM & _). rewrite JM, Hx in Hx'. cbn [option_map] in Hx'.
    inversion Hx'; subst x'; clear Hx'. unfold scang in Hv.
    destruct (scanner (lpar y)) eqn:Hsc; cbn [andb] in Hv; [|congruence].
    destruct (dueb (lpar y) x) eqn:Hd; [|congruence].
    unfold hard_result, apply_set in Hv. rewrite Hr in Hv. cbn in Hv. inversion Hv. eauto.
  - exfalso. cbn [limit_step] in Hs. destruct (drained (lpar y) (loutq y)) eqn:Hd; [|discriminate].
    destruct (ltick_facts n y y' H Hd Hs) as (Hjs & _). rewrite get_job_gj, Hjs, <- get_job_gj in Hx'. apply Hsame. congruence.
  - exfalso. cbn [limit_step] in Hs. destruct (0 <? d); [|discriminate]. inversion Hs; subst y'. cbn [lpar] in Hx'.
    destruct (cadvance_spec (lpar y) d) as (_ & _ & _ & JE).
    rewrite get_job_gj, JE, <- get_job_gj in Hx'. apply Hsame. congruence.
Qed.

(* ================================================================== J. the racy scan: a slot is lost, an innocent job is lost *)
(* Two workers, two slots.  Worker 0 finishes job 0 (limit 5) -- its READY is in the pipe -- and goes on
   to job 1 (limit 100).  The result handler is late: at 1009 the timeout handler still sees job 0
   unresolved, fails it and kills its owner, worker 0 -- which is executing job 1.  Job 1 is then
   reported lost (it was never overdue), and since the pool gives back one slot per reaped worker
   while that worker held two unresolved jobs, one slot is gone for good: everything is resolved,
   nothing is queued, the pool is at its size, and only one of the two slots is free.
   C05 "a job that finishes inside its limit is never timed out" and the slot accounting both fail for
   this interleaving; the positive theorems exclude it by excluding LScanRacy. *)
Definition racy_cfg := mkcfg 2 None (Some 5) None None 1 true false.
Definition racy_sched :=
  [LSubmit; LSubmit; LPut; LPut; LTake 0; LRecv; LFinish 0; LTake 0; LAdvance 9; LScanRacy false;
   LRecv; LRecv; LTick; LAdvance 11; LTick].

Theorem racy_scan_loses_a_slot :
  match lrun (linit racy_cfg [Some 5; Some 100] []) racy_sched with
  | Some y =>
    lidle y = true                                            (* nothing is left to do ... *)
    /\ map (fun x => (ready x, value x, hard x, time_accepted x)) (jobs (lpar y))
       = [(true, Some (PTimeLimit (Some 5)), Some 5, Some 1000);          (* job 0 had finished inside its limit *)
          (true, Some (PLost (-15) 1), Some 100, Some 1009)]              (* job 1 was never overdue *)
    /\ now (lpar y) = 1020
    /\ lwk y = [(1, None); (2, None)] /\ wlist (lpar y) = [1; 2]            (* the pool is at its size *)
    /\ LaxSem.value (sem (lpar y)) = 1 /\ LaxSem.bound (sem (lpar y)) = 2   (* ... and one slot is missing *)
    /\ length (filter is_racy racy_sched) = 1%nat
    (* ... for good: further passes, waits and scans do not bring it back *)
    /\ option_map (fun z => LaxSem.value (sem (lpar z))) (lrun y [LTick; LAdvance 50; LScan false; LTick]) = Some 1
  | None => False
  end.
Proof. vm_compute. repeat split; reflexivity. Qed.

(* ================================================================== K. non-vacuity *)
Fixpoint lall_usefulb (y : lsys) (sched : list lstep) : bool :=
  match sched with
  | [] => true
  | a :: r => luseful y a && match limit_step y a with Some y' => lall_usefulb y' r | None => true end
  end.
Lemma lall_usefulb_ok : forall sched y, lall_usefulb y sched = true -> lall_useful y sched.
Proof.
  induction sched as [|a r IH]; intros y H; cbn [lall_usefulb lall_useful] in *; [exact I|].
  apply andb_true_iff in H. destruct H as [H1 H2]. split; [exact H1|].
  destruct (limit_step y a); [apply IH; exact H2|exact I].
Qed.
Definition no_racyb (sched : list lstep) : bool := forallb (fun a => negb (is_racy a)) sched.
Lemma no_racyb_ok sched : no_racyb sched = true -> no_racy sched.
Proof. unfold no_racyb. rewrite forallb_forall. intros H a Ha. apply negb_true_iff. apply H. exact Ha. Qed.

Definition lshow (y : lsys) :=
  (map (fun x => (ready x, value x, hard x, time_accepted x, cb_succ x, cb_err x)) (jobs (lpar y)),
   lwk y, wlist (lpar y), now (lpar y), LaxSem.value (sem (lpar y))).

(* POOL SIZE ONE, one slot: job 0 (own limit 4, pool default 5) is accepted at 1000; at 1004 the scan
   fails it with TimeLimitExceeded(4) and signals worker 0 (TERM, then KILL: it lingers); the pass
   reaps it, gives the slot back and starts worker 1, which serves job 1 (no own limit: default 5) *)
Definition one_cfg := mkcfg 1 None (Some 5) None None 1 true false.
Definition one_sched :=
  [LSubmit; LPut; LTake 0; LRecv; LAdvance 4; LScan true; LTick; LSubmit; LPut; LTake 1; LRecv; LFinish 1; LRecv].

Example pool_of_one_survives_a_time_limit :
  option_map lshow (lrun (linit one_cfg [Some 4; None] []) one_sched)
  = Some ([(true, Some (PTimeLimit (Some 4)), Some 4, Some 1000, 0, 1);
           (true, Some (PValue 1), Some 5, Some 1004, 1, 0)], [(1, None)], [1], 1004, 1)
  /\ option_map (fun y => (sigs (lpar y), lwk y, LaxSem.value (sem (lpar y))))
                (lrun (linit one_cfg [Some 4; None] []) (firstn 6 one_sched))
     = Some ([(0, 15); (0, 9)], [], 0)
  /\ no_racyb one_sched = true /\ lall_usefulb (linit one_cfg [Some 4; None] []) one_sched = true
  /\ option_map lwork (lrun (linit one_cfg [Some 4; None] []) one_sched) = Some 0%nat.
Proof. vm_compute. repeat split; reflexivity. Qed.

Example pool_of_one_complete :
  match lrun (linit one_cfg [Some 4; None] []) one_sched with Some y => lcall_complete 2 y | None => False end.
Proof.
  destruct pool_of_one_survives_a_time_limit as (_ & _ & Hne & Hu & Hw).
  destruct (lrun (linit one_cfg [Some 4; None] []) one_sched) as [y|] eqn:Hr; [|discriminate].
  apply ldone_at_zero; [|cbn in Hw; congruence].
  eapply lrun_inv; [apply (linv_init one_cfg [Some 4; None] []); [cbn; lia|reflexivity|reflexivity]|apply no_racyb_ok; exact Hne|exact Hr].
Qed.

(* a worker that FINISHED LATE: the READY of job 0 is in the pipe when the scan fails the job; the
   idle worker is killed, the stale READY is ignored, the pass restores pool and slot *)
Example late_result_is_ignored :
  option_map lshow (lrun (linit one_cfg [None] []) [LSubmit; LPut; LTake 0; LRecv; LFinish 0; LAdvance 9; LScan false; LRecv; LTick])
  = Some ([(true, Some (PTimeLimit (Some 5)), Some 5, Some 1000, 0, 1)], [(1, None)], [1], 1009, 1)
  /\ lall_usefulb (linit one_cfg [None] []) [LSubmit; LPut; LTake 0; LRecv; LFinish 0; LAdvance 9; LScan false; LRecv; LTick] = true.
Proof. vm_compute. split; reflexivity. Qed.

(* the per-job limit takes precedence over the pool default, and the other job is not touched: job 0
   (own limit 2) is failed at 1002, job 1 (default 5, its task raises) keeps its own outcome; only
   worker 0 is signalled (TERM only: it does not linger) *)
Definition two_cfg := mkcfg 2 None (Some 5) None None 1 true false.
Definition two_sched :=
  [LSubmit; LSubmit; LPut; LPut; LTake 0; LTake 1; LRecv; LRecv; LAdvance 2; LScan false; LTick; LFinish 1; LRecv].
Example own_limit_first_and_no_other_job :
  option_map lshow (lrun (linit two_cfg [Some 2; None] [1]) two_sched)
  = Some ([(true, Some (PTimeLimit (Some 2)), Some 2, Some 1000, 0, 1);
           (true, Some (PExc 1), Some 5, Some 1000, 0, 1)], [(1, None); (2, None)], [1; 2], 1002, 2)
  /\ option_map (fun y => sigs (lpar y)) (lrun (linit two_cfg [Some 2; None] [1]) (firstn 10 two_sched)) = Some [(0, 15)]
  /\ no_racyb two_sched = true /\ lall_usefulb (linit two_cfg [Some 2; None] [1]) two_sched = true.
Proof. vm_compute. repeat split; reflexivity. Qed.

(* D14 in the closed system: a pool created without limits and without enable_timeouts has no timeout
   handler; the job's own limit 3 is enforced by nobody: 100 s later a "scan" does nothing, and the
   job resolves only because its worker finishes *)
Definition nosc_cfg := mkcfg 1 None None None None 1 false false.
Example limit_without_scanner_closed :
  scanner (init nosc_cfg) = false
  /\ option_map lshow (lrun (linit nosc_cfg [Some 3] []) [LSubmit; LPut; LTake 0; LRecv; LAdvance 100; LScan false])
     = Some ([(false, None, Some 3, Some 1000, 0, 0)], [(0, Some 0)], [0], 1100, 1)
  /\ option_map lshow (lrun (linit nosc_cfg [Some 3] []) [LSubmit; LPut; LTake 0; LRecv; LAdvance 100; LScan false; LFinish 0; LRecv])
     = Some ([(true, Some (PValue 0), Some 3, Some 1000, 1, 0)], [(0, None)], [0], 1100, 1).
Proof. vm_compute. repeat split; reflexivity. Qed.

Example check_limit_case_selftest :
  check_limit_case (one_cfg, [], [], [], [], [], true) = 0.
Proof. vm_compute. reflexivity. Qed.

(* ================================================================== L. assumptions *)
Print Assumptions lscan_spec.
Print Assumptions linv_step.
Print Assumptions lreach_inv.
Print Assumptions lreach_is_run.
Print Assumptions lreachE_is_run.
Print Assumptions lscan_exact.
Print Assumptions scan_fails_every_overdue_job.
Print Assumptions scan_touches_no_other_job.
Print Assumptions dueb_iff.
Print Assumptions time_limit_only_by_due_scan.
Print Assumptions limit_is_own_or_default.
Print Assumptions pass_restores_pool.
Print Assumptions lstep_decreases.
Print Assumptions luseful_schedules_are_finite.
Print Assumptions luseful_schedules_are_short.
Print Assumptions lprogress.
Print Assumptions lcompletion.
Print Assumptions lcan_always_complete.
Print Assumptions lmaximal_useful_schedule_completes.
Print Assumptions lunresolved_iff_in_one_place.
Print Assumptions lresolved_own_result_or_time_limit.
Print Assumptions lno_job_ever_marked_lost.
Print Assumptions no_scanner_never_times_out.
Print Assumptions lslots_account.
Print Assumptions lreach_scanner.
Print Assumptions racy_scan_loses_a_slot.
Print Assumptions pool_of_one_survives_a_time_limit.
Print Assumptions pool_of_one_complete.
Print Assumptions late_result_is_ignored.
Print Assumptions own_limit_first_and_no_other_job.
Print Assumptions limit_without_scanner_closed.
