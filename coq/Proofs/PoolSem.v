(* C10: in every reachable state the bound of the slot semaphore (plus the shrinks still
   waiting) is the configured pool size; together with SInv: 0 <= free slots <= size. *)
From Coq Require Import ZArith List Bool Lia ZifyBool.
From BV Require Import Lib.Cases Model.LaxSem Model.Restart Model.Pool
     Proofs.LaxSemProofs Proofs.PoolJobs Proofs.PoolInv Proofs.PoolSup.
Import ListNotations.
Open Scope Z_scope.

Definition sn (s : pool) := (sem s, nprocs s).

Lemma sn_scan_job l s j : sn (scan_job l s j) = sn s.
Proof.
  unfold scan_job. destruct (get_job s j) as [x|]; [|reflexivity].
  destruct (kind x); try reflexivity. destruct (time_accepted x) as [t|]; [|reflexivity].
  destruct (timed_out s (Some t) (eff_hard s x)).
  - unfold on_hard. destruct (ready x); [reflexivity|].
    destruct (owner x) as [p|]; [|reflexivity]. destruct (in_pool _ p); [|reflexivity].
    destruct (negb (exit_of _ p =? 0) && exited _ p); reflexivity.
  - destruct (negb (memZ j (dirty s)) && timed_out s (Some t) (eff_soft s x)); [|reflexivity].
    change (sn (with_dirty ?a ?b)) with (sn a). unfold on_soft. destruct (ready x); [reflexivity|].
    destruct (owner x) as [p|]; [|reflexivity]. destruct (in_pool s p); reflexivity.
Qed.

Definition SemB (s : pool) : Prop := LaxSem.bound (sem s) = nprocs s.

Lemma SemB_sn s s' : sn s' = sn s -> SemB s -> SemB s'.
Proof. unfold sn, SemB. intros H. inversion H as [[Hs Hn]]. rewrite Hs, Hn. auto. Qed.

Lemma bp_release x : LaxSem.bound (LaxSem.release x) = LaxSem.bound x.
Proof. unfold LaxSem.release. destruct (LaxSem.value x <? LaxSem.bound x); reflexivity. Qed.

Lemma bp_iter_release n x : LaxSem.bound (Nat.iter n LaxSem.release x) = LaxSem.bound x.
Proof.
  induction n as [|n IH]; [reflexivity|].
  change (Nat.iter (S n) LaxSem.release x) with (LaxSem.release (Nat.iter n LaxSem.release x)).
  rewrite bp_release. exact IH.
Qed.

Lemma bp_iter_grow n x : LaxSem.bound (Nat.iter n LaxSem.grow x) = LaxSem.bound x + Z.of_nat n.
Proof.
  induction n as [|n IH]; [unfold Nat.iter; cbn [nat_rect]; change (Z.of_nat 0) with 0; lia|].
  rewrite Nat2Z.inj_succ. change (Nat.iter (S n) LaxSem.grow x) with (LaxSem.grow (Nat.iter n LaxSem.grow x)).
  set (y := Nat.iter n LaxSem.grow x) in *.
  unfold LaxSem.grow. cbn [LaxSem.bound]. lia.
Qed.

Lemma SemB_shrink_loop : forall ws i n s, SemB s -> SemB (fst (shrink_loop ws i n s)).
Proof.
  induction ws as [|p r IH]; intros i n s H; cbn [shrink_loop fst]; [exact H|].
  match goal with |- SemB (fst (if ?c then (?a, _) else _)) => assert (Ha : SemB a) end.
  { unfold SemB in *. cbn [sem nprocs deliver set_proc with_sigs with_sem with_nprocs].
    unfold sstep, shrink_start.
    destruct ((0 <? LaxSem.value (mk_sem (LaxSem.value (sem s)) (LaxSem.bound (sem s) - 1) (LaxSem.pending (sem s) + 1)))
              && (0 <? LaxSem.pending (mk_sem (LaxSem.value (sem s)) (LaxSem.bound (sem s) - 1) (LaxSem.pending (sem s) + 1))));
      cbn [LaxSem.bound]; lia. }
  destruct (n - 1 <=? i); cbn [fst]; [exact Ha|apply IH; exact Ha].
Qed.

Lemma sn_join_exited s0 : sn (fst (join_exited s0)) = sn s0.
Proof. unfold join_exited. destruct (filter _ (rev _)); reflexivity. Qed.

Lemma sn_repopulate : forall fuel i cs s2, sn (fst (repopulate fuel i cs s2)) = sn s2.
Proof.
  induction fuel as [|f IH]; intros; cbn [repopulate]; [reflexivity|].
  destruct (negb (pstate s2 =? 0)); [reflexivity|].
  match goal with |- context [if ?c then Restart.step (rst s2) (now s2) else (rst s2, false)] =>
    destruct (if c then Restart.step (rst s2) (now s2) else (rst s2, false)) as [r raised] end.
  destruct raised; [reflexivity|].
  destruct (avail_index (with_rst s2 r)); [|reflexivity]. rewrite IH. reflexivity.
Qed.

Lemma SemB_do_tick s0 : SemB s0 -> SemB (fst (do_tick s0)).
Proof.
  intros H0. unfold do_tick. pose proof (sn_join_exited s0) as Hje.
  destruct (join_exited s0) as [s1 codes]. cbn [fst] in Hje.
  pose proof (sn_repopulate (Z.to_nat (nprocs s1 - Z.of_nat (length (wlist s1)))) 0%nat codes s1) as H1.
  destruct (repopulate _ 0 codes s1) as [s2 r]. cbn [fst] in H1.
  assert (H2 : SemB s2) by (apply (SemB_sn s0); [rewrite H1; exact Hje|exact H0]).
  destruct r; cbn [fst]; try exact H2.
  unfold release_n, SemB in *. cbn [sem nprocs with_sem]. rewrite bp_iter_release. exact H2.
Qed.

Lemma SemB_do_close s0 : SemB s0 -> SemB (do_close s0).
Proof. intros H. unfold do_close. destruct (pstate s0 =? 0); exact H. Qed.

Lemma SemB_do_tick_close s0 k : SemB s0 -> SemB (fst (do_tick_close s0 k)).
Proof.
  intros H0. unfold do_tick_close. pose proof (sn_join_exited s0) as Hje. pose proof (SemB_do_tick s0 H0) as Ht.
  destruct (join_exited s0) as [s1 codes]. cbn [fst] in Hje.
  destruct (Z.to_nat (nprocs s1 - Z.of_nat (length (wlist s1))) <=? k)%nat; [exact Ht|].
  pose proof (sn_repopulate (S k) 0%nat codes s1) as H1.
  destruct (repopulate (S k) 0 codes s1) as [s2 r]. cbn [fst] in H1.
  assert (H2 : SemB s2) by (apply (SemB_sn s0); [rewrite H1; exact Hje|exact H0]).
  destruct r; cbn [fst]; try exact H2.
  pose proof (SemB_do_close s2 H2) as H3.
  unfold release_n, SemB in *. cbn [sem nprocs with_sem]. rewrite bp_iter_release. exact H3.
Qed.

Theorem SemB_step s e : 0 <= match e with EGrow n => n | _ => 0 end -> SemB s -> SemB (fst (step s e)).
Proof.
  intros Hn H. destruct e; unfold step; cbn [fst]; try exact H.
  - unfold do_apply.
    destruct (negb (pstate (with_sigs s []) =? 0)); [exact H|].
    destruct ((match slot with Some b => b | None => putlocks (with_sigs s []) end) && (LaxSem.value (sem (with_sigs s [])) =? 0)); [exact H|]. cbn [fst].
    destruct (match slot with Some b => b | None => putlocks (with_sigs s []) end); [|exact H].
    unfold SemB in *. cbn [sem nprocs add_job with_sem with_sigs]. unfold sstep', sstep.
    destruct (0 <? LaxSem.value (sem s)); cbn [LaxSem.bound]; exact H.
  - unfold do_map. destruct (negb (pstate (with_sigs s []) =? 0)); exact H.
  - unfold do_imap. destruct (negb (pstate (with_sigs s []) =? 0)); exact H.
  - unfold do_imap. destruct (negb (pstate (with_sigs s []) =? 0)); exact H.
  - apply (feed_preserves (fun x n => LaxSem.bound x = n) (fun x n Hx => eq_trans (bp_release x) Hx) (with_sigs s []) fail_at io). exact H.
  - unfold do_ack. destruct (cached _ j) as [x|]; [|exact H].
    destruct (kind x); try exact H. destruct i; exact H.
  - unfold do_ready. destruct (cached _ j) as [x|]; [|exact H]. cbn [fst].
    assert (Hb : sn (bump_counter (with_sigs s []) x) = sn s).
    { unfold bump_counter. destruct (worker_pids x) as [|p0 l0]; [reflexivity|].
      destruct (in_pool _ p0); reflexivity. }
    unfold SemB. cbn [sem nprocs set_job].
    destruct (ready x).
    + inversion Hb as [[Hs Hn']]. rewrite Hs, Hn'. exact H.
    + cbn [sem nprocs with_sem]. inversion Hb as [[Hs Hn']]. rewrite Hs, Hn', bp_release. exact H.
  - (* tick *)
    apply (SemB_do_tick (with_sigs s [])). exact H.
  - (* scan *)
    apply (SemB_sn s); [|exact H].
    change (sn (with_todo (fst (do_scan (with_sigs s []) lingers)) []) = sn (with_sigs s [])).
    change (sn (with_todo ?a ?b)) with (sn a).
    generalize (with_sigs s []). intros s0. unfold do_scan.
    destruct (negb (scanner s0)); [reflexivity|]. cbn [fst].
    assert (Hfold : forall snap s1, sn (fold_left (scan_job lingers) snap s1) = sn s1).
    { induction snap as [|j snap IH]; intros s1; cbn; [reflexivity|]. rewrite IH. apply sn_scan_job. }
    rewrite Hfold. reflexivity.
  - destruct (negb (scanner _)); exact H.
  - destruct (scan_todo _) as [|j0 r0]; cbn [fst]; [exact H|].
    apply (SemB_sn s); [|exact H]. change (sn (with_todo ?a ?b)) with (sn a). rewrite sn_scan_job. reflexivity.
  - unfold do_terminate_job. destruct (in_pool _ p); exact H.
  - unfold SemB in *. cbn [sem nprocs with_sem with_nprocs with_sigs]. rewrite bp_iter_grow. cbn in Hn. lia.
  - unfold do_shrink. destruct (inactive _) as [|w ws]; [exact H|].
    destruct (LaxSem.value _ <? _); [exact H|]. apply SemB_shrink_loop. exact H.
  - apply (SemB_do_close (with_sigs s [])). exact H.
  - unfold do_next. destruct (get_job _ j) as [x|]; [|exact H].
    destruct (negb (is_imap x)); [exact H|].
    destruct (items x); [destruct (okey_eqb _ _)|]; exact H.
  - apply (SemB_do_tick_close (with_sigs s [])). exact H.
  - unfold do_join_shutdown. destruct (wlist _); cbn [fst]; [exact H|].
    apply (SemB_sn (with_sigs s [])); [apply sn_join_exited|exact H].
  - unfold do_apply_q, do_apply.
    destruct (negb (pstate (with_sigs s []) =? 0)); [exact H|].
    destruct ((match slot with Some b => b | None => putlocks (with_sigs s []) end) && (LaxSem.value (sem (with_sigs s [])) =? 0)); [exact H|]. cbn [fst].
    destruct (match slot with Some b => b | None => putlocks (with_sigs s []) end); [|exact H].
    unfold SemB in *. cbn [sem nprocs add_job with_sem with_sigs with_feeds]. unfold sstep', sstep.
    destruct (0 <? LaxSem.value (sem s)); cbn [LaxSem.bound]; exact H.
  - unfold do_apply_unsendable. destruct (negb (pstate _ =? 0)); [exact H|]. destruct (_ && _); exact H.
Qed.

Lemma SemB_init c : SemB (init c).
Proof.
  unfold init.
  assert (H : forall n i s, sn (start_n n i s) = sn s).
  { induction n as [|n IH]; intros; cbn; [reflexivity|]. rewrite IH. reflexivity. }
  apply (SemB_sn (mkpool [] [] [] (c_n c) (sem_init (c_n c)) (c_putlocks c)
                         (rs_init (c_maxr c) (match py_or (Some (c_maxt c)) (Some 1) with Some v => v | None => 1 end))
                         1000 0 (c_soft c) (c_hard c)
                         (match py_or (c_lost c) (Some 10) with Some v => v | None => 10 end)
                         (c_enable c || match c_hard c with Some _ => true | None => false end
                                     || match c_soft c with Some _ => true | None => false end)
                         [] [] [] [])); [apply H|].
  unfold SemB. cbn. lia.
Qed.

(* grow is only ever called with a non-negative count *)
Definition grows_nonneg (tr : list event) : Prop :=
  Forall (fun e => match e with EGrow n => 0 <= n | _ => True end) tr.

Theorem slots_match_size c tr :
  0 <= c_n c -> grows_nonneg tr ->
  let s := run c tr in
  LaxSem.bound (sem s) = nprocs s
  /\ 0 <= LaxSem.value (sem s) <= nprocs s + LaxSem.pending (sem s)
  /\ (LaxSem.pending (sem s) = 0 -> LaxSem.value (sem s) <= nprocs s).
Proof.
  intros Hn Hg s.
  assert (Hrun : forall tr0 s0, grows_nonneg tr0 -> SemB s0 -> SemB (fold_left (fun s e => fst (step s e)) tr0 s0)).
  { induction tr0 as [|e tr0 IH]; intros s0 Hg0 H0; cbn; [exact H0|].
    inversion Hg0 as [|e' l' He Hl]; subst. apply IH; [exact Hl|]. apply SemB_step; [|exact H0].
    destruct e; try lia. }
  pose proof (Hrun tr (init c) Hg (SemB_init c)) as Hb. fold (run c tr) in Hb. fold s in Hb.
  destruct (sem_reachable c tr Hn) as [H1 H2]. fold s in H1, H2.
  unfold SemB in Hb. split; [exact Hb|]. split; lia.
Qed.
